/-
C04 — line-protocol driver of the protocol model (core only). One model instance per
measurement; `switch`, `drop`, `closebegin`, `closefiles` are the flusher's / closer's steps
on the shard and apply to every instance.

  open <i> <m0,m1,…>                         → ok
  write <ms>/<s>:<t>:<k=v,…>;…               → ack | err closed
  switch | drop | closebegin | closefiles    → ok
  publish <ms> <ordered file|-> <out-of-order file|->  → ok
  query <client> <ms> asc|desc               → view act=… snap=… ord=… ooo=… rows …   (take, open cursors, read, release)
  take <vid> <client> <ms> asc|desc          → view act=… snap=… ord=… ooo=…          (take + open cursors)
  read <vid>                                 → rows …
  release <vid>                              → ok
  plan <ms> <f,…>                            → ok
  replace <ms> ord|ooo <old,…> <new,…>       → ok
  mergereplace <ms> <ooo group,…> <old,…> <new,…>  → ok
  dropooo <ms>                               → ok
  gc <ms> <f>                                → ok
  note …                                     → ok
A step that is not enabled in the model answers `bad-op`.
-/
import OG.C04.Model
import OG.C02.Driver

namespace OG.C04
open OG.C02 (Row parseRow readCells)

structure OpenView where
  vid : Nat
  ms : String
  asc : Bool

/-- The model keeps its two stores as functions (`Nat → Table`, `String → File`); a step wraps
the previous function in a closure, so an unbounded run would evaluate ever deeper chains.
After every line the driver replaces the stores by extensionally equal functions backed by a
list over the ids in use (tables below `nextTab`, the file names the run has mentioned). -/
def flatten (names : List FileId) (σ : St) : St :=
  let ts : List (Nat × Table) := (List.range σ.nextTab).map fun t => (t, σ.tables t)
  let fs : List (FileId × File) := names.map fun f => (f, σ.files f)
  { σ with
    tables := fun t => match ts.find? (·.1 == t) with
      | some p => p.2
      | none => {}
    files := fun f => match fs.find? (·.1 == f) with
      | some p => p.2
      | none => {} }

structure DSt where
  names : List FileId := []
  inst : List (String × St)
  -- per measurement: the vids of its open views, parallel to `St.views`
  vids : List (String × List Nat)
  dirs : List (Nat × Bool)

def DSt.empty : DSt := { inst := [], vids := [], dirs := [] }

def DSt.get (d : DSt) (ms : String) : Option St := (d.inst.find? (·.1 = ms)).map (·.2)

def DSt.set (d : DSt) (ms : String) (σ : St) : DSt :=
  { d with inst := d.inst.map fun p => if p.1 = ms then (ms, σ) else p }

def DSt.vidsOf (d : DSt) (ms : String) : List Nat := ((d.vids.find? (·.1 = ms)).map (·.2)).getD []

def DSt.setVids (d : DSt) (ms : String) (vs : List Nat) : DSt :=
  { d with vids := d.vids.map fun p => if p.1 = ms then (ms, vs) else p }

/-- apply a step to every instance; all must be enabled (or, with `skip`, be skipped where the
step is not enabled because the instance has no table being flushed). -/
def DSt.all (d : DSt) (f : St → Option St) (skip : St → Bool := fun _ => false) : Option DSt := do
  let inst ← d.inst.mapM fun (ms, σ) =>
    if skip σ then some (ms, σ) else (f σ).map fun σ' => (ms, σ')
  some { d with inst := inst }

def fieldNames : List String := ["fb", "ff", "fi", "fs"]

def showRows (rs : List (Nat × Int × List (Option String))) : String :=
  "rows " ++ String.intercalate "|" (rs.map fun (s, t, vs) =>
    toString s ++ ":" ++ toString t ++ ":" ++ String.intercalate "," (vs.map fun v => v.getD "_"))

def sortStrings (xs : List String) : List String := OG.C02.sortDistinct xs

def showView (v : View) : String :=
  "view act=" ++ (if v.act.isSome then "1" else "0") ++ " snap=" ++ (if v.snap.isSome then "1" else "0") ++
  " ord=" ++ String.intercalate "," (sortStrings v.ord) ++ " ooo=" ++ String.intercalate "," (sortStrings v.ooo)

def viewRows (σ : St) (v : View) (asc : Bool) : List (Nat × Int × List (Option String)) :=
  σ.readView v (-1000000) 1000000 asc fieldNames

def names (s : String) : List FileId := if s = "-" then [] else s.splitOn ","
def optName (s : String) : Option FileId := if s = "-" then none else some s

def parseMsRow (s : String) : Option (String × Row) :=
  match s.splitOn "/" with
  | [ms, r] => (parseRow r).map fun x => (ms, x)
  | _ => none

def stepOn (d : DSt) (ms : String) (f : St → Option St) : DSt × String :=
  match d.get ms with
  | none => (d, "bad-op")
  | some σ => match f σ with
    | some σ' => (d.set ms σ', "ok")
    | none => (d, "bad-op")

def step (d : DSt) (line : String) : DSt × String :=
  match (line.trimAscii.toString.splitOn " ").filter (· ≠ "") with
  | "note" :: _ => (d, "ok")
  | ["open", _, mss] =>
    let ms := mss.splitOn ","
    ({ names := [], inst := ms.map fun m => (m, St.init), vids := ms.map fun m => (m, []), dirs := [] }, "ok")
  | ["write", rows] =>
    match (rows.splitOn ";").mapM parseMsRow with
    | none => (d, "bad-op")
    | some rs =>
      if d.inst.any (·.2.closed) then (d, "err closed")
      else
        -- one atomic step: every measurement of the batch gets its rows
        let r := d.inst.mapM fun (ms, σ) =>
          let b := (rs.filter (·.1 = ms)).map (·.2)
          if b.isEmpty then some (ms, σ) else (σ.write b).map fun σ' => (ms, σ')
        if rs.any (fun p => (d.get p.1).isNone) then (d, "bad-op")
        else match r with
          | some inst => ({ d with inst := inst }, "ack")
          | none => (d, "bad-op")
  | ["switch"] =>
    match d.all St.switch with
    | some d' => (d', "ok")
    | none => (d, "bad-op")
  | ["drop"] =>
    if d.inst.all (fun p => p.2.snapshot.isNone) then (d, "bad-op")
    else match d.all St.dropSnapshot with
      | some d' => (d', "ok")
      | none => (d, "bad-op")
  | ["closebegin"] =>
    match d.all St.closeBegin with
    | some d' => (d', "ok")
    | none => (d, "bad-op")
  | ["closefiles"] =>
    match d.all St.closeFiles with
    | some d' => (d', "ok")
    | none => (d, "bad-op")
  | ["publish", ms, o, u] => stepOn d ms fun σ => σ.publish (optName o) (optName u)
  | ["plan", ms, fs] => stepOn d ms fun σ => σ.plan (names fs)
  | ["replace", ms, "ord", old, new] => stepOn d ms fun σ => σ.replaceOrd (names old) (names new)
  | ["replace", ms, "ooo", old, new] => stepOn d ms fun σ => σ.replaceOoo (names old) (names new)
  | ["mergereplace", ms, grp, old, new] =>
    stepOn d ms fun σ => σ.mergeReplace (names grp) (names old) (names new)
  | ["dropooo", ms] => stepOn d ms St.dropOoo
  | ["gc", ms, f] => stepOn d ms fun σ => σ.gc f
  | ["query", c, ms, dir] =>
    match c.toNat?, d.get ms with
    | some cl, some σ =>
      match σ.takeView cl with
      | none => (d, "bad-op")
      | some σ1 =>
        let i := σ1.views.length - 1
        match σ1.openCursors i with
        | none => (d, "bad-op")
        | some σ2 =>
          match σ2.views[i]? with
          | none => (d, "bad-op")
          | some v =>
            let rows := viewRows σ2 v (dir == "asc")
            match σ2.release i with
            | none => (d, "bad-op")
            | some σ3 =>
              (d.set ms σ3,
                if !σ2.readable v then "err closed"
                else if rows.isEmpty then "view none rows " else showView v ++ " " ++ showRows rows)
    | _, _ => (d, "bad-op")
  | ["take", vid, c, ms, dir] =>
    match vid.toNat?, c.toNat?, d.get ms with
    | some id, some cl, some σ =>
      match σ.takeView cl with
      | none => (d, "bad-op")
      | some σ1 =>
        let i := σ1.views.length - 1
        match σ1.openCursors i with
        | none => (d, "bad-op")
        | some σ2 =>
          match σ2.views[i]? with
          | none => (d, "bad-op")
          | some v =>
            let d' := (d.set ms σ2).setVids ms (d.vidsOf ms ++ [id])
            ({ d' with dirs := (id, dir == "asc") :: d'.dirs }, showView v)
    | _, _, _ => (d, "bad-op")
  | ["read", vid] =>
    match vid.toNat? with
    | none => (d, "bad-op")
    | some id =>
      match d.vids.find? (fun p => p.2.contains id) with
      | none => (d, "bad-op")
      | some (ms, vs) =>
        match d.get ms, d.dirs.find? (·.1 = id) with
        | some σ, some (_, asc) =>
          match σ.views[vs.idxOf id]? with
          | some v => (d, if σ.readable v then showRows (viewRows σ v asc) else "err closed")
          | none => (d, "bad-op")
        | _, _ => (d, "bad-op")
  | ["release", vid] =>
    match vid.toNat? with
    | none => (d, "bad-op")
    | some id =>
      match d.vids.find? (fun p => p.2.contains id) with
      | none => (d, "bad-op")
      | some (ms, vs) =>
        match d.get ms with
        | none => (d, "bad-op")
        | some σ =>
          let i := vs.idxOf id
          match σ.release i with
          | some σ' => ((d.set ms σ').setVids ms (vs.eraseIdx i), "ok")
          | none => (d, "bad-op")
  | _ => (d, "bad-op")

/-- file names a line mentions (anything that looks like a data file). -/
def lineNames (line : String) : List FileId :=
  ((line.trimAscii.toString.splitOn " ").flatMap fun w => w.splitOn ",").filter fun w => w.endsWith ".tssp"

def stepFlat (d : DSt) (line : String) : DSt × String :=
  let names := (lineNames line).foldl (fun ns n => if ns.contains n then ns else n :: ns)
    (if line.startsWith "open" then [] else d.names)
  let (d', o) := step { d with names := names } line
  ({ d' with names := names, inst := d'.inst.map fun p => (p.1, flatten names p.2) }, o)

partial def loop (h : IO.FS.Stream) (out : IO.FS.Stream) (d : DSt) : IO Unit := do
  let line ← h.getLine
  if line.isEmpty then return ()
  let (d', o) := stepFlat d line
  out.putStrLn o
  loop h out d'

def main : IO Unit := do
  loop (← IO.getStdin) (← IO.getStdout) DSt.empty

end OG.C04
