/-
C04 — view invariant `InvV`: every open view reads, key by key, exactly a prefix of the
acknowledgement history that contains everything acknowledged before the view was taken;
no view holds a memtable together with a file made from it.
-/
import OG.C04.Layout

namespace OG.C04
open OG.C02 (Cell Key lookup Row batchCells isOrdered updLastFlush lastFlushOf Equiv lookup_append)

structure InvV (σ : St) : Prop where
  sound : ∀ v ∈ σ.views, v.ok = true → Equiv (σ.viewCells v) v.seen
  chain : ∀ v ∈ σ.views, v.base <:+ v.seen ∧ v.seen <:+ σ.hist
  cur : ∀ v ∈ σ.views, ∀ a, σ.active = some a → v.act = some a → v.mem = none → v.seen = σ.hist
  src : ∀ v ∈ σ.views, ∀ t, (v.act = some t ∨ v.snap = some t) → ∀ f ∈ v.ooo ++ v.ord, t ∉ (σ.files f).srcs
  srcF : ∀ f, (σ.files f).present = true → ∀ t ∈ (σ.files f).srcs,
    (σ.tables t).flushed = true ∧ t < σ.nextTab

theorem invV_init : InvV St.init := by
  refine ⟨?_, ?_, ?_, ?_, ?_⟩ <;> simp [St.init]

theorem viewCells_def (σ : St) (v : View) : σ.viewCells v =
    σ.memCells v ++ fileCells σ.files v.ooo ++ fileCells σ.files v.ord := rfl

theorem viewCells_congr (σ σ' : St) (v : View)
    (ht : v.mem = none → ∀ t, (v.act = some t ∨ v.snap = some t) → (σ'.tables t).cells = (σ.tables t).cells)
    (hf : ∀ f ∈ v.ooo ++ v.ord, (σ'.files f).cells = (σ.files f).cells) :
    σ'.viewCells v = σ.viewCells v := by
  rw [viewCells_def, viewCells_def]
  have h1 : σ'.memCells v = σ.memCells v := by
    unfold St.memCells
    cases hm : v.mem with
    | some m => rfl
    | none =>
      simp only []
      rw [tabCells_congr σ σ' v.act (fun t h => ht hm t (Or.inl h)),
        tabCells_congr σ σ' v.snap (fun t h => ht hm t (Or.inr h))]
  rw [h1, fileCells_congr _ _ _ (fun f h => hf f (by simp [h])),
    fileCells_congr _ _ _ (fun f h => hf f (by simp [h]))]

/-- steps that neither add a view nor change what an existing view reads. -/
theorem frame_invV {σ σ' : St} (hr : InvR σ) (hv : InvV σ) (hviews : σ'.views = σ.views)
    (hhist : σ'.hist = σ.hist)
    (hact : ∀ a, σ'.active = some a → σ.active = some a ∨ ∀ v ∈ σ.views, v.act ≠ some a)
    (htab : ∀ v ∈ σ.views, ∀ t, (v.act = some t ∨ v.snap = some t) →
      (σ'.tables t).cells = (σ.tables t).cells)
    (hfile : ∀ f, (σ.files f).present = true →
      (σ'.files f).cells = (σ.files f).cells ∧ (σ'.files f).srcs = (σ.files f).srcs)
    (hsrcF : ∀ f, (σ'.files f).present = true → ∀ t ∈ (σ'.files f).srcs,
      (σ'.tables t).flushed = true ∧ t < σ'.nextTab) :
    InvV σ' := by
  have hcells : ∀ v ∈ σ.views, σ'.viewCells v = σ.viewCells v := by
    intro v hvm
    apply viewCells_congr
    · intro _ t ht; exact htab v hvm t ht
    · intro f hf; exact (hfile f (hr.viewFiles v hvm f hf).1).1
  refine ⟨?_, ?_, ?_, ?_, hsrcF⟩
  · intro v hvm hok
    rw [hviews] at hvm
    rw [hcells v hvm]; exact hv.sound v hvm hok
  · intro v hvm
    rw [hviews] at hvm
    rw [hhist]; exact hv.chain v hvm
  · intro v hvm a ha hva hm
    rw [hviews] at hvm
    rw [hhist]
    rcases hact a ha with h | h
    · exact hv.cur v hvm a h hva hm
    · exact absurd hva (h v hvm)
  · intro v hvm t ht f hf
    rw [hviews] at hvm
    rw [(hfile f (hr.viewFiles v hvm f hf).1).2]
    exact hv.src v hvm t ht f hf


theorem suffix_append_left {α : Type} (a : List α) {b c : List α} (h : b <:+ c) : b <:+ a ++ c := by
  obtain ⟨t, ht⟩ := h
  exact ⟨a ++ t, by rw [List.append_assoc, ht]⟩

theorem write_invV {σ σ' : St} {b : List Row} (hr : InvR σ) (hv : InvV σ)
    (h : σ.write b = some σ') : InvV σ' := by
  obtain ⟨a, ha, _, hσ⟩ := write_spec h
  have htb : σ'.tables = upd σ.tables a { σ.tables a with cells := batchCells b ++ (σ.tables a).cells } := by
    rw [hσ]
  have hvs : σ'.views = σ.views.map fun v =>
      if v.act = some a ∧ v.mem = none then { v with seen := batchCells b ++ v.seen } else v := by rw [hσ]
  have hf : σ'.files = σ.files ∧ σ'.hist = batchCells b ++ σ.hist ∧ σ'.active = σ.active ∧
      σ'.nextTab = σ.nextTab := by rw [hσ]; simp
  obtain ⟨hfl, hhist, hact, hnt⟩ := hf
  -- what each view reads after the write
  have hcells : ∀ v ∈ σ.views,
      σ'.viewCells v = if v.act = some a ∧ v.mem = none then batchCells b ++ σ.viewCells v else σ.viewCells v := by
    intro v hvm
    have hsn : v.snap ≠ some a := fun e => hr.viewSnapNe v hvm a e ha
    rw [viewCells_def, viewCells_def, hfl]
    by_cases hc : v.act = some a ∧ v.mem = none
    · simp only [hc, and_self, if_true]
      have : σ'.memCells v = batchCells b ++ σ.memCells v := by
        simp only [St.memCells, hc.2, hc.1]
        have e1 : σ'.tabCells (some a) = batchCells b ++ σ.tabCells (some a) := by simp [St.tabCells, htb]
        have e2 : σ'.tabCells v.snap = σ.tabCells v.snap := by
          apply tabCells_congr
          intro t ht
          have : t ≠ a := fun e => hsn (e ▸ ht)
          rw [htb, upd_other _ _ _ _ this]
        rw [e1, e2]; simp
      rw [this]; simp
    · simp only [hc, if_false]
      have : σ'.memCells v = σ.memCells v := by
        unfold St.memCells
        cases hm : v.mem with
        | some m => rfl
        | none =>
          have hna : v.act ≠ some a := fun e => hc ⟨e, hm⟩
          simp only []
          rw [tabCells_congr σ σ' v.act (fun t ht => by
                have : t ≠ a := fun e => hna (e ▸ ht)
                rw [htb, upd_other _ _ _ _ this]),
              tabCells_congr σ σ' v.snap (fun t ht => by
                have : t ≠ a := fun e => hsn (e ▸ ht)
                rw [htb, upd_other _ _ _ _ this])]
      rw [this]
  refine ⟨?_, ?_, ?_, ?_, ?_⟩
  · intro w hw hok
    rw [hvs] at hw
    simp only [List.mem_map] at hw
    obtain ⟨v, hvm, rfl⟩ := hw
    by_cases hc : v.act = some a ∧ v.mem = none
    · rw [if_pos hc] at hok ⊢
      have e : σ'.viewCells { v with seen := batchCells b ++ v.seen } = σ'.viewCells v := rfl
      rw [e, hcells v hvm, if_pos hc]
      exact Equiv.append_left _ (hv.sound v hvm hok)
    · rw [if_neg hc] at hok ⊢
      rw [hcells v hvm, if_neg hc]; exact hv.sound v hvm hok
  · intro w hw
    rw [hvs] at hw
    simp only [List.mem_map] at hw
    obtain ⟨v, hvm, rfl⟩ := hw
    have hch := hv.chain v hvm
    rw [hhist]
    by_cases hc : v.act = some a ∧ v.mem = none
    · rw [if_pos hc]
      have := hv.cur v hvm a ha hc.1 hc.2
      show v.base <:+ batchCells b ++ v.seen ∧ batchCells b ++ v.seen <:+ batchCells b ++ σ.hist
      rw [this]
      exact ⟨suffix_append_left _ (this ▸ hch.1), List.suffix_refl _⟩
    · rw [if_neg hc]
      exact ⟨hch.1, suffix_append_left _ hch.2⟩
  · intro w hw a' ha' hwa hwm
    rw [hvs] at hw
    simp only [List.mem_map] at hw
    obtain ⟨v, hvm, rfl⟩ := hw
    rw [hact, ha] at ha'
    simp only [Option.some.injEq] at ha'; subst ha'
    rw [hhist]
    by_cases hc : v.act = some a ∧ v.mem = none
    · rw [if_pos hc]
      show batchCells b ++ v.seen = batchCells b ++ σ.hist
      rw [hv.cur v hvm a ha hc.1 hc.2]
    · rw [if_neg hc] at hwa hwm
      exact absurd ⟨hwa, hwm⟩ hc
  · intro w hw t ht f hf
    rw [hvs] at hw
    simp only [List.mem_map] at hw
    obtain ⟨v, hvm, rfl⟩ := hw
    rw [hfl]
    by_cases hc : v.act = some a ∧ v.mem = none
    · rw [if_pos hc] at ht hf
      exact hv.src v hvm t ht f hf
    · rw [if_neg hc] at ht hf
      exact hv.src v hvm t ht f hf
  · intro f hp t ht
    rw [hfl] at hp ht
    have := hv.srcF f hp t ht
    rw [htb, hnt]
    refine ⟨?_, this.2⟩
    by_cases hta : t = a
    · subst hta; simp only [upd_same]; exact this.1
    · rw [upd_other _ _ _ _ hta]; exact this.1

theorem switch_invV {σ σ' : St} (hr : InvR σ) (hv : InvV σ) (h : σ.switch = some σ') : InvV σ' := by
  obtain ⟨a, ha, _, hσ⟩ := switch_spec h
  have htb : σ'.tables = upd σ.tables σ.nextTab { refs := 1 } := by rw [hσ]
  have hfl : σ'.files = σ.files := by rw [hσ]
  have hnt : σ'.nextTab = σ.nextTab + 1 := by rw [hσ]
  apply frame_invV hr hv (by rw [hσ]) (by rw [hσ])
  · intro x hx
    right
    have : x = σ.nextTab := by rw [hσ] at hx; simpa using hx.symm
    subst this
    intro v hvm e
    have := (hr.viewLt v hvm).1 _ e; omega
  · intro v hvm t ht
    have hlt : t < σ.nextTab := by
      rcases ht with ht | ht
      · exact (hr.viewLt v hvm).1 t ht
      · exact (hr.viewLt v hvm).2 t ht
    have : t ≠ σ.nextTab := by omega
    rw [htb, upd_other _ _ _ _ this]
  · intro f _; rw [hfl]; exact ⟨rfl, rfl⟩
  · intro f hp t ht
    rw [hfl] at hp ht
    have := hv.srcF f hp t ht
    have hne : t ≠ σ.nextTab := by omega
    rw [htb, upd_other _ _ _ _ hne, hnt]
    exact ⟨this.1, by omega⟩

theorem addOpt2_cases (F : FileId → File) (o u : Option FileId) (x y : File) (g : FileId) :
    addOpt (addOpt F o x) u y g = F g ∨ addOpt (addOpt F o x) u y g = x ∨ addOpt (addOpt F o x) u y g = y := by
  cases o with
  | none =>
    cases u with
    | none => exact Or.inl rfl
    | some b =>
      by_cases h : g = b
      · right; right; simp [addOpt, upd, h]
      · left; simp [addOpt, upd, h]
  | some a =>
    cases u with
    | none =>
      by_cases h : g = a
      · right; left; simp [addOpt, upd, h]
      · left; simp [addOpt, upd, h]
    | some b =>
      by_cases h : g = b
      · right; right; simp [addOpt, upd, h]
      · by_cases h' : g = a
        · right; left; subst h'; simp [addOpt, upd, h]
        · left; simp [addOpt, upd, h, h']

theorem publish_invV {σ σ' : St} {ordN oooN : Option FileId} (hr : InvR σ) (hv : InvV σ)
    (h : σ.publish ordN oooN = some σ') : InvV σ' := by
  obtain ⟨t, ht, _, _, _, _, ho, hu, _, hσ⟩ := publish_spec h
  have htb : σ'.tables = upd σ.tables t { σ.tables t with flushed := true } := by rw [hσ]
  have hfl : σ'.files = addOpt (addOpt σ.files ordN (newFile ((σ.tables t).cells.filter (isOrdered σ.lastFlush)) [t]))
      oooN (newFile ((σ.tables t).cells.filter (fun c => !isOrdered σ.lastFlush c)) [t]) := by rw [hσ]
  have hnt : σ'.nextTab = σ.nextTab := by rw [hσ]
  have hflush : ∀ x, (σ.tables x).flushed = true → (σ'.tables x).flushed = true := by
    intro x hx
    rw [htb]
    by_cases hxt : x = t
    · subst hxt; simp
    · rw [upd_other _ _ _ _ hxt]; exact hx
  apply frame_invV hr hv (by rw [hσ]) (by rw [hσ])
  · intro x hx; left; rw [hσ] at hx; exact hx
  · intro v _ x _
    rw [htb]
    by_cases hxt : x = t
    · subst hxt; simp
    · rw [upd_other _ _ _ _ hxt]
  · intro f hp; rw [hfl, addOpt2_old _ _ _ _ _ _ hp ho hu]; exact ⟨rfl, rfl⟩
  · intro f hp x hx
    rw [hnt]
    rw [hfl] at hp hx
    rcases addOpt2_cases σ.files ordN oooN
      (newFile ((σ.tables t).cells.filter (isOrdered σ.lastFlush)) [t])
      (newFile ((σ.tables t).cells.filter (fun c => !isOrdered σ.lastFlush c)) [t]) f with e | e | e
    · rw [e] at hp hx
      have := hv.srcF f hp x hx
      exact ⟨hflush x this.1, this.2⟩
    · rw [e] at hx
      simp only [newFile, List.mem_singleton] at hx
      subst hx
      exact ⟨by rw [htb]; simp, hr.snapLt x ht⟩
    · rw [e] at hx
      simp only [newFile, List.mem_singleton] at hx
      subst hx
      exact ⟨by rw [htb]; simp, hr.snapLt x ht⟩

theorem dropSnapshot_invV {σ σ' : St} (hr : InvR σ) (hv : InvV σ) (h : σ.dropSnapshot = some σ') :
    InvV σ' := by
  obtain ⟨t, ht, _, hσ⟩ := dropSnapshot_spec h
  have htb : σ'.tables = unrefT σ.tables (some t) := by rw [hσ]
  have hfl : σ'.files = σ.files := by rw [hσ]
  have hnt : σ'.nextTab = σ.nextTab := by rw [hσ]
  apply frame_invV hr hv (by rw [hσ]) (by rw [hσ])
  · intro x hx; left; rw [hσ] at hx; exact hx
  · intro v hvm x hx
    rw [htb]
    apply (unrefT_fields σ.tables (some t) x).2.2.2.2
    by_cases hxt : t = x
    · right
      subst hxt
      have h1 := hr.trefs t
      have h2 := tholders_pos_of_holds hvm hx
      have : σ.own t = 1 := by simp [St.own, ht]
      omega
    · left; simpa using hxt
  · intro f _; rw [hfl]; exact ⟨rfl, rfl⟩
  · intro f hp x hx
    rw [hfl] at hp hx
    have := hv.srcF f hp x hx
    rw [htb, (unrefT_fields σ.tables (some t) x).2.1, hnt]
    exact this


theorem takeView_invV {σ σ' : St} {c : Nat} (hr : InvR σ) (hl : InvL σ) (hv : InvV σ)
    (h : σ.takeView c = some σ') : InvV σ' := by
  obtain ⟨_, hσ⟩ := takeView_spec h
  have htb : σ'.tables = refT (refT σ.tables σ.active) σ.snapView := by rw [hσ]
  have hfl : σ'.files = refFiles σ.files (σ.ooo ++ σ.ord) := by rw [hσ]
  have hvs : σ'.views = σ.views ++ [σ.newView c] := by rw [hσ]
  have hf : σ'.hist = σ.hist ∧ σ'.active = σ.active ∧ σ'.nextTab = σ.nextTab := by rw [hσ]; simp
  obtain ⟨hhist, hact, hnt⟩ := hf
  have htc : ∀ t, (σ'.tables t).cells = (σ.tables t).cells ∧ (σ'.tables t).flushed = (σ.tables t).flushed := by
    intro t
    rw [htb]
    have h1 := refT_fields (refT σ.tables σ.active) σ.snapView t
    have h2 := refT_fields σ.tables σ.active t
    exact ⟨by rw [h1.2.1, h2.2.1], by rw [h1.2.2.1, h2.2.2.1]⟩
  have hfc : ∀ f, (σ'.files f).cells = (σ.files f).cells ∧ (σ'.files f).srcs = (σ.files f).srcs ∧
      (σ'.files f).present = (σ.files f).present := by
    intro f; rw [hfl, refFiles_apply]; exact ⟨rfl, rfl, rfl⟩
  have hcells : ∀ v, σ'.viewCells v = σ.viewCells v := by
    intro v
    exact viewCells_congr _ _ _ (fun _ t _ => (htc t).1) (fun f _ => (hfc f).1)
  have hnew : σ.viewCells (σ.newView c) = σ.layout := rfl
  refine ⟨?_, ?_, ?_, ?_, ?_⟩
  · intro v hvm hok
    rw [hvs] at hvm
    simp only [List.mem_append, List.mem_singleton] at hvm
    rw [hcells]
    rcases hvm with hvm | rfl
    · exact hv.sound v hvm hok
    · rw [hnew]
      apply hl.layout
      simpa [St.newView] using hok
  · intro v hvm
    rw [hvs] at hvm
    simp only [List.mem_append, List.mem_singleton] at hvm
    rw [hhist]
    rcases hvm with hvm | rfl
    · exact hv.chain v hvm
    · exact ⟨List.suffix_refl _, List.suffix_refl _⟩
  · intro v hvm a ha hva hm
    rw [hvs] at hvm
    simp only [List.mem_append, List.mem_singleton] at hvm
    rw [hhist]
    rw [hact] at ha
    rcases hvm with hvm | rfl
    · exact hv.cur v hvm a ha hva hm
    · rfl
  · intro v hvm t ht f hf
    rw [hvs] at hvm
    simp only [List.mem_append, List.mem_singleton] at hvm
    rw [(hfc f).2.1]
    rcases hvm with hvm | rfl
    · exact hv.src v hvm t ht f hf
    · intro hts
      have hp := (hr.listedOK f hf).1
      have hfl := (hv.srcF f hp t hts).1
      rcases ht with ht | ht
      · have := hr.actFresh t ht; rw [hfl] at this; cases this
      · have := (snapView_some ht).2; rw [hfl] at this; cases this
  · intro f hp t ht
    rw [(hfc f).2.2] at hp
    rw [(hfc f).2.1] at ht
    rw [(htc t).2, hnt]
    exact hv.srcF f hp t ht

theorem loaderRef_invV {σ σ' : St} (hr : InvR σ) (hv : InvV σ)
    (h : σ.loaderRef = some σ') : InvV σ' := by
  obtain ⟨_, hσ⟩ := loaderRef_spec h
  have hfl : σ'.files = refFiles σ.files (σ.ooo ++ σ.ord) := by rw [hσ]
  have hvs : σ'.views = σ.views ++ [σ.loaderView] := by rw [hσ]
  have hf : σ'.hist = σ.hist ∧ σ'.active = σ.active ∧ σ'.nextTab = σ.nextTab ∧ σ'.tables = σ.tables := by
    rw [hσ]; simp
  obtain ⟨hhist, hact, hnt, htb⟩ := hf
  have hfc : ∀ f, (σ'.files f).cells = (σ.files f).cells ∧ (σ'.files f).srcs = (σ.files f).srcs ∧
      (σ'.files f).present = (σ.files f).present := by
    intro f; rw [hfl, refFiles_apply]; exact ⟨rfl, rfl, rfl⟩
  have hcells : ∀ v, σ'.viewCells v = σ.viewCells v := by
    intro v
    exact viewCells_congr _ _ _ (fun _ t _ => by rw [htb]) (fun f _ => (hfc f).1)
  refine ⟨?_, ?_, ?_, ?_, ?_⟩
  · intro v hvm hok
    rw [hvs] at hvm
    simp only [List.mem_append, List.mem_singleton] at hvm
    rw [hcells]
    rcases hvm with hvm | rfl
    · exact hv.sound v hvm hok
    · simp [St.loaderView] at hok
  · intro v hvm
    rw [hvs] at hvm
    simp only [List.mem_append, List.mem_singleton] at hvm
    rw [hhist]
    rcases hvm with hvm | rfl
    · exact hv.chain v hvm
    · exact ⟨List.suffix_refl _, List.suffix_refl _⟩
  · intro v hvm a ha hva hm
    rw [hvs] at hvm
    simp only [List.mem_append, List.mem_singleton] at hvm
    rw [hhist]
    rw [hact] at ha
    rcases hvm with hvm | rfl
    · exact hv.cur v hvm a ha hva hm
    · simp [St.loaderView] at hva
  · intro v hvm t ht f hf
    rw [hvs] at hvm
    simp only [List.mem_append, List.mem_singleton] at hvm
    rw [(hfc f).2.1]
    rcases hvm with hvm | rfl
    · exact hv.src v hvm t ht f hf
    · simp [St.loaderView] at ht
  · intro f hp t ht
    rw [(hfc f).2.2] at hp
    rw [(hfc f).2.1] at ht
    rw [htb, hnt]
    exact hv.srcF f hp t ht

theorem openCursors_invV {σ σ' : St} {i : Nat} (hv : InvV σ)
    (h : σ.openCursors i = some σ') : InvV σ' := by
  obtain ⟨v, hvi, hm, hσ⟩ := openCursors_spec h
  have hvm : v ∈ σ.views := List.mem_of_getElem? hvi
  have hvs : σ'.views = σ.views.set i { v with mem := some (σ.tabCells v.act ++ σ.tabCells v.snap) } := by
    rw [hσ]
  have hf : σ'.hist = σ.hist ∧ σ'.active = σ.active ∧ σ'.nextTab = σ.nextTab ∧ σ'.tables = σ.tables ∧
      σ'.files = σ.files := by rw [hσ]; simp
  obtain ⟨hhist, hact, hnt, htb, hfl⟩ := hf
  have hcells : ∀ w, σ'.viewCells w = σ.viewCells w := by
    intro w
    exact viewCells_congr _ _ _ (fun _ t _ => by rw [htb]) (fun f _ => by rw [hfl])
  have hopened : σ.viewCells { v with mem := some (σ.tabCells v.act ++ σ.tabCells v.snap) } = σ.viewCells v := by
    simp only [viewCells_def, St.memCells, hm]
  have hcase : ∀ w ∈ σ'.views, w ∈ σ.views ∨ w = { v with mem := some (σ.tabCells v.act ++ σ.tabCells v.snap) } := by
    intro w hw
    rw [hvs] at hw
    rcases mem_set_cases hw with h1 | h1
    · exact Or.inr h1
    · exact Or.inl h1
  refine ⟨?_, ?_, ?_, ?_, ?_⟩
  · intro w hw hok
    rw [hcells]
    rcases hcase w hw with hw | rfl
    · exact hv.sound w hw hok
    · rw [hopened]; exact hv.sound v hvm hok
  · intro w hw
    rw [hhist]
    rcases hcase w hw with hw | rfl
    · exact hv.chain w hw
    · exact hv.chain v hvm
  · intro w hw a ha hwa hwm
    rw [hhist]
    rw [hact] at ha
    rcases hcase w hw with hw | rfl
    · exact hv.cur w hw a ha hwa hwm
    · cases hwm
  · intro w hw t ht f hf
    rw [hfl]
    rcases hcase w hw with hw | rfl
    · exact hv.src w hw t ht f hf
    · exact hv.src v hvm t ht f hf
  · intro f hp t ht
    rw [hfl] at hp ht
    rw [htb, hnt]; exact hv.srcF f hp t ht

theorem release_invV {σ σ' : St} {i : Nat} (hr : InvR σ) (hv : InvV σ)
    (h : σ.release i = some σ') : InvV σ' := by
  obtain ⟨v, hvi, hσ⟩ := release_spec h
  have htb : σ'.tables = unrefT (unrefT σ.tables v.act) v.snap := by rw [hσ]
  have hfl : σ'.files = unrefFiles σ.files (v.ooo ++ v.ord) := by rw [hσ]
  have hvs : σ'.views = σ.views.eraseIdx i := by rw [hσ]
  have hf : σ'.hist = σ.hist ∧ σ'.active = σ.active ∧ σ'.nextTab = σ.nextTab := by rw [hσ]; simp
  obtain ⟨hhist, hact, hnt⟩ := hf
  have hsub : ∀ w ∈ σ'.views, w ∈ σ.views := fun w hw => List.mem_of_mem_eraseIdx (hvs ▸ hw)
  have hfc : ∀ f, (σ'.files f).cells = (σ.files f).cells ∧ (σ'.files f).srcs = (σ.files f).srcs ∧
      (σ'.files f).present = (σ.files f).present := by
    intro f; rw [hfl, unrefFiles_apply]; exact ⟨rfl, rfl, rfl⟩
  have hcells : ∀ w ∈ σ'.views, σ'.viewCells w = σ.viewCells w := by
    intro w hw
    apply viewCells_congr
    · intro _ t ht
      rw [htb]
      exact (release_table_cells hr hvi t (Or.inr ⟨w, hvs ▸ hw, ht⟩)).1
    · intro f _; exact (hfc f).1
  refine ⟨?_, ?_, ?_, ?_, ?_⟩
  · intro w hw hok
    rw [hcells w hw]; exact hv.sound w (hsub w hw) hok
  · intro w hw; rw [hhist]; exact hv.chain w (hsub w hw)
  · intro w hw a ha hwa hwm
    rw [hhist]; rw [hact] at ha
    exact hv.cur w (hsub w hw) a ha hwa hwm
  · intro w hw t ht f hf
    rw [(hfc f).2.1]; exact hv.src w (hsub w hw) t ht f hf
  · intro f hp t ht
    rw [(hfc f).2.2] at hp
    rw [(hfc f).2.1] at ht
    have := hv.srcF f hp t ht
    rw [htb, (unrefT_fields _ v.snap t).2.1, (unrefT_fields _ v.act t).2.1, hnt]
    exact this

theorem plan_invV {σ σ' : St} {fs : List FileId} (hr : InvR σ) (hv : InvV σ)
    (h : σ.plan fs = some σ') : InvV σ' := by
  have hσ := plan_spec h
  apply frame_invV hr hv (by rw [hσ]) (by rw [hσ])
  · intro x hx; left; rw [hσ] at hx; exact hx
  · intro v _ t _; rw [hσ]
  · intro f _; rw [hσ]; exact ⟨rfl, rfl⟩
  · intro f hp t ht; rw [hσ] at hp ht ⊢; exact hv.srcF f hp t ht

theorem gc_invV {σ σ' : St} {f : FileId} (hr : InvR σ) (hv : InvV σ)
    (h : σ.gc f = some σ') : InvV σ' := by
  obtain ⟨_, _, hσ⟩ := gc_spec h
  have hfl : σ'.files = upd σ.files f { σ.files f with pending := false, unlinked := true } := by rw [hσ]
  have hfc : ∀ g, (σ'.files g).cells = (σ.files g).cells ∧ (σ'.files g).srcs = (σ.files g).srcs ∧
      (σ'.files g).present = (σ.files g).present := by
    intro g
    rw [hfl]
    by_cases hg : g = f
    · subst hg; simp
    · rw [upd_other _ _ _ _ hg]; exact ⟨rfl, rfl, rfl⟩
  apply frame_invV hr hv (by rw [hσ]) (by rw [hσ])
  · intro x hx; left; rw [hσ] at hx; exact hx
  · intro v _ t _; rw [hσ]
  · intro g _; exact ⟨(hfc g).1, (hfc g).2.1⟩
  · intro g hp t ht
    rw [(hfc g).2.2] at hp
    rw [(hfc g).2.1] at ht
    have := hv.srcF g hp t ht
    rw [hσ]; exact this

theorem closeBegin_invV {σ σ' : St} (hr : InvR σ) (hv : InvV σ)
    (h : σ.closeBegin = some σ') : InvV σ' := by
  obtain ⟨_, hσ⟩ := closeBegin_spec h
  apply frame_invV hr hv (by rw [hσ]) (by rw [hσ])
  · intro x hx; rw [hσ] at hx; cases hx
  · intro v _ t _; rw [hσ]
  · intro f _; rw [hσ]; exact ⟨rfl, rfl⟩
  · intro f hp t ht; rw [hσ] at hp ht ⊢; exact hv.srcF f hp t ht

theorem closeFiles_invV {σ σ' : St} (hr : InvR σ) (hv : InvV σ)
    (h : σ.closeFiles = some σ') : InvV σ' := by
  obtain ⟨_, _, _, _, hσ⟩ := closeFiles_spec h
  apply frame_invV hr hv (by rw [hσ]) (by rw [hσ])
  · intro x hx; left; rw [hσ] at hx; exact hx
  · intro v _ t _; rw [hσ]
  · intro f _; rw [hσ]; exact ⟨rfl, rfl⟩
  · intro f hp t ht; rw [hσ] at hp ht ⊢; exact hv.srcF f hp t ht

/-- every rewrite of the file lists keeps the views: files that existed keep rows and sources,
new files carry sources of files that existed. -/
theorem rewrite_invV {σ σ' : St} (hr : InvR σ) (hv : InvV σ) (old new : List FileId)
    (cells : List Cell) (srcs : List Nat) (hf : allFresh σ.files new = true)
    (hfl : σ'.files = retireFiles (addNew σ.files cells srcs new) old)
    (hsrcs : ∀ t ∈ srcs, ∃ g, (σ.files g).present = true ∧ t ∈ (σ.files g).srcs)
    (hviews : σ'.views = σ.views) (hhist : σ'.hist = σ.hist) (hact : σ'.active = σ.active)
    (htb : σ'.tables = σ.tables) (hnt : σ'.nextTab = σ.nextTab) : InvV σ' := by
  have hfresh := allFresh_mem hf
  apply frame_invV hr hv hviews hhist
  · intro x hx; left; rw [hact] at hx; exact hx
  · intro v _ t _; rw [htb]
  · intro f hp
    have hgn : f ∉ new := fun hm => by rw [hfresh f hm] at hp; cases hp
    have h1 := retireFiles_fields old (addNew σ.files cells srcs new) f
    rw [addNew_not_mem _ _ _ _ _ hgn] at h1
    rw [hfl]; exact ⟨h1.1, h1.2.1⟩
  · intro f hp t ht
    rw [hfl] at hp ht
    have h1 := retireFiles_fields old (addNew σ.files cells srcs new) f
    rw [h1.2.2.2.1] at hp
    rw [h1.2.1] at ht
    rw [htb, hnt]
    by_cases hfn : f ∈ new
    · rw [(addNew_mem cells srcs new σ.files f hfn).2.2.2.2.1] at ht
      obtain ⟨g, hg, htg⟩ := hsrcs t ht
      exact hv.srcF g hg t htg
    · rw [addNew_not_mem _ _ _ _ _ hfn] at hp ht
      exact hv.srcF f hp t ht

theorem srcsOf_present {σ : St} (fs : List FileId) (hp : ∀ f ∈ fs, (σ.files f).present = true) :
    ∀ t ∈ srcsOf σ.files fs, ∃ g, (σ.files g).present = true ∧ t ∈ (σ.files g).srcs := by
  intro t ht
  obtain ⟨f, hf, htf⟩ := mem_srcsOf.1 ht
  exact ⟨f, hp f hf, htf⟩

theorem replaceOrd_invV {σ σ' : St} {old new : List FileId} (hr : InvR σ) (hv : InvV σ)
    (h : σ.replaceOrd old new = some σ') : InvV σ' := by
  obtain ⟨pre, post, ho, hok, hσ⟩ := replaceOrd_spec h
  apply rewrite_invV hr hv old new (fileCells σ.files old) (srcsOf σ.files old) hok.2.2.2.1 (by rw [hσ])
    _ (by rw [hσ]) (by rw [hσ]) (by rw [hσ]) (by rw [hσ]) (by rw [hσ])
  apply srcsOf_present
  intro f hf
  exact (hr.listedOK f (by rw [ho]; simp [hf])).1

theorem replaceOoo_invV {σ σ' : St} {old new : List FileId} (hr : InvR σ) (hv : InvV σ)
    (h : σ.replaceOoo old new = some σ') : InvV σ' := by
  obtain ⟨pre, post, ho, hok, _, hσ⟩ := replaceOoo_spec h
  apply rewrite_invV hr hv old new (fileCells σ.files old) (srcsOf σ.files old) hok.2.2.2.1 (by rw [hσ])
    _ (by rw [hσ]) (by rw [hσ]) (by rw [hσ]) (by rw [hσ]) (by rw [hσ])
  apply srcsOf_present
  intro f hf
  exact (hr.listedOK f (by rw [ho]; simp [hf])).1

theorem mergeReplace_invV {σ σ' : St} {grp old new : List FileId} (hr : InvR σ) (hv : InvV σ)
    (h : σ.mergeReplace grp old new = some σ') : InvV σ' := by
  obtain ⟨pre, post, ho, hok, _, _, hsuf, _, hσ⟩ := mergeReplace_spec h
  apply rewrite_invV hr hv old new (fileCells σ.files grp ++ fileCells σ.files old)
    (srcsOf σ.files grp ++ srcsOf σ.files old) hok.2.2.2.1 (by rw [hσ])
    _ (by rw [hσ]) (by rw [hσ]) (by rw [hσ]) (by rw [hσ]) (by rw [hσ])
  intro t ht
  rw [← srcsOf_append] at ht
  apply srcsOf_present (grp ++ old) _ t ht
  intro f hf
  simp only [List.mem_append] at hf
  rcases hf with hf | hf
  · exact (hr.listedOK f (by rw [← hsuf]; simp [hf])).1
  · exact (hr.listedOK f (by rw [ho]; simp [hf])).1

theorem dropOoo_invV {σ σ' : St} (hr : InvR σ) (hv : InvV σ)
    (h : σ.dropOoo = some σ') : InvV σ' := by
  obtain ⟨grp, _, _, hσ⟩ := dropOoo_spec h
  apply rewrite_invV hr hv grp [] [] [] (by simp [allFresh]) (by rw [hσ]; simp [addNew])
    _ (by rw [hσ]) (by rw [hσ]) (by rw [hσ]) (by rw [hσ]) (by rw [hσ])
  intro t ht; cases ht

theorem step_invV {σ σ' : St} (a : Act) (hr : InvR σ) (hl : InvL σ) (hv : InvV σ)
    (h : σ.step a = some σ') : InvV σ' := by
  cases a with
  | write b => exact write_invV hr hv h
  | switch => exact switch_invV hr hv h
  | publish o u => exact publish_invV hr hv h
  | dropSnapshot => exact dropSnapshot_invV hr hv h
  | takeView c => exact takeView_invV hr hl hv h
  | loaderRef => exact loaderRef_invV hr hv h
  | openCursors i => exact openCursors_invV hv h
  | readView i =>
    simp only [St.step] at h
    split at h
    · cases h; exact hv
    · cases h
  | release i => exact release_invV hr hv h
  | plan fs => exact plan_invV hr hv h
  | replaceOrd old new => exact replaceOrd_invV hr hv h
  | replaceOoo old new => exact replaceOoo_invV hr hv h
  | mergeReplace grp old new => exact mergeReplace_invV hr hv h
  | dropOoo => exact dropOoo_invV hr hv h
  | gc f => exact gc_invV hr hv h
  | closeBegin => exact closeBegin_invV hr hv h
  | closeFiles => exact closeFiles_invV hr hv h

theorem reach_invV {σ : St} (h : Reach σ) : InvV σ := by
  induction h with
  | init => exact invV_init
  | step a hreach hs ih => exact step_invV a (reach_invR hreach) (reach_invL hreach) ih hs

end OG.C04
