/-
C11 — helper lemmas: what the two merge walks compute, the sort, the group lookup, the
over-approximation lemma for `getConditionTags`, and soundness of the loop of `TargetShards`.
-/
import OG.C11.StrLemmas
import OG.C11.Model

namespace OG.C11

/-! ### the shard-key string as a function of (names, values) -/

/-- `buf` followed by `,k=f k` for every name, in order: what both walks build. -/
def keyStrFrom (buf : String) (ks : List String) (f : String → String) : String :=
  ks.foldl (fun acc k => acc ++ "," ++ k ++ "=" ++ f k) buf

@[simp] theorem keyStrFrom_nil (buf f) : keyStrFrom buf [] f = buf := rfl
@[simp] theorem keyStrFrom_cons (buf k ks f) :
    keyStrFrom buf (k :: ks) f = keyStrFrom (buf ++ "," ++ k ++ "=" ++ f k) ks f := rfl

theorem keyStrFrom_append (buf a b f) :
    keyStrFrom buf (a ++ b) f = keyStrFrom (keyStrFrom buf a f) b f := by
  simp [keyStrFrom, List.foldl_append]

theorem keyStrFrom_eq_append (buf ks f) : keyStrFrom buf ks f = buf ++ keyStrFrom "" ks f := by
  induction ks generalizing buf with
  | nil => simp
  | cons k ks ih =>
    rw [keyStrFrom_cons, ih, keyStrFrom_cons, ih ("" ++ "," ++ k ++ "=" ++ f k)]
    simp [String.append_assoc]

/-- a point's tags carry at most one value per key (the line-protocol parser sorts them and
`CheckDuplicateTag` rejects a repeated key). -/
def KeysUnique (tags : List Tag) : Prop := tags.Pairwise (fun a b => a.1 ≠ b.1)

theorem tagVal_cons (t : Tag) (ts : List Tag) (k : String) :
    tagVal (t :: ts) k = if k = t.1 then t.2 else tagVal ts k := by
  obtain ⟨tk, tv⟩ := t
  simp only [tagVal, List.lookup_cons]
  by_cases h : k = tk
  · simp [h]
  · have : (k == tk) = false := by simpa using h
    simp [this, h]

theorem tagVal_of_mem {tags : List Tag} (hu : KeysUnique tags) : ∀ t ∈ tags, t.2 = tagVal tags t.1 := by
  induction tags with
  | nil => simp
  | cons a as ih =>
    intro t ht
    rw [KeysUnique, List.pairwise_cons] at hu
    rw [tagVal_cons]
    rcases List.mem_cons.1 ht with h | h
    · simp [h]
    · have hne : t.1 ≠ a.1 := fun e => hu.1 t h e.symm
      simp [hne]
      exact ih hu.2 t h

/-! ### the write-side walk -/

theorem keyWalk_spec (f : String → String) (ts : List Tag) (h : ∀ t ∈ ts, t.2 = f t.1) :
    ∀ key buf sk, keyWalk key ts buf = .ok sk → sk = keyStrFrom buf key f := by
  induction ts with
  | nil =>
    intro key buf sk hk
    cases key with
    | nil => simp [keyWalk, dupTail] at hk; simp [hk]
    | cons k ks => simp [keyWalk] at hk
  | cons t ts ih =>
    intro key buf sk hk
    cases key with
    | nil =>
      simp only [keyWalk] at hk
      split at hk
      · cases hk
      · simp at hk; simp [hk]
    | cons k ks =>
      simp only [keyWalk] at hk
      split at hk
      · cases hk
      · split at hk
        · cases hk
        · split at hk
          · rename_i hkt
            have h1 := ih (fun t' ht' => h t' (List.mem_cons_of_mem _ ht')) ks _ sk hk
            rw [h1, keyStrFrom_cons, appendShardKey, hkt, h t (List.mem_cons_self)]
          · exact ih (fun t' ht' => h t' (List.mem_cons_of_mem _ ht')) (k :: ks) buf sk hk

/-- what `UnmarshalShardKeyByTag` leaves in `r.ShardKey` when there is a shard key -/
theorem shardKeyOf_spec {name : String} {key : List String} {tags : List Tag} {sk : String}
    (hk : key ≠ []) (hu : KeysUnique tags) (h : shardKeyOf name key tags = .ok sk) :
    sk = keyStrFrom name key (tagVal tags) := by
  unfold shardKeyOf at h
  have : key.isEmpty = false := by cases key <;> simp_all
  rw [this] at h
  exact keyWalk_spec (tagVal tags) tags (tagVal_of_mem hu) key name sk h

/-! ### the read-side walk -/

theorem readWalk_spec (f : String → String) (ts : List Tag) (h : ∀ t ∈ ts, t.2 = f t.1) :
    ∀ key buf, ∃ m, m ≤ key.length ∧
      readWalk key ts buf = (keyStrFrom buf (key.take m) f, key.length - m) := by
  induction ts with
  | nil =>
    intro key buf
    refine ⟨0, Nat.zero_le _, ?_⟩
    cases key <;> simp [readWalk]
  | cons t ts ih =>
    intro key buf
    cases key with
    | nil => exact ⟨0, Nat.zero_le _, by simp [readWalk]⟩
    | cons k ks =>
      simp only [readWalk]
      split
      · exact ⟨0, Nat.zero_le _, by simp⟩
      · split
        · rename_i hkt
          obtain ⟨m, hm, he⟩ := ih (fun t' ht' => h t' (List.mem_cons_of_mem _ ht')) ks
            (buf ++ "," ++ t.1 ++ "=" ++ t.2)
          refine ⟨m + 1, by simp; omega, ?_⟩
          rw [he, List.take_succ_cons, keyStrFrom_cons, hkt, h t (List.mem_cons_self)]
          simp
        · obtain ⟨m, hm, he⟩ := ih (fun t' ht' => h t' (List.mem_cons_of_mem _ ht')) (k :: ks) buf
          exact ⟨m, hm, he⟩

theorem readWalk_missing_le (ts : List Tag) : ∀ (key : List String) (buf : String),
    (readWalk key ts buf).2 ≤ key.length := by
  induction ts with
  | nil => intro key buf; cases key <;> simp [readWalk]
  | cons t ts ih =>
    intro key buf
    cases key with
    | nil => simp [readWalk]
    | cons k ks =>
      simp only [readWalk]
      split
      · simp
      · split
        · have := ih ks (buf ++ "," ++ t.1 ++ "=" ++ t.2)
          simp only [List.length_cons]; omega
        · exact ih (k :: ks) buf

/-! ### `sort.Sort` on a tag group keeps the tags -/

theorem mem_insertTag {t x : Tag} {l : List Tag} : x ∈ insertTag t l ↔ x = t ∨ x ∈ l := by
  induction l with
  | nil => simp [insertTag]
  | cons u us ih =>
    simp only [insertTag]
    split
    · simp
    · simp [ih]; grind

theorem mem_sortTags {x : Tag} {g : List Tag} : x ∈ sortTags g ↔ x ∈ g := by
  unfold sortTags
  suffices h : ∀ acc, x ∈ g.foldl (fun acc t => insertTag t acc) acc ↔ x ∈ g ∨ x ∈ acc by simpa using h []
  induction g with
  | nil => simp
  | cons t ts ih =>
    intro acc
    simp only [List.foldl_cons, ih, mem_insertTag, List.mem_cons]
    grind

/-- the sorted group is ordered by key (not needed for soundness; shows the model's sort sorts) -/
theorem sorted_insertTag {t : Tag} {l : List Tag} (h : l.Pairwise (fun a b => a.1 ≤ b.1)) :
    (insertTag t l).Pairwise (fun a b => a.1 ≤ b.1) := by
  induction l with
  | nil => simp [insertTag]
  | cons u us ih =>
    rw [List.pairwise_cons] at h
    simp only [insertTag]
    split
    · rename_i hlt
      refine List.pairwise_cons.2 ⟨?_, List.pairwise_cons.2 h⟩
      intro b hb
      rcases List.mem_cons.1 hb with e | hb
      · subst e; grind
      · have := h.1 b hb; grind
    · rename_i hge
      refine List.pairwise_cons.2 ⟨?_, ih h.2⟩
      intro b hb
      rcases mem_insertTag.1 hb with e | hb
      · subst e; exact String.not_lt.1 hge
      · exact h.1 b hb

theorem sorted_sortTags (g : List Tag) : (sortTags g).Pairwise (fun a b => a.1 ≤ b.1) := by
  unfold sortTags
  suffices h : ∀ acc : List Tag, acc.Pairwise (fun a b => a.1 ≤ b.1) →
      (g.foldl (fun acc t => insertTag t acc) acc).Pairwise (fun a b => a.1 ≤ b.1) from h [] List.Pairwise.nil
  induction g with
  | nil => intro acc h; simpa using h
  | cons t ts ih => intro acc h; exact ih _ (sorted_insertTag h)

end OG.C11
