/-
C11 — the hint path of the shard mapper: `ShardGroupInfo.TargetShardsHintQuery`
(`/*+ full_series */`, `/*+ specific_series */`; lib/util/lifted/influx/meta/shardinfo.go).

When the condition yields exactly one tag group the shard of "the" series is computed from that
group and only that shard is read. `fixed = true` is the code after /repo fix (the key is built
with the measurement's shard key, range sharding uses `DestShard`, every failure falls back to all
alive shards); `fixed = false` is the code as it was: the key was built from ALL tags of the group
whatever the shard key, and always hashed. Core Lean only.
-/
import OG.C11.Model

namespace OG.C11

/-- `r.UnmarshalShardKeyByTag(nil)` with its error ignored (as written): every tag of the group,
up to a repeated key. -/
def allTagsKeyIgnoringErr (sk : String) : List Tag → String
  | [] => sk
  | t :: ts => if dupAt (t :: ts) then sk else allTagsKeyIgnoringErr (appendShardKey sk t) ts

/-- `getShardsAndSeriesKeyForHintQuery(tagsGroup[0], alive, mst, ski)`. -/
def hintShards (fixed : Bool) (hash : String → Nat) (M : Meta) (g : Group) (grp : List Tag) :
    Option (List Shard) :=
  let tags := sortTags grp
  if fixed then
    match shardKeyOf M.name M.key tags with
    | .error _ => g.allAlive
    | .ok sk =>
      if M.range then
        match g.DestShard sk with
        | some s => some [s]
        | none => g.allAlive
      else
        match hashInput M sk with
        | none => none
        | some hk =>
          match g.ShardFor (hash hk) g.shardIdxes with
          | none => none
          | some none => g.allAlive
          | some (some s) => some [s]
  else
    let sk := allTagsKeyIgnoringErr M.name tags
    match hashInput M sk with
    | none => none
    | some hk =>
      match g.ShardFor (hash hk) g.shardIdxes with
      | none => none
      | some none => none   -- `*shard` with shard == nil
      | some (some s) => some [s]

/-- `TargetShardsHintQuery(mst, ski, condition, opt, alive)`. `specific` = the hint is
`specific_series`: the group must name as many tags as the schema has (its second test, that
every name of the group is in the schema, always holds: `conditionTagsByBinary` only answers with
schema tags). -/
def targetShardsHint (fixed : Bool) (cap : Nat) (hash : String → Nat) (M : Meta) (g : Group)
    (c : Option Cond) (specific : Bool) : Option (List Shard) :=
  match c.bind (condTags true cap M.schemaTags) with
  | some [grp] =>
    if specific && M.schemaTags.length != grp.length then g.allAlive
    else hintShards fixed hash M g grp
  | _ => g.allAlive

end OG.C11
