/-
C11 — the write side as the stateful fold it is.

`PointsWriter.routeAndMapOriginRows` (coordinator/points_writer.go) walks the rows of one write
batch and carries state from row to row:

  writeHelper.preMst     the measurement `createMeasurement` looked up last
  writeHelper.sameMst    `sameMeasurement(name)`: preMst.OriginName() == name, computed BEFORE
                         `createMeasurement` replaces preMst
  writeHelper.preSg      the shard group `createShardGroup` returned last (fast path: it still
                         `Contains` the timestamp)
  ctx.shardKeyInfo       the ShardKeyInfo resolved last; refreshed when `!sameSg || !sameMst`
  ctx.aliveShardIdxes    `GetAliveShards(sg)` of the cached group; refreshed when `!sameSg`;
                         an empty list forces `sameSg = false`

`stepRow` transcribes one iteration (non-stream rows, TSSTORE, `SchemaCleanEn` off), `routeBatch`
is the fold. `fixA` / `fixB` select the repaired code (/repo commits 2191e92, 0905d80):
  fixA = false: a row dropped by the schema check (after `createMeasurement`, before
                `updateShardGroupAndShardKey`) leaves the cached state as it is;
  fixB = false: the alive list is stored only after the shard-key stage, so a row rejected for a
                missing shard key at a group change leaves the previous group's list behind.
`pointStep` is the same decision taken statelessly for one row (group by timestamp, the
measurement's own shard key for that group, that group's alive list): the single-point mapping
the read side is proved against.

The catalogue is a snapshot: measurements and groups do not change during a batch (the harness
creates the groups a batch needs beforehand). Core Lean only.
-/
import OG.C11.Model

namespace OG.C11

/-- `meta.ShardKeyInfo`: key (sorted; `[]` = nil), type, first shard group id it applies to. -/
structure SKI where
  key : List String
  range : Bool
  sg : Nat
deriving Repr, DecidableEq

/-- `meta.MeasurementInfo`, what the routing reads. -/
structure Mst where
  /-- `OriginName()`: the name rows carry on the wire -/
  origin : String
  /-- `Name` (with version suffix): what `r.Name` is set to, prefix of the shard key -/
  name : String
  /-- `ShardKeys`, oldest first (`AlterShardKey` appends) -/
  shardKeys : List SKI
  schemaTags : List String
  /-- `InitNumOfShards != 0` -/
  initShards : Bool
  /-- `ShardIdexes` -/
  shardIdxes : List (Nat × List Nat)
deriving Repr, DecidableEq

/-- database + retention policy as the writer sees them. `Group.mstIdx` is not used here (the
per-measurement list lives in `Mst.shardIdxes`); `Group.alive` is `GetAliveShards(g)`. -/
structure Catalogue where
  /-- `di.ShardKey` when `len(di.ShardKey.ShardKey) > 0` -/
  dbKey : Option SKI
  msts : List Mst
  groups : List Group
deriving Repr

/-- what happens to a row before the routing stage; decided by the generator of the row. -/
inductive Pre where
  /-- nothing -/
  | ok
  /-- dropped before `sameMeasurement` (time out of range, `fixFields` type conflict) -/
  | early
  /-- `createMeasurement` answers `InvalidMeasurement`: dropped, `preMst` not replaced -/
  | badMst
  /-- dropped by `updateSchemaIfNeeded` (after `createMeasurement`), e.g. every field conflicts
  with the schema -/
  | schemaDrop
deriving Repr, DecidableEq

structure Row where
  mst : String
  pre : Pre
  p : Point
deriving Repr, DecidableEq

inductive DropKind where
  | early | badMst | schema | missingShardKey | keyTooLarge
deriving Repr, DecidableEq

inductive AbortKind where
  | noMst | noGroup | noShardKey | unmarshal (e : WErr) | map2shard | panic
deriving Repr, DecidableEq

/-- outcome of one row -/
inductive Step where
  | routed (r : Routed)
  /-- counted in `dropped`, the batch goes on (partial error) -/
  | dropped (k : DropKind)
  /-- `routeAndMapOriginRows` returns the error: nothing of the batch is written -/
  | abort (k : AbortKind)
deriving Repr, DecidableEq

def Step.isAbort : Step → Bool
  | .abort _ => true
  | _ => false

/-- `MeasurementInfo.GetShardKey(ID)`. -/
def Mst.getShardKey (m : Mst) (gid : Nat) : Option SKI :=
  m.shardKeys.reverse.find? (fun k => decide (k.sg ≤ gid))

/-- `mi.ShardIdexes[sg.ID]` (a missing entry is an empty list; the re-fetch of the measurement
gives the same under a constant catalogue). -/
def Mst.idxFor (m : Mst) (gid : Nat) : List Nat :=
  match m.shardIdxes.lookup gid with | some l => l | none => []

/-- the lookup `client.Measurement(db, rp, name)`. -/
def Catalogue.findMst (C : Catalogue) (origin : String) : Option Mst :=
  C.msts.find? (fun m => m.origin == origin)

/-- `if len(di.ShardKey.ShardKey) > 0 { &di.ShardKey } else { mi.GetShardKey(sg.ID) }`. -/
def resolveSki (C : Catalogue) (m : Mst) (g : Group) : Option SKI :=
  match C.dbKey with
  | some k => some k
  | none => m.getShardKey g.ID

/-- the catalogue of one measurement with one shard-key definition, as `Model.Meta`. -/
def metaOf (C : Catalogue) (m : Mst) (k : SKI) : Meta :=
  ⟨m.name, k.key, k.range, m.schemaTags, C.groups⟩

/-- the group as the routing of measurement `m` sees it, with the alive list `asis`. -/
def viewGroup (m : Mst) (g : Group) (asis : List Nat) : Group :=
  { g with alive := asis, mstIdx := if m.initShards then some (m.idxFor g.ID) else none }

/-- the part of `updateShardGroupAndShardKey` after the cached state has been settled: shard key
of the row by `si`, then the shard inside `sg` with the alive list `asis`. -/
def routeWith (hash : String → Nat) (C : Catalogue) (m : Mst) (g : Group) (ski : Option SKI)
    (asis : List Nat) (p : Point) : Step :=
  match ski with
  | none => .abort .noShardKey
  | some k =>
    match shardKeyOf m.name k.key p.tags with
    | .error .missingShardKey => .dropped .missingShardKey
    | .error e => .abort (.unmarshal e)
    | .ok sk =>
      if Go.len sk > OG.Gen.C11.maxShardKey then .dropped .keyTooLarge
      else
        match routeIn hash (metaOf C m k) (viewGroup m g asis) p with
        | .ok r => .routed ⟨g, r.shard, r.key⟩
        | .error .map2shard => .abort .map2shard
        | .error _ => .abort .panic

/-- the cached state carried from row to row. -/
structure WState where
  preSg : Option Group
  preMst : Option Mst
  sameMst : Bool
  ski : Option SKI
  asis : List Nat
deriving Repr

def WState.init : WState := ⟨none, none, false, none, []⟩

/-- `createShardGroup`: fast path on the cached group, else the client's lookup
(`ShardGroupByTimestampAndEngineType`). -/
def createSg (C : Catalogue) (st : WState) (t : Int) : Option (Group × Bool) :=
  match st.preSg with
  | some g => if g.Contains t then some (g, true) else (groupFor C.groups t).map (·, false)
  | none => (groupFor C.groups t).map (·, false)

/-- rows the schema check drops whatever the schema says: a repeated tag key
(`updateSchemaCheck` → `CheckDuplicateTag`). -/
def schemaDrops (r : Row) : Bool := r.pre == .schemaDrop || dupTail r.p.tags

/-- `wh.sameMeasurement(name)`. -/
def sameMeasurement (st : WState) (name : String) : Bool :=
  match st.preMst with | none => false | some m => m.origin == name

/-- `updateShardGroupAndShardKey` once `createShardGroup` answered `(g, sameSg0)`. -/
def routeTail (fixB : Bool) (hash : String → Nat) (C : Catalogue) (st : WState) (mi : Mst)
    (g : Group) (sameSg0 : Bool) (p : Point) : WState × Step :=
  let st := { st with preSg := some g }
  -- `if len(*asis) == 0 { sameSg = false }`
  let sameSg := sameSg0 && !st.asis.isEmpty
  -- repaired: `if !sameSg { *asis = GetAliveShards(sg) }` right here
  let st := if fixB && !sameSg then { st with asis := g.alive } else st
  -- `if !sameSg || !wh.sameMst { *si = … }` (the guard is generated from the source)
  let st := if OG.Gen.C11.skRefreshGuard sameSg st.sameMst then { st with ski := resolveSki C mi g } else st
  let asis := if sameSg then st.asis else g.alive
  let out := routeWith hash C mi g st.ski asis p
  -- as written: `*asis = GetAliveShards(…)` sat after the shard-key stage
  let st := if !fixB && !sameSg && out != .dropped .missingShardKey && out != .dropped .keyTooLarge
            then { st with asis := g.alive } else st
  (st, out)

/-- one iteration of the loop of `routeAndMapOriginRows`. -/
def stepRow (fixA fixB : Bool) (hash : String → Nat) (C : Catalogue) (st : WState) (r : Row) :
    WState × Step :=
  if r.pre == .early then (st, .dropped .early)
  else
    -- wh.sameMeasurement(originName), before createMeasurement replaces preMst
    let st1 : WState := { st with sameMst := sameMeasurement st r.mst }
    -- wh.createMeasurement(...)
    if r.pre == .badMst then (st1, .dropped .badMst)
    else
      match C.findMst r.mst with
      | none => (st1, .abort .noMst)
      | some mi =>
        let st2 : WState := { st1 with preMst := some mi }
        -- wh.updateSchemaIfNeeded(...): a dropped row invalidates the cached routing state
        if schemaDrops r then
          ({ st2 with asis := if fixA then [] else st2.asis }, .dropped .schema)
        else
          -- w.updateShardGroupAndShardKey(...)
          match createSg C st2 r.p.time with
          | none => (st2, .abort .noGroup)
          | some (g, sameSg0) => routeTail fixB hash C st2 mi g sameSg0 r.p

/-- the loop: stops at the first abort (the error is returned, the batch is not written). -/
def routeRows (fixA fixB : Bool) (hash : String → Nat) (C : Catalogue) :
    WState → List Row → List (Row × Step)
  | _, [] => []
  | st, r :: rs =>
    let (st', out) := stepRow fixA fixB hash C st r
    if out.isAbort then [(r, out)] else (r, out) :: routeRows fixA fixB hash C st' rs

/-- `routeAndMapOriginRows` on a fresh context. -/
def routeBatch (fixA fixB : Bool) (hash : String → Nat) (C : Catalogue) (rows : List Row) :
    List (Row × Step) :=
  routeRows fixA fixB hash C WState.init rows

/-! ## the single-point mapping -/

/-- the decision for one row given the group (stateless): the measurement's own shard key for
that group, that group's own alive list. -/
def stepIn (hash : String → Nat) (C : Catalogue) (og : Option Group) (r : Row) : Step :=
  if r.pre == .early then .dropped .early
  else if r.pre == .badMst then .dropped .badMst
  else
    match C.findMst r.mst with
    | none => .abort .noMst
    | some mi =>
      if schemaDrops r then .dropped .schema
      else
        match og with
        | none => .abort .noGroup
        | some g => routeWith hash C mi g (resolveSki C mi g) g.alive r.p

/-- `shardOf`: a row written on its own. -/
def pointStep (hash : String → Nat) (C : Catalogue) (r : Row) : Step :=
  stepIn hash C (groupFor C.groups r.p.time) r

/-- the rows of a batch written one by one, up to the first abort. -/
def pointwise (hash : String → Nat) (C : Catalogue) : List Row → List (Row × Step)
  | [] => []
  | r :: rs =>
    let out := pointStep hash C r
    if out.isAbort then [(r, out)] else (r, out) :: pointwise hash C rs

end OG.C11
