/-
C11 — which shards of a group take part: `metaclient.Client.GetAliveShards` under the
write-available-first policy (`getAliveShardsForWAF`, `getAliveShardsForHardWrite`).

A shard is alive when the partition that owns it (`Shards[i].Owners[0]`) is `Online` in the
database's partition view; with `hard-write` the WRITER takes every shard whatever the view says.
The list is the modulus domain of hash sharding on both sides (`ShardFor(hash, aliveShardIdxes)`).
Core Lean only.
-/
import OG.C11.Batch

namespace OG.C11

/-- `getAliveShardsForWAF(database, sgi, read)`: `owners[i]` = `sgi.Shards[i].Owners[0]`,
`online[p]` = `PtView[database][p].Status == Online`. An owner outside the view is an index
panic: `none`. -/
def aliveWAF (online : List Bool) (owners : List Nat) (read hardWrite : Bool) : Option (List Nat) :=
  if !read && hardWrite then some (List.range owners.length)
  else
    let rec go : Nat → List Nat → Option (List Nat)
      | _, [] => some []
      | i, o :: os =>
        match online[o]? with
        | none => none
        | some b => (go (i + 1) os).map fun rest => if b then i :: rest else rest
    go 0 owners

end OG.C11

namespace OG.C11

/-! ### column store: `Row.UnmarshalShardKeyByField`

`updateShardGroupAndShardKey` builds the shard key of a COLUMNSTORE row with
`UnmarshalShardKeyByField`: for every shard-key name in declared order, the first tag of that
name, else the first field of that name (its string value), else the row is rejected. -/

/-- `fields` are (key, `StrValue`) pairs. -/
def fieldKeyWalk : List String → List Tag → List Tag → String → Except WErr String
  | [], _, _, sk => .ok sk
  | k :: ks, tags, fields, sk =>
    match tags.find? (·.1 == k) with
    | some t => fieldKeyWalk ks tags fields (appendShardKey sk t)
    | none =>
      match fields.find? (·.1 == k) with
      | some f => fieldKeyWalk ks tags fields (appendShardKey sk f)
      | none => .error .missingShardKey

def shardKeyByField (name : String) (key : List String) (tags fields : List Tag) : Except WErr String :=
  fieldKeyWalk key tags fields name

end OG.C11
