/-
C11 — expectations about the regenerated facts: the source text of every function the
hand-written model transcribes (loops and type switches the mini translator does not handle),
as it was when the model was written. A failure here means the modelled source changed shape;
the correspondence run then decides whether the property still holds and supplies the replay.
`Shard.Contain`, `Shard.ContainPrefix`, `Group.Contains`, `Group.Overlaps`, `Group.ShardFor`
are not pinned: they are translated, and the theorems are re-proved over the translation.
-/
import OG.C11.Model

namespace OG.C11.Facts
open OG.Gen.C11

theorem src_getConditionTags_expected : src_getConditionTags = "{ if condition == nil { return nil } switch expr := condition.(type) { case *influxql.ParenExpr: return getConditionTags(expr.Expr, schema) case *influxql.BinaryExpr: switch expr.Op { case influxql.AND: ltags := getConditionTags(expr.LHS, schema) rtags := getConditionTags(expr.RHS, schema) if ltags == nil { return rtags } if rtags == nil { return ltags } if len(ltags)*len(rtags) > maxConditionTagGroups { return ltags } tags := make([]*influx.PointTags, 0, len(ltags)*len(rtags)) for i := range ltags { for j := range rtags { group := make(influx.PointTags, 0, len(*ltags[i])+len(*rtags[j])) group = append(group, *ltags[i]...) group = append(group, *rtags[j]...) tags = append(tags, &group) } } return tags case influxql.OR: ltags := getConditionTags(expr.LHS, schema) rtags := getConditionTags(expr.RHS, schema) if ltags == nil || rtags == nil { return nil } return append(ltags, rtags...) case influxql.EQ: if tag := conditionTagsByBinary(expr, schema); tag != nil { return []*influx.PointTags{{*tag}} } return nil } default: return nil } return nil }" := by rfl

theorem src_conditionTagsByBinary_expected : src_conditionTagsByBinary = "{ if isTimeCondition(n) { return nil } key, ok := n.LHS.(*influxql.VarRef) value := n.RHS if !ok { return nil } switch value := value.(type) { case *influxql.StringLiteral: if v, ok := schema.GetTyp(key.Val); ok && v == influx.Field_Type_Tag { return &influx.Tag{Key: key.Val, Value: value.Val} } return nil default: return nil } }" := by rfl

theorem src_isTimeCondition_expected : src_isTimeCondition = "{ switch expr := expr.(type) { case *influxql.BinaryExpr: key, ok := expr.LHS.(*influxql.VarRef) if !ok { return false } if strings.ToLower(key.Val) != \"time\" { return false } switch expr.RHS.(type) { case *influxql.IntegerLiteral, *influxql.TimeLiteral, *influxql.StringLiteral: return true default: return false } default: return false } }" := by rfl

theorem src_TargetShards_expected : src_TargetShards = "{ if ski == nil || ski.ShardKey == nil || (ski.Type == HASH && condition == nil) { return sgi.genShardInfosByIndex(aliveShardIdxes) } mst.SchemaLock.RLock() tagsGroup := getConditionTags(condition, mst.Schema) mst.SchemaLock.RUnlock() if len(tagsGroup) == 0 { return sgi.genShardInfosByIndex(aliveShardIdxes) } if sysconfig.GetEnableForceBroadcastQuery() == sysconfig.OnForceBroadcastQuery { return sgi.genShardInfosByIndex(aliveShardIdxes) } var shardKeyAndValue []byte shards := make([]ShardInfo, 0, len(sgi.Shards)) shardKeyAndValue = append(shardKeyAndValue, mst.Name...) for tagGroupIdx := range tagsGroup { shardKeyAndValue = shardKeyAndValue[:len(mst.Name)] sort.Sort(tagsGroup[tagGroupIdx]) i, j := 0, 0 for i < len(ski.ShardKey) && j < len(*tagsGroup[tagGroupIdx]) { sk, tag := ski.ShardKey[i], &(*tagsGroup[tagGroupIdx])[j] if sk < tag.Key { break } if sk == tag.Key { shardKeyAndValue = append(shardKeyAndValue, \",\"...) shardKeyAndValue = append(shardKeyAndValue, tag.Key...) shardKeyAndValue = append(shardKeyAndValue, \"=\"...) shardKeyAndValue = append(shardKeyAndValue, tag.Value...) i++ } j++ } if ski.Type == RANGE { for i := range sgi.Shards { if sgi.Shards[i].ContainPrefix(string(shardKeyAndValue)) { shards = append(shards, sgi.Shards[i]) } } continue } if i < len(ski.ShardKey) { return sgi.genShardInfosByIndex(aliveShardIdxes) } var shardIdxes []int if mst.InitNumOfShards == 0 { shardIdxes = aliveShardIdxes } else { shardIdxes = mst.ShardIdexes[sgi.ID] } shard := sgi.ShardFor(HashID(shardKeyAndValue[len(mst.Name)+1:]), shardIdxes) if shard == nil { continue } shards = append(shards, *shard) } return shards }" := by rfl

theorem src_genShardInfosByIndex_expected : src_genShardInfosByIndex = "{ shards := make([]ShardInfo, 0, len(sgi.Shards)) for i := range aliveShardIdxes { shards = append(shards, sgi.Shards[aliveShardIdxes[i]]) } return shards }" := by rfl

theorem src_DestShard_expected : src_DestShard = "{ for i := range sgi.Shards { if sgi.Shards[i].Contain(shardKey) { return &sgi.Shards[i] } } return nil }" := by rfl

theorem src_Deleted_expected : src_Deleted = "{ return !sgi.DeletedAt.IsZero() }" := by rfl

theorem src_Truncated_expected : src_Truncated = "{ return !sgi.TruncatedAt.IsZero() }" := by rfl

theorem src_HashID_expected : src_HashID = "{ return xxhash.Sum64(key) }" := by rfl

theorem src_ShardGroupInfosLess_expected : src_ShardGroupInfosLess = "{ iEnd := a[i].EndTime if a[i].Truncated() { iEnd = a[i].TruncatedAt } jEnd := a[j].EndTime if a[j].Truncated() { jEnd = a[j].TruncatedAt } if iEnd.Equal(jEnd) { return a[i].StartTime.Before(a[j].StartTime) } return iEnd.Before(jEnd) }" := by rfl

theorem src_ShardGroupByTimestamp_expected : src_ShardGroupByTimestamp = "{ for i := len(rpi.ShardGroups) - 1; i >= 0; i-- { sgi := &rpi.ShardGroups[i] if sgi.EngineType == engineType && sgi.Contains(timestamp) && !sgi.Deleted() && (!sgi.Truncated() || timestamp.Before(sgi.TruncatedAt)) { return &rpi.ShardGroups[i] } } return nil }" := by rfl

theorem src_ShardGroupsByTimeRange_expected : src_ShardGroupsByTimeRange = "{ rpi, err := data.RetentionPolicy(database, policy) if err != nil { return nil, err } else if rpi == nil { return nil, ErrRetentionPolicyNotFound(policy) } groups := make([]ShardGroupInfo, 0, len(rpi.ShardGroups)) for _, g := range rpi.ShardGroups { if g.Deleted() || !g.Overlaps(tmin, tmax) { continue } groups = append(groups, g) } return groups, nil }" := by rfl

theorem src_newShardGroup_expected : src_newShardGroup = "{ startTime := timestamp.Truncate(rpi.ShardGroupDuration) data.MaxShardGroupID++ sgi := ShardGroupInfo{ ID: data.MaxShardGroupID, StartTime: startTime.UTC(), EndTime: startTime.Add(rpi.ShardGroupDuration).UTC(), EngineType: engineType, Version: version, } if sgi.EndTime.After(time.Unix(0, models.MaxNanoTime)) { sgi.EndTime = time.Unix(0, models.MaxNanoTime+1) } return &sgi }" := by rfl

theorem src_GetShardKey_expected : src_GetShardKey = "{ for i := len(msti.ShardKeys) - 1; i >= 0; i-- { if msti.ShardKeys[i].ShardGroup <= ID { return &msti.ShardKeys[i] } } return nil }" := by rfl

theorem src_UnmarshalShardKeyByTag_expected : src_UnmarshalShardKeyByTag = "{ r.ShardKey = append(r.ShardKey[:0], r.Name...) if len(tags) == 0 { for j := range r.Tags { if err := r.CheckDuplicateTag(j); err != nil { return err } r.appendShardKey(j) } return nil } i, j := 0, 0 searchTag: for i < len(tags) && j < len(r.Tags) { if tags[i] < r.Tags[j].Key { for _, relation := range r.IndexOptions { if relation.Oid == 2 { for _, v := range relation.IndexList { if tags[i] == r.Fields[int(v)-len(r.Tags)].Key { r.appendShardKeyWithField(int(v) - len(r.Tags)) i++ continue searchTag } } } } return ErrPointShouldHaveAllShardKey } if err := r.CheckDuplicateTag(j); err != nil { return err } if tags[i] == r.Tags[j].Key { r.appendShardKey(j) i++ } j++ } if i < len(tags) { return ErrPointShouldHaveAllShardKey } for j < len(r.Tags)-1 { if err := r.CheckDuplicateTag(j); err != nil { return err } j++ } return nil }" := by rfl

theorem src_appendShardKey_expected : src_appendShardKey = "{ sk := r.ShardKey sk = append(sk, ',') sk = append(sk, r.Tags[idx].Key...) sk = append(sk, '=') sk = append(sk, r.Tags[idx].Value...) r.ShardKey = sk }" := by rfl

theorem src_CheckDuplicateTag_expected : src_CheckDuplicateTag = "{ if idx < len(r.Tags)-1 && r.Tags[idx].Key == r.Tags[idx+1].Key { return fmt.Errorf(\"duplicate tag %s\", r.Tags[idx].Key) } return nil }" := by rfl

theorem src_PointTagsLess_expected : src_PointTagsLess = "{ x := *pts return x[i].Key < x[j].Key }" := by rfl

theorem src_createShardGroup_expected : src_createShardGroup = "{ if *preSg != nil && (*preSg).Contains(ts) && (*preSg).EngineType == engineType { return *preSg, true, nil } sg, err := client.CreateShardGroup(database, retentionPolicy, ts, version, engineType) if err != nil { return sg, false, err } if sg == nil { return nil, false, errno.NewError(errno.WriteNoShardGroup) } *preSg = sg return sg, false, nil }" := by rfl

theorem src_writeTail_expected : src_writeTail = "if (*si).Type == influxql.RANGE { sh = sg.DestShard(bytesutil.ToUnsafeString(r.ShardKey)) } else { if len((*si).ShardKey) > 0 && !reuseShardKey { r.ShardKey = r.ShardKey[len(r.Name)+1:] } var shardIdxes []int if mi.InitNumOfShards == 0 { shardIdxes = *asis } else { shardIdxes = mi.ShardIdexes[sg.ID] if len(shardIdxes) == 0 { mi, err = w.MetaClient.Measurement(database, retentionPolicy, mi.OriginName()) if err != nil { w.logger.Error(\"write failed\", zap.Error(err)) return } shardIdxes = mi.ShardIdexes[sg.ID] } } r.SkipMarshalShardKey() sh = sg.ShardFor(meta2.HashID(r.ShardKey), shardIdxes) }" := by rfl

theorem src_writeShardKey_expected : src_writeShardKey = "if !reuseShardKey { if stream { err = r.UnmarshalShardKeyByDimOrTag((*si).ShardKey, dims) } else if engineType == config.COLUMNSTORE { err = r.UnmarshalShardKeyByField((*si).ShardKey) } else { if r.ReadyBuildColumnToIndex { err = r.UnmarshalShardKeyByTagOp((*si).ShardKey) } else { err = r.UnmarshalShardKeyByTag((*si).ShardKey) } } if err != nil { if err != influx.ErrPointShouldHaveAllShardKey { return } partialErr = err err = nil return } if len(r.ShardKey) > MaxShardKey { partialErr = errno.NewError(errno.WritePointShardKeyTooLarge) w.logger.Error(\"write failed\", zap.Error(partialErr)) return } }" := by rfl

/-! ### the batch loop (OG.C11.Batch): order of the steps and the cached state

`routeLoopCalls` lists the calls on `wh` / `w` / `ctx` in the row loop of `routeAndMapOriginRows`
in source order: `sameMeasurement` has to compare with the PREVIOUS row's measurement, so it comes
before `createMeasurement` replaces `preMst`; the schema check (which may drop the row) sits between
`createMeasurement` and `updateShardGroupAndShardKey`. `updateSGCalls` is the same for
`updateShardGroupAndShardKey`: the alive list is fetched right after `createShardGroup`, before the
shard-key stage. `skRefreshGuard` is translated and used by the model's step function. -/

theorem routeLoopCalls_expected : routeLoopCalls = ["w.inTimeRange", "wh.sameMeasurement", "wh.createMeasurement", "wh.updatePrimaryKeyMapIfNeeded", "wh.updateSchemaIfNeeded", "w.isPartialErr", "ctx.getDstSis", "ctx.getDstSis", "ctx.getDstSis", "w.MetaClient.UpdateSchema", "w.updateShardGroupAndShardKey", "wh.updateSchemaIfNeeded", "w.isPartialErr", "ctx.getDstSis", "w.MapRowToMeasurement", "ctx.setShardRow"] := by decide

theorem updateSGCalls_expected : updateSGCalls = ["ctx.getStreamDBs", "ctx.getStreamMSTs", "ctx.getStreamShardKeyInfos", "ctx.getWriteHelpers", "ctx.getStreamAliveShardIdxes", "wh.createShardGroup", "w.MetaClient.GetAliveShards", "r.UnmarshalShardKeyByDimOrTag", "r.UnmarshalShardKeyByField", "r.UnmarshalShardKeyByTagOp", "r.UnmarshalShardKeyByTag", "sg.DestShard", "w.MetaClient.Measurement", "r.SkipMarshalShardKey", "sg.ShardFor"] := by decide

/-- `wh.sameMeasurement` runs before `wh.createMeasurement`, and both before the routing. -/
theorem sameMeasurement_before_createMeasurement_expected :
    routeLoopCalls.idxOf "wh.sameMeasurement" < routeLoopCalls.idxOf "wh.createMeasurement" ∧
    routeLoopCalls.idxOf "wh.createMeasurement" < routeLoopCalls.idxOf "w.updateShardGroupAndShardKey" ∧
    routeLoopCalls.count "wh.sameMeasurement" = 1 ∧ routeLoopCalls.count "wh.createMeasurement" = 1 := by decide

/-- the alive list is refreshed between `createShardGroup` and the shard-key stage. -/
theorem aliveRefresh_before_shardKey_expected :
    updateSGCalls.idxOf "wh.createShardGroup" < updateSGCalls.idxOf "w.MetaClient.GetAliveShards" ∧
    updateSGCalls.idxOf "w.MetaClient.GetAliveShards" < updateSGCalls.idxOf "r.UnmarshalShardKeyByTag" ∧
    updateSGCalls.count "w.MetaClient.GetAliveShards" = 1 := by decide

/-- the ShardKeyInfo is re-resolved when the group or the measurement changed. -/
theorem skRefreshGuard_expected : ∀ sameSg sameMst, skRefreshGuard sameSg sameMst = (!sameSg || !sameMst) := by decide

theorem maxShardKey_expected : maxShardKey = 65536 := by decide

theorem src_updateShardGroupAndShardKey_expected : src_updateShardGroupAndShardKey = "{ var wh *writeHelper var di *meta2.DatabaseInfo var si **meta2.ShardKeyInfo var mi *meta2.MeasurementInfo var asis *[]int if stream { di = (*ctx.getStreamDBs())[index] mi = (*ctx.getStreamMSTs())[index] si = &ctx.getStreamShardKeyInfos()[index] wh = (*ctx.getWriteHelpers())[index] asis = &(*ctx.getStreamAliveShardIdxes())[index] } else { di = ctx.db mi = ctx.ms si = &ctx.shardKeyInfo wh = ctx.writeHelper asis = &ctx.aliveShardIdxes } var sameSg bool var sg *meta2.ShardGroupInfo engineType := mi.EngineType sg, sameSg, err = wh.createShardGroup(database, retentionPolicy, time.Unix(0, r.Timestamp), engineType) if err != nil { return } if len(*asis) == 0 { sameSg = false } if !sameSg { *asis = w.MetaClient.GetAliveShards(database, sg, false) } if !sameSg || !wh.sameMst { if len(di.ShardKey.ShardKey) > 0 { *si = &di.ShardKey } else { *si = mi.GetShardKey(sg.ID) } if *si == nil { err = errno.NewError(errno.WriteNoShardKey) return } } if !reuseShardKey { if stream { err = r.UnmarshalShardKeyByDimOrTag((*si).ShardKey, dims) } else if engineType == config.COLUMNSTORE { err = r.UnmarshalShardKeyByField((*si).ShardKey) } else { if r.ReadyBuildColumnToIndex { err = r.UnmarshalShardKeyByTagOp((*si).ShardKey) } else { err = r.UnmarshalShardKeyByTag((*si).ShardKey) } } if err != nil { if err != influx.ErrPointShouldHaveAllShardKey { return } partialErr = err err = nil return } if len(r.ShardKey) > MaxShardKey { partialErr = errno.NewError(errno.WritePointShardKeyTooLarge) w.logger.Error(\"write failed\", zap.Error(partialErr)) return } } if (*si).Type == influxql.RANGE { sh = sg.DestShard(bytesutil.ToUnsafeString(r.ShardKey)) } else { if len((*si).ShardKey) > 0 && !reuseShardKey { r.ShardKey = r.ShardKey[len(r.Name)+1:] } var shardIdxes []int if mi.InitNumOfShards == 0 { shardIdxes = *asis } else { shardIdxes = mi.ShardIdexes[sg.ID] if len(shardIdxes) == 0 { mi, err = w.MetaClient.Measurement(database, retentionPolicy, mi.OriginName()) if err != nil { w.logger.Error(\"write failed\", zap.Error(err)) return } shardIdxes = mi.ShardIdexes[sg.ID] } } r.SkipMarshalShardKey() sh = sg.ShardFor(meta2.HashID(r.ShardKey), shardIdxes) } if sh == nil { err = errno.NewError(errno.WritePointMap2Shard) } return }" := by rfl

theorem src_dropRowBranch_expected : src_dropRowBranch = "if isDropRow { ctx.aliveShardIdxes = ctx.aliveShardIdxes[:0] dropped++ continue }" := by rfl

theorem src_sameMeasurement_expected : src_sameMeasurement = "{ if wh.preMst == nil { wh.sameMst = false return } wh.sameMst = wh.preMst.OriginName() == name }" := by rfl

theorem src_whCreateMeasurement_expected : src_whCreateMeasurement = "{ if skipPreCheck { return createMeasurementBase(database, retentionPolicy, name, wh.pw.MetaClient, config.TSSTORE) } return createMeasurement(database, retentionPolicy, name, wh.pw.MetaClient, &wh.preMst, &wh.sameSchema, config.TSSTORE) }" := by rfl

theorem src_createMeasurement_expected : src_createMeasurement = "{ if *preMst != nil && *sameSchema { if (*preMst).OriginName() == name { return *preMst, nil } } start := time.Now() defer func() { statistics.NewHandler().WriteCreateMstDuration.AddSinceNano(start) }() mst, err := createMeasurementBase(database, retentionPolicy, name, client, engineType) if err == nil { *preMst = mst *sameSchema = true } return mst, err }" := by rfl

theorem src_createMeasurementBase_expected : src_createMeasurementBase = "{ start := time.Now() defer func() { statistics.NewHandler().WriteCreateMstDuration.AddSinceNano(start) }() mst, err := client.Measurement(database, retentionPolicy, name) if err == meta2.ErrMeasurementNotFound { ski := &meta2.ShardKeyInfo{ShardKey: nil, Type: influxql.HASH} mst, err = client.CreateMeasurement(database, retentionPolicy, name, ski, 0, nil, engineType, nil, nil, nil) } return mst, err }" := by rfl

theorem src_whCreateShardGroup_expected : src_whCreateShardGroup = "{ var version uint32 if engineType == config.COLUMNSTORE { version = logstore.CurrentLogTokenizerVersion } return createShardGroup(database, retentionPolicy, wh.pw.MetaClient, &wh.preSg, ts, version, engineType) }" := by rfl

theorem src_whReset_expected : src_whReset = "{ wh.preSg = nil wh.preMst = nil wh.sameSchema = false wh.sameSg = false wh.sameMst = false wh.mstPrimaryKeyRowMap = nil wh.pkLength = 0 }" := by rfl

/-! ### the shard mapper's loop (OG.C11.ReadMap) -/

/-- `TargetShards` is called with the source's own measurement and a ShardKeyInfo resolved inside the group loop. -/
theorem targetShardsArgs_expected : targetShardsArgs = ["mst", "ski", "condition", "aliveShardIdxes"] ∧ skiDeclaredInGroupLoop = true := by decide

theorem src_mapMstShards_expected : src_mapMstShards = "{ sources, shardKeyInfo, measurements, engineTypes, err := csm.getTargetShardMsg(s) if err != nil { return err } if len(measurements) == 0 && s.MstType != influxql.TEMPORARY { return errno.NewError(errno.ErrMeasurementNotFound) } for srcIdx, source := range sources { mst := measurements[srcIdx] var shardInfosByPtID map[uint32][]executor.ShardInfo if shardInfos := csming.ShardMap[source]; shardInfos != nil { shardInfosByPtID = shardInfos } else { shardInfosByPtID = make(map[uint32][]executor.ShardInfo) } groups, err := csm.MetaClient.ShardGroupsByTimeRange(s.Database, s.RetentionPolicy, tmin, tmax) if err != nil { return err } if len(groups) == 0 { if len(shardInfosByPtID) == 0 { csming.ShardMap[source] = nil } return nil } for i, g := range groups { if !engineTypes[g.EngineType] { continue } ski := shardKeyInfo if ski == nil { ski = mst.GetShardKey(groups[i].ID) } aliveShardIdxes := csm.MetaClient.GetAliveShards(s.Database, &groups[i], true) var shs []meta2.ShardInfo if opt.HintType == hybridqp.FullSeriesQuery || opt.HintType == hybridqp.SpecificSeriesQuery { shs, csming.seriesKey = groups[i].TargetShardsHintQuery(mst, ski, condition, opt, aliveShardIdxes) } else { shs = groups[i].TargetShards(mst, ski, condition, aliveShardIdxes) } csm.updateShardInfosByPtID(s, g, shs, &shardInfosByPtID) } csming.ShardMap[source] = shardInfosByPtID } return nil }" := by rfl

theorem src_mapShardsSubQuery_expected : src_mapShardsSubQuery = "subMin, subMax := tmin, tmax valuer := influxql.NowValuer{Now: time.Now(), Location: s.Statement.Location} var subCond influxql.Expr cond, t, err := influxql.ConditionExpr(s.Statement.Condition, &valuer) if err == nil { subCond = cond if t.MinTimeNano() != influxql.MinTime { subMin = t.Min } if t.MaxTimeNano() != influxql.MaxTime { subMax = t.Max } } if err := csm.mapShards(csming, s.Statement.Sources, subMin, subMax, subCond, opt); err != nil { return err } if len(s.Statement.InConditons) > 0 { in := s.Statement.InConditons[0] inTmin := time.Unix(0, in.TimeRange.MinTimeNano()) inTmax := time.Unix(0, in.TimeRange.MaxTimeNano()) inCsming := NewClusterShardMapping(csm, inTmin, inTmax) if err := csm.mapShards(inCsming, in.Stmt.Sources, inTmin, inTmax, in.Stmt.Condition, opt); err != nil { return err } in.Csming = inCsming }" := by rfl

theorem src_getTargetShardMsg_expected : src_getTargetShardMsg = "{ var sources []Source var shardKeyInfo *meta2.ShardKeyInfo var engineTypes [config.ENGINETYPEEND]bool dbi, err := csm.MetaClient.Database(s.Database) if err != nil { return sources, nil, nil, engineTypes, err } if len(dbi.ShardKey.ShardKey) > 0 { shardKeyInfo = &dbi.ShardKey } measurements, err := csm.MetaClient.GetMeasurements(s) if err != nil || len(measurements) == 0 { return sources, nil, nil, engineTypes, err } for _, m := range measurements { sources = append(sources, Source{ Database: s.Database, RetentionPolicy: s.RetentionPolicy, Measurement: m.OriginName(), }) if !engineTypes[m.EngineType] { engineTypes[m.EngineType] = true s.EngineType = m.EngineType s.IndexRelation = &m.IndexRelation s.ObsOptions = m.ObsOptions s.IsTimeSorted = m.IsTimeSorted() } } return sources, shardKeyInfo, measurements, engineTypes, nil }" := by rfl

/-! ### alive-shard lists (OG.C11.Alive) -/

theorem src_GetAliveShards_expected : src_GetAliveShards = "{ if config.GetHaPolicy() != config.WriteAvailableFirst { return c.getAliveShardsForSSAndRep(database, sgi) } return c.getAliveShardsForWAF(database, sgi, isRead) }" := by rfl

theorem src_getAliveShardsForWAF_expected : src_getAliveShardsForWAF = "{ c.mu.RLock() defer c.mu.RUnlock() if !read && config.IsHardWrite() { return c.getAliveShardsForHardWrite(database, sgi) } aliveShardIdxes := make([]int, 0, len(sgi.Shards)) for i := range sgi.Shards { if c.cacheData.PtView[database][sgi.Shards[i].Owners[0]].Status == meta2.Online { aliveShardIdxes = append(aliveShardIdxes, i) } } return aliveShardIdxes }" := by rfl

theorem src_getAliveShardsForHardWrite_expected : src_getAliveShardsForHardWrite = "{ aliveShardIdxes := make([]int, 0, len(sgi.Shards)) for i := range sgi.Shards { aliveShardIdxes = append(aliveShardIdxes, i) } return aliveShardIdxes }" := by rfl

theorem src_UnmarshalShardKeyByField_expected : src_UnmarshalShardKeyByField = "{ r.ShardKey = append(r.ShardKey[:0], r.Name...) var find bool for i := range shardKeys { find = false for j := range r.Tags { if shardKeys[i] == r.Tags[j].Key { r.appendShardKey(j) find = true break } } if !find { for k := range r.Fields { if shardKeys[i] == r.Fields[k].Key { r.appendShardKeyWithField(k) find = true break } } } if !find { return ErrPointShouldHaveAllShardKey } } return nil }" := by rfl

theorem src_appendShardKeyWithField_expected : src_appendShardKeyWithField = "{ r.ShardKey = append(r.ShardKey, \",\"...) r.ShardKey = append(r.ShardKey, r.Fields[idx].Key...) r.ShardKey = append(r.ShardKey, \"=\"...) r.ShardKey = append(r.ShardKey, r.Fields[idx].StrValue...) }" := by rfl

/-- the store-side time-range test (translated; `store_intersect_covers` is proved over it). -/
theorem storeIntersect_expected : ∀ s e a b : Int, OG.C11.storeIntersect s e a b = (!(decide (s > b) || decide (e < a))) := by
  intro s e a b; rfl

/-! ### the hint path (OG.C11.Hint) -/

theorem src_TargetShardsHintQuery_expected : src_TargetShardsHintQuery = "{ mst.SchemaLock.RLock() defer mst.SchemaLock.RUnlock() tagsGroup := getConditionTags(condition, mst.Schema) if len(tagsGroup) != 1 { return sgi.genShardInfosByIndex(aliveShardIdxes), nil } if opt.HintType == hybridqp.SpecificSeriesQuery { var tagCount int callback := func(k string, v int32) { if v == influx.Field_Type_Tag { tagCount++ } } mst.Schema.RangeTypCall(callback) if tagCount != len(*tagsGroup[0]) { return sgi.genShardInfosByIndex(aliveShardIdxes), nil } for i := 0; i < tagCount; i++ { if _, ok := mst.Schema.GetTyp((*tagsGroup[0])[i].Key); !ok { return sgi.genShardInfosByIndex(aliveShardIdxes), nil } } } return sgi.getShardsAndSeriesKeyForHintQuery(tagsGroup[0], aliveShardIdxes, mst, ski) }" := by rfl

theorem src_getShardsAndSeriesKeyForHintQuery_expected : src_getShardsAndSeriesKeyForHintQuery = "{ shards := make([]ShardInfo, 0, len(sgi.Shards)) sort.Sort(tagsGroup) r := influx.Row{Name: mst.Name, Tags: *tagsGroup} r.UnmarshalIndexKeys(nil) if ski == nil || r.UnmarshalShardKeyByTag(ski.ShardKey) != nil { return sgi.genShardInfosByIndex(aliveShardIdxes), r.IndexKey } if sysconfig.GetEnableForceBroadcastQuery() == sysconfig.OnForceBroadcastQuery { return sgi.genShardInfosByIndex(aliveShardIdxes), r.IndexKey } var shard *ShardInfo if ski.Type == RANGE { shard = sgi.DestShard(string(r.ShardKey)) } else { if len(ski.ShardKey) > 0 { r.ShardKey = r.ShardKey[len(mst.Name)+1:] } var shardIdxes []int if mst.InitNumOfShards == 0 { shardIdxes = aliveShardIdxes } else { shardIdxes = mst.ShardIdexes[sgi.ID] } shard = sgi.ShardFor(HashID(r.ShardKey), shardIdxes) } if shard == nil { return sgi.genShardInfosByIndex(aliveShardIdxes), r.IndexKey } shards = append(shards, *shard) return shards, r.IndexKey }" := by rfl

theorem maxConditionTagGroups_expected : maxConditionTagGroups = 1024 := by rfl

theorem generation_ok : generationFailed = false := by rfl

end OG.C11.Facts
