/-
C11 — the read side: `getConditionTags` over-approximates the condition, and the loop of
`TargetShards` keeps the shard of every point that extends one of the tag groups.
-/
import OG.C11.Lemmas

namespace OG.C11

/-- the point carries every tag of the group (a missing tag reads as ""). -/
def Extends (tags : List Tag) (g : List Tag) : Prop := ∀ kv ∈ g, tagVal tags kv.1 = kv.2

theorem mem_crossGroups {l r : List (List Tag)} {x : List Tag} :
    x ∈ crossGroups l r ↔ ∃ a ∈ l, ∃ b ∈ r, x = a ++ b := by
  simp [crossGroups, List.mem_flatMap, List.mem_map]
  grind

theorem Extends.append {tags a b : List Tag} (ha : Extends tags a) (hb : Extends tags b) :
    Extends tags (a ++ b) := by
  intro kv h
  rcases List.mem_append.1 h with h | h
  · exact ha kv h
  · exact hb kv h

/-- **key lemma**: if the (repaired) `getConditionTags` answers with tag groups, every point
that satisfies the condition carries all the tags of one of them — for every condition tree
and every meaning `ρ` of the non-tag atoms. -/
theorem condTags_overapprox (cap : Nat) (S : List String) (ρ : Nat → Point → Bool) (p : Point) :
    ∀ (c : Cond) (gs : List (List Tag)), condTags true cap S c = some gs → c.sat S ρ p = true →
      ∃ g ∈ gs, Extends p.tags g := by
  intro c
  induction c with
  | eqStr k v id =>
    intro gs h hs
    simp only [condTags] at h
    split at h
    · rename_i ht
      simp only [Option.some.injEq] at h
      subst h
      refine ⟨[(k, v)], by simp, ?_⟩
      intro kv hkv
      simp only [List.mem_singleton] at hkv
      subst hkv
      simpa [Cond.sat, ht] using hs
    · cases h
  | other id => intro gs h; simp [condTags] at h
  | paren a ih =>
    intro gs h hs
    simp only [condTags, if_true] at h
    exact ih gs h (by simpa [Cond.sat] using hs)
  | and a b iha ihb =>
    intro gs h hs
    simp only [Cond.sat, Bool.and_eq_true] at hs
    simp only [condTags] at h
    cases hca : condTags true cap S a with
    | none =>
      rw [hca] at h
      exact ihb gs (by simpa using h) hs.2
    | some l =>
      cases hcb : condTags true cap S b with
      | none =>
        rw [hca, hcb] at h
        simp only [Option.some.injEq] at h
        subst h
        exact iha l hca hs.1
      | some r =>
        rw [hca, hcb] at h
        simp only [if_true] at h
        split at h
        · simp only [Option.some.injEq] at h
          subst h
          exact iha l hca hs.1
        · simp only [Option.some.injEq] at h
          subst h
          obtain ⟨ga, hga, ea⟩ := iha l hca hs.1
          obtain ⟨gb, hgb, eb⟩ := ihb r hcb hs.2
          exact ⟨ga ++ gb, mem_crossGroups.2 ⟨ga, hga, gb, hgb, rfl⟩, ea.append eb⟩
  | or a b iha ihb =>
    intro gs h hs
    simp only [Cond.sat, Bool.or_eq_true] at hs
    simp only [condTags] at h
    cases hca : condTags true cap S a with
    | none => rw [hca] at h; simp at h
    | some l =>
      cases hcb : condTags true cap S b with
      | none => rw [hca, hcb] at h; simp at h
      | some r =>
        rw [hca, hcb] at h
        simp only [Option.some.injEq] at h
        subst h
        rcases hs with hs | hs
        · obtain ⟨g, hg, e⟩ := iha l hca hs
          exact ⟨g, List.mem_append_left _ hg, e⟩
        · obtain ⟨g, hg, e⟩ := ihb r hcb hs
          exact ⟨g, List.mem_append_right _ hg, e⟩

/-! ### well-formed groups, `ShardFor`, `genShardInfosByIndex` -/

/-- every alive index names a shard; the modulus domain is among the alive shards (hash) /
every shard is alive (range: the group loop filters all shards, the fallback only the alive
ones). With the default HA policy `GetAliveShards` returns all indexes and both hold. -/
structure Group.WF (range : Bool) (g : Group) : Prop where
  aliveInRange : ∀ i ∈ g.alive, i < g.Shards.length
  idxAlive : range = false → ∀ i ∈ g.shardIdxes, i ∈ g.alive
  allAlive : range = true → ∀ i, i < g.Shards.length → i ∈ g.alive

theorem mapM_at_some {α : Type} (l : List α) : ∀ (idx : List Nat), (∀ i ∈ idx, i < l.length) →
    ∃ res, idx.mapM (Go.at l) = some res ∧ ∀ i ∈ idx, ∀ x, l[i]? = some x → x ∈ res := by
  intro idx
  induction idx with
  | nil => intro _; exact ⟨[], by simp, by simp⟩
  | cons i is ih =>
    intro h
    obtain ⟨res, hr, hm⟩ := ih (fun j hj => h j (List.mem_cons_of_mem _ hj))
    have hi : i < l.length := h i List.mem_cons_self
    refine ⟨l[i] :: res, ?_, ?_⟩
    · simp [List.mapM_cons, hr, Go.at, hi]
    · intro j hj x hx
      rcases List.mem_cons.1 hj with e | hj
      · subst e
        simp [List.getElem?_eq_getElem hi] at hx
        simp [hx]
      · exact List.mem_cons_of_mem _ (hm j hj x hx)

theorem allAlive_some {range : Bool} {g : Group} (hwf : g.WF range) :
    ∃ all, g.allAlive = some all ∧ ∀ i ∈ g.alive, ∀ x, g.Shards[i]? = some x → x ∈ all :=
  mapM_at_some g.Shards g.alive hwf.aliveInRange

/-- `ShardFor` spelled out. -/
theorem shardFor_eq (g : Group) (h : Nat) (idx : List Nat) :
    g.ShardFor h idx =
      if idx.length = 0 then some none
      else match idx[h % idx.length]? with
        | none => none
        | some j => match g.Shards[j]? with
          | none => none
          | some s => some (some s) := by
  unfold Group.ShardFor Go.at
  by_cases h0 : idx.length = 0
  · simp [h0]
  · simp only [h0, if_false]
    have : (idx.length == 0) = false := by simpa using h0
    simp only [this]
    cases idx[h % idx.length]? with
    | none => simp
    | some j =>
      cases hs : g.Shards[j]? <;> simp [hs]

/-- the shard `ShardFor` picks is one of the group's, at an index of the modulus domain. -/
theorem shardFor_some {g : Group} {h : Nat} {idx : List Nat} {s : Shard}
    (hs : g.ShardFor h idx = some (some s)) :
    ∃ j ∈ idx, g.Shards[j]? = some s ∧ idx[h % idx.length]? = some j := by
  rw [shardFor_eq] at hs
  split at hs
  · cases hs
  · split at hs
    · cases hs
    · rename_i j hj
      split at hs
      · cases hs
      · rename_i s' hs'
        simp only [Option.some.injEq] at hs
        subst hs
        exact ⟨j, List.mem_of_getElem? hj, hs', hj⟩

/-- with a well-formed group and a non-empty modulus domain `ShardFor` neither panics nor
answers nil — for every hash value. -/
theorem shardFor_total {g : Group} (hwf : g.WF false) (hne : g.shardIdxes ≠ []) (h : Nat) :
    ∃ s, g.ShardFor h g.shardIdxes = some (some s) := by
  rw [shardFor_eq]
  have hlen : g.shardIdxes.length ≠ 0 := by simpa using hne
  simp only [hlen, if_false]
  have hlt : h % g.shardIdxes.length < g.shardIdxes.length := Nat.mod_lt _ (Nat.pos_of_ne_zero hlen)
  rw [List.getElem?_eq_getElem hlt]
  have hj := hwf.aliveInRange _ (hwf.idxAlive rfl _ (List.getElem_mem hlt))
  simp only [List.getElem?_eq_getElem hj]
  exact ⟨_, rfl⟩

end OG.C11

namespace OG.C11

theorem extends_sorted {tags grp : List Tag} (he : Extends tags grp) :
    ∀ t ∈ sortTags grp, t.2 = tagVal tags t.1 :=
  fun t ht => (he t (mem_sortTags.1 ht)).symm

theorem targetLoop_cons (reset : Bool) (hash : String → Nat) (M : Meta) (g : Group)
    (grp : List Tag) (rest : List (List Tag)) (buf : String) (acc : List Shard) :
    targetLoop reset hash M g (grp :: rest) buf acc =
      (let w := readWalk M.key (sortTags grp) (if reset then M.name else buf)
       if M.range then
         targetLoop reset hash M g rest w.1 (acc ++ g.Shards.filter (·.ContainPrefix w.1))
       else if w.2 > 0 then g.allAlive
       else
         match Go.dropFrom w.1 (Go.len M.name + 1) with
         | none => none
         | some hk =>
           match g.ShardFor (hash hk) g.shardIdxes with
           | none => none
           | some none => targetLoop reset hash M g rest w.1 acc
           | some (some s) => targetLoop reset hash M g rest w.1 (acc ++ [s])) := by
  rw [targetLoop]
  generalize readWalk M.key (sortTags grp) (if reset = true then M.name else buf) = w
  obtain ⟨b, m⟩ := w
  rfl

/-- hash sharding: the loop of `TargetShards` keeps the shard the point was written to, as
soon as the point extends one of the tag groups. -/
theorem targetLoop_sound_hash (hash : String → Nat) (M : Meta) (g : Group) (tags : List Tag)
    (s : Shard) (hk : String) (all : List Shard)
    (hr : M.range = false)
    (hdrop : Go.dropFrom (keyStrFrom M.name M.key (tagVal tags)) (Go.len M.name + 1) = some hk)
    (hsf : g.ShardFor (hash hk) g.shardIdxes = some (some s))
    (hall : g.allAlive = some all) (hsall : s ∈ all) :
    ∀ (gs : List (List Tag)) (buf : String) (acc res : List Shard),
      targetLoop true hash M g gs buf acc = some res →
      (s ∈ acc ∨ ∃ grp ∈ gs, Extends tags grp) → s ∈ res := by
  intro gs
  induction gs with
  | nil =>
    intro buf acc res h hx
    simp only [targetLoop, Option.some.injEq] at h
    subst h
    rcases hx with hx | ⟨_, hm, _⟩
    · exact hx
    · simp at hm
  | cons grp rest ih =>
    intro buf acc res h hx
    rw [targetLoop_cons] at h
    simp only [if_true, hr, Bool.false_eq_true, if_false] at h
    generalize hw : readWalk M.key (sortTags grp) M.name = w at h
    obtain ⟨b, missing⟩ := w
    simp only at h
    split at h
    · -- some shard-key tag is not constrained by this group: all alive shards
      rw [hall] at h
      simp only [Option.some.injEq] at h
      subst h
      exact hsall
    · rename_i hmiss
      have hm0 : missing = 0 := by omega
      -- is this the group the point extends?
      by_cases hext : Extends tags grp
      · obtain ⟨m, hm, he⟩ := readWalk_spec (tagVal tags) (sortTags grp) (extends_sorted hext) M.key M.name
        rw [hw] at he
        simp only [Prod.mk.injEq] at he
        have hmlen : m = M.key.length := by omega
        have hb : b = keyStrFrom M.name M.key (tagVal tags) := by
          rw [he.1, hmlen, List.take_length]
        rw [hb, hdrop] at h
        simp only [hsf] at h
        exact ih _ _ _ h (Or.inl (List.mem_append_right _ (List.mem_singleton.2 rfl)))
      · have hx' : s ∈ acc ∨ ∃ grp' ∈ rest, Extends tags grp' := by
          rcases hx with hx | ⟨grp', hm, he⟩
          · exact Or.inl hx
          · rcases List.mem_cons.1 hm with e | hm
            · subst e; exact absurd he hext
            · exact Or.inr ⟨grp', hm, he⟩
        split at h
        · cases h
        · split at h
          · cases h
          · exact ih _ _ _ h hx'
          · refine ih _ _ _ h ?_
            rcases hx' with hx' | hx'
            · exact Or.inl (List.mem_append_left _ hx')
            · exact Or.inr hx'

/-- range sharding: the loop keeps every shard whose key range holds the point's key. -/
theorem targetLoop_sound_range (hash : String → Nat) (M : Meta) (g : Group) (tags : List Tag)
    (s : Shard)
    (hr : M.range = true) (hsg : s ∈ g.Shards)
    (hcont : s.Contain (keyStrFrom M.name M.key (tagVal tags)) = true) :
    ∀ (gs : List (List Tag)) (buf : String) (acc res : List Shard),
      targetLoop true hash M g gs buf acc = some res →
      (s ∈ acc ∨ ∃ grp ∈ gs, Extends tags grp) → s ∈ res := by
  intro gs
  induction gs with
  | nil =>
    intro buf acc res h hx
    simp only [targetLoop, Option.some.injEq] at h
    subst h
    rcases hx with hx | ⟨_, hm, _⟩
    · exact hx
    · simp at hm
  | cons grp rest ih =>
    intro buf acc res h hx
    rw [targetLoop_cons] at h
    simp only [if_true, hr] at h
    refine ih _ _ _ h ?_
    rcases hx with hx | ⟨grp', hm, he⟩
    · exact Or.inl (List.mem_append_left _ hx)
    · rcases List.mem_cons.1 hm with e | hm
      · subst e
        left
        apply List.mem_append_right
        obtain ⟨m, hm, hw⟩ := readWalk_spec (tagVal tags) (sortTags grp') (extends_sorted he) M.key M.name
        rw [hw]
        simp only [List.mem_filter]
        refine ⟨hsg, ?_⟩
        -- the point's key is the walked prefix followed by the rest of the shard-key tags
        have hsplit : keyStrFrom M.name M.key (tagVal tags) =
            keyStrFrom M.name (M.key.take m) (tagVal tags) ++ keyStrFrom "" (M.key.drop m) (tagVal tags) := by
          conv => lhs; rw [← List.take_append_drop m M.key, keyStrFrom_append, keyStrFrom_eq_append]
        rw [hsplit] at hcont
        exact containPrefix_of_contain s _ _ hcont
      · exact Or.inr ⟨grp', hm, he⟩

end OG.C11
