/-
C11 — the shard mapper (`mapShards` / `mapMstShards`) consults the shard of every row a batch
stored, for every source the row's measurement is part of.

Proved for the repaired loop (`fixed = true`): `mapMst_sound` (plain and regular-expression
sources: each matched measurement is mapped with its own name, schema and per-group shard key)
and `mapSub_sound` (subquery sources: the inner sources are narrowed by the subquery's own
condition and time bounds). The loop as it was is kept in the model and shown unsound from three
concrete witnesses: `mapMst_stale_key_asWritten` (shard key altered between two groups),
`mapMst_first_measurement_asWritten` (two measurements behind one regular expression),
`mapSub_outer_condition_asWritten` (the outer condition of a subquery that renames a tag).
-/
import OG.C11.ReadMap
import OG.C11.BatchProps

namespace OG.C11

theorem mapGroups_fixed (hash : String → Nat) (cap : Nat) (C : Catalogue) (m0 mk : Mst)
    (c : Option Cond) : ∀ (gs : List Group) (cache : Option SKI),
    (mapGroups true hash cap C m0 mk c cache gs).2 =
      gs.map fun g => (g, targetOf hash cap C mk (resolveSki C mk g) g c) := by
  intro gs
  induction gs with
  | nil => intro cache; rfl
  | cons g gs ih =>
    intro cache
    have h := ih cache
    simp only [mapGroups, if_true, List.map_cons]
    generalize mapGroups true hash cap C m0 mk c cache gs = pr at h
    obtain ⟨a, b⟩ := pr
    simp only at h
    simp only [h]
    rfl

theorem mapSources_fixed_mem (hash : String → Nat) (cap : Nat) (C : Catalogue) (m0 : Mst)
    (groups : List Group) (c : Option Cond) (mk : Mst) :
    ∀ (ms : List Mst) (cache : Option SKI), mk ∈ ms →
      (mk.origin, groups.map fun g => (g, targetOf hash cap C mk (resolveSki C mk g) g c)) ∈
        mapSources true hash cap C m0 groups c cache ms := by
  intro ms
  induction ms with
  | nil => intro _ h; cases h
  | cons m ms ih =>
    intro cache hmem
    have hg := mapGroups_fixed hash cap C m0 m c groups cache
    simp only [mapSources]
    generalize mapGroups true hash cap C m0 m c cache groups = pr at hg
    obtain ⟨a, b⟩ := pr
    simp only at hg
    rcases List.mem_cons.1 hmem with e | hmem
    · subst e
      simp only [hg]
      exact List.mem_cons_self
    · exact List.mem_cons_of_mem _ (ih a hmem)

/-- **the mapper finds what a batch stored.** A row stored by a write batch in
`(rt.group, rt.shard)` whose measurement is among the measurements of the source, whose timestamp
lies in the query's range and which satisfies the condition: the source's entry of the shard map
contains that shard of that group — every hash, hash and range sharding, shard keys per
measurement / per group / per database, any number of measurements behind the source. -/
theorem mapMst_sound (hash : String → Nat) (C : Catalogue) (rows : List Row) (row : Row) (rt : Routed)
    (hx : (row, Step.routed rt) ∈ routeBatch true true hash C rows)
    (msts : List Mst) (m : Mst) (hf : C.findMst row.mst = some m) (hm : m ∈ msts)
    (c : Option Cond) (ρ : Nat → Point → Bool) (cap : Nat) (tmin tmax : Int)
    (hlo : tmin ≤ row.p.time) (hhi : row.p.time ≤ tmax) (hu : KeysUnique row.p.tags)
    (hwf : ∀ k, resolveSki C m rt.group = some k → (viewGroup m rt.group rt.group.alive).WF k.range)
    (hs : satOpt m.schemaTags ρ row.p c = true) :
    ∃ l ss, (m.origin, l) ∈ mapMst true hash cap C msts tmin tmax c ∧
      (rt.group, some ss) ∈ l ∧ rt.shard ∈ ss := by
  obtain ⟨m', k, hf', hk, hgr, hsound⟩ :=
    batch_write_then_pruned_read_sound hash C rows row rt hx c ρ cap tmin tmax hlo hhi hu
  rw [hf] at hf'
  have hmm : m = m' := Option.some.inj hf'
  subst hmm
  have hwfk := hwf k hk
  obtain ⟨ss, hss⟩ := targetShards_total hash (metaOf C m k) (viewGroup m rt.group rt.group.alive) c cap hwfk
  refine ⟨(groupsForRange C.groups tmin tmax).map fun g => (g, targetOf hash cap C m (resolveSki C m g) g c),
    ss, ?_, ?_, hsound hwfk hs ss hss⟩
  · cases msts with
    | nil => cases hm
    | cons m0 ms =>
      exact mapSources_fixed_mem hash cap C m0 (groupsForRange C.groups tmin tmax) c m (m0 :: ms) C.dbKey hm
  · rw [List.mem_map]
    refine ⟨rt.group, hgr, ?_⟩
    simp only [targetOf, hk, hss]

/-- **subquery sources**: the inner sources are narrowed by the subquery's own condition and
by the time range the subquery hands down; a stored row that satisfies the inner condition inside
that range is consulted, whatever the outer condition says. -/
theorem mapSub_sound (hash : String → Nat) (C : Catalogue) (rows : List Row) (row : Row) (rt : Routed)
    (hx : (row, Step.routed rt) ∈ routeBatch true true hash C rows)
    (msts : List Mst) (m : Mst) (hf : C.findMst row.mst = some m) (hm : m ∈ msts)
    (inner outer : Option Cond) (ρ : Nat → Point → Bool) (cap : Nat) (tmin tmax : Int)
    (imin imax : Option Int)
    (hlo : (subRange tmin tmax imin imax).1 ≤ row.p.time) (hhi : row.p.time ≤ (subRange tmin tmax imin imax).2)
    (hu : KeysUnique row.p.tags)
    (hwf : ∀ k, resolveSki C m rt.group = some k → (viewGroup m rt.group rt.group.alive).WF k.range)
    (hs : satOpt m.schemaTags ρ row.p inner = true) :
    ∃ l ss, (m.origin, l) ∈ mapSub true hash cap C msts tmin tmax imin imax inner outer ∧
      (rt.group, some ss) ∈ l ∧ rt.shard ∈ ss := by
  unfold mapSub
  simp only [if_true]
  exact mapMst_sound hash C rows row rt hx msts m hf hm inner ρ cap _ _ hlo hhi hu hwf hs

/-! ## the loop as it was -/

namespace ReadWitness
open BatchWitness

/-- `net`, sharded by `region` -/
def net : Mst := ⟨"net", "net_0000", [⟨["region"], false, 0⟩], ["host", "region"], false, []⟩
def memHR : Mst := ⟨"mem", "mem_0000", [⟨["host"], false, 0⟩], ["host", "region"], false, []⟩
def C4 : Catalogue := ⟨none, [memHR, net], [g1, g2]⟩
def hostA : Cond := .eqStr "host" "a" 0
def hostB : Cond := .eqStr "host" "b" 0
/-- shard ids per (origin, group id) -/
def view (l : List (String × List (Group × Option (List Shard)))) : List (String × List (Nat × Option (List Nat))) :=
  l.map fun (n, gs) => (n, gs.map fun (g, o) => (g.ID, o.map (·.map (·.ID))))

end ReadWitness

open BatchWitness ReadWitness in
/-- **as written, the shard key of the first group is used for every group**: `mem` is sharded by
`host` in group 1 and by `region` from group 2 on; the row `host=a, region=b` of group 2 is in
shard 21, the query `host = 'a'` over both groups looks at shard 20 there. Repaired: all shards of
group 2 (the condition does not constrain `region`). -/
theorem mapMst_stale_key_asWritten :
    ids (routeBatch true true hashW C3 [row "mem" 106 [("host", "a"), ("region", "b")]]) = [some 21] ∧
    view (mapMst false hashW 1024 C3 [mem2] 0 200 (some hostA)) =
      [("mem", [(1, some [10]), (2, some [20])])] ∧
    view (mapMst true hashW 1024 C3 [mem2] 0 200 (some hostA)) =
      [("mem", [(1, some [10]), (2, some [20, 21])])] := by
  decide

open BatchWitness ReadWitness in
/-- **as written, every measurement behind a regular expression is mapped as the first one**:
`FROM /mem|net/ WHERE host = 'a'` looks for `net` (sharded by `region`) only where `mem`'s key
`host=a` hashes to, the `net` row `host=a, region=b` in shard 11 is not read. -/
theorem mapMst_first_measurement_asWritten :
    ids (routeBatch true true hashW C4 [row "net" 5 [("host", "a"), ("region", "b")]]) = [some 11] ∧
    view (mapMst false hashW 1024 C4 [memHR, net] 0 50 (some hostA)) =
      [("mem", [(1, some [10])]), ("net", [(1, some [10])])] ∧
    view (mapMst true hashW 1024 C4 [memHR, net] 0 50 (some hostA)) =
      [("mem", [(1, some [10])]), ("net", [(1, some [10, 11])])] := by
  decide

open BatchWitness ReadWitness in
/-- **as written, the outer condition narrows the sources of a subquery**:
`SELECT * FROM (SELECT value, region AS host FROM mem) WHERE host = 'b'` — the row `host=a,
region=b` (shard 10) is an answer, the mapper reads only where `host=b` hashes to (shard 11).
Repaired: the subquery has no condition of its own, all shards are read. -/
theorem mapSub_outer_condition_asWritten :
    ids (routeBatch true true hashW C4 [row "mem" 5 [("host", "a"), ("region", "b")]]) = [some 10] ∧
    view (mapSub false hashW 1024 C4 [memHR] 0 50 none none none (some hostB)) = [("mem", [(1, some [11])])] ∧
    view (mapSub true hashW 1024 C4 [memHR] 0 50 none none none (some hostB)) = [("mem", [(1, some [10, 11])])] := by
  decide

end OG.C11
