/-
C11 — executable model of the write-side routing and the read-side shard pruning.

Write side (`coordinator/points_writer.go:updateShardGroupAndShardKey`):
  group  := last live group containing the timestamp (`ShardGroupByTimestampAndEngineType`)
  key    := `Row.UnmarshalShardKeyByTag(ski.ShardKey)`  (measurement name + the shard-key tags,
            merge walk over two sorted lists; a missing key rejects the point)
  shard  := `DestShard(key)` (range sharding) or
            `ShardFor(HashID(key without "name,"), shardIdxes)` (hash sharding)
Read side (`coordinator/shard_mapper.go:mapMstShards`):
  groups := `ShardGroupsByTimeRange(tmin, tmax)`
  shards := `TargetShards(mst, ski, condition, alive)` per group, driven by `getConditionTags`.

`Shard.Contain`, `Shard.ContainPrefix`, `Group.Contains`, `Group.Overlaps` and `Group.ShardFor`
are *generated* from the Go source (OG.Generated.C11); everything else here is a transcription
whose source text is pinned in `Facts.lean` and whose behaviour is tied by the correspondence.
`hash` is a parameter everywhere (the driver instantiates it with xxhash64).
-/
import OG.Generated.C11

namespace OG.C11

/-- a point as the router sees it: timestamp and tags (sorted by key by the line-protocol
parser). Field values only matter to the condition, which reads them through `ρ`. -/
structure Point where
  time : Int
  tags : List Tag
deriving Repr, DecidableEq

/-- what the routing needs of the catalogue for one measurement. -/
structure Meta where
  /-- `mst.Name` = `Row.Name` on the write path (measurement name with version suffix) -/
  name : String
  /-- `ski.ShardKey`: sorted by the statement parser (`sort.Strings`), no duplicates
  (`ValidShardKey`); `[]` is "no shard key" (`ski.ShardKey == nil`) -/
  key : List String
  /-- `ski.Type == RANGE` -/
  range : Bool
  /-- the names with `Field_Type_Tag` in `mst.Schema` -/
  schemaTags : List String
  groups : List Group
deriving Repr

/-! ## write side -/

inductive WErr where
  | noGroup          -- no live group contains the timestamp (the writer would create one)
  | missingShardKey  -- ErrPointShouldHaveAllShardKey: point rejected (partial error)
  | duplicateTag     -- CheckDuplicateTag
  | map2shard        -- errno.WritePointMap2Shard: DestShard / ShardFor returned nil
  | panic            -- index / slice out of range
deriving DecidableEq, Repr

/-- `Row.appendShardKey`. -/
def appendShardKey (sk : String) (t : Tag) : String := sk ++ "," ++ t.1 ++ "=" ++ t.2

/-- `Row.CheckDuplicateTag(idx)` seen from position `idx` of the tag list. -/
def dupAt : List Tag → Bool
  | a :: b :: _ => a.1 == b.1
  | _ => false

/-- `len(tags) == 0` branch of `UnmarshalShardKeyByTag`: every tag is part of the key. -/
def allTagsKey (sk : String) : List Tag → Except WErr String
  | [] => .ok sk
  | t :: ts => if dupAt (t :: ts) then .error .duplicateTag else allTagsKey (appendShardKey sk t) ts

/-- the trailing `for j < len(r.Tags)-1` duplicate check. -/
def dupTail : List Tag → Bool
  | [] => false
  | t :: ts => dupAt (t :: ts) || dupTail ts

/-- the `searchTag` loop of `UnmarshalShardKeyByTag` (no field index options): a merge walk
over the sorted shard-key names and the sorted tags of the row. -/
def keyWalk : List String → List Tag → String → Except WErr String
  | [], ts, sk => if dupTail ts then .error .duplicateTag else .ok sk
  | _ :: _, [], _ => .error .missingShardKey
  | k :: ks, t :: ts, sk =>
    if k < t.1 then .error .missingShardKey
    else if dupAt (t :: ts) then .error .duplicateTag
    else if k = t.1 then keyWalk ks ts (appendShardKey sk t)
    else keyWalk (k :: ks) ts sk

/-- `Row.UnmarshalShardKeyByTag(tags)`: the value left in `r.ShardKey`. -/
def shardKeyOf (name : String) (key : List String) (tags : List Tag) : Except WErr String :=
  if key.isEmpty then allTagsKey name tags else keyWalk key tags name

/-- the conjunct of `ShardGroupByTimestampAndEngineType` (one engine type). -/
def Group.liveFor (g : Group) (t : Int) : Bool :=
  g.Contains t && !g.deleted &&
    (match g.truncatedAt with | none => true | some ta => decide (t < ta))

/-- `RetentionPolicyInfo.ShardGroupByTimestampAndEngineType`: scans from the last group. -/
def groupFor (gs : List Group) (t : Int) : Option Group := gs.reverse.find? (·.liveFor t)

/-- `ShardGroupInfo.DestShard`. -/
def Group.DestShard (g : Group) (shardKey : String) : Option Shard :=
  g.Shards.find? (·.Contain shardKey)

/-- the modulus domain: `aliveShardIdxes` when `mst.InitNumOfShards == 0`, else
`mst.ShardIdexes[sg.ID]`. -/
def Group.shardIdxes (g : Group) : List Nat :=
  match g.mstIdx with | none => g.alive | some l => l

/-- what is hashed: with a shard key the leading "name," is cut off, without one the whole
buffer (name and all tags) is hashed. -/
def hashInput (M : Meta) (sk : String) : Option String :=
  if M.key.length > 0 then Go.dropFrom sk (Go.len M.name + 1) else some sk

structure Routed where
  group : Group
  shard : Shard
  /-- the string that was range-compared / hashed -/
  key : String
deriving Repr, DecidableEq

/-- the routing decision of `updateShardGroupAndShardKey` inside a given shard group: shard key of
the row, then `DestShard` (range) or `ShardFor(HashID(key), shardIdxes)` (hash). -/
def routeIn (hash : String → Nat) (M : Meta) (g : Group) (p : Point) : Except WErr Routed :=
  match shardKeyOf M.name M.key p.tags with
  | .error e => .error e
  | .ok sk =>
    if M.range then
      match g.DestShard sk with
      | some s => .ok ⟨g, s, sk⟩
      | none => .error .map2shard
    else
      match hashInput M sk with
      | none => .error .panic
      | some hk =>
        match g.ShardFor (hash hk) g.shardIdxes with
        | none => .error .panic
        | some none => .error .map2shard
        | some (some s) => .ok ⟨g, s, hk⟩

/-- the routing decision of `updateShardGroupAndShardKey` for one row. -/
def writePoint (hash : String → Nat) (M : Meta) (p : Point) : Except WErr Routed :=
  match groupFor M.groups p.time with
  | none => .error .noGroup
  | some g => routeIn hash M g p

/-! ### shard-group spans (`Data.newShardGroup`) -/

/-- Unix nanoseconds of Go's zero `time.Time` (0001-01-01T00:00:00Z), the origin of
`Time.Truncate`. -/
def zeroTimeNs : Int := -62135596800 * 1000000000

/-- `time.Time.Truncate(d)` on Unix nanoseconds. -/
def truncateTime (t d : Int) : Int := if d ≤ 0 then t else t - (t - zeroTimeNs) % d

/-- `models.MaxNanoTime`. -/
def maxNanoTime : Int := 9223372036854775806

/-- `[StartTime, EndTime)` of the group `newShardGroup` creates for timestamp `t`. -/
def newGroupSpan (dur t : Int) : Int × Int :=
  let s := truncateTime t dur
  let e := s + dur
  (s, if e > maxNanoTime then maxNanoTime + 1 else e)

/-! ## read side -/

/-- the condition language as `getConditionTags` distinguishes it. `id`s name the opaque
atoms (other tag operators, field comparisons, time bounds, …); their truth value is given by
an arbitrary valuation `ρ`. -/
inductive Cond where
  /-- `BinaryExpr{Op: EQ, LHS: VarRef k, RHS: StringLiteral v}` -/
  | eqStr (k v : String) (id : Nat)
  /-- any other non-AND/OR/paren expression -/
  | other (id : Nat)
  | and (a b : Cond)
  | or (a b : Cond)
  | paren (a : Cond)
deriving Repr, DecidableEq

/-- `conditionTagsByBinary` answers with a tag: not a time condition (`isTimeCondition`: the
name lower-cases to "time" and the literal is a string) and the name is a tag of the schema. -/
def isTagEq (schemaTags : List String) (k : String) : Bool :=
  Go.toLower k != "time" && schemaTags.contains k

/-- the AND arm of `getConditionTags` as it was at the pinned commit: every right-hand
group's tags are appended into each left-hand group. -/
def andAsWritten (l r : List (List Tag)) : List (List Tag) := l.map (· ++ r.flatten)

/-- cross product of tag groups (repaired AND arm). -/
def crossGroups (l r : List (List Tag)) : List (List Tag) :=
  l.flatMap fun a => r.map fun b => a ++ b

/-- `getConditionTags`; `none` is Go's `nil` (no tag constraint). `fixed = false` is the code
before fix b85decd (no `ParenExpr` case, OR returning the other side, AND not a product). -/
def condTags (fixed : Bool) (cap : Nat) (S : List String) : Cond → Option (List (List Tag))
  | .eqStr k v _ => if isTagEq S k then some [[(k, v)]] else none
  | .other _ => none
  | .paren a => if fixed then condTags fixed cap S a else none
  | .and a b =>
    match condTags fixed cap S a, condTags fixed cap S b with
    | none, r => r
    | some l, none => some l
    | some l, some r =>
      if fixed then
        if l.length * r.length > cap then some l else some (crossGroups l r)
      else some (andAsWritten l r)
  | .or a b =>
    match condTags fixed cap S a, condTags fixed cap S b with
    | none, r => if fixed then none else r
    | some l, none => if fixed then none else some l
    | some l, some r => some (l ++ r)

/-- one step of Go's `insertionSort` (used by `sort.Sort` below 12 elements): the element
goes after everything that is not greater (stable). -/
def insertTag (t : Tag) : List Tag → List Tag
  | [] => [t]
  | u :: us => if t.1 < u.1 then t :: u :: us else u :: insertTag t us

/-- `sort.Sort(tagsGroup[i])` with `PointTags.Less` = key order. -/
def sortTags (g : List Tag) : List Tag := g.foldl (fun acc t => insertTag t acc) []

/-- the `for i < len(ski.ShardKey) && j < len(group)` loop of `TargetShards`: returns the
buffer and how many shard-key names were left unmatched (`len(ski.ShardKey) - i`). -/
def readWalk : List String → List Tag → String → String × Nat
  | [], _, sk => (sk, 0)
  | k :: ks, [], sk => (sk, (k :: ks).length)
  | k :: ks, t :: ts, sk =>
    if k < t.1 then (sk, (k :: ks).length)
    else if k = t.1 then readWalk ks ts (sk ++ "," ++ t.1 ++ "=" ++ t.2)
    else readWalk (k :: ks) ts sk

/-- `genShardInfosByIndex(aliveShardIdxes)`; an index out of range panics (`none`). -/
def Group.allAlive (g : Group) : Option (List Shard) := g.alive.mapM (Go.at g.Shards)

/-- the loop over the tag groups in `TargetShards`. `reset = false` is the code before fix
53ddc83, where `shardKeyAndValue` kept the previous groups' tags. -/
def targetLoop (reset : Bool) (hash : String → Nat) (M : Meta) (g : Group) :
    List (List Tag) → String → List Shard → Option (List Shard)
  | [], _, acc => some acc
  | grp :: rest, buf, acc =>
    -- `shardKeyAndValue = shardKeyAndValue[:len(mst.Name)]` (the buffer starts with the name)
    let buf := if reset then M.name else buf
    let (buf, missing) := readWalk M.key (sortTags grp) buf
    if M.range then
      targetLoop reset hash M g rest buf (acc ++ g.Shards.filter (·.ContainPrefix buf))
    else if missing > 0 then g.allAlive
    else
      match Go.dropFrom buf (Go.len M.name + 1) with
      | none => none
      | some hk =>
        match g.ShardFor (hash hk) g.shardIdxes with
        | none => none
        | some none => targetLoop reset hash M g rest buf acc
        | some (some s) => targetLoop reset hash M g rest buf (acc ++ [s])

/-- `ShardGroupInfo.TargetShards(mst, ski, condition, aliveShardIdxes)`; `c = none` is a nil
condition, result `none` is a panic. Not modelled: `sysconfig` force-broadcast (off by
default; it only ever widens the answer to all alive shards). -/
def targetShards (fixed reset : Bool) (cap : Nat) (hash : String → Nat) (M : Meta) (g : Group)
    (c : Option Cond) : Option (List Shard) :=
  if M.key.isEmpty || (!M.range && c.isNone) then g.allAlive
  else
    match c.bind (condTags fixed cap M.schemaTags) with
    | none => g.allAlive
    | some [] => g.allAlive
    | some gs => targetLoop reset hash M g gs M.name []

/-- `Data.ShardGroupsByTimeRange`. -/
def groupsForRange (gs : List Group) (tmin tmax : Int) : List Group :=
  gs.filter fun g => !g.deleted && g.Overlaps tmin tmax

/-- the (group, shards) pairs `mapMstShards` consults for a query. -/
def consulted (fixed reset : Bool) (cap : Nat) (hash : String → Nat) (M : Meta)
    (c : Option Cond) (tmin tmax : Int) : List (Group × Option (List Shard)) :=
  (groupsForRange M.groups tmin tmax).map fun g => (g, targetShards fixed reset cap hash M g c)

/-! ## what a condition means -/

/-- value of a tag of a point; InfluxQL compares a missing tag as the empty string. -/
def tagVal (tags : List Tag) (k : String) : String :=
  match tags.lookup k with | some v => v | none => ""

/-- truth of a condition on a point. Tag equalities on schema tags mean what they say; every
other atom is read through the arbitrary valuation `ρ`. -/
def Cond.sat (S : List String) (ρ : Nat → Point → Bool) (p : Point) : Cond → Bool
  | .eqStr k v id => if isTagEq S k then tagVal p.tags k == v else ρ id p
  | .other id => ρ id p
  | .and a b => a.sat S ρ p && b.sat S ρ p
  | .or a b => a.sat S ρ p || b.sat S ρ p
  | .paren a => a.sat S ρ p

end OG.C11
