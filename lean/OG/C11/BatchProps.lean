/-
C11 — the write batch is the single-point mapping, row by row.

`routeBatch` (OG.C11.Batch) is the loop of `PointsWriter.routeAndMapOriginRows` with the state it
carries from row to row (previous measurement, previous shard group, cached ShardKeyInfo, cached
alive-shard list). Proved here, for the repaired code (`fixA = fixB = true`, /repo 2191e92 and
0905d80), for every hash function, every catalogue, every batch (any order of measurements, shard
keys per measurement / per group / per database, timestamps crossing group boundaries, rows
dropped at any stage):

* `batch_routing_in_group`   every row gets the outcome of the stateless decision `stepIn` inside
                             a group that is a non-deleted group of the policy containing its
                             timestamp: the measurement's OWN shard key for that group and that
                             group's OWN alive list, whatever was cached;
* `batch_routing_eq_pointwise`  with disjoint live groups and no truncated group the whole batch
                             equals the rows written one by one (`pointwise`);
* `batch_write_then_pruned_read_sound`  a row the batch stored is found by every query whose
                             time range contains it and whose condition it satisfies:
                             `prune_sound_in` applies to batches.

The code as it was before the two fixes is kept in the model (`fixA = false` / `fixB = false`) and
shown to differ from the single-point mapping by `batch_stale_shard_key_asWritten` and
`batch_stale_alive_asWritten` (the rows land in shards a shard-key query does not consult).
-/
import OG.C11.Batch
import OG.C11.Props

namespace OG.C11
open OG.Gen.C11 (skRefreshGuard)

/-- invariant of the cached state between two rows (repaired code). -/
structure Inv (C : Catalogue) (st : WState) : Prop where
  sgMem : ∀ g, st.preSg = some g → g ∈ C.groups ∧ g.deleted = false
  mstOk : ∀ m, st.preMst = some m → C.findMst m.origin = some m
  cache : st.asis ≠ [] → ∃ g m, st.preSg = some g ∧ st.preMst = some m ∧ st.asis = g.alive ∧
    st.ski = resolveSki C m g

theorem Inv.init (C : Catalogue) : Inv C WState.init :=
  ⟨fun _ h => (by cases h), fun _ h => (by cases h), fun h => absurd rfl h⟩

/-- the group `createShardGroup` answers with. -/
def chosen (C : Catalogue) (st : WState) (t : Int) : Option Group := (createSg C st t).map (·.1)

theorem findMst_origin {C : Catalogue} {name : String} {m : Mst} (h : C.findMst name = some m) :
    m.origin = name := by
  unfold Catalogue.findMst at h
  have := List.find?_some h
  simpa using this

/-- what `createSg` answers: a non-deleted group of the policy that contains the timestamp; on
the fast path it is the cached one. -/
theorem createSg_some {C : Catalogue} {st : WState} (hI : Inv C st) {t : Int} {g : Group} {b : Bool}
    (h : createSg C st t = some (g, b)) :
    g ∈ C.groups ∧ g.deleted = false ∧ g.Contains t = true ∧ (b = true → st.preSg = some g) := by
  have slow : ∀ {x : Option (Group × Bool)}, x = (groupFor C.groups t).map (·, false) → x = some (g, b) →
      g ∈ C.groups ∧ g.deleted = false ∧ g.Contains t = true ∧ b = false := by
    intro x hx hxs
    rw [hx] at hxs
    cases hg : groupFor C.groups t with
    | none => rw [hg] at hxs; cases hxs
    | some g' =>
      rw [hg] at hxs
      simp only [Option.map_some, Option.some.injEq, Prod.mk.injEq] at hxs
      obtain ⟨e1, e2⟩ := hxs
      subst e1
      obtain ⟨hm, hl⟩ := groupFor_some hg
      have hl' := (liveFor_iff _ _).1 hl
      refine ⟨hm, hl'.2.2.1, ?_, e2.symm⟩
      simp only [Group.liveFor, Bool.and_eq_true] at hl
      exact hl.1.1
  have fromSlow : g ∈ C.groups ∧ g.deleted = false ∧ g.Contains t = true ∧ b = false →
      g ∈ C.groups ∧ g.deleted = false ∧ g.Contains t = true ∧ (b = true → st.preSg = some g) :=
    fun ⟨h1, h2, h3, h4⟩ => ⟨h1, h2, h3, fun hb => by rw [h4] at hb; cases hb⟩
  unfold createSg at h
  cases hp : st.preSg with
  | none => rw [hp] at h; rw [← hp]; exact fromSlow (slow rfl h)
  | some g0 =>
    rw [hp] at h
    simp only at h
    split at h
    · rename_i hc
      simp only [Option.some.injEq, Prod.mk.injEq] at h
      obtain ⟨e1, _⟩ := h
      subst e1
      obtain ⟨hm, hdel⟩ := hI.sgMem g0 hp
      exact ⟨hm, hdel, hc, fun _ => rfl⟩
    · rw [← hp]; exact fromSlow (slow rfl h)

/-- the settled part of `updateShardGroupAndShardKey`: whatever was cached, the row is routed with
the measurement's own ShardKeyInfo for `g` and `g`'s own alive list, and the cache describes
`(mi, g)` afterwards. -/
theorem routeTail_spec (hash : String → Nat) (C : Catalogue) (st : WState) (mi : Mst) (g : Group)
    (b : Bool) (p : Point)
    (hc : b = true → st.asis ≠ [] → st.asis = g.alive ∧ (st.sameMst = true → st.ski = resolveSki C mi g)) :
    (routeTail true hash C st mi g b p).2 = routeWith hash C mi g (resolveSki C mi g) g.alive p ∧
    (routeTail true hash C st mi g b p).1.preSg = some g ∧
    (routeTail true hash C st mi g b p).1.preMst = st.preMst ∧
    ((routeTail true hash C st mi g b p).1.asis ≠ [] →
      (routeTail true hash C st mi g b p).1.asis = g.alive ∧
      (routeTail true hash C st mi g b p).1.ski = resolveSki C mi g) := by
  cases b with
  | false =>
    simp [routeTail, skRefreshGuard]
  | true =>
    cases he : st.asis.isEmpty with
    | true =>
      simp [routeTail, skRefreshGuard, he]
    | false =>
      have hne : st.asis ≠ [] := by
        intro e; rw [e] at he; simp at he
      obtain ⟨ha, hs⟩ := hc rfl hne
      cases hm : st.sameMst with
      | false =>
        simp [routeTail, skRefreshGuard, hm, ha]
      | true =>
        simp [routeTail, skRefreshGuard, hm, ha, hs hm]

/-- **one row**: under the invariant the stateful step takes the stateless decision in the
chosen group, and (unless the batch aborts) re-establishes the invariant. -/
theorem stepRow_spec (hash : String → Nat) (C : Catalogue) (st : WState) (r : Row) (hI : Inv C st) :
    (stepRow true true hash C st r).2 = stepIn hash C (chosen C st r.p.time) r ∧
    ((stepRow true true hash C st r).2.isAbort = false → Inv C (stepRow true true hash C st r).1) := by
  unfold stepRow stepIn
  by_cases h1 : (r.pre == Pre.early) = true
  · simp only [h1, if_true]
    exact ⟨trivial, fun _ => hI⟩
  · simp only [h1, Bool.false_eq_true, if_false]
    by_cases h2 : (r.pre == Pre.badMst) = true
    · simp only [h2, if_true]
      exact ⟨trivial, fun _ => ⟨hI.sgMem, hI.mstOk, hI.cache⟩⟩
    · simp only [h2, Bool.false_eq_true, if_false]
      cases hf : C.findMst r.mst with
      | none => exact ⟨rfl, fun h => by simp [Step.isAbort] at h⟩
      | some mi =>
        simp only
        have hmi : C.findMst mi.origin = some mi := by rw [findMst_origin hf]; exact hf
        by_cases h3 : schemaDrops r = true
        · simp only [h3, if_true]
          refine ⟨trivial, fun _ => ⟨hI.sgMem, ?_, fun h => absurd rfl h⟩⟩
          intro m hm
          simp only [Option.some.injEq] at hm
          subst hm
          exact hmi
        · simp only [h3, Bool.false_eq_true, if_false]
          -- createSg reads preSg only
          have hcs : createSg C ⟨st.preSg, some mi, sameMeasurement st r.mst, st.ski, st.asis⟩ r.p.time =
              createSg C st r.p.time := rfl
          rw [hcs]
          unfold chosen
          cases hsg : createSg C st r.p.time with
          | none => exact ⟨rfl, fun h => by simp [Step.isAbort] at h⟩
          | some gb =>
            obtain ⟨g, b⟩ := gb
            simp only [Option.map_some]
            obtain ⟨hgm, hgdel, _, hfast⟩ := createSg_some hI hsg
            -- the cache hypothesis of `routeTail_spec`
            have hc : b = true → st.asis ≠ [] →
                st.asis = g.alive ∧ (sameMeasurement st r.mst = true → st.ski = resolveSki C mi g) := by
              intro hb hne
              obtain ⟨g', m', hp', hm', ha', hs'⟩ := hI.cache hne
              have hgg : g' = g := by
                have := hfast hb
                rw [hp'] at this
                exact Option.some.inj this
              subst hgg
              refine ⟨ha', fun hsame => ?_⟩
              -- same origin name: the previous measurement is this one
              unfold sameMeasurement at hsame
              rw [hm'] at hsame
              simp only [beq_iff_eq] at hsame
              have h1' := hI.mstOk m' hm'
              rw [hsame, hf] at h1'
              rw [hs', Option.some.inj h1']
            have hspec := routeTail_spec hash C ⟨st.preSg, some mi, sameMeasurement st r.mst, st.ski, st.asis⟩
              mi g b r.p hc
            refine ⟨hspec.1, fun _ => ⟨?_, ?_, ?_⟩⟩
            · intro g1 hg1
              rw [hspec.2.1] at hg1
              rw [← Option.some.inj hg1]
              exact ⟨hgm, hgdel⟩
            · intro m hm
              rw [hspec.2.2.1] at hm
              simp only [Option.some.injEq] at hm
              subst hm
              exact hmi
            · intro hne
              obtain ⟨ha, hs⟩ := hspec.2.2.2 hne
              exact ⟨g, mi, hspec.2.1, hspec.2.2.1, ha, hs⟩

/-- **the batch, row by row (no assumption on the groups).** Every row of the batch gets the
outcome of the stateless decision inside a non-deleted group of the policy that contains its
timestamp — the measurement's own shard key for that group, that group's own alive list. -/
theorem routeRows_in_group (hash : String → Nat) (C : Catalogue) :
    ∀ (rows : List Row) (st : WState), Inv C st →
      ∀ x ∈ routeRows true true hash C st rows, ∃ og, x.2 = stepIn hash C og x.1 ∧
        ∀ g, og = some g → g ∈ C.groups ∧ g.deleted = false ∧ g.Contains x.1.p.time = true := by
  intro rows
  induction rows with
  | nil => intro st _ x hx; simp [routeRows] at hx
  | cons r rs ih =>
    intro st hI x hx
    obtain ⟨hout, hinv⟩ := stepRow_spec hash C st r hI
    have hhead : ∃ og, (stepRow true true hash C st r).2 = stepIn hash C og r ∧
        ∀ g, og = some g → g ∈ C.groups ∧ g.deleted = false ∧ g.Contains r.p.time = true := by
      refine ⟨chosen C st r.p.time, hout, ?_⟩
      intro g hg
      unfold chosen at hg
      cases hsg : createSg C st r.p.time with
      | none => rw [hsg] at hg; cases hg
      | some gb =>
        obtain ⟨g', b⟩ := gb
        rw [hsg] at hg
        simp only [Option.map_some, Option.some.injEq] at hg
        subst hg
        obtain ⟨a, b', c, _⟩ := createSg_some hI hsg
        exact ⟨a, b', c⟩
    unfold routeRows at hx
    simp only at hx
    split at hx
    · simp only [List.mem_singleton] at hx
      subst hx
      exact hhead
    · rename_i hab
      rcases List.mem_cons.1 hx with e | hx
      · subst e; exact hhead
      · exact ih _ (hinv (by simpa using hab)) x hx

theorem batch_routing_in_group (hash : String → Nat) (C : Catalogue) (rows : List Row) :
    ∀ x ∈ routeBatch true true hash C rows, ∃ og, x.2 = stepIn hash C og x.1 ∧
      ∀ g, og = some g → g ∈ C.groups ∧ g.deleted = false ∧ g.Contains x.1.p.time = true :=
  routeRows_in_group hash C rows WState.init (Inv.init C)

/-- no group of the policy is truncated. -/
def NoTruncation (gs : List Group) : Prop := ∀ g ∈ gs, g.truncatedAt = none

/-- with disjoint live groups, none truncated, the cached group is the one the lookup finds. -/
theorem chosen_eq_groupFor {C : Catalogue} {st : WState} (hI : Inv C st)
    (hd : GroupsDisjoint C.groups) (hnt : NoTruncation C.groups) (t : Int) :
    chosen C st t = groupFor C.groups t := by
  unfold chosen
  cases hsg : createSg C st t with
  | none =>
    -- the slow path found nothing
    have hnone : groupFor C.groups t = none := by
      unfold createSg at hsg
      cases hp : st.preSg with
      | none => rw [hp] at hsg; simpa using hsg
      | some g0 =>
        rw [hp] at hsg
        simp only at hsg
        split at hsg
        · cases hsg
        · simpa using hsg
    rw [hnone]; rfl
  | some gb =>
    obtain ⟨g, b⟩ := gb
    simp only [Option.map_some]
    obtain ⟨hm, hdel, hc, _⟩ := createSg_some hI hsg
    have hlive : g.liveFor t = true := by
      simp [Group.liveFor, hc, hdel, hnt g hm]
    -- the lookup finds a live group, and there is only one
    have hex : (C.groups.reverse.find? (·.liveFor t)).isSome = true := by
      rw [List.find?_isSome]
      exact ⟨g, List.mem_reverse.2 hm, hlive⟩
    cases hg : groupFor C.groups t with
    | none => unfold groupFor at hg; rw [hg] at hex; cases hex
    | some g' =>
      obtain ⟨hm', hl'⟩ := groupFor_some hg
      rw [live_unique hd hm hm' hlive hl']

theorem routeRows_eq_pointwise (hash : String → Nat) (C : Catalogue)
    (hd : GroupsDisjoint C.groups) (hnt : NoTruncation C.groups) :
    ∀ (rows : List Row) (st : WState), Inv C st →
      routeRows true true hash C st rows = pointwise hash C rows := by
  intro rows
  induction rows with
  | nil => intro st _; rfl
  | cons r rs ih =>
    intro st hI
    obtain ⟨hout, hinv⟩ := stepRow_spec hash C st r hI
    rw [chosen_eq_groupFor hI hd hnt] at hout
    unfold routeRows pointwise
    simp only
    have hps : pointStep hash C r = (stepRow true true hash C st r).2 := by
      unfold pointStep; exact hout.symm
    rw [hps]
    cases hab : (stepRow true true hash C st r).2.isAbort with
    | true => simp
    | false =>
      simp only [Bool.false_eq_true, if_false]
      rw [ih _ (hinv hab)]

/-- **batch routing = single-point routing.** For every batch — any order of measurements, shard
keys per measurement, per group (ALTER … SHARDKEY) or per database, timestamps crossing group
boundaries, rows dropped at any stage — the loop with its cached state gives every row exactly
the outcome it gets when written on its own (live groups disjoint, none truncated: the
condition under which the single-point group is unique; `batch_routing_in_group` is the
statement without it). -/
theorem batch_routing_eq_pointwise (hash : String → Nat) (C : Catalogue) (rows : List Row)
    (hd : GroupsDisjoint C.groups) (hnt : NoTruncation C.groups) :
    routeBatch true true hash C rows = pointwise hash C rows :=
  routeRows_eq_pointwise hash C hd hnt rows WState.init (Inv.init C)

/-! ## the read side applies to batches -/

/-- `routeWith` answered with a shard: it is `routeIn` of the single-measurement model. -/
theorem routeWith_routed {hash : String → Nat} {C : Catalogue} {m : Mst} {g : Group}
    {ski : Option SKI} {asis : List Nat} {p : Point} {rt : Routed}
    (h : routeWith hash C m g ski asis p = .routed rt) :
    ∃ k r, ski = some k ∧ routeIn hash (metaOf C m k) (viewGroup m g asis) p = .ok r ∧
      rt = ⟨g, r.shard, r.key⟩ := by
  unfold routeWith at h
  split at h
  · cases h
  · rename_i k
    split at h
    · cases h
    · cases h
    · split at h
      · cases h
      · split at h
        · rename_i r hr
          simp only [Step.routed.injEq] at h
          exact ⟨k, r, rfl, hr, h.symm⟩
        · cases h
        · cases h

/-- **a batch write followed by a pruned read is sound.** If the batch stored a row in
`(rt.group, rt.shard)`, then for every query whose time range contains the row's timestamp and
whose condition the row satisfies, `ShardGroupsByTimeRange` returns that group and
`TargetShards` — called, as `mapMstShards` does, with the measurement, its ShardKeyInfo for that
group and the group's alive list — returns that shard. Every hash, hash and range sharding,
every catalogue, every batch. -/
theorem batch_write_then_pruned_read_sound (hash : String → Nat) (C : Catalogue) (rows : List Row)
    (row : Row) (rt : Routed) (hx : (row, Step.routed rt) ∈ routeBatch true true hash C rows)
    (c : Option Cond) (ρ : Nat → Point → Bool) (cap : Nat) (tmin tmax : Int)
    (hlo : tmin ≤ row.p.time) (hhi : row.p.time ≤ tmax) (hu : KeysUnique row.p.tags) :
    ∃ m k, C.findMst row.mst = some m ∧ resolveSki C m rt.group = some k ∧
      rt.group ∈ groupsForRange C.groups tmin tmax ∧
      ((viewGroup m rt.group rt.group.alive).WF k.range →
        satOpt m.schemaTags ρ row.p c = true →
        ∀ res, targetShards true true cap hash (metaOf C m k) (viewGroup m rt.group rt.group.alive) c = some res →
          rt.shard ∈ res) := by
  obtain ⟨og, hst, hg⟩ := batch_routing_in_group hash C rows _ hx
  simp only at hst hg
  unfold stepIn at hst
  split at hst
  · cases hst
  · split at hst
    · cases hst
    · split at hst
      · cases hst
      · rename_i mi hf
        split at hst
        · cases hst
        · split at hst
          · cases hst
          · rename_i g
            obtain ⟨k, r, hk, hr, hrt⟩ := routeWith_routed hst.symm
            obtain ⟨hgm, hgdel, hgc⟩ := hg g rfl
            have hgrp : rt.group = g := by rw [hrt]
            refine ⟨mi, k, hf, by rw [hgrp]; exact hk, ?_, ?_⟩
            · rw [hgrp]
              exact range_groups_cover C.groups g row.p.time tmin tmax hgm hgdel hgc hlo hhi
            · rw [hgrp]
              intro hwf hs res hres
              have := prune_sound_in hash (metaOf C mi k) (viewGroup mi g g.alive) row.p r c ρ cap hwf hu hr hs res hres
              rw [hrt]
              exact this

/-! ## the code before the fixes, and non-vacuity -/

namespace BatchWitness

def sh (id : Nat) : Shard := ⟨id, "", ""⟩
def g1 : Group := ⟨1, 0, 100, false, none, [sh 10, sh 11], [0, 1], none⟩
def g2 : Group := ⟨2, 100, 200, false, none, [sh 20, sh 21], [0, 1], none⟩
/-- only shard 0 of the first group is alive -/
def g1half : Group := { g1 with alive := [0] }
def cpu : Mst := ⟨"cpu", "cpu_0000", [⟨[], false, 0⟩], ["host"], false, []⟩
def mem : Mst := ⟨"mem", "mem_0000", [⟨["host"], false, 0⟩], ["host"], false, []⟩
/-- `mem` after `ALTER MEASUREMENT mem … SHARDKEY region`: groups from id 2 on use `region` -/
def mem2 : Mst := ⟨"mem", "mem_0000", [⟨["host"], false, 0⟩, ⟨["region"], false, 2⟩], ["host", "region"], false, []⟩
def C1 : Catalogue := ⟨none, [cpu, mem], [g1, g2]⟩
def C2 : Catalogue := ⟨none, [cpu, mem], [g1half, g2]⟩
def C3 : Catalogue := ⟨none, [cpu, mem2], [g1, g2]⟩
/-- keys ending in `b` go to position 1, everything else to position 0 -/
def hashW : String → Nat := fun s => if s = "host=b" ∨ s = "region=b" then 1 else 0
def row (m : String) (t : Int) (tags : List Tag) : Row := ⟨m, .ok, ⟨t, tags⟩⟩
def ids (l : List (Row × Step)) : List (Option Nat) :=
  l.map fun x => match x.2 with | .routed r => some r.shard.ID | _ => none

/-- cpu, then a mem row with a repeated tag key (dropped by the schema check), then mem host=b -/
def batchA : List Row :=
  [row "cpu" 5 [("host", "a")], row "mem" 6 [("host", "b"), ("host", "c")], row "mem" 7 [("host", "b")]]
/-- mem in the first group, then a mem row of the second group without `host` (rejected), then
mem host=b in the second group -/
def batchB : List Row :=
  [row "mem" 5 [("host", "a")], row "mem" 105 [("region", "x")], row "mem" 106 [("host", "b")]]
/-- two measurements, two groups, a shard key that changes with the group -/
def batchC : List Row :=
  [row "cpu" 5 [("host", "b")], row "mem" 6 [("host", "b"), ("region", "a")],
   row "mem" 105 [("host", "b"), ("region", "a")], row "mem" 7 [("host", "a"), ("region", "b")],
   row "mem" 106 [("host", "a"), ("region", "b")], row "cpu" 107 [("host", "b")]]

end BatchWitness

open BatchWitness in
/-- **before fix 2191e92** a row dropped by the schema check left `sameMst` true for the next
row of that measurement: `mem host=b` is hashed with `cpu`'s (empty) shard key and lands in shard
10, while on its own — and for a query `host = 'b'` — it belongs to shard 11. -/
theorem batch_stale_shard_key_asWritten :
    ids (routeBatch false true hashW C1 batchA) = [some 10, none, some 10] ∧
    ids (pointwise hashW C1 batchA) = [some 10, none, some 11] ∧
    ids (routeBatch true true hashW C1 batchA) = [some 10, none, some 11] ∧
    (targetShards true true 1024 hashW (metaOf C1 mem ⟨["host"], false, 0⟩) (viewGroup mem g1 g1.alive)
      (some (.eqStr "host" "b" 0))).map (·.map (·.ID)) = some [11] := by
  decide

open BatchWitness in
/-- **before fix 0905d80** a row rejected for a missing shard key at a group change left the
previous group's alive list in place: `mem host=b` of the second group is hashed over `[0]`
(first group) instead of `[0, 1]` and lands in shard 20 instead of 21. -/
theorem batch_stale_alive_asWritten :
    ids (routeBatch true false hashW C2 batchB) = [some 10, none, some 20] ∧
    ids (pointwise hashW C2 batchB) = [some 10, none, some 21] ∧
    ids (routeBatch true true hashW C2 batchB) = [some 10, none, some 21] ∧
    (targetShards true true 1024 hashW (metaOf C2 mem ⟨["host"], false, 0⟩) (viewGroup mem g2 g2.alive)
      (some (.eqStr "host" "b" 0))).map (·.map (·.ID)) = some [21] := by
  decide

open BatchWitness in
/-- the hypothesis of `batch_routing_eq_pointwise` is needed: with overlapping live groups (what
a change of the shard-group duration leaves behind, C16 finding `group_after_duration_change`)
the batch keeps the cached group where a row written on its own takes the last group that
contains its timestamp — both are groups containing the timestamp (`batch_routing_in_group`),
and the reader consults both. -/
theorem batch_group_follows_cache_when_overlapping :
    let gOv : Group := ⟨3, 50, 150, false, none, [sh 30, sh 31], [0, 1], none⟩
    let C : Catalogue := ⟨none, [cpu], [g1, gOv]⟩
    let b := [row "cpu" 10 [("host", "a")], row "cpu" 60 [("host", "a")]]
    ids (routeBatch true true hashW C b) = [some 10, some 10] ∧
    ids (pointwise hashW C b) = [some 10, some 30] ∧ ¬ GroupsDisjoint C.groups := by
  refine ⟨by decide, by decide, ?_⟩
  simp [GroupsDisjoint, g1]

open BatchWitness in
/-- non-vacuity: a batch over two measurements and two groups with a shard key that changes
with the group satisfies the hypotheses of `batch_routing_eq_pointwise`, every row is routed, the
rows are spread over four shards, and each is where its own shard key puts it. -/
example : GroupsDisjoint C3.groups ∧ NoTruncation C3.groups ∧
    ids (routeBatch true true hashW C3 batchC) = [some 10, some 11, some 20, some 10, some 21, some 20] ∧
    routeBatch true true hashW C3 batchC = pointwise hashW C3 batchC := by
  refine ⟨by simp [GroupsDisjoint, C3, g1, g2], ?_, by decide, by decide⟩
  intro g hg
  simp only [C3, List.mem_cons, List.not_mem_nil, or_false] at hg
  rcases hg with e | e <;> subst e <;> rfl

end OG.C11
