/-
C11 — the read side as the loop it is: `ClusterShardMapper.mapShards` / `mapMstShards`
(coordinator/shard_mapper.go).

For one `FROM` source `mapMstShards` asks the catalogue for the measurements the source names
(one, or every match of a regular expression, sorted by name), then for every source and every
shard group of the time range calls `TargetShards(measurement, shardKeyInfo, condition, alive)`.
As written (before /repo fix) the loop carried two things it must not carry:

  * `shardKeyInfo` was resolved once (`if shardKeyInfo == nil { … GetShardKey(groups[i].ID) }`) and
    reused for every later group AND every later source, although a measurement's shard key can
    change from group to group (`ALTER MEASUREMENT … SHARDKEY`) and differs between measurements;
  * every source was mapped with `measurements[0]` (name, schema, shard key, shard index list).

For a subquery source `mapShards` handed the OUTER condition down to the inner sources; the outer
condition speaks about the subquery's output columns (`SELECT region AS host …`), the rows of the
inner sources are selected by the subquery's own condition.

`mapMst fixed` / `mapSub fixed` transcribe both versions (`fixed = true` is the repaired code).
Core Lean only.
-/
import OG.C11.Batch

namespace OG.C11

/-- `TargetShards(mst, ski, condition, alive)` on the group as the measurement sees it; a nil
ShardKeyInfo answers with all alive shards (first test of `TargetShards`). -/
def targetOf (hash : String → Nat) (cap : Nat) (C : Catalogue) (m : Mst) (ski : Option SKI)
    (g : Group) (c : Option Cond) : Option (List Shard) :=
  match ski with
  | none => (viewGroup m g g.alive).allAlive
  | some k => targetShards true true cap hash (metaOf C m k) (viewGroup m g g.alive) c

/-- the group loop of `mapMstShards` for one source. `cache` is the `shardKeyInfo` variable
(starts as the database-level key, if any). As written the measurement is `m0 = measurements[0]`
and the key is resolved only while the variable is nil. -/
def mapGroups (fixed : Bool) (hash : String → Nat) (cap : Nat) (C : Catalogue) (m0 mk : Mst)
    (c : Option Cond) : Option SKI → List Group → Option SKI × List (Group × Option (List Shard))
  | cache, [] => (cache, [])
  | cache, g :: gs =>
    if fixed then
      let ski := match C.dbKey with | some k => some k | none => mk.getShardKey g.ID
      let (cache', rest) := mapGroups fixed hash cap C m0 mk c cache gs
      (cache', (g, targetOf hash cap C mk ski g c) :: rest)
    else
      let cache1 := match cache with | some k => some k | none => m0.getShardKey g.ID
      let (cache', rest) := mapGroups fixed hash cap C m0 mk c cache1 gs
      (cache', (g, targetOf hash cap C m0 cache1 g c) :: rest)

/-- the source loop of `mapMstShards`: one entry per matched measurement. -/
def mapSources (fixed : Bool) (hash : String → Nat) (cap : Nat) (C : Catalogue) (m0 : Mst)
    (groups : List Group) (c : Option Cond) :
    Option SKI → List Mst → List (String × List (Group × Option (List Shard)))
  | _, [] => []
  | cache, mk :: ms =>
    let (cache', l) := mapGroups fixed hash cap C m0 mk c cache groups
    (mk.origin, l) :: mapSources fixed hash cap C m0 groups c cache' ms

/-- `mapMstShards(s, tmin, tmax, condition)`, `msts` = `GetMeasurements(s)`. -/
def mapMst (fixed : Bool) (hash : String → Nat) (cap : Nat) (C : Catalogue) (msts : List Mst)
    (tmin tmax : Int) (c : Option Cond) : List (String × List (Group × Option (List Shard))) :=
  match msts with
  | [] => []
  | m0 :: _ => mapSources fixed hash cap C m0 (groupsForRange C.groups tmin tmax) c C.dbKey msts

/-- the time range handed to the sources of a subquery: the subquery's own bounds where it has
some, else the outer ones. -/
def subRange (tmin tmax : Int) (imin imax : Option Int) : Int × Int :=
  (match imin with | some a => a | none => tmin, match imax with | some b => b | none => tmax)

/-- a subquery source (`mapShards`, case `*influxql.SubQuery`) over one inner `FROM` source:
`inner` is the subquery's own condition (time bounds split off), `outer` the condition
`mapShards` was called with. -/
def mapSub (fixed : Bool) (hash : String → Nat) (cap : Nat) (C : Catalogue) (msts : List Mst)
    (tmin tmax : Int) (imin imax : Option Int) (inner outer : Option Cond) :
    List (String × List (Group × Option (List Shard))) :=
  let r := subRange tmin tmax imin imax
  mapMst fixed hash cap C msts r.1 r.2 (if fixed then inner else outer)

end OG.C11
