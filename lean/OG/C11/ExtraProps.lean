/-
C11 — further obligations on the single-point model.

* `no_prune_without_tag_equality`  a condition in which no atom is `tag = 'literal'` on a schema
  tag — `!=`, regular expressions, `IN (…)`, `NOT IN (…)`, orderings, tag = tag, field and time
  comparisons, in any AND/OR/parenthesis structure — never narrows the shard list: `TargetShards`
  answers with all alive shards.
* `destShard_total` / `write_accepts_range`  range sharding: when the bounds of a group's shards
  are contiguous (first `Min` empty, each `Max` equal to the next `Min`, last `Max` empty — what
  `CreateShardGroupWithBounds` builds) every shard key falls into some shard, so a well-formed
  point is accepted.
-/
import OG.C11.Props

namespace OG.C11

/-- some atom of the condition is an equality between a schema tag and a string literal. -/
def Cond.hasTagEq (S : List String) : Cond → Bool
  | .eqStr k _ _ => isTagEq S k
  | .other _ => false
  | .and a b => a.hasTagEq S || b.hasTagEq S
  | .or a b => a.hasTagEq S || b.hasTagEq S
  | .paren a => a.hasTagEq S

theorem condTags_none_of_no_tagEq (cap : Nat) (S : List String) :
    ∀ c : Cond, c.hasTagEq S = false → condTags true cap S c = none := by
  intro c
  induction c with
  | eqStr k v id => intro h; simp only [Cond.hasTagEq] at h; simp [condTags, h]
  | other id => intro _; rfl
  | paren a ih => intro h; simp only [Cond.hasTagEq] at h; simp [condTags, ih h]
  | and a b iha ihb =>
    intro h
    simp only [Cond.hasTagEq, Bool.or_eq_false_iff] at h
    simp [condTags, iha h.1, ihb h.2]
  | or a b iha ihb =>
    intro h
    simp only [Cond.hasTagEq, Bool.or_eq_false_iff] at h
    simp [condTags, iha h.1, ihb h.2]

/-- **only `tag = 'literal'` prunes.** Negations, regular expressions, `IN` / `NOT IN`,
orderings, tag-to-tag and field comparisons are all `other` atoms (or equalities on names that
are not schema tags): the shard list is not narrowed. -/
theorem no_prune_without_tag_equality (hash : String → Nat) (M : Meta) (g : Group) (c : Cond)
    (cap : Nat) (h : c.hasTagEq M.schemaTags = false) :
    targetShards true true cap hash M g (some c) = g.allAlive := by
  unfold targetShards
  split
  · rfl
  · simp [condTags_none_of_no_tagEq cap M.schemaTags c h]

/-- non-vacuity: `host != 'a' AND (region =~ /x/ OR host IN ('a','b'))` on shard key `host`. -/
example : (Cond.and (.other 0) (.paren (.or (.other 1) (.other 2)))).hasTagEq ["host", "region"] = false ∧
    (Cond.eqStr "host" "a" 0).hasTagEq ["host", "region"] = true := by decide

/-! ### range sharding with contiguous bounds -/

/-- each shard's `Max` is the next shard's `Min` (and not empty), the last `Max` is empty. -/
def BoundsChain : List Shard → Prop
  | [] => False
  | [s] => s.Max = ""
  | s :: t :: rest => s.Max = t.Min ∧ s.Max ≠ "" ∧ BoundsChain (t :: rest)

theorem contain_iff (s : Shard) (k : String) :
    s.Contain k = true ↔ s.Min ≤ k ∧ (s.Max = "" ∨ k < s.Max) := by
  unfold Shard.Contain
  simp

theorem exists_contain_of_chain : ∀ (shards : List Shard) (k : String), BoundsChain shards →
    (∀ s, shards.head? = some s → s.Min ≤ k) → ∃ s ∈ shards, s.Contain k = true := by
  intro shards
  induction shards with
  | nil => intro k h; cases h
  | cons s rest ih =>
    intro k hc hmin
    have hsmin : s.Min ≤ k := hmin s rfl
    cases rest with
    | nil =>
      refine ⟨s, List.mem_cons_self, (contain_iff s k).2 ⟨hsmin, Or.inl ?_⟩⟩
      exact hc
    | cons t rest' =>
      obtain ⟨hlink, hne, hrest⟩ := hc
      by_cases hlt : k < s.Max
      · exact ⟨s, List.mem_cons_self, (contain_iff s k).2 ⟨hsmin, Or.inr hlt⟩⟩
      · have htmin : t.Min ≤ k := by rw [← hlink]; exact String.not_lt.1 hlt
        obtain ⟨s', hs', hcont⟩ := ih k hrest (fun s'' h => by
          simp only [List.head?_cons, Option.some.injEq] at h; rw [← h]; exact htmin)
        exact ⟨s', List.mem_cons_of_mem _ hs', hcont⟩

/-- with contiguous bounds starting at the empty string `DestShard` finds a shard for every key. -/
theorem destShard_total (g : Group) (k : String) (hc : BoundsChain g.Shards)
    (h0 : ∀ s, g.Shards.head? = some s → s.Min = "") : ∃ s, g.DestShard k = some s := by
  obtain ⟨s, hs, hcont⟩ := exists_contain_of_chain g.Shards k hc (fun s hs => by
    rw [h0 s hs]
    have := str_le_append "" k
    simpa using this)
  unfold Group.DestShard
  have : (g.Shards.find? (·.Contain k)).isSome = true := by
    rw [List.find?_isSome]; exact ⟨s, hs, hcont⟩
  exact Option.isSome_iff_exists.1 this

/-- **range sharding accepts every well-formed point** when the group's bounds are contiguous. -/
theorem write_accepts_range (hash : String → Nat) (M : Meta) (p : Point) (g : Group) (sk : String)
    (hr : M.range = true) (hg : groupFor M.groups p.time = some g)
    (hsk : shardKeyOf M.name M.key p.tags = .ok sk)
    (hc : BoundsChain g.Shards) (h0 : ∀ s, g.Shards.head? = some s → s.Min = "") :
    ∃ r, writePoint hash M p = .ok r ∧ r.group = g ∧ r.shard.Contain sk = true := by
  obtain ⟨s, hs⟩ := destShard_total g sk hc h0
  refine ⟨⟨g, s, sk⟩, ?_, rfl, (destShard_some hs).2⟩
  simp [writePoint, routeIn, hg, hsk, hr, hs]

/-! ### the store's own time-range test -/

/-- `shard.Intersect` (engine/shard.go, translated) keeps every shard whose half-open span holds
a timestamp of the query range. -/
theorem store_intersect_covers (s e t tmin tmax : Int) (h1 : s ≤ t) (h2 : t < e)
    (hlo : tmin ≤ t) (hhi : t ≤ tmax) : storeIntersect s e tmin tmax = true := by
  unfold storeIntersect
  simp
  omega

/-- the store-side test never drops a shard the coordinator selected: `Overlaps` (meta side,
translated) implies `Intersect` (store side, translated) on the same span. -/
theorem store_recheck_keeps_coordinator_choice (g : Group) (tmin tmax : Int)
    (h : g.Overlaps tmin tmax = true) : storeIntersect g.StartTime g.EndTime tmin tmax = true := by
  unfold Group.Overlaps at h
  unfold storeIntersect
  simp at h ⊢
  omega

namespace RangeWitness
def shards3 : List Shard := [⟨1, "", "m,host=c"⟩, ⟨2, "m,host=c", "m,host=k"⟩, ⟨3, "m,host=k", ""⟩]
def gr : Group := ⟨1, 0, 100, false, none, shards3, [0, 1, 2], none⟩
def Mr : Meta := ⟨"m", ["host"], true, ["host"], [gr]⟩
end RangeWitness

open RangeWitness in
/-- non-vacuity: three contiguous shards; `host=d` falls into the second. -/
example : BoundsChain gr.Shards ∧ (∀ s, gr.Shards.head? = some s → s.Min = "") ∧
    (writePoint (fun _ => 0) Mr ⟨5, [("host", "d")]⟩).toOption.map (·.shard.ID) = some 2 := by
  refine ⟨⟨rfl, by decide, rfl, by decide, rfl⟩, ?_, by decide⟩
  intro s hs
  simp only [gr, shards3, List.head?_cons, Option.some.injEq] at hs
  rw [← hs]

end OG.C11
