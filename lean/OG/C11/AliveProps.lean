/-
C11 — alive-shard lists.

* `aliveWAF_in_range`  the list names shards of the group (first clause of `Group.WF`);
* `aliveWAF_all_online`  with every partition online writer and reader hash over all shards;
* `prune_unsound_when_alive_changes`  (finding `alive_list_changed_between_write_and_read`): the
  modulus domain of hash sharding is the alive list at the time of the call. A row written while
  a partition is offline is hashed over the remaining shards; once the partition is back, a query
  on the row's shard key hashes over all shards and looks elsewhere. The pruning theorems
  (`prune_sound_in`, `batch_write_then_pruned_read_sound`, `mapMst_sound`) are stated for one
  alive list shared by writer and reader — that hypothesis is exactly what excludes this.
* `hardWrite_domains_differ`  with `hard-write` and a partition offline the writer's and the
  reader's lists differ at the same moment.
-/
import OG.C11.Alive
import OG.C11.BatchProps

namespace OG.C11

theorem aliveWAF_go_in_range (online : List Bool) :
    ∀ (owners : List Nat) (i : Nat) (l : List Nat), aliveWAF.go online i owners = some l →
      ∀ j ∈ l, i ≤ j ∧ j < i + owners.length := by
  intro owners
  induction owners with
  | nil => intro i l h j hj; simp [aliveWAF.go] at h; subst h; cases hj
  | cons o os ih =>
    intro i l h j hj
    simp only [aliveWAF.go] at h
    split at h
    · cases h
    · rename_i b _
      cases hr : aliveWAF.go online (i + 1) os with
      | none => rw [hr] at h; cases h
      | some rest =>
        rw [hr] at h
        simp only [Option.map_some, Option.some.injEq] at h
        have hrest := ih (i + 1) rest hr
        subst h
        simp only [List.length_cons]
        split at hj
        · rcases List.mem_cons.1 hj with e | hj
          · subst e; omega
          · have := hrest j hj; omega
        · have := hrest j hj; omega

/-- every alive index names a shard of the group. -/
theorem aliveWAF_in_range (online : List Bool) (owners : List Nat) (read hw : Bool) (l : List Nat)
    (h : aliveWAF online owners read hw = some l) : ∀ j ∈ l, j < owners.length := by
  unfold aliveWAF at h
  split at h
  · simp only [Option.some.injEq] at h
    subst h
    intro j hj
    exact List.mem_range.1 hj
  · intro j hj
    have := aliveWAF_go_in_range online owners 0 l h j hj
    omega

namespace AliveWitness
open BatchWitness

/-- four shards owned by partitions 0..3 -/
def owners : List Nat := [0, 1, 2, 3]
def g4 (alive : List Nat) : Group := ⟨1, 0, 100, false, none, [sh 10, sh 11, sh 12, sh 13], alive, none⟩
def memH : Mst := ⟨"mem", "mem_0000", [⟨["host"], false, 0⟩], ["host"], false, []⟩
/-- the key `host=b` hashes to 5: position 5 % 3 = 2 of three alive shards, 5 % 4 = 1 of four -/
def hash5 : String → Nat := fun _ => 5
def aliveDown : List Nat := [0, 2, 3]   -- partition 1 offline
def aliveUp : List Nat := [0, 1, 2, 3]

end AliveWitness

open AliveWitness BatchWitness in
/-- non-vacuity / transcription check: partition 1 offline. -/
example : aliveWAF [true, false, true, true] owners true false = some aliveDown ∧
    aliveWAF [true, false, true, true] owners false false = some aliveDown ∧
    aliveWAF [true, true, true, true] owners true false = some aliveUp ∧
    aliveWAF [true] owners true false = none := by decide

open AliveWitness BatchWitness in
/-- **finding `alive_list_changed_between_write_and_read`**: written while partition 1 is offline
the row `host=b` goes to shard 13 (position 2 of `[0,2,3]`); read after the partition is back, the
query `host = 'b'` consults shard 11 (position 1 of `[0,1,2,3]`) only. With the same list on both
sides the shard is found. -/
theorem prune_unsound_when_alive_changes :
    ids (routeBatch true true hash5 ⟨none, [memH], [g4 aliveDown]⟩ [row "mem" 5 [("host", "b")]]) = [some 13] ∧
    (targetShards true true 1024 hash5 (metaOf ⟨none, [memH], [g4 aliveUp]⟩ memH ⟨["host"], false, 0⟩)
      (viewGroup memH (g4 aliveUp) aliveUp) (some (.eqStr "host" "b" 0))).map (·.map (·.ID)) = some [11] ∧
    (targetShards true true 1024 hash5 (metaOf ⟨none, [memH], [g4 aliveDown]⟩ memH ⟨["host"], false, 0⟩)
      (viewGroup memH (g4 aliveDown) aliveDown) (some (.eqStr "host" "b" 0))).map (·.map (·.ID)) = some [13] := by
  decide

open AliveWitness in
/-- with `hard-write` and a partition offline, writer and reader use different modulus domains
at the same moment. -/
theorem hardWrite_domains_differ :
    aliveWAF [true, false, true, true] owners false true = some [0, 1, 2, 3] ∧
    aliveWAF [true, false, true, true] owners true true = some [0, 2, 3] := by decide

/-- all partitions online: one list for both sides, all shards. -/
theorem aliveWAF_all_online (owners : List Nat) (online : List Bool) (read hw : Bool)
    (hall : ∀ o ∈ owners, online[o]? = some true) :
    aliveWAF online owners read hw = some (List.range owners.length) := by
  unfold aliveWAF
  split
  · rfl
  · have key : ∀ (os : List Nat) (i : Nat), (∀ o ∈ os, online[o]? = some true) →
        aliveWAF.go online i os = some (List.range' i os.length) := by
      intro os
      induction os with
      | nil => intro i _; rfl
      | cons o os ih =>
        intro i h
        simp only [aliveWAF.go, h o List.mem_cons_self, ih (i + 1) (fun o' ho' => h o' (List.mem_cons_of_mem _ ho')),
          Option.map_some, if_true, List.length_cons, List.range'_succ]
    rw [key owners 0 hall, List.range_eq_range']

/-! ### column store rows -/

theorem find_tag_val {tags : List Tag} {k : String} {t : Tag} (h : tags.find? (·.1 == k) = some t) :
    t.1 = k ∧ t.2 = tagVal tags k := by
  induction tags with
  | nil => simp at h
  | cons a as ih =>
    rw [tagVal_cons]
    simp only [List.find?_cons] at h
    by_cases hk : (a.1 == k) = true
    · simp only [hk, Option.some.injEq] at h
      subst h
      have : a.1 = k := by simpa using hk
      simp [this]
    · simp only [hk] at h
      have hne : ¬ k = a.1 := fun e => hk (by simp [e])
      simp only [hne, if_false]
      exact ih h

theorem fieldKeyWalk_tags (tags fields : List Tag) : ∀ (key : List String) (buf : String),
    (∀ k ∈ key, ∃ t ∈ tags, t.1 = k) →
    fieldKeyWalk key tags fields buf = .ok (keyStrFrom buf key (tagVal tags)) := by
  intro key
  induction key with
  | nil => intro buf _; rfl
  | cons k ks ih =>
    intro buf h
    obtain ⟨t, ht, hk⟩ := h k List.mem_cons_self
    have hsome : (tags.find? (·.1 == k)).isSome = true := by
      rw [List.find?_isSome]; exact ⟨t, ht, by simp [hk]⟩
    cases hf : tags.find? (·.1 == k) with
    | none => rw [hf] at hsome; cases hsome
    | some t' =>
      obtain ⟨h1, h2⟩ := find_tag_val hf
      simp only [fieldKeyWalk, hf, keyStrFrom_cons]
      rw [ih _ (fun k' hk' => h k' (List.mem_cons_of_mem _ hk'))]
      simp [appendShardKey, h1, h2]

/-- **column-store rows whose shard key names tags are keyed like time-series rows**: when every
shard-key name is a tag of the row, `UnmarshalShardKeyByField` builds the string
`name,k1=v1,…` that `UnmarshalShardKeyByTag` builds — the string `TargetShards` rebuilds from the
condition — so the pruning theorems carry over to such measurements. -/
theorem shardKeyByField_eq_tagKey (name : String) (key : List String) (tags fields : List Tag) (sk : String)
    (hk : key ≠ []) (hu : KeysUnique tags) (hts : shardKeyOf name key tags = .ok sk) :
    shardKeyByField name key tags fields = .ok sk := by
  have hspec := shardKeyOf_spec hk hu hts
  -- every key name occurs among the tags (else the walk of the time-series path rejects)
  have hall : ∀ k ∈ key, ∃ t ∈ tags, t.1 = k := by
    have key_all : ∀ (ks : List String) (ts : List Tag) (buf s : String), keyWalk ks ts buf = .ok s →
        ∀ k ∈ ks, ∃ t ∈ ts, t.1 = k := by
      intro ks ts
      induction ts generalizing ks with
      | nil =>
        intro buf s h k hk'
        cases ks with
        | nil => cases hk'
        | cons a as => simp [keyWalk] at h
      | cons t ts ih =>
        intro buf s h k hk'
        cases ks with
        | nil => cases hk'
        | cons a as =>
          simp only [keyWalk] at h
          split at h
          · cases h
          · split at h
            · cases h
            · split at h
              · rename_i heq
                rcases List.mem_cons.1 hk' with e | hk''
                · exact ⟨t, List.mem_cons_self, by rw [e, heq]⟩
                · obtain ⟨t', ht', he'⟩ := ih as _ s h k hk''
                  exact ⟨t', List.mem_cons_of_mem _ ht', he'⟩
              · obtain ⟨t', ht', he'⟩ := ih (a :: as) buf s h k hk'
                exact ⟨t', List.mem_cons_of_mem _ ht', he'⟩
    unfold shardKeyOf at hts
    have : key.isEmpty = false := by cases key <;> simp_all
    rw [this] at hts
    exact key_all key tags name sk hts
  unfold shardKeyByField
  rw [fieldKeyWalk_tags tags fields key name hall, hspec]

/-- non-vacuity; and a shard-key name found only among the fields is taken from there. -/
example : (shardKeyByField "m" ["host", "region"] [("region", "x"), ("host", "a")] []).toOption = some "m,host=a,region=x" ∧
    (shardKeyOf "m" ["host", "region"] [("host", "a"), ("region", "x")]).toOption = some "m,host=a,region=x" ∧
    (shardKeyByField "m" ["host", "msg"] [("host", "a")] [("msg", "hi")]).toOption = some "m,host=a,msg=hi" ∧
    (shardKeyByField "m" ["host", "zz"] [("host", "a")] [("msg", "hi")]).toOption = none := by decide

end OG.C11
