/-
C11 — property theorems.

Property: "Each accepted point is stored in exactly one shard: one belonging to the shard group
whose time span contains the point's timestamp, chosen deterministically from the point's
shard key. For any query, the set of shards consulted includes every shard that can hold a row
satisfying the query's time range and condition, so the answer does not depend on how many
partitions or nodes the data is spread over; narrowing the shard set by shard-key predicates
may only remove shards that cannot contain a match."

Everything is stated over the model of the *repaired* code (`fixed = true`, `reset = true`;
/repo commits b85decd and 53ddc83) and holds for every hash function, every number of shards
per group, every list of alive shards, hash and range sharding, every shard key, every
condition tree and every meaning `ρ` of the atoms that are not tag equalities. The code as it
was at the pinned commit is kept in the model (`fixed = false` / `reset = false`) and shown
unsound by the `…_asWritten` theorems.
-/
import OG.C11.Prune

namespace OG.C11
open OG.Gen.C11 (maxConditionTagGroups)

/-! ## write side -/

/-- what `Group.liveFor` (built on the generated `Contains`) says. -/
theorem liveFor_iff (g : Group) (t : Int) :
    g.liveFor t = true ↔
      g.StartTime ≤ t ∧ t < g.EndTime ∧ g.deleted = false ∧ (∀ ta, g.truncatedAt = some ta → t < ta) := by
  unfold Group.liveFor Group.Contains
  cases hta : g.truncatedAt <;> simp <;> grind

theorem groupFor_some {gs : List Group} {t : Int} {g : Group} (h : groupFor gs t = some g) :
    g ∈ gs ∧ g.liveFor t = true := by
  unfold groupFor at h
  exact ⟨List.mem_reverse.1 (List.mem_of_find?_eq_some h), List.find?_some (p := fun x : Group => x.liveFor t) h⟩

/-- live spans of different groups do not intersect (what `CreateShardGroup` maintains for a
fixed group duration; C16 is about when it does not). -/
def GroupsDisjoint (gs : List Group) : Prop :=
  gs.Pairwise fun a b => a.deleted = true ∨ b.deleted = true ∨ a.EndTime ≤ b.StartTime ∨ b.EndTime ≤ a.StartTime

theorem live_unique {gs : List Group} (hd : GroupsDisjoint gs) {t : Int} {a b : Group}
    (ha : a ∈ gs) (hb : b ∈ gs) (la : a.liveFor t = true) (lb : b.liveFor t = true) : a = b := by
  rw [liveFor_iff] at la lb
  induction gs with
  | nil => cases ha
  | cons x xs ih =>
    rw [GroupsDisjoint, List.pairwise_cons] at hd
    rcases List.mem_cons.1 ha with ea | ha' <;> rcases List.mem_cons.1 hb with eb | hb'
    · rw [ea, eb]
    · subst ea
      have := hd.1 b hb'
      grind
    · subst eb
      have := hd.1 a ha'
      grind
    · exact ih hd.2 ha' hb'

theorem destShard_some {g : Group} {sk : String} {s : Shard} (h : g.DestShard sk = some s) :
    s ∈ g.Shards ∧ s.Contain sk = true := by
  unfold Group.DestShard at h
  exact ⟨List.mem_of_find?_eq_some h, List.find?_some (p := fun x : Shard => x.Contain sk) h⟩

/-- the routing decision inside a group, taken apart. -/
theorem routeIn_ok {hash : String → Nat} {M : Meta} {g : Group} {p : Point} {r : Routed}
    (h : routeIn hash M g p = .ok r) :
    ∃ sk, r.group = g ∧ shardKeyOf M.name M.key p.tags = .ok sk ∧
      (M.range = true → r.group.DestShard sk = some r.shard ∧ r.key = sk) ∧
      (M.range = false → hashInput M sk = some r.key ∧
        r.group.ShardFor (hash r.key) r.group.shardIdxes = some (some r.shard)) := by
  unfold routeIn at h
  split at h
  · cases h
  · rename_i sk hsk
    refine ⟨sk, ?_⟩
    split at h
    · rename_i hr
      split at h
      · rename_i s hs
        cases h
        exact ⟨rfl, hsk, fun _ => ⟨hs, rfl⟩, fun hf => by simp [hr] at hf⟩
      · cases h
    · rename_i hr
      split at h
      · cases h
      · rename_i hk hhk
        split at h
        · cases h
        · cases h
        · rename_i s hs
          cases h
          exact ⟨rfl, hsk, fun ht => absurd ht hr, fun _ => ⟨hhk, hs⟩⟩

/-- the routing decision, taken apart. -/
theorem writePoint_ok {hash : String → Nat} {M : Meta} {p : Point} {r : Routed}
    (h : writePoint hash M p = .ok r) :
    ∃ sk, groupFor M.groups p.time = some r.group ∧ shardKeyOf M.name M.key p.tags = .ok sk ∧
      (M.range = true → r.group.DestShard sk = some r.shard ∧ r.key = sk) ∧
      (M.range = false → hashInput M sk = some r.key ∧
        r.group.ShardFor (hash r.key) r.group.shardIdxes = some (some r.shard)) := by
  unfold writePoint at h
  split at h
  · cases h
  · rename_i g hg
    obtain ⟨sk, hgr, hsk, h1, h2⟩ := routeIn_ok h
    exact ⟨sk, by rw [hgr]; exact hg, hsk, h1, h2⟩

/-- **T1 — each accepted point lands in exactly one shard, in the one live group covering its
timestamp.** `writePoint` is a function, so the decision is deterministic; whenever it accepts,
the group is a live group of the policy whose half-open span contains the timestamp, it is the
only such group when live spans are disjoint, and the shard is one of that group's shards:
for hash sharding the one at position `hash(key) mod n` of the modulus domain (every `n ≥ 1`,
every hash), for range sharding the first one whose key range contains the key. -/
theorem write_unique_covering (hash : String → Nat) (M : Meta) (p : Point) (r : Routed)
    (h : writePoint hash M p = .ok r) :
    r.group ∈ M.groups ∧
    (r.group.StartTime ≤ p.time ∧ p.time < r.group.EndTime ∧ r.group.deleted = false) ∧
    (GroupsDisjoint M.groups → ∀ g' ∈ M.groups, g'.liveFor p.time = true → g' = r.group) ∧
    r.shard ∈ r.group.Shards ∧
    (M.range = false → ∃ j, r.group.shardIdxes[hash r.key % r.group.shardIdxes.length]? = some j ∧
        r.group.Shards[j]? = some r.shard) ∧
    (M.range = true → r.shard.Contain r.key = true) := by
  obtain ⟨sk, hg, _, hrange, hhash⟩ := writePoint_ok h
  obtain ⟨hmem, hlive⟩ := groupFor_some hg
  have hl := (liveFor_iff _ _).1 hlive
  refine ⟨hmem, ⟨hl.1, hl.2.1, hl.2.2.1⟩, ?_, ?_, ?_, ?_⟩
  · intro hd g' hg' hl'
    exact live_unique hd hg' hmem hl' hlive
  · cases hr : M.range with
    | true =>
      have := (hrange hr).1
      exact List.mem_of_find?_eq_some this
    | false =>
      obtain ⟨j, _, hj, _⟩ := shardFor_some (hhash hr).2
      exact List.mem_of_getElem? hj
  · intro hr
    obtain ⟨j, _, hj, hi⟩ := shardFor_some (hhash hr).2
    exact ⟨j, hi, hj⟩
  · intro hr
    obtain ⟨hd, hk⟩ := hrange hr
    rw [hk]
    exact (destShard_some hd).2

/-- the walk of `UnmarshalShardKeyByTag` accepts a point whose tags are sorted by key without
repetition and include every shard-key tag (shard key sorted, as the statement parser leaves it). -/
theorem keyWalk_accepts : ∀ (tags : List Tag) (key : List String) (buf : String),
    tags.Pairwise (fun a b => a.1 < b.1) → key.Pairwise (· < ·) →
    (∀ k ∈ key, ∃ t ∈ tags, t.1 = k) → ∃ sk, keyWalk key tags buf = .ok sk := by
  intro tags
  induction tags with
  | nil =>
    intro key buf _ _ hall
    cases key with
    | nil => exact ⟨buf, by simp [keyWalk, dupTail]⟩
    | cons k ks => obtain ⟨t, ht, _⟩ := hall k List.mem_cons_self; cases ht
  | cons t ts ih =>
    intro key buf hts hks hall
    rw [List.pairwise_cons] at hts
    have hnodup : dupAt (t :: ts) = false := by
      cases ts with
      | nil => rfl
      | cons u us =>
        have := hts.1 u List.mem_cons_self
        simp only [dupAt, beq_eq_false_iff_ne, ne_eq]
        grind
    cases key with
    | nil =>
      have hdt : ∀ l : List Tag, l.Pairwise (fun a b => a.1 < b.1) → dupTail l = false := by
        intro l
        induction l with
        | nil => intro _; rfl
        | cons a as iha =>
          intro hp
          rw [List.pairwise_cons] at hp
          simp only [dupTail, Bool.or_eq_false_iff]
          refine ⟨?_, iha hp.2⟩
          cases as with
          | nil => rfl
          | cons b bs =>
            have := hp.1 b List.mem_cons_self
            simp only [dupAt, beq_eq_false_iff_ne, ne_eq]
            grind
      exact ⟨buf, by simp [keyWalk, hdt (t :: ts) (List.pairwise_cons.2 hts)]⟩
    | cons k ks =>
      rw [List.pairwise_cons] at hks
      simp only [keyWalk, hnodup, Bool.false_eq_true, if_false]
      -- `k` occurs among the tags, all of which are ≥ the first: not `k < t.1`
      obtain ⟨tk, htk, hek⟩ := hall k List.mem_cons_self
      have hnlt : ¬ k < t.1 := by
        rcases List.mem_cons.1 htk with e | hm
        · subst e; rw [hek]; exact String.lt_irrefl _
        · have := hts.1 tk hm; grind
      simp only [hnlt, if_false]
      split
      · rename_i heq
        apply ih ks _ hts.2 hks.2
        intro k' hk'
        obtain ⟨t', ht', he'⟩ := hall k' (List.mem_cons_of_mem _ hk')
        rcases List.mem_cons.1 ht' with e | hm
        · subst e
          have := hks.1 k' hk'
          grind
        · exact ⟨t', hm, he'⟩
      · rename_i hne
        apply ih (k :: ks) _ hts.2 (List.pairwise_cons.2 hks)
        intro k' hk'
        obtain ⟨t', ht', he'⟩ := hall k' hk'
        rcases List.mem_cons.1 ht' with e | hm
        · subst e
          rcases List.mem_cons.1 hk' with e2 | hk2
          · subst e2; exact absurd he'.symm hne
          · have := hks.1 k' hk2
            grind
        · exact ⟨t', hm, he'⟩

/-- **T1' — for every partition count `n ≥ 1` and every hash, a well-formed point is accepted**
(hash sharding with a shard key): a live group covers the timestamp, the tags are sorted
without repetition and carry every shard-key tag ⟹ `writePoint` answers with a shard. -/
theorem write_accepts (hash : String → Nat) (M : Meta) (p : Point) (g : Group)
    (hr : M.range = false) (hkey : M.key ≠ [])
    (hg : groupFor M.groups p.time = some g) (hwf : g.WF false) (hn : g.shardIdxes.length ≥ 1)
    (hts : p.tags.Pairwise (fun a b => a.1 < b.1)) (hks : M.key.Pairwise (· < ·))
    (hall : ∀ k ∈ M.key, ∃ t ∈ p.tags, t.1 = k) :
    ∃ r, writePoint hash M p = .ok r ∧ r.group = g := by
  obtain ⟨sk, hsk⟩ := keyWalk_accepts p.tags M.key M.name hts hks hall
  have hku : KeysUnique p.tags := hts.imp (fun h => by grind)
  have hempty : M.key.isEmpty = false := by cases hk : M.key <;> simp_all
  have hsko : shardKeyOf M.name M.key p.tags = .ok sk := by simp [shardKeyOf, hempty, hsk]
  have hspec := shardKeyOf_spec hkey hku hsko
  -- the buffer is the name, a comma, … : cutting `len(name)+1` bytes is in range
  have hlen : Go.len M.name + 1 ≤ sk.toList.length := by
    rw [hspec]
    cases hk : M.key with
    | nil => exact absurd hk hkey
    | cons k ks =>
      rw [keyStrFrom_cons, keyStrFrom_eq_append]
      simp [Go.len, String.toList_append]
  have hne : g.shardIdxes ≠ [] := by intro e; rw [e] at hn; simp at hn
  obtain ⟨s, hs⟩ := shardFor_total hwf hne (hash (String.ofList (sk.toList.drop (Go.len M.name + 1))))
  refine ⟨⟨g, s, String.ofList (sk.toList.drop (Go.len M.name + 1))⟩, ?_, rfl⟩
  have hlenpos : M.key.length > 0 := by cases hk : M.key <;> simp_all
  simp [writePoint, routeIn, hg, hsko, hr, hashInput, hlenpos, Go.dropFrom, hlen, hs]

/-! ### shard-group spans -/

/-- `newShardGroup`: the span created for a timestamp contains it, has the policy's duration
and starts on a multiple of the duration (counted from Go's zero time). -/
theorem newGroupSpan_covers (dur t : Int) (hd : 0 < dur)
    (hmax : truncateTime t dur + dur ≤ maxNanoTime) :
    (newGroupSpan dur t).1 ≤ t ∧ t < (newGroupSpan dur t).2 ∧
    (newGroupSpan dur t).2 - (newGroupSpan dur t).1 = dur ∧
    ((newGroupSpan dur t).1 - zeroTimeNs) % dur = 0 := by
  have hnle : ¬ dur ≤ 0 := by omega
  have hm1 := Int.emod_nonneg (t - zeroTimeNs) (by omega : dur ≠ 0)
  have hm2 := Int.emod_lt_of_pos (t - zeroTimeNs) hd
  have hnc : ¬ (truncateTime t dur + dur > maxNanoTime) := by omega
  simp only [newGroupSpan, hnc, if_false]
  simp only [truncateTime, hnle, if_false]
  refine ⟨by omega, by omega, by omega, ?_⟩
  have : t - (t - zeroTimeNs) % dur - zeroTimeNs = (t - zeroTimeNs) - (t - zeroTimeNs) % dur := by omega
  rw [this]
  have hdiv := Int.emod_add_mul_ediv (t - zeroTimeNs) dur
  have : (t - zeroTimeNs) - (t - zeroTimeNs) % dur = dur * ((t - zeroTimeNs) / dur) := by omega
  rw [this]
  exact Int.mul_emod_right _ _

/-- two spans created with the same duration coincide or do not intersect. -/
theorem newGroupSpan_aligned (dur t u : Int) (hd : 0 < dur)
    (h1 : truncateTime t dur + dur ≤ maxNanoTime) (h2 : truncateTime u dur + dur ≤ maxNanoTime) :
    newGroupSpan dur t = newGroupSpan dur u ∨
    (newGroupSpan dur t).2 ≤ (newGroupSpan dur u).1 ∨ (newGroupSpan dur u).2 ≤ (newGroupSpan dur t).1 := by
  have hnle : ¬ dur ≤ 0 := by omega
  have c1 : ¬ (truncateTime t dur + dur > maxNanoTime) := by omega
  have c2 : ¬ (truncateTime u dur + dur > maxNanoTime) := by omega
  simp only [newGroupSpan, c1, c2, if_false]
  simp only [truncateTime, hnle, if_false]
  have e1 := Int.emod_add_mul_ediv (t - zeroTimeNs) dur
  have e2 := Int.emod_add_mul_ediv (u - zeroTimeNs) dur
  generalize (t - zeroTimeNs) / dur = a at e1
  generalize (u - zeroTimeNs) / dur = b at e2
  have s1 : t - (t - zeroTimeNs) % dur = zeroTimeNs + dur * a := by omega
  have s2 : u - (u - zeroTimeNs) % dur = zeroTimeNs + dur * b := by omega
  rw [s1, s2]
  rcases Int.lt_trichotomy a b with h | h | h
  · right; left
    have : dur * (a + 1) ≤ dur * b := Int.mul_le_mul_of_nonneg_left (by omega) (by omega)
    rw [Int.mul_add] at this
    omega
  · left; rw [h]
  · right; right
    have : dur * (b + 1) ≤ dur * a := Int.mul_le_mul_of_nonneg_left (by omega) (by omega)
    rw [Int.mul_add] at this
    omega

/-! ## read side -/

/-- truth of an optional condition (`nil` is "no condition"). -/
def satOpt (S : List String) (ρ : Nat → Point → Bool) (p : Point) : Option Cond → Bool
  | none => true
  | some c => c.sat S ρ p

/-- **T2 — pruning is sound, for every condition tree.** If a point was accepted and routed to
`r.shard` of `r.group` and satisfies the condition, then `TargetShards` on that group returns
that shard (provided it returns at all; `targetShards_total` shows it does) — hash and range
sharding, every shard key, every hash, every number of shards, every `ρ`. -/
theorem prune_sound_in (hash : String → Nat) (M : Meta) (g : Group) (p : Point) (r : Routed)
    (c : Option Cond) (ρ : Nat → Point → Bool) (cap : Nat)
    (hwf : g.WF M.range) (hu : KeysUnique p.tags)
    (hw : routeIn hash M g p = .ok r) (hs : satOpt M.schemaTags ρ p c = true) :
    ∀ res, targetShards true true cap hash M g c = some res → r.shard ∈ res := by
  intro res hres
  obtain ⟨sk, hgr, hsk, hrange, hhash⟩ := routeIn_ok hw
  subst hgr
  obtain ⟨all, hall, hallmem⟩ := allAlive_some hwf
  -- the written shard is among "all alive shards"
  have hsall : r.shard ∈ all := by
    cases hr : M.range with
    | true =>
      have hd := (hrange hr).1
      have hm : r.shard ∈ r.group.Shards := List.mem_of_find?_eq_some hd
      obtain ⟨i, hi, he⟩ := List.getElem_of_mem hm
      rw [hr] at hwf
      exact hallmem i (hwf.allAlive rfl i hi) _ (by rw [List.getElem?_eq_getElem hi, he])
    | false =>
      obtain ⟨j, hj, hsj, _⟩ := shardFor_some (hhash hr).2
      rw [hr] at hwf
      exact hallmem j (hwf.idxAlive rfl j hj) _ hsj
  unfold targetShards at hres
  by_cases hcond : (M.key.isEmpty || (!M.range && c.isNone)) = true
  · rw [if_pos hcond, hall] at hres; cases hres; exact hsall
  · rw [if_neg hcond] at hres
    cases hct : c.bind (condTags true cap M.schemaTags) with
    | none => simp only [hct, hall, Option.some.injEq] at hres; subst hres; exact hsall
    | some gs =>
      cases gs with
      | nil => simp only [hct, hall, Option.some.injEq] at hres; subst hres; exact hsall
      | cons g0 grest =>
        simp only [hct] at hres
        -- a condition with tag groups: the point extends one of them
        have hkey : M.key ≠ [] := by
          intro e; simp [e] at hcond
        cases c with
        | none => simp at hct
        | some c =>
          simp only [Option.bind_some] at hct
          obtain ⟨grp, hgm, hext⟩ := condTags_overapprox cap M.schemaTags ρ p c _ hct (by simpa [satOpt] using hs)
          have hspec := shardKeyOf_spec hkey hu hsk
          cases hr : M.range with
          | true =>
            obtain ⟨hd, hk⟩ := hrange hr
            have hcont : r.shard.Contain (keyStrFrom M.name M.key (tagVal p.tags)) = true := by
              rw [← hspec]; exact (destShard_some hd).2
            exact targetLoop_sound_range hash M r.group p.tags r.shard hr (List.mem_of_find?_eq_some hd) hcont
              _ M.name [] res hres (Or.inr ⟨grp, hgm, hext⟩)
          | false =>
            obtain ⟨hhi, hsf⟩ := hhash hr
            have hlen : M.key.length > 0 := by cases hk : M.key <;> simp_all
            simp only [hashInput, hlen, if_true] at hhi
            rw [hspec] at hhi
            exact targetLoop_sound_hash hash M r.group p.tags r.shard r.key all hr hhi hsf hall hsall
              _ M.name [] res hres (Or.inr ⟨grp, hgm, hext⟩)

/-- **T2** for the single-point write path: the group is the one `groupFor` picks. -/
theorem prune_sound (hash : String → Nat) (M : Meta) (p : Point) (r : Routed)
    (c : Option Cond) (ρ : Nat → Point → Bool) (cap : Nat)
    (hwf : r.group.WF M.range) (hu : KeysUnique p.tags)
    (hw : writePoint hash M p = .ok r) (hs : satOpt M.schemaTags ρ p c = true) :
    ∀ res, targetShards true true cap hash M r.group c = some res → r.shard ∈ res := by
  unfold writePoint at hw
  split at hw
  · cases hw
  · rename_i g hg
    have hgr : r.group = g := (routeIn_ok hw).choose_spec.1
    rw [hgr] at hwf ⊢
    exact prune_sound_in hash M g p r c ρ cap hwf hu hw hs

/-! ### `TargetShards` answers (no panic) -/

theorem readWalk_len (ts : List Tag) : ∀ (key : List String) (buf : String),
    buf.toList.length + (key.length - (readWalk key ts buf).2) ≤ (readWalk key ts buf).1.toList.length := by
  induction ts with
  | nil => intro key buf; cases key <;> simp [readWalk]
  | cons t ts ih =>
    intro key buf
    cases key with
    | nil => simp [readWalk]
    | cons k ks =>
      simp only [readWalk]
      split
      · simp
      · split
        · have := ih ks (buf ++ "," ++ t.1 ++ "=" ++ t.2)
          simp only [String.toList_append, List.length_append, List.length_cons] at this ⊢
          have h2 : (readWalk ks ts (buf ++ "," ++ t.1 ++ "=" ++ t.2)).2 ≤ ks.length :=
            readWalk_missing_le _ _ _
          have hc : (",".toList).length = 1 := by decide
          omega
        · exact ih (k :: ks) buf

theorem shardFor_no_panic {g : Group} (hwf : g.WF false) (h : Nat) :
    ∃ o, g.ShardFor h g.shardIdxes = some o := by
  by_cases hne : g.shardIdxes = []
  · rw [shardFor_eq, hne]; exact ⟨none, by simp⟩
  · obtain ⟨s, hs⟩ := shardFor_total hwf hne h
    exact ⟨some s, hs⟩

theorem targetLoop_total (hash : String → Nat) (M : Meta) (g : Group) (hwf : g.WF M.range)
    (hkey : M.key ≠ []) :
    ∀ (gs : List (List Tag)) (buf : String) (acc : List Shard),
      ∃ res, targetLoop true hash M g gs buf acc = some res := by
  intro gs
  induction gs with
  | nil => intro buf acc; exact ⟨acc, rfl⟩
  | cons grp rest ih =>
    intro buf acc
    rw [targetLoop_cons]
    simp only [if_true]
    cases hr : M.range with
    | true => simp only [if_true]; exact ih _ _
    | false =>
      simp only [Bool.false_eq_true, if_false]
      rw [hr] at hwf
      split
      · obtain ⟨all, hall, _⟩ := allAlive_some hwf
        exact ⟨all, hall⟩
      · rename_i hmiss
        have hl := readWalk_len (sortTags grp) M.key M.name
        have hkl : M.key.length ≥ 1 := by cases hk : M.key <;> simp_all
        have hd : Go.len M.name + 1 ≤ (readWalk M.key (sortTags grp) M.name).1.toList.length := by
          simp only [Go.len]; omega
        simp only [Go.dropFrom, hd, if_true]
        obtain ⟨o, ho⟩ := shardFor_no_panic hwf
          (hash (String.ofList (List.drop (Go.len M.name + 1) (readWalk M.key (sortTags grp) M.name).1.toList)))
        rw [ho]
        cases o with
        | none => exact ih _ _
        | some s => exact ih _ _

theorem targetShards_total (hash : String → Nat) (M : Meta) (g : Group) (c : Option Cond) (cap : Nat)
    (hwf : g.WF M.range) : ∃ res, targetShards true true cap hash M g c = some res := by
  obtain ⟨all, hall, _⟩ := allAlive_some hwf
  unfold targetShards
  by_cases hcond : (M.key.isEmpty || (!M.range && c.isNone)) = true
  · rw [if_pos hcond]; exact ⟨all, hall⟩
  · rw [if_neg hcond]
    have hkey : M.key ≠ [] := by intro e; simp [e] at hcond
    cases hct : c.bind (condTags true cap M.schemaTags) with
    | none => exact ⟨all, hall⟩
    | some gs =>
      cases gs with
      | nil => exact ⟨all, hall⟩
      | cons g0 grest => exact targetLoop_total hash M g hwf hkey _ _ _

/-! ### time range -/

/-- **T3 — the time-range lookup selects every group that can hold a row of the range**: a
group that is not deleted and contains a timestamp of `[tmin, tmax]` is returned by
`ShardGroupsByTimeRange(tmin, tmax)` (over the generated `Contains` / `Overlaps`). -/
theorem range_groups_cover (gs : List Group) (g : Group) (t tmin tmax : Int)
    (hg : g ∈ gs) (hdel : g.deleted = false) (hc : g.Contains t = true)
    (hlo : tmin ≤ t) (hhi : t ≤ tmax) : g ∈ groupsForRange gs tmin tmax := by
  unfold groupsForRange
  rw [List.mem_filter]
  refine ⟨hg, ?_⟩
  simp only [Group.Contains, Bool.and_eq_true, Bool.not_eq_true', decide_eq_false_iff_not,
    decide_eq_true_eq] at hc
  simp only [hdel, Group.Overlaps, Bool.not_false, Bool.true_and, Bool.and_eq_true,
    Bool.not_eq_true', decide_eq_false_iff_not, decide_eq_true_eq]
  omega

/-- the whole catalogue is well formed for the sharding type of the measurement. -/
def Meta.WF (M : Meta) : Prop := ∀ g ∈ M.groups, g.WF M.range

/-- **T4 — the answer does not depend on the partitioning.** For every catalogue (any number
of groups, any number of shards per group, any alive list, any per-measurement shard list),
every hash, hash or range sharding: if a point was accepted and stored in `(r.group, r.shard)`,
lies in the query's time range and satisfies the query's condition, then that group is among
the groups the query maps and that shard among the shards it consults there. -/
theorem partition_independent (hash : String → Nat) (M : Meta) (p : Point) (r : Routed)
    (c : Option Cond) (ρ : Nat → Point → Bool) (cap : Nat) (tmin tmax : Int)
    (hwf : M.WF) (hu : KeysUnique p.tags)
    (hw : writePoint hash M p = .ok r) (hs : satOpt M.schemaTags ρ p c = true)
    (hlo : tmin ≤ p.time) (hhi : p.time ≤ tmax) :
    ∃ ss, (r.group, some ss) ∈ consulted true true cap hash M c tmin tmax ∧ r.shard ∈ ss := by
  obtain ⟨sk, hg, _, _, _⟩ := writePoint_ok hw
  obtain ⟨hmem, hlive⟩ := groupFor_some hg
  have hgw := hwf r.group hmem
  obtain ⟨ss, hss⟩ := targetShards_total hash M r.group c cap hgw
  refine ⟨ss, ?_, prune_sound hash M p r c ρ cap hgw hu hw hs ss hss⟩
  unfold consulted
  rw [List.mem_map]
  refine ⟨r.group, ?_, by rw [hss]⟩
  have hl := hlive
  simp only [Group.liveFor, Bool.and_eq_true, Bool.not_eq_true'] at hl
  exact range_groups_cover M.groups r.group p.time tmin tmax hmem hl.1.2 hl.1.1 hlo hhi

/-! ## the code as it was at the pinned commit, and non-vacuity

One group of two shards, shard key `host` (and `region` for the AND witness). The witness hash
sends `host=a…` keys to position 0 and everything else to position 1. -/

namespace Witness

def g2 : Group := ⟨1, 0, 100, false, none, [⟨10, "", ""⟩, ⟨11, "", ""⟩], [0, 1], none⟩
def M1 : Meta := ⟨"m", ["host"], false, ["host", "region"], [g2]⟩
def M2 : Meta := ⟨"m", ["host", "region"], false, ["host", "region"], [g2]⟩
def hashW : String → Nat := fun s => if s = "host=a" ∨ s = "host=a,region=x" then 0 else 1
/-- every opaque atom holds -/
def ρT : Nat → Point → Bool := fun _ _ => true
def pB : Point := ⟨5, [("host", "b"), ("region", "y")]⟩
def pAy : Point := ⟨5, [("host", "a"), ("region", "y")]⟩
/-- `host = 'a' OR usage > 1` -/
def cOr : Cond := .or (.eqStr "host" "a" 0) (.other 1)
/-- `host = 'a' OR (host = 'b')` -/
def cParen : Cond := .or (.eqStr "host" "a" 0) (.paren (.eqStr "host" "b" 1))
/-- `host = 'b' OR host = 'a'`… with the roles of a and b as the hash needs them -/
def cOrOr : Cond := .or (.eqStr "host" "a" 0) (.eqStr "host" "b" 1)
/-- `host = 'a' AND (region = 'x' OR region = 'y')` after a rewrite that dropped the parentheses -/
def cAnd : Cond := .and (.eqStr "host" "a" 0) (.or (.eqStr "region" "x" 1) (.eqStr "region" "y" 2))

def ids (o : Option (List Shard)) : Option (List Nat) := o.map (·.map (·.ID))
def written (M : Meta) (p : Point) : Option Nat := (writePoint hashW M p).toOption.map (·.shard.ID)

end Witness

open Witness in
/-- **as written, `getConditionTags` is unsound**: `host='a' OR usage>1` and
`host='a' OR (host='b')` return only host=a's shard while the point host=b (stored in the
other shard) satisfies them; AND without the cross product loses `host=a, region=y`. -/
theorem prune_unsound_asWritten :
    (cOr.sat M1.schemaTags ρT pB = true ∧ written M1 pB = some 11 ∧
      ids (targetShards false true 1024 hashW M1 g2 (some cOr)) = some [10]) ∧
    (cParen.sat M1.schemaTags ρT pB = true ∧
      ids (targetShards false true 1024 hashW M1 g2 (some cParen)) = some [10]) ∧
    (cAnd.sat M2.schemaTags ρT pAy = true ∧ written M2 pAy = some 11 ∧
      ids (targetShards false true 1024 hashW M2 g2 (some cAnd)) = some [10]) := by
  decide

open Witness in
/-- **as written, `TargetShards` is unsound even for `host='a' OR host='b'`**: the key buffer is
not reset between tag groups, the second group is hashed as `host=a,host=b`. -/
theorem target_unsound_asWritten :
    cOrOr.sat M1.schemaTags ρT pB = true ∧ written M1 pB = some 11 ∧
    ids (targetShards true false 1024 (fun s => if s = "host=b" then 1 else 0) M1 g2 (some cOrOr)) = some [10, 10] ∧
    (writePoint (fun s => if s = "host=b" then 1 else 0) M1 pB).toOption.map (·.shard.ID) = some 11 := by
  decide

open Witness in
/-- non-vacuity of T2/T4: the same witnesses satisfy the hypotheses (well-formed catalogue,
unique keys, accepted point, satisfied condition, time in range), and the repaired code
consults the shard. -/
example : M1.WF ∧ KeysUnique pB.tags ∧ (writePoint hashW M1 pB).toOption.isSome = true ∧
    satOpt M1.schemaTags ρT pB (some cOr) = true ∧
    ids (targetShards true true 1024 hashW M1 g2 (some cOr)) = some [10, 11] ∧
    ids (targetShards true true 1024 hashW M1 g2 (some cParen)) = some [10, 11] ∧
    ids (targetShards true true 1024 hashW M2 g2 (some cAnd)) = some [10, 11] ∧
    ids (targetShards true true 1024 hashW M1 g2 (some (.eqStr "host" "a" 0))) = some [10] := by
  refine ⟨?_, by simp [KeysUnique, pB], by decide, by decide, by decide, by decide, by decide, by decide⟩
  intro g hg
  simp only [M1, List.mem_singleton] at hg
  subst hg
  exact ⟨by decide, fun _ => by decide, fun h => by cases h⟩

open Witness in
/-- non-vacuity of T1': the hypotheses of `write_accepts` hold for the witness point. -/
example : ∃ r, writePoint hashW M2 pAy = .ok r ∧ r.group = g2 :=
  write_accepts hashW M2 pAy g2 rfl (by decide) (by decide)
    ⟨by decide, fun _ => by decide, fun h => by cases h⟩ (by decide) (by decide) (by decide) (by decide)

/-- non-vacuity of the span lemmas: one-week groups are aligned to Go's zero time, not to the
Unix epoch. -/
example : newGroupSpan 604800000000000 162630678263647 = (-259200000000000, 345600000000000) := by decide

end OG.C11
