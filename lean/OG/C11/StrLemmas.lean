/-
C11 — lexicographic-order facts about strings and their prefixes, and from them the lemma the
range-sharding half of the pruning proof rests on:
  `Contain si (pfx ++ rest) → ContainPrefix si pfx`
(a shard whose key range holds a key also passes the prefix test for every prefix of it).
Both predicates are the generated translations of `ShardInfo.Contain` / `ContainPrefix`.
-/
import OG.Generated.C11

namespace OG.C11

set_option linter.unusedSectionVars false
section lists
variable {α : Type} [LT α] [Std.Irrefl (α := α) (· < ·)]

/-- a list is never above one of its extensions -/
theorem not_append_lt_self (l r : List α) : ¬ (l ++ r < l) := by
  induction l with
  | nil => simp
  | cons a l ih =>
    simp only [List.cons_append, List.cons_lt_cons_iff, not_or, not_and]
    exact ⟨Std.Irrefl.irrefl a, fun _ => ih⟩

/-- `u < v → u < v ++ w` -/
theorem lt_append_right {u v : List α} (w : List α) (h : u < v) : u < v ++ w := by
  induction u generalizing v with
  | nil =>
    cases v with
    | nil => simp at h
    | cons b v => simp
  | cons a u ih =>
    cases v with
    | nil => simp at h
    | cons b v =>
      simp only [List.cons_append, List.cons_lt_cons_iff] at h ⊢
      rcases h with h | ⟨h1, h2⟩
      · exact Or.inl h
      · exact Or.inr ⟨h1, ih h2⟩

/-- `u < v`, `u` not a prefix of `v`  ⟹  `u ++ x < v`: the first difference is inside `u` -/
theorem append_lt_of_lt_of_not_prefix {u v : List α} (x : List α) (h : u < v) (hp : ¬ u <+: v) :
    u ++ x < v := by
  induction u generalizing v with
  | nil => exact absurd (List.nil_prefix) hp
  | cons a u ih =>
    cases v with
    | nil => simp at h
    | cons b v =>
      simp only [List.cons_append, List.cons_lt_cons_iff] at h ⊢
      rcases h with h | ⟨h1, h2⟩
      · exact Or.inl h
      · subst h1
        refine Or.inr ⟨rfl, ih h2 ?_⟩
        intro hpre
        exact hp ((List.cons_prefix_cons).2 ⟨rfl, hpre⟩)

end lists

/-! ### strings -/

theorem str_le_append (b r : String) : b ≤ b ++ r := by
  rw [← String.not_lt, String.lt_iff, String.toList_append]
  exact not_append_lt_self _ _

theorem Go.len_eq (s : String) : Go.len s = s.toList.length := rfl

theorem Go.take_toList (s : String) (n : Nat) : (Go.take s n).toList = s.toList.take n := by
  simp [Go.take]

/-- `Min ≤ b ++ r`, `len Min > len b`  ⟹  `Min[:len b] ≤ b` -/
theorem take_le_of_le_append {mn b r : String} (h : mn ≤ b ++ r) (hl : Go.len mn > Go.len b) :
    Go.take mn (Go.len b) ≤ b := by
  rw [← String.not_lt, String.lt_iff] at h ⊢
  intro hlt
  apply h
  rw [Go.take_toList] at hlt
  have hnp : ¬ b.toList <+: mn.toList.take (Go.len b) := by
    intro hpre
    have hlen : (mn.toList.take (Go.len b)).length = b.toList.length := by
      simp [Go.len_eq] at hl ⊢; omega
    have : b.toList = mn.toList.take (Go.len b) := List.IsPrefix.eq_of_length hpre hlen.symm
    rw [← this] at hlt
    exact List.lt_irrefl _ hlt
  have h1 := append_lt_of_lt_of_not_prefix r.toList hlt hnp
  have h2 := lt_append_right (mn.toList.drop (Go.len b)) h1
  rw [List.take_append_drop] at h2
  rw [String.toList_append]
  exact h2

/-- `Min ≤ b ++ r`, `len Min ≤ len b`  ⟹  `Min ≤ b` -/
theorem le_of_le_append_of_len_le {mn b r : String} (h : mn ≤ b ++ r) (hl : ¬ Go.len mn > Go.len b) :
    mn ≤ b := by
  rw [← String.not_lt, String.lt_iff] at h ⊢
  intro hlt
  apply h
  rw [String.toList_append]
  apply append_lt_of_lt_of_not_prefix _ hlt
  intro hpre
  have hle := hpre.length_le
  have : b.toList = mn.toList := List.IsPrefix.eq_of_length hpre (by simp [Go.len_eq] at hl; omega)
  rw [this] at hlt
  exact List.lt_irrefl _ hlt

/-- **the range-sharding lemma**: a shard that contains a key passes `ContainPrefix` for every
prefix of that key. -/
theorem containPrefix_of_contain (si : Shard) (pfx rest : String)
    (h : si.Contain (pfx ++ rest) = true) : si.ContainPrefix pfx = true := by
  simp only [Shard.Contain, Bool.and_eq_true, Bool.or_eq_true, decide_eq_true_eq, beq_iff_eq] at h
  obtain ⟨hmin, hmax⟩ := h
  simp only [Shard.ContainPrefix, Bool.and_eq_true, Bool.or_eq_true, decide_eq_true_eq, beq_iff_eq]
  constructor
  · split
    · rename_i hl
      simp only [decide_eq_true_eq]
      exact take_le_of_le_append hmin hl
    · rename_i hl
      simp only [Bool.or_eq_true, beq_iff_eq, decide_eq_true_eq]
      exact Or.inr (le_of_le_append_of_len_le hmin hl)
  · rcases hmax with h | h
    · exact Or.inl h
    · have := str_le_append pfx rest
      right
      grind

end OG.C11
