/-
C11 — line-protocol driver of the model (core only, stateful: `meta` / `group` lines build the
catalogue the following `point` / `cond` lines are answered against).

Strings are written `x<hex of the UTF-8 bytes>` (so `x` is the empty string).

  meta <name> <h|r> <key,key…|-> <tag,tag…|->                         → ok
  group <id> <start> <end> <deleted 0|1> <truncatedAt|-> <alive i,i…|-> <mstIdx i,i…|-|none>
        <shards id:min:max;…|->                                        → ok
  span <dur> <t>                                                       → span <start> <end>
  point <t> <k=v;k=v…|->          → shard <group id> <shard id> <key> | err <kind>
  cond <tmin> <tmax> <cond…>      → groups <gid>=<sid,sid…> …          | err panic
cond (prefix): `N` (nil) | `E <k> <v>` | `O` | `& x y` | `| x y` | `P x`.
  hint <group id> <f|s> <cond…>   → shards <sid,sid…>   (TargetShardsHintQuery, full / specific series) | err panic

Batches (OG.C11.Batch) are answered against a second catalogue, built by:
  cat <key,key…:h|r | ->                  database-level shard key; resets the catalogue   → ok
  cmst <origin> <name> <init 0|1> <tag,tag…|-> <key,key…|->/<h|r>/<sg>;… <gid=i,i…;…|->     → ok
  cgroup … (as `group`)                                                                     → ok
  batch <mst>:<o|e|b|s>:<t>:<k=v+k=v…|-> …
        → batch <gid/sid/key | -> … | dropped=<n> last=<kind|-> abort=<kind|->
  mapq <tmin> <tmax> <mst,mst…> <cond…>                         (OG.C11.ReadMap.mapMst)
  mapsub <tmin> <tmax> <mst,mst…> <imin|-> <imax|-> <inner cond…> <outer cond…>   (mapSub)
        → map <mst>=<sorted shard ids> …                                          | err panic
  alive <online 0|1,…> <owner,owner…> <r|w> <hard-write 0|1>    (OG.C11.Alive.aliveWAF)
        → alive <i,i…|->                                                          | err panic
  fieldkey <name> <key,key…> <k=v+k=v…|-> <fieldkey=strvalue+…|->   (shardKeyByField)
        → key <string>                                             | err missing-shard-key

`hash` is instantiated with xxhash64 (seed 0), as `meta.HashID`.
-/
import OG.C11.Model
import OG.C11.Batch
import OG.C11.ReadMap
import OG.C11.Alive
import OG.C11.Hint

namespace OG.C11

/-! ### xxhash64 -/
namespace XX
def p1 : UInt64 := 11400714785074694791
def p2 : UInt64 := 14029467366897019727
def p3 : UInt64 := 1609587929392839161
def p4 : UInt64 := 9650029242287828579
def p5 : UInt64 := 2870177450012600261

@[inline] def rotl (x : UInt64) (r : UInt64) : UInt64 := (x <<< r) ||| (x >>> (64 - r))
@[inline] def round (acc inp : UInt64) : UInt64 := rotl (acc + inp * p2) 31 * p1
@[inline] def mergeRound (acc v : UInt64) : UInt64 := (acc ^^^ round 0 v) * p1 + p4

def le (b : ByteArray) (off n : Nat) : UInt64 := Id.run do
  let mut r : UInt64 := 0
  for i in [0:n] do
    r := r ||| ((b.get! (off + i)).toUInt64 <<< (8 * i).toUInt64)
  return r

def sum64 (b : ByteArray) : UInt64 := Id.run do
  let n := b.size
  let mut off := 0
  let mut h : UInt64 := 0
  if n ≥ 32 then
    let mut v1 : UInt64 := p1 + p2
    let mut v2 : UInt64 := p2
    let mut v3 : UInt64 := 0
    let mut v4 : UInt64 := 0 - p1
    while off + 32 ≤ n do
      v1 := round v1 (le b off 8)
      v2 := round v2 (le b (off + 8) 8)
      v3 := round v3 (le b (off + 16) 8)
      v4 := round v4 (le b (off + 24) 8)
      off := off + 32
    h := rotl v1 1 + rotl v2 7 + rotl v3 12 + rotl v4 18
    h := mergeRound h v1
    h := mergeRound h v2
    h := mergeRound h v3
    h := mergeRound h v4
  else
    h := p5
  h := h + n.toUInt64
  while off + 8 ≤ n do
    h := h ^^^ round 0 (le b off 8)
    h := rotl h 27 * p1 + p4
    off := off + 8
  if off + 4 ≤ n then
    h := h ^^^ (le b off 4 * p1)
    h := rotl h 23 * p2 + p3
    off := off + 4
  while off < n do
    h := h ^^^ ((b.get! off).toUInt64 * p5)
    h := rotl h 11 * p1
    off := off + 1
  h := h ^^^ (h >>> 33)
  h := h * p2
  h := h ^^^ (h >>> 29)
  h := h * p3
  h := h ^^^ (h >>> 32)
  return h
end XX

/-- `meta.HashID`. -/
def hashID (s : String) : Nat := (XX.sum64 s.toUTF8).toNat

/-! ### parsing -/

def hexVal (c : Char) : Option Nat :=
  if '0' ≤ c ∧ c ≤ '9' then some (c.toNat - '0'.toNat)
  else if 'a' ≤ c ∧ c ≤ 'f' then some (c.toNat - 'a'.toNat + 10)
  else none

def unhexBytes : List Char → Option (List UInt8)
  | [] => some []
  | a :: b :: rest => do
    let x ← hexVal a
    let y ← hexVal b
    let r ← unhexBytes rest
    some (UInt8.ofNat (x * 16 + y) :: r)
  | _ => none

/-- `x<hex>` → string. -/
def parseStr (tok : String) : Option String :=
  match tok.toList with
  | 'x' :: cs => do
    let bs ← unhexBytes cs
    String.fromUTF8? (ByteArray.mk bs.toArray)
  | _ => none

def hexDigit (n : Nat) : Char := if n < 10 then Char.ofNat (48 + n) else Char.ofNat (87 + n)

def showStr (s : String) : String :=
  "x" ++ String.ofList (s.toUTF8.toList.flatMap fun b => [hexDigit (b.toNat / 16), hexDigit (b.toNat % 16)])

/-- `a,b,c` with `-` for the empty list. -/
def parseList {α : Type} (f : String → Option α) (sep : String) (tok : String) : Option (List α) :=
  if tok == "-" then some [] else (tok.splitOn sep).mapM f

def parseShard (tok : String) : Option Shard :=
  match tok.splitOn ":" with
  | [id, mn, mx] => do some ⟨← id.toNat?, ← parseStr mn, ← parseStr mx⟩
  | _ => none

def parseTag (tok : String) : Option Tag :=
  match tok.splitOn "=" with
  | [k, v] => do some (← parseStr k, ← parseStr v)
  | _ => none

partial def parseCond : List String → Option (Cond × List String)
  | "E" :: k :: v :: rest => do some (.eqStr (← parseStr k) (← parseStr v) 0, rest)
  | "O" :: rest => some (.other 0, rest)
  | "P" :: rest => do
    let (a, rest) ← parseCond rest
    some (.paren a, rest)
  | "&" :: rest => do
    let (a, rest) ← parseCond rest
    let (b, rest) ← parseCond rest
    some (.and a b, rest)
  | "|" :: rest => do
    let (a, rest) ← parseCond rest
    let (b, rest) ← parseCond rest
    some (.or a b, rest)
  | _ => none

def parseCondOpt : List String → Option (Option Cond)
  | ["N"] => some none
  | toks => match parseCond toks with
    | some (c, []) => some (some c)
    | _ => none

/-! ### answers -/

def showErr : WErr → String
  | .noGroup => "err no-group"
  | .missingShardKey => "err missing-shard-key"
  | .duplicateTag => "err duplicate-tag"
  | .map2shard => "err map2shard"
  | .panic => "err panic"

def showIds (xs : List Shard) : String := ",".intercalate (xs.map fun s => toString s.ID)

def showConsulted : List (Group × Option (List Shard)) → Option String
  | [] => some ""
  | (g, some ss) :: rest => do
    let r ← showConsulted rest
    some (" " ++ toString g.ID ++ "=" ++ showIds ss ++ r)
  | (_, none) :: _ => none

def emptyMeta : Meta := ⟨"", [], false, [], []⟩

/-! ### batches -/

def parseSKI (tok : String) : Option SKI :=
  match tok.splitOn "/" with
  | [ks, ty, sg] => do
    let k ← parseList parseStr "," ks
    if ty == "h" || ty == "r" then some ⟨k, ty == "r", ← sg.toNat?⟩ else none
  | _ => none

def parseDbKey (tok : String) : Option (Option SKI) :=
  if tok == "-" then some none
  else match tok.splitOn ":" with
    | [ks, ty] => do
      let k ← parseList parseStr "," ks
      if ty == "h" || ty == "r" then some (some ⟨k, ty == "r", 0⟩) else none
    | _ => none

def parseIdx (tok : String) : Option (Nat × List Nat) :=
  match tok.splitOn "=" with
  | [g, l] => do some (← g.toNat?, ← parseList String.toNat? "," l)
  | _ => none

def parsePre : String → Option Pre
  | "o" => some .ok
  | "e" => some .early
  | "b" => some .badMst
  | "s" => some .schemaDrop
  | _ => none

def parseRow (tok : String) : Option Row :=
  match tok.splitOn ":" with
  | [m, pre, t, tags] => do
    some ⟨← parseStr m, ← parsePre pre, ⟨← t.toInt?, ← parseList parseTag "+" tags⟩⟩
  | _ => none

def showDrop : DropKind → String
  | .early => "early"
  | .badMst => "bad-measurement"
  | .schema => "schema"
  | .missingShardKey => "missing-shard-key"
  | .keyTooLarge => "key-too-large"

def showAbort : AbortKind → String
  | .noMst => "no-measurement"
  | .noGroup => "no-group"
  | .noShardKey => "no-shard-key"
  | .unmarshal .duplicateTag => "duplicate-tag"
  | .unmarshal _ => "unmarshal"
  | .map2shard => "map2shard"
  | .panic => "panic"

/-- one token per row of the batch (rows after an abort: `-`), then the counters. -/
def showBatch (n : Nat) (outs : List (Row × Step)) : String :=
  let toks := outs.map fun (_, o) => match o with
    | .routed r => toString r.group.ID ++ "/" ++ toString r.shard.ID ++ "/" ++ showStr r.key
    | _ => "-"
  let pad := List.replicate (n - outs.length) "-"
  let drops := outs.filterMap fun (_, o) => match o with | .dropped k => some k | _ => none
  let ab := match outs.getLast? with | some (_, .abort k) => showAbort k | _ => "-"
  -- `return nil, dropped, err`: an abort does not report the partial error
  let last := if ab != "-" then "-" else match drops.getLast? with | some k => showDrop k | none => "-"
  "batch " ++ " ".intercalate (toks ++ pad) ++ " | dropped=" ++ toString drops.length ++
    " last=" ++ last ++ " abort=" ++ ab

def emptyCat : Catalogue := ⟨none, [], []⟩

/-- one optional condition off the front of the token list (`N` = nil). -/
def parseCondOpt1 : List String → Option (Option Cond × List String)
  | "N" :: rest => some (none, rest)
  | toks => (parseCond toks).map fun (c, rest) => (some c, rest)

def insertNat (n : Nat) : List Nat → List Nat
  | [] => [n]
  | m :: ms => if n < m then n :: m :: ms else if n = m then m :: ms else m :: insertNat n ms

/-- per measurement the sorted set of shard ids over all groups; `none` = a panic somewhere. -/
def showMap : List (String × List (Group × Option (List Shard))) → Option String
  | [] => some ""
  | (n, gs) :: rest => do
    let lists ← gs.mapM (·.2)
    let ids := (lists.flatten.map (·.ID)).foldl (fun acc i => insertNat i acc) []
    let r ← showMap rest
    some (" " ++ showStr n ++ "=" ++ ",".intercalate (ids.map toString) ++ r)

def optInt (tok : String) : Option (Option Int) :=
  if tok == "-" then some none else tok.toInt?.map some

structure DState where
  M : Meta
  C : Catalogue

def stepC (C : Catalogue) (toks : List String) : Option (Catalogue × String) :=
  match toks with
  | ["cat", dbk] => do
    let k ← parseDbKey dbk
    some (⟨k, [], []⟩, "ok")
  | ["cmst", origin, name, init, tags, skis, idx] => do
    let o ← parseStr origin
    let n ← parseStr name
    let t ← parseList parseStr "," tags
    let ks ← parseList parseSKI ";" skis
    let ix ← parseList parseIdx ";" idx
    if init == "0" || init == "1" then
      some ({ C with msts := C.msts ++ [⟨o, n, ks, t, init == "1", ix⟩] }, "ok")
    else none
  | ["cgroup", id, st, en, del, tr, alive, _mi, shards] => do
    let trunc : Option Int ← if tr == "-" then some none else tr.toInt?.map some
    let id ← id.toNat?
    let st ← st.toInt?
    let en ← en.toInt?
    let al ← parseList String.toNat? "," alive
    let sh ← parseList parseShard ";" shards
    if del == "0" || del == "1" then
      some ({ C with groups := C.groups ++ [⟨id, st, en, del == "1", trunc, sh, al, none⟩] }, "ok")
    else none
  | "mapq" :: tmin :: tmax :: names :: cond => do
    let lo ← tmin.toInt?
    let hi ← tmax.toInt?
    let ns ← parseList parseStr "," names
    let msts ← ns.mapM C.findMst
    let c ← parseCondOpt cond
    match showMap (mapMst true hashID OG.Gen.C11.maxConditionTagGroups C msts lo hi c) with
    | some s => some (C, "map" ++ s)
    | none => some (C, "err panic")
  | "mapsub" :: tmin :: tmax :: names :: imin :: imax :: conds => do
    let lo ← tmin.toInt?
    let hi ← tmax.toInt?
    let ns ← parseList parseStr "," names
    let msts ← ns.mapM C.findMst
    let il ← optInt imin
    let ih ← optInt imax
    let (inner, rest) ← parseCondOpt1 conds
    let (outer, rest') ← parseCondOpt1 rest
    if rest' != [] then none
    else match showMap (mapSub true hashID OG.Gen.C11.maxConditionTagGroups C msts lo hi il ih inner outer) with
      | some s => some (C, "map" ++ s)
      | none => some (C, "err panic")
  | ["alive", online, owners, rw, hard] => do
    let on ← parseList (fun t => if t == "1" then some true else if t == "0" then some false else none) "," online
    let ow ← parseList String.toNat? "," owners
    if (rw == "r" || rw == "w") && (hard == "0" || hard == "1") then
      match aliveWAF on ow (rw == "r") (hard == "1") with
      | some l => some (C, "alive " ++ (if l.isEmpty then "-" else ",".intercalate (l.map toString)))
      | none => some (C, "err panic")
    else none
  | ["fieldkey", name, key, tags, fields] => do
    let n ← parseStr name
    let k ← parseList parseStr "," key
    let t ← parseList parseTag "+" tags
    let f ← parseList parseTag "+" fields
    match shardKeyByField n k t f with
    | .ok sk => some (C, "key " ++ showStr sk)
    | .error e => some (C, showErr e)
  | "batch" :: rows => do
    let rs ← rows.mapM parseRow
    some (C, showBatch rs.length (routeBatch true true hashID C rs))
  | _ => none

def step (M : Meta) (line : String) : Meta × String :=
  match (line.trimAscii.toString.splitOn " ").filter (· ≠ "") with
  | ["meta", name, ty, key, tags] =>
    match parseStr name, parseList parseStr "," key, parseList parseStr "," tags with
    | some n, some k, some t =>
      if ty == "h" || ty == "r" then (⟨n, k, ty == "r", t, []⟩, "ok") else (M, "bad-op")
    | _, _, _ => (M, "bad-op")
  | ["group", id, st, en, del, tr, alive, mi, shards] =>
    let trunc : Option (Option Int) := if tr == "-" then some none else tr.toInt?.map some
    let mstIdx : Option (Option (List Nat)) :=
      if mi == "none" then some none else (parseList String.toNat? "," mi).map some
    match id.toNat?, st.toInt?, en.toInt?, trunc, parseList String.toNat? "," alive, mstIdx,
        parseList parseShard ";" shards with
    | some id, some st, some en, some tr, some al, some mi, some sh =>
      if del == "0" || del == "1" then
        ({ M with groups := M.groups ++ [⟨id, st, en, del == "1", tr, sh, al, mi⟩] }, "ok")
      else (M, "bad-op")
    | _, _, _, _, _, _, _ => (M, "bad-op")
  | ["span", dur, t] =>
    match dur.toInt?, t.toInt? with
    | some d, some t =>
      let (s, e) := newGroupSpan d t
      (M, "span " ++ toString s ++ " " ++ toString e)
    | _, _ => (M, "bad-op")
  | ["point", t, tags] =>
    match t.toInt?, parseList parseTag ";" tags with
    | some t, some tags =>
      match writePoint hashID M ⟨t, tags⟩ with
      | .ok r => (M, "shard " ++ toString r.group.ID ++ " " ++ toString r.shard.ID ++ " " ++ showStr r.key)
      | .error e => (M, showErr e)
    | _, _ => (M, "bad-op")
  | "hint" :: gid :: kind :: cond =>
    match gid.toNat?, parseCondOpt cond with
    | some id, some c =>
      match M.groups.find? (·.ID == id) with
      | some g =>
        if kind == "f" || kind == "s" then
          match targetShardsHint true OG.Gen.C11.maxConditionTagGroups hashID M g c (kind == "s") with
          | some ss => (M, "shards " ++ showIds ss)
          | none => (M, "err panic")
        else (M, "bad-op")
      | none => (M, "bad-op")
    | _, _ => (M, "bad-op")
  | "cond" :: tmin :: tmax :: cond =>
    match tmin.toInt?, tmax.toInt?, parseCondOpt cond with
    | some lo, some hi, some c =>
      match showConsulted (consulted true true OG.Gen.C11.maxConditionTagGroups hashID M c lo hi) with
      | some s => (M, "groups" ++ s)
      | none => (M, "err panic")
    | _, _, _ => (M, "bad-op")
  | _ => (M, "bad-op")

def isCatOp (line : String) : Bool :=
  line.startsWith "cat " || line.startsWith "cmst " || line.startsWith "cgroup " || line.startsWith "batch" ||
    line.startsWith "mapq " || line.startsWith "mapsub " || line.startsWith "alive " ||
    line.startsWith "fieldkey "

partial def loop (h : IO.FS.Stream) (out : IO.FS.Stream) (s : DState) : IO Unit := do
  let line ← h.getLine
  if line.isEmpty then return ()
  if isCatOp line then
    match stepC s.C ((line.trimAscii.toString.splitOn " ").filter (· ≠ "")) with
    | some (C', ans) =>
      out.putStrLn ans
      loop h out { s with C := C' }
    | none =>
      out.putStrLn "bad-op"
      loop h out s
  else
    let (M', ans) := step s.M line
    out.putStrLn ans
    loop h out { s with M := M' }

def main : IO Unit := do
  loop (← IO.getStdin) (← IO.getStdout) ⟨emptyMeta, emptyCat⟩

end OG.C11

def main : IO Unit := OG.C11.main
