/-
C11 — base types of the model and the Go primitives the regenerated definitions
(OG.Generated.C11) are written with.  Core Lean only.

Strings: shard keys are Go byte strings; the model uses `String` and the harness only
generates printable ASCII, where byte order / byte length and code-point order / length agree.
Times are nanoseconds since the Unix epoch (`time.Time.UnixNano`), as `Int`.
-/
namespace OG.C11

/-- a tag of a point / of a tag group: key, value. -/
abbrev Tag := String × String

/-- `meta.ShardInfo` (the fields the routing reads). -/
structure Shard where
  ID : Nat
  Min : String
  Max : String
deriving DecidableEq, Repr

/-- `meta.ShardGroupInfo`. `alive` is what `GetAliveShards` returned for the group,
`mstIdx` is `mst.ShardIdexes[sgi.ID]` when `mst.InitNumOfShards ≠ 0` (else `none`). -/
structure Group where
  ID : Nat
  StartTime : Int
  EndTime : Int
  deleted : Bool
  truncatedAt : Option Int
  Shards : List Shard
  alive : List Nat
  mstIdx : Option (List Nat)
deriving DecidableEq, Repr

namespace Go

/-- `len(s)` of a string (ASCII: bytes = characters). -/
def len (s : String) : Nat := s.toList.length

/-- `s[:n]` (the caller guards `n ≤ len s`, as the Go code does). -/
def take (s : String) (n : Nat) : String := String.ofList (s.toList.take n)

/-- `s[n:]`; out of range is a Go panic: `none`. -/
def dropFrom (s : String) (n : Nat) : Option String :=
  if n ≤ s.toList.length then some (String.ofList (s.toList.drop n)) else none

/-- `strings.ToLower` on ASCII (core `String.toLower` does not reduce in the kernel). -/
def toLower (s : String) : String := String.ofList (s.toList.map Char.toLower)

/-- `xs[i]`; out of range is a Go panic: `none`. -/
def «at» {α : Type} (xs : List α) (i : Nat) : Option α := xs[i]?

end Go

end OG.C11
