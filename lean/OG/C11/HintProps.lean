/-
C11 — the hint path reads the shard of every series it is asked for.

`hint_sound`: with the repaired `getShardsAndSeriesKeyForHintQuery` a stored point that satisfies
the condition has its shard among the shards `TargetShardsHintQuery` answers with — hash and range
sharding, every shard key; for a measurement without shard key under the hint's own promise
(the condition names the whole series: the tag group equals the point's tags).
`hint_unsound_asWritten`: the code as it was hashed all tags of the group whatever the shard key
(28 of 32 series missed in the probe with shard key `host` and tags `host, region`).
-/
import OG.C11.Hint
import OG.C11.Props

namespace OG.C11

/-- the shard a point was routed to is one of the alive shards of a well-formed group. -/
theorem routed_mem_allAlive {hash : String → Nat} {M : Meta} {g : Group} {p : Point} {r : Routed}
    (hwf : g.WF M.range) (hw : routeIn hash M g p = .ok r) :
    ∃ all, g.allAlive = some all ∧ r.shard ∈ all := by
  obtain ⟨sk, hgr, _, hrange, hhash⟩ := routeIn_ok hw
  subst hgr
  obtain ⟨all, hall, hallmem⟩ := allAlive_some hwf
  refine ⟨all, hall, ?_⟩
  cases hr : M.range with
  | true =>
    have hd := (hrange hr).1
    have hm : r.shard ∈ r.group.Shards := List.mem_of_find?_eq_some hd
    obtain ⟨i, hi, he⟩ := List.getElem_of_mem hm
    rw [hr] at hwf
    exact hallmem i (hwf.allAlive rfl i hi) _ (by rw [List.getElem?_eq_getElem hi, he])
  | false =>
    obtain ⟨j, hj, hsj, _⟩ := shardFor_some (hhash hr).2
    rw [hr] at hwf
    exact hallmem j (hwf.idxAlive rfl j hj) _ hsj

/-- the key the hint path builds from a tag group the point extends is the writer's key. -/
theorem hint_key_eq {M : Meta} {p : Point} {grp : List Tag} {sk sk' : String}
    (hu : KeysUnique p.tags) (hext : Extends p.tags grp)
    (hfull : M.key = [] → sortTags grp = p.tags)
    (hw : shardKeyOf M.name M.key p.tags = .ok sk)
    (hr : shardKeyOf M.name M.key (sortTags grp) = .ok sk') : sk' = sk := by
  by_cases hk : M.key = []
  · rw [hfull hk, hw] at hr
    exact (Except.ok.inj hr).symm
  · have h1 := shardKeyOf_spec hk hu hw
    unfold shardKeyOf at hr
    have : M.key.isEmpty = false := by cases hk' : M.key <;> simp_all
    rw [this] at hr
    have h2 := keyWalk_spec (tagVal p.tags) (sortTags grp) (extends_sorted hext) M.key M.name sk' hr
    rw [h1, h2]

/-- **the hint path is sound** (repaired code). -/
theorem hint_sound (hash : String → Nat) (M : Meta) (g : Group) (p : Point) (r : Routed)
    (c : Option Cond) (ρ : Nat → Point → Bool) (cap : Nat) (specific : Bool)
    (hwf : g.WF M.range) (hu : KeysUnique p.tags)
    (hw : routeIn hash M g p = .ok r) (hs : satOpt M.schemaTags ρ p c = true)
    (hfull : M.key = [] → ∀ grp, c.bind (condTags true cap M.schemaTags) = some [grp] → sortTags grp = p.tags) :
    ∀ res, targetShardsHint true cap hash M g c specific = some res → r.shard ∈ res := by
  intro res hres
  obtain ⟨all, hall, hsall⟩ := routed_mem_allAlive hwf hw
  have fromAll : g.allAlive = some res → r.shard ∈ res := by
    intro h; rw [hall] at h; rw [← Option.some.inj h]; exact hsall
  unfold targetShardsHint at hres
  split at hres
  · rename_i grp hct
    split at hres
    · exact fromAll hres
    · -- the point extends the one tag group
      have hext : Extends p.tags grp := by
        cases c with
        | none => simp at hct
        | some c' =>
          simp only [Option.bind_some] at hct
          obtain ⟨g', hg', he⟩ := condTags_overapprox cap M.schemaTags ρ p c' _ hct (by simpa [satOpt] using hs)
          simp only [List.mem_singleton] at hg'
          rw [← hg']; exact he
      obtain ⟨sk, hgr, hsk, hrange, hhash⟩ := routeIn_ok hw
      unfold hintShards at hres
      simp only [if_true] at hres
      split at hres
      · exact fromAll hres
      · rename_i sk' hsk'
        have hkeq : sk' = sk := hint_key_eq hu hext (fun hk => hfull hk grp hct) hsk hsk'
        subst hkeq
        subst hgr
        cases hr : M.range with
        | true =>
          simp only [hr, if_true, (hrange hr).1] at hres
          rw [← Option.some.inj hres]
          exact List.mem_singleton.2 rfl
        | false =>
          obtain ⟨hhi, hsf⟩ := hhash hr
          simp only [hr, Bool.false_eq_true, if_false, hhi, hsf] at hres
          rw [← Option.some.inj hres]
          exact List.mem_singleton.2 rfl
  · exact fromAll hres

namespace HintWitness
def g2 : Group := ⟨1, 0, 100, false, none, [⟨10, "", ""⟩, ⟨11, "", ""⟩], [0, 1], none⟩
def M : Meta := ⟨"m", ["host"], false, ["host", "region"], [g2]⟩
/-- the writer's key `host=a` goes to position 0, the all-tags key to position 1 -/
def hashW : String → Nat := fun s => if s = "host=a" then 0 else 1
def p : Point := ⟨5, [("host", "a"), ("region", "x")]⟩
def c : Cond := .and (.eqStr "host" "a" 0) (.eqStr "region" "x" 1)
end HintWitness

open HintWitness in
/-- **as written the hint path ignored the shard key**: shard key `host`, series
`host=a,region=x` stored in shard 10; `/*+ full_series */ … WHERE host='a' AND region='x'` hashed
`host=a,region=x` and read shard 11. Repaired: shard 10. -/
theorem hint_unsound_asWritten :
    (routeIn hashW M g2 p).toOption.map (·.shard.ID) = some 10 ∧
    (targetShardsHint false 1024 hashW M g2 (some c) false).map (·.map (·.ID)) = some [11] ∧
    (targetShardsHint false 1024 hashW M g2 (some c) true).map (·.map (·.ID)) = some [11] ∧
    (targetShardsHint true 1024 hashW M g2 (some c) true).map (·.map (·.ID)) = some [10] := by
  decide

end OG.C11
