/-
C03 — what the level-compaction planner guarantees (model: OG.C03.Plan).

`plan_groups` : every plan of a pass is a contiguous block of the file list, made of files of
  the planned level with pairwise distinct sequences, at least `minN` of them; the file right
  before the block is not a part of the sequence the block starts with, the file right after it
  is of another level or of a sequence the block does not hold.
`plan_preserves_order` : on a list sorted the way the shard keeps it (by sequence, then
  extent) in which the parts of one sequence share their level (what compaction writes), the
  output of a plan — named after the sequence of the plan's first file — sorts strictly after
  every file before the block and strictly before every file after it: replacing the block by
  its output keeps the list sorted and moves no other file across the merged data.
-/
import OG.C03.Plan

namespace OG.C03

/-- what `plan_groups` says about one plan `g` of the list `files`. -/
structure GroupOK (level minN : Nat) (files g : List PF) : Prop where
  block : ∃ A B, files = A ++ g ++ B ∧
    (∀ p, A.getLast? = some p → ¬ (p.level = level ∧ ∃ h, g.head? = some h ∧ p.seq = h.seq)) ∧
    (∀ b, B.head? = some b → b.level ≠ level ∨ b.seq ∉ g.map (·.seq))
  level : ∀ f ∈ g, f.level = level
  distinct : (g.map (·.seq)).Nodup
  size : minN ≤ g.length

/-- the state of the walk: `pre` is what lies before the dictionary's files `cur`. -/
structure WalkInv (level : Nat) (pre cur : List PF) (skip : Option Nat) : Prop where
  curLevel : ∀ f ∈ cur, f.level = level
  curDistinct : (cur.map (·.seq)).Nodup
  left : ∀ p, pre.getLast? = some p → ¬ (p.level = level ∧ ∃ h, cur.head? = some h ∧ p.seq = h.seq)
  last : ∀ p, (pre ++ cur).getLast? = some p → p.level = level → skip = some p.seq ∨ p.seq ∈ cur.map (·.seq)
  skipEmpty : skip ≠ none → cur = []

theorem flush_ok (level minN : Nat) (pre cur rest : List PF) (skip : Option Nat)
    (inv : WalkInv level pre cur skip)
    (hright : ∀ b, rest.head? = some b → b.level ≠ level ∨ b.seq ∉ cur.map (·.seq)) :
    ∀ g ∈ flushPlan minN cur, GroupOK level minN (pre ++ cur ++ rest) g := by
  intro g hg
  unfold flushPlan at hg
  split at hg
  · simp only [List.mem_singleton] at hg
    subst hg
    exact ⟨⟨pre, rest, rfl, inv.left, hright⟩, inv.curLevel, inv.curDistinct, by assumption⟩
  · cases hg

theorem getLast?_append_singleton (l : List PF) (f : PF) : (l ++ [f]).getLast? = some f := by
  simp

/-- **the walk**: every plan it emits is good with respect to the whole list. -/
theorem planWalk_ok (level minN : Nat) : ∀ (rest pre cur : List PF) (skip : Option Nat),
    WalkInv level pre cur skip →
    ∀ g ∈ planWalk level minN rest cur skip, GroupOK level minN (pre ++ cur ++ rest) g := by
  intro rest
  induction rest with
  | nil =>
    intro pre cur skip inv g hg
    simp only [planWalk] at hg
    exact flush_ok level minN pre cur [] skip inv (by intro b hb; cases hb) g hg
  | cons f rest ih =>
    intro pre cur skip inv g hg
    unfold planWalk at hg
    by_cases h1 : skip = some f.seq ∧ f.level = level
    · -- a further part of the skipped sequence
      rw [if_pos h1] at hg
      have hc : cur = [] := inv.skipEmpty (by rw [h1.1]; simp)
      subst hc
      have inv' : WalkInv level (pre ++ [f]) [] skip := by
        refine ⟨by simp, by simp, by simp, ?_, fun _ => rfl⟩
        intro p hp _
        simp only [List.append_nil, getLast?_append_singleton, Option.some.injEq] at hp
        subst hp
        exact Or.inl h1.1
      have := ih (pre ++ [f]) [] skip inv' g hg
      simpa using this
    · rw [if_neg h1] at hg
      by_cases h2 : f.level ≠ level
      · rw [if_pos h2] at hg
        simp only [List.mem_append] at hg
        rcases hg with hg | hg
        · exact flush_ok level minN pre cur (f :: rest) skip inv
            (by intro b hb; simp only [List.head?_cons, Option.some.injEq] at hb; subst hb; exact Or.inl h2) g hg
        · have inv' : WalkInv level (pre ++ cur ++ [f]) [] none := by
            refine ⟨by simp, by simp, by simp, ?_, fun h => absurd rfl h⟩
            intro p hp hl
            simp only [List.append_nil, getLast?_append_singleton, Option.some.injEq] at hp
            subst hp
            exact absurd hl h2
          have := ih (pre ++ cur ++ [f]) [] none inv' g hg
          simpa using this
      · rw [if_neg h2] at hg
        have hlev : f.level = level := by
          cases hd : decide (f.level = level) with
          | true => exact of_decide_eq_true hd
          | false => exact absurd (of_decide_eq_false hd) h2
        by_cases h3 : (cur.map (·.seq)).contains f.seq = true
        · -- a part of a sequence the dictionary holds: dictionary emptied, nothing planned
          rw [if_pos h3] at hg
          have inv' : WalkInv level (pre ++ cur ++ [f]) [] (some f.seq) := by
            refine ⟨by simp, by simp, by simp, ?_, fun _ => rfl⟩
            intro p hp _
            simp only [List.append_nil, getLast?_append_singleton, Option.some.injEq] at hp
            subst hp
            exact Or.inl rfl
          have := ih (pre ++ cur ++ [f]) [] (some f.seq) inv' g hg
          simpa using this
        · rw [if_neg h3] at hg
          have hnew : f.seq ∉ cur.map (·.seq) := by
            intro hc; exact h3 (List.contains_iff_mem.2 hc)
          have hskip : skip ≠ some f.seq := fun hc => h1 ⟨hc, hlev⟩
          -- the file before f is not a part of f's sequence
          have hprev : ∀ p, (pre ++ cur).getLast? = some p → ¬ (p.level = level ∧ p.seq = f.seq) := by
            intro p hp ⟨hl, hs⟩
            rcases inv.last p hp hl with h | h
            · exact hskip (by rw [h, hs])
            · exact hnew (by rw [← hs]; exact h)
          simp only [List.mem_append] at hg
          rcases hg with hg | hg
          · exact flush_ok level minN pre cur (f :: rest) skip inv
              (by intro b hb; simp only [List.head?_cons, Option.some.injEq] at hb; subst hb; exact Or.inr hnew) g hg
          · unfold afterFlush at hg
            by_cases hfl : minN ≤ cur.length
            · rw [if_pos hfl] at hg
              have inv' : WalkInv level (pre ++ cur) [f] none := by
                refine ⟨by simp [hlev], by simp, ?_, ?_, fun h => absurd rfl h⟩
                · intro p hp ⟨hl, h, hh, hs⟩
                  simp only [List.head?_cons, Option.some.injEq] at hh
                  subst hh
                  exact hprev p hp ⟨hl, hs⟩
                · intro p hp _
                  rw [getLast?_append_singleton, Option.some.injEq] at hp
                  subst hp
                  right; simp
              have := ih (pre ++ cur) [f] none inv' g hg
              simpa using this
            · rw [if_neg hfl] at hg
              have inv' : WalkInv level pre (cur ++ [f]) none := by
                refine ⟨?_, ?_, ?_, ?_, fun h => absurd rfl h⟩
                · intro x hx
                  simp only [List.mem_append, List.mem_singleton] at hx
                  rcases hx with hx | rfl
                  · exact inv.curLevel x hx
                  · exact hlev
                · rw [List.map_append, List.nodup_append]
                  refine ⟨inv.curDistinct, by simp, ?_⟩
                  intro a ha b hb
                  simp only [List.map_cons, List.map_nil, List.mem_singleton] at hb
                  subst hb
                  intro hab; subst hab
                  exact hnew ha
                · intro p hp ⟨hl, h, hh, hs⟩
                  cases hcur : cur with
                  | nil =>
                    rw [hcur] at hh
                    simp only [List.nil_append, List.head?_cons, Option.some.injEq] at hh
                    subst hh
                    have : (pre ++ cur).getLast? = some p := by rw [hcur]; simpa using hp
                    exact hprev p this ⟨hl, hs⟩
                  | cons c cs =>
                    rw [hcur] at hh
                    simp only [List.cons_append, List.head?_cons, Option.some.injEq] at hh
                    subst hh
                    exact inv.left p hp ⟨hl, _, by rw [hcur]; rfl, hs⟩
                · intro p hp _
                  rw [← List.append_assoc, getLast?_append_singleton, Option.some.injEq] at hp
                  subst hp
                  right; simp
              have := ih pre (cur ++ [f]) none inv' g hg
              simpa using this

/-- **T8 (plans).** Every plan of a planner pass is a contiguous block of the file list, of the
planned level, with pairwise distinct sequences and at least `minN` files, and it is bounded as
`GroupOK.block` says. -/
theorem plan_groups (level minN : Nat) (files : List PF) :
    ∀ g ∈ mmsPlan level minN files, GroupOK level minN files g := by
  intro g hg
  unfold mmsPlan at hg
  split at hg
  · cases hg
  · have inv : WalkInv level [] [] none :=
      ⟨by simp, by simp, by simp, by simp, fun h => absurd rfl h⟩
    have := planWalk_ok level minN files [] [] none inv g hg
    simpa using this

/-! ### order -/

theorem sortedPF_cons_cons (a b : PF) (l : List PF) : sortedPF (a :: b :: l) = (pfLess a b && sortedPF (b :: l)) := rfl

/-- in a sorted list every later file has a sequence at least as large. -/
theorem sorted_seq_le : ∀ (l : List PF) (a : PF), sortedPF (a :: l) = true → ∀ b ∈ l, a.seq ≤ b.seq := by
  intro l
  induction l with
  | nil => intro a _ b hb; cases hb
  | cons c l ih =>
    intro a h b hb
    rw [sortedPF_cons_cons, Bool.and_eq_true] at h
    have hac : a.seq ≤ c.seq := by
      have := h.1
      unfold pfLess at this
      simp only [Bool.or_eq_true, decide_eq_true_eq, Bool.and_eq_true, beq_iff_eq] at this
      omega
    simp only [List.mem_cons] at hb
    rcases hb with rfl | hb
    · exact hac
    · exact Nat.le_trans hac (ih c h.2 b hb)

theorem sorted_tail : ∀ (a : PF) (l : List PF), sortedPF (a :: l) = true → sortedPF l = true := by
  intro a l h
  cases l with
  | nil => rfl
  | cons b l => rw [sortedPF_cons_cons, Bool.and_eq_true] at h; exact h.2

theorem sorted_append_right : ∀ (A B : List PF), sortedPF (A ++ B) = true → sortedPF B = true := by
  intro A
  induction A with
  | nil => intro B h; exact h
  | cons a A ih => intro B h; exact ih B (sorted_tail a _ h)

/-- in a sorted list `A ++ B`, every file of `A` has a sequence at most that of every file of `B`. -/
theorem sorted_append_le : ∀ (A B : List PF), sortedPF (A ++ B) = true → ∀ a ∈ A, ∀ b ∈ B, a.seq ≤ b.seq := by
  intro A
  induction A with
  | nil => intro B _ a ha; cases ha
  | cons x A ih =>
    intro B h a ha b hb
    simp only [List.mem_cons] at ha
    rcases ha with rfl | ha
    · exact sorted_seq_le (A ++ B) a h b (by simp [hb])
    · exact ih B (sorted_tail x _ h) a ha b hb

/-- the parts of one sequence share their level (what flush and compaction write). -/
def sameSeqSameLevel (files : List PF) : Prop := ∀ a ∈ files, ∀ b ∈ files, a.seq = b.seq → a.level = b.level

/-- **T9 (a plan keeps the order).** -/
theorem plan_preserves_order (level minN : Nat) (hmin : 1 ≤ minN) (files : List PF)
    (hs : sortedPF files = true) (hl : sameSeqSameLevel files) (g : List PF) (hg : g ∈ mmsPlan level minN files) :
    ∃ A B h, files = A ++ g ++ B ∧ g.head? = some h ∧
      (∀ a ∈ A, a.seq < h.seq) ∧ (∀ b ∈ B, h.seq < b.seq) := by
  obtain ⟨⟨A, B, hfiles, hleft, hright⟩, hlevel, hdist, hsize⟩ := plan_groups level minN files g hg
  cases hgc : g with
  | nil => rw [hgc] at hsize; simp at hsize; omega
  | cons h gt =>
    refine ⟨A, B, h, by rw [← hgc]; exact hfiles, rfl, ?_, ?_⟩
    · -- before the block
      intro a ha
      have hle : a.seq ≤ h.seq := by
        apply sorted_append_le A (g ++ B) (by rw [← List.append_assoc, ← hfiles]; exact hs) a ha h
        rw [hgc]; simp
      -- the last file of A is not a part of h's sequence; an earlier one with h's sequence would
      -- force the last one to have it as well
      rcases Nat.lt_or_ge a.seq h.seq with hlt | hge
      · exact hlt
      · exfalso
        have heq : a.seq = h.seq := Nat.le_antisymm hle hge
        -- the last file of A
        have hAne : A ≠ [] := by intro hc; subst hc; cases ha
        obtain ⟨p, hp⟩ : ∃ p, A.getLast? = some p := by
          cases hA : A.getLast? with
          | none => exact absurd (List.getLast?_eq_none_iff.1 hA) hAne
          | some p => exact ⟨p, rfl⟩
        have hpA : p ∈ A := List.mem_of_getLast? hp
        have hph : p.seq ≤ h.seq := by
          apply sorted_append_le A (g ++ B) (by rw [← List.append_assoc, ← hfiles]; exact hs) p hpA h
          rw [hgc]; simp
        -- a ≤ p in the list order
        have hap : a.seq ≤ p.seq := by
          obtain ⟨A', hA'⟩ : ∃ A', A = A' ++ [p] := by
            have := List.getLast?_eq_some_iff.1 hp
            exact this
          subst hA'
          simp only [List.mem_append, List.mem_singleton] at ha
          rcases ha with ha | rfl
          · have hs' : sortedPF (A' ++ ([p] ++ (g ++ B))) = true := by
              have : A' ++ [p] ++ g ++ B = A' ++ ([p] ++ (g ++ B)) := by simp
              rw [← this, ← hfiles]; exact hs
            exact sorted_append_le A' ([p] ++ (g ++ B)) hs' a ha p (by simp)
          · exact Nat.le_refl _
        have hpeq : p.seq = h.seq := by omega
        have hpl : p.level = level := by
          have hpf : p ∈ files := by rw [hfiles]; simp [hpA]
          have hhf : h ∈ files := by rw [hfiles, hgc]; simp
          rw [hl p hpf h hhf hpeq]
          exact hlevel h (by rw [hgc]; simp)
        exact hleft p hp ⟨hpl, h, by rw [hgc]; rfl, hpeq⟩
    · -- after the block
      intro b hb
      cases hBc : B with
      | nil => rw [hBc] at hb; cases hb
      | cons b0 Bt =>
        have hsB : sortedPF (g ++ B) = true := sorted_append_right A (g ++ B) (by rw [← List.append_assoc, ← hfiles]; exact hs)
        -- every file of g is ≤ b0, and b0 ≤ b
        have hb0b : b0.seq ≤ b.seq := by
          rw [hBc] at hb
          simp only [List.mem_cons] at hb
          rcases hb with rfl | hb
          · exact Nat.le_refl _
          · have : sortedPF (b0 :: Bt) = true := by
              rw [← hBc]; exact sorted_append_right g B hsB
            exact sorted_seq_le Bt b0 this b hb
        have hgb0 : ∀ x ∈ g, x.seq ≤ b0.seq := by
          intro x hx
          exact sorted_append_le g B hsB x hx b0 (by rw [hBc]; simp)
        have hhb0 : h.seq ≤ b0.seq := hgb0 h (by rw [hgc]; simp)
        rcases Nat.lt_or_ge h.seq b0.seq with hlt | hge
        · omega
        · exfalso
          have heq : b0.seq = h.seq := Nat.le_antisymm hge hhb0
          have hb0f : b0 ∈ files := by rw [hfiles, hBc]; simp
          have hhf : h ∈ files := by rw [hfiles, hgc]; simp
          have hb0l : b0.level = level := by
            rw [hl b0 hb0f h hhf heq]; exact hlevel h (by rw [hgc]; simp)
          rcases hright b0 (by rw [hBc]; rfl) with hne | hnot
          · exact hne hb0l
          · apply hnot
            rw [hgc, heq]; simp

/-! ### non-vacuity -/

/-- two runs of level 0 around a level-1 file; the second run holds a split output (sequence 5,
two parts): the dictionary is emptied there (files 4 and 5 are left alone), 6 and 7 are planned. -/
example : mmsPlan 0 2 [⟨0, 1, 0⟩, ⟨0, 2, 0⟩, ⟨1, 3, 0⟩, ⟨0, 4, 0⟩, ⟨0, 5, 0⟩, ⟨0, 5, 1⟩, ⟨0, 6, 0⟩, ⟨0, 7, 0⟩, ⟨0, 8, 0⟩]
    = [[⟨0, 1, 0⟩, ⟨0, 2, 0⟩], [⟨0, 6, 0⟩, ⟨0, 7, 0⟩]] := by decide

example : sortedPF [⟨0, 1, 0⟩, ⟨0, 2, 0⟩, ⟨1, 3, 0⟩, ⟨0, 4, 0⟩, ⟨0, 5, 0⟩, ⟨0, 5, 1⟩, ⟨0, 6, 0⟩] = true := by decide

example : sameSeqSameLevel [⟨0, 1, 0⟩, ⟨0, 5, 0⟩, ⟨0, 5, 1⟩, ⟨1, 6, 0⟩] := by
  intro a ha b hb h
  simp only [List.mem_cons, List.not_mem_nil, or_false] at ha hb
  rcases ha with rfl | rfl | rfl | rfl <;> rcases hb with rfl | rfl | rfl | rfl <;> simp_all

/-- why a plan must not start with a later part of a split output: its output would take the
name of the first part (same sequence, extent 0) and would not sort after it. -/
example : planOutput [⟨0, 5, 1⟩, ⟨0, 6, 0⟩] 1 = [⟨1, 5, 0⟩] ∧ pfLess ⟨0, 5, 0⟩ ⟨1, 5, 0⟩ = false := by decide

end OG.C03
