/-
C03 — model of the file-replacement protocol of compaction and out-of-order merge and of the
start-up pass that finishes or undoes it
(engine/immutable: mms_tables.go ReplaceFiles / RenameTmpFiles, compact.go deleteFiles,
compaction_file_info.go writeCompactedFileInfo / readCompactLogFile / procCompactLog /
processLog / processFiles, merge_tool.go merge / mergeSelf*, merge_out_of_order.go
deleteUnorderedFiles / removeFile, mms_loader.go Load / removeTmpFile).

A *disk* is the set of directory entries of one measurement (a data file under its final name
or under `<name>.init`, in the measurement directory or in its `out-of-order` sub-directory)
plus the compact log of the reorganisation in progress (absent / dirty / complete with the
old and the new names it lists).  A reorganisation is a list of file-system steps; a crash
keeps a prefix of it.  Start-up recovery is again a list of steps computed from the disk it
finds (log pass, then the loader's removal of `.init` files); it can be interrupted and
restarted any number of times.

Transcribed as written, including:
* the order of the four phases of ReplaceFiles is taken from the regenerated call sequence
  `OG.Gen.C03.calls_ReplaceFiles`;
* processLog decides from a snapshot of the directory listing; it rolls forward when every new
  file exists under either name, else rolls back when every old file exists under either
  name, else does nothing ("invalid compact log"); the log is removed in all three cases;
* a dirty log (too short / no trailer) is skipped and *not* removed;
* `fixed` = processLog looks into the `out-of-order` sub-directory for a log written with
  IsOrder = false (regenerated as `OG.Gen.C03.processLogHonoursIsOrder`); at the pinned commit
  it always read the measurement directory, so the log of a self-merge never matched anything;
* an old file that is still referenced by a reader is renamed to `<name>.init` instead of
  being removed (deleteFiles / removeFile); the loader removes every `.init` file.
Contents (what a new file holds) are not part of this file: see `Layout.lean`.
Core-only, executable.
-/
import OG.Generated.C03

namespace OG.C03

/-- a directory entry: data file `name` (`tmp`: under `name ++ ".init"`), in the measurement
directory (`ooo = false`) or in its out-of-order sub-directory. -/
structure Ent (α : Type) where
  ooo : Bool
  name : α
  tmp : Bool
deriving DecidableEq, Repr

inductive Log (α : Type) where
  | none
  | torn                                         -- exists, but the reader calls it dirty
  | full (isOrd : Bool) (olds news : List α)     -- complete: IsOrder, OldFile, NewFile
deriving DecidableEq, Repr

structure Disk (α : Type) where
  files : List (Ent α)
  log : Log α
deriving DecidableEq, Repr

inductive Step (α : Type) where
  | create (e : Ent α)                 -- a data file appears under this (always `.init`) name
  | promote (ooo : Bool) (n : α)       -- rename `n.init` → `n`
  | hide (ooo : Bool) (n : α)          -- rename `n` → `n.init` (old file still in use)
  | remove (e : Ent α)                 -- remove this entry if it is there
  | createLog                          -- log file created, content not yet complete
  | writeLog (isOrd : Bool) (olds news : List α)
  | removeLog
deriving DecidableEq, Repr

variable {α : Type} [DecidableEq α]

def Disk.exec (d : Disk α) : Step α → Disk α
  | .create e => { d with files := if e ∈ d.files then d.files else e :: d.files }
  | .promote o n =>
    if (⟨o, n, true⟩ : Ent α) ∈ d.files then
      { d with files := ⟨o, n, false⟩ :: d.files.filter (· ≠ ⟨o, n, true⟩) }
    else d
  | .hide o n =>
    if (⟨o, n, false⟩ : Ent α) ∈ d.files then
      { d with files := ⟨o, n, true⟩ :: d.files.filter (· ≠ ⟨o, n, false⟩) }
    else d
  | .remove e => { d with files := d.files.filter (· ≠ e) }
  | .createLog => { d with log := .torn }
  | .writeLog i o n => { d with log := .full i o n }
  | .removeLog => { d with log := .none }

def Disk.run (d : Disk α) (steps : List (Step α)) : Disk α := steps.foldl Disk.exec d

/-! ### the reorganisation -/

/-- the new files are written under their `.init` names (compaction / merge proper). -/
def buildSteps (isOrd : Bool) (news : List α) : List (Step α) :=
  news.map fun n => .create ⟨!isOrd, n, true⟩

/-- removal of a file that is being replaced: `deleteFiles` / `removeFile`. -/
def deleteStep (inUse : α → Bool) (ooo : Bool) (n : α) : Step α :=
  if inUse n then .hide ooo n else .remove ⟨ooo, n, false⟩

/-- one phase of `ReplaceFiles`, by the name of the call that performs it. -/
def phaseSteps (isOrd : Bool) (olds news : List α) (inUse : α → Bool) (call : String) : List (Step α) :=
  if call = "writeCompactedFileInfo" then [.createLog, .writeLog isOrd olds news]
  else if call = "RenameTmpFiles" then news.map (.promote (!isOrd))
  else if call = "deleteFiles" then olds.map (deleteStep inUse (!isOrd))
  else if call = "Remove" then [.removeLog]
  else []

/-- `MmsTables.ReplaceFiles`, phases in the order of the regenerated call sequence. -/
def replaceSteps (isOrd : Bool) (olds news : List α) (inUse : α → Bool) : List (Step α) :=
  OG.Gen.C03.calls_ReplaceFiles.flatMap (phaseSteps isOrd olds news inUse)

/-- `deleteUnorderedFiles`: the merged out-of-order files, one by one, in the given order. -/
def deleteUnorderedSteps (us : List α) (inUse : α → Bool) : List (Step α) :=
  us.map (deleteStep inUse true)

/-- a whole reorganisation: write the new files, replace, then (merge paths) delete the
out-of-order files that were merged. Level / full compaction and the fast self-merge have
`us = []`. -/
def reorgSteps (isOrd : Bool) (olds news us : List α) (inUse : α → Bool) : List (Step α) :=
  buildSteps isOrd news ++ replaceSteps isOrd olds news inUse ++ deleteUnorderedSteps us inUse

/-! ### start-up recovery -/

/-- `newFileExist` / `oldFileExist`: the name is listed, with or without the `.init` suffix. -/
def listed (fs : List (Ent α)) (o : Bool) (n : α) : Bool :=
  decide ((⟨o, n, false⟩ : Ent α) ∈ fs) || decide ((⟨o, n, true⟩ : Ent α) ∈ fs)

/-- the directory processLog lists for a log with this IsOrder flag. -/
def logDirOOO (fixed isOrd : Bool) : Bool := if fixed then !isOrd else false

/-- `processLog` + `processFiles`, deciding from the listing `fs` taken at its start. -/
def processLog (fixed : Bool) (fs : List (Ent α)) (isOrd : Bool) (olds news : List α) : List (Step α) :=
  let o := logDirOOO fixed isOrd
  if news.all (listed fs o) then
    (news.filter fun n => decide ((⟨o, n, true⟩ : Ent α) ∈ fs)).map (.promote o)
      ++ (olds.filter (listed fs o)).map (fun x => .remove ⟨o, x, false⟩)
  else if olds.all (listed fs o) then
    (olds.filter fun x => decide ((⟨o, x, true⟩ : Ent α) ∈ fs)).map (.promote o)
  else []

/-- `procCompactLog` for the log of this measurement: a dirty log is skipped (and stays). -/
def logPhase (fixed : Bool) (d : Disk α) : List (Step α) :=
  match d.log with
  | .full i o n => processLog fixed d.files i o n ++ [.removeLog]
  | _ => []

/-- the loader: every `.init` entry of both directories is removed. -/
def loaderPhase (d : Disk α) : List (Step α) :=
  (d.files.filter (·.tmp)).map .remove

/-- one uninterrupted start-up pass. -/
def recover1 (fixed : Bool) (d : Disk α) : List (Step α) :=
  let s := logPhase fixed d
  s ++ loaderPhase (d.run s)

/-- start-up with crashes: every element of `ks` is an attempt that died after that many
steps; then one attempt runs to completion. -/
def recoverWithCrashes (fixed : Bool) : Disk α → List Nat → Disk α
  | d, [] => d.run (recover1 fixed d)
  | d, k :: ks => recoverWithCrashes fixed (d.run ((recover1 fixed d).take k)) ks

/-- the data files a reader is given after start-up. -/
def Disk.visible (d : Disk α) : List (Ent α) := d.files.filter (!·.tmp)

def Disk.noTmp (d : Disk α) : Prop := ∀ e ∈ d.files, e.tmp = false

/-! ### plan shape -/

/-- `xs` occurs as a contiguous block of `l`. -/
def isBlockOf (xs : List α) : List α → Bool
  | [] => xs.isEmpty
  | y :: ys => (xs.isPrefixOf (y :: ys)) || isBlockOf xs ys

/-- the shape of a plan the answer-preservation theorem is stated for. `ordL`, `oooL` are the
ordered / out-of-order files in the order the shard keeps them (ascending sequence = oldest
first). The replaced files are a contiguous block of their directory's list; the merged
out-of-order files deleted afterwards are, in deletion order, a contiguous ascending block
that starts at the oldest out-of-order file (merge into ordered files) or right after the
replaced file (streaming self-merge). -/
def planOK (isOrd : Bool) (ordL oooL olds us : List α) : Bool :=
  let dirL := if isOrd then ordL else oooL
  let olds' := dirL.filter (olds.contains ·)
  olds'.length == olds.length && olds.all (dirL.contains ·) && isBlockOf olds' dirL &&
    (us.isEmpty || (if isOrd then us.isPrefixOf oooL else isBlockOf (olds' ++ us) oooL))

end OG.C03
