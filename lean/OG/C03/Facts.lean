/-
C03 — expectations about the regenerated facts: the constants, the order of the protocol steps
(call sequences of ReplaceFiles, the merge drivers, the start-up pass), the directory choice of
processLog, the loader's treatment of `.init` files, the file order.  A failure means the
transcribed source changed shape; the model (OG.C03.Model) must be re-validated against it.
-/
import OG.Generated.C03

namespace OG.C03.Facts
open OG.Gen.C03

theorem generation_ok : generationFailed = false := by rfl

theorem tmpFileSuffix_expected : tmpFileSuffix = ".init" := by rfl

theorem tsspFileSuffix_expected : tsspFileSuffix = ".tssp" := by rfl

theorem unorderedDir_expected : unorderedDir = "out-of-order" := by rfl

theorem compactLogDir_expected : compactLogDir = "compact_log" := by rfl

theorem compLogMagic_expected : compLogMagic = "2021A5A5" := by rfl

theorem calls_ReplaceFiles_expected : calls_ReplaceFiles = ["writeCompactedFileInfo", "RenameTmpFiles", "deleteFiles", "Remove"] := by rfl

theorem calls_RenameTmpFiles_expected : calls_RenameTmpFiles = ["Rename"] := by rfl

theorem calls_deleteFiles_expected : calls_deleteFiles = ["Inuse", "Rename", "Remove"] := by rfl

theorem calls_removeFile_expected : calls_removeFile = ["Inuse", "Rename", "Remove"] := by rfl

theorem calls_deleteUnorderedFiles_expected : calls_deleteUnorderedFiles = ["deleteFile", "removeFile"] := by rfl

theorem calls_replaceMergedFiles_expected : calls_replaceMergedFiles = ["ReplaceFiles"] := by rfl

theorem calls_merge_expected : calls_merge = ["execute", "replaceMergedFiles", "deleteUnorderedFiles"] := by rfl

theorem calls_mergeSelfStreamMode_expected : calls_mergeSelfStreamMode = ["execute", "ReplaceFiles", "deleteUnorderedFiles"] := by rfl

theorem calls_mergeSelfFastMode_expected : calls_mergeSelfFastMode = ["Merge", "ReplaceFiles"] := by rfl

theorem calls_getTSSPFiles_expected : calls_getTSSPFiles = ["Sort", "getFilesByPath", "getFilesByPath"] := by rfl

theorem calls_compactToLevel_expected : calls_compactToLevel = ["compact", "compact", "RemoveTmpFiles", "ReplaceFiles"] := by rfl

theorem calls_procCompactLog_expected : calls_procCompactLog = ["readCompactLogFile", "processLog", "Remove"] := by rfl

theorem calls_processFiles_expected : calls_processFiles = ["renameFile", "oldFileExist", "Stat", "Remove"] := by rfl

theorem calls_writeCompactedFileInfo_expected : calls_writeCompactedFileInfo = ["OpenFile", "Write", "Sync", "Close"] := by rfl

theorem calls_Open_expected : calls_Open = ["recoverFile", "doLoad"] := by rfl

theorem calls_recoverFile_expected : calls_recoverFile = ["procCompactLog"] := by rfl

theorem processLogHonoursIsOrder_expected : processLogHonoursIsOrder = true := by rfl

theorem src_processLog_expected : src_processLog = "{ mmDir := filepath.Join(GetDir(engineType, shardDir), info.Name) if !info.IsOrder { mmDir = filepath.Join(mmDir, unorderedDir) } dirs, err := fileops.ReadDir(mmDir) if err != nil { return err } newFileExist, oldFileExist, renameFile := getProcessLogFuncs(dirs, mmDir, lockPath) n := 0 for i := range info.NewFile { if newFileExist(info.NewFile[i]) { n++ } } if n != len(info.NewFile) { count := 0 for i := range info.OldFile { if oldFileExist(info.OldFile[i]) { count++ } } if count == len(info.OldFile) { for i := range info.OldFile { oName := info.OldFile[i] if err := renameFile(oName + tmpFileSuffix); err != nil { return err } } return nil } err = fmt.Errorf(\"invalid compact log file, name:%v, oldFiles:%v, newFiles:%v, order:%v, dirs:%v\", info.Name, info.OldFile, info.NewFile, info.IsOrder, dirs) return err } err = processFiles(info, oldFileExist, renameFile, mmDir, lockPath) if err != nil { return err } return nil }" := by rfl

theorem src_getProcessLogFuncs_expected : src_getProcessLogFuncs = "{ newFileExist := func(newFile string) bool { normalName := newFile if IsTempleFile(newFile) { normalName = newFile[:len(newFile)-len(tmpFileSuffix)] } for i := range dirs { name := dirs[i].Name() if name == normalName || newFile == name { return true } } return false } oldFileExist := func(oldFile string) bool { for i := range dirs { name := dirs[i].Name() tmp := oldFile + tmpFileSuffix if name == oldFile || tmp == name { return true } } return false } renameFile := func(nameInLog string) error { for i := range dirs { name := dirs[i].Name() if nameInLog == name { if !IsTempleFile(nameInLog) { return nil } lock := fileops.FileLockOption(*lockPath) normalName := nameInLog[:len(nameInLog)-len(tmpFileSuffix)] oldName := filepath.Join(mmDir, nameInLog) newName := filepath.Join(mmDir, normalName) return fileops.RenameFile(oldName, newName, lock) } } return nil } return newFileExist, oldFileExist, renameFile }" := by rfl

theorem src_processFiles_expected : src_processFiles = "{ var err error for i := range info.NewFile { if err = renameFile(info.NewFile[i]); err != nil { return err } } for i := range info.OldFile { oldName := info.OldFile[i] if oldFileExist(oldName) { fName := filepath.Join(mmDir, oldName) if _, err = fileops.Stat(fName); os.IsNotExist(err) { continue } lock := fileops.FileLockOption(*lockPath) if err = fileops.Remove(fName, lock); err != nil { return err } } } return err }" := by rfl

theorem src_procCompactLog_expected : src_procCompactLog = "{ dirs, err := fileops.ReadDir(logDir) if err != nil { return err } logInfo := &CompactedFileInfo{} for i := range dirs { logName := dirs[i].Name() logFile := filepath.Join(logDir, logName) logInfo.reset() err = readCompactLogFile(logFile, logInfo) if err != nil { if err != ErrDirtyLog { return err } continue } if err = processLog(shardDir, logInfo, lockPath, engineType); err != nil { errInfo := errno.NewError(errno.ProcessCompactLogFailed, logInfo.Name, err.Error()) } lock := fileops.FileLockOption(*lockPath) if err = fileops.Remove(logFile, lock); err != nil { } } return nil }" := by rfl

theorem src_removeTmpFile_expected : src_removeTmpFile = "{ if IsTempleFile(file) { fl.removeFile(file) return } }" := by rfl

theorem src_IsTempleFile_expected : src_IsTempleFile = "{ if len(name) < tmpSuffixNameLen { return false } return name[len(name)-tmpSuffixNameLen:] == tmpFileSuffix }" := by rfl

theorem src_TSSPFilesLess_expected : src_TSSPFilesLess = "{ _, iSeq := f.files[i].LevelAndSequence() _, jSeq := f.files[j].LevelAndSequence() iExt, jExt := f.files[i].FileNameExtend(), f.files[j].FileNameExtend() if iSeq != jSeq { return iSeq < jSeq } return iExt < jExt }" := by rfl

theorem src_mergeFileInfoLess_expected : src_mergeFileInfoLess = "{ if mfi.name[i].seq != mfi.name[j].seq { return mfi.name[i].seq < mfi.name[j].seq } else { return mfi.name[i].extent < mfi.name[j].extent } }" := by rfl

theorem src_deleteFiles_expected : src_deleteFiles = "{ for _, f := range files { fname := f.Path() if f.Inuse() { if err := f.Rename(fname + tmpFileSuffix); err != nil { if err == errFileClosed { continue } return err } nodeTableStoreGC.Add(f) } else { if err := f.Remove(); err != nil { return err } } } return nil }" := by rfl

theorem src_removeFile_expected : src_removeFile = "{ if f.Inuse() { if err := f.Rename(f.Path() + tmpFileSuffix); err != nil { return } nodeTableStoreGC.Add(f) return } err := f.Remove() if err != nil { nodeTableStoreGC.Add(f) return } }" := by rfl

/-- stat error; too short → dirty; open error; read error; no trailer → dirty; body does not
parse → dirty (repaired in /repo aaf561b: it was a hard error that made the shard refuse to
open); complete. -/
theorem returns_readCompactLogFile_expected : returns_readCompactLogFile = ["err", "ErrDirtyLog", "err", "err", "ErrDirtyLog", "ErrDirtyLog", "nil"] := by rfl

theorem loaderSwitch_expected : loaderSwitch = [
  ("tsspFileSuffix", "fl.loadTsspFile(filepath.Join(dir, itemName), mst, isOrder, false)"),
  ("default", "fl.removeTmpFile(filepath.Join(dir, itemName))")
] := by rfl

/-! ### the loop of procCompactLog over the log directory, as structure -/

theorem procCompactLog_loopOver_expected : procCompactLog_loopOver = "dirs" := by rfl

/-- a dirty (torn / empty) log is skipped and the loop goes on with the next log. -/
theorem procCompactLog_onDirty_expected : procCompactLog_onDirty = "continue" := by rfl

theorem procCompactLog_onOtherErr_expected : procCompactLog_onOtherErr = "return err" := by rfl

/-- an error of processLog ("invalid compact log") is logged; the log is removed all the same. -/
theorem procCompactLog_onProcessErr_expected : procCompactLog_onProcessErr = "fallthrough" := by rfl

theorem procCompactLog_removesLogAfterProcess_expected : procCompactLog_removesLogAfterProcess = true := by rfl

theorem procCompactLog_lastStmt_expected : procCompactLog_lastStmt = "return nil" := by rfl

theorem dirtyLogSkipped_expected : dirtyLogSkipped = true := by rfl

theorem recoverFile_onDirty_expected : recoverFile_onDirty = "fallthrough" := by rfl

theorem recoverFile_onOtherErr_expected : recoverFile_onOtherErr = "return err" := by rfl

/-! ### the level-compaction planner (model: OG.C03.Plan) -/

theorem src_mmsPlan_expected : src_mmsPlan = "{ if m.isClosed() || m.isCompMergeStopped() || atomic.LoadInt64(&files.closing) > 0 { return plans } seqMap := seqMapPool.Get().(*dictpool.Dict) seqMap.Reset() defer seqMapPool.Put(seqMap) idx := 0 for idx < files.Len() { f := files.files[idx] lv, seq := f.LevelAndSequence() if lv != level { plans = m.genCompactPlan(seqMap, minGroupFileN, name, level, files, plans) seqMap.Reset() idx++ continue } seqByte := record.Uint64ToBytesUnsafe(seq) if !seqMap.HasBytes(seqByte) { plans = m.genCompactPlan(seqMap, minGroupFileN, name, level, files, plans) if files.splitByUnloadFile(idx) { seqMap.Reset() } seqMap.SetBytes(seqByte, f) idx++ } else { i := idx + 1 for i < files.Len() { f = files.files[i] if !levelSequenceEqual(level, seq, f) { break } i++ } idx = i seqMap.Reset() } } plans = m.genCompactPlan(seqMap, minGroupFileN, name, level, files, plans) return plans }" := by rfl

theorem src_genCompactPlan_expected : src_genCompactPlan = "{ if seqMap.Len() >= minGroupFileN { plan := m.genCompactGroup(seqMap, name, level) if plan != nil { plan.dropping = &files.closing plans = append(plans, plan) } seqMap.Reset() } return plans }" := by rfl

theorem src_getMmsPlan_expected : src_getMmsPlan = "{ if files.hasUnloadFile() { ReloadSpecifiedFiles(m, name, files) } files.lock.RLock() defer files.lock.RUnlock() if atomic.LoadInt64(&files.closing) > 0 || files.Len() < minGroupFileN { return plans } plans = m.mmsPlan(name, files, level, minGroupFileN, plans) return plans }" := by rfl

theorem src_levelSequenceEqual_expected : src_levelSequenceEqual = "{ lv, n := f.LevelAndSequence() return lv == level && seq == n }" := by rfl

theorem src_compactOutputName_expected : src_compactOutputName = "_, seq := files[0].LevelAndSequence() ; fileName := NewTSSPFileName(seq, level, 0, 0, isOrder, m.lock)" := by rfl

theorem levelMinGroupFiles_expected : levelMinGroupFiles = "[CompactLevels]int{8, 4, 4, 4, 4, 4, 2}" := by rfl

/-! ### column-store compaction: the output is published before the log exists (model: OG.C03.ColStore) -/

theorem calls_csReplaceFiles_expected : calls_csReplaceFiles = ["writeCompactedFileInfo", "RenameIndexFiles", "Remove", "deleteFiles", "Remove"] := by rfl

theorem calls_WriteIntoFile_expected : calls_WriteIntoFile = ["NewTSSPFile", "RenameTmpFiles", "RenameTmpFilesWithPKIndex", "RenameTmpFullTextIdxFile"] := by rfl

theorem calls_csFlushByRow_expected : calls_csFlushByRow = ["WriteIntoFile", "AddTSSPFiles"] := by rfl

theorem calls_csFlushByBlock_expected : calls_csFlushByBlock = ["WriteIntoFile", "AddTSSPFiles"] := by rfl

theorem calls_csCompactToLevel_expected : calls_csCompactToLevel = ["compact", "ReplaceFiles"] := by rfl

/-- recorded as finding `colstore_compaction_publishes_before_log`; when this turns false the
negation `cs_crash_atomic_asWritten_fails` no longer describes the code. -/
theorem csCompactPublishesBeforeLog_expected : csCompactPublishesBeforeLog = true := by rfl

/-! ### the full-compaction group builder (model: OG.C03.FullPlan) -/

theorem src_fullCompacted_expected : src_fullCompacted = "{ f.lock.RLock() defer f.lock.RUnlock() if len(f.files) <= 1 { return true } sameLeve := true lv, seq := f.files[0].LevelAndSequence() for i := 1; i < len(f.files); i++ { if sameLeve { level, curSeq := f.files[i].LevelAndSequence() sameLeve = lv == level && curSeq == seq } else { break } } return sameLeve }" := by rfl

theorem src_groupBuilderAdd_expected : src_groupBuilderAdd = "{ lv, _ := f.LevelAndSequence() if b.parquetLevel > 0 && lv < b.parquetLevel { b.group.reset() return false } b.group.UpdateLevel(lv + 1) b.group.Add(f.Path()) return true }" := by rfl

theorem src_groupBuilderAddLowLevelMode_expected : src_groupBuilderAddLowLevelMode = "{ b.group.toLevel = b.level lv, _ := f.LevelAndSequence() if lv < b.level { b.group.Add(f.Path()) return true } if b.group.Len() > 0 { b.SwitchGroup() b.group = &CompactGroup{ name: b.group.name, dropping: b.group.dropping, } } return true }" := by rfl

theorem src_groupBuilderSwitchGroup_expected : src_groupBuilderSwitchGroup = "{ if b.group == nil || b.group.Len() == 0 { return } b.groups = append(b.groups, b.group) }" := by rfl

theorem src_buildFullCompactPlan_expected : src_buildFullCompactPlan = "{ if !m.CompactionEnabled() { return nil } builder := &CompactGroupBuilder{ limit: int(n), parquetLevel: config.TSSPToParquetLevel(), lowLevelMode: toLevel > 0, level: toLevel, } defer builder.Release() m.mu.RLock() defer m.mu.RUnlock() mmsTables := m.ImmTable.getFiles(m, true) for k, v := range mmsTables { if m.isClosed() || m.isCompMergeStopped() { return nil } if v.hasUnloadFile() { ReloadSpecifiedFiles(m, k, v) } if m.scheduler.IsRunning(k) || atomic.LoadInt64(&v.closing) > 0 || v.fullCompacted() || v.hasUnloadFile() { continue } builder.Init(k, &v.closing, v.Len()) for _, f := range v.files { if m.isClosed() || m.isCompMergeStopped() { return nil } if f.(*tsspFile).ref == 0 { panic(\"file closed\") } name := f.Path() if tmpFileSuffix == name[len(name)-len(tmpFileSuffix):] { continue } if !builder.AddFile(f) { return nil } } builder.SwitchGroup() if builder.Limited() { break } } return builder.groups }" := by rfl

theorem src_FullCompact_expected : src_FullCompact = "{ n := int64(maxFullCompactor) - atomic.LoadInt64(&fullCompactingCount) if n < 1 { return nil } if preLevel := config.PreFullCompactLevel(); preLevel > 0 { plans := m.buildFullCompactPlan(n, preLevel) if len(plans) > 0 { m.scheduler.ExecuteBatch(m.buildCompactTasks(plans, true, shid), m.stopCompMerge) return nil } } plans := m.buildFullCompactPlan(n, 0) if len(plans) > 0 { m.scheduler.ExecuteBatch(m.buildCompactTasks(plans, true, shid), m.stopCompMerge) } return nil }" := by rfl

/-! ### the writers of the file metadata and the read path that prunes with it (model: OG.C03.Meta) -/

theorem blockUpd_stream_expected : blockUpd_stream = "own" := by rfl

theorem blockUpd_builder_expected : blockUpd_builder = "own" := by rfl

theorem blockUpd_merge_expected : blockUpd_merge = "own" := by rfl

theorem src_MetaIndex_expected : src_MetaIndex = "{ if err := r.lazyInit(); err != nil { errInfo := errno.NewError(errno.LoadFilesFailed) return -1, nil, err } if id < r.trailer.minId || id > r.trailer.maxId { return 0, nil, nil } idx := searchMetaIndexItem(r.metaIndexItems, id) if idx < 0 { return -1, nil, nil } metaIndex := &r.metaIndexItems[idx] if !tr.Overlaps(metaIndex.minTime, metaIndex.maxTime) { return 0, nil, nil } return idx, metaIndex, nil }" := by rfl

theorem src_searchMetaIndexItem_expected : src_searchMetaIndexItem = "{ left, right := 0, len(metaIndexItems)-1 for left < right { mid := int(uint(left+right) >> 1) m := &metaIndexItems[mid] m1 := &metaIndexItems[mid+1] if id == m.id || (id > m.id && id < m1.id) { return mid } else if id == m1.id { return mid + 1 } else if id < m.id { right = mid } else if id > m1.id { left = mid + 1 } } if id >= metaIndexItems[left].id { return left } return -1 }" := by rfl

theorem src_needSwitchChunkMeta_expected : src_needSwitchChunkMeta = "{ maxCount := conf.maxChunkMetaItemCount if GetChunkMetaCompressMode() != ChunkMetaCompressNone { maxCount = util.CompressModMaxChunkMetaItemCount } return size >= conf.maxChunkMetaItemSize || count >= maxCount }" := by rfl

theorem src_readerContains_expected : src_readerContains = "{ if !r.trailer.ContainsId(id) || !r.trailer.ContainsTime(tm) { return false } if err := r.lazyInit(); err != nil { errInfo := errno.NewError(errno.LoadFilesFailed) return false } bytes := make([]byte, 8) binary.BigEndian.PutUint64(bytes, id) return r.bloom.Contains(bytes) }" := by rfl

theorem metaUpd_stream_expected : metaUpd_stream = [
  ("c.mIndex.count == 0", "c.mIndex.minTime = minT"),
  ("c.mIndex.count == 0", "c.mIndex.maxTime = maxT"),
  ("c.trailer.idCount == 0", "c.trailer.minTime = minT"),
  ("c.trailer.idCount == 0", "c.trailer.maxTime = maxT"),
  ("c.trailer.minTime > minT", "c.trailer.minTime = minT"),
  ("c.trailer.maxTime < maxT", "c.trailer.maxTime = maxT"),
  ("c.mIndex.minTime > minT", "c.mIndex.minTime = minT"),
  ("c.mIndex.maxTime < maxT", "c.mIndex.maxTime = maxT")
] := by rfl

theorem metaUpd_builder_expected : metaUpd_builder = [
  ("b.mIndex.count == 0", "b.mIndex.minTime = minT"),
  ("b.mIndex.count == 0", "b.mIndex.maxTime = maxT"),
  ("b.mIndex.minTime > minT", "b.mIndex.minTime = minT"),
  ("b.mIndex.maxTime < maxT", "b.mIndex.maxTime = maxT")
] := by rfl

theorem metaUpd_builderTrailer_expected : metaUpd_builderTrailer = [
  ("b.trailer.idCount == 0", "b.trailer.minTime = minTime"),
  ("b.trailer.idCount == 0", "b.trailer.maxTime = maxTime"),
  ("b.trailer.minTime > minTime", "b.trailer.minTime = minTime"),
  ("b.trailer.maxTime < maxTime", "b.trailer.maxTime = maxTime")
] := by rfl

theorem metaUpd_merge_expected : metaUpd_merge = [
  ("c.mIndex.count == 0", "c.mIndex.minTime = minT"),
  ("c.mIndex.count == 0", "c.mIndex.maxTime = maxT"),
  ("c.trailer.idCount == 0", "c.trailer.minTime = minT"),
  ("c.trailer.idCount == 0", "c.trailer.maxTime = maxT"),
  ("c.trailer.minTime > minT", "c.trailer.minTime = minT"),
  ("c.trailer.maxTime < maxT", "c.trailer.maxTime = maxT"),
  ("c.mIndex.minTime > minT", "c.mIndex.minTime = minT"),
  ("c.mIndex.maxTime < maxT", "c.mIndex.maxTime = maxT")
] := by rfl

/-! ### streaming compaction: recompute or merge the column statistics — the decision pair (model: OG.C03.PreAgg) -/

theorem preaggCond_caller_expected : preaggCond_caller = "c.chunkSegments > c.Conf.maxSegmentLimit" := by rfl

theorem preaggCond_integer_expected : preaggCond_integer = "c.chunkSegments > c.Conf.maxSegmentLimit" := by rfl

theorem preaggCond_float_expected : preaggCond_float = "c.chunkSegments > c.Conf.maxSegmentLimit" := by rfl

theorem preaggCond_string_expected : preaggCond_string = "c.chunkSegments > c.Conf.maxSegmentLimit" := by rfl

theorem preaggCond_boolean_expected : preaggCond_boolean = "c.chunkSegments > c.Conf.maxSegmentLimit" := by rfl

end OG.C03.Facts
