/-
C03 — property theorems.

Property: background reorganisation of data files (level compaction, full compaction, merging
out-of-order files into ordered ones, self-merge of out-of-order files) never changes the
answer to any query; if the process dies at any step of a reorganisation, the next start-up
ends in a state whose contents equal the contents before the reorganisation began, and leaves
no half-written file visible.

`fixedNow` is the regenerated fact "processLog reads the out-of-order directory for a log
written with IsOrder = false" (repaired in /repo while this check was built; the model follows
the source through it, and the theorems below are about the model the driver runs).
-/
import OG.C03.Answers
import OG.C02.Read

namespace OG.C03
open OG.C02

variable {α : Type} [DecidableEq α]

abbrev fixedNow : Bool := OG.Gen.C03.processLogHonoursIsOrder

theorem fixedNow_true : fixedNow = true := by rfl

/-- the disk a crash after `k` steps of a reorganisation leaves. -/
def crashDisk (S : Setup α) (us : List α) (inUse : α → Bool) (k : Nat) : Disk α :=
  (⟨S.D0, .none⟩ : Disk α).run ((reorgSteps S.isOrd S.olds S.news us inUse).take k)

/-- the statement of crash atomicity, for the model with or without the repair. -/
def CrashAtomic (fixed : Bool) (S : Setup α) (us : List α) : Prop :=
  ∀ (inUse : α → Bool) (k : Nat) (ks : List Nat),
    let d' := recoverWithCrashes fixed (crashDisk S us inUse k) ks
    d'.noTmp ∧ (∀ i o n, d'.log ≠ .full i o n) ∧
    ((k < S.news.length + 2 ∧ ∀ e : Ent α, e ∈ d'.files ↔ e ∈ S.D0) ∨
     (S.news.length + 2 ≤ k ∧ ∃ j, ∀ e : Ent α, e ∈ d'.files ↔ (e.tmp = false ∧ S.newSet (us.take j) e)))

/-- **T1 (crash atomicity).** For every set of data files, every old / new name lists of any
size (old files present, new names fresh), ordered or out-of-order replacement, any set of
files still in use, any merged out-of-order files `us` to delete afterwards: a crash after any
number `k` of file-system steps, followed by any number of start-up passes that are themselves
killed after any number of steps (`ks`) and one complete pass, ends in a disk with no `.init`
file and no complete log whose data files are exactly the old ones (crash before the log write
completed) or exactly `(files \ old) ∪ new` minus the first `j` of the merged out-of-order
files (crash later) — nothing in between. -/
theorem replace_crash_atomic (S : Setup α) (hv : S.Valid) (us : List α) : CrashAtomic fixedNow S us := by
  intro inUse k ks d'
  have hd' : d' = recoverWithCrashes true (crashDisk S us inUse k) ks := rfl
  rw [hd']
  unfold crashDisk
  have hp := S.protocol_prefix hv us inUse k
  simp only at hp
  rcases hp with ⟨hk, hpre⟩ | ⟨hk, j, hc⟩
  · obtain ⟨h1, h2⟩ := S.rwc_pre true ks _ hpre
    refine ⟨h2, ?_, Or.inl ⟨hk, ?_⟩⟩
    · intro i o n hl
      rcases h1.1 with h | h <;> (rw [h] at hl; cases hl)
    · intro e
      cases he : e.tmp with
      | false => exact h1.2 e he
      | true =>
        constructor
        · intro hm; have := h2 e hm; simp [he] at this
        · intro hm; have := hv.clean e hm; simp [he] at this
  · obtain ⟨h1, h2⟩ := S.rwc_committed hv (us.take j) ks _ hc
    refine ⟨h2, ?_, Or.inr ⟨hk, j, ?_⟩⟩
    · intro i o n hl
      rw [h1.1] at hl; cases hl
    · intro e
      cases he : e.tmp with
      | false => simpa using h1.2 e he
      | true =>
        constructor
        · intro hm; have := h2 e hm; simp [he] at this
        · intro hm; simp at hm

/-- non-vacuity: a valid setup with two old files, one new file, one merged out-of-order file. -/
example : (⟨[⟨false, 1, false⟩, ⟨false, 2, false⟩, ⟨false, 3, false⟩, ⟨true, 7, false⟩], true, [1, 2], [9]⟩ : Setup Nat).Valid :=
  ⟨by decide, by decide, by decide⟩

/-- **the code at the pinned commit was not crash-atomic for out-of-order replacements**: the
self-merge of out-of-order file 1 into file 9, killed after the rename of the new file
(`k = 4`), came back with both files loaded. -/
theorem crash_atomic_asWritten_fails :
    ¬ CrashAtomic false (⟨[⟨true, 1, false⟩], false, [1], [9]⟩ : Setup Nat) [] := by
  intro h
  obtain ⟨_, _, hcase⟩ := h (fun _ => false) 4 []
  rcases hcase with ⟨hk, _⟩ | ⟨_, j, hj⟩
  · revert hk; decide
  · -- the replaced file 1 is still there
    have hm : (⟨true, 1, false⟩ : Ent Nat) ∈ (recoverWithCrashes false
        (crashDisk (⟨[⟨true, 1, false⟩], false, [1], [9]⟩ : Setup Nat) [] (fun _ => false) 4) []).files := by decide
    have := ((hj ⟨true, 1, false⟩).1 hm).2
    simp [Setup.newSet, Setup.isOld, Setup.isNew, Setup.dir] at this

/-- the same crash on the repaired model ends in the new file set. -/
example : (recoverWithCrashes true (crashDisk (⟨[⟨true, 1, false⟩], false, [1], [9]⟩ : Setup Nat) [] (fun _ => false) 4) []).files
    = [⟨true, 9, false⟩] := by decide

/-- **T2 (idempotence).** For every disk whatsoever, a complete start-up pass leaves a disk on
which a second pass does nothing. -/
theorem recovery_idempotent (fixed : Bool) (d : Disk α) :
    let d' := d.run (recover1 fixed d)
    recover1 fixed d' = [] ∧ d'.run (recover1 fixed d') = d' := by
  intro d'
  have hno : d'.noTmp := by
    show (d.run (recover1 fixed d)).noTmp
    unfold recover1
    simp only [run_append]
    exact noTmp_loader _
  have hlog : ∀ i o n, d'.log ≠ .full i o n := by
    intro i o n
    show (d.run (recover1 fixed d)).log ≠ _
    unfold recover1
    simp only [run_append]
    unfold loaderPhase
    rw [log_run_removes]
    unfold logPhase
    cases hl : d.log with
    | none => simp [hl]
    | torn => simp [hl]
    | full a b c =>
      simp only [run_append, run_cons, run_nil, log_removeLog]
      intro h; cases h
  have e : recover1 fixed d' = [] := by
    unfold recover1 logPhase
    cases hl : d'.log with
    | none => simpa using loader_nil_of_noTmp d' hno
    | torn => simpa using loader_nil_of_noTmp d' hno
    | full a b c => exact absurd hl (hlog a b c)
  exact ⟨e, by rw [e]; rfl⟩

/-- **T2' (interrupted passes do not matter).** After a crash of a reorganisation, any number
of killed start-up passes followed by a complete one leave the same data files as one
complete pass. -/
theorem recovery_crash_insensitive (S : Setup α) (hv : S.Valid) (us : List α) (inUse : α → Bool)
    (k : Nat) (ks : List Nat) (e : Ent α) :
    e ∈ (recoverWithCrashes fixedNow (crashDisk S us inUse k) ks).files ↔
    e ∈ (recoverWithCrashes fixedNow (crashDisk S us inUse k) []).files := by
  have hp := S.protocol_prefix hv us inUse k
  simp only at hp
  rcases hp with ⟨_, hpre⟩ | ⟨_, j, hc⟩
  · obtain ⟨a1, a2⟩ := S.rwc_pre fixedNow ks _ hpre
    obtain ⟨b1, b2⟩ := S.rwc_pre fixedNow [] _ hpre
    cases he : e.tmp with
    | false => exact (a1.2 e he).trans (b1.2 e he).symm
    | true =>
      constructor
      · intro hm; have := a2 e hm; simp [he] at this
      · intro hm; have := b2 e hm; simp [he] at this
  · obtain ⟨a1, a2⟩ := S.rwc_committed hv (us.take j) ks _ hc
    obtain ⟨b1, b2⟩ := S.rwc_committed hv (us.take j) [] _ hc
    cases he : e.tmp with
    | false => exact (a1.2 e he).trans (b1.2 e he).symm
    | true =>
      constructor
      · intro hm; have := a2 e hm; simp [he] at this
      · intro hm; have := b2 e hm; simp [he] at this

/-! ### answers -/

/-- **T3 (no answer changes).** Let the data files in precedence order be
`PX ++ PU ++ PZ ++ PN ++ PG ++ PB` (PU the merged out-of-order files newest first, i.e. deleted
oldest first; PN the new files; PG the files they replace), let the new files hold the merge of
the merged out-of-order files over the replaced files (`hN`, C02's `compact_equiv` /
`merge_equiv`), and let no key of the merged out-of-order files occur in the files between them
and the replaced ones (`hdis`).  Then after a crash at any step, any number of killed start-up
passes and a complete one, every key reads exactly what it read before the reorganisation
began.  (With `k` beyond the last step and `ks = []` this is the crash-free run.) -/
theorem answers_unchanged (S : Setup α) (hv : S.Valid) (content : Bool × α → List Cell) (us : List α)
    (PX PZ PN PG PB : List (Bool × α)) (hb : Blocks S us PX PZ PN PG PB)
    (hN : Equiv (PN.flatMap content) ((blockU us).flatMap content ++ PG.flatMap content))
    (hdis : KeysDisjoint ((blockU us).flatMap content) (PZ.flatMap content))
    (inUse : α → Bool) (k : Nat) (ks : List Nat) :
    Equiv (cellsOf (precOf us PX PZ PN PG PB) content (recoverWithCrashes fixedNow (crashDisk S us inUse k) ks))
      (cellsOf (precOf us PX PZ PN PG PB) content ⟨S.D0, .none⟩) := by
  obtain ⟨_, _, hcase⟩ := replace_crash_atomic S hv us inUse k ks
  rw [cells_old S hv content us PX PZ PN PG PB hb ⟨S.D0, .none⟩ (fun _ => Iff.rfl)]
  rcases hcase with ⟨_, hold⟩ | ⟨_, j, hnew⟩
  · rw [cells_old S hv content us PX PZ PN PG PB hb _ hold]
    exact Equiv.refl _
  · rw [cells_new S hv content us PX PZ PN PG PB hb j _ hnew]
    have hpre : (blockU (us.drop j)).flatMap content <+: (blockU us).flatMap content := by
      apply flatMap_prefix
      refine ⟨blockU (us.take j), ?_⟩
      unfold blockU
      rw [← List.map_append, ← List.reverse_append, List.take_append_drop]
    have := layout_equiv (PX.flatMap content) _ _ (PZ.flatMap content) (PN.flatMap content)
      (PG.flatMap content) (PB.flatMap content) hN hpre hdis
    simpa using this

/-- the same for whole reads (any time range, ascending or descending, any field subset). -/
theorem reads_unchanged (S : Setup α) (hv : S.Valid) (content : Bool × α → List Cell) (us : List α)
    (PX PZ PN PG PB : List (Bool × α)) (hb : Blocks S us PX PZ PN PG PB)
    (hN : Equiv (PN.flatMap content) ((blockU us).flatMap content ++ PG.flatMap content))
    (hdis : KeysDisjoint ((blockU us).flatMap content) (PZ.flatMap content))
    (inUse : α → Bool) (k : Nat) (ks : List Nat) (lo hi : Int) (asc : Bool) (fields : List String) :
    readCells (cellsOf (precOf us PX PZ PN PG PB) content (recoverWithCrashes fixedNow (crashDisk S us inUse k) ks)) lo hi asc fields
      = readCells (cellsOf (precOf us PX PZ PN PG PB) content ⟨S.D0, .none⟩) lo hi asc fields :=
  readCells_congr (answers_unchanged S hv content us PX PZ PN PG PB hb hN hdis inUse k ks) lo hi asc fields

/-- non-vacuity of the hypotheses of `answers_unchanged`: ordered files 1 and 3, out-of-order
file 7 holding a newer value for a key of file 1; the merge rewrites file 1 as file 11. -/
example :
    let S : Setup Nat := ⟨[⟨false, 1, false⟩, ⟨false, 3, false⟩, ⟨true, 7, false⟩], true, [1], [11]⟩
    let content : Bool × Nat → List Cell := fun p =>
      if p = (true, 7) then [⟨0, 1, "f", "A"⟩]
      else if p = (false, 1) then [⟨0, 1, "f", "a"⟩, ⟨0, 2, "f", "b"⟩]
      else if p = (false, 11) then [⟨0, 1, "f", "A"⟩, ⟨0, 2, "f", "b"⟩]
      else []
    S.Valid ∧ Blocks S [7] [] [] [(false, 11)] [(false, 1)] [(false, 3)] ∧
    Equiv ([(false, 11)].flatMap content) ((blockU [7]).flatMap content ++ [(false, 1)].flatMap content) ∧
    KeysDisjoint ((blockU [7]).flatMap content) (([] : List (Bool × Nat)).flatMap content) := by
  intro S content
  refine ⟨⟨by decide, by decide, by decide⟩, ⟨by decide, by decide, ?_, by decide, by decide, ?_⟩, ?_, ?_⟩
  · intro u hu; simp at hu; subst hu; simp [Setup.isOld, Setup.dir, S]
  · intro p hp; simp at hp; subst hp; simp [Setup.isOld, Setup.dir, S]
  · intro k
    by_cases h1 : ((0 : Nat), (1 : Int), "f") = k
    · subst h1; decide
    · by_cases h2 : ((0 : Nat), (2 : Int), "f") = k
      · subst h2; decide
      · simp [content, blockU, lookup, Cell.key, h1, h2]
  · intro c _ c' hc'; simp at hc'

/-- what a compaction writes satisfies `hN` (C02): the compacted file is the flattening of the
ordered files in precedence order. -/
example (st : OG.C02.St) : Equiv st.compact.cells st.cells := OG.C02.compact_equiv st
example (st : OG.C02.St) : Equiv st.mergeOOO.cells st.cells := OG.C02.merge_equiv st

/-! ### plan shape -/

theorem isBlockOf_spec (xs : List α) : ∀ l : List α, isBlockOf xs l = true → ∃ A B, l = A ++ xs ++ B := by
  intro l
  induction l with
  | nil =>
    intro h
    simp only [isBlockOf, List.isEmpty_iff] at h
    exact ⟨[], [], by simp [h]⟩
  | cons y ys ih =>
    intro h
    simp only [isBlockOf, Bool.or_eq_true] at h
    rcases h with h | h
    · obtain ⟨t, ht⟩ := List.isPrefixOf_iff_prefix.1 h
      exact ⟨[], t, by simp [ht]⟩
    · obtain ⟨A, B, hab⟩ := ih h
      exact ⟨y :: A, B, by simp [hab]⟩

/-- **T4 (plan shape).** A plan the model accepts replaces a contiguous block of its
directory's file list, and the merged out-of-order files are the oldest ones (merge into
ordered files) or directly follow the replaced file (streaming self-merge), in ascending
order — the decomposition `answers_unchanged` needs. -/
theorem plan_adjacent (isOrd : Bool) (ordL oooL olds us : List α) (h : planOK isOrd ordL oooL olds us = true) :
    let dirL := if isOrd then ordL else oooL
    let olds' := dirL.filter (olds.contains ·)
    (∃ A B, dirL = A ++ olds' ++ B) ∧
    (us ≠ [] → if isOrd then ∃ Y, oooL = us ++ Y else ∃ A B, oooL = A ++ (olds' ++ us) ++ B) := by
  intro dirL olds'
  simp only [planOK, Bool.and_eq_true, Bool.or_eq_true] at h
  obtain ⟨⟨⟨_, _⟩, hb⟩, hu⟩ := h
  refine ⟨isBlockOf_spec _ _ hb, ?_⟩
  intro hne
  rcases hu with hu | hu
  · simp only [List.isEmpty_iff] at hu; exact absurd hu hne
  · cases isOrd with
    | true =>
      simp only [if_true] at hu ⊢
      obtain ⟨t, ht⟩ := List.isPrefixOf_iff_prefix.1 hu
      exact ⟨t, ht.symm⟩
    | false =>
      simp only [Bool.false_eq_true, if_false] at hu ⊢
      exact isBlockOf_spec _ _ hu

example : planOK true ["a", "b", "c"] ["x", "y", "z"] ["c", "b"] ["x", "y"] = true := by decide
example : planOK true ["a", "b", "c"] ["x", "y", "z"] ["a", "c"] [] = false := by decide
example : planOK false ["a"] ["x", "y", "z"] ["x"] ["y", "z"] = true := by decide
example : planOK true ["a"] ["x", "y", "z"] ["a"] ["y", "x"] = false := by decide

end OG.C03
