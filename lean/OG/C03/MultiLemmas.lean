/-
C03 — several reorganisations in flight: the shard restricted to the files of one of them (and
to its log file) behaves exactly like the single-reorganisation model, whatever the others do.

`MDisk.restrict R nm` keeps the entries of region `R` (a set of (directory, name) pairs) and the
content of the log file `nm` (`none`: no log).  A tagged step *touches* the region when it is
a file step on an entry of `R`, or a log step on the log file `nm`.
  * `restrict_exec` / `restrict_run`: running tagged steps and then restricting = restricting
    and running the steps that touch;
  * `mrecover1_restrict`: when every complete log of the directory lists only files outside
    `R` — except the log `nm`, which lists only files inside — the steps of a start-up pass
    that touch the region are exactly the single-log pass `recover1` on the restricted disk;
  * `mrwc_restrict`: hence any number of killed start-up passes and a complete one, restricted,
    are killed passes and a complete one of the single-log model.
-/
import OG.C03.Recover
import OG.C03.Multi

namespace OG.C03

variable {α : Type} [DecidableEq α]

/-! ### the log directory -/

def names (ls : List (Nat × Log α)) : List Nat := ls.map (·.1)

omit [DecidableEq α] in
theorem hasLog_iff (ls : List (Nat × Log α)) (nm : Nat) : hasLog ls nm = true ↔ nm ∈ names ls := by
  unfold hasLog names
  simp only [List.any_eq_true, List.mem_map, beq_iff_eq]

omit [DecidableEq α] in
theorem names_replaceLog (ls : List (Nat × Log α)) (nm : Nat) (lg : Log α) :
    names (replaceLog ls nm lg) = names ls := by
  unfold names replaceLog
  rw [List.map_map]
  apply List.map_congr_left
  intro p _
  by_cases h : p.1 = nm <;> simp [h]

omit [DecidableEq α] in
theorem mem_names_insertLog (ls : List (Nat × Log α)) (t : Nat) (lg : Log α) (m : Nat) :
    m ∈ names (insertLog ls t lg) ↔ m = t ∨ m ∈ names ls := by
  induction ls with
  | nil => simp [insertLog, names]
  | cons p rest ih =>
    obtain ⟨m', l'⟩ := p
    unfold insertLog
    by_cases h2 : t < m'
    · simp [h2, names]
    · unfold names at ih ⊢
      simp only [h2, if_false, List.map_cons, List.mem_cons, ih]
      constructor
      · rintro (h | h | h)
        · exact Or.inr (Or.inl h)
        · exact Or.inl h
        · exact Or.inr (Or.inr h)
      · rintro (h | h | h)
        · exact Or.inr (Or.inl h)
        · exact Or.inl h
        · exact Or.inr (Or.inr h)

omit [DecidableEq α] in
theorem nodup_insertLog (ls : List (Nat × Log α)) (t : Nat) (lg : Log α) (hn : (names ls).Nodup)
    (ht : t ∉ names ls) : (names (insertLog ls t lg)).Nodup := by
  induction ls with
  | nil => simp [insertLog, names]
  | cons p rest ih =>
    obtain ⟨m', l'⟩ := p
    have hn' : m' ∉ names rest ∧ (names rest).Nodup := by simpa [names] using hn
    have ht' : t ≠ m' ∧ t ∉ names rest := by simpa [names] using ht
    unfold insertLog
    by_cases h2 : t < m'
    · simp only [h2, if_true]
      have : names ((t, lg) :: (m', l') :: rest) = t :: m' :: names rest := rfl
      rw [this, List.nodup_cons, List.nodup_cons]
      refine ⟨?_, hn'.1, hn'.2⟩
      simp only [List.mem_cons, not_or]
      exact ht'
    · simp only [h2, if_false]
      have : names ((m', l') :: insertLog rest t lg) = m' :: names (insertLog rest t lg) := rfl
      rw [this, List.nodup_cons]
      refine ⟨?_, ih hn'.2 ht'.2⟩
      rw [mem_names_insertLog]
      intro hc
      rcases hc with hc | hc
      · exact ht'.1 hc.symm
      · exact hn'.1 hc

omit [DecidableEq α] in
theorem mem_names_putLog (ls : List (Nat × Log α)) (t : Nat) (lg : Log α) (m : Nat) :
    m ∈ names (putLog ls t lg) ↔ m = t ∨ m ∈ names ls := by
  unfold putLog
  by_cases h : hasLog ls t = true
  · simp only [h, if_true, names_replaceLog]
    constructor
    · exact Or.inr
    · rintro (rfl | h')
      · exact (hasLog_iff ls m).1 h
      · exact h'
  · rw [if_neg h]; exact mem_names_insertLog ls t lg m

omit [DecidableEq α] in
theorem nodup_putLog (ls : List (Nat × Log α)) (t : Nat) (lg : Log α) (hn : (names ls).Nodup) :
    (names (putLog ls t lg)).Nodup := by
  unfold putLog
  by_cases h : hasLog ls t = true
  · simpa only [h, if_true, names_replaceLog] using hn
  · simp only [h]
    exact nodup_insertLog ls t lg hn (fun hc => h ((hasLog_iff ls t).2 hc))

omit [DecidableEq α] in
theorem nodup_dropLog (ls : List (Nat × Log α)) (t : Nat) (hn : (names ls).Nodup) :
    (names (dropLog ls t)).Nodup := by
  unfold dropLog names
  exact hn.sublist ((List.filter_sublist).map _)

omit [DecidableEq α] in
theorem getLog_replaceLog_same (ls : List (Nat × Log α)) (nm : Nat) (lg : Log α) (h : nm ∈ names ls) :
    getLog (replaceLog ls nm lg) nm = lg := by
  induction ls with
  | nil => simp [names] at h
  | cons p rest ih =>
    obtain ⟨m, l⟩ := p
    unfold replaceLog at ih ⊢
    by_cases h1 : m = nm
    · simp [h1, getLog]
    · have : nm ∈ names rest := by
        have : nm = m ∨ nm ∈ names rest := by simpa [names] using h
        rcases this with h' | h'
        · exact absurd h'.symm h1
        · exact h'
      simp [h1, getLog, ih this]

omit [DecidableEq α] in
theorem getLog_replaceLog_other (ls : List (Nat × Log α)) (nm t : Nat) (lg : Log α) (h : t ≠ nm) :
    getLog (replaceLog ls t lg) nm = getLog ls nm := by
  induction ls with
  | nil => rfl
  | cons p rest ih =>
    obtain ⟨m, l⟩ := p
    unfold replaceLog at ih ⊢
    by_cases h1 : m = t
    · subst h1; simp [getLog, h, ih]
    · by_cases h3 : m = nm
      · subst h3; simp [h1, getLog]
      · simp [h1, getLog, h3, ih]

omit [DecidableEq α] in
theorem getLog_insertLog_same (ls : List (Nat × Log α)) (nm : Nat) (lg : Log α) (h : nm ∉ names ls) :
    getLog (insertLog ls nm lg) nm = lg := by
  induction ls with
  | nil => simp [insertLog, getLog]
  | cons p rest ih =>
    obtain ⟨m, l⟩ := p
    have h' : nm ≠ m ∧ nm ∉ names rest := by simpa [names] using h
    unfold insertLog
    by_cases h2 : nm < m
    · simp [h2, getLog]
    · simp [h2, getLog, Ne.symm h'.1, ih h'.2]

omit [DecidableEq α] in
theorem getLog_insertLog_other (ls : List (Nat × Log α)) (nm t : Nat) (lg : Log α) (h : t ≠ nm) :
    getLog (insertLog ls t lg) nm = getLog ls nm := by
  induction ls with
  | nil => simp [insertLog, getLog, h]
  | cons p rest ih =>
    obtain ⟨m, l⟩ := p
    unfold insertLog
    by_cases h2 : t < m
    · simp [h2, getLog, h]
    · by_cases h3 : m = nm
      · subst h3; simp [h2, getLog]
      · simp [h2, getLog, h3, ih]

omit [DecidableEq α] in
theorem getLog_putLog_same (ls : List (Nat × Log α)) (nm : Nat) (lg : Log α) :
    getLog (putLog ls nm lg) nm = lg := by
  unfold putLog
  by_cases h : hasLog ls nm = true
  · simp only [h, if_true]; exact getLog_replaceLog_same ls nm lg ((hasLog_iff ls nm).1 h)
  · simp only [h]; exact getLog_insertLog_same ls nm lg (fun hc => h ((hasLog_iff ls nm).2 hc))

omit [DecidableEq α] in
theorem getLog_putLog_other (ls : List (Nat × Log α)) (nm t : Nat) (lg : Log α) (h : t ≠ nm) :
    getLog (putLog ls t lg) nm = getLog ls nm := by
  unfold putLog
  by_cases h' : hasLog ls t = true
  · simp only [h', if_true]; exact getLog_replaceLog_other ls nm t lg h
  · simp only [h']; exact getLog_insertLog_other ls nm t lg h

omit [DecidableEq α] in
theorem getLog_dropLog_same (ls : List (Nat × Log α)) (nm : Nat) :
    getLog (dropLog ls nm) nm = .none := by
  induction ls with
  | nil => rfl
  | cons p rest ih =>
    obtain ⟨m, l⟩ := p
    unfold dropLog at ih ⊢
    by_cases h : m = nm
    · simpa [List.filter_cons, h] using ih
    · simpa [List.filter_cons, h, getLog] using ih

omit [DecidableEq α] in
theorem getLog_dropLog_other (ls : List (Nat × Log α)) (nm t : Nat) (h : t ≠ nm) :
    getLog (dropLog ls t) nm = getLog ls nm := by
  induction ls with
  | nil => rfl
  | cons p rest ih =>
    obtain ⟨m, l⟩ := p
    unfold dropLog at ih ⊢
    by_cases h1 : m = t
    · subst h1; simpa [List.filter_cons, getLog, h] using ih
    · by_cases h2 : m = nm
      · subst h2; simp [List.filter_cons, h1, getLog]
      · simpa [List.filter_cons, h1, getLog, h2] using ih

omit [DecidableEq α] in
/-- a name that is not in the directory has no log. -/
theorem getLog_none_of_not_mem (ls : List (Nat × Log α)) (nm : Nat) (h : nm ∉ names ls) :
    getLog ls nm = .none := by
  induction ls with
  | nil => rfl
  | cons p rest ih =>
    obtain ⟨m, l⟩ := p
    have h' : nm ≠ m ∧ nm ∉ names rest := by simpa [names] using h
    simp [getLog, Ne.symm h'.1, ih h'.2]

omit [DecidableEq α] in
/-- with distinct names, an entry of the directory is what `getLog` finds. -/
theorem getLog_of_mem (ls : List (Nat × Log α)) (hn : (names ls).Nodup) (m : Nat) (lg : Log α)
    (h : (m, lg) ∈ ls) : getLog ls m = lg := by
  induction ls with
  | nil => cases h
  | cons p rest ih =>
    obtain ⟨m', l'⟩ := p
    have hn' : m' ∉ names rest ∧ (names rest).Nodup := by simpa [names] using hn
    simp only [List.mem_cons, Prod.mk.injEq] at h
    rcases h with ⟨rfl, rfl⟩ | h
    · simp [getLog]
    · have : m' ≠ m := by
        intro hc; subst hc
        exact hn'.1 (List.mem_map.2 ⟨(m', lg), h, rfl⟩)
      simp [getLog, this, ih hn'.2 h]

/-! ### runs of tagged steps -/

@[simp] theorem mrun_nil (d : MDisk α) : d.run [] = d := rfl
@[simp] theorem mrun_cons (d : MDisk α) (s : Nat × Step α) (l : List (Nat × Step α)) :
    d.run (s :: l) = (d.exec s).run l := rfl

theorem mrun_append (d : MDisk α) (l1 l2 : List (Nat × Step α)) :
    d.run (l1 ++ l2) = (d.run l1).run l2 := by
  simp [MDisk.run, List.foldl_append]

/-! ### restriction to a region -/

/-- the entry a file step works on. -/
def Step.ent? : Step α → Option (Bool × α)
  | .create e => some (e.ooo, e.name)
  | .promote o n => some (o, n)
  | .hide o n => some (o, n)
  | .remove e => some (e.ooo, e.name)
  | _ => none

def inR (R : Bool → α → Bool) (e : Ent α) : Bool := R e.ooo e.name

/-- the content of the log file `nm` (`none`: the region has no log). -/
def logOf (ls : List (Nat × Log α)) : Option Nat → Log α
  | some nm => getLog ls nm
  | none => .none

def MDisk.restrict (d : MDisk α) (R : Bool → α → Bool) (nm : Option Nat) : Disk α :=
  ⟨d.files.filter (inR R), logOf d.logs nm⟩

/-- a tagged step touches the region: a file step on one of its entries, a log step on its log. -/
def touches (R : Bool → α → Bool) (nm : Option Nat) (ts : Nat × Step α) : Bool :=
  match ts.2.ent? with
  | some (o, n) => R o n
  | none => nm == some ts.1

theorem filter_exec_in (R : Bool → α → Bool) (fs : List (Ent α)) (l l' : Log α) (s : Step α) (o : Bool) (n : α)
    (he : s.ent? = some (o, n)) (hR : R o n = true) :
    ((⟨fs, l⟩ : Disk α).exec s).files.filter (inR R) = ((⟨fs.filter (inR R), l'⟩ : Disk α).exec s).files := by
  cases s with
  | create e =>
    simp only [Step.ent?, Option.some.injEq, Prod.mk.injEq] at he
    have hin : inR R e = true := by unfold inR; rw [he.1, he.2]; exact hR
    simp only [Disk.exec, List.mem_filter, hin, and_true]
    split
    · rfl
    · simp [List.filter_cons, hin]
  | promote o' n' =>
    simp only [Step.ent?, Option.some.injEq, Prod.mk.injEq] at he
    obtain ⟨rfl, rfl⟩ := he
    have h1 : inR R (⟨o', n', true⟩ : Ent α) = true := hR
    have h2 : inR R (⟨o', n', false⟩ : Ent α) = true := hR
    simp only [Disk.exec, List.mem_filter, h1, and_true]
    split
    · simp only [List.filter_cons, h2, if_true, List.filter_filter]
      congr 1
      apply List.filter_congr
      intro x _
      exact Bool.and_comm _ _
    · rfl
  | hide o' n' =>
    simp only [Step.ent?, Option.some.injEq, Prod.mk.injEq] at he
    obtain ⟨rfl, rfl⟩ := he
    have h1 : inR R (⟨o', n', true⟩ : Ent α) = true := hR
    have h2 : inR R (⟨o', n', false⟩ : Ent α) = true := hR
    simp only [Disk.exec, List.mem_filter, h2, and_true]
    split
    · simp only [List.filter_cons, h1, if_true, List.filter_filter]
      congr 1
      apply List.filter_congr
      intro x _
      exact Bool.and_comm _ _
    · rfl
  | remove e =>
    simp only [Disk.exec, List.filter_filter]
    apply List.filter_congr
    intro x _
    exact Bool.and_comm _ _
  | createLog => simp [Step.ent?] at he
  | writeLog _ _ _ => simp [Step.ent?] at he
  | removeLog => simp [Step.ent?] at he

theorem filter_exec_out (R : Bool → α → Bool) (fs : List (Ent α)) (l : Log α) (s : Step α) (o : Bool) (n : α)
    (he : s.ent? = some (o, n)) (hR : R o n = false) :
    ((⟨fs, l⟩ : Disk α).exec s).files.filter (inR R) = fs.filter (inR R) := by
  have drop : ∀ (x : Ent α), inR R x = false → ∀ l : List (Ent α),
      (l.filter (· ≠ x)).filter (inR R) = l.filter (inR R) := by
    intro x hx l
    rw [List.filter_filter]
    apply List.filter_congr
    intro y _
    by_cases hy : y = x
    · subst hy; simp [hx]
    · simp [hy]
  cases s with
  | create e =>
    simp only [Step.ent?, Option.some.injEq, Prod.mk.injEq] at he
    have hin : inR R e = false := by unfold inR; rw [he.1, he.2]; exact hR
    simp only [Disk.exec]
    split
    · rfl
    · simp [List.filter_cons, hin]
  | promote o' n' =>
    simp only [Step.ent?, Option.some.injEq, Prod.mk.injEq] at he
    obtain ⟨rfl, rfl⟩ := he
    have h1 : inR R (⟨o', n', true⟩ : Ent α) = false := hR
    have h2 : inR R (⟨o', n', false⟩ : Ent α) = false := hR
    simp only [Disk.exec]
    split
    · simp only [List.filter_cons, h2]
      exact drop _ h1 fs
    · rfl
  | hide o' n' =>
    simp only [Step.ent?, Option.some.injEq, Prod.mk.injEq] at he
    obtain ⟨rfl, rfl⟩ := he
    have h1 : inR R (⟨o', n', true⟩ : Ent α) = false := hR
    have h2 : inR R (⟨o', n', false⟩ : Ent α) = false := hR
    simp only [Disk.exec]
    split
    · simp only [List.filter_cons, h1]
      exact drop _ h2 fs
    · rfl
  | remove e =>
    simp only [Step.ent?, Option.some.injEq, Prod.mk.injEq] at he
    have hin : inR R e = false := by unfold inR; rw [he.1, he.2]; exact hR
    simp only [Disk.exec]
    exact drop _ hin fs
  | createLog => simp [Step.ent?] at he
  | writeLog _ _ _ => simp [Step.ent?] at he
  | removeLog => simp [Step.ent?] at he

theorem files_exec_logstep (d : MDisk α) (t : Nat) (s : Step α) (h : s.ent? = none) :
    (d.exec (t, s)).files = d.files := by
  cases s <;> simp_all [Step.ent?, MDisk.exec]

theorem logs_exec_filestep (d : MDisk α) (t : Nat) (s : Step α) (o : Bool) (n : α) (h : s.ent? = some (o, n)) :
    (d.exec (t, s)).logs = d.logs := by
  cases s <;> simp_all [Step.ent?, MDisk.exec]

theorem files_exec_filestep (d : MDisk α) (t : Nat) (s : Step α) (o : Bool) (n : α) (h : s.ent? = some (o, n)) :
    (d.exec (t, s)).files = ((⟨d.files, .none⟩ : Disk α).exec s).files := by
  cases s <;> simp_all [Step.ent?, MDisk.exec]

theorem log_exec_filestep' (d : Disk α) (s : Step α) (o : Bool) (n : α) (h : s.ent? = some (o, n)) :
    (d.exec s).log = d.log := by
  apply log_exec_file
  cases s <;> simp_all [Step.ent?, Step.isFile]

/-- **one step**: restricting after a tagged step = executing it on the restriction when it
touches the region, doing nothing otherwise. -/
theorem restrict_exec (R : Bool → α → Bool) (nm : Option Nat) (d : MDisk α) (ts : Nat × Step α) :
    (d.exec ts).restrict R nm =
      if touches R nm ts then (d.restrict R nm).exec ts.2 else d.restrict R nm := by
  obtain ⟨t, s⟩ := ts
  cases he : s.ent? with
  | some p =>
    obtain ⟨o, n⟩ := p
    have hl := logs_exec_filestep d t s o n he
    have hf := files_exec_filestep d t s o n he
    cases hR : R o n with
    | true =>
      have ht : touches R nm (t, s) = true := by simp [touches, he, hR]
      rw [ht, if_pos rfl]
      unfold MDisk.restrict
      rw [hl, hf, filter_exec_in R d.files .none (logOf d.logs nm) s o n he hR]
      have := log_exec_filestep' (⟨d.files.filter (inR R), logOf d.logs nm⟩ : Disk α) s o n he
      cases hx : (⟨d.files.filter (inR R), logOf d.logs nm⟩ : Disk α).exec s with
      | mk f l =>
        rw [hx] at this
        simp only at this
        simp [this]
    | false =>
      have ht : touches R nm (t, s) = false := by simp [touches, he, hR]
      rw [ht]
      simp only [Bool.false_eq_true, if_false]
      unfold MDisk.restrict
      rw [hl, hf, filter_exec_out R d.files .none s o n he hR]
  | none =>
    have hf := files_exec_logstep d t s he
    unfold MDisk.restrict
    rw [hf]
    cases nm with
    | none =>
      have ht : touches R none (t, s) = false := by simp [touches, he]
      rw [ht]
      simp [logOf]
    | some m =>
      by_cases hm : m = t
      · subst hm
        have ht : touches R (some m) (m, s) = true := by simp [touches, he]
        rw [ht, if_pos rfl]
        cases s with
        | createLog => simp [MDisk.exec, Disk.exec, logOf, getLog_putLog_same]
        | writeLog i o n => simp [MDisk.exec, Disk.exec, logOf, getLog_putLog_same]
        | removeLog => simp [MDisk.exec, Disk.exec, logOf, getLog_dropLog_same]
        | create e => simp [Step.ent?] at he
        | promote _ _ => simp [Step.ent?] at he
        | hide _ _ => simp [Step.ent?] at he
        | remove _ => simp [Step.ent?] at he
      · have ht : touches R (some m) (t, s) = false := by
          simp [touches, he]; exact hm
        rw [ht]
        simp only [Bool.false_eq_true, if_false]
        have hne : t ≠ m := fun h => hm h.symm
        cases s with
        | createLog => simp [MDisk.exec, logOf, getLog_putLog_other _ _ _ _ hne]
        | writeLog i o n => simp [MDisk.exec, logOf, getLog_putLog_other _ _ _ _ hne]
        | removeLog => simp [MDisk.exec, logOf, getLog_dropLog_other _ _ _ hne]
        | create e => simp [Step.ent?] at he
        | promote _ _ => simp [Step.ent?] at he
        | hide _ _ => simp [Step.ent?] at he
        | remove _ => simp [Step.ent?] at he

/-- **a run**: restricting after a run = running, on the restriction, the steps that touch. -/
theorem restrict_run (R : Bool → α → Bool) (nm : Option Nat) (l : List (Nat × Step α)) : ∀ (d : MDisk α),
    (d.run l).restrict R nm = (d.restrict R nm).run ((l.filter (touches R nm)).map (·.2)) := by
  induction l with
  | nil => intro d; rfl
  | cons ts l ih =>
    intro d
    rw [mrun_cons, ih, restrict_exec]
    by_cases ht : touches R nm ts = true
    · simp [ht, List.filter_cons]
    · simp [ht, List.filter_cons]

/-! ### processLog only looks at, and only touches, the files its log lists -/

omit [DecidableEq α] in
theorem all_congr' {β : Type} (l : List β) (f g : β → Bool) (h : ∀ x ∈ l, f x = g x) : l.all f = l.all g := by
  induction l with
  | nil => rfl
  | cons a l ih =>
    simp only [List.all_cons]
    rw [h a (by simp), ih (fun x hx => h x (by simp [hx]))]

theorem mem_filter_inR (R : Bool → α → Bool) (fs : List (Ent α)) (e : Ent α) (h : R e.ooo e.name = true) :
    e ∈ fs.filter (inR R) ↔ e ∈ fs := by
  simp [List.mem_filter, inR, h]

theorem listed_filter (R : Bool → α → Bool) (fs : List (Ent α)) (o : Bool) (n : α) (h : R o n = true) :
    listed (fs.filter (inR R)) o n = listed fs o n := by
  unfold listed
  have h1 := mem_filter_inR R fs ⟨o, n, false⟩ h
  have h2 := mem_filter_inR R fs ⟨o, n, true⟩ h
  simp only [h1, h2]

theorem processLog_filter (R : Bool → α → Bool) (fixed : Bool) (fs : List (Ent α)) (i : Bool) (olds news : List α)
    (h : ∀ x ∈ olds ++ news, R (logDirOOO fixed i) x = true) :
    processLog fixed (fs.filter (inR R)) i olds news = processLog fixed fs i olds news := by
  have hn : ∀ x ∈ news, R (logDirOOO fixed i) x = true := fun x hx => h x (by simp [hx])
  have ho : ∀ x ∈ olds, R (logDirOOO fixed i) x = true := fun x hx => h x (by simp [hx])
  unfold processLog
  simp only
  rw [all_congr' news _ (listed fs (logDirOOO fixed i)) (fun x hx => listed_filter R fs _ x (hn x hx)),
    all_congr' olds _ (listed fs (logDirOOO fixed i)) (fun x hx => listed_filter R fs _ x (ho x hx))]
  have e1 : (news.filter fun n => decide ((⟨logDirOOO fixed i, n, true⟩ : Ent α) ∈ fs.filter (inR R)))
      = news.filter fun n => decide ((⟨logDirOOO fixed i, n, true⟩ : Ent α) ∈ fs) := by
    apply List.filter_congr
    intro x hx
    simp only [mem_filter_inR R fs ⟨logDirOOO fixed i, x, true⟩ (hn x hx)]
  have e2 : (olds.filter fun n => decide ((⟨logDirOOO fixed i, n, true⟩ : Ent α) ∈ fs.filter (inR R)))
      = olds.filter fun n => decide ((⟨logDirOOO fixed i, n, true⟩ : Ent α) ∈ fs) := by
    apply List.filter_congr
    intro x hx
    simp only [mem_filter_inR R fs ⟨logDirOOO fixed i, x, true⟩ (ho x hx)]
  have e3 : olds.filter (listed (fs.filter (inR R)) (logDirOOO fixed i)) = olds.filter (listed fs (logDirOOO fixed i)) := by
    apply List.filter_congr
    intro x hx
    exact listed_filter R fs _ x (ho x hx)
  rw [e1, e2, e3]

/-- every step of processLog is a file step on a file the log lists, in the log's directory. -/
theorem processLog_ents (fixed : Bool) (fs : List (Ent α)) (i : Bool) (olds news : List α) (s : Step α)
    (hs : s ∈ processLog fixed fs i olds news) :
    ∃ x, x ∈ olds ++ news ∧ s.ent? = some (logDirOOO fixed i, x) := by
  unfold processLog at hs
  simp only at hs
  split at hs
  · simp only [List.mem_append, List.mem_map, List.mem_filter] at hs
    rcases hs with ⟨n, ⟨hn, _⟩, rfl⟩ | ⟨o, ⟨ho, _⟩, rfl⟩
    · exact ⟨n, by simp [hn], rfl⟩
    · exact ⟨o, by simp [ho], rfl⟩
  · split at hs
    · simp only [List.mem_map, List.mem_filter] at hs
      obtain ⟨o, ⟨ho, _⟩, rfl⟩ := hs
      exact ⟨o, by simp [ho], rfl⟩
    · cases hs

/-- file steps outside the region leave its files alone. -/
theorem filter_run_out (R : Bool → α → Bool) (s : List (Step α)) : ∀ (fs : List (Ent α)) (l : Log α),
    (∀ x ∈ s, ∃ o n, x.ent? = some (o, n) ∧ R o n = false) →
    ((⟨fs, l⟩ : Disk α).run s).files.filter (inR R) = fs.filter (inR R) := by
  induction s with
  | nil => intro fs l _; rfl
  | cons x s ih =>
    intro fs l h
    obtain ⟨o, n, he, hR⟩ := h x (by simp)
    rw [run_cons]
    have := filter_exec_out R fs l x o n he hR
    cases hx : (⟨fs, l⟩ : Disk α).exec x with
    | mk f l' =>
      rw [hx] at this
      rw [ih f l' (fun y hy => h y (by simp [hy]))]
      exact this

/-! ### the start-up loop, restricted -/

/-- the complete logs of the directory list only files outside the region, except the region's
own log, which lists only files inside; log-file names are distinct. -/
def LogsSep (R : Bool → α → Bool) (nm : Option Nat) (fixed : Bool) (ls : List (Nat × Log α)) : Prop :=
  (names ls).Nodup ∧
  ∀ m i o n, (m, Log.full i o n) ∈ ls → ∀ x ∈ o ++ n, R (logDirOOO fixed i) x = decide (nm = some m)

omit [DecidableEq α] in
theorem LogsSep.tail {R : Bool → α → Bool} {nm : Option Nat} {fixed : Bool} {p : Nat × Log α} {ls : List (Nat × Log α)}
    (h : LogsSep R nm fixed (p :: ls)) : LogsSep R nm fixed ls := by
  refine ⟨?_, fun m i o n hm => h.2 m i o n (by simp [hm])⟩
  have := h.1
  unfold names at this ⊢
  simp only [List.map_cons, List.nodup_cons] at this
  exact this.2

omit [DecidableEq α] in
theorem logOf_cons_ne (m : Nat) (lg : Log α) (rest : List (Nat × Log α)) (nm : Option Nat) (h : nm ≠ some m) :
    logOf ((m, lg) :: rest) nm = logOf rest nm := by
  cases nm with
  | none => rfl
  | some k =>
    have : m ≠ k := by intro hc; subst hc; exact h rfl
    simp [logOf, getLog, this]

omit [DecidableEq α] in
theorem logOf_cons_eq (m : Nat) (lg : Log α) (rest : List (Nat × Log α)) :
    logOf ((m, lg) :: rest) (some m) = lg := by
  simp [logOf, getLog]

omit [DecidableEq α] in
theorem logOf_rest_none (m : Nat) (lg : Log α) (rest : List (Nat × Log α)) (h : (names ((m, lg) :: rest)).Nodup) :
    logOf rest (some m) = .none := by
  unfold names at h
  simp only [List.map_cons, List.nodup_cons] at h
  exact getLog_none_of_not_mem rest m h.1

theorem logPhase_notFull (fixed : Bool) (fs : List (Ent α)) (l : Log α) (h : l.isFull = false) :
    logPhase fixed ⟨fs, l⟩ = [] := by
  unfold logPhase
  cases l <;> simp_all [Log.isFull]

/-- **the loop of procCompactLog, restricted to a region**: the steps that touch the region are
the single-log pass on the region's files and log. -/
theorem mlogSteps_restrict (R : Bool → α → Bool) (nm : Option Nat) (fixed : Bool) :
    ∀ (ls : List (Nat × Log α)) (fs : List (Ent α)), LogsSep R nm fixed ls →
    ((mlogSteps true fixed ls fs).filter (touches R nm)).map (·.2)
      = logPhase fixed ⟨fs.filter (inR R), logOf ls nm⟩ := by
  intro ls
  induction ls with
  | nil =>
    intro fs _
    cases nm <;> simp [mlogSteps, logPhase, logOf, getLog]
  | cons p rest ih =>
    intro fs hsep
    obtain ⟨m, lg⟩ := p
    have hrest := hsep.tail
    cases lg with
    | none =>
      have e : mlogSteps true fixed ((m, Log.none) :: rest) fs = mlogSteps true fixed rest fs := by
        simp [mlogSteps]
      rw [e, ih fs hrest]
      by_cases hm : nm = some m
      · subst hm
        rw [logOf_cons_eq, logOf_rest_none m _ rest hsep.1]
      · rw [logOf_cons_ne m _ rest nm hm]
    | torn =>
      have e : mlogSteps true fixed ((m, Log.torn) :: rest) fs = mlogSteps true fixed rest fs := by
        simp [mlogSteps]
      rw [e, ih fs hrest]
      by_cases hm : nm = some m
      · subst hm
        rw [logOf_cons_eq, logOf_rest_none m _ rest hsep.1]
        rw [logPhase_notFull fixed _ .torn rfl, logPhase_notFull fixed _ .none rfl]
      · rw [logOf_cons_ne m _ rest nm hm]
    | full i o n =>
      have e : mlogSteps true fixed ((m, Log.full i o n) :: rest) fs =
          (processLog fixed fs i o n ++ [Step.removeLog]).map (fun x => (m, x))
            ++ mlogSteps true fixed rest (runFiles fs (processLog fixed fs i o n)) := by
        simp [mlogSteps]
      rw [e, List.filter_append, List.map_append]
      have hfoot := hsep.2 m i o n (by simp)
      by_cases hm : nm = some m
      · subst hm
        have hin : ∀ x ∈ o ++ n, R (logDirOOO fixed i) x = true := by
          intro x hx; simpa using hfoot x hx
        -- every step of this log touches the region
        have hall : ((processLog fixed fs i o n ++ [Step.removeLog]).map (fun x => (m, x))).filter (touches R (some m))
            = (processLog fixed fs i o n ++ [Step.removeLog]).map (fun x => (m, x)) := by
          apply List.filter_eq_self.2
          intro ts hts
          simp only [List.mem_map, List.mem_append, List.mem_singleton] at hts
          obtain ⟨x, hx | hx, rfl⟩ := hts
          · obtain ⟨y, hy, he⟩ := processLog_ents fixed fs i o n x hx
            simp [touches, he, hin y hy]
          · subst hx
            simp [touches, Step.ent?]
        rw [hall, List.map_map]
        have hid : ((fun x : Nat × Step α => x.2) ∘ fun x => (m, x)) = id := by funext x; rfl
        rw [hid, List.map_id]
        -- the rest of the directory holds no log of this region
        rw [ih _ hrest, logOf_rest_none m _ rest hsep.1, logPhase_notFull fixed _ .none rfl, List.append_nil]
        rw [logOf_cons_eq]
        unfold logPhase
        simp only
        rw [processLog_filter R fixed fs i o n hin]
      · have hout : ∀ x ∈ o ++ n, R (logDirOOO fixed i) x = false := by
          intro x hx; simpa [hm] using hfoot x hx
        have hnone : ((processLog fixed fs i o n ++ [Step.removeLog]).map (fun x => (m, x))).filter (touches R nm) = [] := by
          apply List.filter_eq_nil_iff.2
          intro ts hts
          simp only [List.mem_map, List.mem_append, List.mem_singleton] at hts
          obtain ⟨x, hx | hx, rfl⟩ := hts
          · obtain ⟨y, hy, he⟩ := processLog_ents fixed fs i o n x hx
            simp [touches, he, hout y hy]
          · subst hx
            simp only [touches, Step.ent?]
            simpa using hm
        rw [hnone, List.map_nil, List.nil_append, ih _ hrest, logOf_cons_ne m _ rest nm hm]
        unfold runFiles
        rw [filter_run_out R _ fs .none]
        intro x hx
        obtain ⟨y, hy, he⟩ := processLog_ents fixed fs i o n x hx
        exact ⟨_, y, he, hout y hy⟩

omit [DecidableEq α] in
theorem mloader_restrict (R : Bool → α → Bool) (nm : Option Nat) (F : List (Ent α)) (l : Log α) :
    ((mloaderSteps F).filter (touches R nm)).map (·.2) = loaderPhase ⟨F.filter (inR R), l⟩ := by
  unfold mloaderSteps loaderPhase
  simp only [List.filter_map, List.map_map, List.filter_filter]
  have hf : List.filter (fun a => (touches R nm ∘ fun e => ((0 : Nat), Step.remove e)) a && a.tmp) F
      = List.filter (fun a => a.tmp && inR R a) F := by
    apply List.filter_congr
    intro x _
    simp [touches, Step.ent?, inR, Bool.and_comm]
  rw [hf]
  have hg : ((fun x : Nat × Step α => x.2) ∘ fun e : Ent α => ((0 : Nat), Step.remove e)) = Step.remove := by
    funext e; rfl
  rw [hg]

/-- **one start-up pass, restricted**: the steps that touch the region are the single-log pass
`recover1` on the restricted disk. -/
theorem mrecover1_restrict (R : Bool → α → Bool) (nm : Option Nat) (fixed : Bool) (d : MDisk α)
    (hsep : LogsSep R nm fixed d.logs) :
    ((mrecover1 true fixed d).filter (touches R nm)).map (·.2) = recover1 fixed (d.restrict R nm) := by
  unfold mrecover1 recover1
  simp only
  rw [List.filter_append, List.map_append]
  have h1 := mlogSteps_restrict R nm fixed d.logs d.files hsep
  have h2 := restrict_run R nm (mlogSteps true fixed d.logs d.files) d
  rw [h1] at h2
  rw [h1]
  congr 1
  rw [mloader_restrict R nm _ ((d.run (mlogSteps true fixed d.logs d.files)).restrict R nm).log]
  have : (⟨(d.run (mlogSteps true fixed d.logs d.files)).files.filter (inR R),
      ((d.run (mlogSteps true fixed d.logs d.files)).restrict R nm).log⟩ : Disk α)
      = (d.run (mlogSteps true fixed d.logs d.files)).restrict R nm := rfl
  rw [this, h2]
  rfl

omit [DecidableEq α] in
/-- a prefix, filtered, is a prefix of the filtered list. -/
theorem filter_take {β : Type} (p : β → Bool) (l : List β) (k : Nat) :
    ∃ k', (l.take k).filter p = (l.filter p).take k' := by
  induction l generalizing k with
  | nil => exact ⟨0, by simp⟩
  | cons a l ih =>
    cases k with
    | zero => exact ⟨0, by simp⟩
    | succ k =>
      obtain ⟨k', hk'⟩ := ih k
      by_cases ha : p a = true
      · exact ⟨k' + 1, by simp [List.take_succ_cons, List.filter_cons, ha, hk']⟩
      · exact ⟨k', by simp [List.take_succ_cons, List.filter_cons, ha, hk']⟩

/-! ### what a start-up pass does to the log directory -/

/-- a step that creates or writes no log. -/
def Step.noLogWrite : Step α → Bool
  | .createLog | .writeLog _ _ _ => false
  | _ => true

theorem logs_sublist_exec (d : MDisk α) (ts : Nat × Step α) (h : ts.2.noLogWrite = true) :
    (d.exec ts).logs.Sublist d.logs := by
  obtain ⟨t, s⟩ := ts
  cases s <;> simp_all [Step.noLogWrite, MDisk.exec, dropLog]

theorem logs_sublist_run (l : List (Nat × Step α)) : ∀ (d : MDisk α), (∀ ts ∈ l, ts.2.noLogWrite = true) →
    (d.run l).logs.Sublist d.logs := by
  induction l with
  | nil => intro d _; exact List.Sublist.refl _
  | cons ts l ih =>
    intro d h
    rw [mrun_cons]
    exact (ih _ (fun x hx => h x (by simp [hx]))).trans (logs_sublist_exec d ts (h ts (by simp)))

theorem mlogSteps_noLogWrite (cont fixed : Bool) : ∀ (ls : List (Nat × Log α)) (fs : List (Ent α)),
    ∀ ts ∈ mlogSteps cont fixed ls fs, ts.2.noLogWrite = true := by
  intro ls
  induction ls with
  | nil => intro fs ts h; simp [mlogSteps] at h
  | cons p rest ih =>
    intro fs ts h
    obtain ⟨m, lg⟩ := p
    cases lg with
    | none =>
      simp only [mlogSteps] at h
      split at h
      · exact ih fs ts h
      · cases h
    | torn =>
      simp only [mlogSteps] at h
      split at h
      · exact ih fs ts h
      · cases h
    | full i o n =>
      simp only [mlogSteps, List.mem_append, List.mem_map, List.mem_singleton] at h
      rcases h with ⟨x, hx | hx, rfl⟩ | h
      · obtain ⟨y, _, he⟩ := processLog_ents fixed fs i o n x hx
        cases x <;> simp_all [Step.ent?, Step.noLogWrite]
      · subst hx; rfl
      · exact ih _ ts h

theorem mrecover1_noLogWrite (cont fixed : Bool) (d : MDisk α) :
    ∀ ts ∈ mrecover1 cont fixed d, ts.2.noLogWrite = true := by
  intro ts h
  unfold mrecover1 at h
  simp only [List.mem_append] at h
  rcases h with h | h
  · exact mlogSteps_noLogWrite cont fixed _ _ ts h
  · unfold mloaderSteps at h
    simp only [List.mem_map] at h
    obtain ⟨e, _, rfl⟩ := h
    rfl

omit [DecidableEq α] in
theorem LogsSep.sublist {R : Bool → α → Bool} {nm : Option Nat} {fixed : Bool} {ls ls' : List (Nat × Log α)}
    (h : LogsSep R nm fixed ls) (hs : ls'.Sublist ls) : LogsSep R nm fixed ls' :=
  ⟨h.1.sublist (hs.map _), fun m i o n hm => h.2 m i o n (hs.subset hm)⟩

/-- **killed passes and a complete one, restricted** are killed passes and a complete one of the
single-log model on the restricted disk. -/
theorem mrwc_restrict (R : Bool → α → Bool) (nm : Option Nat) (fixed : Bool) (ks : List Nat) :
    ∀ (d : MDisk α), LogsSep R nm fixed d.logs →
    ∃ ks', (mrecoverWithCrashes true fixed d ks).restrict R nm = recoverWithCrashes fixed (d.restrict R nm) ks' := by
  induction ks with
  | nil =>
    intro d hsep
    refine ⟨[], ?_⟩
    simp only [mrecoverWithCrashes, recoverWithCrashes]
    rw [restrict_run, mrecover1_restrict R nm fixed d hsep]
  | cons k ks ih =>
    intro d hsep
    simp only [mrecoverWithCrashes]
    have hnw : ∀ ts ∈ (mrecover1 true fixed d).take k, ts.2.noLogWrite = true :=
      fun ts h => mrecover1_noLogWrite true fixed d ts (List.mem_of_mem_take h)
    have hsep' : LogsSep R nm fixed (d.run ((mrecover1 true fixed d).take k)).logs :=
      hsep.sublist (logs_sublist_run _ d hnw)
    obtain ⟨ks', hks'⟩ := ih _ hsep'
    obtain ⟨k', hk'⟩ := filter_take (touches R nm) (mrecover1 true fixed d) k
    refine ⟨k' :: ks', ?_⟩
    rw [hks', restrict_run, hk', List.map_take, mrecover1_restrict R nm fixed d hsep]
    rfl

/-- the last pass of a start-up with crashes is a complete one. -/
theorem mrwc_last (cont fixed : Bool) (ks : List Nat) : ∀ (d : MDisk α),
    ∃ d0 : MDisk α, mrecoverWithCrashes cont fixed d ks = d0.run (mrecover1 cont fixed d0) ∧ d0.logs.Sublist d.logs := by
  induction ks with
  | nil => intro d; exact ⟨d, rfl, List.Sublist.refl _⟩
  | cons k ks ih =>
    intro d
    simp only [mrecoverWithCrashes]
    obtain ⟨d0, h0, hs⟩ := ih (d.run ((mrecover1 cont fixed d).take k))
    refine ⟨d0, h0, hs.trans (logs_sublist_run _ d ?_)⟩
    exact fun ts h => mrecover1_noLogWrite cont fixed d ts (List.mem_of_mem_take h)

/-- after a complete pass (dirty logs skipped) no `.init` entry is left. -/
theorem noTmp_mrecover1 (cont fixed : Bool) (d : MDisk α) : (d.run (mrecover1 cont fixed d)).noTmp := by
  unfold mrecover1
  simp only
  rw [mrun_append]
  generalize d.run (mlogSteps cont fixed d.logs d.files) = d1
  -- the whole shard as one region without a log
  have h := restrict_run (fun _ _ => true) none (mloaderSteps d1.files) d1
  have hl := mloader_restrict (fun _ _ => true) none d1.files Log.none
  rw [hl] at h
  have hall : ∀ F : List (Ent α), F.filter (inR (fun _ _ => true)) = F := by
    intro F; apply List.filter_eq_self.2; intro _ _; rfl
  intro e he
  have he' : e ∈ ((d1.run (mloaderSteps d1.files)).restrict (fun _ _ => true) none).files := by
    show e ∈ (d1.run (mloaderSteps d1.files)).files.filter _
    rw [hall]; exact he
  rw [h] at he'
  have hd : d1.restrict (fun _ _ => true) none = ⟨d1.files, .none⟩ := by
    unfold MDisk.restrict; rw [hall]; rfl
  rw [hall, hd] at he'
  exact noTmp_loader (⟨d1.files, .none⟩ : Disk α) e he'

/-- which logs the loop removes: every complete log of the listing it walks. -/
theorem logs_mlogSteps (fixed : Bool) : ∀ (ls : List (Nat × Log α)) (fs : List (Ent α)) (d : MDisk α) (p : Nat × Log α),
    p ∈ (d.run (mlogSteps true fixed ls fs)).logs ↔ p ∈ d.logs ∧ ∀ q ∈ ls, q.2.isFull = true → q.1 ≠ p.1 := by
  intro ls
  induction ls with
  | nil => intro fs d p; simp [mlogSteps]
  | cons q rest ih =>
    intro fs d p
    obtain ⟨m, lg⟩ := q
    cases lg with
    | none => simp [mlogSteps, ih, Log.isFull]
    | torn => simp [mlogSteps, ih, Log.isFull]
    | full i o n =>
      simp only [mlogSteps, mrun_append, ih]
      have hl : ((d.run ((processLog fixed fs i o n ++ [Step.removeLog]).map fun x => (m, x))).logs) = dropLog d.logs m := by
        rw [List.map_append, mrun_append]
        have hfile : ∀ (l : List (Step α)) (d : MDisk α), (∀ x ∈ l, ∃ o n, x.ent? = some (o, n)) →
            (d.run (l.map fun x => (m, x))).logs = d.logs := by
          intro l
          induction l with
          | nil => intro d _; rfl
          | cons x l ihl =>
            intro d h
            obtain ⟨o', n', he⟩ := h x (by simp)
            rw [List.map_cons, mrun_cons, ihl _ (fun y hy => h y (by simp [hy])), logs_exec_filestep d m x o' n' he]
        have := hfile (processLog fixed fs i o n) d (fun x hx => by
          obtain ⟨y, _, he⟩ := processLog_ents fixed fs i o n x hx
          exact ⟨_, y, he⟩)
        simp only [List.map_cons, List.map_nil, mrun_cons, mrun_nil, MDisk.exec, this]
      rw [hl]
      unfold dropLog
      simp only [List.mem_filter, List.mem_cons, Log.isFull, forall_eq_or_imp, decide_eq_true_eq, forall_const]
      constructor
      · rintro ⟨⟨h1, h2⟩, h3⟩; exact ⟨h1, fun hc => h2 hc.symm, h3⟩
      · rintro ⟨h1, h2, h3⟩; exact ⟨⟨h1, fun hc => h2 hc.symm⟩, h3⟩

theorem logs_run_mloader (F : List (Ent α)) (d : MDisk α) : (d.run (mloaderSteps F)).logs = d.logs := by
  unfold mloaderSteps
  generalize F.filter (·.tmp) = l
  induction l generalizing d with
  | nil => rfl
  | cons e l ih => rw [List.map_cons, mrun_cons, ih]; rfl

/-- after a complete pass (dirty logs skipped) no complete log is left. -/
theorem noFullLog_mrecover1 (fixed : Bool) (d : MDisk α) : (d.run (mrecover1 true fixed d)).noFullLog := by
  unfold mrecover1
  simp only
  rw [mrun_append]
  intro p hp
  rw [logs_run_mloader, logs_mlogSteps] at hp
  cases hf : p.2.isFull with
  | false => rfl
  | true => exact absurd rfl (hp.2 p hp.1 hf)

end OG.C03
