/-
C03 — the per-column statistics ("pre-aggregation" record: count, sum, min, max) a streaming
compaction stores for the chunk it writes (engine/immutable/stream_compact.go
StreamIterators.compact → compactColumn(…, needCalPreAgg, …) → merge{Integer,Float,String,
Boolean}PreAgg).

The decision "recompute the record from the rows, or merge the records of the input chunks" is
taken twice, from the number of segments `n` of the series summed over the input files and the
segment limit `L` of a chunk:
  * the caller passes `needCalPreAgg := callerCond n L` to compactColumn, which fills the
    column builder's record from the rows it writes only when the flag is set (the builder's
    record is reset before, so it is the EMPTY record otherwise);
  * merge*PreAgg stores the builder's record when `calleeCond n L` holds, else the merge of the
    input records.
Both conditions are regenerated from the source (`OG.Gen.C03.preaggCond_*`); they have to be
the same comparison: where the callee's holds and the caller's does not, the empty record is
stored although every row is there (seeded change C03-3: `>=` in mergeIntegerPreAgg, `>` in
the caller, hit at `n = L`).
Core-only.
-/
import OG.Generated.C03

namespace OG.C03

/-- a statistics record over integer values (`none`: no value yet). -/
structure Stats where
  count : Nat
  sum : Int
  min : Option Int
  max : Option Int
deriving DecidableEq, Repr

def Stats.empty : Stats := ⟨0, 0, none, none⟩

def optMin : Option Int → Option Int → Option Int
  | none, b => b
  | a, none => a
  | some a, some b => some (if a ≤ b then a else b)

def optMax : Option Int → Option Int → Option Int
  | none, b => b
  | a, none => a
  | some a, some b => some (if a ≤ b then b else a)

/-- `PreAggBuilder.merge`. -/
def Stats.merge (a b : Stats) : Stats := ⟨a.count + b.count, a.sum + b.sum, optMin a.min b.min, optMax a.max b.max⟩

/-- `PreAggBuilder.addValues` over the values of a column. -/
def statsOf (vs : List Int) : Stats := vs.foldl (fun s v => s.merge ⟨1, v, some v, some v⟩) Stats.empty

/-- a regenerated condition as a comparison of the segment count with the limit. -/
def condOf (src : String) : Nat → Nat → Bool :=
  if src == "c.chunkSegments > c.Conf.maxSegmentLimit" then fun n l => decide (n > l)
  else if src == "c.chunkSegments >= c.Conf.maxSegmentLimit" then fun n l => decide (n ≥ l)
  else fun _ _ => false

/-- the record a streaming compaction stores for a column of the chunk it writes from the input
chunks `inputs` (their values; their stored records are `statsOf` of them: what the audit checks
of every file), with `n` segments over the inputs and the limit `l`. -/
def storedStats (callerCond calleeCond : Nat → Nat → Bool) (n l : Nat) (inputs : List (List Int)) : Stats :=
  let builder := if callerCond n l then statsOf inputs.flatten else Stats.empty
  if calleeCond n l then builder
  else (inputs.map statsOf).foldl Stats.merge Stats.empty

def callerNow : Nat → Nat → Bool := condOf OG.Gen.C03.preaggCond_caller
def calleeNow (kind : String) : Nat → Nat → Bool :=
  condOf (if kind == "integer" then OG.Gen.C03.preaggCond_integer
    else if kind == "float" then OG.Gen.C03.preaggCond_float
    else if kind == "string" then OG.Gen.C03.preaggCond_string
    else OG.Gen.C03.preaggCond_boolean)

end OG.C03
