/-
C03 — the level-compaction planner (engine/immutable/mms_tables.go mmsPlan / genCompactPlan /
genCompactGroup), transcribed.

The ordered files of a measurement are kept sorted by (sequence, extent) (`TSSPFiles.Less`).
mmsPlan walks that list once for a level `L` with a dictionary `seqMap` (sequence → file, in
insertion order):

    file of another level            → plan what the dictionary holds (if it holds at least
                                       `minN` files), empty it
    file of level L, new sequence    → plan what the dictionary holds (if ≥ minN), then add it
    file of level L, sequence that   → the file is a further part of a split output whose first
      is already in the dictionary     part is in the dictionary: skip every following file of
                                       that (level, sequence) and EMPTY the dictionary without
                                       planning (the files gathered so far are left alone)
    end of the list                  → plan what the dictionary holds (if ≥ minN)

A plan is the dictionary's content in insertion order.  (Files that are not loaded
(`splitByUnloadFile`), files taken by another compaction (`busy`) and the parquet hand-over are
not modelled: they only suppress plans.)

The walk is written with structural recursion: `skip = some s` stands for the inner loop that
steps over the remaining parts of sequence `s`.
Core-only, executable.
-/
namespace OG.C03

/-- an ordered data file as the planner sees it. -/
structure PF where
  level : Nat
  seq : Nat
  ext : Nat
deriving DecidableEq, Repr

/-- `genCompactPlan`: the dictionary becomes a plan when it holds at least `minN` files. -/
def flushPlan (minN : Nat) (cur : List PF) : List (List PF) :=
  if minN ≤ cur.length then [cur] else []

/-- what is left in the dictionary after `genCompactPlan`. -/
def afterFlush (minN : Nat) (cur : List PF) : List PF :=
  if minN ≤ cur.length then [] else cur

def planWalk (level minN : Nat) : List PF → List PF → Option Nat → List (List PF)
  | [], cur, _ => flushPlan minN cur
  | f :: rest, cur, skip =>
    if skip = some f.seq ∧ f.level = level then
      planWalk level minN rest cur skip                      -- a further part of the skipped sequence
    else if f.level ≠ level then
      flushPlan minN cur ++ planWalk level minN rest [] none
    else if (cur.map (·.seq)).contains f.seq then
      planWalk level minN rest [] (some f.seq)               -- dictionary emptied, nothing planned
    else
      flushPlan minN cur ++ planWalk level minN rest (afterFlush minN cur ++ [f]) none

/-- `mmsPlan` (called by getMmsPlan only when the measurement has at least `minN` files). -/
def mmsPlan (level minN : Nat) (files : List PF) : List (List PF) :=
  if files.length < minN then [] else planWalk level minN files [] none

/-- `TSSPFiles.Less`: by sequence, then by extent. -/
def pfLess (a b : PF) : Bool := a.seq < b.seq || (a.seq == b.seq && a.ext < b.ext)

def sortedPF : List PF → Bool
  | [] => true
  | [_] => true
  | a :: b :: rest => pfLess a b && sortedPF (b :: rest)

/-- the name `compact` gives its output: the sequence of the first file of the group, the next
level, extent counted from 0 (`NewTSSPFileName(seq, level, 0, 0, …)`, further parts `ext+1`). -/
def planOutput (g : List PF) (parts : Nat) : List PF :=
  match g with
  | [] => []
  | f :: _ => (List.range parts).map fun i => ⟨f.level + 1, f.seq, i⟩

end OG.C03
