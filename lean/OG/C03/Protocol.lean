/-
C03 — the reorganisation itself: after every prefix of its step list the disk is in one of the
phases (`Pre` before the log is complete, `Committed` from then on).
-/
import OG.C03.Recover

namespace OG.C03

variable {α : Type} [DecidableEq α]

omit [DecidableEq α] in
/-- `ReplaceFiles` with its phases in the regenerated order: write the log, rename the new
files, delete the old files, remove the log. (This is where the regenerated call sequence
enters the proofs: a reordered protocol does not satisfy this equation.) -/
theorem replaceSteps_eq (isOrd : Bool) (olds news : List α) (inUse : α → Bool) :
    replaceSteps isOrd olds news inUse =
      [.createLog, .writeLog isOrd olds news] ++ (news.map (.promote (!isOrd))
        ++ (olds.map (deleteStep inUse (!isOrd)) ++ [.removeLog])) := by
  simp [replaceSteps, OG.Gen.C03.calls_ReplaceFiles, phaseSteps]

namespace Setup
variable (S : Setup α)

theorem creates_pre (l : List α) : ∀ (d : Disk α), S.Pre d →
    S.Pre (d.run (l.map fun n => .create ⟨S.dir, n, true⟩)) ∧
    (∀ n ∈ l, (⟨S.dir, n, true⟩ : Ent α) ∈ (d.run (l.map fun n => .create ⟨S.dir, n, true⟩)).files) ∧
    (∀ x ∈ d.files, x ∈ (d.run (l.map fun n => .create ⟨S.dir, n, true⟩)).files) := by
  induction l with
  | nil => intro d h; exact ⟨h, by simp, fun _ h => h⟩
  | cons n l ih =>
    intro d h
    obtain ⟨i1, i2, i3⟩ := ih _ (S.pre_create d ⟨S.dir, n, true⟩ rfl h)
    simp only [List.map_cons, run_cons]
    refine ⟨i1, ?_, fun x hx => i3 x ((mem_create d _ x).2 (Or.inr hx))⟩
    intro m hm
    simp only [List.mem_cons] at hm
    rcases hm with rfl | hm
    · exact i3 _ ((mem_create d _ _).2 (Or.inl rfl))
    · exact i2 m hm

/-- the complete log is written once every new file exists under its `.init` name. -/
theorem pre_writeLog (d : Disk α) (h : S.Pre d)
    (hc : ∀ n ∈ S.news, (⟨S.dir, n, true⟩ : Ent α) ∈ d.files) :
    S.Mid (d.exec (.writeLog S.isOrd S.olds S.news)) :=
  ⟨rfl, fun n hn => Or.inr (hc n hn), fun e he _ _ => h.2 e he⟩

theorem postG_delete (inUse : α → Bool) (g : List α) (d : Disk α) (u : α) (h : S.PostG g d) :
    S.PostG (g ++ [u]) (d.exec (deleteStep inUse true u)) := by
  have key : ∀ e : Ent α, e.tmp = false →
      (e ∈ (d.exec (deleteStep inUse true u)).files ↔ e ∈ d.files ∧ e ≠ ⟨true, u, false⟩) := by
    intro e he
    unfold deleteStep
    split
    · rw [mem_hide]
      split
      · constructor
        · rintro (rfl | hx)
          · simp at he
          · exact hx
        · exact fun hx => Or.inr hx
      · rename_i hn
        constructor
        · intro hx; exact ⟨hx, by intro hc; subst hc; exact hn hx⟩
        · exact fun hx => hx.1
    · rw [mem_remove]
  refine ⟨by unfold deleteStep; split <;> simp [h.1], ?_⟩
  intro e he
  rw [key e he, h.2 e he]
  unfold newSet
  have : e ≠ ⟨true, u, false⟩ ↔ ¬ (e.ooo = true ∧ e.name = u) := by
    cases e; simp_all
  rw [this]
  simp only [List.mem_append, List.mem_singleton]
  constructor
  · rintro ⟨⟨h1, h2⟩, h3⟩
    exact ⟨h1, fun ⟨ho, hm⟩ => hm.elim (fun hm => h2 ⟨ho, hm⟩) (fun hm => h3 ⟨ho, hm⟩)⟩
  · rintro ⟨h1, h2⟩
    exact ⟨⟨h1, fun ⟨ho, hm⟩ => h2 ⟨ho, Or.inl hm⟩⟩, fun ⟨ho, hm⟩ => h2 ⟨ho, Or.inr hm⟩⟩

theorem postG_deletes (inUse : α → Bool) (l : List α) : ∀ (g : List α) (d : Disk α), S.PostG g d →
    S.PostG (g ++ l) (d.run (l.map (deleteStep inUse true))) := by
  induction l with
  | nil => intro g d h; simpa using h
  | cons u l ih =>
    intro g d h
    have := ih (g ++ [u]) _ (S.postG_delete inUse g d u h)
    simpa using this

/-- **every prefix of a reorganisation leaves a disk of one of the phases**, and which one is
decided by whether the log write completed (step `|news| + 2`). -/
theorem protocol_prefix (hv : S.Valid) (us : List α) (inUse : α → Bool) (k : Nat) :
    let d := (⟨S.D0, .none⟩ : Disk α).run ((reorgSteps S.isOrd S.olds S.news us inUse).take k)
    (k < S.news.length + 2 ∧ S.Pre d) ∨
    (S.news.length + 2 ≤ k ∧ ∃ j, S.Committed (us.take j) d) := by
  intro d
  have hpre0 : S.Pre (⟨S.D0, .none⟩ : Disk α) := ⟨Or.inl rfl, fun _ _ => Iff.rfl⟩
  -- the step list, regrouped
  let B : List (Step α) := S.news.map fun n => .create ⟨S.dir, n, true⟩
  let M : List (Step α) := S.news.map (.promote S.dir) ++ S.olds.map (deleteStep inUse S.dir)
  let U : List (Step α) := us.map (deleteStep inUse true)
  have hsteps : reorgSteps S.isOrd S.olds S.news us inUse =
      B ++ ([.createLog] ++ ([.writeLog S.isOrd S.olds S.news] ++ (M ++ ([.removeLog] ++ U)))) := by
    simp [reorgSteps, buildSteps, replaceSteps_eq, deleteUnorderedSteps, B, M, U, Setup.dir]
  have hB : B.length = S.news.length := by simp [B]
  obtain ⟨preB, created, _⟩ := S.creates_pre S.news _ hpre0
  have stepB : ∀ (d' : Disk α) (s : Step α), s ∈ B → S.Pre d' → S.Pre (d'.exec s) := by
    intro d' s hs hp
    simp only [B, List.mem_map] at hs
    obtain ⟨n, _, rfl⟩ := hs
    exact S.pre_create d' _ rfl hp
  have stepM : ∀ (d' : Disk α) (s : Step α), s ∈ M → S.Mid d' → S.Mid (d'.exec s) := by
    intro d' s hs hm
    simp only [M, List.mem_append, List.mem_map] at hs
    rcases hs with ⟨n, hn, rfl⟩ | ⟨o, ho, rfl⟩
    · exact S.mid_promote hv d' n hn hm
    · exact S.mid_delete hv inUse d' o ho hm
  show (k < S.news.length + 2 ∧ S.Pre d) ∨ _
  have hd : d = (⟨S.D0, .none⟩ : Disk α).run ((B ++ ([Step.createLog] ++ ([Step.writeLog S.isOrd S.olds S.news] ++ (M ++ ([Step.removeLog] ++ U))))).take k) := by
    simp only [d, hsteps]
  rw [hd]
  rcases run_take_append (⟨S.D0, .none⟩ : Disk α) B _ k with ⟨hk, e⟩ | ⟨hk, e⟩
  · rw [e]; left
    exact ⟨by omega, run_take_inv S.Pre B stepB k _ hpre0⟩
  rw [e]
  -- all new files are there under their `.init` names
  let dB := (⟨S.D0, .none⟩ : Disk α).run B
  have hdB : S.Pre dB := preB
  rcases run_take_append dB [.createLog] _ (k - B.length) with ⟨hk1, e1⟩ | ⟨hk1, e1⟩
  · rw [e1]; left
    refine ⟨by simp at hk1; omega, ?_⟩
    apply run_take_inv S.Pre [.createLog] _ _ _ hdB
    intro d' s hs hp
    simp only [List.mem_singleton] at hs; subst hs
    exact S.pre_createLog d' hp
  rw [e1]
  let dC := dB.run [.createLog]
  have hdC : S.Pre dC := S.pre_createLog dB hdB
  have hcC : ∀ n ∈ S.news, (⟨S.dir, n, true⟩ : Ent α) ∈ dC.files := by
    intro n hn; exact created n hn
  simp only [List.length_singleton] at hk1 ⊢
  rcases run_take_append dC [.writeLog S.isOrd S.olds S.news] _ (k - B.length - 1) with ⟨hk2, e2⟩ | ⟨hk2, e2⟩
  · simp only [List.length_singleton] at hk2
    have h01 : k - B.length - 1 = 0 ∨ k - B.length - 1 = 1 := by omega
    rcases h01 with h0 | h0
    · rw [e2, h0]; left
      exact ⟨by omega, by simpa using hdC⟩
    · rw [e2, h0]; right
      refine ⟨by omega, 0, Or.inl ⟨by simp, ?_⟩⟩
      simpa using S.pre_writeLog dC hdC hcC
  rw [e2]
  simp only [List.length_singleton] at hk2 ⊢
  let dW := dC.run [.writeLog S.isOrd S.olds S.news]
  have hdW : S.Mid dW := S.pre_writeLog dC hdC hcC
  right
  refine ⟨by omega, ?_⟩
  rcases run_take_append dW M _ (k - B.length - 1 - 1) with ⟨_, e3⟩ | ⟨_, e3⟩
  · rw [e3]
    exact ⟨0, Or.inl ⟨by simp, run_take_inv S.Mid M stepM _ _ hdW⟩⟩
  rw [e3]
  -- the whole of M: every new file final, no old file left
  let dM := dW.run M
  have hMfull : S.Mid dM ∧ S.newsFinal S.news dM ∧ S.oldsGone S.olds dM := by
    obtain ⟨m1, _, fin1⟩ := S.promotes_all hv S.news (fun _ h => h) dW hdW
    obtain ⟨m2, keepN, _, gone2⟩ := S.deletes_all hv inUse S.olds (fun _ h => h) _ m1
    have : dM = (dW.run (S.news.map (.promote S.dir))).run (S.olds.map (deleteStep inUse S.dir)) := by
      simp only [dM, M, run_append]
    rw [this]
    exact ⟨m2, keepN S.news (fun _ h => h) fin1, gone2⟩
  rcases run_take_append dM [.removeLog] U (k - B.length - 1 - 1 - M.length) with ⟨hk4, e4⟩ | ⟨_, e4⟩
  · simp only [List.length_singleton] at hk4
    have h01 : k - B.length - 1 - 1 - M.length = 0 ∨ k - B.length - 1 - 1 - M.length = 1 := by omega
    rcases h01 with h0 | h0
    · rw [e4, h0]
      exact ⟨0, Or.inl ⟨by simp, by simpa using hMfull.1⟩⟩
    · rw [e4, h0]
      refine ⟨0, Or.inr ?_⟩
      simpa using S.mid_removeLog dM hMfull.1 hMfull.2.1 hMfull.2.2
  rw [e4]
  simp only [List.length_singleton]
  have hP : S.PostG [] (dM.run [.removeLog]) := S.mid_removeLog dM hMfull.1 hMfull.2.1 hMfull.2.2
  let j := k - B.length - 1 - 1 - M.length - 1
  refine ⟨j, Or.inr ?_⟩
  have hU : U.take (k - B.length - 1 - 1 - M.length - 1) = (us.take j).map (deleteStep inUse true) := by
    simp only [U, j, List.map_take]
  rw [hU]
  simpa using S.postG_deletes inUse (us.take j) [] _ hP

end Setup

end OG.C03
