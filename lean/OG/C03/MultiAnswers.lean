/-
C03 — several reorganisations in flight: no answer changes.

For a reorganisation `r` of the family and a precedence list made of `r`'s files and of files
that no reorganisation of the family touches (a measurement in which `r` is the only one in
flight, while any number of others run in other measurements): every key reads, after the crash
and any start-up, what it read before.  (Two reorganisations in flight in the *same* precedence
list — a compaction of the ordered files next to a self-merge of the out-of-order files of one
measurement — is covered for the file sets by `multi_recovery_atomic`, for the contents only by
the crash images.)
-/
import OG.C03.MultiProps

namespace OG.C03
open OG.C02

variable {α : Type} [DecidableEq α]

theorem cellsOf_congr (prec : List (Bool × α)) (content : Bool × α → List Cell) (d1 d2 : Disk α)
    (h : ∀ p ∈ prec, ((⟨p.1, p.2, false⟩ : Ent α) ∈ d1.files ↔ (⟨p.1, p.2, false⟩ : Ent α) ∈ d2.files)) :
    cellsOf prec content d1 = cellsOf prec content d2 := by
  unfold cellsOf
  congr 1
  apply List.filter_congr
  intro p hp
  simp only [h p hp]

/-- the region of the theorem: the files of `r` and the other files of the precedence list. -/
def ansRegion (r : MReorg α) (rest : List (Bool × α)) (o : Bool) (n : α) : Bool :=
  r.foot o n || rest.contains (o, n)

/-- **T7 (no answer changes, several reorganisations in flight).** -/
theorem multi_answers_unchanged (D0 : List (Ent α)) (rs : List (MReorg α)) (hf : Family D0 rs)
    (r : MReorg α) (hr : r ∈ rs) (content : Bool × α → List Cell)
    (PX PZ PN PG PB : List (Bool × α)) (hb : Blocks (r.setup D0) r.us PX PZ PN PG PB)
    (huntouched : ∀ p ∈ PX ++ PZ ++ PB, ∀ r' ∈ rs, r'.foot p.1 p.2 = false)
    (hN : Equiv (PN.flatMap content) ((blockU r.us).flatMap content ++ PG.flatMap content))
    (hdis : KeysDisjoint ((blockU r.us).flatMap content) (PZ.flatMap content))
    (l : List (Nat × Step α)) (hl : Interleaving rs l) (ks : List Nat) :
    Equiv (cellsOf (precOf r.us PX PZ PN PG PB) content
        ⟨(mrecoverWithCrashes contNow fixedNow ((⟨D0, []⟩ : MDisk α).run l) ks).files, .none⟩)
      (cellsOf (precOf r.us PX PZ PN PG PB) content ⟨D0, .none⟩) := by
  obtain ⟨_, _, hout, hrest⟩ := multi_recovery_atomic D0 rs hf l hl ks
  generalize mrecoverWithCrashes contNow fixedNow ((⟨D0, []⟩ : MDisk α).run l) ks = d' at hout hrest
  let rest := PX ++ PZ ++ PB
  let R := ansRegion r rest
  let S' : Setup α := ⟨D0.filter (inR R), r.isOrd, r.olds, r.news⟩
  have hv := hf.valid r hr
  have hRfoot : ∀ o n, r.foot o n = true → R o n = true := by
    intro o n h; simp [R, ansRegion, h]
  have hRrest : ∀ p ∈ rest, R p.1 p.2 = true := by
    intro p hp
    simp only [R, ansRegion, Bool.or_eq_true, List.contains_iff_mem]
    exact Or.inr hp
  have hv' : S'.Valid := by
    refine ⟨fun e he => hv.clean e (List.mem_filter.1 he).1, ?_, fun n hn hc => hv.newsFresh n hn (List.mem_filter.1 hc).1⟩
    intro o ho
    have ho' : o ∈ r.olds := ho
    apply List.mem_filter.2
    refine ⟨hv.oldsIn o ho, hRfoot _ _ ?_⟩
    simp [MReorg.foot, S', Setup.dir, ho']
  -- the blocks, over the restricted file set
  have hb' : Blocks S' r.us PX PZ PN PG PB := by
    refine ⟨hb.nodup, ?_, hb.usNotOld, hb.pn, hb.pg, ?_⟩
    · intro u hu
      apply List.mem_filter.2
      exact ⟨hb.usIn u hu, hRfoot _ _ (by simp [MReorg.foot, hu])⟩
    · intro p hp
      obtain ⟨h1, h2, h3⟩ := hb.rest p hp
      exact ⟨List.mem_filter.2 ⟨h1, hRrest p hp⟩, h2, h3⟩
  -- every entry of the precedence list is in the region
  have hprec : ∀ p ∈ precOf r.us PX PZ PN PG PB, R p.1 p.2 = true := by
    intro p hp
    simp only [precOf, List.mem_append] at hp
    rcases hp with ((((hp | hp) | hp) | hp) | hp) | hp
    · exact hRrest p (by simp [rest, hp])
    · simp only [blockU, List.mem_map, List.mem_reverse] at hp
      obtain ⟨u, hu, rfl⟩ := hp
      exact hRfoot _ _ (by simp [MReorg.foot, hu])
    · exact hRrest p (by simp [rest, hp])
    · obtain ⟨h1, h2⟩ := hb.pn p hp
      have h1' : p.1 = !r.isOrd := h1
      have h2' : p.2 ∈ r.news := h2
      exact hRfoot _ _ (by simp [MReorg.foot, h1', h2'])
    · obtain ⟨h1, h2⟩ := hb.pg p hp
      have h1' : p.1 = !r.isOrd := h1
      have h2' : p.2 ∈ r.olds := h2
      exact hRfoot _ _ (by simp [MReorg.foot, h1', h2'])
    · exact hRrest p (by simp [rest, hp])
  let dR : Disk α := ⟨d'.files.filter (inR R), .none⟩
  have e1 : cellsOf (precOf r.us PX PZ PN PG PB) content ⟨d'.files, .none⟩
      = cellsOf (precOf r.us PX PZ PN PG PB) content dR := by
    apply cellsOf_congr
    intro p hp
    show _ ↔ _ ∈ d'.files.filter (inR R)
    simp [List.mem_filter, inR, hprec p hp]
  have e2 : cellsOf (precOf r.us PX PZ PN PG PB) content ⟨D0, .none⟩
      = cellsOf (precOf r.us PX PZ PN PG PB) content ⟨S'.D0, .none⟩ := by
    apply cellsOf_congr
    intro p hp
    show _ ↔ _ ∈ D0.filter (inR R)
    simp [List.mem_filter, inR, hprec p hp]
  rw [e1, e2, cells_old S' hv' content r.us PX PZ PN PG PB hb' ⟨S'.D0, .none⟩ (fun _ => Iff.rfl)]
  -- an entry of the region outside r's files is untouched by everybody
  have hunt : ∀ e : Ent α, R e.ooo e.name = true → r.foot e.ooo e.name = false → (e ∈ d'.files ↔ e ∈ D0) := by
    intro e hR hfoot
    apply hrest e
    have hmem : (e.ooo, e.name) ∈ rest := by
      simp only [R, ansRegion, hfoot, Bool.false_or, List.contains_iff_mem] at hR
      exact hR
    intro r' hr'
    exact huntouched (e.ooo, e.name) hmem r' hr'
  rcases hout r hr with ⟨_, hold⟩ | ⟨_, j, hnew⟩
  · have hd : ∀ e : Ent α, e ∈ dR.files ↔ e ∈ S'.D0 := by
      intro e
      show e ∈ d'.files.filter (inR R) ↔ e ∈ D0.filter (inR R)
      simp only [List.mem_filter, inR]
      constructor
      · rintro ⟨h1, h2⟩
        refine ⟨?_, h2⟩
        cases hfo : r.foot e.ooo e.name with
        | true => exact (hold e hfo).1 h1
        | false => exact (hunt e h2 hfo).1 h1
      · rintro ⟨h1, h2⟩
        refine ⟨?_, h2⟩
        cases hfo : r.foot e.ooo e.name with
        | true => exact (hold e hfo).2 h1
        | false => exact (hunt e h2 hfo).2 h1
    rw [cells_old S' hv' content r.us PX PZ PN PG PB hb' dR hd]
    exact Equiv.refl _
  · have hd : ∀ e : Ent α, e ∈ dR.files ↔ (e.tmp = false ∧ S'.newSet (r.us.take j) e) := by
      intro e
      show e ∈ d'.files.filter (inR R) ↔ _
      simp only [List.mem_filter, inR]
      cases hfo : r.foot e.ooo e.name with
      | true =>
        have hR := hRfoot _ _ hfo
        rw [hnew e hfo]
        have : S'.newSet (r.us.take j) e ↔ (r.setup D0).newSet (r.us.take j) e := by
          unfold Setup.newSet Setup.isOld Setup.isNew Setup.dir
          simp [S', MReorg.setup, List.mem_filter, inR, hR]
        rw [this]
        simp [hR]
      | false =>
        have hnotOld : ¬ S'.isOld e := by
          rintro ⟨h1, h2⟩
          have h1' : e.ooo = !r.isOrd := h1
          have h2' : e.name ∈ r.olds := h2
          simp [MReorg.foot, h1', h2'] at hfo
        have hnotNew : ¬ S'.isNew e := by
          rintro ⟨h1, h2⟩
          have h1' : e.ooo = !r.isOrd := h1
          have h2' : e.name ∈ r.news := h2
          simp [MReorg.foot, h1', h2'] at hfo
        have hnotUs : ¬ (e.ooo = true ∧ e.name ∈ r.us.take j) := by
          rintro ⟨h1, h2⟩
          have := List.mem_of_mem_take h2
          simp [MReorg.foot, h1, this] at hfo
        constructor
        · rintro ⟨h1, h2⟩
          have hin := (hunt e h2 hfo).1 h1
          exact ⟨hf.clean e hin, Or.inl ⟨List.mem_filter.2 ⟨hin, h2⟩, hnotOld⟩, hnotUs⟩
        · rintro ⟨_, h2, _⟩
          rcases h2 with ⟨h2, _⟩ | h2
          · have := List.mem_filter.1 h2
            exact ⟨(hunt e this.2 hfo).2 this.1, this.2⟩
          · exact absurd h2 hnotNew
    rw [cells_new S' hv' content r.us PX PZ PN PG PB hb' j dR hd]
    have hpre : (blockU (r.us.drop j)).flatMap content <+: (blockU r.us).flatMap content := by
      apply flatMap_prefix
      refine ⟨blockU (r.us.take j), ?_⟩
      unfold blockU
      rw [← List.map_append, ← List.reverse_append, List.take_append_drop]
    have := layout_equiv (PX.flatMap content) _ _ (PZ.flatMap content) (PN.flatMap content)
      (PG.flatMap content) (PB.flatMap content) hN hpre hdis
    simpa using this

/-- the same for whole reads. -/
theorem multi_reads_unchanged (D0 : List (Ent α)) (rs : List (MReorg α)) (hf : Family D0 rs)
    (r : MReorg α) (hr : r ∈ rs) (content : Bool × α → List Cell)
    (PX PZ PN PG PB : List (Bool × α)) (hb : Blocks (r.setup D0) r.us PX PZ PN PG PB)
    (huntouched : ∀ p ∈ PX ++ PZ ++ PB, ∀ r' ∈ rs, r'.foot p.1 p.2 = false)
    (hN : Equiv (PN.flatMap content) ((blockU r.us).flatMap content ++ PG.flatMap content))
    (hdis : KeysDisjoint ((blockU r.us).flatMap content) (PZ.flatMap content))
    (l : List (Nat × Step α)) (hl : Interleaving rs l) (ks : List Nat)
    (lo hi : Int) (asc : Bool) (fields : List String) :
    readCells (cellsOf (precOf r.us PX PZ PN PG PB) content
        ⟨(mrecoverWithCrashes contNow fixedNow ((⟨D0, []⟩ : MDisk α).run l) ks).files, .none⟩) lo hi asc fields
      = readCells (cellsOf (precOf r.us PX PZ PN PG PB) content ⟨D0, .none⟩) lo hi asc fields :=
  readCells_congr (multi_answers_unchanged D0 rs hf r hr content PX PZ PN PG PB hb huntouched hN hdis l hl ks)
    lo hi asc fields

end OG.C03
