/-
C03 — `bounded_read_eq_filter` for the writers as they are in the source now.
-/
import OG.C03.MetaNow
import OG.C03.MetaProps

namespace OG.C03

/-- every writer widens the block range by comparisons of its own. -/
theorem writers_own : updNow "stream" = .own ∧ updNow "builder" = .own ∧ updNow "merge" = .own := by
  refine ⟨by rfl, by rfl, by rfl⟩

/-- **T14 for the code as it is**: a file written by any of the writers answers every read of
(series, time range) with exactly the rows of the series in the range. -/
theorem bounded_read_now (w : String) (hw : w = "stream" ∨ w = "builder" ∨ w = "merge")
    (limit : Nat) (ds : List DChunk) (mOf : DChunk → MChunk)
    (hf : ∀ d ∈ ds, Faithful d (mOf d))
    (hs : ds.Pairwise (fun a b => a.sid < b.sid)) (d : DChunk) (hd : d ∈ ds) (lo hi : Int) :
    prunedRead (writeMeta (updNow w) limit (ds.map mOf)).1 (writeMeta (updNow w) limit (ds.map mOf)).2 ds d.sid lo hi
      = rowsIn d lo hi := by
  have : updNow w = .own := by
    rcases hw with rfl | rfl | rfl
    · exact writers_own.1
    · exact writers_own.2.1
    · exact writers_own.2.2
  rw [this]
  exact bounded_read_eq_filter limit ds mOf hf hs d hd lo hi

end OG.C03
