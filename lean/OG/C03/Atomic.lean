/-
C03 — the invariants of the replace protocol and of the start-up pass, and the proof that
every crash, followed by any number of interrupted start-up passes and one complete pass,
ends in exactly the old or exactly the new file set.

Three phases describe every disk the protocol or the recovery can produce
(`D0` = the data files before, `dir` = the directory the replacement works in):
  `Pre`   the log is absent or dirty and the final-name entries are those of `D0`;
  `Mid`   the complete log is there, every new file exists under one of its two names and
          the final-name entries outside old ∪ new are those of `D0`;
  `PostG g` the log is gone, the final-name entries are `(D0 \ old) ∪ new` minus the merged
          out-of-order files `g` deleted so far.
`.init` entries never matter: the loader removes whatever it finds.
-/
import OG.C03.Lemmas

namespace OG.C03

variable {α : Type} [DecidableEq α]

/-- parameters of one reorganisation. -/
structure Setup (α : Type) where
  D0 : List (Ent α)
  isOrd : Bool
  olds : List α
  news : List α

namespace Setup
variable (S : Setup α)

def dir : Bool := !S.isOrd
def isOld (e : Ent α) : Prop := e.ooo = S.dir ∧ e.name ∈ S.olds
def isNew (e : Ent α) : Prop := e.ooo = S.dir ∧ e.name ∈ S.news

/-- what `ReplaceFiles` is given: the data files are all under final names, the old files are
among them, the new names are fresh. -/
structure Valid : Prop where
  clean : ∀ e ∈ S.D0, e.tmp = false
  oldsIn : ∀ o ∈ S.olds, (⟨S.dir, o, false⟩ : Ent α) ∈ S.D0
  newsFresh : ∀ n ∈ S.news, (⟨S.dir, n, false⟩ : Ent α) ∉ S.D0

def Pre (d : Disk α) : Prop :=
  (d.log = .none ∨ d.log = .torn) ∧ ∀ e : Ent α, e.tmp = false → (e ∈ d.files ↔ e ∈ S.D0)

def Mid (d : Disk α) : Prop :=
  d.log = .full S.isOrd S.olds S.news ∧
  (∀ n ∈ S.news, (⟨S.dir, n, false⟩ : Ent α) ∈ d.files ∨ (⟨S.dir, n, true⟩ : Ent α) ∈ d.files) ∧
  (∀ e : Ent α, e.tmp = false → ¬ S.isOld e → ¬ S.isNew e → (e ∈ d.files ↔ e ∈ S.D0))

/-- the file set after the replacement, with the merged out-of-order files `g` deleted. -/
def newSet (g : List α) (e : Ent α) : Prop :=
  ((e ∈ S.D0 ∧ ¬ S.isOld e) ∨ S.isNew e) ∧ ¬ (e.ooo = true ∧ e.name ∈ g)

def PostG (g : List α) (d : Disk α) : Prop :=
  d.log = .none ∧ ∀ e : Ent α, e.tmp = false → (e ∈ d.files ↔ S.newSet g e)

omit [DecidableEq α] in
theorem old_ne_new (hv : S.Valid) {o n : α} (ho : o ∈ S.olds) (hn : n ∈ S.news) : o ≠ n := by
  intro h; subst h
  exact hv.newsFresh _ hn (hv.oldsIn _ ho)

/-! ### steps that keep a phase -/

/-- removal of an `.init` entry keeps every phase (they only speak about final names). -/
theorem pre_removeTmp (d : Disk α) (e : Ent α) (he : e.tmp = true) (h : S.Pre d) :
    S.Pre (d.exec (.remove e)) := by
  refine ⟨by simpa using h.1, ?_⟩
  intro x hx
  rw [mem_remove, ← h.2 x hx]
  constructor
  · exact fun h => h.1
  · intro h; exact ⟨h, by intro hc; subst hc; simp [hx] at he⟩

theorem post_removeTmp (g : List α) (d : Disk α) (e : Ent α) (he : e.tmp = true) (h : S.PostG g d) :
    S.PostG g (d.exec (.remove e)) := by
  refine ⟨by simpa using h.1, ?_⟩
  intro x hx
  rw [mem_remove, ← h.2 x hx]
  constructor
  · exact fun h => h.1
  · intro h; exact ⟨h, by intro hc; subst hc; simp [hx] at he⟩

theorem pre_create (d : Disk α) (e : Ent α) (he : e.tmp = true) (h : S.Pre d) :
    S.Pre (d.exec (.create e)) := by
  refine ⟨by simpa using h.1, ?_⟩
  intro x hx
  rw [mem_create, ← h.2 x hx]
  constructor
  · rintro (rfl | h)
    · simp [hx] at he
    · exact h
  · exact fun h => Or.inr h

theorem pre_createLog (d : Disk α) (h : S.Pre d) : S.Pre (d.exec .createLog) :=
  ⟨Or.inr rfl, by simpa using h.2⟩

/-- promoting a new file keeps `Mid`. -/
theorem mid_promote (_hv : S.Valid) (d : Disk α) (n : α) (hn : n ∈ S.news) (h : S.Mid d) :
    S.Mid (d.exec (.promote S.dir n)) := by
  obtain ⟨hl, hnew, hrest⟩ := h
  refine ⟨by simpa using hl, ?_, ?_⟩
  · intro m hm
    rw [mem_promote, mem_promote]
    by_cases ht : (⟨S.dir, n, true⟩ : Ent α) ∈ d.files
    · simp only [ht, if_true]
      by_cases hmn : m = n
      · subst hmn; left; left; rfl
      · rcases hnew m hm with h1 | h1
        · left; right; exact ⟨h1, by simp⟩
        · right; right; exact ⟨h1, by simp [hmn]⟩
    · simp only [ht, if_false]; exact hnew m hm
  · intro e he hno hnn
    rw [mem_promote, ← hrest e he hno hnn]
    by_cases ht : (⟨S.dir, n, true⟩ : Ent α) ∈ d.files
    · simp only [ht, if_true]
      constructor
      · rintro (rfl | h)
        · exact absurd ⟨rfl, hn⟩ hnn
        · exact h.1
      · intro h; right; exact ⟨h, by intro hc; subst hc; simp at he⟩
    · simp [ht]

/-- removing or hiding an old file keeps `Mid`. -/
theorem mid_delete (hv : S.Valid) (inUse : α → Bool) (d : Disk α) (o : α) (ho : o ∈ S.olds) (h : S.Mid d) :
    S.Mid (d.exec (deleteStep inUse S.dir o)) := by
  obtain ⟨hl, hnew, hrest⟩ := h
  unfold deleteStep
  by_cases hu : inUse o = true
  · simp only [hu, if_true]
    refine ⟨by simpa using hl, ?_, ?_⟩
    · intro m hm
      have hne : o ≠ m := S.old_ne_new hv ho hm
      rw [mem_hide, mem_hide]
      by_cases ht : (⟨S.dir, o, false⟩ : Ent α) ∈ d.files
      · simp only [ht, if_true]
        rcases hnew m hm with h1 | h1
        · left; right; exact ⟨h1, by simp [Ne.symm hne]⟩
        · right; right; exact ⟨h1, by simp⟩
      · simp only [ht, if_false]; exact hnew m hm
    · intro e he hno hnn
      rw [mem_hide, ← hrest e he hno hnn]
      by_cases ht : (⟨S.dir, o, false⟩ : Ent α) ∈ d.files
      · simp only [ht, if_true]
        constructor
        · rintro (rfl | h)
          · simp at he
          · exact h.1
        · intro h; right; exact ⟨h, by intro hc; subst hc; exact hno ⟨rfl, ho⟩⟩
      · simp [ht]
  · have hu' : inUse o = false := by simpa using hu
    simp only [hu', Bool.false_eq_true, if_false]
    refine ⟨by simpa using hl, ?_, ?_⟩
    · intro m hm
      have hne : o ≠ m := S.old_ne_new hv ho hm
      rw [mem_remove, mem_remove]
      rcases hnew m hm with h1 | h1
      · left; exact ⟨h1, by simp [Ne.symm hne]⟩
      · right; exact ⟨h1, by simp⟩
    · intro e he hno hnn
      rw [mem_remove, ← hrest e he hno hnn]
      constructor
      · exact fun h => h.1
      · intro h; exact ⟨h, by intro hc; subst hc; exact hno ⟨rfl, ho⟩⟩

/-- the recovery's removal of an old file (by final name) keeps `Mid`. -/
theorem mid_removeOld (hv : S.Valid) (d : Disk α) (o : α) (ho : o ∈ S.olds) (h : S.Mid d) :
    S.Mid (d.exec (.remove ⟨S.dir, o, false⟩)) := by
  have := S.mid_delete hv (fun _ => false) d o ho h
  simpa [deleteStep] using this

/-! ### progress: after all promotions every new file is final, after all removals no old one is -/

def newsFinal (l : List α) (d : Disk α) : Prop := ∀ n ∈ l, (⟨S.dir, n, false⟩ : Ent α) ∈ d.files
def oldsGone (l : List α) (d : Disk α) : Prop := ∀ o ∈ l, (⟨S.dir, o, false⟩ : Ent α) ∉ d.files

theorem newsFinal_promote (d : Disk α) (l : List α) (n : α) (h : S.newsFinal l d) :
    S.newsFinal l (d.exec (.promote S.dir n)) := by
  intro m hm
  rw [mem_promote]
  split
  · right; exact ⟨h m hm, by simp⟩
  · exact h m hm

theorem newsFinal_delete (hv : S.Valid) (inUse : α → Bool) (d : Disk α) (l : List α) (hl : ∀ n ∈ l, n ∈ S.news)
    (o : α) (ho : o ∈ S.olds) (h : S.newsFinal l d) :
    S.newsFinal l (d.exec (deleteStep inUse S.dir o)) := by
  intro m hm
  have hne : o ≠ m := S.old_ne_new hv ho (hl m hm)
  unfold deleteStep
  split
  · rw [mem_hide]; split
    · right; exact ⟨h m hm, by simp [Ne.symm hne]⟩
    · exact h m hm
  · rw [mem_remove]; exact ⟨h m hm, by simp [Ne.symm hne]⟩

theorem oldsGone_delete (inUse : α → Bool) (d : Disk α) (l : List α) (o : α) (h : S.oldsGone l d) :
    S.oldsGone l (d.exec (deleteStep inUse S.dir o)) := by
  intro m hm
  unfold deleteStep
  split
  · rw [mem_hide]; split
    · rintro (hc | hc)
      · simp at hc
      · exact h m hm hc.1
    · exact h m hm
  · rw [mem_remove]; exact fun hc => h m hm hc.1

theorem gone_after_delete (inUse : α → Bool) (d : Disk α) (o : α) :
    (⟨S.dir, o, false⟩ : Ent α) ∉ (d.exec (deleteStep inUse S.dir o)).files := by
  unfold deleteStep
  split
  · rw [mem_hide]; split
    · rintro (hc | hc)
      · simp at hc
      · exact hc.2 rfl
    · assumption
  · rw [mem_remove]; exact fun hc => hc.2 rfl

/-- promoting the new files whose `.init` entry exists (all of them in the protocol, the
listed ones in the recovery) makes every new file final. -/
theorem promotes_all (hv : S.Valid) (l : List α) (hl : ∀ n ∈ l, n ∈ S.news) :
    ∀ (d : Disk α), S.Mid d → S.Mid (d.run (l.map (.promote S.dir))) ∧
      (∀ acc, S.newsFinal acc d → S.newsFinal acc (d.run (l.map (.promote S.dir)))) ∧
      (∀ n ∈ l, (⟨S.dir, n, false⟩ : Ent α) ∈ (d.run (l.map (.promote S.dir))).files) := by
  induction l with
  | nil => intro d h; exact ⟨h, fun _ h => h, by simp⟩
  | cons n l ih =>
    intro d h
    have hn : n ∈ S.news := hl n (by simp)
    have h1 := S.mid_promote hv d n hn h
    obtain ⟨i1, i2, i3⟩ := ih (fun m hm => hl m (by simp [hm])) _ h1
    simp only [List.map_cons, run_cons]
    refine ⟨i1, fun acc ha => i2 acc (S.newsFinal_promote d acc n ha), ?_⟩
    intro m hm
    simp only [List.mem_cons] at hm
    rcases hm with rfl | hm
    · -- `m` was present under one of its names; after its promotion it is final, and stays
      have : S.newsFinal [m] (d.exec (.promote S.dir m)) := by
        intro x hx
        simp only [List.mem_singleton] at hx; subst hx
        rw [mem_promote]
        by_cases ht : (⟨S.dir, x, true⟩ : Ent α) ∈ d.files
        · simp [ht]
        · simp only [ht, if_false]
          rcases h.2.1 x hn with h' | h'
          · exact h'
          · exact absurd h' ht
      exact i2 [m] this m (by simp)
    · exact i3 m hm

theorem deletes_all (hv : S.Valid) (inUse : α → Bool) (l : List α) (hl : ∀ o ∈ l, o ∈ S.olds) :
    ∀ (d : Disk α), S.Mid d → S.Mid (d.run (l.map (deleteStep inUse S.dir))) ∧
      (∀ acc, (∀ n ∈ acc, n ∈ S.news) → S.newsFinal acc d → S.newsFinal acc (d.run (l.map (deleteStep inUse S.dir)))) ∧
      (∀ acc, S.oldsGone acc d → S.oldsGone acc (d.run (l.map (deleteStep inUse S.dir)))) ∧
      S.oldsGone l (d.run (l.map (deleteStep inUse S.dir))) := by
  induction l with
  | nil => intro d h; exact ⟨h, fun _ _ h => h, fun _ h => h, by intro o ho; simp at ho⟩
  | cons o l ih =>
    intro d h
    have ho : o ∈ S.olds := hl o (by simp)
    have h1 := S.mid_delete hv inUse d o ho h
    obtain ⟨i1, i2, i3, i4⟩ := ih (fun m hm => hl m (by simp [hm])) _ h1
    simp only [List.map_cons, run_cons]
    refine ⟨i1, fun acc hacc ha => i2 acc hacc (S.newsFinal_delete hv inUse d acc hacc o ho ha),
      fun acc ha => i3 acc (S.oldsGone_delete inUse d acc o ha), ?_⟩
    intro m hm
    simp only [List.mem_cons] at hm
    rcases hm with rfl | hm
    · have : S.oldsGone [m] (d.exec (deleteStep inUse S.dir m)) := by
        intro x hx
        simp only [List.mem_singleton] at hx; subst hx
        exact S.gone_after_delete inUse d x
      exact i3 [m] this m (by simp)
    · exact i4 m hm

/-- the log is removed once every new file is final and no old one is: the new file set. -/
theorem mid_removeLog (d : Disk α) (h : S.Mid d) (hn : S.newsFinal S.news d) (ho : S.oldsGone S.olds d) :
    S.PostG [] (d.exec .removeLog) := by
  refine ⟨rfl, ?_⟩
  intro e he
  simp only [files_removeLog, newSet, List.not_mem_nil, and_false, not_false_eq_true, and_true]
  by_cases hnew : S.isNew e
  · have : e = ⟨S.dir, e.name, false⟩ := by
      cases e; simp_all [isNew]
    constructor
    · exact fun _ => Or.inr hnew
    · intro _; rw [this]; exact hn _ hnew.2
  · by_cases hold : S.isOld e
    · have : e = ⟨S.dir, e.name, false⟩ := by
        cases e; simp_all [isOld]
      constructor
      · intro hm; rw [this] at hm; exact absurd hm (ho _ hold.2)
      · rintro (⟨_, h2⟩ | h2)
        · exact absurd hold h2
        · exact absurd h2 hnew
    · rw [h.2.2 e he hold hnew]
      constructor
      · exact fun hm => Or.inl ⟨hm, hold⟩
      · rintro (⟨h1, _⟩ | h2)
        · exact h1
        · exact absurd h2 hnew

end Setup

end OG.C03
