/-
C03 — the start-up pass from each phase, interrupted passes, and the protocol's prefixes.
-/
import OG.C03.Atomic

namespace OG.C03

variable {α : Type} [DecidableEq α]

/-- a prefix of `l1 ++ l2` is a prefix of `l1`, or all of `l1` and a prefix of `l2`. -/
theorem run_take_append (d : Disk α) (l1 l2 : List (Step α)) (k : Nat) :
    (k ≤ l1.length ∧ d.run ((l1 ++ l2).take k) = d.run (l1.take k)) ∨
    (l1.length ≤ k ∧ d.run ((l1 ++ l2).take k) = (d.run l1).run (l2.take (k - l1.length))) := by
  rw [List.take_append]
  by_cases h : k ≤ l1.length
  · left
    refine ⟨h, ?_⟩
    have : k - l1.length = 0 := by omega
    simp [this]
  · right
    have h' : l1.length ≤ k := by omega
    refine ⟨h', ?_⟩
    rw [List.take_of_length_le h', run_append]

omit [DecidableEq α] in
theorem mem_loaderPhase (d : Disk α) (s : Step α) (h : s ∈ loaderPhase d) :
    ∃ e : Ent α, s = .remove e ∧ e.tmp = true := by
  unfold loaderPhase at h
  simp only [List.mem_map, List.mem_filter] at h
  obtain ⟨e, ⟨_, ht⟩, rfl⟩ := h
  exact ⟨e, rfl, ht⟩

namespace Setup
variable (S : Setup α)

/-- the replacement is decided: the complete log exists, or it has been carried out. -/
def Committed (g : List α) (d : Disk α) : Prop := (g = [] ∧ S.Mid d) ∨ S.PostG g d

/-! ### one pass from each phase -/

theorem logPhase_pre (fixed : Bool) (d : Disk α) (h : S.Pre d) : logPhase fixed d = [] := by
  unfold logPhase
  rcases h.1 with h | h <;> simp [h]

theorem logPhase_post (fixed : Bool) (g : List α) (d : Disk α) (h : S.PostG g d) : logPhase fixed d = [] := by
  unfold logPhase; simp [h.1]

theorem rec_pre (fixed : Bool) (d : Disk α) (h : S.Pre d) :
    (∀ k, S.Pre (d.run ((recover1 fixed d).take k))) ∧
    S.Pre (d.run (recover1 fixed d)) ∧ (d.run (recover1 fixed d)).noTmp := by
  have e : recover1 fixed d = loaderPhase d := by
    unfold recover1; simp [S.logPhase_pre fixed d h]
  rw [e]
  have step : ∀ (d' : Disk α) (s : Step α), s ∈ loaderPhase d → S.Pre d' → S.Pre (d'.exec s) := by
    intro d' s hs hp
    obtain ⟨x, rfl, hx⟩ := mem_loaderPhase d s hs
    exact S.pre_removeTmp d' x hx hp
  exact ⟨fun k => run_take_inv S.Pre _ step k d h, run_inv S.Pre _ step d h, noTmp_loader d⟩

theorem rec_post (fixed : Bool) (g : List α) (d : Disk α) (h : S.PostG g d) :
    (∀ k, S.PostG g (d.run ((recover1 fixed d).take k))) ∧
    S.PostG g (d.run (recover1 fixed d)) ∧ (d.run (recover1 fixed d)).noTmp := by
  have e : recover1 fixed d = loaderPhase d := by
    unfold recover1; simp [S.logPhase_post fixed g d h]
  rw [e]
  have step : ∀ (d' : Disk α) (s : Step α), s ∈ loaderPhase d → S.PostG g d' → S.PostG g (d'.exec s) := by
    intro d' s hs hp
    obtain ⟨x, rfl, hx⟩ := mem_loaderPhase d s hs
    exact S.post_removeTmp g d' x hx hp
  exact ⟨fun k => run_take_inv (S.PostG g) _ step k d h, run_inv (S.PostG g) _ step d h, noTmp_loader d⟩

theorem oldsGone_promote (hv : S.Valid) (d : Disk α) (l : List α) (hl : ∀ o ∈ l, o ∈ S.olds)
    (n : α) (hn : n ∈ S.news) (h : S.oldsGone l d) : S.oldsGone l (d.exec (.promote S.dir n)) := by
  intro o ho
  have hne : o ≠ n := S.old_ne_new hv (hl o ho) hn
  rw [mem_promote]
  split
  · rintro (hc | hc)
    · simp [hne] at hc
    · exact h o ho hc.1
  · exact h o ho

theorem oldsGone_promotes (hv : S.Valid) (l : List α) (hl : ∀ o ∈ l, o ∈ S.olds) (ns : List α)
    (hns : ∀ n ∈ ns, n ∈ S.news) : ∀ (d : Disk α), S.oldsGone l d →
    S.oldsGone l (d.run (ns.map (.promote S.dir))) := by
  induction ns with
  | nil => intro d h; exact h
  | cons n ns ih =>
    intro d h
    simp only [List.map_cons, run_cons]
    exact ih (fun m hm => hns m (by simp [hm])) _ (S.oldsGone_promote hv d l hl n (hns n (by simp)) h)

/-- the roll-forward branch of processLog on a `Mid` disk. -/
theorem processLog_mid (d : Disk α) (h : S.Mid d) :
    processLog true d.files S.isOrd S.olds S.news =
      (S.news.filter fun n => decide ((⟨S.dir, n, true⟩ : Ent α) ∈ d.files)).map (.promote S.dir)
      ++ (S.olds.filter (listed d.files S.dir)).map (deleteStep (fun _ => false) S.dir) := by
  unfold processLog
  have hall : S.news.all (listed d.files (logDirOOO true S.isOrd)) = true := by
    rw [List.all_eq_true]
    intro n hn
    have := h.2.1 n hn
    simp only [logDirOOO, if_true, listed, Bool.or_eq_true, decide_eq_true_eq]
    exact this
  simp only [hall, if_true]
  have hd : (deleteStep (fun _ => false) S.dir : α → Step α) = fun x => .remove ⟨S.dir, x, false⟩ := by
    funext x; simp [deleteStep]
  rw [hd]
  simp only [logDirOOO, Setup.dir, if_true]
  first | rfl | (congr 1 <;> congr 1 <;> first | rfl | (funext n; congr))

/-- the complete log pass from `Mid` ends in the new file set; every strict prefix of it stays
in `Mid`. -/
theorem logPhase_mid (hv : S.Valid) (d : Disk α) (h : S.Mid d) :
    ∃ body : List (Step α), logPhase true d = body ++ [.removeLog] ∧
      (∀ k, S.Mid (d.run (body.take k))) ∧ S.PostG [] (d.run (body ++ [.removeLog])) := by
  let ps := S.news.filter fun n => decide ((⟨S.dir, n, true⟩ : Ent α) ∈ d.files)
  let os := S.olds.filter (listed d.files S.dir)
  refine ⟨ps.map (.promote S.dir) ++ os.map (deleteStep (fun _ => false) S.dir), ?_, ?_, ?_⟩
  · unfold logPhase
    rw [h.1]
    simp only
    rw [S.processLog_mid d h]
  · intro k
    apply run_take_inv S.Mid _ _ k d h
    intro d' s hs hm
    simp only [List.mem_append, List.mem_map] at hs
    rcases hs with ⟨n, hn, rfl⟩ | ⟨o, ho, rfl⟩
    · exact S.mid_promote hv d' n (List.mem_filter.1 hn).1 hm
    · exact S.mid_delete hv _ d' o (List.mem_filter.1 ho).1 hm
  · have hps : ∀ n ∈ ps, n ∈ S.news := fun n hn => (List.mem_filter.1 hn).1
    have hos : ∀ o ∈ os, o ∈ S.olds := fun o ho => (List.mem_filter.1 ho).1
    obtain ⟨m1, keep1, fin1⟩ := S.promotes_all hv ps hps d h
    -- every new file is final after the promotions
    have nf1 : S.newsFinal S.news (d.run (ps.map (.promote S.dir))) := by
      intro n hn
      by_cases ht : (⟨S.dir, n, true⟩ : Ent α) ∈ d.files
      · exact fin1 n (List.mem_filter.2 ⟨hn, by simpa using ht⟩)
      · have : S.newsFinal [n] d := by
          intro x hx
          simp only [List.mem_singleton] at hx; subst hx
          rcases h.2.1 x hn with h' | h'
          · exact h'
          · exact absurd h' ht
        exact keep1 [n] this n (by simp)
    -- old files that were not listed are not there, and the promotions do not bring them
    have og1 : S.oldsGone (S.olds.filter fun o => !listed d.files S.dir o) (d.run (ps.map (.promote S.dir))) := by
      apply S.oldsGone_promotes hv _ (fun o ho => (List.mem_filter.1 ho).1) ps hps d
      intro o ho hc
      have := (List.mem_filter.1 ho).2
      simp [listed, hc] at this
    obtain ⟨m2, keepN, keepO, gone2⟩ := S.deletes_all hv (fun _ => false) os hos _ m1
    rw [run_append, run_append]
    apply S.mid_removeLog _ m2 (keepN S.news (fun _ h => h) nf1)
    intro o ho
    by_cases hl : listed d.files S.dir o = true
    · exact gone2 o (List.mem_filter.2 ⟨ho, hl⟩)
    · exact keepO _ og1 o (List.mem_filter.2 ⟨ho, by simpa using hl⟩)

theorem rec_mid (hv : S.Valid) (d : Disk α) (h : S.Mid d) :
    (∀ k, S.Committed [] (d.run ((recover1 true d).take k))) ∧
    S.PostG [] (d.run (recover1 true d)) ∧ (d.run (recover1 true d)).noTmp := by
  obtain ⟨body, hb, hpre, hpost⟩ := S.logPhase_mid hv d h
  have e : recover1 true d = body ++ ([.removeLog] ++ loaderPhase (d.run (body ++ [.removeLog]))) := by
    unfold recover1; simp only [hb]; simp
  have hpost' : S.PostG [] ((d.run body).run [.removeLog]) := by rw [← run_append]; exact hpost
  have step : ∀ (d' : Disk α) (s : Step α), s ∈ loaderPhase (d.run (body ++ [.removeLog])) →
      S.PostG [] d' → S.PostG [] (d'.exec s) := by
    intro d' s hs hp
    obtain ⟨x, rfl, hx⟩ := mem_loaderPhase _ s hs
    exact S.post_removeTmp [] d' x hx hp
  refine ⟨?_, ?_, ?_⟩
  · intro k
    rw [e]
    rcases run_take_append d body _ k with ⟨_, h1⟩ | ⟨_, h1⟩
    · rw [h1]; exact Or.inl ⟨rfl, hpre k⟩
    · rw [h1]
      rcases run_take_append (d.run body) [.removeLog] (loaderPhase (d.run (body ++ [.removeLog]))) (k - body.length)
        with ⟨hk, h2⟩ | ⟨_, h2⟩
      · rw [h2]
        have : k - body.length = 0 ∨ k - body.length = 1 := by simp at hk; omega
        rcases this with h0 | h0
        · rw [h0]; simp only [List.take_zero, run_nil]
          have := hpre body.length
          rw [List.take_length] at this
          exact Or.inl ⟨rfl, this⟩
        · rw [h0]; exact Or.inr hpost'
      · rw [h2]
        exact Or.inr (run_take_inv (S.PostG []) _ step _ _ hpost')
  · rw [e, run_append, run_append]
    exact run_inv (S.PostG []) _ step _ hpost'
  · have : d.run (recover1 true d) =
        (d.run (body ++ [.removeLog])).run (loaderPhase (d.run (body ++ [.removeLog]))) := by
      rw [e, run_append, run_append, run_append]
    rw [this]
    exact noTmp_loader _

/-! ### any number of interrupted passes -/

theorem rwc_pre (fixed : Bool) (ks : List Nat) : ∀ (d : Disk α), S.Pre d →
    S.Pre (recoverWithCrashes fixed d ks) ∧ (recoverWithCrashes fixed d ks).noTmp := by
  induction ks with
  | nil => intro d h; exact (S.rec_pre fixed d h).2
  | cons k ks ih => intro d h; exact ih _ ((S.rec_pre fixed d h).1 k)

theorem rwc_committed (hv : S.Valid) (g : List α) (ks : List Nat) : ∀ (d : Disk α), S.Committed g d →
    S.PostG g (recoverWithCrashes true d ks) ∧ (recoverWithCrashes true d ks).noTmp := by
  induction ks with
  | nil =>
    intro d h
    rcases h with ⟨rfl, h⟩ | h
    · exact (S.rec_mid hv d h).2
    · exact (S.rec_post true g d h).2
  | cons k ks ih =>
    intro d h
    rcases h with ⟨rfl, h⟩ | h
    · exact ih _ ((S.rec_mid hv d h).1 k)
    · exact ih _ (Or.inr ((S.rec_post true g d h).1 k))

end Setup

end OG.C03
