/-
C03 — the metadata of a ts-store data file that the read path prunes with, how the writers
build it, and the pruned read.

A data file holds one chunk per series (ascending series ids); the writers
(stream_compact.go StreamIterators.writeMetaToDisk — streaming compaction; msbuilder.go
MsBuilder.writeToDisk + WriteData — flush and non-streaming compaction; stream_downsample.go
StreamWriteFile.WriteMeta — merge of out-of-order files, self-merge) all do, per chunk with time
range [minT, maxT]:

    block (mIndex):  first chunk of the block → id := sid, range := [minT, maxT]
                     count++ ; widen the range by [minT, maxT]            (*)
                     count ≥ limit → close the block (needSwitchChunkMeta)
    trailer:         first chunk of the file → minId := sid, range := [minT, maxT]
                     idCount++ ; maxId := sid ; widen the range by [minT, maxT]
    at the end:      close the block if it holds a chunk

(*) how the block's range is widened is regenerated from the source for every writer
(`BlockUpd`): by comparisons of its own (`own`), or — seeded change C03-2 — inside the
trailer's comparisons (`withTrailer`: only when the chunk also widens the file's range).

The read path (tssp_file.go tsspFileReader.MetaIndex, reader.go searchMetaIndexItem,
Location.Contains / readData): a read of (sid, [lo, hi]) is answered from the file only if sid is
in the trailer's id range; the block is the last one whose id is ≤ sid; the block is skipped
when its range does not overlap [lo, hi]; the chunk of sid is looked up in the block; a segment
is read when its range overlaps; rows outside [lo, hi] are dropped.
Core-only, executable.
-/
namespace OG.C03

/-- a chunk as the meta writers see it. -/
structure MChunk where
  sid : Nat
  minT : Int
  maxT : Int
deriving DecidableEq, Repr

/-- an entry of the meta index; `sids` = the chunk metas stored in its block (the file's layout,
not a field of the index entry). -/
structure MBlock where
  id : Nat
  minT : Int
  maxT : Int
  count : Nat
  sids : List Nat
deriving DecidableEq, Repr

structure MTrailer where
  minId : Nat
  maxId : Nat
  minT : Int
  maxT : Int
  idCount : Nat
deriving DecidableEq, Repr

inductive BlockUpd where
  | own            -- `if mIndex.minTime > minT { mIndex.minTime = minT }` (and max)
  | withTrailer    -- the assignments sit inside `if trailer.minTime > minT { … }` (and max)
deriving DecidableEq, Repr

structure WState where
  blocks : List MBlock          -- closed blocks, in file order
  cur : Option MBlock           -- the block being filled (count > 0)
  trailer : Option MTrailer
deriving DecidableEq, Repr

def WState.init : WState := ⟨[], none, none⟩

/-- one chunk. -/
def metaStep (upd : BlockUpd) (limit : Nat) (st : WState) (c : MChunk) : WState :=
  -- the block: initialised by its first chunk
  let cur0 : MBlock := match st.cur with
    | some b => b
    | none => ⟨c.sid, c.minT, c.maxT, 0, []⟩
  -- the trailer: initialised by the first chunk of the file
  let tr0 : MTrailer := match st.trailer with
    | some t => t
    | none => ⟨c.sid, c.sid, c.minT, c.maxT, 0⟩
  let widensMin := decide (tr0.minT > c.minT)
  let widensMax := decide (tr0.maxT < c.maxT)
  let tr1 : MTrailer := ⟨tr0.minId, c.sid, if widensMin then c.minT else tr0.minT,
    if widensMax then c.maxT else tr0.maxT, tr0.idCount + 1⟩
  let cur1 : MBlock := match upd with
    | .own => ⟨cur0.id, if cur0.minT > c.minT then c.minT else cur0.minT,
        if cur0.maxT < c.maxT then c.maxT else cur0.maxT, cur0.count + 1, cur0.sids ++ [c.sid]⟩
    | .withTrailer => ⟨cur0.id, if widensMin then c.minT else cur0.minT,
        if widensMax then c.maxT else cur0.maxT, cur0.count + 1, cur0.sids ++ [c.sid]⟩
  if limit ≤ cur1.count then ⟨st.blocks ++ [cur1], none, some tr1⟩
  else ⟨st.blocks, some cur1, some tr1⟩

/-- the end of the file: the last block is closed. -/
def metaFinish (st : WState) : List MBlock × Option MTrailer :=
  (match st.cur with
    | some b => st.blocks ++ [b]
    | none => st.blocks, st.trailer)

def writeMeta (upd : BlockUpd) (limit : Nat) (chunks : List MChunk) : List MBlock × Option MTrailer :=
  metaFinish (chunks.foldl (metaStep upd limit) WState.init)

/-! ### the pruned read -/

/-- a chunk with its data: per segment the stored range and the timestamps. -/
structure DSeg where
  minT : Int
  maxT : Int
  times : List Int
deriving DecidableEq, Repr

structure DChunk where
  sid : Nat
  segs : List DSeg
deriving DecidableEq, Repr

def overlaps (lo hi a b : Int) : Bool := !(decide (a > hi) || decide (b < lo))

/-- `searchMetaIndexItem`: the last block whose id is ≤ sid. -/
def lookupBlock (blocks : List MBlock) (sid : Nat) : Option MBlock :=
  blocks.foldl (fun acc b => if b.id ≤ sid then some b else acc) none

/-- the rows of `sid` in `[lo, hi]` that a read gets out of the file whose chunks are `ds`: the
chunks stored in block `b` are those whose series id is in `b.sids`. -/
def prunedRead (blocks : List MBlock) (trailer : Option MTrailer) (ds : List DChunk)
    (sid : Nat) (lo hi : Int) : List Int :=
  match trailer with
  | none => []
  | some t =>
    if sid < t.minId || t.maxId < sid then []
    else if !overlaps lo hi t.minT t.maxT then []
    else match lookupBlock blocks sid with
      | none => []
      | some b =>
        if !overlaps lo hi b.minT b.maxT then []
        else match (ds.filter fun d => b.sids.contains d.sid).find? (·.sid == sid) with
          | none => []
          | some ch =>
            (ch.segs.filter fun s => overlaps lo hi s.minT s.maxT).flatMap fun s =>
              s.times.filter fun t => decide (lo ≤ t) && decide (t ≤ hi)

end OG.C03
