/-
C03 — from the disks a crash + recovery can leave to the layouts of `layout_equiv`.

The precedence order of the data files is split into blocks
    PX ++ PU ++ PZ ++ PN ++ PG ++ PB
PU = the merged out-of-order files, newest first (= the reverse of their deletion order `us`),
PN = the new files, PG = the files they replace (never visible together after a recovery, so
their relative position is irrelevant), PX / PZ / PB = untouched files before, between, after.
-/
import OG.C03.Layout

namespace OG.C03
open OG.C02

variable {α : Type} [DecidableEq α]

/-- the side conditions on the blocks. -/
structure Blocks (S : Setup α) (us : List α) (PX PZ PN PG PB : List (Bool × α)) : Prop where
  nodup : us.Nodup
  usIn : ∀ u ∈ us, (⟨true, u, false⟩ : Ent α) ∈ S.D0
  usNotOld : ∀ u ∈ us, ¬ S.isOld ⟨true, u, false⟩
  pn : ∀ p ∈ PN, p.1 = S.dir ∧ p.2 ∈ S.news
  pg : ∀ p ∈ PG, p.1 = S.dir ∧ p.2 ∈ S.olds
  rest : ∀ p ∈ PX ++ PZ ++ PB, (⟨p.1, p.2, false⟩ : Ent α) ∈ S.D0 ∧ ¬ S.isOld ⟨p.1, p.2, false⟩ ∧
    ¬ (p.1 = true ∧ p.2 ∈ us)

def blockU (us : List α) : List (Bool × α) := us.reverse.map fun u => (true, u)

def precOf (us : List α) (PX PZ PN PG PB : List (Bool × α)) : List (Bool × α) :=
  PX ++ blockU us ++ PZ ++ PN ++ PG ++ PB

theorem cellsOf_blocks (content : Bool × α → List Cell) (d : Disk α) (us : List α)
    (PX PZ PN PG PB : List (Bool × α)) :
    cellsOf (precOf us PX PZ PN PG PB) content d =
      cellsOf PX content d ++ cellsOf (blockU us) content d ++ cellsOf PZ content d
        ++ cellsOf PN content d ++ cellsOf PG content d ++ cellsOf PB content d := by
  simp [cellsOf, precOf, List.filter_append, List.flatMap_append]

theorem cellsOf_all (content : Bool × α → List Cell) (d : Disk α) (l : List (Bool × α))
    (h : ∀ p ∈ l, (⟨p.1, p.2, false⟩ : Ent α) ∈ d.files) : cellsOf l content d = l.flatMap content := by
  unfold cellsOf
  rw [filter_all]
  intro p hp; simpa using h p hp

theorem cellsOf_none (content : Bool × α → List Cell) (d : Disk α) (l : List (Bool × α))
    (h : ∀ p ∈ l, (⟨p.1, p.2, false⟩ : Ent α) ∉ d.files) : cellsOf l content d = [] := by
  unfold cellsOf
  rw [filter_none]
  · rfl
  · intro p hp; simpa using h p hp

variable (S : Setup α)

/-- the old file set reads X ++ U ++ Z ++ G ++ B. -/
theorem cells_old (hv : S.Valid) (content : Bool × α → List Cell) (us : List α)
    (PX PZ PN PG PB : List (Bool × α)) (hb : Blocks S us PX PZ PN PG PB) (d : Disk α)
    (hd : ∀ e : Ent α, e ∈ d.files ↔ e ∈ S.D0) :
    cellsOf (precOf us PX PZ PN PG PB) content d =
      PX.flatMap content ++ (blockU us).flatMap content ++ PZ.flatMap content
        ++ [] ++ PG.flatMap content ++ PB.flatMap content := by
  have rest := hb.rest
  simp only [List.mem_append] at rest
  rw [cellsOf_blocks,
    cellsOf_all content d PX (fun p hp => (hd _).2 (rest p (Or.inl (Or.inl hp))).1),
    cellsOf_all content d PZ (fun p hp => (hd _).2 (rest p (Or.inl (Or.inr hp))).1),
    cellsOf_all content d PB (fun p hp => (hd _).2 (rest p (Or.inr hp)).1),
    cellsOf_all content d (blockU us) (by
      intro p hp
      simp only [blockU, List.mem_map, List.mem_reverse] at hp
      obtain ⟨u, hu, rfl⟩ := hp
      exact (hd _).2 (hb.usIn u hu)),
    cellsOf_none content d PN (by
      intro p hp hm
      obtain ⟨h1, h2⟩ := hb.pn p hp
      have := (hd _).1 hm
      rw [h1] at this
      exact hv.newsFresh _ h2 this),
    cellsOf_all content d PG (by
      intro p hp
      obtain ⟨h1, h2⟩ := hb.pg p hp
      rw [h1]
      exact (hd _).2 (hv.oldsIn _ h2))]

/-- the new file set with the first `j` merged out-of-order files deleted reads
X ++ U' ++ Z ++ N ++ B, U' = the files of U not yet deleted (a prefix of U). -/
theorem cells_new (hv : S.Valid) (content : Bool × α → List Cell) (us : List α)
    (PX PZ PN PG PB : List (Bool × α)) (hb : Blocks S us PX PZ PN PG PB) (j : Nat) (d : Disk α)
    (hd : ∀ e : Ent α, e ∈ d.files ↔ (e.tmp = false ∧ S.newSet (us.take j) e)) :
    cellsOf (precOf us PX PZ PN PG PB) content d =
      PX.flatMap content ++ (blockU (us.drop j)).flatMap content ++ PZ.flatMap content
        ++ PN.flatMap content ++ [] ++ PB.flatMap content := by
  have rest := hb.rest
  simp only [List.mem_append] at rest
  have hrest : ∀ p : Bool × α, ((⟨p.1, p.2, false⟩ : Ent α) ∈ S.D0 ∧ ¬ S.isOld ⟨p.1, p.2, false⟩ ∧
      ¬ (p.1 = true ∧ p.2 ∈ us)) → (⟨p.1, p.2, false⟩ : Ent α) ∈ d.files := by
    intro p ⟨h1, h2, h3⟩
    refine (hd _).2 ⟨rfl, Or.inl ⟨h1, h2⟩, ?_⟩
    rintro ⟨ho, hm⟩
    exact h3 ⟨ho, List.mem_of_mem_take hm⟩
  -- the merged out-of-order files: the deleted ones are gone, the others are there
  have hsplit : blockU us = blockU (us.drop j) ++ blockU (us.take j) := by
    unfold blockU
    rw [← List.map_append, ← List.reverse_append, List.take_append_drop]
  have hU : cellsOf (blockU us) content d = (blockU (us.drop j)).flatMap content := by
    rw [hsplit]
    have e1 : cellsOf (blockU (us.drop j) ++ blockU (us.take j)) content d =
        cellsOf (blockU (us.drop j)) content d ++ cellsOf (blockU (us.take j)) content d := by
      simp [cellsOf, List.filter_append, List.flatMap_append]
    rw [e1, cellsOf_all content d (blockU (us.drop j)), cellsOf_none content d (blockU (us.take j))]
    · simp
    · intro p hp hm
      simp only [blockU, List.mem_map, List.mem_reverse] at hp
      obtain ⟨u, hu, rfl⟩ := hp
      exact ((hd _).1 hm).2.2 ⟨rfl, hu⟩
    · intro p hp
      simp only [blockU, List.mem_map, List.mem_reverse] at hp
      obtain ⟨u, hu, rfl⟩ := hp
      have huin : u ∈ us := List.mem_of_mem_drop hu
      refine (hd _).2 ⟨rfl, Or.inl ⟨hb.usIn u huin, hb.usNotOld u huin⟩, ?_⟩
      rintro ⟨_, hm⟩
      -- `us` has no duplicates: an element of `drop j` is not in `take j`
      have hnd := hb.nodup
      rw [← List.take_append_drop j us] at hnd
      exact (List.nodup_append.1 hnd).2.2 u hm u hu rfl
  rw [cellsOf_blocks, hU,
    cellsOf_all content d PX (fun p hp => hrest p (rest p (Or.inl (Or.inl hp)))),
    cellsOf_all content d PZ (fun p hp => hrest p (rest p (Or.inl (Or.inr hp)))),
    cellsOf_all content d PB (fun p hp => hrest p (rest p (Or.inr hp))),
    cellsOf_all content d PN (by
      intro p hp
      obtain ⟨h1, h2⟩ := hb.pn p hp
      refine (hd _).2 ⟨rfl, Or.inr ⟨h1, h2⟩, ?_⟩
      rintro ⟨ho, hm⟩
      have hu := hb.usIn p.2 (List.mem_of_mem_take hm)
      have : S.dir = true := by rw [← h1]; exact ho
      rw [← this] at hu
      exact hv.newsFresh _ h2 hu),
    cellsOf_none content d PG (by
      intro p hp hm
      obtain ⟨h1, h2⟩ := hb.pg p hp
      have hn := ((hd _).1 hm).2.1
      rcases hn with ⟨_, hno⟩ | hnew
      · exact hno ⟨h1, h2⟩
      · exact S.old_ne_new hv h2 hnew.2 rfl)]

end OG.C03
