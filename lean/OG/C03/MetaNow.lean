/-
C03 — the writers of the file metadata as they are now: how each of them widens the range of
the chunk-meta block it is filling is regenerated from the source (`OG.Gen.C03.blockUpd_*`).
Core-only (used by the driver).
-/
import OG.Generated.C03
import OG.C03.Meta

namespace OG.C03

def updOf (s : String) : BlockUpd := if s == "withTrailer" then .withTrailer else .own

/-- `stream`: StreamIterators.writeMetaToDisk (streaming compaction); `builder`: MsBuilder
(flush, non-streaming compaction); `merge`: StreamWriteFile.WriteMeta (merge of out-of-order
files, self-merge); anything else: the common rule. -/
def updNow (w : String) : BlockUpd :=
  if w == "stream" then updOf OG.Gen.C03.blockUpd_stream
  else if w == "builder" then updOf OG.Gen.C03.blockUpd_builder
  else if w == "merge" then updOf OG.Gen.C03.blockUpd_merge
  else .own

end OG.C03
