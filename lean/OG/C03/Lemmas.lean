/-
C03 — helper lemmas: what one step does to the set of directory entries and to the log, runs
of steps, prefixes of runs.
-/
import OG.C03.Model

namespace OG.C03

variable {α : Type} [DecidableEq α]

@[simp] theorem run_nil (d : Disk α) : d.run [] = d := rfl
@[simp] theorem run_cons (d : Disk α) (s : Step α) (l : List (Step α)) :
    d.run (s :: l) = (d.exec s).run l := rfl

theorem run_append (d : Disk α) (l1 l2 : List (Step α)) :
    d.run (l1 ++ l2) = (d.run l1).run l2 := by
  simp [Disk.run, List.foldl_append]

/-! ### one step -/

theorem mem_create (d : Disk α) (e x : Ent α) :
    x ∈ (d.exec (.create e)).files ↔ x = e ∨ x ∈ d.files := by
  simp only [Disk.exec]
  split <;> simp_all

theorem mem_remove (d : Disk α) (e x : Ent α) :
    x ∈ (d.exec (.remove e)).files ↔ x ∈ d.files ∧ x ≠ e := by
  simp [Disk.exec]

theorem mem_promote (d : Disk α) (o : Bool) (n : α) (x : Ent α) :
    x ∈ (d.exec (.promote o n)).files ↔
      if (⟨o, n, true⟩ : Ent α) ∈ d.files then x = ⟨o, n, false⟩ ∨ (x ∈ d.files ∧ x ≠ ⟨o, n, true⟩)
      else x ∈ d.files := by
  simp only [Disk.exec]
  split <;> simp

theorem mem_hide (d : Disk α) (o : Bool) (n : α) (x : Ent α) :
    x ∈ (d.exec (.hide o n)).files ↔
      if (⟨o, n, false⟩ : Ent α) ∈ d.files then x = ⟨o, n, true⟩ ∨ (x ∈ d.files ∧ x ≠ ⟨o, n, false⟩)
      else x ∈ d.files := by
  simp only [Disk.exec]
  split <;> simp

@[simp] theorem files_createLog (d : Disk α) : (d.exec .createLog).files = d.files := rfl
@[simp] theorem files_writeLog (d : Disk α) (i : Bool) (o n : List α) :
    (d.exec (.writeLog i o n)).files = d.files := rfl
@[simp] theorem files_removeLog (d : Disk α) : (d.exec .removeLog).files = d.files := rfl
@[simp] theorem log_createLog (d : Disk α) : (d.exec .createLog).log = .torn := rfl
@[simp] theorem log_writeLog (d : Disk α) (i : Bool) (o n : List α) :
    (d.exec (.writeLog i o n)).log = .full i o n := rfl
@[simp] theorem log_removeLog (d : Disk α) : (d.exec .removeLog).log = .none := rfl

@[simp] theorem log_create (d : Disk α) (e : Ent α) : (d.exec (.create e)).log = d.log := rfl
@[simp] theorem log_remove (d : Disk α) (e : Ent α) : (d.exec (.remove e)).log = d.log := rfl
@[simp] theorem log_promote (d : Disk α) (o : Bool) (n : α) : (d.exec (.promote o n)).log = d.log := by
  simp only [Disk.exec]; split <;> rfl
@[simp] theorem log_hide (d : Disk α) (o : Bool) (n : α) : (d.exec (.hide o n)).log = d.log := by
  simp only [Disk.exec]; split <;> rfl

/-- a step that only touches data files. -/
def Step.isFile : Step α → Bool
  | .create _ | .promote _ _ | .hide _ _ | .remove _ => true
  | _ => false

theorem log_exec_file (d : Disk α) (s : Step α) (h : s.isFile = true) : (d.exec s).log = d.log := by
  cases s <;> simp_all [Step.isFile]

theorem log_run_file (l : List (Step α)) : ∀ (d : Disk α), (∀ s ∈ l, s.isFile = true) → (d.run l).log = d.log := by
  induction l with
  | nil => intro d _; rfl
  | cons s l ih =>
    intro d h
    rw [run_cons, ih _ (fun s hs => h s (by simp [hs])), log_exec_file _ _ (h s (by simp))]

/-! ### prefixes of a run -/

/-- an invariant kept by every step of a list holds after every prefix of it. -/
theorem run_take_inv (P : Disk α → Prop) (steps : List (Step α))
    (hstep : ∀ d s, s ∈ steps → P d → P (d.exec s)) :
    ∀ (k : Nat) (d : Disk α), P d → P (d.run (steps.take k)) := by
  induction steps with
  | nil => intro k d h; simpa using h
  | cons s l ih =>
    intro k d h
    cases k with
    | zero => simpa using h
    | succ k =>
      rw [List.take_succ_cons, run_cons]
      exact ih (fun d s hs => hstep d s (by simp [hs])) k _ (hstep d s (by simp) h)

theorem run_inv (P : Disk α → Prop) (steps : List (Step α))
    (hstep : ∀ d s, s ∈ steps → P d → P (d.exec s)) (d : Disk α) (h : P d) : P (d.run steps) := by
  have := run_take_inv P steps hstep steps.length d h
  simpa using this

/-! ### the loader -/

theorem mem_run_removes (l : List (Ent α)) : ∀ (d : Disk α) (x : Ent α),
    x ∈ (d.run (l.map .remove)).files ↔ x ∈ d.files ∧ x ∉ l := by
  induction l with
  | nil => intro d x; simp
  | cons e l ih =>
    intro d x
    rw [List.map_cons, run_cons, ih, mem_remove]
    simp only [List.mem_cons, not_or]
    constructor
    · rintro ⟨⟨h1, h2⟩, h3⟩; exact ⟨h1, h2, h3⟩
    · rintro ⟨h1, h2, h3⟩; exact ⟨⟨h1, h2⟩, h3⟩

theorem log_run_removes (l : List (Ent α)) (d : Disk α) : (d.run (l.map .remove)).log = d.log :=
  log_run_file _ d (by intro s hs; simp only [List.mem_map] at hs; obtain ⟨e, _, rfl⟩ := hs; rfl)

/-- after the loader no `.init` entry is left. -/
theorem noTmp_loader (d : Disk α) : (d.run (loaderPhase d)).noTmp := by
  intro e he
  unfold loaderPhase at he
  rw [mem_run_removes] at he
  obtain ⟨h1, h2⟩ := he
  cases ht : e.tmp with
  | false => rfl
  | true => exact absurd (List.mem_filter.2 ⟨h1, by simp [ht]⟩) h2

omit [DecidableEq α] in
theorem loader_nil_of_noTmp (d : Disk α) (h : d.noTmp) : loaderPhase d = [] := by
  unfold loaderPhase
  have : d.files.filter (·.tmp) = [] := by
    apply List.filter_eq_nil_iff.2
    intro e he
    simp [h e he]
  simp [this]

/-- the final-name entries the loader leaves are the ones it found. -/
theorem mem_loader_final (d : Disk α) (x : Ent α) (hx : x.tmp = false) :
    x ∈ (d.run (loaderPhase d)).files ↔ x ∈ d.files := by
  unfold loaderPhase
  rw [mem_run_removes]
  constructor
  · exact fun h => h.1
  · intro h
    refine ⟨h, ?_⟩
    intro hm
    have := (List.mem_filter.1 hm).2
    simp [hx] at this

end OG.C03
