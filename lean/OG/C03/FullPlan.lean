/-
C03 — what one measurement contributes to a full-compaction plan
(engine/immutable/compact.go FullCompact / buildFullCompactPlan, task.go CompactGroupBuilder,
tssp_reader.go TSSPFiles.fullCompacted), transcribed.

A measurement is skipped when it is fully compacted (at most one file, or every file a part of
one (level, sequence)).  Otherwise the builder is fed with every file in list order:
  * low-level mode (a pre-compaction level `L > 0`, tried first): the groups are the maximal
    runs of consecutive files of a level below `L`, each compacted to level `L`;
  * normal mode: one group with every file, compacted to (highest level + 1) — unless a file is
    below the parquet level `P > 0`, which drops the whole plan.
`FullCompact` runs the low-level plan when it is not empty, else the normal one.
Core-only, executable.
-/
import OG.C03.Plan

namespace OG.C03

/-- `TSSPFiles.fullCompacted`. -/
def fullCompacted : List PF → Bool
  | [] => true
  | [_] => true
  | f :: rest => rest.all fun g => g.level == f.level && g.seq == f.seq

/-- `addLowLevelMode` over the list, then the final `SwitchGroup`: `cur` is the group being filled. -/
def lowRuns (level : Nat) : List PF → List PF → List (List PF)
  | [], cur => if cur.isEmpty then [] else [cur]
  | f :: rest, cur =>
    if f.level < level then lowRuns level rest (cur ++ [f])
    else (if cur.isEmpty then [] else [cur]) ++ lowRuns level rest []

inductive FullPlan where
  | skipped                                   -- fully compacted
  | refused                                   -- a file below the parquet level in normal mode: no plan at all
  | groups (gs : List (List PF × Nat))        -- (files, level they are compacted to)
deriving DecidableEq, Repr

def maxLevel (files : List PF) : Nat := files.foldl (fun m f => max m f.level) 0

/-- one call of `buildFullCompactPlan(n, toLevel)` for one measurement. -/
def buildFullPlan (toLevel parquet : Nat) (files : List PF) : FullPlan :=
  if fullCompacted files then .skipped
  else if toLevel > 0 then .groups ((lowRuns toLevel files []).map fun g => (g, toLevel))
  else if parquet > 0 ∧ files.any (fun f => f.level < parquet) then .refused
  else .groups [(files, maxLevel files + 1)]

end OG.C03
