import OG.C03.Driver
def main : IO Unit := OG.C03.main
