/-
C03 — a streaming compaction stores, for every column, the statistics of the rows it writes.
-/
import OG.C03.PreAgg

namespace OG.C03

theorem optMin_none_left (b : Option Int) : optMin none b = b := by cases b <;> rfl
theorem optMax_none_left (b : Option Int) : optMax none b = b := by cases b <;> rfl
theorem optMin_none_right (a : Option Int) : optMin a none = a := by cases a <;> rfl
theorem optMax_none_right (a : Option Int) : optMax a none = a := by cases a <;> rfl

theorem optMin_assoc (a b c : Option Int) : optMin (optMin a b) c = optMin a (optMin b c) := by
  cases a <;> cases b <;> cases c <;> simp [optMin] <;> split <;> split <;> (try split) <;> omega

theorem optMax_assoc (a b c : Option Int) : optMax (optMax a b) c = optMax a (optMax b c) := by
  cases a <;> cases b <;> cases c <;> simp [optMax] <;> split <;> split <;> (try split) <;> omega

theorem merge_empty_left (s : Stats) : Stats.empty.merge s = s := by
  cases s; simp [Stats.merge, Stats.empty, optMin_none_left, optMax_none_left]

theorem merge_empty_right (s : Stats) : s.merge Stats.empty = s := by
  cases s; simp [Stats.merge, Stats.empty, optMin_none_right, optMax_none_right]

theorem merge_assoc (a b c : Stats) : (a.merge b).merge c = a.merge (b.merge c) := by
  simp only [Stats.merge, optMin_assoc, optMax_assoc, Nat.add_assoc, Int.add_assoc]

theorem foldl_merge_from (s : Stats) (vs : List Int) :
    vs.foldl (fun s v => s.merge ⟨1, v, some v, some v⟩) s = s.merge (statsOf vs) := by
  induction vs generalizing s with
  | nil => simp [statsOf, merge_empty_right]
  | cons v vs ih =>
    simp only [List.foldl_cons, statsOf]
    rw [ih, ih (Stats.empty.merge _), merge_empty_left, merge_assoc]

/-- the statistics of a concatenation are the merge of the statistics. -/
theorem statsOf_append (xs ys : List Int) : statsOf (xs ++ ys) = (statsOf xs).merge (statsOf ys) := by
  unfold statsOf
  rw [List.foldl_append, foldl_merge_from]
  rfl

theorem foldl_merge_stats_from (s : Stats) (inputs : List (List Int)) :
    (inputs.map statsOf).foldl Stats.merge s = s.merge (statsOf inputs.flatten) := by
  induction inputs generalizing s with
  | nil => simp [statsOf, merge_empty_right]
  | cons x xs ih =>
    simp only [List.map_cons, List.foldl_cons, List.flatten_cons]
    rw [ih, statsOf_append, merge_assoc]

/-- merging the records of the inputs gives the record of all their rows. -/
theorem merged_stats_eq_rows (inputs : List (List Int)) :
    (inputs.map statsOf).foldl Stats.merge Stats.empty = statsOf inputs.flatten := by
  rw [foldl_merge_stats_from, merge_empty_left]

/-- **T16 (the rebuilt statistics are those of the rows).** Whenever the two decisions agree
at the segment count and limit at hand, the stored record is the statistics of the rows written —
whatever the inputs, the segment count and the limit. -/
theorem rebuilt_stats_eq_rows (callerCond calleeCond : Nat → Nat → Bool) (n l : Nat) (inputs : List (List Int))
    (hagree : calleeCond n l = true → callerCond n l = true) :
    storedStats callerCond calleeCond n l inputs = statsOf inputs.flatten := by
  unfold storedStats
  by_cases h : calleeCond n l = true
  · simp [h, hagree h]
  · simp [h, merged_stats_eq_rows]

/-- **the regenerated conditions are the same comparison**, for the caller and the four kinds. -/
theorem preagg_recompute_conditions_agree :
    OG.Gen.C03.preaggCond_integer = OG.Gen.C03.preaggCond_caller ∧
    OG.Gen.C03.preaggCond_float = OG.Gen.C03.preaggCond_caller ∧
    OG.Gen.C03.preaggCond_string = OG.Gen.C03.preaggCond_caller ∧
    OG.Gen.C03.preaggCond_boolean = OG.Gen.C03.preaggCond_caller := by
  refine ⟨by rfl, by rfl, by rfl, by rfl⟩

/-- **T16 for the code as it is**: every kind of column, every segment count and limit. -/
theorem rebuilt_stats_now (kind : String) (n l : Nat) (inputs : List (List Int)) :
    storedStats callerNow (calleeNow kind) n l inputs = statsOf inputs.flatten := by
  apply rebuilt_stats_eq_rows
  intro h
  have hc : calleeNow kind = callerNow := by
    unfold calleeNow callerNow
    obtain ⟨h1, h2, h3, h4⟩ := preagg_recompute_conditions_agree
    split
    · rw [h1]
    · split
      · rw [h2]
      · split
        · rw [h3]
        · rw [h4]
  rw [← hc]; exact h

/-- **with `>=` in the callee and `>` in the caller the empty record is stored at `n = l`**
(seeded change C03-3): 8 segments over the inputs, limit 8, values 5 and 7 — stored count 0. -/
theorem preagg_conditions_disagree_loses_stats :
    storedStats (condOf "c.chunkSegments > c.Conf.maxSegmentLimit") (condOf "c.chunkSegments >= c.Conf.maxSegmentLimit") 8 8 [[5], [7]]
      = Stats.empty ∧ statsOf [5, 7] = ⟨2, 12, some 5, some 7⟩ := by
  decide

/-- non-vacuity: at, below and above the limit with the conditions as they are. -/
example : storedStats callerNow (calleeNow "integer") 8 8 [[5], [7]] = ⟨2, 12, some 5, some 7⟩ := by decide
example : storedStats callerNow (calleeNow "integer") 9 8 [[5], [7]] = ⟨2, 12, some 5, some 7⟩ := by decide
example : storedStats callerNow (calleeNow "float") 7 8 [[5, 1], [7]] = ⟨3, 13, some 1, some 7⟩ := by decide

end OG.C03
