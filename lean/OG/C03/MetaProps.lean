/-
C03 — the metadata the writers build covers the contents, so a pruned read loses nothing.

`writer_covers` : for chunks with ascending series ids and any block size ≥ 1, after the writer
  with its own comparisons for the block range (`BlockUpd.own`, the regenerated shape of every
  writer): for every chunk the block the read path looks up for its series id (the last block whose
  id is ≤ the id) stores the chunk and its time range contains the chunk's; the trailer's id range
  and time range contain every chunk.
`bounded_read_eq_filter` : hence for EVERY series id and EVERY time range the pruned read of a
  written file returns exactly the rows of that series in the range.
`bounded_read_unchanged_by_compaction` : two files (before / after a reorganisation, any of the
  writers) that hold the same rows for a series answer every bounded read of it alike.
`withTrailer_loses_rows` : with the block range widened only inside the trailer's comparisons
  (seeded change C03-2) the statement is false — the witness is a second block whose first
  series stops early.
-/
import OG.C03.Meta

namespace OG.C03

def allOf (st : WState) : List MBlock := st.blocks ++ st.cur.toList

theorem lookup_append (l : List MBlock) (x : MBlock) (s : Nat) :
    lookupBlock (l ++ [x]) s = if x.id ≤ s then some x else lookupBlock l s := by
  unfold lookupBlock
  rw [List.foldl_append]
  rfl

def covers (b : MBlock) (c : MChunk) : Prop := c.sid ∈ b.sids ∧ b.minT ≤ c.minT ∧ c.maxT ≤ b.maxT

/-- the state of the writer after the chunks `P`. -/
structure MetaInv (st : WState) (P : List MChunk) : Prop where
  owner : ∀ c ∈ P, ∃ b, lookupBlock (allOf st) c.sid = some b ∧ covers b c
  ids : ∀ b ∈ allOf st, ∃ c ∈ P, b.id = c.sid
  members : ∀ b ∈ allOf st, ∀ s ∈ b.sids, ∃ c ∈ P, c.sid = s
  trailer : P ≠ [] → ∃ t, st.trailer = some t ∧ ∀ c ∈ P, t.minId ≤ c.sid ∧ c.sid ≤ t.maxId ∧ t.minT ≤ c.minT ∧ c.maxT ≤ t.maxT
  trailerNone : P = [] → st.trailer = none ∧ st.cur = none ∧ st.blocks = []

theorem metaInv_init : MetaInv WState.init [] :=
  ⟨(by intro c hc; cases hc), (by intro b hb; simp [allOf, WState.init] at hb),
   (by intro b hb; simp [allOf, WState.init] at hb), (by intro h; exact absurd rfl h), (by intro _; exact ⟨rfl, rfl, rfl⟩)⟩

/-- one chunk with a series id above all the ones before keeps the invariant. -/
theorem metaInv_step (limit : Nat) (st : WState) (P : List MChunk) (d : MChunk)
    (inv : MetaInv st P) (hd : ∀ c ∈ P, c.sid < d.sid) :
    MetaInv (metaStep .own limit st d) (P ++ [d]) := by
  -- the block the chunk goes into
  let cur0 : MBlock := match st.cur with
    | some b => b
    | none => ⟨d.sid, d.minT, d.maxT, 0, []⟩
  let cur1 : MBlock := ⟨cur0.id, if cur0.minT > d.minT then d.minT else cur0.minT,
    if cur0.maxT < d.maxT then d.maxT else cur0.maxT, cur0.count + 1, cur0.sids ++ [d.sid]⟩
  let tr0 : MTrailer := match st.trailer with
    | some t => t
    | none => ⟨d.sid, d.sid, d.minT, d.maxT, 0⟩
  let tr1 : MTrailer := ⟨tr0.minId, d.sid, if decide (tr0.minT > d.minT) then d.minT else tr0.minT,
    if decide (tr0.maxT < d.maxT) then d.maxT else tr0.maxT, tr0.idCount + 1⟩
  have hstep : metaStep .own limit st d =
      if limit ≤ cur1.count then ⟨st.blocks ++ [cur1], none, some tr1⟩ else ⟨st.blocks, some cur1, some tr1⟩ := rfl
  have hall : allOf (metaStep .own limit st d) = st.blocks ++ [cur1] := by
    rw [hstep]
    split <;> simp [allOf]
  have hcur0id : cur0.id ≤ d.sid := by
    cases hc : st.cur with
    | none => simp [cur0, hc]
    | some b =>
      have hb : b ∈ allOf st := by simp [allOf, hc]
      obtain ⟨c, hcP, hid⟩ := inv.ids b hb
      simp only [cur0, hc]
      rw [hid]; exact Nat.le_of_lt (hd c hcP)
  have hcovers_d : covers cur1 d := by
    refine ⟨by simp [cur1], ?_, ?_⟩
    · show (if cur0.minT > d.minT then d.minT else cur0.minT) ≤ d.minT
      split <;> omega
    · show d.maxT ≤ (if cur0.maxT < d.maxT then d.maxT else cur0.maxT)
      split <;> omega
  -- what cur1 keeps of cur0
  have hwiden : ∀ c : MChunk, covers cur0 c → covers cur1 c := by
    intro c ⟨h1, h2, h3⟩
    refine ⟨by simp [cur1, h1], ?_, ?_⟩
    · show (if cur0.minT > d.minT then d.minT else cur0.minT) ≤ c.minT
      split <;> omega
    · show c.maxT ≤ (if cur0.maxT < d.maxT then d.maxT else cur0.maxT)
      split <;> omega
  refine ⟨?_, ?_, ?_, ?_, ?_⟩
  · intro c hc
    rw [hall, lookup_append]
    simp only [List.mem_append, List.mem_singleton] at hc
    rcases hc with hc | rfl
    · obtain ⟨b, hb, hcov⟩ := inv.owner c hc
      have hlt := hd c hc
      cases hcur : st.cur with
      | none =>
        have : cur1.id = d.sid := by simp [cur1, cur0, hcur]
        rw [this, if_neg (by omega)]
        have : allOf st = st.blocks := by simp [allOf, hcur]
        rw [this] at hb
        exact ⟨b, hb, hcov⟩
      | some b0 =>
        have hc0 : cur0 = b0 := by simp [cur0, hcur]
        have hall0 : allOf st = st.blocks ++ [b0] := by simp [allOf, hcur]
        rw [hall0, lookup_append] at hb
        have hid : cur1.id = b0.id := by simp [cur1, hc0]
        rw [hid]
        by_cases h : b0.id ≤ c.sid
        · rw [if_pos h] at hb ⊢
          simp only [Option.some.injEq] at hb
          subst hb
          exact ⟨cur1, rfl, hwiden c (by rw [hc0]; exact hcov)⟩
        · rw [if_neg h] at hb ⊢
          exact ⟨b, hb, hcov⟩
    · have : cur1.id ≤ c.sid := hcur0id
      rw [if_pos this]
      exact ⟨cur1, rfl, hcovers_d⟩
  · intro b hb
    rw [hall] at hb
    simp only [List.mem_append, List.mem_singleton] at hb
    rcases hb with hb | rfl
    · obtain ⟨c, hc, hid⟩ := inv.ids b (by simp [allOf, hb])
      exact ⟨c, by simp [hc], hid⟩
    · cases hcur : st.cur with
      | none => exact ⟨d, by simp, by simp [cur1, cur0, hcur]⟩
      | some b0 =>
        obtain ⟨c, hc, hid⟩ := inv.ids b0 (by simp [allOf, hcur])
        exact ⟨c, by simp [hc], by simp [cur1, cur0, hcur, hid]⟩
  · intro b hb s hs
    rw [hall] at hb
    simp only [List.mem_append, List.mem_singleton] at hb
    rcases hb with hb | rfl
    · obtain ⟨c, hc, hid⟩ := inv.members b (by simp [allOf, hb]) s hs
      exact ⟨c, by simp [hc], hid⟩
    · simp only [cur1, List.mem_append, List.mem_singleton] at hs
      rcases hs with hs | rfl
      · cases hcur : st.cur with
        | none => simp [cur0, hcur] at hs
        | some b0 =>
          have : s ∈ b0.sids := by simpa [cur0, hcur] using hs
          obtain ⟨c, hc, hid⟩ := inv.members b0 (by simp [allOf, hcur]) s this
          exact ⟨c, by simp [hc], hid⟩
      · exact ⟨d, by simp, rfl⟩
  · intro _
    -- the trailer
    have htr : (metaStep .own limit st d).trailer = some tr1 := by
      rw [hstep]
      split <;> rfl
    refine ⟨tr1, htr, ?_⟩
    intro c hc
    simp only [List.mem_append, List.mem_singleton] at hc
    have hmin : tr1.minT ≤ tr0.minT ∧ tr1.minT ≤ d.minT := by
      show (if decide (tr0.minT > d.minT) then d.minT else tr0.minT) ≤ tr0.minT ∧ (if decide (tr0.minT > d.minT) then d.minT else tr0.minT) ≤ d.minT
      by_cases h : tr0.minT > d.minT <;> simp [h] <;> omega
    have hmax : tr0.maxT ≤ tr1.maxT ∧ d.maxT ≤ tr1.maxT := by
      show tr0.maxT ≤ (if decide (tr0.maxT < d.maxT) then d.maxT else tr0.maxT) ∧ d.maxT ≤ (if decide (tr0.maxT < d.maxT) then d.maxT else tr0.maxT)
      by_cases h : tr0.maxT < d.maxT <;> simp [h] <;> omega
    by_cases hP : P = []
    · subst hP
      simp only [List.not_mem_nil, false_or] at hc
      subst hc
      have := (inv.trailerNone rfl).1
      have h0 : tr0 = ⟨c.sid, c.sid, c.minT, c.maxT, 0⟩ := by simp [tr0, this]
      refine ⟨?_, Nat.le_refl _, hmin.2, hmax.2⟩
      show tr0.minId ≤ c.sid
      rw [h0]; exact Nat.le_refl _
    · obtain ⟨t, ht, htall⟩ := inv.trailer hP
      have h0 : tr0 = t := by simp [tr0, ht]
      rcases hc with hc | rfl
      · obtain ⟨a1, a2, a3, a4⟩ := htall c hc
        refine ⟨by show tr0.minId ≤ c.sid; rw [h0]; exact a1, Nat.le_of_lt (hd c hc), ?_, ?_⟩
        · have := hmin.1; rw [h0] at this; omega
        · have := hmax.1; rw [h0] at this; omega
      · cases hPl : P with
        | nil => exact absurd hPl hP
        | cons p ps =>
          obtain ⟨a1, _, _, _⟩ := htall p (by rw [hPl]; simp)
          have := hd p (by rw [hPl]; simp)
          refine ⟨by show tr0.minId ≤ c.sid; rw [h0]; omega, Nat.le_refl _, hmin.2, hmax.2⟩
  · intro h; simp at h

theorem metaInv_fold (limit : Nat) : ∀ (R : List MChunk) (st : WState) (P : List MChunk),
    MetaInv st P → (∀ c ∈ P, ∀ d ∈ R, c.sid < d.sid) → R.Pairwise (fun a b => a.sid < b.sid) →
    MetaInv (R.foldl (metaStep .own limit) st) (P ++ R) := by
  intro R
  induction R with
  | nil => intro st P inv _ _; simpa using inv
  | cons d R ih =>
    intro st P inv hPR hpw
    rw [List.foldl_cons]
    have hstep := metaInv_step limit st P d inv (fun c hc => hPR c hc d (by simp))
    have := ih (metaStep .own limit st d) (P ++ [d]) hstep (by
      intro c hc e he
      simp only [List.mem_append, List.mem_singleton] at hc
      rcases hc with hc | rfl
      · exact hPR c hc e (by simp [he])
      · exact (List.pairwise_cons.1 hpw).1 e he) (List.pairwise_cons.1 hpw).2
    simpa using this

/-- **T13 (the metadata covers the contents).** -/
theorem writer_covers (limit : Nat) (chunks : List MChunk)
    (hs : chunks.Pairwise (fun a b => a.sid < b.sid)) :
    let r := writeMeta .own limit chunks
    (∀ c ∈ chunks, ∃ b, lookupBlock r.1 c.sid = some b ∧ covers b c) ∧
    (∀ b ∈ r.1, ∀ s ∈ b.sids, ∃ c ∈ chunks, c.sid = s) ∧
    (chunks ≠ [] → ∃ t, r.2 = some t ∧ ∀ c ∈ chunks, t.minId ≤ c.sid ∧ c.sid ≤ t.maxId ∧ t.minT ≤ c.minT ∧ c.maxT ≤ t.maxT) := by
  intro r
  have inv := metaInv_fold limit chunks WState.init [] metaInv_init (by intro c hc; cases hc) hs
  simp only [List.nil_append] at inv
  have hr1 : r.1 = allOf (chunks.foldl (metaStep .own limit) WState.init) := by
    show (metaFinish _).1 = _
    unfold metaFinish allOf
    cases (chunks.foldl (metaStep .own limit) WState.init).cur <;> simp
  have hr2 : r.2 = (chunks.foldl (metaStep .own limit) WState.init).trailer := rfl
  rw [hr1, hr2]
  exact ⟨inv.owner, inv.members, inv.trailer⟩

/-! ### the pruned read -/

/-- the chunk meta of a chunk: the range over its segments (`ChunkMeta.MinMaxTime`). -/
structure Faithful (d : DChunk) (m : MChunk) : Prop where
  sid : m.sid = d.sid
  segIn : ∀ s ∈ d.segs, m.minT ≤ s.minT ∧ s.maxT ≤ m.maxT
  rowsIn : ∀ s ∈ d.segs, ∀ t ∈ s.times, s.minT ≤ t ∧ t ≤ s.maxT

theorem overlaps_false (lo hi a b : Int) : overlaps lo hi a b = false ↔ (a > hi ∨ b < lo) := by
  simp only [overlaps, Bool.not_eq_false', Bool.or_eq_true, decide_eq_true_eq]

def rowsIn (d : DChunk) (lo hi : Int) : List Int :=
  d.segs.flatMap fun s => s.times.filter fun t => decide (lo ≤ t) && decide (t ≤ hi)

theorem filter_seg_overlap (d : DChunk) (m : MChunk) (hf : Faithful d m) (lo hi : Int) :
    ((d.segs.filter fun s => overlaps lo hi s.minT s.maxT).flatMap fun s =>
        s.times.filter fun t => decide (lo ≤ t) && decide (t ≤ hi)) = rowsIn d lo hi := by
  unfold rowsIn
  have : ∀ (segs : List DSeg), (∀ s ∈ segs, ∀ t ∈ s.times, s.minT ≤ t ∧ t ≤ s.maxT) →
      ((segs.filter fun s => overlaps lo hi s.minT s.maxT).flatMap fun s =>
        s.times.filter fun t => decide (lo ≤ t) && decide (t ≤ hi)) =
      segs.flatMap fun s => s.times.filter fun t => decide (lo ≤ t) && decide (t ≤ hi) := by
    intro segs
    induction segs with
    | nil => intro _; rfl
    | cons s segs ih =>
      intro h
      have ih' := ih (fun x hx => h x (by simp [hx]))
      by_cases ho : overlaps lo hi s.minT s.maxT = true
      · rw [List.filter_cons, if_pos ho, List.flatMap_cons, List.flatMap_cons, ih']
      · have ho' : overlaps lo hi s.minT s.maxT = false := by simpa using ho
        -- a segment that does not overlap holds no row of the range
        have hnil : (s.times.filter fun t => decide (lo ≤ t) && decide (t ≤ hi)) = [] := by
          apply List.filter_eq_nil_iff.2
          intro t ht
          have := h s (by simp) t ht
          have hd := (overlaps_false lo hi s.minT s.maxT).1 ho'
          simp only [Bool.and_eq_true, decide_eq_true_eq, not_and]
          intro h1 h2
          rcases hd with hd | hd <;> omega
        rw [List.filter_cons, if_neg ho, List.flatMap_cons, hnil, List.nil_append]
        exact ih'
  exact this d.segs hf.rowsIn

/-- when a range does not overlap the chunk's range the chunk holds no row of it. -/
theorem rowsIn_nil_of_disjoint (d : DChunk) (m : MChunk) (hf : Faithful d m) (lo hi a b : Int)
    (hcov : a ≤ m.minT ∧ m.maxT ≤ b) (ho : overlaps lo hi a b = false) : rowsIn d lo hi = [] := by
  unfold rowsIn
  apply List.flatMap_eq_nil_iff.2
  intro s hs
  apply List.filter_eq_nil_iff.2
  intro t ht
  have h1 := hf.segIn s hs
  have h2 := hf.rowsIn s hs t ht
  have ho' := (overlaps_false lo hi a b).1 ho
  simp only [Bool.and_eq_true, decide_eq_true_eq, not_and]
  intro h3 h4
  rcases ho' with ho' | ho' <;> omega

/-- **T14 (a pruned read loses nothing).** For a file written by a writer with its own block
comparisons, every chunk of the file, every time range: the read path returns exactly the rows
of the series in the range. -/
theorem bounded_read_eq_filter (limit : Nat) (ds : List DChunk) (mOf : DChunk → MChunk)
    (hf : ∀ d ∈ ds, Faithful d (mOf d))
    (hs : ds.Pairwise (fun a b => a.sid < b.sid)) (d : DChunk) (hd : d ∈ ds) (lo hi : Int) :
    let r := writeMeta .own limit (ds.map mOf)
    prunedRead r.1 r.2 ds d.sid lo hi = rowsIn d lo hi := by
  intro r
  have hsm : (ds.map mOf).Pairwise (fun a b => a.sid < b.sid) := by
    rw [List.pairwise_map]
    apply hs.imp_of_mem
    intro a b ha hb hab
    rw [(hf a ha).sid, (hf b hb).sid]; exact hab
  obtain ⟨hown, hmem, htr⟩ := writer_covers limit (ds.map mOf) hsm
  have hmd : mOf d ∈ ds.map mOf := List.mem_map.2 ⟨d, hd, rfl⟩
  have hne : ds.map mOf ≠ [] := by intro h; rw [h] at hmd; cases hmd
  obtain ⟨t, ht, htall⟩ := htr hne
  obtain ⟨b, hb, hcov⟩ := hown (mOf d) hmd
  have hsid := (hf d hd).sid
  obtain ⟨t1, t2, t3, t4⟩ := htall (mOf d) hmd
  rw [hsid] at hb t1 t2
  unfold prunedRead
  show (match r.2 with | none => [] | some t => _) = _
  rw [show r.2 = some t from ht]
  simp only
  have hidr : (d.sid < t.minId || t.maxId < d.sid) = false := by
    simp only [Bool.or_eq_false_iff, decide_eq_false_iff_not]; omega
  rw [hidr]
  simp only [Bool.false_eq_true, if_false]
  by_cases hot : overlaps lo hi t.minT t.maxT = true
  · simp only [hot, Bool.not_true, Bool.false_eq_true, if_false]
    rw [show lookupBlock r.1 d.sid = some b from hb]
    simp only
    by_cases hob : overlaps lo hi b.minT b.maxT = true
    · simp only [hob, Bool.not_true, Bool.false_eq_true, if_false]
      -- the chunk is found in the block
      have hfind : (ds.filter fun x => b.sids.contains x.sid).find? (·.sid == d.sid) = some d := by
        have hin : d ∈ ds.filter fun x => b.sids.contains x.sid := by
          apply List.mem_filter.2
          refine ⟨hd, ?_⟩
          have := hcov.1
          rw [hsid] at this
          simpa using this
        have huniq : ∀ x ∈ ds, x.sid = d.sid → x = d := by
          intro x hx hxs
          -- ascending ids: two chunks with one id are the same element
          have : ∀ (l : List DChunk), l.Pairwise (fun a b => a.sid < b.sid) → x ∈ l → d ∈ l → x.sid = d.sid → x = d := by
            intro l
            induction l with
            | nil => intro _ h; cases h
            | cons a l ih =>
              intro hp h1 h2 h3
              have hp' := List.pairwise_cons.1 hp
              simp only [List.mem_cons] at h1 h2
              rcases h1 with rfl | h1 <;> rcases h2 with rfl | h2
              · rfl
              · have := hp'.1 d h2; omega
              · have := hp'.1 x h1; omega
              · exact ih hp'.2 h1 h2 h3
          exact this ds hs hx hd hxs
        -- find? returns the first element with the id, which is d
        have : ∀ (l : List DChunk), d ∈ l → (∀ x ∈ l, x.sid = d.sid → x = d) → l.find? (·.sid == d.sid) = some d := by
          intro l
          induction l with
          | nil => intro h; cases h
          | cons a l ih =>
            intro h1 h2
            by_cases ha : a.sid = d.sid
            · have := h2 a (by simp) ha
              subst this
              simp [List.find?_cons]
            · have hne : (a.sid == d.sid) = false := by simpa using ha
              rw [List.find?_cons, hne]
              simp only [List.mem_cons] at h1
              rcases h1 with rfl | h1
              · exact absurd rfl ha
              · exact ih h1 (fun x hx => h2 x (by simp [hx]))
        exact this _ hin (fun x hx => huniq x (List.mem_filter.1 hx).1)
      rw [hfind]
      exact filter_seg_overlap d (mOf d) (hf d hd) lo hi
    · have hob' : overlaps lo hi b.minT b.maxT = false := by simpa using hob
      simp only [hob', Bool.not_false, if_true]
      exact (rowsIn_nil_of_disjoint d (mOf d) (hf d hd) lo hi b.minT b.maxT ⟨hcov.2.1, hcov.2.2⟩ hob').symm
  · have hot' : overlaps lo hi t.minT t.maxT = false := by simpa using hot
    simp only [hot', Bool.not_false, if_true]
    exact (rowsIn_nil_of_disjoint d (mOf d) (hf d hd) lo hi t.minT t.maxT ⟨t3, t4⟩ hot').symm

/-- **T15 (bounded reads survive a reorganisation).** Two files written by writers with their
own block comparisons (any block sizes) that hold the same rows of a series — the file before
and the file after a compaction or merge — answer every bounded read of it alike. -/
theorem bounded_read_unchanged_by_compaction (l1 l2 : Nat) (ds1 ds2 : List DChunk) (m1 m2 : DChunk → MChunk)
    (hf1 : ∀ d ∈ ds1, Faithful d (m1 d)) (hf2 : ∀ d ∈ ds2, Faithful d (m2 d))
    (hs1 : ds1.Pairwise (fun a b => a.sid < b.sid)) (hs2 : ds2.Pairwise (fun a b => a.sid < b.sid))
    (d1 d2 : DChunk) (h1 : d1 ∈ ds1) (h2 : d2 ∈ ds2) (hsid : d1.sid = d2.sid) (lo hi : Int)
    (hrows : rowsIn d1 lo hi = rowsIn d2 lo hi) :
    prunedRead (writeMeta .own l1 (ds1.map m1)).1 (writeMeta .own l1 (ds1.map m1)).2 ds1 d1.sid lo hi =
    prunedRead (writeMeta .own l2 (ds2.map m2)).1 (writeMeta .own l2 (ds2.map m2)).2 ds2 d1.sid lo hi := by
  rw [bounded_read_eq_filter l1 ds1 m1 hf1 hs1 d1 h1 lo hi, hsid,
    bounded_read_eq_filter l2 ds2 m2 hf2 hs2 d2 h2 lo hi, hrows]

/-! ### the seeded shape -/

/-- **with the block range widened only inside the trailer's comparisons, rows are lost**: two
chunk metas per block; series 1 and 2 cover [0,10]; series 3 — the first of the second block —
stops at 3, series 4 covers [0,10]. The second block is stored with the range [0,3]; a read of
series 4 bounded to [5,10] skips it. -/
theorem withTrailer_loses_rows :
    let ds : List DChunk := [⟨1, [⟨0, 10, [0, 10]⟩]⟩, ⟨2, [⟨0, 10, [0, 10]⟩]⟩, ⟨3, [⟨0, 3, [0, 3]⟩]⟩, ⟨4, [⟨0, 10, [0, 7, 10]⟩]⟩]
    let mOf : DChunk → MChunk := fun d => ⟨d.sid, (d.segs.map (·.minT)).foldl min 0, (d.segs.map (·.maxT)).foldl max 0⟩
    let r := writeMeta .withTrailer 2 (ds.map mOf)
    prunedRead r.1 r.2 ds 4 5 10 = [] ∧ rowsIn ⟨4, [⟨0, 10, [0, 7, 10]⟩]⟩ 5 10 = [7, 10] ∧
    (writeMeta .own 2 (ds.map mOf)).1.map (fun b => (b.id, b.minT, b.maxT)) = [(1, 0, 10), (3, 0, 10)] ∧
    r.1.map (fun b => (b.id, b.minT, b.maxT)) = [(1, 0, 10), (3, 0, 3)] := by
  decide

/-- non-vacuity of `bounded_read_eq_filter` on the same file with the writers' own comparisons. -/
example :
    let ds : List DChunk := [⟨1, [⟨0, 10, [0, 10]⟩]⟩, ⟨2, [⟨0, 10, [0, 10]⟩]⟩, ⟨3, [⟨0, 3, [0, 3]⟩]⟩, ⟨4, [⟨0, 10, [0, 7, 10]⟩]⟩]
    let mOf : DChunk → MChunk := fun d => ⟨d.sid, (d.segs.map (·.minT)).foldl min 0, (d.segs.map (·.maxT)).foldl max 0⟩
    let r := writeMeta .own 2 (ds.map mOf)
    prunedRead r.1 r.2 ds 4 5 10 = [7, 10] := by
  decide

end OG.C03
