/-
C03 — contents.  A reader looks a key up in the data files in precedence order: out-of-order
files newest first, then ordered files (OG.C02's `lookup` over the concatenated cells).  What a
new file holds is taken from C02: a compaction writes the merge of its inputs in precedence
order (`OG.C02.compact_equiv`), a merge writes the merged out-of-order files over the ordered
ones (`OG.C02.merge_equiv`) — here this is the hypothesis `Equiv N (U ++ G)`.

`layout_equiv` is the list-level heart: in the layout  X ++ U ++ Z ++ G ++ B  the block G may be
replaced by N ≡ U ++ G while any *prefix* U' of U (the newest of the merged out-of-order files)
is still there, provided no key of U occurs in Z (the files between the merged out-of-order
files and the rewritten ones).  `suffix_left_unsafe` shows that a *suffix* (deleting the newest
first) does change answers: the deletion order of `deleteUnorderedFiles` matters.
-/
import OG.C03.Protocol
import OG.C02.Lemmas

namespace OG.C03
open OG.C02

theorem lookup_prefix_none {P xs : List Cell} (h : P <+: xs) (k : Key) (hn : lookup k xs = none) :
    lookup k P = none := by
  obtain ⟨t, rfl⟩ := h
  rw [lookup_append] at hn
  cases hp : lookup k P with
  | none => rfl
  | some v => simp [hp] at hn

theorem lookup_prefix_some {P xs : List Cell} (h : P <+: xs) (k : Key) (v : String)
    (hs : lookup k P = some v) : lookup k xs = some v := by
  obtain ⟨t, rfl⟩ := h
  rw [lookup_append, hs]

/-- keys of `U` do not occur in `Z`. -/
def KeysDisjoint (U Z : List Cell) : Prop := ∀ c ∈ U, ∀ c' ∈ Z, c.key ≠ c'.key

theorem lookup_none_of_disjoint {U Z : List Cell} (h : KeysDisjoint U Z) (k : Key) (v : String)
    (hu : lookup k U = some v) : lookup k Z = none := by
  cases hz : lookup k Z with
  | none => rfl
  | some w =>
    obtain ⟨c, hc, hck⟩ := lookup_some_mem k U v hu
    obtain ⟨c', hc', hck'⟩ := lookup_some_mem k Z w hz
    exact absurd (hck.trans hck'.symm) (h c hc c' hc')

/-- **the layouts a reorganisation passes through read the same.** -/
theorem layout_equiv (X U' U Z N G B : List Cell) (hN : Equiv N (U ++ G)) (hpre : U' <+: U)
    (hdis : KeysDisjoint U Z) :
    Equiv (X ++ U' ++ Z ++ N ++ B) (X ++ U ++ Z ++ G ++ B) := by
  intro k
  have hNk := hN k
  simp only [lookup_append] at hNk ⊢
  cases hx : lookup k X with
  | some v => rfl
  | none =>
    cases hu : lookup k U with
    | none =>
      simp only [lookup_prefix_none hpre k hu, hu] at hNk ⊢
      cases hz : lookup k Z with
      | some v => rfl
      | none => simp only [hNk]
    | some v =>
      have hz := lookup_none_of_disjoint hdis k v hu
      simp only [hu, hz] at hNk ⊢
      cases hp : lookup k U' with
      | none => simp only [hNk]
      | some w =>
        have := lookup_prefix_some hpre k w hp
        rw [hu] at this
        simp only [this]

/-- the special case without merged out-of-order files: level and full compaction, the fast
self-merge (`N ≡ G`). -/
theorem layout_equiv_compact (X N G B : List Cell) (hN : Equiv N G) :
    Equiv (X ++ N ++ B) (X ++ G ++ B) := by
  have := layout_equiv X [] [] [] N G B (by simpa using hN) (List.prefix_refl _) (by intro c hc; simp at hc)
  simpa using this

/-- **the deletion order of the merged out-of-order files matters**: if the *newest* of them
were deleted first, the older one left behind would shadow the merged value. -/
theorem suffix_left_unsafe :
    ∃ (U U' N G : List Cell), U' <:+ U ∧ Equiv N (U ++ G) ∧ ¬ Equiv (U' ++ N) (U ++ G) := by
  refine ⟨[⟨0, 0, "f", "new"⟩, ⟨0, 0, "f", "old"⟩], [⟨0, 0, "f", "old"⟩], [⟨0, 0, "f", "new"⟩], [],
    ⟨[⟨0, 0, "f", "new"⟩], rfl⟩, ?_, ?_⟩
  · intro k
    by_cases hk : ((0 : Nat), (0 : Int), "f") = k
    · subst hk; decide
    · simp [lookup, Cell.key, hk]
  · intro h
    have := h (0, 0, "f")
    revert this
    decide

/-- **the merged file must hold its inputs in file (precedence) order.** The fast self-merge of
the pinned commit appended the chunks of a series in the order of their minimum time: the newer
out-of-order file `[t=2 ↦ x, t=5 ↦ new]` came first and the older file `[t=5 ↦ old]` was laid
over it. That merged file is not equivalent to its inputs (repaired in /repo: chunks of one
series are now merged by file sequence). -/
theorem selfmerge_minTime_order_unsafe :
    ∃ (newer older : List Cell),
      -- precedence order: the newer file first
      lookup (0, 5, "f") (newer ++ older) = some "new" ∧
      -- what the merge wrote: the older file laid over the newer one
      ¬ Equiv (older ++ newer) (newer ++ older) := by
  refine ⟨[⟨0, 2, "f", "x"⟩, ⟨0, 5, "f", "new"⟩], [⟨0, 5, "f", "old"⟩], by decide, ?_⟩
  intro h
  have := h (0, 5, "f")
  revert this
  decide

/-! ### from the disk to the layout -/

variable {α : Type} [DecidableEq α]

/-- what a reader consults: the cells of the visible data files, in the precedence order
`prec` (a list of (out-of-order?, name)). -/
def cellsOf (prec : List (Bool × α)) (content : Bool × α → List Cell) (d : Disk α) : List Cell :=
  (prec.filter fun p => decide ((⟨p.1, p.2, false⟩ : Ent α) ∈ d.files)).flatMap content

theorem filter_all {β : Type} (l : List β) (p : β → Bool) (h : ∀ x ∈ l, p x = true) : l.filter p = l :=
  List.filter_eq_self.2 h

theorem filter_none {β : Type} (l : List β) (p : β → Bool) (h : ∀ x ∈ l, p x = false) : l.filter p = [] :=
  List.filter_eq_nil_iff.2 (fun x hx => by simp [h x hx])

theorem flatMap_prefix {β γ : Type} (f : β → List γ) {l1 l2 : List β} (h : l1 <+: l2) :
    l1.flatMap f <+: l2.flatMap f := by
  obtain ⟨t, rfl⟩ := h
  rw [List.flatMap_append]
  exact List.prefix_append _ _

end OG.C03
