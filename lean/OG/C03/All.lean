/-
C03 — every property theorem of C03 under one module, so that one `lake build` and one axiom
audit cover them (the check builds and audits each module it lists separately, under the
shared build lock).
-/
import OG.C03.Props
import OG.C03.MultiAnswers2
import OG.C03.ColStore
import OG.C03.FullPlanProps
import OG.C03.MetaTie
import OG.C03.PreAggProps
