/-
C03 — no answer changes with TWO reorganisations in flight in one precedence list (a compaction
of the ordered files of a measurement next to a self-merge of its out-of-order files; or any
two of a family whose files appear in one list).

The single-reorganisation lemmas `cells_old` / `cells_new` ask every other file of the list to
exist before; here the rest of the list may hold names that do not exist (the new files of the
other reorganisation before it commits, its old files after): all that is asked of a rest
entry is that it is not a file of `r` and that the disk agrees with the reference file set on
it.  `answers_on` is the one-step lemma (disk `d` differs from the file set `F` only by `r`'s
outcome), `multi_answers_unchanged2` chains two steps through the hybrid file set "the second
reorganisation as recovery left it, everything else as before".
-/
import OG.C03.MultiAnswers

namespace OG.C03
open OG.C02

variable {α : Type} [DecidableEq α]

/-- the side conditions on the blocks, without asking the rest of the list to exist. -/
structure BlocksW (S : Setup α) (us : List α) (PX PZ PN PG PB : List (Bool × α)) : Prop where
  nodup : us.Nodup
  usIn : ∀ u ∈ us, (⟨true, u, false⟩ : Ent α) ∈ S.D0
  usNotOld : ∀ u ∈ us, ¬ S.isOld ⟨true, u, false⟩
  pn : ∀ p ∈ PN, p.1 = S.dir ∧ p.2 ∈ S.news
  pg : ∀ p ∈ PG, p.1 = S.dir ∧ p.2 ∈ S.olds
  rest : ∀ p ∈ PX ++ PZ ++ PB, ¬ S.isOld ⟨p.1, p.2, false⟩ ∧ ¬ S.isNew ⟨p.1, p.2, false⟩ ∧ ¬ (p.1 = true ∧ p.2 ∈ us)

variable (S : Setup α)

theorem cells_oldW (hv : S.Valid) (content : Bool × α → List Cell) (us : List α)
    (PX PZ PN PG PB : List (Bool × α)) (hb : BlocksW S us PX PZ PN PG PB) (d : Disk α)
    (hown : ∀ e : Ent α, e.tmp = false → (S.isOld e ∨ S.isNew e ∨ (e.ooo = true ∧ e.name ∈ us)) → (e ∈ d.files ↔ e ∈ S.D0))
    (hrest : ∀ p ∈ PX ++ PZ ++ PB, ((⟨p.1, p.2, false⟩ : Ent α) ∈ d.files ↔ (⟨p.1, p.2, false⟩ : Ent α) ∈ S.D0)) :
    cellsOf (precOf us PX PZ PN PG PB) content d =
      cellsOf PX content ⟨S.D0, .none⟩ ++ (blockU us).flatMap content ++ cellsOf PZ content ⟨S.D0, .none⟩
        ++ [] ++ PG.flatMap content ++ cellsOf PB content ⟨S.D0, .none⟩ := by
  have hr := hrest
  simp only [List.mem_append] at hr
  rw [cellsOf_blocks,
    cellsOf_congr PX content d ⟨S.D0, .none⟩ (fun p hp => hr p (Or.inl (Or.inl hp))),
    cellsOf_congr PZ content d ⟨S.D0, .none⟩ (fun p hp => hr p (Or.inl (Or.inr hp))),
    cellsOf_congr PB content d ⟨S.D0, .none⟩ (fun p hp => hr p (Or.inr hp)),
    cellsOf_all content d (blockU us) (by
      intro p hp
      simp only [blockU, List.mem_map, List.mem_reverse] at hp
      obtain ⟨u, hu, rfl⟩ := hp
      exact (hown _ rfl (Or.inr (Or.inr ⟨rfl, hu⟩))).2 (hb.usIn u hu)),
    cellsOf_none content d PN (by
      intro p hp hm
      obtain ⟨h1, h2⟩ := hb.pn p hp
      have := (hown ⟨p.1, p.2, false⟩ rfl (Or.inr (Or.inl ⟨h1, h2⟩))).1 hm
      rw [h1] at this
      exact hv.newsFresh _ h2 this),
    cellsOf_all content d PG (by
      intro p hp
      obtain ⟨h1, h2⟩ := hb.pg p hp
      have := (hown ⟨p.1, p.2, false⟩ rfl (Or.inl ⟨h1, h2⟩)).2
      apply this
      rw [h1]
      exact hv.oldsIn _ h2)]

theorem cells_newW (hv : S.Valid) (content : Bool × α → List Cell) (us : List α)
    (PX PZ PN PG PB : List (Bool × α)) (hb : BlocksW S us PX PZ PN PG PB) (j : Nat) (d : Disk α)
    (hown : ∀ e : Ent α, e.tmp = false → (S.isOld e ∨ S.isNew e ∨ (e.ooo = true ∧ e.name ∈ us)) →
      (e ∈ d.files ↔ S.newSet (us.take j) e))
    (hrest : ∀ p ∈ PX ++ PZ ++ PB, ((⟨p.1, p.2, false⟩ : Ent α) ∈ d.files ↔ (⟨p.1, p.2, false⟩ : Ent α) ∈ S.D0)) :
    cellsOf (precOf us PX PZ PN PG PB) content d =
      cellsOf PX content ⟨S.D0, .none⟩ ++ (blockU (us.drop j)).flatMap content ++ cellsOf PZ content ⟨S.D0, .none⟩
        ++ PN.flatMap content ++ [] ++ cellsOf PB content ⟨S.D0, .none⟩ := by
  have hr := hrest
  simp only [List.mem_append] at hr
  have hsplit : blockU us = blockU (us.drop j) ++ blockU (us.take j) := by
    unfold blockU
    rw [← List.map_append, ← List.reverse_append, List.take_append_drop]
  have hU : cellsOf (blockU us) content d = (blockU (us.drop j)).flatMap content := by
    rw [hsplit]
    have e1 : cellsOf (blockU (us.drop j) ++ blockU (us.take j)) content d =
        cellsOf (blockU (us.drop j)) content d ++ cellsOf (blockU (us.take j)) content d := by
      simp [cellsOf, List.filter_append, List.flatMap_append]
    rw [e1, cellsOf_all content d (blockU (us.drop j)), cellsOf_none content d (blockU (us.take j))]
    · simp
    · intro p hp hm
      simp only [blockU, List.mem_map, List.mem_reverse] at hp
      obtain ⟨u, hu, rfl⟩ := hp
      have := (hown ⟨true, u, false⟩ rfl (Or.inr (Or.inr ⟨rfl, List.mem_of_mem_take hu⟩))).1 hm
      exact this.2 ⟨rfl, hu⟩
    · intro p hp
      simp only [blockU, List.mem_map, List.mem_reverse] at hp
      obtain ⟨u, hu, rfl⟩ := hp
      have huin : u ∈ us := List.mem_of_mem_drop hu
      apply (hown ⟨true, u, false⟩ rfl (Or.inr (Or.inr ⟨rfl, huin⟩))).2
      refine ⟨Or.inl ⟨hb.usIn u huin, hb.usNotOld u huin⟩, ?_⟩
      rintro ⟨_, hm⟩
      have hnd := hb.nodup
      rw [← List.take_append_drop j us] at hnd
      exact (List.nodup_append.1 hnd).2.2 u hm u hu rfl
  rw [cellsOf_blocks, hU,
    cellsOf_congr PX content d ⟨S.D0, .none⟩ (fun p hp => hr p (Or.inl (Or.inl hp))),
    cellsOf_congr PZ content d ⟨S.D0, .none⟩ (fun p hp => hr p (Or.inl (Or.inr hp))),
    cellsOf_congr PB content d ⟨S.D0, .none⟩ (fun p hp => hr p (Or.inr hp)),
    cellsOf_all content d PN (by
      intro p hp
      obtain ⟨h1, h2⟩ := hb.pn p hp
      apply (hown ⟨p.1, p.2, false⟩ rfl (Or.inr (Or.inl ⟨h1, h2⟩))).2
      refine ⟨Or.inr ⟨h1, h2⟩, ?_⟩
      rintro ⟨ho, hm⟩
      have hu := hb.usIn p.2 (List.mem_of_mem_take hm)
      have : S.dir = true := by rw [← h1]; exact ho
      rw [← this] at hu
      exact hv.newsFresh _ h2 hu),
    cellsOf_none content d PG (by
      intro p hp hm
      obtain ⟨h1, h2⟩ := hb.pg p hp
      have hn := ((hown ⟨p.1, p.2, false⟩ rfl (Or.inl ⟨h1, h2⟩)).1 hm).1
      rcases hn with ⟨_, hno⟩ | hnew
      · exact hno ⟨h1, h2⟩
      · exact S.old_ne_new hv h2 hnew.2 rfl)]

/-- **one step**: a disk that differs from the file set `S.D0` only by the outcome of the
reorganisation `S` (undone, or applied with the first `j` merged out-of-order files deleted)
reads the same. -/
theorem answers_on (hv : S.Valid) (content : Bool × α → List Cell) (us : List α)
    (PX PZ PN PG PB : List (Bool × α)) (hb : BlocksW S us PX PZ PN PG PB)
    (hN : Equiv (PN.flatMap content) ((blockU us).flatMap content ++ PG.flatMap content))
    (hdis : KeysDisjoint ((blockU us).flatMap content) (cellsOf PZ content ⟨S.D0, .none⟩))
    (d : Disk α)
    (hown : (∀ e : Ent α, e.tmp = false → (S.isOld e ∨ S.isNew e ∨ (e.ooo = true ∧ e.name ∈ us)) → (e ∈ d.files ↔ e ∈ S.D0)) ∨
      (∃ j, ∀ e : Ent α, e.tmp = false → (S.isOld e ∨ S.isNew e ∨ (e.ooo = true ∧ e.name ∈ us)) →
        (e ∈ d.files ↔ S.newSet (us.take j) e)))
    (hrest : ∀ p ∈ PX ++ PZ ++ PB, ((⟨p.1, p.2, false⟩ : Ent α) ∈ d.files ↔ (⟨p.1, p.2, false⟩ : Ent α) ∈ S.D0)) :
    Equiv (cellsOf (precOf us PX PZ PN PG PB) content d) (cellsOf (precOf us PX PZ PN PG PB) content ⟨S.D0, .none⟩) := by
  rw [cells_oldW S hv content us PX PZ PN PG PB hb ⟨S.D0, .none⟩ (fun _ _ _ => Iff.rfl) (fun _ _ => Iff.rfl)]
  rcases hown with hold | ⟨j, hnew⟩
  · rw [cells_oldW S hv content us PX PZ PN PG PB hb d hold hrest]
    exact Equiv.refl _
  · rw [cells_newW S hv content us PX PZ PN PG PB hb j d hnew hrest]
    have hpre : (blockU (us.drop j)).flatMap content <+: (blockU us).flatMap content := by
      apply flatMap_prefix
      refine ⟨blockU (us.take j), ?_⟩
      unfold blockU
      rw [← List.map_append, ← List.reverse_append, List.take_append_drop]
    have := layout_equiv (cellsOf PX content ⟨S.D0, .none⟩) _ _ (cellsOf PZ content ⟨S.D0, .none⟩) (PN.flatMap content)
      (PG.flatMap content) (cellsOf PB content ⟨S.D0, .none⟩) hN hpre hdis
    simpa using this

/-! ### two reorganisations in one precedence list -/

omit [DecidableEq α] in
theorem keysDisjoint_cellsOf (U : List Cell) (l : List (Bool × α)) (content : Bool × α → List Cell) [DecidableEq α] (d : Disk α)
    (h : KeysDisjoint U (l.flatMap content)) : KeysDisjoint U (cellsOf l content d) := by
  intro c hc c' hc'
  apply h c hc c'
  unfold cellsOf at hc'
  simp only [List.mem_flatMap, List.mem_filter] at hc' ⊢
  obtain ⟨p, ⟨hp, _⟩, hcp⟩ := hc'
  exact ⟨p, hp, hcp⟩

/-- the files of `r` (final names). -/
def MReorg.owns (r : MReorg α) (D0 : List (Ent α)) (e : Ent α) : Prop :=
  (r.setup D0).isOld e ∨ (r.setup D0).isNew e ∨ (e.ooo = true ∧ e.name ∈ r.us)

theorem foot_of_owns (r : MReorg α) (D0 : List (Ent α)) (e : Ent α) (h : r.owns D0 e) : r.foot e.ooo e.name = true := by
  rcases h with ⟨h1, h2⟩ | ⟨h1, h2⟩ | ⟨h1, h2⟩
  · have h1' : e.ooo = !r.isOrd := h1
    have h2' : e.name ∈ r.olds := h2
    simp [MReorg.foot, h1', h2']
  · have h1' : e.ooo = !r.isOrd := h1
    have h2' : e.name ∈ r.news := h2
    simp [MReorg.foot, h1', h2']
  · simp [MReorg.foot, h1, h2]

theorem owns_of_foot (r : MReorg α) (D0 : List (Ent α)) (e : Ent α) (h : r.foot e.ooo e.name = true) : r.owns D0 e := by
  unfold MReorg.foot at h
  simp only [Bool.or_eq_true, Bool.and_eq_true, beq_iff_eq, List.contains_iff_mem] at h
  rcases h with ⟨h1, h2 | h2⟩ | ⟨h1, h2⟩
  · exact Or.inl ⟨h1, h2⟩
  · exact Or.inr (Or.inl ⟨h1, h2⟩)
  · exact Or.inr (Or.inr ⟨h1, h2⟩)

/-- **T7' (no answer changes, two reorganisations in one precedence list).** `r1` and `r2` of the
family both have files in the list `prec` (given with its block decomposition for each of them);
no third reorganisation touches the list.  After the crash and any start-up every key reads
what it read before. -/
theorem multi_answers_unchanged2 (D0 : List (Ent α)) (rs : List (MReorg α)) (hf : Family D0 rs)
    (r1 r2 : MReorg α) (hr1 : r1 ∈ rs) (hr2 : r2 ∈ rs) (hne : r1.nm ≠ r2.nm)
    (content : Bool × α → List Cell)
    (PX1 PZ1 PN1 PG1 PB1 PX2 PZ2 PN2 PG2 PB2 : List (Bool × α))
    (hsame : precOf r1.us PX1 PZ1 PN1 PG1 PB1 = precOf r2.us PX2 PZ2 PN2 PG2 PB2)
    (hb1 : ∀ F, (∀ e, r1.foot e.ooo e.name = true → (e ∈ F ↔ e ∈ D0)) → BlocksW (r1.setup F) r1.us PX1 PZ1 PN1 PG1 PB1)
    (hb2 : BlocksW (r2.setup D0) r2.us PX2 PZ2 PN2 PG2 PB2)
    (hothers : ∀ p ∈ precOf r1.us PX1 PZ1 PN1 PG1 PB1, ∀ r' ∈ rs, r'.nm ≠ r1.nm → r'.nm ≠ r2.nm → r'.foot p.1 p.2 = false)
    (hN1 : Equiv (PN1.flatMap content) ((blockU r1.us).flatMap content ++ PG1.flatMap content))
    (hN2 : Equiv (PN2.flatMap content) ((blockU r2.us).flatMap content ++ PG2.flatMap content))
    (hdis1 : KeysDisjoint ((blockU r1.us).flatMap content) (PZ1.flatMap content))
    (hdis2 : KeysDisjoint ((blockU r2.us).flatMap content) (PZ2.flatMap content))
    (l : List (Nat × Step α)) (hl : Interleaving rs l) (ks : List Nat) :
    Equiv (cellsOf (precOf r1.us PX1 PZ1 PN1 PG1 PB1) content
        ⟨(mrecoverWithCrashes contNow fixedNow ((⟨D0, []⟩ : MDisk α).run l) ks).files, .none⟩)
      (cellsOf (precOf r1.us PX1 PZ1 PN1 PG1 PB1) content ⟨D0, .none⟩) := by
  obtain ⟨hnoTmp, _, hout, hrestAll⟩ := multi_recovery_atomic D0 rs hf l hl ks
  generalize mrecoverWithCrashes contNow fixedNow ((⟨D0, []⟩ : MDisk α).run l) ks = d' at hnoTmp hout hrestAll
  -- the hybrid file set: r2's files as start-up left them, everything else as before
  let H : List (Ent α) := D0.filter (fun e => !r2.foot e.ooo e.name) ++ d'.files.filter (fun e => r2.foot e.ooo e.name)
  have hH : ∀ e : Ent α, e ∈ H ↔ (if r2.foot e.ooo e.name = true then e ∈ d'.files else e ∈ D0) := by
    intro e
    simp only [H, List.mem_append, List.mem_filter]
    cases h : r2.foot e.ooo e.name <;> simp
  have hdisj12 : ∀ o n, r1.foot o n = true → r2.foot o n = false := hf.disjoint r1 hr1 r2 hr2 hne
  have hH1 : ∀ e : Ent α, r1.foot e.ooo e.name = true → (e ∈ H ↔ e ∈ D0) := by
    intro e he
    rw [hH e, hdisj12 _ _ he]; simp
  have hv1 : (r1.setup H).Valid := by
    have hv := hf.valid r1 hr1
    refine ⟨?_, ?_, ?_⟩
    · intro e he
      have he' : e ∈ H := he
      rw [hH e] at he'
      split at he'
      · exact hnoTmp e he'
      · exact hf.clean e he'
    · intro o ho
      have ho' : o ∈ r1.olds := ho
      have hfo : r1.foot (!r1.isOrd) o = true := by simp [MReorg.foot, ho']
      exact (hH1 ⟨!r1.isOrd, o, false⟩ hfo).2 (hv.oldsIn o ho)
    · intro n hn hc
      have hn' : n ∈ r1.news := hn
      have hfo : r1.foot (!r1.isOrd) n = true := by simp [MReorg.foot, hn']
      exact hv.newsFresh n hn ((hH1 ⟨!r1.isOrd, n, false⟩ hfo).1 hc)
  have hbW1 := hb1 H hH1
  -- step A: d' against H (only r1's files differ)
  have hA : Equiv (cellsOf (precOf r1.us PX1 PZ1 PN1 PG1 PB1) content ⟨d'.files, .none⟩)
      (cellsOf (precOf r1.us PX1 PZ1 PN1 PG1 PB1) content ⟨H, .none⟩) := by
    apply answers_on (r1.setup H) hv1 content r1.us PX1 PZ1 PN1 PG1 PB1 hbW1 hN1
      (keysDisjoint_cellsOf _ PZ1 content _ hdis1) ⟨d'.files, .none⟩
    · rcases hout r1 hr1 with ⟨_, hold⟩ | ⟨_, j, hnew⟩
      · left
        intro e _ hown
        have hfo := foot_of_owns r1 H e hown
        show e ∈ d'.files ↔ e ∈ H
        rw [hold e hfo, hH1 e hfo]
      · right
        refine ⟨j, ?_⟩
        intro e het hown
        have hfo := foot_of_owns r1 H e hown
        show e ∈ d'.files ↔ _
        rw [hnew e hfo]
        have : (r1.setup H).newSet (r1.us.take j) e ↔ (r1.setup D0).newSet (r1.us.take j) e := by
          unfold Setup.newSet Setup.isOld Setup.isNew Setup.dir MReorg.setup
          simp only
          rw [hH1 e hfo]
        rw [this]
        simp [het]
    · intro p hp
      show (⟨p.1, p.2, false⟩ : Ent α) ∈ d'.files ↔ (⟨p.1, p.2, false⟩ : Ent α) ∈ H
      rw [hH ⟨p.1, p.2, false⟩]
      cases h2 : r2.foot p.1 p.2 with
      | true => simp
      | false =>
        simp only [Bool.false_eq_true, if_false]
        apply hrestAll ⟨p.1, p.2, false⟩
        intro r' hr'
        by_cases e1 : r'.nm = r1.nm
        · have : r' = r1 := eq_of_nm rs hf.namesNodup r1 r' hr1 hr' e1
          subst this
          -- a rest entry of r1's decomposition is not a file of r1
          obtain ⟨h1, h2', h3⟩ := hbW1.rest p hp
          cases hfo : r'.foot p.1 p.2 with
          | false => rfl
          | true =>
            exfalso
            rcases owns_of_foot r' H ⟨p.1, p.2, false⟩ hfo with h | h | h
            · exact h1 h
            · exact h2' h
            · exact h3 h
        · by_cases e2 : r'.nm = r2.nm
          · have : r' = r2 := eq_of_nm rs hf.namesNodup r2 r' hr2 hr' e2
            subst this
            exact h2
          · apply hothers p _ r' hr' e1 e2
            simp only [precOf, List.mem_append] at hp ⊢
            rcases hp with (hp | hp) | hp
            · exact Or.inl (Or.inl (Or.inl (Or.inl (Or.inl hp))))
            · exact Or.inl (Or.inl (Or.inl (Or.inr hp)))
            · exact Or.inr hp
  -- step B: H against D0 (only r2's files differ)
  have hB : Equiv (cellsOf (precOf r2.us PX2 PZ2 PN2 PG2 PB2) content ⟨H, .none⟩)
      (cellsOf (precOf r2.us PX2 PZ2 PN2 PG2 PB2) content ⟨D0, .none⟩) := by
    apply answers_on (r2.setup D0) (hf.valid r2 hr2) content r2.us PX2 PZ2 PN2 PG2 PB2 hb2 hN2
      (keysDisjoint_cellsOf _ PZ2 content _ hdis2) ⟨H, .none⟩
    · rcases hout r2 hr2 with ⟨_, hold⟩ | ⟨_, j, hnew⟩
      · left
        intro e _ hown
        have hfo := foot_of_owns r2 D0 e hown
        show e ∈ H ↔ e ∈ D0
        rw [hH e, hfo]; simp only [if_true]
        exact hold e hfo
      · right
        refine ⟨j, ?_⟩
        intro e het hown
        have hfo := foot_of_owns r2 D0 e hown
        show e ∈ H ↔ _
        rw [hH e, hfo]; simp only [if_true]
        rw [hnew e hfo]
        simp [het]
    · intro p hp
      show (⟨p.1, p.2, false⟩ : Ent α) ∈ H ↔ (⟨p.1, p.2, false⟩ : Ent α) ∈ D0
      rw [hH ⟨p.1, p.2, false⟩]
      obtain ⟨h1, h2', h3⟩ := hb2.rest p hp
      cases hfo : r2.foot p.1 p.2 with
      | false => simp
      | true =>
        exfalso
        rcases owns_of_foot r2 D0 ⟨p.1, p.2, false⟩ hfo with h | h | h
        · exact h1 h
        · exact h2' h
        · exact h3 h
  rw [hsame] at hA ⊢
  exact hA.trans hB

/-! ### the compaction paths -/

/-- **T12 (the path does not matter).** Streaming and non-streaming compaction (fast and streaming
self-merge) of the same inputs both write the merge of their inputs (`hN`), so their outputs read
the same, alone and inside any layout. -/
theorem paths_equiv (N1 N2 U G : List Cell) (h1 : Equiv N1 (U ++ G)) (h2 : Equiv N2 (U ++ G)) : Equiv N1 N2 :=
  h1.trans h2.symm

theorem paths_equiv_layout (X N1 N2 U G B : List Cell) (h1 : Equiv N1 (U ++ G)) (h2 : Equiv N2 (U ++ G)) :
    Equiv (X ++ N1 ++ B) (X ++ N2 ++ B) :=
  layout_equiv_compact X N1 N2 B (paths_equiv N1 N2 U G h1 h2)

/-! ### non-vacuity -/

/-- one measurement: ordered files 1, 2, 3 and out-of-order files 11, 12; a compaction of 1, 2 → 9
and a self-merge of 11, 12 → 19 in flight; the precedence list with both block decompositions. -/
example :
    let D0 : List (Ent Nat) := [⟨false, 1, false⟩, ⟨false, 2, false⟩, ⟨false, 3, false⟩, ⟨true, 11, false⟩, ⟨true, 12, false⟩]
    let r1 : MReorg Nat := ⟨7, true, [1, 2], [9], [], fun _ => false, 4⟩
    let r2 : MReorg Nat := ⟨3, false, [11, 12], [19], [], fun _ => false, 5⟩
    precOf r1.us [(true, 19), (true, 12), (true, 11)] [] [(false, 9)] [(false, 2), (false, 1)] [(false, 3)]
      = precOf r2.us [] [] [(true, 19)] [(true, 12), (true, 11)] [(false, 9), (false, 2), (false, 1), (false, 3)] ∧
    BlocksW (r2.setup D0) r2.us [] [] [(true, 19)] [(true, 12), (true, 11)] [(false, 9), (false, 2), (false, 1), (false, 3)] ∧
    (∀ F, BlocksW (r1.setup F) r1.us [(true, 19), (true, 12), (true, 11)] [] [(false, 9)] [(false, 2), (false, 1)] [(false, 3)]) := by
  intro D0 r1 r2
  refine ⟨by decide, ⟨by decide, (by intro u hu; cases hu), (by intro u hu; cases hu), by decide, by decide, ?_⟩, ?_⟩
  · intro p hp
    simp only [List.nil_append, List.mem_cons, List.not_mem_nil, or_false] at hp
    rcases hp with rfl | rfl | rfl | rfl <;> simp [Setup.isOld, Setup.isNew, Setup.dir, MReorg.setup, r2]
  · intro F
    refine ⟨by decide, (by intro u hu; cases hu), (by intro u hu; cases hu),
      (by intro p hp; simp only [List.mem_cons, List.not_mem_nil, or_false] at hp; subst hp; simp [Setup.dir, MReorg.setup, r1]),
      (by intro p hp; simp only [List.mem_cons, List.not_mem_nil, or_false] at hp; rcases hp with rfl | rfl <;> simp [Setup.dir, MReorg.setup, r1]), ?_⟩
    intro p hp
    simp only [List.append_nil, List.mem_append, List.mem_cons, List.not_mem_nil, or_false] at hp
    rcases hp with (rfl | rfl | rfl) | rfl <;> simp [Setup.isOld, Setup.isNew, Setup.dir, MReorg.setup, r1]

end OG.C03
