/-
C03 — column-store level compaction (engine/immutable/cs_mms_tables.go compactToLevel /
csImmTableImpl.ReplaceFiles, colstore_compact.go IteratorByRow.Flush / IteratorByBlock.Flush,
table.go WriteIntoFile).

The column-store path does not follow the replace protocol of the ts-store path: the compaction
itself publishes its output — `Flush` calls `WriteIntoFile(builder, tmp = true, …)`, which
creates the file as `<name>.init` and at once renames it (and its primary-key index) to the
final name (`RenameTmpFiles` / `RenameTmpFilesWithPKIndex`) — and only afterwards
`csImmTableImpl.ReplaceFiles` writes the compact log, deletes the old files and removes the log
(between the two it renames the skip-index files only).  So the order of the file-system
steps is

    create new.init … ; rename new.init → new … ; create + write log ; delete old … ; remove log

instead of `create … ; log ; rename … ; delete … ; remove log`.  A crash after a rename and
before the log write is complete leaves the new file under its final name next to all the old
files with nothing that tells start-up about it: both are loaded, every row twice.

Whether the compaction publishes before the log is the regenerated fact
`OG.Gen.C03.csCompactPublishesBeforeLog`; the phase order of `csImmTableImpl.ReplaceFiles` is
the regenerated `calls_csReplaceFiles` (skip-index and primary-key index files are not
modelled: an entry stands for a data file with its index files).
-/
import OG.C03.Props

namespace OG.C03

variable {α : Type} [DecidableEq α]

/-- one phase of `csImmTableImpl.ReplaceFiles`, by the name of the call that performs it
(`Remove` occurs twice in the regenerated sequence: the removal of an old file's skip-index
files inside the deletion loop — not modelled — and the removal of the log at the end). -/
def csPhaseSteps (olds news : List α) (inUse : α → Bool) : List String → List (Step α)
  | [] => []
  | "writeCompactedFileInfo" :: rest => [.createLog, .writeLog true olds news] ++ csPhaseSteps olds news inUse rest
  | "deleteFiles" :: rest => olds.map (deleteStep inUse false) ++ csPhaseSteps olds news inUse rest
  | ["Remove"] => [.removeLog]
  | _ :: rest => csPhaseSteps olds news inUse rest

/-- column-store compaction as written. -/
def csReorgSteps (olds news : List α) (inUse : α → Bool) : List (Step α) :=
  buildSteps true news
    ++ (if OG.Gen.C03.csCompactPublishesBeforeLog then news.map (.promote false) else [])
    ++ csPhaseSteps olds news inUse OG.Gen.C03.calls_csReplaceFiles

omit [DecidableEq α] in
theorem csReorgSteps_eq (olds news : List α) (inUse : α → Bool) :
    csReorgSteps olds news inUse =
      news.map (fun n => Step.create ⟨false, n, true⟩) ++ (news.map (.promote false)
        ++ ([.createLog, .writeLog true olds news] ++ (olds.map (deleteStep inUse false) ++ [.removeLog]))) := by
  simp [csReorgSteps, OG.Gen.C03.csCompactPublishesBeforeLog, OG.Gen.C03.calls_csReplaceFiles, csPhaseSteps, buildSteps]

def csCrashDisk (S : Setup α) (inUse : α → Bool) (k : Nat) : Disk α :=
  (⟨S.D0, .none⟩ : Disk α).run ((csReorgSteps S.olds S.news inUse).take k)

/-- crash atomicity of a column-store compaction (`S.isOrd = true`), for the crash points `ok k`. -/
def CsCrashAtomic (S : Setup α) (ok : Nat → Prop) : Prop :=
  ∀ (inUse : α → Bool) (k : Nat) (ks : List Nat), ok k →
    let d' := recoverWithCrashes fixedNow (csCrashDisk S inUse k) ks
    d'.noTmp ∧ (∀ i o n, d'.log ≠ .full i o n) ∧
    ((∀ e : Ent α, e ∈ d'.files ↔ e ∈ S.D0) ∨
     (∀ e : Ent α, e ∈ d'.files ↔ (e.tmp = false ∧ S.newSet [] e)))

/-- **the column-store compaction is not crash-atomic**: files 1 and 2 compacted into 9, killed
after the rename of 9 (`k = 2`: create, rename) — no log exists yet; start-up loads 1, 2 and 9. -/
theorem cs_crash_atomic_asWritten_fails :
    ¬ CsCrashAtomic (⟨[⟨false, 1, false⟩, ⟨false, 2, false⟩], true, [1, 2], [9]⟩ : Setup Nat) (fun _ => True) := by
  intro h
  obtain ⟨_, _, hcase⟩ := h (fun _ => false) 2 [] trivial
  have h9 : (⟨false, 9, false⟩ : Ent Nat) ∈ (recoverWithCrashes fixedNow
      (csCrashDisk (⟨[⟨false, 1, false⟩, ⟨false, 2, false⟩], true, [1, 2], [9]⟩ : Setup Nat) (fun _ => false) 2) []).files := by decide
  have h1 : (⟨false, 1, false⟩ : Ent Nat) ∈ (recoverWithCrashes fixedNow
      (csCrashDisk (⟨[⟨false, 1, false⟩, ⟨false, 2, false⟩], true, [1, 2], [9]⟩ : Setup Nat) (fun _ => false) 2) []).files := by decide
  rcases hcase with hold | hnew
  · have := (hold _).1 h9
    simp at this
  · have := ((hnew _).1 h1).2
    simp [Setup.newSet, Setup.isOld, Setup.isNew, Setup.dir] at this

/-- what start-up finds then: the old files and the new one. -/
example : (recoverWithCrashes fixedNow
    (csCrashDisk (⟨[⟨false, 1, false⟩, ⟨false, 2, false⟩], true, [1, 2], [9]⟩ : Setup Nat) (fun _ => false) 2) []).files
    = [⟨false, 9, false⟩, ⟨false, 1, false⟩, ⟨false, 2, false⟩] := by decide

/-! ### outside the window the protocol is atomic -/

/-- a file step and a log step commute. -/
theorem exec_file_log_comm (d : Disk α) (s t : Step α) (hs : s.isFile = true) (ht : t.isFile = false) :
    (d.exec s).exec t = (d.exec t).exec s := by
  cases t <;> simp [Step.isFile] at ht <;> cases s <;> simp [Step.isFile] at hs <;>
    simp only [Disk.exec] <;> (first | rfl | (split <;> simp_all))

theorem run_files_log_comm (l : List (Step α)) (t : Step α) (ht : t.isFile = false) :
    ∀ (d : Disk α), (∀ s ∈ l, s.isFile = true) → (d.run l).exec t = (d.exec t).run l := by
  induction l with
  | nil => intro d _; rfl
  | cons s l ih =>
    intro d h
    rw [run_cons, run_cons, ih _ (fun x hx => h x (by simp [hx])), exec_file_log_comm d s t (h s (by simp)) ht]

theorem run_take_append_ge (d : Disk α) (l1 l2 : List (Step α)) (k : Nat) (h : l1.length ≤ k) :
    d.run ((l1 ++ l2).take k) = (d.run l1).run (l2.take (k - l1.length)) := by
  rw [List.take_append, List.take_of_length_le h, run_append]

/-- once the renames and the log write are both done, the disk is the one the ts-store protocol
(log first, then renames) has at the same step count. -/
theorem csCrashDisk_eq_late (S : Setup α) (hord : S.isOrd = true) (inUse : α → Bool) (k : Nat)
    (hk : 2 * S.news.length + 2 ≤ k) : csCrashDisk S inUse k = crashDisk S [] inUse k := by
  unfold csCrashDisk crashDisk
  have e1 : csReorgSteps S.olds S.news inUse =
      (S.news.map (fun n => Step.create ⟨false, n, true⟩) ++ (S.news.map (.promote false) ++ [.createLog, .writeLog true S.olds S.news]))
        ++ (S.olds.map (deleteStep inUse false) ++ [.removeLog]) := by
    rw [csReorgSteps_eq]; simp
  have e2 : reorgSteps S.isOrd S.olds S.news [] inUse =
      (S.news.map (fun n => Step.create ⟨false, n, true⟩) ++ ([.createLog, .writeLog true S.olds S.news] ++ S.news.map (.promote false)))
        ++ (S.olds.map (deleteStep inUse false) ++ [.removeLog]) := by
    simp [reorgSteps, buildSteps, replaceSteps_eq, deleteUnorderedSteps, hord]
  have hlen1 : (S.news.map (fun n => Step.create ⟨false, n, true⟩) ++ (S.news.map (Step.promote false) ++ [Step.createLog, Step.writeLog true S.olds S.news])).length
      = 2 * S.news.length + 2 := by simp; omega
  have hlen2 : (S.news.map (fun n => Step.create ⟨false, n, true⟩) ++ ([Step.createLog, Step.writeLog true S.olds S.news] ++ S.news.map (Step.promote false))).length
      = 2 * S.news.length + 2 := by simp; omega
  have hrun : (⟨S.D0, .none⟩ : Disk α).run
        (S.news.map (fun n => Step.create ⟨false, n, true⟩) ++ (S.news.map (Step.promote false) ++ [Step.createLog, Step.writeLog true S.olds S.news]))
      = (⟨S.D0, .none⟩ : Disk α).run
        (S.news.map (fun n => Step.create ⟨false, n, true⟩) ++ ([Step.createLog, Step.writeLog true S.olds S.news] ++ S.news.map (Step.promote false))) := by
    simp only [run_append, run_cons, run_nil]
    have c1 := run_files_log_comm (S.news.map (Step.promote false)) Step.createLog rfl
      ((⟨S.D0, .none⟩ : Disk α).run (S.news.map (fun n => Step.create ⟨false, n, true⟩)))
      (by intro s hs; simp only [List.mem_map] at hs; obtain ⟨_, _, rfl⟩ := hs; rfl)
    have c2 := run_files_log_comm (S.news.map (Step.promote false)) (Step.writeLog true S.olds S.news) rfl
      (((⟨S.D0, .none⟩ : Disk α).run (S.news.map (fun n => Step.create ⟨false, n, true⟩))).exec .createLog)
      (by intro s hs; simp only [List.mem_map] at hs; obtain ⟨_, _, rfl⟩ := hs; rfl)
    rw [c1, c2]
  rw [e1, e2, run_take_append_ge _ _ _ k (by rw [hlen1]; exact hk), run_take_append_ge _ _ _ k (by rw [hlen2]; exact hk),
    hrun, hlen1, hlen2]

/-- before the first rename the disk is the one of the ts-store protocol at the same step count. -/
theorem csCrashDisk_eq_early (S : Setup α) (hord : S.isOrd = true) (inUse : α → Bool) (k : Nat)
    (hk : k ≤ S.news.length) : csCrashDisk S inUse k = crashDisk S [] inUse k := by
  unfold csCrashDisk crashDisk
  have e1 : csReorgSteps S.olds S.news inUse =
      S.news.map (fun n => Step.create ⟨false, n, true⟩) ++ (S.news.map (.promote false)
        ++ ([.createLog, .writeLog true S.olds S.news] ++ (S.olds.map (deleteStep inUse false) ++ [.removeLog]))) := csReorgSteps_eq _ _ _
  have e2 : reorgSteps S.isOrd S.olds S.news [] inUse =
      S.news.map (fun n => Step.create ⟨false, n, true⟩) ++ (([.createLog, .writeLog true S.olds S.news] ++ S.news.map (.promote false))
        ++ (S.olds.map (deleteStep inUse false) ++ [.removeLog])) := by
    simp [reorgSteps, buildSteps, replaceSteps_eq, deleteUnorderedSteps, hord]
  rw [e1, e2, List.take_append_of_le_length (by simpa using hk), List.take_append_of_le_length (by simpa using hk)]

/-- **`_partial`: outside the window the column-store compaction is crash-atomic** — a crash
before the first rename (`k ≤ |news|`) or once the log write is complete (`2·|news| + 2 ≤ k`). The
excluded crash points are exactly the defect class: a new file under its final name without a
complete log. -/
theorem cs_crash_atomic_partial (S : Setup α) (hv : S.Valid) (hord : S.isOrd = true) :
    CsCrashAtomic S (fun k => k ≤ S.news.length ∨ 2 * S.news.length + 2 ≤ k) := by
  intro inUse k ks hk d'
  have hd : csCrashDisk S inUse k = crashDisk S [] inUse k := by
    rcases hk with hk | hk
    · exact csCrashDisk_eq_early S hord inUse k hk
    · exact csCrashDisk_eq_late S hord inUse k hk
  have hd' : d' = recoverWithCrashes fixedNow (crashDisk S [] inUse k) ks := by
    show recoverWithCrashes fixedNow (csCrashDisk S inUse k) ks = _
    rw [hd]
  obtain ⟨h1, h2, h3⟩ := replace_crash_atomic S hv [] inUse k ks
  rw [hd']
  refine ⟨h1, h2, ?_⟩
  rcases h3 with ⟨_, hold⟩ | ⟨_, j, hnew⟩
  · exact Or.inl hold
  · right
    simpa using hnew

/-- non-vacuity of the hypotheses. -/
example : (⟨[⟨false, 1, false⟩, ⟨false, 2, false⟩], true, [1, 2], [9]⟩ : Setup Nat).Valid ∧
    (⟨[⟨false, 1, false⟩, ⟨false, 2, false⟩], true, [1, 2], [9]⟩ : Setup Nat).isOrd = true :=
  ⟨⟨by decide, by decide, by decide⟩, rfl⟩

end OG.C03
