/-
C03 — several reorganisations in flight in one shard, and the start-up loop over the
compact-log directory (compaction_file_info.go procCompactLog, mms_tables.go recoverFile).

Level compaction starts one task group per measurement and one goroutine per plan of a
measurement, the out-of-order merge one goroutine per measurement, and a self-merge of the
out-of-order files of a measurement runs next to a compaction of its ordered files: at a crash
any number of reorganisations can be in the middle of the replace protocol, each with its own
log file in the one `compact_log` directory of the shard.  Their file sets are disjoint (the
planner marks the files of a plan as taken: `MmsTables.acquire`, `inMerge`).

An `MDisk` is the set of directory entries of the whole shard (a name carries its measurement)
plus the log directory: a list of (log-file name, content).  A step is tagged with the name of
the log file of the reorganisation (or recovery action) that performs it; file steps ignore the
tag.  Start-up is the loop of procCompactLog, transcribed:

    for each log of the listing, in listing order (ReadDir: by name):
      dirty (too short / no trailer)  → `continue`              (the log stays)   [*]
      complete                        → processLog on the listing of its directory *now*,
                                        then remove the log (also after "invalid compact log")
    then the loader removes every `.init` entry.

[*] is the regenerated fact `OG.Gen.C03.dirtyLogSkipped` (parameter `cont`): with `cont = false`
the loop stops at the first dirty log (`return ErrDirtyLog`, which recoverFile tolerates), and
every log listed after it is left unprocessed.
Core-only, executable.
-/
import OG.C03.Model

namespace OG.C03

variable {α : Type} [DecidableEq α]

structure MDisk (α : Type) where
  files : List (Ent α)
  logs : List (Nat × Log α)       -- the log directory in listing order: (file name, content)
deriving DecidableEq, Repr

def Log.isNone : Log α → Bool
  | .none => true
  | _ => false

def Log.isFull : Log α → Bool
  | .full _ _ _ => true
  | _ => false

/-- the content of the log file `nm` (`.none`: no such file). -/
def getLog : List (Nat × Log α) → Nat → Log α
  | [], _ => .none
  | (m, l) :: rest, nm => if m = nm then l else getLog rest nm

def hasLog (ls : List (Nat × Log α)) (nm : Nat) : Bool := ls.any (·.1 == nm)

def replaceLog (ls : List (Nat × Log α)) (nm : Nat) (lg : Log α) : List (Nat × Log α) :=
  ls.map fun p => if p.1 = nm then (nm, lg) else p

def insertLog : List (Nat × Log α) → Nat → Log α → List (Nat × Log α)
  | [], nm, lg => [(nm, lg)]
  | (m, l) :: rest, nm, lg => if nm < m then (nm, lg) :: (m, l) :: rest else (m, l) :: insertLog rest nm lg

/-- write the log file `nm`: in place when it exists, else at its place in the listing. -/
def putLog (ls : List (Nat × Log α)) (nm : Nat) (lg : Log α) : List (Nat × Log α) :=
  if hasLog ls nm then replaceLog ls nm lg else insertLog ls nm lg

def dropLog (ls : List (Nat × Log α)) (nm : Nat) : List (Nat × Log α) := ls.filter (·.1 ≠ nm)

/-- one tagged step. -/
def MDisk.exec (d : MDisk α) : Nat × Step α → MDisk α
  | (nm, .createLog) => { d with logs := putLog d.logs nm .torn }
  | (nm, .writeLog i o n) => { d with logs := putLog d.logs nm (.full i o n) }
  | (nm, .removeLog) => { d with logs := dropLog d.logs nm }
  | (_, s) => { d with files := ((⟨d.files, .none⟩ : Disk α).exec s).files }

def MDisk.run (d : MDisk α) (steps : List (Nat × Step α)) : MDisk α := steps.foldl MDisk.exec d

/-- the file steps of a list, executed on a bare file list. -/
def runFiles (fs : List (Ent α)) (s : List (Step α)) : List (Ent α) := ((⟨fs, .none⟩ : Disk α).run s).files

/-- the loop of procCompactLog over the listing `ls`, the data files being `fs` when it starts.
`cont`: a dirty log is skipped (`continue`); otherwise the loop ends there (`return`). -/
def mlogSteps (cont fixed : Bool) : List (Nat × Log α) → List (Ent α) → List (Nat × Step α)
  | [], _ => []
  | (nm, .full i o n) :: rest, fs =>
    let s := processLog fixed fs i o n
    (s ++ [Step.removeLog]).map (fun x => (nm, x)) ++ mlogSteps cont fixed rest (runFiles fs s)
  | (_, _) :: rest, fs => if cont then mlogSteps cont fixed rest fs else []

/-- the loader over the whole shard: every `.init` entry is removed. -/
def mloaderSteps (fs : List (Ent α)) : List (Nat × Step α) :=
  (fs.filter (·.tmp)).map fun e => (0, Step.remove e)

/-- one uninterrupted start-up pass. -/
def mrecover1 (cont fixed : Bool) (d : MDisk α) : List (Nat × Step α) :=
  let s := mlogSteps cont fixed d.logs d.files
  s ++ mloaderSteps (d.run s).files

/-- start-up with crashes: every element of `ks` is an attempt killed after that many steps;
then one attempt runs to completion. -/
def mrecoverWithCrashes (cont fixed : Bool) : MDisk α → List Nat → MDisk α
  | d, [] => d.run (mrecover1 cont fixed d)
  | d, k :: ks => mrecoverWithCrashes cont fixed (d.run ((mrecover1 cont fixed d).take k)) ks

def MDisk.visible (d : MDisk α) : List (Ent α) := d.files.filter (!·.tmp)

def MDisk.noTmp (d : MDisk α) : Prop := ∀ e ∈ d.files, e.tmp = false

/-- no complete log is left. -/
def MDisk.noFullLog (d : MDisk α) : Prop := ∀ p ∈ d.logs, p.2.isFull = false

end OG.C03
