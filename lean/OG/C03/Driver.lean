/-
C03 — line-protocol driver of the replace-protocol model (core only).

  open <i>                                                        → ok
  reorg id=<r> ord=<0|1> old=<n,…> new=<n,…> us=<n,…> inuse=<n,…> files=<e,…>
        → steps <tokens> plan=<adjacent|BAD>
        the file-system steps the model expects for this reorganisation (creates first, sorted)
        and whether the plan has the shape the answer-preservation theorem needs
  crash r=<r> files=<e,…> log=<none|torn|full:<ord>:<old,…>:<new,…>>
        → rec files=<e,…> init=<k> log=<none|torn|full>
        the disk a start-up pass leaves when it finds this disk

  mcrash files=<e,…> logs=<logname>=<log>;<logname>=<log>;…
        → rec files=<e,…> init=<k> logs=<logname>:<torn|full>,…
        the same for a shard with several compact logs (several reorganisations in flight): the
        start-up loop over the log directory in the order of the log-file names, a dirty log
        skipped or ending the loop as the regenerated loop shape says; entry names carry their
        measurement (`o/<mst>/<file>`), the names inside a log too

  plan level=<l> min=<n> files=<level>:<seq>:<ext>,…
        → plans <i,i,…>;<i,i,…>;…
        one pass of the level-compaction planner over the ordered files of a measurement (in
        the order the shard keeps them); a plan is printed as the indexes of its files

  fullplan to=<l> parquet=<p> files=<level>:<seq>:<ext>,…
        → skipped | refused | groups <i,i,…>@<level>;…
        what one measurement contributes to a full-compaction plan (low-level mode when to > 0)

  meta w=<stream|builder|merge|any> limit=<n> chunks=<sid>:<minT>:<maxT>,…
        → blocks <id>:<minT>:<maxT>:<count>;… trailer <minId>:<maxId>:<minT>:<maxT>:<idCount>
        the meta index and the trailer the writer `w` builds for these chunks with `n` chunk
        metas per block (the writers' update rules, as regenerated)

Entries are `o/<name>` (measurement directory) or `u/<name>` (out-of-order sub-directory);
a name ending in the regenerated `.init` suffix is a temporary entry.  `files=` of a reorg line
lists the data files before the reorganisation in the order the shard keeps them (ascending
sequence): ordered files first, then out-of-order files.
-/
import OG.C03.Multi
import OG.C03.Plan
import OG.C03.FullPlan
import OG.C03.MetaNow

namespace OG.C03

def tmpSuffix : String := OG.Gen.C03.tmpFileSuffix

def splitList (s : String) : List String := if s == "" then [] else s.splitOn ","

def parseEnt (s : String) : Option (Ent String) :=
  let mk (o : Bool) (n : String) : Option (Ent String) :=
    if n == "" then none
    else if n.endsWith tmpSuffix then some ⟨o, (n.dropEnd tmpSuffix.length).toString, true⟩
    else some ⟨o, n, false⟩
  if s.startsWith "o/" then mk false (s.drop 2).toString
  else if s.startsWith "u/" then mk true (s.drop 2).toString
  else none

def showEnt (e : Ent String) : String :=
  (if e.ooo then "u/" else "o/") ++ e.name ++ (if e.tmp then tmpSuffix else "")

def sortDedup (xs : List String) : List String :=
  let a := (xs.toArray.qsort (· < ·)).toList
  a.foldr (fun x acc => match acc with
    | y :: _ => if x == y then acc else x :: acc
    | [] => [x]) []

def showStep : Step String → String
  | .create e => "C:" ++ showEnt e
  | .promote o n => "P:" ++ showEnt ⟨o, n, false⟩
  | .hide o n => "H:" ++ showEnt ⟨o, n, false⟩
  | .remove e => "R:" ++ showEnt e
  | .createLog => "L+"
  | .writeLog _ _ _ => "LW"
  | .removeLog => "L-"

def kvOf (toks : List String) (k : String) : Option String :=
  (toks.find? (·.startsWith (k ++ "="))).map (fun t => (t.drop (k.length + 1)).toString)

def parseLog (s : String) : Option (Log String) :=
  if s == "none" then some .none
  else if s == "torn" then some .torn
  else match s.splitOn ":" with
    | ["full", o, olds, news] =>
      if o == "1" then some (.full true (splitList olds) (splitList news))
      else if o == "0" then some (.full false (splitList olds) (splitList news))
      else none
    | _ => none

def showLog : Log String → String
  | .none => "none"
  | .torn => "torn"
  | .full _ _ _ => "full"

structure DState where
  dummy : Unit := ()

def step (line : String) : String :=
  let toks := (line.trimAscii.toString.splitOn " ").filter (· ≠ "")
  match toks with
  | ["open", _] => "ok"
  | "reorg" :: rest =>
    match kvOf rest "ord", kvOf rest "old", kvOf rest "new", kvOf rest "us", kvOf rest "inuse", kvOf rest "files" with
    | some o, some olds, some news, some us, some inuse, some files =>
      match (splitList files).mapM parseEnt with
      | some fs =>
        let isOrd := o == "1"
        let olds := splitList olds
        let news := splitList news
        let us := splitList us
        let inuse := splitList inuse
        let dirO := !isOrd
        -- what ReplaceFiles requires of its arguments, and what the planner guarantees
        if (o != "0" && o != "1") || olds.isEmpty || news.isEmpty
            || fs.any (·.tmp)
            || olds.any (fun x => !fs.contains ⟨dirO, x, false⟩)
            || news.any (fun x => fs.contains ⟨dirO, x, false⟩)
            || us.any (fun x => !fs.contains ⟨true, x, false⟩) then "bad-op"
        else
          let steps := reorgSteps isOrd olds news us (fun n => inuse.contains n)
          let creates := sortDedup ((steps.filter fun s => match s with | .create _ => true | _ => false).map showStep)
          let rest := (steps.filter fun s => match s with | .create _ => false | _ => true).map showStep
          let ordL := (fs.filter (!·.ooo)).map (·.name)
          let oooL := (fs.filter (·.ooo)).map (·.name)
          "steps " ++ String.intercalate " " (creates ++ rest)
            ++ (if planOK isOrd ordL oooL olds us then " plan=adjacent" else " plan=BAD")
      | none => "bad-op"
    | _, _, _, _, _, _ => "bad-op"
  | "crash" :: rest =>
    match kvOf rest "files", kvOf rest "log" with
    | some files, some lg =>
      match (splitList files).mapM parseEnt, parseLog lg with
      | some fs, some l =>
        let d : Disk String := ⟨fs, l⟩
        let d' := recoverWithCrashes OG.Gen.C03.processLogHonoursIsOrder d []
        "rec files=" ++ String.intercalate "," (sortDedup (d'.visible.map showEnt))
          ++ " init=" ++ toString (sortDedup ((d'.files.filter (·.tmp)).map showEnt)).length
          ++ " log=" ++ showLog d'.log
      | _, _ => "bad-op"
    | _, _ => "bad-op"
  | "plan" :: rest =>
    match (kvOf rest "level").bind (·.toNat?), (kvOf rest "min").bind (·.toNat?), kvOf rest "files" with
    | some level, some minN, some files =>
      let parsed := (splitList files).map fun t =>
        match (t.splitOn ":").map (·.toNat?) with
        | [some l, some sq, some e] => some (⟨l, sq, e⟩ : PF)
        | _ => none
      match parsed.mapM id with
      | some fs =>
        if !sortedPF fs then "bad-op"       -- the shard keeps them sorted, no two files share (sequence, extent)
        else
          -- indexes: the files are pairwise distinct (sorted strictly), so position = first match
          let idxOf (f : PF) : Nat := (fs.findIdx? (· == f)).getD fs.length
          "plans " ++ String.intercalate ";" ((mmsPlan level minN fs).map fun g =>
            String.intercalate "," (g.map fun f => toString (idxOf f)))
      | none => "bad-op"
    | _, _, _ => "bad-op"
  | "fullplan" :: rest =>
    match (kvOf rest "to").bind (·.toNat?), (kvOf rest "parquet").bind (·.toNat?), kvOf rest "files" with
    | some toLevel, some parquet, some files =>
      let parsed := (splitList files).map fun t =>
        match (t.splitOn ":").map (·.toNat?) with
        | [some l, some sq, some e] => some (⟨l, sq, e⟩ : PF)
        | _ => none
      match parsed.mapM id with
      | some fs =>
        if !sortedPF fs then "bad-op"
        else
          let idxOf (f : PF) : Nat := (fs.findIdx? (· == f)).getD fs.length
          match buildFullPlan toLevel parquet fs with
          | .skipped => "skipped"
          | .refused => "refused"
          | .groups gs => "groups " ++ String.intercalate ";" (gs.map fun (g, l) =>
              String.intercalate "," (g.map fun f => toString (idxOf f)) ++ "@" ++ toString l)
      | none => "bad-op"
    | _, _, _ => "bad-op"
  | "meta" :: rest =>
    match kvOf rest "w", (kvOf rest "limit").bind (·.toNat?), kvOf rest "chunks" with
    | some w, some limit, some chunks =>
      let parsed := (splitList chunks).map fun t =>
        match t.splitOn ":" with
        | [a, b, c] => match a.toNat?, b.toInt?, c.toInt? with
          | some sid, some mn, some mx => some (⟨sid, mn, mx⟩ : MChunk)
          | _, _, _ => none
        | _ => none
      match parsed.mapM id with
      | some cs =>
        if limit == 0 || cs.isEmpty then "bad-op"
        else
          let (bs, tr) := writeMeta (updNow w) limit cs
          "blocks " ++ String.intercalate ";" (bs.map fun b => s!"{b.id}:{b.minT}:{b.maxT}:{b.count}")
            ++ (match tr with
                | some t => s!" trailer {t.minId}:{t.maxId}:{t.minT}:{t.maxT}:{t.idCount}"
                | none => " trailer none")
      | none => "bad-op"
    | _, _, _ => "bad-op"
  | "mcrash" :: rest =>
    match kvOf rest "files", kvOf rest "logs" with
    | some files, some lgs =>
      let parts := (if lgs == "" then [] else lgs.splitOn ";").map fun p =>
        match p.splitOn "=" with
        | [nm, l] => (parseLog l).bind fun lg => if nm == "" || lg.isNone then none else some (nm, lg)
        | _ => none
      match (splitList files).mapM parseEnt, parts.mapM id with
      | some fs, some ls =>
        -- the listing of the log directory: by file name
        let sorted := (ls.toArray.qsort (fun a b => a.1 < b.1)).toList
        if (sorted.map (·.1)) != sortDedup (ls.map (·.1)) then "bad-op"   -- a name twice
        else
          let names := sorted.map (·.1)
          let d : MDisk String := ⟨fs, sorted.zipIdx.map fun (p, i) => (i, p.2)⟩
          let d' := mrecoverWithCrashes OG.Gen.C03.dirtyLogSkipped OG.Gen.C03.processLogHonoursIsOrder d []
          "rec files=" ++ String.intercalate "," (sortDedup (d'.visible.map showEnt))
            ++ " init=" ++ toString (sortDedup ((d'.files.filter (·.tmp)).map showEnt)).length
            ++ " logs=" ++ String.intercalate "," (d'.logs.map fun (i, l) => names.getD i "?" ++ ":" ++ showLog l)
      | _, _ => "bad-op"
    | _, _ => "bad-op"
  | _ => "bad-op"

partial def loop (i : IO.FS.Stream) (o : IO.FS.Stream) : IO Unit := do
  let line ← i.getLine
  if line.isEmpty then return ()
  o.putStrLn (step line)
  loop i o

def main : IO Unit := do
  loop (← IO.getStdin) (← IO.getStdout)

end OG.C03
