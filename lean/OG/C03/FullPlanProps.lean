/-
C03 — the groups of a full compaction are contiguous blocks, and their output keeps the order.
-/
import OG.C03.FullPlan
import OG.C03.PlanProps

namespace OG.C03

/-- what `lowRuns_ok` says about one run `g` of `files`. -/
structure RunOK (level : Nat) (files g : List PF) : Prop where
  block : ∃ A B, files = A ++ g ++ B ∧
    (∀ p, A.getLast? = some p → level ≤ p.level) ∧ (∀ b, B.head? = some b → level ≤ b.level)
  low : ∀ f ∈ g, f.level < level
  nonempty : g ≠ []

theorem lowRuns_walk (level : Nat) : ∀ (rest pre cur : List PF),
    (∀ f ∈ cur, f.level < level) → (∀ p, pre.getLast? = some p → level ≤ p.level) →
    ∀ g ∈ lowRuns level rest cur, RunOK level (pre ++ cur ++ rest) g := by
  intro rest
  induction rest with
  | nil =>
    intro pre cur hcur hpre g hg
    simp only [lowRuns] at hg
    split at hg
    · cases hg
    · rename_i hne
      simp only [List.mem_singleton] at hg
      subst hg
      exact ⟨⟨pre, [], by simp, hpre, by intro b hb; cases hb⟩, hcur, by intro hc; simp [hc] at hne⟩
  | cons f rest ih =>
    intro pre cur hcur hpre g hg
    unfold lowRuns at hg
    by_cases hf : f.level < level
    · rw [if_pos hf] at hg
      have := ih pre (cur ++ [f]) (by
        intro x hx
        simp only [List.mem_append, List.mem_singleton] at hx
        rcases hx with hx | rfl
        · exact hcur x hx
        · exact hf) hpre g hg
      simpa using this
    · rw [if_neg hf] at hg
      simp only [List.mem_append] at hg
      rcases hg with hg | hg
      · split at hg
        · cases hg
        · rename_i hne
          simp only [List.mem_singleton] at hg
          subst hg
          refine ⟨⟨pre, f :: rest, by simp, hpre, ?_⟩, hcur, by intro hc; simp [hc] at hne⟩
          intro b hb
          simp only [List.head?_cons, Option.some.injEq] at hb
          subst hb
          omega
      · have := ih (pre ++ cur ++ [f]) [] (by simp) (by
          intro p hp
          simp only [List.getLast?_append, List.getLast?_singleton, Option.some_or, Option.some.injEq] at hp
          subst hp
          omega) g hg
        simpa using this

/-- **T10 (low-level runs).** Every group of the low-level mode is a non-empty contiguous block
of files below the level, bounded on both sides by a file at or above it. -/
theorem lowRuns_ok (level : Nat) (files : List PF) :
    ∀ g ∈ lowRuns level files [], RunOK level files g := by
  intro g hg
  have := lowRuns_walk level files [] [] (by simp) (by simp) g hg
  simpa using this

/-- **T11 (a full compaction keeps the order).** On a sorted list in which the parts of one
sequence share their level, the output of a low-level run — named after the sequence of its
first file — sorts strictly after everything before the run and strictly before everything
after it.  (The group of the normal mode is the whole list: nothing lies on either side.) -/
theorem fullPlan_preserves_order (level : Nat) (files : List PF)
    (hs : sortedPF files = true) (hl : sameSeqSameLevel files) (g : List PF) (hg : g ∈ lowRuns level files []) :
    ∃ A B h, files = A ++ g ++ B ∧ g.head? = some h ∧
      (∀ a ∈ A, a.seq < h.seq) ∧ (∀ b ∈ B, h.seq < b.seq) := by
  obtain ⟨⟨A, B, hfiles, hleft, hright⟩, hlow, hne⟩ := lowRuns_ok level files g hg
  cases hgc : g with
  | nil => exact absurd hgc hne
  | cons h gt =>
    have hhf : h ∈ files := by rw [hfiles, hgc]; simp
    have hhl : h.level < level := hlow h (by rw [hgc]; simp)
    refine ⟨A, B, h, by rw [← hgc]; exact hfiles, rfl, ?_, ?_⟩
    · intro a ha
      have hle : a.seq ≤ h.seq := by
        apply sorted_append_le A (g ++ B) (by rw [← List.append_assoc, ← hfiles]; exact hs) a ha h
        rw [hgc]; simp
      rcases Nat.lt_or_ge a.seq h.seq with hlt | hge
      · exact hlt
      · exfalso
        have hAne : A ≠ [] := by intro hc; subst hc; cases ha
        obtain ⟨p, hp⟩ : ∃ p, A.getLast? = some p := by
          cases hA : A.getLast? with
          | none => exact absurd (List.getLast?_eq_none_iff.1 hA) hAne
          | some p => exact ⟨p, rfl⟩
        have hpA : p ∈ A := List.mem_of_getLast? hp
        have hph : p.seq ≤ h.seq := by
          apply sorted_append_le A (g ++ B) (by rw [← List.append_assoc, ← hfiles]; exact hs) p hpA h
          rw [hgc]; simp
        have hap : a.seq ≤ p.seq := by
          obtain ⟨A', hA'⟩ : ∃ A', A = A' ++ [p] := List.getLast?_eq_some_iff.1 hp
          subst hA'
          simp only [List.mem_append, List.mem_singleton] at ha
          rcases ha with ha | rfl
          · have hs' : sortedPF (A' ++ ([p] ++ (g ++ B))) = true := by
              have : A' ++ [p] ++ g ++ B = A' ++ ([p] ++ (g ++ B)) := by simp
              rw [← this, ← hfiles]; exact hs
            exact sorted_append_le A' ([p] ++ (g ++ B)) hs' a ha p (by simp)
          · exact Nat.le_refl _
        have hpeq : p.seq = h.seq := by omega
        have hpf : p ∈ files := by rw [hfiles]; simp [hpA]
        have := hl p hpf h hhf hpeq
        have := hleft p hp
        omega
    · intro b hb
      cases hBc : B with
      | nil => rw [hBc] at hb; cases hb
      | cons b0 Bt =>
        have hsB : sortedPF (g ++ B) = true := sorted_append_right A (g ++ B) (by rw [← List.append_assoc, ← hfiles]; exact hs)
        have hb0b : b0.seq ≤ b.seq := by
          rw [hBc] at hb
          simp only [List.mem_cons] at hb
          rcases hb with rfl | hb
          · exact Nat.le_refl _
          · have : sortedPF (b0 :: Bt) = true := by rw [← hBc]; exact sorted_append_right g B hsB
            exact sorted_seq_le Bt b0 this b hb
        have hhb0 : h.seq ≤ b0.seq := sorted_append_le g B hsB h (by rw [hgc]; simp) b0 (by rw [hBc]; simp)
        rcases Nat.lt_or_ge h.seq b0.seq with hlt | hge
        · omega
        · exfalso
          have heq : b0.seq = h.seq := Nat.le_antisymm hge hhb0
          have hb0f : b0 ∈ files := by rw [hfiles, hBc]; simp
          have := hl b0 hb0f h hhf heq
          have := hright b0 (by rw [hBc]; rfl)
          omega

/-! ### non-vacuity -/

example : buildFullPlan 2 0 [⟨0, 1, 0⟩, ⟨1, 2, 0⟩, ⟨2, 3, 0⟩, ⟨0, 4, 0⟩, ⟨3, 5, 0⟩, ⟨1, 6, 0⟩]
    = .groups [([⟨0, 1, 0⟩, ⟨1, 2, 0⟩], 2), ([⟨0, 4, 0⟩], 2), ([⟨1, 6, 0⟩], 2)] := by decide

example : buildFullPlan 0 0 [⟨0, 1, 0⟩, ⟨2, 2, 0⟩] = .groups [([⟨0, 1, 0⟩, ⟨2, 2, 0⟩], 3)] := by decide
example : buildFullPlan 0 2 [⟨0, 1, 0⟩, ⟨2, 2, 0⟩] = .refused := by decide
example : buildFullPlan 0 0 [⟨3, 7, 0⟩, ⟨3, 7, 1⟩, ⟨3, 7, 2⟩] = .skipped := by decide

end OG.C03
