/-
C03 — property theorems for several reorganisations in flight at the crash.

`multi_recovery_atomic`: for any family of reorganisations with pairwise disjoint file sets,
each with its own log file (any names), any interleaving of their steps, a crash after any
number of steps of each, any number of killed start-up passes and a complete one: no `.init`
file and no complete log remain, every reorganisation is — independently of all the others and
of the order of the log files in the directory — either completely undone (its files are the
ones before) or completely applied (old files gone, new files there, a prefix of its merged
out-of-order files deleted), and no other file changed.  Which of the two depends only on
whether *its own* log write completed.

The loop shape of procCompactLog enters through the regenerated `OG.Gen.C03.dirtyLogSkipped`
(`contNow`): with a loop that stops at a dirty log the statement is false
(`multi_atomic_stopAtDirty_fails`, the witness is the crash image of seeded change C03-1).
-/
import OG.C03.Props
import OG.C03.MultiLemmas

namespace OG.C03

variable {α : Type} [DecidableEq α]

abbrev contNow : Bool := OG.Gen.C03.dirtyLogSkipped

theorem contNow_true : contNow = true := by rfl

/-- one reorganisation in flight: the name of its log file, its parameters, and the number of
steps the crash let it do. -/
structure MReorg (α : Type) where
  nm : Nat
  isOrd : Bool
  olds : List α
  news : List α
  us : List α
  inUse : α → Bool
  k : Nat

namespace MReorg

def setup (r : MReorg α) (D0 : List (Ent α)) : Setup α := ⟨D0, r.isOrd, r.olds, r.news⟩

def steps (r : MReorg α) : List (Step α) := reorgSteps r.isOrd r.olds r.news r.us r.inUse

/-- the files the reorganisation works on: the old and the new names in its directory, the
merged out-of-order files. -/
def foot (r : MReorg α) (o : Bool) (n : α) : Bool :=
  (o == !r.isOrd && (r.olds.contains n || r.news.contains n)) || (o && r.us.contains n)

end MReorg

/-- `l` is an interleaving of the first `k` steps of every reorganisation of the family. -/
def Interleaving (rs : List (MReorg α)) (l : List (Nat × Step α)) : Prop :=
  (∀ ts ∈ l, ∃ r ∈ rs, ts.1 = r.nm) ∧
  ∀ r ∈ rs, (l.filter (fun ts => ts.1 == r.nm)).map (·.2) = r.steps.take r.k

/-- the family: the files before are all under final names, distinct log-file names, pairwise disjoint file sets, each reorganisation
valid on the files before (old files present, new names fresh). -/
structure Family (D0 : List (Ent α)) (rs : List (MReorg α)) : Prop where
  clean : ∀ e ∈ D0, e.tmp = false
  namesNodup : (rs.map (·.nm)).Nodup
  disjoint : ∀ r ∈ rs, ∀ r' ∈ rs, r.nm ≠ r'.nm → ∀ o n, r.foot o n = true → r'.foot o n = false
  valid : ∀ r ∈ rs, (r.setup D0).Valid

/-- what start-up must leave of one reorganisation, on its own files. -/
def Outcome (D0 : List (Ent α)) (r : MReorg α) (d' : MDisk α) : Prop :=
  (r.k < r.news.length + 2 ∧ ∀ e : Ent α, r.foot e.ooo e.name = true → (e ∈ d'.files ↔ e ∈ D0)) ∨
  (r.news.length + 2 ≤ r.k ∧ ∃ j, ∀ e : Ent α, r.foot e.ooo e.name = true →
      (e ∈ d'.files ↔ (e.tmp = false ∧ (r.setup D0).newSet (r.us.take j) e)))

/-- the statement, for a loop that skips (`cont = true`) or stops at (`false`) a dirty log. -/
def MultiAtomic (cont : Bool) (D0 : List (Ent α)) (rs : List (MReorg α)) : Prop :=
  ∀ (l : List (Nat × Step α)), Interleaving rs l → ∀ ks : List Nat,
    let d' := mrecoverWithCrashes cont fixedNow ((⟨D0, []⟩ : MDisk α).run l) ks
    d'.noTmp ∧ d'.noFullLog ∧ (∀ r ∈ rs, Outcome D0 r d') ∧
    (∀ e : Ent α, (∀ r ∈ rs, r.foot e.ooo e.name = false) → (e ∈ d'.files ↔ e ∈ D0))

/-! ### the steps of a reorganisation stay on its files -/

theorem reorgSteps_ents (r : MReorg α) (s : Step α) (hs : s ∈ r.steps) :
    (∃ o n, s.ent? = some (o, n) ∧ r.foot o n = true) ∨ s.ent? = none := by
  unfold MReorg.steps reorgSteps at hs
  rw [replaceSteps_eq] at hs
  simp only [buildSteps, deleteUnorderedSteps, List.mem_append, List.mem_map, List.mem_cons,
    List.mem_singleton, List.not_mem_nil, or_false] at hs
  rcases hs with (⟨n, hn, rfl⟩ | (rfl | rfl) | ⟨n, hn, rfl⟩ | ⟨o, ho, rfl⟩ | rfl) | ⟨u, hu, rfl⟩
  · left; exact ⟨_, n, rfl, by simp [MReorg.foot, hn]⟩
  · right; rfl
  · right; rfl
  · left; exact ⟨_, n, rfl, by simp [MReorg.foot, hn]⟩
  · left
    unfold deleteStep
    split
    · exact ⟨_, o, rfl, by simp [MReorg.foot, ho]⟩
    · exact ⟨_, o, rfl, by simp [MReorg.foot, ho]⟩
  · right; rfl
  · left
    unfold deleteStep
    split
    · exact ⟨_, u, rfl, by simp [MReorg.foot, hu]⟩
    · exact ⟨_, u, rfl, by simp [MReorg.foot, hu]⟩

/-- distinct log-file names: a reorganisation of the family is determined by its log name. -/
theorem eq_of_nm : ∀ (rs : List (MReorg α)), (rs.map (·.nm)).Nodup → ∀ r r' : MReorg α, r ∈ rs → r' ∈ rs →
    r'.nm = r.nm → r' = r := by
  intro rs
  induction rs with
  | nil => intro _ r r' h; cases h
  | cons a rs ih =>
    intro hnd r r' h1 h2 h3
    simp only [List.map_cons, List.nodup_cons, List.mem_map, not_exists, not_and] at hnd
    simp only [List.mem_cons] at h1 h2
    rcases h1 with rfl | h1 <;> rcases h2 with rfl | h2
    · rfl
    · exact absurd h3 (hnd.1 r' h2)
    · exact absurd h3.symm (hnd.1 r h1)
    · exact ih hnd.2 r r' h1 h2 h3

/-- in an interleaving, the steps that touch the files and the log of `r` are `r`'s own. -/
theorem interleaving_touches (D0 : List (Ent α)) (rs : List (MReorg α)) (hf : Family D0 rs)
    (l : List (Nat × Step α)) (hl : Interleaving rs l) (r : MReorg α) (hr : r ∈ rs) :
    (l.filter (touches r.foot (some r.nm))).map (·.2) = r.steps.take r.k := by
  rw [← hl.2 r hr]
  congr 1
  apply List.filter_congr
  intro ts hts
  obtain ⟨t, s⟩ := ts
  obtain ⟨r', hr', ht⟩ := hl.1 _ hts
  simp only at ht
  subst ht
  -- the step belongs to r'
  have hmem : s ∈ r'.steps := by
    have : s ∈ (l.filter (fun ts => ts.1 == r'.nm)).map (·.2) :=
      List.mem_map.2 ⟨(r'.nm, s), List.mem_filter.2 ⟨hts, by simp⟩, rfl⟩
    rw [hl.2 r' hr'] at this
    exact List.mem_of_mem_take this
  by_cases hn : r'.nm = r.nm
  · -- same log name: same reorganisation
    have : r' = r := eq_of_nm rs hf.namesNodup r r' hr hr' hn
    subst this
    rcases reorgSteps_ents r' s hmem with ⟨o, n, he, hfoot⟩ | he
    · simp [touches, he, hfoot]
    · simp [touches, he]
  · rcases reorgSteps_ents r' s hmem with ⟨o, n, he, hfoot⟩ | he
    · have := hf.disjoint r' hr' r hr hn o n hfoot
      simp [touches, he, this, hn]
    · have hne : ¬ r.nm = r'.nm := fun h => hn h.symm
      have e1 : (r.nm == r'.nm) = false := by simpa using hne
      have e2 : (r'.nm == r.nm) = false := by simpa using hn
      simp [touches, he, e1, e2]

/-! ### the crash disk -/

theorem restrict_init (D0 : List (Ent α)) (R : Bool → α → Bool) (nm : Option Nat) :
    ((⟨D0, []⟩ : MDisk α).restrict R nm) = ⟨D0.filter (inR R), .none⟩ := by
  unfold MDisk.restrict
  cases nm <;> simp [logOf, getLog]

/-- the setup of `r` on its own files only. -/
def MReorg.setupR (r : MReorg α) (D0 : List (Ent α)) : Setup α := ⟨D0.filter (inR r.foot), r.isOrd, r.olds, r.news⟩

theorem setupR_valid (D0 : List (Ent α)) (r : MReorg α) (hv : (r.setup D0).Valid) : (r.setupR D0).Valid := by
  refine ⟨?_, ?_, ?_⟩
  · intro e he
    exact hv.clean e (List.mem_filter.1 he).1
  · intro o ho
    have ho' : o ∈ r.olds := ho
    apply List.mem_filter.2
    refine ⟨hv.oldsIn o ho, ?_⟩
    simp [inR, MReorg.foot, MReorg.setupR, Setup.dir, ho']
  · intro n hn hc
    exact hv.newsFresh n hn (List.mem_filter.1 hc).1

/-- the crash disk, restricted to the files and the log of `r`, is the crash disk of `r` alone. -/
theorem crash_restrict (D0 : List (Ent α)) (rs : List (MReorg α)) (hf : Family D0 rs)
    (l : List (Nat × Step α)) (hl : Interleaving rs l) (r : MReorg α) (hr : r ∈ rs) :
    ((⟨D0, []⟩ : MDisk α).run l).restrict r.foot (some r.nm) = crashDisk (r.setupR D0) r.us r.inUse r.k := by
  rw [restrict_run, interleaving_touches D0 rs hf l hl r hr, restrict_init]
  rfl

/-- the log of a crashed reorganisation is absent, dirty, or its own complete log. -/
theorem crashDisk_log (S : Setup α) (hv : S.Valid) (us : List α) (inUse : α → Bool) (k : Nat) :
    (crashDisk S us inUse k).log = .none ∨ (crashDisk S us inUse k).log = .torn ∨
    (crashDisk S us inUse k).log = .full S.isOrd S.olds S.news := by
  have hp := S.protocol_prefix hv us inUse k
  simp only at hp
  unfold crashDisk
  rcases hp with ⟨_, hpre⟩ | ⟨_, j, hc⟩
  · rcases hpre.1 with h | h
    · exact Or.inl h
    · exact Or.inr (Or.inl h)
  · rcases hc with ⟨_, hm⟩ | hpost
    · exact Or.inr (Or.inr hm.1)
    · exact Or.inl hpost.1

theorem names_sublist_exec (d : MDisk α) (ts : Nat × Step α) (m : Nat) (h : m ∈ names (d.exec ts).logs) :
    m = ts.1 ∨ m ∈ names d.logs := by
  obtain ⟨t, s⟩ := ts
  cases s with
  | createLog => simpa [MDisk.exec, mem_names_putLog] using h
  | writeLog i o n => simpa [MDisk.exec, mem_names_putLog] using h
  | removeLog =>
    right
    simp only [MDisk.exec, dropLog, names, List.mem_map, List.mem_filter] at h ⊢
    obtain ⟨p, ⟨hp, _⟩, rfl⟩ := h
    exact ⟨p, hp, rfl⟩
  | create e => right; simpa [MDisk.exec] using h
  | promote _ _ => right; simpa [MDisk.exec] using h
  | hide _ _ => right; simpa [MDisk.exec] using h
  | remove _ => right; simpa [MDisk.exec] using h

theorem names_run (l : List (Nat × Step α)) : ∀ (d : MDisk α) (m : Nat), m ∈ names (d.run l).logs →
    (∃ ts ∈ l, m = ts.1) ∨ m ∈ names d.logs := by
  induction l with
  | nil => intro d m h; exact Or.inr h
  | cons ts l ih =>
    intro d m h
    rw [mrun_cons] at h
    rcases ih _ m h with ⟨x, hx, rfl⟩ | h'
    · exact Or.inl ⟨x, by simp [hx], rfl⟩
    · rcases names_sublist_exec d ts m h' with rfl | h''
      · exact Or.inl ⟨ts, by simp, rfl⟩
      · exact Or.inr h''

theorem nodup_exec (d : MDisk α) (ts : Nat × Step α) (h : (names d.logs).Nodup) : (names (d.exec ts).logs).Nodup := by
  obtain ⟨t, s⟩ := ts
  cases s with
  | createLog => exact nodup_putLog _ _ _ h
  | writeLog i o n => exact nodup_putLog _ _ _ h
  | removeLog => exact nodup_dropLog _ _ h
  | create e => simpa [MDisk.exec] using h
  | promote _ _ => simpa [MDisk.exec] using h
  | hide _ _ => simpa [MDisk.exec] using h
  | remove _ => simpa [MDisk.exec] using h

theorem nodup_run (l : List (Nat × Step α)) : ∀ (d : MDisk α), (names d.logs).Nodup → (names (d.run l).logs).Nodup := by
  induction l with
  | nil => intro d h; exact h
  | cons ts l ih => intro d h; rw [mrun_cons]; exact ih _ (nodup_exec d ts h)

/-- every complete log on the crash disk is the log of one reorganisation of the family. -/
theorem crash_fullLogs (D0 : List (Ent α)) (rs : List (MReorg α)) (hf : Family D0 rs)
    (l : List (Nat × Step α)) (hl : Interleaving rs l) (m : Nat) (i : Bool) (o n : List α)
    (hm : (m, Log.full i o n) ∈ ((⟨D0, []⟩ : MDisk α).run l).logs) :
    ∃ r ∈ rs, m = r.nm ∧ i = r.isOrd ∧ o = r.olds ∧ n = r.news := by
  have hnd : (names ((⟨D0, []⟩ : MDisk α).run l).logs).Nodup := nodup_run l _ (by simp [names])
  have hget := getLog_of_mem _ hnd m _ hm
  have hname : m ∈ names ((⟨D0, []⟩ : MDisk α).run l).logs := List.mem_map.2 ⟨_, hm, rfl⟩
  rcases names_run l _ m hname with ⟨ts, hts, rfl⟩ | h
  · obtain ⟨r, hr, hrn⟩ := hl.1 ts hts
    refine ⟨r, hr, hrn, ?_⟩
    have hc := crash_restrict D0 rs hf l hl r hr
    have hlog : (((⟨D0, []⟩ : MDisk α).run l).restrict r.foot (some r.nm)).log = Log.full i o n := by
      show getLog _ r.nm = _
      rw [← hrn]; exact hget
    rw [hc] at hlog
    rcases crashDisk_log (r.setupR D0) (setupR_valid D0 r (hf.valid r hr)) r.us r.inUse r.k with h | h | h
    · rw [h] at hlog; cases hlog
    · rw [h] at hlog; cases hlog
    · rw [h] at hlog
      simp only [Log.full.injEq] at hlog
      exact ⟨hlog.1.symm, hlog.2.1.symm, hlog.2.2.symm⟩
  · simp [names] at h

/-- the logs of the crash disk are separated with respect to the files of `r`. -/
theorem crash_logsSep (D0 : List (Ent α)) (rs : List (MReorg α)) (hf : Family D0 rs)
    (l : List (Nat × Step α)) (hl : Interleaving rs l) (r : MReorg α) (hr : r ∈ rs) :
    LogsSep r.foot (some r.nm) true ((⟨D0, []⟩ : MDisk α).run l).logs := by
  refine ⟨nodup_run l _ (by simp [names]), ?_⟩
  intro m i o n hm x hx
  obtain ⟨r', hr', rfl, rfl, rfl, rfl⟩ := crash_fullLogs D0 rs hf l hl m i o n hm
  have hfoot' : r'.foot (logDirOOO true r'.isOrd) x = true := by
    simp only [List.mem_append] at hx
    rcases hx with hx | hx <;> simp [MReorg.foot, logDirOOO, hx]
  by_cases hn : r'.nm = r.nm
  · have : r' = r := eq_of_nm rs hf.namesNodup r r' hr hr' hn
    subst this
    simp [hfoot']
  · have := hf.disjoint r' hr' r hr hn _ x hfoot'
    have hne : ¬ r.nm = r'.nm := fun h => hn h.symm
    simp [this, hne]

/-- the same with respect to the files no reorganisation works on (a region without a log). -/
theorem crash_logsSep_rest (D0 : List (Ent α)) (rs : List (MReorg α)) (hf : Family D0 rs)
    (l : List (Nat × Step α)) (hl : Interleaving rs l) :
    LogsSep (fun o n => rs.all fun r => !r.foot o n) none true ((⟨D0, []⟩ : MDisk α).run l).logs := by
  refine ⟨nodup_run l _ (by simp [names]), ?_⟩
  intro m i o n hm x hx
  obtain ⟨r', hr', rfl, rfl, rfl, rfl⟩ := crash_fullLogs D0 rs hf l hl m i o n hm
  have hfoot' : r'.foot (logDirOOO true r'.isOrd) x = true := by
    simp only [List.mem_append] at hx
    rcases hx with hx | hx <;> simp [MReorg.foot, logDirOOO, hx]
  simp only [decide_eq_false_iff_not, reduceCtorEq, not_false_eq_true, decide_false]
  apply Bool.eq_false_iff.2
  intro hall
  have := List.all_eq_true.1 hall r' hr'
  simp [hfoot'] at this

/-! ### the theorem -/

/-- **T5 (several reorganisations in flight).** See the head of the file. -/
theorem multi_recovery_atomic (D0 : List (Ent α)) (rs : List (MReorg α)) (hf : Family D0 rs) :
    MultiAtomic contNow D0 rs := by
  intro l hl ks d'
  have hd' : d' = mrecoverWithCrashes true true ((⟨D0, []⟩ : MDisk α).run l) ks := rfl
  obtain ⟨d0, hlast, _⟩ := mrwc_last true true ks ((⟨D0, []⟩ : MDisk α).run l)
  refine ⟨?_, ?_, ?_, ?_⟩
  · rw [hd', hlast]; exact noTmp_mrecover1 true true d0
  · rw [hd', hlast]; exact noFullLog_mrecover1 true d0
  · intro r hr
    obtain ⟨ks', hks'⟩ := mrwc_restrict r.foot (some r.nm) true ks _ (crash_logsSep D0 rs hf l hl r hr)
    rw [crash_restrict D0 rs hf l hl r hr] at hks'
    have hv := setupR_valid D0 r (hf.valid r hr)
    obtain ⟨_, _, hcase⟩ := replace_crash_atomic (r.setupR D0) hv r.us r.inUse r.k ks'
    have hmem : ∀ e : Ent α, r.foot e.ooo e.name = true →
        (e ∈ d'.files ↔ e ∈ (recoverWithCrashes fixedNow (crashDisk (r.setupR D0) r.us r.inUse r.k) ks').files) := by
      intro e he
      have : (d'.restrict r.foot (some r.nm)).files = (recoverWithCrashes true (crashDisk (r.setupR D0) r.us r.inUse r.k) ks').files := by
        rw [hd', hks']
      show e ∈ d'.files ↔ e ∈ (recoverWithCrashes true _ ks').files
      rw [← this]
      show e ∈ d'.files ↔ e ∈ d'.files.filter (inR r.foot)
      simp [List.mem_filter, inR, he]
    rcases hcase with ⟨hk, hold⟩ | ⟨hk, j, hnew⟩
    · left
      refine ⟨hk, ?_⟩
      intro e he
      rw [hmem e he, hold e]
      show e ∈ D0.filter (inR r.foot) ↔ e ∈ D0
      simp [List.mem_filter, inR, he]
    · right
      refine ⟨hk, j, ?_⟩
      intro e he
      rw [hmem e he, hnew e]
      have : (r.setupR D0).newSet (r.us.take j) e ↔ (r.setup D0).newSet (r.us.take j) e := by
        unfold Setup.newSet Setup.isOld Setup.isNew Setup.dir MReorg.setupR MReorg.setup
        simp [List.mem_filter, inR, he]
      rw [this]
  · intro e he
    let R0 : Bool → α → Bool := fun o n => rs.all fun r => !r.foot o n
    have hR0 : R0 e.ooo e.name = true := by
      simp only [R0, List.all_eq_true]
      intro r hr
      simp [he r hr]
    obtain ⟨ks', hks'⟩ := mrwc_restrict R0 none true ks _ (crash_logsSep_rest D0 rs hf l hl)
    -- no step of the interleaving touches the rest
    have hnone : (l.filter (touches R0 none)).map (·.2) = [] := by
      rw [List.map_eq_nil_iff]
      apply List.filter_eq_nil_iff.2
      intro ts hts
      obtain ⟨t, s⟩ := ts
      obtain ⟨r', hr', ht⟩ := hl.1 _ hts
      simp only at ht
      subst ht
      have hmem : s ∈ r'.steps := by
        have : s ∈ (l.filter (fun ts => ts.1 == r'.nm)).map (·.2) :=
          List.mem_map.2 ⟨(r'.nm, s), List.mem_filter.2 ⟨hts, by simp⟩, rfl⟩
        rw [hl.2 r' hr'] at this
        exact List.mem_of_mem_take this
      rcases reorgSteps_ents r' s hmem with ⟨o, n, hent, hfoot⟩ | hent
      · simp only [touches, hent, R0, Bool.not_eq_true]
        apply Bool.eq_false_iff.2
        intro hall
        have := List.all_eq_true.1 hall r' hr'
        simp [hfoot] at this
      · simp [touches, hent]
    rw [restrict_run, hnone, restrict_init] at hks'
    -- the single-log model on a disk without a log only drops `.init` entries
    let S0 : Setup α := ⟨D0.filter (inR R0), true, [], []⟩
    have hpre : S0.Pre (⟨D0.filter (inR R0), .none⟩ : Disk α) := ⟨Or.inl rfl, fun _ _ => Iff.rfl⟩
    obtain ⟨h1, _⟩ := S0.rwc_pre true ks' _ hpre
    have hclean : e.tmp = false → (e ∈ d'.files ↔ e ∈ D0) := by
      intro het
      have hfil : (d'.restrict R0 none).files = (recoverWithCrashes true (⟨D0.filter (inR R0), .none⟩ : Disk α) ks').files := by
        rw [hd', hks']; rfl
      have := h1.2 e het
      rw [← hfil] at this
      have e1 : e ∈ (d'.restrict R0 none).files ↔ e ∈ d'.files := by
        show e ∈ d'.files.filter (inR R0) ↔ _
        simp [List.mem_filter, inR, hR0]
      have e2 : e ∈ S0.D0 ↔ e ∈ D0 := by
        show e ∈ D0.filter (inR R0) ↔ _
        simp [List.mem_filter, inR, hR0]
      rw [← e1, this, e2]
    cases het : e.tmp with
    | false => exact hclean het
    | true =>
      have hno : d'.noTmp := by rw [hd', hlast]; exact noTmp_mrecover1 true true d0
      constructor
      · intro hm; have := hno e hm; simp [het] at this
      · intro hm
        have := hf.clean e hm
        simp [het] at this

/-- **T5' (independence, in canonical form).** On the files of one reorganisation the outcome is
the one of that reorganisation crashing *alone* at the same step and recovering in one
uninterrupted pass: it depends neither on the other reorganisations, nor on the interleaving,
nor on the names (hence the listing order) of the log files, nor on the killed passes. -/
theorem multi_recovery_canonical (D0 : List (Ent α)) (rs : List (MReorg α)) (hf : Family D0 rs)
    (l : List (Nat × Step α)) (hl : Interleaving rs l) (ks : List Nat) (r : MReorg α) (hr : r ∈ rs)
    (e : Ent α) (he : r.foot e.ooo e.name = true) :
    e ∈ (mrecoverWithCrashes contNow fixedNow ((⟨D0, []⟩ : MDisk α).run l) ks).files ↔
    e ∈ (recoverWithCrashes fixedNow (crashDisk (r.setupR D0) r.us r.inUse r.k) []).files := by
  obtain ⟨ks', hks'⟩ := mrwc_restrict r.foot (some r.nm) true ks _ (crash_logsSep D0 rs hf l hl r hr)
  rw [crash_restrict D0 rs hf l hl r hr] at hks'
  have hv := setupR_valid D0 r (hf.valid r hr)
  rw [← recovery_crash_insensitive (r.setupR D0) hv r.us r.inUse r.k ks' e]
  have : ((mrecoverWithCrashes true true ((⟨D0, []⟩ : MDisk α).run l) ks).restrict r.foot (some r.nm)).files
      = (recoverWithCrashes true (crashDisk (r.setupR D0) r.us r.inUse r.k) ks').files := by rw [hks']
  show e ∈ (mrecoverWithCrashes true true _ ks).files ↔ e ∈ (recoverWithCrashes true _ ks').files
  rw [← this]
  show _ ↔ e ∈ (mrecoverWithCrashes true true _ ks).files.filter (inR r.foot)
  simp [List.mem_filter, inR, he]

/-- the same reorganisations under other log-file names. -/
def rename (f : Nat → Nat) (r : MReorg α) : MReorg α := { r with nm := f r.nm }

/-- **T5'' (the order of the log directory does not matter).** Two crashes of the same
reorganisations at the same steps, with different log-file names (any listing order),
different interleavings and different killed start-up passes, end with the same data files. -/
theorem multi_recovery_order_independent (D0 : List (Ent α)) (rs : List (MReorg α)) (f : Nat → Nat)
    (hf : Family D0 rs) (hf' : Family D0 (rs.map (rename f)))
    (l l' : List (Nat × Step α)) (hl : Interleaving rs l) (hl' : Interleaving (rs.map (rename f)) l')
    (ks ks' : List Nat) (e : Ent α) :
    e ∈ (mrecoverWithCrashes contNow fixedNow ((⟨D0, []⟩ : MDisk α).run l) ks).files ↔
    e ∈ (mrecoverWithCrashes contNow fixedNow ((⟨D0, []⟩ : MDisk α).run l') ks').files := by
  by_cases hany : ∃ r ∈ rs, r.foot e.ooo e.name = true
  · obtain ⟨r, hr, he⟩ := hany
    have hr' : rename f r ∈ rs.map (rename f) := List.mem_map.2 ⟨r, hr, rfl⟩
    rw [multi_recovery_canonical D0 rs hf l hl ks r hr e he,
      multi_recovery_canonical D0 _ hf' l' hl' ks' (rename f r) hr' e he]
    rfl
  · have h1 : ∀ r ∈ rs, r.foot e.ooo e.name = false := by
      intro r hr
      cases h : r.foot e.ooo e.name with
      | false => rfl
      | true => exact absurd ⟨r, hr, h⟩ hany
    have h2 : ∀ r ∈ rs.map (rename f), r.foot e.ooo e.name = false := by
      intro r hr
      obtain ⟨r0, hr0, rfl⟩ := List.mem_map.1 hr
      exact h1 r0 hr0
    rw [(multi_recovery_atomic D0 rs hf l hl ks).2.2.2 e h1,
      (multi_recovery_atomic D0 _ hf' l' hl' ks').2.2.2 e h2]

/-- **T6 (idempotence, any shard).** For every disk whatsoever — any files, any log directory —
a complete start-up pass leaves a disk on which a second pass does nothing. -/
theorem multi_recovery_idempotent (fixed : Bool) (d : MDisk α) :
    let d' := d.run (mrecover1 contNow fixed d)
    mrecover1 contNow fixed d' = [] := by
  intro d'
  have hno : d'.noTmp := noTmp_mrecover1 true fixed d
  have hlog : d'.noFullLog := noFullLog_mrecover1 fixed d
  have h1 : ∀ (ls : List (Nat × Log α)) (fs : List (Ent α)), (∀ p ∈ ls, p.2.isFull = false) →
      mlogSteps true fixed ls fs = [] := by
    intro ls
    induction ls with
    | nil => intro fs _; rfl
    | cons p rest ih =>
      intro fs h
      obtain ⟨m, lg⟩ := p
      have hp := h (m, lg) (by simp)
      cases lg with
      | none => simp [mlogSteps, ih fs (fun q hq => h q (by simp [hq]))]
      | torn => simp [mlogSteps, ih fs (fun q hq => h q (by simp [hq]))]
      | full i o n => simp [Log.isFull] at hp
  show mrecover1 true fixed d' = []
  unfold mrecover1
  simp only
  rw [h1 d'.logs d'.files hlog]
  simp only [List.nil_append, mrun_nil]
  unfold mloaderSteps
  have : d'.files.filter (·.tmp) = [] := by
    apply List.filter_eq_nil_iff.2
    intro e he
    simp [hno e he]
  rw [this]; rfl

/-! ### non-vacuity -/

/-- two measurements (names 1‥9 and 11‥19): a level compaction of 1,2 → 9 (log file 7), stopped
after 2 steps (new file written, log created but empty), and a self-merge of the out-of-order
files 11,12 → 19 (log file 3), stopped after 5 steps (log complete, new file renamed, first old
file deleted). -/
def exD0 : List (Ent Nat) := [⟨false, 1, false⟩, ⟨false, 2, false⟩, ⟨false, 3, false⟩, ⟨true, 11, false⟩, ⟨true, 12, false⟩]
def exA (nm : Nat) : MReorg Nat := ⟨nm, true, [1, 2], [9], [], fun _ => false, 2⟩
def exB : MReorg Nat := ⟨3, false, [11, 12], [19], [], fun _ => false, 5⟩

theorem exFamily (nm : Nat) (hnm : nm ≠ 3) : Family exD0 [exA nm, exB] := by
  refine ⟨by decide, by simp [exA, exB, hnm], ?_, ?_⟩
  · intro r hr r' hr' hne o n
    simp only [List.mem_cons, List.not_mem_nil, or_false] at hr hr'
    rcases hr with rfl | rfl <;> rcases hr' with rfl | rfl
    · exact absurd rfl hne
    · cases o <;> simp [MReorg.foot, exA, exB] <;> omega
    · cases o <;> simp [MReorg.foot, exA, exB] <;> omega
    · exact absurd rfl hne
  · intro r hr
    simp only [List.mem_cons, List.not_mem_nil, or_false] at hr
    rcases hr with rfl | rfl
    · have : (exA nm).setup exD0 = (⟨exD0, true, [1, 2], [9]⟩ : Setup Nat) := rfl
      rw [this]
      exact ⟨by decide, by decide, by decide⟩
    · exact ⟨by decide, by decide, by decide⟩

/-- the interleaving "A's steps, then B's" (any shuffle of the same steps is one as well). -/
def exL (nm : Nat) : List (Nat × Step Nat) :=
  ((exA nm).steps.take 2).map (fun s => (nm, s)) ++ (exB.steps.take 5).map (fun s => (3, s))

theorem exInterleaving7 : Interleaving [exA 7, exB] (exL 7) := by
  refine ⟨?_, ?_⟩
  · intro ts hts
    simp only [exL, List.mem_append, List.mem_map] at hts
    rcases hts with ⟨s, _, rfl⟩ | ⟨s, _, rfl⟩
    · exact ⟨exA 7, by simp, rfl⟩
    · exact ⟨exB, by simp, rfl⟩
  · intro r hr
    simp only [List.mem_cons, List.not_mem_nil, or_false] at hr
    rcases hr with rfl | rfl <;> decide

theorem exInterleaving1 : Interleaving [exA 1, exB] (exL 1) := by
  refine ⟨?_, ?_⟩
  · intro ts hts
    simp only [exL, List.mem_append, List.mem_map] at hts
    rcases hts with ⟨s, _, rfl⟩ | ⟨s, _, rfl⟩
    · exact ⟨exA 1, by simp, rfl⟩
    · exact ⟨exB, by simp, rfl⟩
  · intro r hr
    simp only [List.mem_cons, List.not_mem_nil, or_false] at hr
    rcases hr with rfl | rfl <;> decide

/-- the hypotheses of `multi_recovery_atomic` hold for it, with the dirty log listed last (7)
and listed first (1). -/
example : MultiAtomic contNow exD0 [exA 7, exB] := multi_recovery_atomic _ _ (exFamily 7 (by decide))
example : MultiAtomic contNow exD0 [exA 1, exB] := multi_recovery_atomic _ _ (exFamily 1 (by decide))

/-- start-up finishes B and undoes A, wherever A's dirty log is listed; the dirty log stays. -/
example : (mrecoverWithCrashes true true ((⟨exD0, []⟩ : MDisk Nat).run (exL 7)) []).files
    = [⟨true, 19, false⟩, ⟨false, 1, false⟩, ⟨false, 2, false⟩, ⟨false, 3, false⟩] := by decide
example : (mrecoverWithCrashes true true ((⟨exD0, []⟩ : MDisk Nat).run (exL 1)) []).files
    = [⟨true, 19, false⟩, ⟨false, 1, false⟩, ⟨false, 2, false⟩, ⟨false, 3, false⟩] := by decide
example : (mrecoverWithCrashes true true ((⟨exD0, []⟩ : MDisk Nat).run (exL 7)) []).logs = [(7, .torn)] := by decide
example : ((⟨exD0, []⟩ : MDisk Nat).run (exL 1)).logs = [(1, .torn), (3, .full false [11, 12] [19])] := by decide

/-! ### a loop that stops at a dirty log (seeded change C03-1) -/

/-- **with a loop that returns at the first dirty log the property fails**: A's dirty log (name
1) is listed before B's complete one (name 3); the loop stops, B — new file 19 renamed, old file
11 deleted, old file 12 still there — is never finished: 12 and 19 are both loaded, and the
complete log stays. -/
theorem multi_atomic_stopAtDirty_fails : ¬ MultiAtomic false exD0 [exA 1, exB] := by
  intro h
  obtain ⟨_, hlog, _, _⟩ := h (exL 1) exInterleaving1 []
  have : ((3, Log.full false [11, 12] [19]) : Nat × Log Nat) ∈
      (mrecoverWithCrashes false fixedNow ((⟨exD0, []⟩ : MDisk Nat).run (exL 1)) []).logs := by decide
  have := hlog _ this
  simp [Log.isFull] at this

/-- the duplicated data of that witness: the replaced file 12 and its replacement 19 together. -/
example : (mrecoverWithCrashes false true ((⟨exD0, []⟩ : MDisk Nat).run (exL 1)) []).visible
    = [⟨true, 19, false⟩, ⟨false, 1, false⟩, ⟨false, 2, false⟩, ⟨false, 3, false⟩, ⟨true, 12, false⟩] := by decide

/-- with the dirty log listed last the stopping loop happens to do the right thing — which is why
the listing order has to be part of the crash images. -/
example : (mrecoverWithCrashes false true ((⟨exD0, []⟩ : MDisk Nat).run (exL 7)) []).visible
    = [⟨true, 19, false⟩, ⟨false, 1, false⟩, ⟨false, 2, false⟩, ⟨false, 3, false⟩] := by decide

end OG.C03
