/-
C14 — where `AlignedCat` comes from: with the durations of a policy left alone, every shard group
`CreateShardGroup` makes lies inside the index group its shards are given; after
`ALTER RETENTION POLICY … SHARD DURATION` it need not (witness), which is why `ExpiredIndexes`
has to wait for the shards that still work with an index (`index_waits_for_live_shards`).
-/
import OG.C14.Align

namespace OG.C14.Al

/-! ### arithmetic of `Truncate` -/

theorem emod_le_of_nonneg {r m : Int} (hr : 0 ≤ r) (hm : 0 < m) : r % m ≤ r := by
  have h1 := Int.emod_add_mul_ediv r m      -- r % m + m * (r / m) = r
  have h2 : 0 ≤ m * (r / m) := Int.mul_nonneg (Int.le_of_lt hm) (Int.ediv_nonneg hr (Int.le_of_lt hm))
  omega

/-- a multiple-of-`m` floor of `r < k·m` leaves room for one more `m`. -/
theorem floor_add_le {r m k : Int} (hr : 0 ≤ r) (hm : 0 < m) (hlt : r < m * k) : r - r % m + m ≤ m * k := by
  have h1 := Int.emod_add_mul_ediv r m
  have hq : r / m < k := by
    have : m * (r / m) ≤ r := by
      have := Int.emod_nonneg r (Int.ne_of_gt hm)
      omega
    have h3 : m * (r / m) < m * k := Int.lt_of_le_of_lt this hlt
    exact Int.lt_of_mul_lt_mul_left h3 (Int.le_of_lt hm)
  have h4 : m * (r / m + 1) ≤ m * k := Int.mul_le_mul_of_nonneg_left (by omega) (Int.le_of_lt hm)
  have h5 : m * (r / m + 1) = m * (r / m) + m := by rw [Int.mul_add, Int.mul_one]
  omega

/-- **shard_group_within_new_index_group**: when the index group duration is a (positive)
multiple of the shard group duration, the shard group made for a timestamp lies inside the index
group made for the same timestamp. -/
theorem shard_group_within_new_index_group (sgd igd t : Int) (hs : 0 < sgd) (hi : 0 < igd) (hd : sgd ∣ igd) :
    (newIG igd t).s ≤ (newSG sgd t).s ∧ (newSG sgd t).e ≤ (newIG igd t).e := by
  obtain ⟨k, rfl⟩ := hd
  simp only [newIG, newSG, trunc, if_neg (Int.not_le.mpr hs), if_neg (Int.not_le.mpr hi)]
  generalize t + zeroOff = x
  have hr0 := Int.emod_nonneg x (Int.ne_of_gt hi)
  have hrlt := Int.emod_lt_of_pos x hi
  have hmm : x % (sgd * k) % sgd = x % sgd := Int.emod_emod_of_dvd x (Int.dvd_mul_right sgd k)
  have h1 := emod_le_of_nonneg hr0 hs
  have h2 := floor_add_le hr0 hs hrlt
  rw [hmm] at h1 h2
  constructor <;> omega

/-- an index group made for `t0` that contains `t` is the one that would be made for `t`. -/
theorem newIG_eq_of_has (igd t0 t : Int) (hi : 0 < igd) (h : (newIG igd t0).has t = true) :
    newIG igd t = newIG igd t0 := by
  simp only [newIG, Rng.has, trunc, if_neg (Int.not_le.mpr hi), Bool.and_eq_true, decide_eq_true_eq] at h ⊢
  obtain ⟨h1, h2⟩ := h
  -- both starts are multiples of igd (shifted by zeroOff) within igd of t: they coincide
  have a0 := Int.emod_nonneg (t0 + zeroOff) (Int.ne_of_gt hi)
  have a1 := Int.emod_lt_of_pos (t0 + zeroOff) hi
  have b0 := Int.emod_nonneg (t + zeroOff) (Int.ne_of_gt hi)
  have b1 := Int.emod_lt_of_pos (t + zeroOff) hi
  have e0 := Int.emod_add_mul_ediv (t0 + zeroOff) igd
  have e1 := Int.emod_add_mul_ediv (t + zeroOff) igd
  -- igd * q0 ≤ t + zeroOff < igd * q0 + igd  and  igd * q1 ≤ t + zeroOff < igd * q1 + igd
  have hq : (t0 + zeroOff) / igd = (t + zeroOff) / igd := by
    have l1 : igd * ((t0 + zeroOff) / igd) < igd * ((t + zeroOff) / igd + 1) := by
      rw [Int.mul_add, Int.mul_one]; omega
    have l2 : igd * ((t + zeroOff) / igd) < igd * ((t0 + zeroOff) / igd + 1) := by
      rw [Int.mul_add, Int.mul_one]; omega
    have m1 := Int.lt_of_mul_lt_mul_left l1 (Int.le_of_lt hi)
    have m2 := Int.lt_of_mul_lt_mul_left l2 (Int.le_of_lt hi)
    omega
  have : t - (t + zeroOff) % igd = t0 - (t0 + zeroOff) % igd := by
    rw [hq] at e0
    omega
  rw [this]

/-! ### `normalisedIndexDuration` -/

/-- **normIgd_dvd**: whatever is asked for, the index group duration a policy gets is a positive
multiple of its shard group duration. -/
theorem normIgd_dvd (igd sgd : Int) (hs : 0 < sgd) (hi : 0 ≤ igd) :
    sgd ∣ normIgd igd sgd ∧ 0 < normIgd igd sgd := by
  unfold normIgd
  split
  · exact ⟨Int.dvd_refl _, hs⟩
  · rename_i hge
    split
    · rename_i hm
      refine ⟨?_, by omega⟩
      have : igd % sgd = 0 := by
        rw [← Int.tmod_eq_emod_of_nonneg hi]
        exact hm
      exact Int.dvd_of_emod_eq_zero this
    · refine ⟨Int.dvd_mul_left _ _, ?_⟩
      have : 0 ≤ igd.tdiv sgd := by
        rw [Int.tdiv_eq_ediv_of_nonneg hi]
        exact Int.ediv_nonneg hi (Int.le_of_lt hs)
      exact Int.mul_pos (by omega) hs

/-! ### histories -/

/-- every index group of the catalogue was made with the current index group duration. -/
def IgForm (c : Cat) : Prop := ∀ g ∈ c.igs, ∃ t0, g = newIG c.igd t0

theorem mem_insIG {x g : Rng} {l : List Rng} (h : x ∈ insIG g l) : x = g ∨ x ∈ l := by
  induction l with
  | nil => simpa [insIG] using h
  | cons a r ih =>
    simp only [insIG] at h
    split at h
    · simpa using h
    · rcases List.mem_cons.mp h with h | h
      · exact Or.inr (h ▸ List.mem_cons_self)
      · rcases ih h with h | h
        · exact Or.inl h
        · exact Or.inr (List.mem_cons_of_mem _ h)

theorem createSG_inv {c : Cat} (t : Int) (hs : 0 < c.sgd) (hi : 0 < c.igd) (hd : c.sgd ∣ c.igd)
    (hf : IgForm c) (ha : Aligned c) :
    IgForm (createSG c t).1 ∧ Aligned (createSG c t).1 ∧ (createSG c t).1.sgd = c.sgd ∧ (createSG c t).1.igd = c.igd := by
  unfold createSG
  split
  · exact ⟨hf, ha, rfl, rfl⟩
  · split
    · rename_i g hg
      refine ⟨hf, ?_, rfl, rfl⟩
      intro p hp
      rcases List.mem_append.mp hp with hp | hp
      · exact ha p hp
      · rw [List.mem_singleton.mp hp]
        -- g contains t and was made with igd: it is the group a fresh creation would give
        have hgm : g ∈ c.igs := by
          unfold pickIG at hg
          have := List.mem_of_find?_eq_some hg
          exact List.mem_reverse.mp this
        have hgt : g.has t = true := by
          unfold pickIG at hg
          exact List.find?_some (p := fun x : Rng => x.has t) hg
        obtain ⟨t0, rfl⟩ := hf g hgm
        have := newIG_eq_of_has c.igd t0 t hi hgt
        rw [← this]
        exact (shard_group_within_new_index_group c.sgd c.igd t hs hi hd).2
    · refine ⟨?_, ?_, rfl, rfl⟩
      · intro g hg
        rcases mem_insIG hg with rfl | hg
        · exact ⟨t, rfl⟩
        · exact hf g hg
      · intro p hp
        rcases List.mem_append.mp hp with hp | hp
        · exact ha p hp
        · rw [List.mem_singleton.mp hp]
          exact (shard_group_within_new_index_group c.sgd c.igd t hs hi hd).2

/-- **aligned_without_alter** (`_partial`): a policy whose durations are left alone — any shard
group duration, any index group duration asked for, any sequence of timestamps written to —
never gets a shard group that ends after its index group. -/
theorem aligned_without_alter (sgd igd : Int) (hs : 0 < sgd) (hi : 0 ≤ igd) (ts : List Int) :
    Aligned (steps (Cat.init sgd igd) (ts.map .sg)) := by
  obtain ⟨hd, hp⟩ := normIgd_dvd igd sgd hs hi
  suffices h : ∀ (ts : List Int) (c : Cat), 0 < c.sgd → 0 < c.igd → c.sgd ∣ c.igd → IgForm c → Aligned c →
      Aligned (steps c (ts.map .sg)) by
    exact h ts (Cat.init sgd igd) hs hp hd (fun g hg => absurd hg List.not_mem_nil)
      (fun p hp => absurd hp List.not_mem_nil)
  intro ts
  induction ts with
  | nil => intro c _ _ _ _ ha; exact ha
  | cons t r ih =>
    intro c h1 h2 h3 h4 h5
    obtain ⟨f, a, e1, e2⟩ := createSG_inv t h1 h2 h3 h4 h5
    simp only [List.map_cons, steps, List.foldl_cons, step]
    exact ih (createSG c t).1 (e1 ▸ h1) (e2 ▸ h2) (e1 ▸ e2 ▸ h3) f a

/-- the full statement: alignment over *every* history, alterations of the durations included. -/
def aligned_full : Prop :=
  ∀ (sgd igd : Int) (ops : List Op), 0 < sgd → 0 ≤ igd → Aligned (steps (Cat.init sgd igd) ops)

def hourNs : Int := 3600 * 1000000000

/-- 2022-06-08T10:10:00Z and 11:30:00Z -/
def w1 : Int := 1654683000 * 1000000000
def w2 : Int := 1654687800 * 1000000000

/-- **misaligned_after_alter** (negation witness): shard groups of 1 h in index groups of 2 h; a
write at 10:10 makes shard group [10:00, 11:00) in index group [10:00, 12:00);
`ALTER … SHARD DURATION 1d`; a write at 11:30 makes shard group [00:00, 24:00) and gives its shards
the indexes of [10:00, 12:00): the shard group ends 12 h after its index group. -/
theorem misaligned_after_alter : ¬ aligned_full := by
  intro h
  have := h hourNs (2 * hourNs) [.sg w1, .alter (some (24 * hourNs)) none, .sg w2] (by decide) (by decide)
  have hm : ((⟨0, 1654732800 * 1000000000⟩, ⟨0, 1654689600 * 1000000000⟩) : Rng × Rng) ∈
      ((steps (Cat.init hourNs (2 * hourNs)) [.sg w1, .alter (some (24 * hourNs)) none, .sg w2]).sgs.map
        fun p => ((⟨0, p.1.e⟩, ⟨0, p.2.e⟩) : Rng × Rng)) := by decide
  obtain ⟨p, hp, he⟩ := List.mem_map.mp hm
  have hle := this p hp
  have e1 : p.1.e = 1654732800 * 1000000000 := by
    have := congrArg (fun q : Rng × Rng => q.1.e) he
    simpa using this
  have e2 : p.2.e = 1654689600 * 1000000000 := by
    have := congrArg (fun q : Rng × Rng => q.2.e) he
    simpa using this
  omega

example : (steps (Cat.init hourNs (2 * hourNs)) [.sg w1, .alter (some (24 * hourNs)) none, .sg w2]).sgs.map
    (fun p => ((p.1.e - p.2.e) / hourNs)) = [-1, 12] := by decide

example : normIgd (5 * hourNs) (2 * hourNs) = 6 * hourNs ∧ normIgd 0 hourNs = hourNs ∧ normIgd (4 * hourNs) (2 * hourNs) = 4 * hourNs := by
  decide

end OG.C14.Al
