/-
C14 — index side of the retention path.

Every shard of the store holds an index builder (`shard.GetIndexBuilder()`), shared by the
shards of one index group on one partition (`DBPTInfo.indexBuilder[indexID]`).  An index builder
has its own end time (the end of its *index group*) and its own copy of the policy duration.
The retention service refreshes both copies, asks the store for the expired shards, deletes
them, then asks for the expired indexes (`ExpiredIndexes`) and deletes those from the store and
from the catalogue, then clears the caches of the indexes `ExpiredCacheIndexes` reports.

*Regenerated* (OG.Generated.C14, from engine/index/tsi/index_builder.go): the structure
`IxBuilder` and `ixSetDuration` ← `(*IndexBuilder).SetDuration`, `ixExpired` ← `Expired`,
`ixExpiredCache` ← `ExpiredCache`; `shardIsExpired` / `nilShardIsExpired` as in `Model.lean`.
*Hand-written* from

  engine/engine.go     UpdateShardDurationInfo, UpdateIndexDurationInfo, ExpiredShards,
                       ExpiredIndexes (+ containIdxid), ExpiredCacheIndexes, DeleteShard, DeleteIndex
  engine/partition.go  NewMergeSetIndex (a new builder: duration of the policy, end of the index group)
  services/retention   updateDurationInfo (shard side, then index side, both attempted),
                       HandleLocalStorage (shard loop, index loop, cache loop)
  meta/data.go         DurationInfos, IndexDurationInfos, DeleteShardGroup, DeleteIndexGroup,
                       pruneShardGroups, pruneIndexGroups

and tied to the code by the `x` stream of the correspondence harness (the real service loop over
the real engine and the real `meta.Data`).

Times and durations are `Int` ns, `0` = unlimited.  One store node; the catalogue is flat: one
owned shard per shard group and one owned index per index group, `shared` says that the group has
further entries owned by other stores (never marked by this one), so the group outlives the prune.
-/
import OG.Generated.C14

namespace OG.C14.Ix
open OG.C14

/-- catalogue: a shard of this store with its group (`ShardInfo` + `ShardGroupInfo`):
`iid` = `ShardInfo.IndexID`, `deleted` = `!DeletedAt.IsZero()`, `marked` = `MarkDelete`. -/
structure CSh where
  sid : Nat
  gid : Nat
  iid : Nat
  endT : Int
  deleted : Bool
  marked : Bool
  shared : Bool
deriving DecidableEq, Repr

/-- catalogue: an index of this store with its group (`IndexInfo` + `IndexGroupInfo`). -/
structure CIx where
  iid : Nat
  igid : Nat
  startT : Int
  endT : Int
  deleted : Bool
  marked : Bool
  shared : Bool
deriving DecidableEq, Repr

/-- a shard object of the store. `idx` = `GetIndexBuilder() != nil` (false while closing);
`own` = the builder it holds is still the one in `DBPTInfo.indexBuilder` (false once
`DeleteIndex` took that one out of the map: the shard keeps the closed object). -/
structure XShard where
  sid : Nat
  gid : Nat
  iid : Nat
  endT : Int
  idx : Bool
  own : Bool
  dur : Int
deriving DecidableEq, Repr

/-- an entry of `DBPTInfo.indexBuilder`. `fresh` (ghost): the index side of the current run's
refresh reached this builder. -/
structure XIndex where
  iid : Nat
  igid : Nat
  b : IxBuilder
  fresh : Bool
deriving DecidableEq, Repr

/-- `meta.ShardDurationInfo` -/
structure SInfo where
  sid : Nat
  gid : Nat
  endT : Int
  dur : Int
deriving DecidableEq, Repr

/-- `meta.IndexDurationInfo` -/
structure IInfo where
  iid : Nat
  igid : Nat
  startT : Int
  endT : Int
  dur : Int
deriving DecidableEq, Repr

/-- a reported shard (`*meta.ShardIdentifier`) + ghost: the duration the test used. -/
structure SQ where
  sid : Nat
  gid : Nat
  endT : Int
  dUsed : Int
deriving DecidableEq, Repr

/-- a reported index (`*meta.IndexIdentifier`) + ghost: the duration the test used, whether
that duration was written by this run's index refresh, the clock reading of the test, whether the
entry came from the not-loaded map, and (sid, end, duration) of the shard objects that worked
with the partition's builder for this index when the test ran. -/
structure IQ where
  iid : Nat
  igid : Nat
  endT : Int
  dUsed : Int
  fresh : Bool
  nowD : Int
  fromNil : Bool
  held : List (Nat × Int × Int)
deriving DecidableEq, Repr

inductive Phase
  | idle          -- between runs
  | half          -- shard side of the refresh done, index side not yet
  | refreshed     -- both sides done, `ExpiredShards` not yet called
  | shards        -- inside the shard loop
  | shardsDone    -- shard loop finished, `ExpiredIndexes` not yet called
  | indexes       -- inside the index loop
  | indexesDone   -- index loop finished, `ExpiredCacheIndexes` not yet called
deriving DecidableEq, Repr

inductive EvKind
  | delShard | delIndex | markIG | pruneIx
deriving DecidableEq, Repr

/-- ghost record of a destructive action. `now`: the clock reading of the expiry test that
decided it (the clock may have been set back since). `users`: (sid, end) of the shard objects of
the store that hold index `id` at the moment of the action (for index events). `refD`: what the
index side of the last refresh got from meta. `fromNil`, `held`: as in `IQ`. -/
structure Ev where
  kind : EvKind
  id : Nat
  endT : Int
  d : Int
  now : Int
  fresh : Bool
  refD : Int
  users : List (Nat × Int)
  fromNil : Bool
  held : List (Nat × Int × Int)
deriving DecidableEq, Repr

structure St where
  clock : Int
  metaDur : Int
  cs : List CSh
  ci : List CIx
  shards : List XShard
  idxs : List XIndex
  nilS : List SInfo
  nilI : List IInfo
  sq : List SQ
  iq : List IQ
  phase : Phase
  sOk : Bool                -- the shard side of this run's refresh reached meta
  refS : Int                -- ghost: duration the shard side of the last refresh got
  refI : Int                -- ghost: … the index side
  seen : List Int           -- ghost: every duration meta handed out
  log : List Ev
  bgr : Bool                -- `DBPTInfo.bgrEnabled`: false while the partition is being offloaded (PreOffload)
deriving Repr

/-! ### catalogue side -/

/-- `Data.DurationInfos`: every owned shard (deleted groups and marked shards included). -/
def sInfos (cs : List CSh) (d : Int) : List SInfo := cs.map fun c => ⟨c.sid, c.gid, c.endT, d⟩

/-- `Data.IndexDurationInfos` -/
def iInfos (ci : List CIx) (d : Int) : List IInfo := ci.map fun c => ⟨c.iid, c.igid, c.startT, c.endT, d⟩

/-- `DeleteShardGroup(…, MarkDelete)` -/
def markSG (gid : Nat) (cs : List CSh) : List CSh :=
  cs.map fun c => if c.gid == gid then { c with deleted := true } else c

/-- `pruneShardGroups(sid)`: the shard is marked; a group that is deleted and whose shards are
all marked leaves the catalogue. -/
def pruneS (sid : Nat) (cs : List CSh) : List CSh :=
  (cs.map fun c => if c.sid == sid then { c with marked := true } else c).filter
    fun c => !(c.deleted && c.marked && !c.shared)

/-- `DeleteIndexGroup` -/
def markIG (igid : Nat) (ci : List CIx) : List CIx :=
  ci.map fun c => if c.igid == igid then { c with deleted := true } else c

/-- `pruneIndexGroups(iid)`: the index is marked; a group whose indexes are all marked leaves the
catalogue — `IndexGroupInfo.canDelete` does not look at `DeletedAt`. -/
def pruneI (iid : Nat) (ci : List CIx) : List CIx :=
  (ci.map fun c => if c.iid == iid then { c with marked := true } else c).filter
    fun c => !(c.marked && !c.shared)

/-! ### store side -/

/-- shard side of the refresh, on the shard objects. -/
def updShard (infos : List SInfo) (s : XShard) : XShard :=
  if s.idx then
    match infos.find? (fun i => i.sid == s.sid) with
    | some i => { s with gid := i.gid, dur := i.dur }
    | none => s
  else s

/-- does the shard side reach the builder `iid`: some listed, loaded shard with an index builder
holds it (`shard.GetIndexBuilder().SetDuration(…)`). -/
def touched (infos : List SInfo) (shards : List XShard) (iid : Nat) : Bool :=
  shards.any fun s => s.idx && s.own && s.iid == iid && infos.any (fun i => i.sid == s.sid)

def updIndexS (d : Int) (infos : List SInfo) (shards : List XShard) (x : XIndex) : XIndex :=
  if touched infos shards x.iid then { x with b := ixSetDuration x.b d } else x

def nilSInfos (shards : List XShard) (infos : List SInfo) : List SInfo :=
  infos.filter fun i => !(shards.any fun s => s.sid == i.sid && s.idx)

/-- index side of the refresh (`UpdateIndexDurationInfo`). -/
def updIndexI (infos : List IInfo) (x : XIndex) : XIndex :=
  match infos.find? (fun i => i.iid == x.iid) with
  | some i => { x with igid := i.igid, b := ixSetDuration x.b i.dur, fresh := true }
  | none => x

def nilIInfos (idxs : List XIndex) (infos : List IInfo) : List IInfo :=
  infos.filter fun i => !(idxs.any fun x => x.iid == i.iid)

/-- `ExpiredShards` -/
def expiredS (now : Int) (shards : List XShard) (nm : List SInfo) : List SQ :=
  let l := (shards.filter fun s => !(nm.any fun i => i.sid == s.sid) && shardIsExpired now s.dur s.endT).map
    fun s => (⟨s.sid, s.gid, s.endT, s.dur⟩ : SQ)
  l ++ (nm.filter fun i => !(l.any fun q => q.sid == i.sid) && nilShardIsExpired now i.dur i.endT).map
    fun i => (⟨i.sid, i.gid, i.endT, i.dur⟩ : SQ)

/-- the shard objects that work with the partition's builder for index `iid`
(`sh.GetIndexBuilder() == iBuilder`: not closing, and the builder they hold is the one in the map). -/
def holders (shards : List XShard) (iid : Nat) : List XShard :=
  shards.filter fun s => s.idx && s.own && s.iid == iid

/-- `indexHeldByLiveShardNoLock`: some holder has not expired yet. -/
def heldLive (now : Int) (shards : List XShard) (iid : Nat) : Bool :=
  (holders shards iid).any fun s => !shardIsExpired now s.dur s.endT

def heldOf (shards : List XShard) (iid : Nat) : List (Nat × Int × Int) :=
  (holders shards iid).map fun s => (s.sid, s.endT, s.dur)

/-- `ExpiredIndexes`: loaded builders by `Expired()` unless a shard that has not expired still
works with the builder, then the not-loaded entries (`containIdxid` skips ids already reported, and
an id the partition holds a builder for by now — created after the refresh — is left to the loop
over the builders) by `nilShardIsExpired`. -/
def expiredI (now : Int) (shards : List XShard) (idxs : List XIndex) (nm : List IInfo) : List IQ :=
  let l := (idxs.filter fun x => ixExpired now x.b && !heldLive now shards x.iid).map
    fun x => (⟨x.iid, x.igid, x.b.endTime, x.b.duration, x.fresh, now, false, heldOf shards x.iid⟩ : IQ)
  l ++ (nm.filter fun i => !(l.any fun q => q.iid == i.iid) && !(idxs.any fun x => x.iid == i.iid) &&
      nilShardIsExpired now i.dur i.endT).map
    fun i => (⟨i.iid, i.igid, i.endT, i.dur, true, now, true, heldOf shards i.iid⟩ : IQ)

/-- `ExpiredCacheIndexes` -/
def expiredCache (now : Int) (idxs : List XIndex) : List Nat :=
  (idxs.filter fun x => ixExpiredCache now x.b).map (·.iid)

def insS (a : SQ) : List SQ → List SQ
  | [] => [a]
  | b :: r => if a.sid ≤ b.sid then a :: b :: r else b :: insS a r
def sortS (q : List SQ) : List SQ := q.foldr insS []

def insI (a : IQ) : List IQ → List IQ
  | [] => [a]
  | b :: r => if a.iid ≤ b.iid then a :: b :: r else b :: insI a r
def sortI (q : List IQ) : List IQ := q.foldr insI []

/-! ### service steps -/

/-- scripted outcome of the three calls made for one reported shard / index:
catalogue mark reachable, store delete allowed to run, prune reachable. -/
structure Outcome where
  markOk : Bool
  delOk : Bool
  pruneOk : Bool
deriving DecidableEq, Repr

def Outcome.good : Outcome := ⟨true, true, true⟩

inductive DelRes
  | ok | notFound | failed | closedErr | migrating
deriving DecidableEq, Repr

/-- `DeleteShard` (see `Model.engDelRes`): refused with `PtIsAlreadyMigrating` while the
partition is being offloaded (`!bgrEnabled`), before the shard is looked up. -/
def delSRes (o : Outcome) (sid : Nat) (shards : List XShard) (bgr : Bool) : DelRes :=
  if !o.delOk then .failed
  else if !bgr then .migrating
  else match shards.find? (fun s => s.sid == sid) with
    | some s => if s.idx then .ok else .closedErr
    | none => .notFound

/-- `DeleteIndex`: `IndexNotFound` when the builder is not in the map. -/
def delIRes (o : Outcome) (iid : Nat) (idxs : List XIndex) : DelRes :=
  if !o.delOk then .failed
  else if idxs.any (fun x => x.iid == iid) then .ok else .notFound

def usersOf (iid : Nat) (shards : List XShard) : List (Nat × Int) :=
  (shards.filter fun s => s.iid == iid).map fun s => (s.sid, s.endT)

/-- one iteration of the shard loop of `HandleLocalStorage`. -/
def procS (o : Outcome) (q : SQ) (σ : St) : St :=
  let cs1 := if o.markOk then markSG q.gid σ.cs else σ.cs
  let r := delSRes o q.sid σ.shards σ.bgr
  let gone := r = .ok ∨ r = .closedErr
  { σ with cs := if o.pruneOk then pruneS q.sid cs1 else cs1,
           shards := if gone then σ.shards.filter (fun s => s.sid != q.sid) else σ.shards,
           log := (if gone then [(⟨.delShard, q.sid, q.endT, q.dUsed, σ.clock, true, σ.refS, [], false, []⟩ : Ev)] else []) ++ σ.log }

/-- one iteration of the index loop. -/
def procI (o : Outcome) (q : IQ) (σ : St) : St :=
  let ci1 := if o.markOk then markIG q.igid σ.ci else σ.ci
  let r := delIRes o q.iid σ.idxs
  let gone := r = .ok
  let users := usersOf q.iid σ.shards
  let ev (k : EvKind) : Ev := ⟨k, q.iid, q.endT, q.dUsed, q.nowD, q.fresh, σ.refI, users, q.fromNil, q.held⟩
  { σ with ci := if o.pruneOk then pruneI q.iid ci1 else ci1,
           idxs := if gone then σ.idxs.filter (fun x => x.iid != q.iid) else σ.idxs,
           shards := if gone then σ.shards.map (fun s => if s.iid == q.iid then { s with own := false } else s) else σ.shards,
           log := (if o.markOk then [ev .markIG] else []) ++ (if gone then [ev .delIndex] else []) ++
                  (if o.pruneOk then [ev .pruneIx] else []) ++ σ.log }

inductive Op
  | tick (dt : Int)             -- time passes (dt ≥ 0) or the wall clock is set back (dt < 0)
  | alter (d : Int)
  | load (sid : Nat)
  | close (sid : Nat)
  | refreshS (ok : Bool)      -- updateShardDurationInfo
  | refreshI (ok : Bool)      -- UpdateIndexDurationInfo
  | collectS                  -- Engine.ExpiredShards
  | procS (o : Outcome)
  | collectI                  -- Engine.ExpiredIndexes
  | procI (o : Outcome)
  | cache                     -- Engine.ExpiredCacheIndexes + ClearIndexCache: nothing leaves
  | offload                   -- PreOffload: the partition is about to move to another store
  | rollback                  -- RollbackPreOffload
deriving Repr

/-- `CreateShard` → `NewShard` → `NewMergeSetIndex`: the shard takes the builder of its index id,
creating it (duration of the policy, end of the index group) when the partition has none. A shard
whose index group is no longer in the catalogue is not created by the model. -/
def loadShard (sid : Nat) (σ : St) : St :=
  if σ.shards.any (·.sid == sid) then σ
  else match σ.cs.find? (fun c => c.sid == sid) with
    | none => σ
    | some c =>
      let sh : XShard := ⟨sid, 0, c.iid, c.endT, true, true, σ.metaDur⟩
      if σ.idxs.any (·.iid == c.iid) then
        { σ with shards := σ.shards ++ [sh], seen := σ.metaDur :: σ.seen }
      else match σ.ci.find? (fun x => x.iid == c.iid) with
        | none => σ
        | some x =>
          { σ with shards := σ.shards ++ [sh],
                   idxs := σ.idxs ++ [⟨x.iid, x.igid, ⟨σ.metaDur, x.endT, x.endT - x.startT, 0⟩, false⟩],
                   seen := σ.metaDur :: σ.seen }

def refreshS (σ : St) : St :=
  let infos := sInfos σ.cs σ.metaDur
  { σ with shards := σ.shards.map (updShard infos),
           idxs := (σ.idxs.map fun x => { x with fresh := false }).map (updIndexS σ.metaDur infos σ.shards),
           nilS := nilSInfos σ.shards infos, refS := σ.metaDur, seen := σ.metaDur :: σ.seen }

def refreshI (σ : St) : St :=
  let infos := iInfos σ.ci σ.metaDur
  { σ with idxs := σ.idxs.map (updIndexI infos), nilI := nilIInfos σ.idxs infos,
           refI := σ.metaDur, seen := σ.metaDur :: σ.seen }

def step (σ : St) : Op → St
  | .tick dt => { σ with clock := σ.clock + dt }   -- dt < 0: the wall clock is set back
  | .alter d => { σ with metaDur := d }
  | .load sid => loadShard sid σ
  | .close sid => { σ with shards := σ.shards.map fun s => if s.sid == sid then { s with idx := false } else s }
  | .refreshS ok =>
    match σ.phase with
    | .idle =>
      -- fresh maps for this run
      let σ0 := { σ with nilS := [], nilI := [], sOk := ok, phase := .half }
      if ok then refreshS σ0 else { σ0 with idxs := σ.idxs.map fun x => { x with fresh := false } }
    | _ => σ
  | .refreshI ok =>
    match σ.phase with
    | .half =>
      let σ1 := if ok then refreshI σ else σ
      { σ1 with phase := if ok && σ.sOk then .refreshed else .idle }
    | _ => σ
  | .collectS =>
    match σ.phase with
    | .refreshed =>
      let q := sortS (expiredS σ.clock σ.shards σ.nilS)
      { σ with sq := q, phase := if q.isEmpty then .shardsDone else .shards }
    | _ => σ
  | .procS o =>
    match σ.phase, σ.sq with
    | .shards, q :: rest =>
      let σ' := procS o q σ
      { σ' with sq := rest, phase := if rest.isEmpty then .shardsDone else .shards }
    | _, _ => σ
  | .collectI =>
    match σ.phase with
    | .shardsDone =>
      let q := sortI (expiredI σ.clock σ.shards σ.idxs σ.nilI)
      { σ with iq := q, phase := if q.isEmpty then .indexesDone else .indexes }
    | _ => σ
  | .procI o =>
    match σ.phase, σ.iq with
    | .indexes, q :: rest =>
      let σ' := procI o q σ
      { σ' with iq := rest, phase := if rest.isEmpty then .indexesDone else .indexes }
    | _, _ => σ
  | .cache =>
    match σ.phase with
    | .indexesDone => { σ with phase := .idle }
    | _ => σ
  | .offload => { σ with bgr := false }
  | .rollback => { σ with bgr := true }

def steps (σ : St) (ops : List Op) : St := ops.foldl step σ

def St.init (clock d : Int) (cs : List CSh) (ci : List CIx) : St :=
  ⟨clock, d, cs, ci, [], [], [], [], [], [], .idle, false, d, d, [d], [], true⟩

/-! ### one whole run of `handle()` -/

/-- script of one run: do the two refresh calls reach meta, alterations landing between the
shard side and the index side / right after the index side, per-item outcomes. -/
structure Script where
  okS : Bool
  alter1 : Option Int
  okI : Bool
  alter2 : Option Int
  outS : Nat → Outcome
  outI : Nat → Outcome

def Script.good : Script := ⟨true, none, true, none, fun _ => .good, fun _ => .good⟩

def optAlter : Option Int → List Op
  | some d => [.alter d]
  | none => []

def runHead (sc : Script) : List Op :=
  [.refreshS sc.okS] ++ optAlter sc.alter1 ++ [.refreshI sc.okI] ++ optAlter sc.alter2 ++ [.collectS]

def procSAll (oc : Nat → Outcome) : Nat → St → St
  | 0, σ => σ
  | n + 1, σ =>
    match σ.phase, σ.sq with
    | .shards, q :: _ => procSAll oc n (step σ (.procS (oc q.sid)))
    | _, _ => σ

def procIAll (oc : Nat → Outcome) : Nat → St → St
  | 0, σ => σ
  | n + 1, σ =>
    match σ.phase, σ.iq with
    | .indexes, q :: _ => procIAll oc n (step σ (.procI (oc q.iid)))
    | _, _ => σ

/-- one `handle()`: refresh both sides, shard loop, index loop, cache loop. -/
def run (sc : Script) (σ : St) : St :=
  let σ1 := steps σ (runHead sc)
  let σ2 := procSAll sc.outS σ1.sq.length σ1
  let σ3 := step σ2 .collectI
  let σ4 := procIAll sc.outI σ3.iq.length σ3
  step σ4 .cache

end OG.C14.Ix
