/-
C14 — `ALTER RETENTION POLICY … DURATION d` takes effect in the catalogue for every `d` the
command carries, 0 (unlimited) included; composed with the index-side theorems.
-/
import OG.C14.Cmd
import OG.C14.IndexProps

namespace OG.C14.Cmd
open OG.C14

/-- every optional field of the command reaches the update exactly when it is present. -/
theorem command_fields_decoded_when_present :
    rpuRule_Duration = .present ∧ rpuRule_ShardGroupDuration = .present ∧ rpuRule_IndexGroupDuration = .present ∧
    rpuRule_HotDuration = .present ∧ rpuRule_WarmDuration = .present ∧ rpuRule_IndexColdDuration = .present ∧
    rpuRule_ReplicaN = .present := by decide

/-- **alter_command_takes_effect**: a command whose `Duration` field is present — with any value
that `CheckSpecValid` accepts, 0 = unlimited among them — leaves exactly that duration in the
catalogue, whatever the policy held before; a command without the field leaves the duration alone. -/
theorem alter_command_takes_effect (old sgd v : Int) (hv : valid v sgd = true) :
    applyDur old sgd (some v) = some v ∧ (valid old sgd = true → applyDur old sgd none = some old) := by
  constructor
  · show (if valid ((decode rpuRule_Duration (some v)).getD old) sgd then _ else _) = _
    have : decode rpuRule_Duration (some v) = some v := by
      have hr : rpuRule_Duration = .present := by decide
      rw [hr]; rfl
    rw [this]
    simp [hv]
  · intro ho
    show (if valid ((decode rpuRule_Duration none).getD old) sgd then _ else _) = _
    have : decode rpuRule_Duration none = none := by
      have hr : rpuRule_Duration = .present := by decide
      rw [hr]; rfl
    rw [this]
    simp [ho]

/-- unlimited is always accepted. -/
theorem unlimited_is_valid (sgd : Int) : valid 0 sgd = true := by simp [valid]

/-- on the index-side machine: after the command the catalogue holds the duration sent. -/
theorem alter_command_takes_effect_ix (σ : Ix.St) (v : Int) (hv : valid v minDur = true) :
    (cmdAlter σ (some v)).1.metaDur = v ∧ (cmdAlter σ (some v)).2 = true := by
  unfold cmdAlter
  rw [(alter_command_takes_effect σ.metaDur minDur v hv).1]
  exact ⟨rfl, rfl⟩

/-- **unlimited_command_keeps_index**: `ALTER RETENTION POLICY … DURATION INF` sent as a command,
then a run of the retention check whose refresh reaches meta: every index the catalogue lists
stays on the store and in the catalogue (`unlimited_run_keeps_index` behind the command path;
with `alter_takes_effect_on_index` the builders hold 0 after the refresh). -/
theorem unlimited_command_keeps_index (σ : Ix.St) (hp : σ.phase = .idle) (i : Nat)
    (hx : ∃ x ∈ σ.idxs, x.iid = i) (hc : ∃ c ∈ σ.ci, c.iid = i ∧ c.marked = false)
    (sc : Ix.Script) (h1 : sc.okS = true) (h2 : sc.okI = true) (h3 : sc.alter1 = none) (h4 : sc.alter2 = none) :
    (∃ x ∈ (Ix.run sc (cmdAlter σ (some 0)).1).idxs, x.iid = i) ∧
    (∃ c ∈ (Ix.run sc (cmdAlter σ (some 0)).1).ci, c.iid = i ∧ c.marked = false) := by
  have : (cmdAlter σ (some 0)).1 = Ix.step σ (.alter 0) := by
    unfold cmdAlter
    rw [(alter_command_takes_effect σ.metaDur minDur 0 (unlimited_is_valid _)).1]
  rw [this]
  exact Ix.unlimited_run_keeps_index σ hp i hx hc sc h1 h2 h3 h4

example : applyDur 3600000000000 3600000000000 (some 0) = some 0 ∧ applyDur 0 3600000000000 (some 7200000000000) = some 7200000000000 ∧
    applyDur 7200000000000 3600000000000 (some 1000) = none ∧ applyDur 7200000000000 3600000000000 none = some 7200000000000 := by decide

end OG.C14.Cmd
