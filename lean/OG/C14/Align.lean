/-
C14 — how shard groups are assigned to index groups (`Data.CreateShardGroup`), i.e. where the
alignment hypothesis `AlignedCat` of the index-side theorems comes from.

Hand-written from meta/data.go (`newShardGroup`, `createIndexGroupIfNeeded`, `CreateIndexGroup`,
`UpdateRetentionPolicy` → `CheckSpecValid`), meta/indexinfo.go (`normalisedIndexDuration`,
`IndexGroupInfos.Less`, `Contains`), meta/retentionpolicy.go (`ShardGroupByTimestampAndEngineType`);
tied to the code by the `g` stream of the harness (the real `meta.Data`).  Core only.

Times are `Int` ns since the Unix epoch.  Go's `Time.Truncate(d)` counts multiples of `d` from the
zero Time (1 January of year 1), `zeroOff` ns before the epoch.
-/
namespace OG.C14.Al

def zeroOff : Int := 62135596800 * 1000000000

/-- `t.Truncate(d)` -/
def trunc (t d : Int) : Int := if d ≤ 0 then t else t - (t + zeroOff) % d

/-- `normalisedIndexDuration(igd, sgd)` (Go `/`, `%` truncate towards zero). -/
def normIgd (igd sgd : Int) : Int :=
  if igd < sgd then sgd
  else if igd.tmod sgd = 0 then igd
  else (igd.tdiv sgd + 1) * sgd

structure Rng where
  s : Int
  e : Int
deriving DecidableEq, Repr

/-- `Contains(t)`: start ≤ t < end -/
def Rng.has (r : Rng) (t : Int) : Bool := decide (r.s ≤ t) && decide (t < r.e)

structure Cat where
  sgd : Int
  igd : Int
  sgs : List (Rng × Rng)     -- shard groups, each with the index group its shards were given
  igs : List Rng             -- index groups in `IndexGroupInfos` order (by end, then by start)
deriving Repr

/-- `sort.Sort(IndexGroupInfos)` after an append, as an insertion (keys are distinct here). -/
def insIG (g : Rng) : List Rng → List Rng
  | [] => [g]
  | h :: r => if g.e < h.e || (g.e == h.e && g.s < h.s) then g :: h :: r else h :: insIG g r

/-- `createIndexGroupIfNeeded`: the last index group (in sorted order) that contains the
timestamp, else a new one `[Truncate(igd), +igd)`. -/
def pickIG (igs : List Rng) (t : Int) : Option Rng := igs.reverse.find? (·.has t)

def newIG (igd t : Int) : Rng := ⟨trunc t igd, trunc t igd + igd⟩

def newSG (sgd t : Int) : Rng := ⟨trunc t sgd, trunc t sgd + sgd⟩

/-- `CreateShardGroup(timestamp)`; `none` = a live shard group already contains the timestamp. -/
def createSG (c : Cat) (t : Int) : Cat × Option (Rng × Rng) :=
  if c.sgs.reverse.any (fun p => p.1.has t) then (c, none)
  else
    let sg := newSG c.sgd t
    match pickIG c.igs t with
    | some g => ({ c with sgs := c.sgs ++ [(sg, g)] }, some (sg, g))
    | none => let g := newIG c.igd t
              ({ c with sgs := c.sgs ++ [(sg, g)], igs := insIG g c.igs }, some (sg, g))

/-- `ALTER RETENTION POLICY … [SHARD DURATION sgd] [INDEX DURATION igd]` with a shard group
duration of at least `MinRetentionPolicyDuration` and an unlimited policy (no other constraint of
`CheckSpecValid` bites): the index group duration is re-normalised against the new shard group
duration. -/
def alter (c : Cat) (sgd igd : Option Int) : Cat :=
  let s := sgd.getD c.sgd
  { c with sgd := s, igd := normIgd (igd.getD c.igd) s }

def Cat.init (sgd igd : Int) : Cat := ⟨sgd, normIgd igd sgd, [], []⟩

/-- no shard group ends after the index group its shards were given. -/
def Aligned (c : Cat) : Prop := ∀ p ∈ c.sgs, p.1.e ≤ p.2.e

inductive Op
  | sg (t : Int)
  | alter (sgd igd : Option Int)

def step (c : Cat) : Op → Cat
  | .sg t => (createSG c t).1
  | .alter s i => alter c s i

def steps (c : Cat) (ops : List Op) : Cat := ops.foldl step c

end OG.C14.Al
