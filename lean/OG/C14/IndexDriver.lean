/-
C14 — line protocol of the index-side model (`x` ops; core only).

  x new <metaDur> <sid:gid:iid:end:deleted:marked:shared;…|-> <iid:igid:start:end:deleted:marked:shared;…|->
  x tick <dt> | x alter <d> | x load <sid> | x close <sid> | x offload | x rollback
  x run <okS> <alter1|-> <okI> <alter2|-> <sid=mark.del.prune,…|-> <iid=mark.del.prune,…|-> <sid created mid-run|->
every op answers `<op specific> | <state dump>`.
-/
import OG.C14.Index
import OG.C14.Align
import OG.C14.Shared
import OG.C14.Tier
import OG.C14.Schema
import OG.C14.Cmd

namespace OG.C14.Ix

def bit (b : Bool) : String := if b then "1" else "0"

def parseBit : String → Option Bool
  | "1" => some true | "0" => some false | _ => none

def listOf (s : String) (sep : String) : List String :=
  if s == "-" || s == "" then [] else s.splitOn sep

def joinNat (xs : List Nat) : String := ",".intercalate (xs.map toString)

def sortNat (xs : List Nat) : List Nat := xs.mergeSort fun a b => decide (a ≤ b)

def parseCSh (s : String) : Option CSh :=
  match s.splitOn ":" with
  | [sid, gid, iid, en, del, mk, sh] => do
    some ⟨← sid.toNat?, ← gid.toNat?, ← iid.toNat?, ← en.toInt?, ← parseBit del, ← parseBit mk, ← parseBit sh⟩
  | _ => none

def parseCIx (s : String) : Option CIx :=
  match s.splitOn ":" with
  | [iid, igid, st, en, del, mk, sh] => do
    some ⟨← iid.toNat?, ← igid.toNat?, ← st.toInt?, ← en.toInt?, ← parseBit del, ← parseBit mk, ← parseBit sh⟩
  | _ => none

def parseOutcome (s : String) : Option (Nat × Outcome) :=
  match s.splitOn "=" with
  | [id, o] =>
    match o.splitOn "." with
    | [m, d, p] => do some (← id.toNat?, ⟨← parseBit m, ← parseBit d, ← parseBit p⟩)
    | _ => none
  | _ => none

def outcomeFn (xs : List (Nat × Outcome)) (id : Nat) : Outcome :=
  match xs.find? (fun x => x.1 == id) with
  | some x => x.2
  | none => .good

def parseOptInt (s : String) : Option (Option Int) :=
  if s == "-" then some none else (s.toInt?).map some

def dump (σ : St) : String :=
  let sh := σ.shards.mergeSort fun a b => decide (a.sid ≤ b.sid)
  let ix := σ.idxs.mergeSort fun a b => decide (a.iid ≤ b.iid)
  let cs := (σ.cs.mergeSort fun a b => decide (a.sid ≤ b.sid)).map fun c => s!"{c.sid}:{bit c.deleted}:{bit c.marked}"
  let ci := (σ.ci.mergeSort fun a b => decide (a.iid ≤ b.iid)).map fun c => s!"{c.iid}:{bit c.deleted}:{bit c.marked}"
  s!"d={σ.metaDur} sh=[{",".intercalate (sh.map fun s => s!"{s.sid}:{s.gid}:{s.dur}:{bit s.idx}")}] " ++
  s!"ix=[{",".intercalate (ix.map fun x => s!"{x.iid}:{x.igid}:{x.b.duration}")}] " ++
  s!"cs=[{",".intercalate cs}] ci=[{",".intercalate ci}]"

def showDel : DelRes → String
  | .ok => "ok" | .notFound => "nf" | .failed => "fail" | .closedErr => "closed" | .migrating => "mig"

def logS (o : Outcome) (q : SQ) (σ : St) : String :=
  s!" M{q.gid}:{bit o.markOk} D{q.sid}:{showDel (delSRes o q.sid σ.shards σ.bgr)} P{q.sid}:{bit o.pruneOk}"

def logI (o : Outcome) (q : IQ) (σ : St) : String :=
  s!" m{q.igid}:{bit o.markOk} d{q.iid}:{showDel (delIRes o q.iid σ.idxs)} p{q.iid}:{bit o.pruneOk}"

def procSLogged (oc : Nat → Outcome) : Nat → St → String → St × String
  | 0, σ, acc => (σ, acc)
  | n + 1, σ, acc =>
    match σ.phase, σ.sq with
    | .shards, q :: _ => procSLogged oc n (step σ (.procS (oc q.sid))) (acc ++ logS (oc q.sid) q σ)
    | _, _ => (σ, acc)

def procILogged (oc : Nat → Outcome) : Nat → St → String → St × String
  | 0, σ, acc => (σ, acc)
  | n + 1, σ, acc =>
    match σ.phase, σ.iq with
    | .indexes, q :: _ => procILogged oc n (step σ (.procI (oc q.iid))) (acc ++ logI (oc q.iid) q σ)
    | _, _ => (σ, acc)

/-- an alteration that lands during a run is a command like any other. -/
def midAlter (σ : St) : Option Int → St
  | some d => (Cmd.cmdAlter σ (some d)).1
  | none => σ

/-- one `handle()` with its call log. -/
def runLogged (sc : Script) (lm : Option Nat) (σ : St) : St × String :=
  let σa := midAlter (step (midAlter (step σ (.refreshS sc.okS)) sc.alter1) (.refreshI sc.okI)) sc.alter2
  let σa := match lm with | some sid => step σa (.load sid) | none => σa
  let head := s!"RS{bit sc.okS} RI{bit sc.okI}"
  if !(sc.okS && sc.okI) then (σa, head)
  else
    let σ1 := step σa .collectS
    let head := head ++ s!" NS[{joinNat (sortNat (σ1.nilS.map (·.sid)))}] XS[{joinNat (σ1.sq.map (·.sid))}]"
    let (σ2, head) := procSLogged sc.outS σ1.sq.length σ1 head
    let σ3 := step σ2 .collectI
    let head := head ++ s!" NI[{joinNat (sortNat (σ3.nilI.map (·.iid)))}] XI[{joinNat (σ3.iq.map (·.iid))}]"
    let (σ4, head) := procILogged sc.outI σ3.iq.length σ3 head
    let head := head ++ s!" XC[{joinNat (sortNat (expiredCache σ4.clock σ4.idxs))}]"
    (step σ4 .cache, head)

def stepX (σ : Option St) (ws : List String) : Option St × String :=
  match σ, ws with
  | _, ["new", d, cs, ci] =>
    match d.toInt?, (listOf cs ";").mapM parseCSh, (listOf ci ";").mapM parseCIx with
    | some d, some cs, some ci => let σ := St.init 0 d cs ci; (some σ, "ok | " ++ dump σ)
    | _, _, _ => (σ, "bad-op")
  | some σ, ["tick", dt] =>
    match dt.toInt? with
    | some dt => let σ := step σ (.tick dt); (some σ, "ok | " ++ dump σ)
    | none => (some σ, "bad-op")
  | some σ, ["alter", d] =>
    match d.toInt? with
    | some d =>
      let (σ', ok) := Cmd.cmdAlter σ (some d)
      (some σ', (if ok then "ok" else "err") ++ " | " ++ dump σ')
    | none => (some σ, "bad-op")
  | some σ, ["load", sid] =>
    match sid.toNat? with
    | some sid =>
      let σ' := step σ (.load sid)
      (some σ', (if σ'.shards.length == σ.shards.length then "noop" else "ok") ++ " | " ++ dump σ')
    | none => (some σ, "bad-op")
  | some σ, ["offload"] => let σ := step σ .offload; (some σ, "ok | " ++ dump σ)
  | some σ, ["rollback"] => let σ := step σ .rollback; (some σ, "ok | " ++ dump σ)
  | some σ, ["close", sid] =>
    match sid.toNat? with
    | some sid => let σ := step σ (.close sid); (some σ, "ok | " ++ dump σ)
    | none => (some σ, "bad-op")
  | some σ, ["run", okS, a1, okI, a2, os, oi, lm] =>
    let lm' : Option (Option Nat) := if lm == "-" then some none else (lm.toNat?).map some
    match σ.phase, parseBit okS, parseOptInt a1, parseBit okI, parseOptInt a2,
          (listOf os ",").mapM parseOutcome, (listOf oi ",").mapM parseOutcome, lm' with
    | .idle, some okS, some a1, some okI, some a2, some os, some oi, some lm =>
      let (σ', log) := runLogged ⟨okS, a1, okI, a2, outcomeFn os, outcomeFn oi⟩ lm σ
      (some σ', log ++ " | " ++ dump σ')
    | _, _, _, _, _, _, _, _ => (some σ, "bad-op")
  | _, _ => (σ, "bad-op")

end OG.C14.Ix

namespace OG.C14.Al

/-- `g` ops — the catalogue's assignment of shard groups to index groups:
  g new <sgd> <igd>            → ok <sgd> <igd>          (durations after normalisation)
  g sg <t>                     → sg <s> <e> ig <s> <e> | exists
  g alter <sgd|-> <igd|-> <dur|->  → ok <sgd> <igd> <dur> | err   (the command path) -/
def stepG (c : Option (Cat × Int)) (ws : List String) : Option (Cat × Int) × String :=
  match c, ws with
  | _, ["new", s, i] =>
    match s.toInt?, i.toInt? with
    | some s, some i => if 0 < s && 0 ≤ i then let c := Cat.init s i; (some (c, 0), s!"ok {c.sgd} {c.igd}") else (c, "bad-op")
    | _, _ => (c, "bad-op")
  | some (c, d), ["sg", t] =>
    match t.toInt? with
    | some t =>
      match createSG c t with
      | (c', some (sg, ig)) => (some (c', d), s!"sg {sg.s} {sg.e} ig {ig.s} {ig.e}")
      | (c', none) => (some (c', d), "exists")
    | none => (some (c, d), "bad-op")
  | some (c, d), ["alter", s, i, dur] =>
    match Ix.parseOptInt s, Ix.parseOptInt i, Ix.parseOptInt dur with
    | some s, some i, some dur =>
      if (match s with | some v => 0 < v | none => true) && (match i with | some v => 0 ≤ v | none => true) then
        let ((c', d'), ok) := Cmd.alterCat c d dur s i
        (some (c', d'), if ok then s!"ok {c'.sgd} {c'.igd} {d'}" else "err")
      else (some (c, d), "bad-op")
    | _, _, _ => (some (c, d), "bad-op")
  | _, _ => (c, "bad-op")

end OG.C14.Al

namespace OG.C14.Sh

/-- `s` ops — retention on shared storage:
  s new <d> <gid:end:sid+sid…;…|-> <igid:end:iid+…;…|->
  s tick <dt> | s alter <d> | s revert | s check
`s check` answers `mark [gids] del [sids] idx [igids]`; every op appends ` | <dump>`. -/
def parseIds (s : String) : Option (List (Nat × Bool)) :=
  (Ix.listOf s "+").mapM fun x => (x.toNat?).map fun n => (n, false)

def parseSG (s : String) : Option SG :=
  match s.splitOn ":" with
  | [gid, en, ids] => do some ⟨← gid.toNat?, ← en.toInt?, none, 0, ← parseIds ids⟩
  | _ => none

def parseIG (s : String) : Option IG :=
  match s.splitOn ":" with
  | [gid, en, ids] => do some ⟨← gid.toNat?, ← en.toInt?, false, ← parseIds ids⟩
  | _ => none

def dump (σ : St) : String :=
  let sg := σ.sgs.map fun g => s!"{g.gid}:{Ix.bit g.deletedAt.isSome}:" ++ "+".intercalate (g.shards.map fun x => s!"{x.1}.{Ix.bit x.2}")
  s!"d={σ.dur} sg=[{";".intercalate sg}] ig=[{Ix.joinNat (σ.igs.map (·.igid))}] gone=[{Ix.joinNat (Ix.sortNat σ.gone)}]"

def stepS (σ : Option St) (ws : List String) : Option St × String :=
  match σ, ws with
  | _, ["new", d, sgs, igs] =>
    match d.toInt?, (Ix.listOf sgs ";").mapM parseSG, (Ix.listOf igs ";").mapM parseIG with
    | some d, some sgs, some igs => let σ := St.init 0 d sgs igs; (some σ, "ok | " ++ dump σ)
    | _, _, _ => (σ, "bad-op")
  | some σ, ["tick", dt] =>
    match dt.toInt? with
    | some dt => let σ := step σ (.tick dt); (some σ, "ok | " ++ dump σ)
    | none => (some σ, "bad-op")
  | some σ, ["alter", d] =>
    match d.toInt? with
    | some d => let σ := step σ (.alter d); (some σ, "ok | " ++ dump σ)
    | none => (some σ, "bad-op")
  | some σ, ["revert"] => let σ := step σ .revert; (some σ, "ok | " ++ dump σ)
  | some σ, ["check"] =>
    let σ' := step σ .check
    let dels := (toDelete σ).flatMap (·.2)
    let idx := (σ.igs.filter fun g => !(σ'.igs.any fun h => h.igid == g.igid)).map (·.igid)
    (some σ', s!"mark [{Ix.joinNat (toMark σ)}] del [{Ix.joinNat dels}] idx [{Ix.joinNat idx}] | " ++ dump σ')
  | _, _ => (σ, "bad-op")

end OG.C14.Sh

namespace OG.C14.Tier

/-- `m <sid:tier:tierDur:endRel,…>` → `warm [sids] cold [sids]` (`FetchShardsNeedChangeStore`, now = 0). -/
def stepM (ws : List String) : String :=
  match ws with
  | [items] =>
    let parsed := (Ix.listOf items ",").mapM fun s =>
      match s.splitOn ":" with
      | [sid, tier, td, rel] => do some ((← sid.toNat?), (← tier.toNat?), (← td.toInt?), (← rel.toInt?))
      | _ => none
    match parsed with
    | some l =>
      let w := (l.filter fun x => move 0 x.2.1 x.2.2.1 x.2.2.2 == .toWarm).map (·.1)
      let c := (l.filter fun x => move 0 x.2.1 x.2.2.1 x.2.2.2 == .toCold).map (·.1)
      s!"warm [{Ix.joinNat (Ix.sortNat w)}] cold [{Ix.joinNat (Ix.sortNat c)}]"
    | none => "bad-op"
  | _ => "bad-op"

end OG.C14.Tier

namespace OG.C14.Sc

/-- `c` ops — schema of a measurement under prunes:
  c new <sgd> | c sg <t> → end <e> | c w <field> <groupEnd> | c prune <groupEnd>
every op appends ` | schema [name:endHi,…] marked <0|1>`. -/
structure CSt where
  sgd : Int
  s : List Fld
  marked : Bool

def dump (σ : CSt) : String :=
  let fs := (σ.s.mergeSort fun a b => decide (a.name ≤ b.name)).map fun x => s!"{x.name}:{x.endHi}"
  s!"schema [{",".intercalate fs}] marked {Ix.bit σ.marked}"

def stepC (σ : Option CSt) (ws : List String) : Option CSt × String :=
  match σ, ws with
  | _, ["new", g] =>
    match g.toInt? with
    | some g => if 0 < g then let σ : CSt := ⟨g, [], false⟩; (some σ, "ok | " ++ dump σ) else (σ, "bad-op")
    | none => (σ, "bad-op")
  | some σ, ["sg", t] =>
    match t.toInt? with
    | some t => (some σ, s!"end {Al.trunc t σ.sgd + σ.sgd} | " ++ dump σ)
    | none => (some σ, "bad-op")
  | some σ, ["w", f, e] =>
    match f.toNat?, e.toInt? with
    | some f, some e => let σ := { σ with s := upd f (hi e) σ.s }; (some σ, "ok | " ++ dump σ)
    | _, _ => (some σ, "bad-op")
  | some σ, ["prune", e] =>
    match e.toInt? with
    | some e =>
      let s' := clean σ.s e
      let σ := { σ with s := s', marked := σ.marked || s'.isEmpty }
      (some σ, "ok | " ++ dump σ)
    | none => (some σ, "bad-op")
  | _, _ => (σ, "bad-op")

end OG.C14.Sc
