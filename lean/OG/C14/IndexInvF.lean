/-
C14 — invariant F of the index-side machine: what the index side of a run's refresh wrote is
what the run decides with.  This is the part that needs `SetDuration` to store every value it is
given (`ixSetDuration_duration`).
-/
import OG.C14.IndexInv

namespace OG.C14.Ix
open OG.C14

structure InvF (σ : St) : Prop where
  iqPhase : σ.phase ≠ .indexes → σ.iq = []
  halfFresh : σ.phase = .half → ∀ x ∈ σ.idxs, x.fresh = false
  fresh : (σ.phase = .refreshed ∨ σ.phase = .shards ∨ σ.phase = .shardsDone) →
    (∀ x ∈ σ.idxs, x.fresh = true → x.b.duration = σ.refI) ∧ (∀ n ∈ σ.nilI, n.dur = σ.refI)
  iqFresh : ∀ q ∈ σ.iq, q.fresh = true → q.dUsed = σ.refI
  logF : ∀ ev ∈ σ.log, ev.kind ≠ .delShard → ev.fresh = true → ev.d = ev.refD

theorem mem_iInfos {ci : List CIx} {d : Int} {i : IInfo} (h : i ∈ iInfos ci d) : i.dur = d := by
  unfold iInfos at h
  obtain ⟨c, _, rfl⟩ := List.mem_map.mp h
  rfl

/-- the index side of the refresh on one builder: reached (then it holds exactly what meta sent
and is flagged), or left as it was. -/
theorem updIndexI_cases (ci : List CIx) (d : Int) (x : XIndex) :
    ((updIndexI (iInfos ci d) x).fresh = true ∧ (updIndexI (iInfos ci d) x).b.duration = d) ∨
    updIndexI (iInfos ci d) x = x := by
  unfold updIndexI
  split
  · rename_i i hi
    have := mem_iInfos (List.mem_of_find?_eq_some hi)
    exact Or.inl ⟨rfl, by rw [← this]; exact ixSetDuration_duration _ _⟩
  · exact Or.inr rfl

theorem InvF.step {σ : St} (h : InvF σ) (op : Op) : InvF (step σ op) := by
  cases op with
  | tick dt => exact ⟨h.iqPhase, h.halfFresh, h.fresh, h.iqFresh, h.logF⟩
  | alter d => exact ⟨h.iqPhase, h.halfFresh, h.fresh, h.iqFresh, h.logF⟩
  | load sid =>
    obtain ⟨_, _, e3, e4, _, e6, e7, e8⟩ := loadShard_other sid σ
    simp only [Ix.step]
    refine ⟨by rw [e7, e4]; exact h.iqPhase, ?_, ?_, by rw [e4, e8]; exact h.iqFresh, by rw [e6]; exact h.logF⟩
    · intro hp x hx
      rw [e7] at hp
      rcases loadShard_idxs hx with hx | ⟨hf, _⟩
      · exact h.halfFresh hp x hx
      · exact hf
    · intro hp
      rw [e7] at hp
      rw [e3, e8]
      refine ⟨?_, (h.fresh hp).2⟩
      intro x hx hf
      rcases loadShard_idxs hx with hx | ⟨hf', _⟩
      · exact (h.fresh hp).1 x hx hf
      · rw [hf'] at hf; exact absurd hf (by simp)
  | close sid => exact ⟨h.iqPhase, h.halfFresh, h.fresh, h.iqFresh, h.logF⟩
  | refreshS ok =>
    simp only [Ix.step]
    split
    · rename_i hp
      have hiq : σ.iq = [] := h.iqPhase (by rw [hp]; simp)
      split
      · refine ⟨fun _ => hiq, ?_, ?_, ?_, h.logF⟩
        · intro _ x hx
          simp only [refreshS, List.mem_map] at hx
          obtain ⟨x1, ⟨x0, _, rfl⟩, rfl⟩ := hx
          rw [updIndexS_fresh]
        · intro hc
          simp only [refreshS] at hc
          rcases hc with hc | hc | hc <;> exact absurd hc (by simp)
        · intro q hq
          simp only [refreshS] at hq
          rw [hiq] at hq
          exact absurd hq List.not_mem_nil
      · refine ⟨fun _ => hiq, ?_, ?_, ?_, h.logF⟩
        · intro _ x hx
          obtain ⟨x0, _, rfl⟩ := List.mem_map.mp hx
          rfl
        · intro hc
          rcases hc with hc | hc | hc <;> exact absurd hc (by simp)
        · intro q hq
          change q ∈ σ.iq at hq
          rw [hiq] at hq
          exact absurd hq List.not_mem_nil
    · exact h
  | refreshI ok =>
    simp only [Ix.step]
    split
    · rename_i hp
      have hiq : σ.iq = [] := h.iqPhase (by rw [hp]; simp)
      have hhalf := h.halfFresh hp
      cases ok with
      | false =>
        refine ⟨fun _ => hiq, ?_, ?_, ?_, h.logF⟩
        · intro hc; exact absurd hc (by simp)
        · intro hc
          rcases hc with hc | hc | hc <;> exact absurd hc (by simp)
        · intro q hq
          change q ∈ σ.iq at hq
          rw [hiq] at hq
          exact absurd hq List.not_mem_nil
      | true =>
        refine ⟨fun _ => by simp only [refreshI, if_true]; exact hiq, ?_, ?_, ?_, by simp only [refreshI, if_true]; exact h.logF⟩
        · intro hc
          simp only [Bool.true_and] at hc
          split at hc <;> exact absurd hc (by simp)
        · intro _
          simp only [refreshI, if_true]
          refine ⟨?_, ?_⟩
          · intro x hx hf
            obtain ⟨x0, h0, rfl⟩ := List.mem_map.mp hx
            rcases updIndexI_cases σ.ci σ.metaDur x0 with ⟨_, hd⟩ | he
            · exact hd
            · rw [he] at hf
              rw [hhalf x0 h0] at hf
              exact absurd hf (by simp)
          · intro n hn
            exact (mem_nilIInfos hn).1
        · intro q hq
          simp only [refreshI, if_true] at hq
          rw [hiq] at hq
          exact absurd hq List.not_mem_nil
    · exact h
  | collectS =>
    simp only [Ix.step]
    split
    · rename_i hp
      have hiq : σ.iq = [] := h.iqPhase (by rw [hp]; simp)
      refine ⟨fun _ => hiq, ?_, fun _ => h.fresh (Or.inl hp), h.iqFresh, h.logF⟩
      intro hc
      split at hc <;> exact absurd hc (by simp)
    · exact h
  | procS o =>
    simp only [Ix.step]
    split
    · rename_i q rest hp hq
      have hiq : σ.iq = [] := h.iqPhase (by rw [hp]; simp)
      refine ⟨fun _ => by simp only [procS]; exact hiq, ?_, ?_, by simp only [procS]; exact h.iqFresh, ?_⟩
      · intro hc
        split at hc <;> exact absurd hc (by simp)
      · intro _
        simp only [procS]
        exact h.fresh (Or.inr (Or.inl hp))
      · intro ev hev hk
        simp only [procS, List.mem_append] at hev
        rcases hev with hev | hev
        · split at hev
          · rw [List.mem_singleton.mp hev] at hk
            exact absurd rfl hk
          · exact absurd hev List.not_mem_nil
        · exact h.logF ev hev hk
    · exact h
  | collectI =>
    simp only [Ix.step]
    split
    · rename_i hp
      have hf := h.fresh (Or.inr (Or.inr hp))
      refine ⟨?_, ?_, ?_, ?_, h.logF⟩
      · intro hc
        split at hc
        · rename_i he
          exact List.isEmpty_iff.mp he
        · exact absurd rfl hc
      · intro hc
        split at hc <;> exact absurd hc (by simp)
      · intro hc
        rcases hc with hc | hc | hc <;> (split at hc <;> exact absurd hc (by simp))
      · intro q hq hqf
        rcases mem_expiredI (mem_sortI.mp hq) with ⟨x, hx, _, _, rfl⟩ | ⟨n, hn, _, rfl⟩
        · exact hf.1 x hx hqf
        · exact hf.2 n hn
    · exact h
  | procI o =>
    simp only [Ix.step]
    split
    · rename_i q rest hp hq
      have hqm : q ∈ σ.iq := hq ▸ List.mem_cons_self
      refine ⟨?_, ?_, ?_, ?_, ?_⟩
      · intro hc
        split at hc
        · rename_i he
          exact List.isEmpty_iff.mp he
        · exact absurd rfl hc
      · intro hc
        split at hc <;> exact absurd hc (by simp)
      · intro hc
        rcases hc with hc | hc | hc <;> (split at hc <;> exact absurd hc (by simp))
      · intro q' hq' hf
        simp only [procI]
        exact h.iqFresh q' (hq ▸ List.mem_cons_of_mem _ hq') hf
      · intro ev hev hk hf
        have : ev ∈ (Ix.step σ (.procI o)).log := by
          simp only [Ix.step, hp, hq]
          exact hev
        rcases step_log (.procI o) this with hold | hs | ⟨q2, rest2, _, hq2, _, _, e3, _, e5, e6, _, _, _⟩
        · exact h.logF ev hold hk hf
        · exact absurd hs hk
        · have : q2 = q := by
            rw [hq] at hq2
            exact (List.cons.inj hq2).1.symm
          subst this
          rw [e3, e6]
          exact h.iqFresh q2 hqm (e5 ▸ hf)
    · exact h
  | cache =>
    simp only [Ix.step]
    split
    · rename_i hp
      have hiq : σ.iq = [] := h.iqPhase (by rw [hp]; simp)
      refine ⟨fun _ => hiq, ?_, ?_, h.iqFresh, h.logF⟩
      · intro hc; exact absurd hc (by simp)
      · intro hc
        rcases hc with hc | hc | hc <;> exact absurd hc (by simp)
    · exact h
  | offload => exact ⟨h.iqPhase, h.halfFresh, h.fresh, h.iqFresh, h.logF⟩
  | rollback => exact ⟨h.iqPhase, h.halfFresh, h.fresh, h.iqFresh, h.logF⟩

theorem InvF.steps {σ : St} (h : InvF σ) (ops : List Op) : InvF (steps σ ops) := by
  induction ops generalizing σ with
  | nil => exact h
  | cons op rest ih => exact ih (h.step op)

theorem InvF.init (clock d : Int) (cs : List CSh) (ci : List CIx) : InvF (St.init clock d cs ci) := by
  refine ⟨fun _ => rfl, ?_, ?_, ?_, ?_⟩
  · intro hc; exact absurd hc (by simp [St.init])
  · intro hc
    rcases hc with hc | hc | hc <;> exact absurd hc (by simp [St.init])
  · intro q hq; exact absurd hq List.not_mem_nil
  · intro ev hev; exact absurd hev List.not_mem_nil

end OG.C14.Ix
