/-
C14 — expectations about the regenerated facts.  Each theorem compares what ogfacts extracted
from /repo *now* with what the hand-written model was written against (logging statements
stripped).  A failure means the transcribed source changed shape: the model has to be
re-validated against it (the correspondence run decides whether the behaviour still agrees).
The translated predicates themselves (`shardIsExpired`, `nilShardIsExpired`, `writeMinTime`,
`writeRejected`, `groupOverlaps`) are checked by the theorems of `Props.lean` and by the closed
forms below.
-/
import OG.C14.Lemmas

namespace OG.C14.Facts
open OG.Gen.C14

theorem writeRejectOtherSrc_expected : OG.C14.writeRejectOtherSrc = "!w.inTimeRange(r.Timestamp)" := by rfl

theorem src_ExpiredShards_expected : src_ExpiredShards = "{ e.mu.RLock() defer e.mu.RUnlock() var res []*meta2.ShardIdentifier for db := range e.DBPartitions { for _, pti := range e.DBPartitions[db] { pti.mu.RLock() for sid := range pti.shards { if _, ok := (*nilShardMap)[sid]; ok { continue } if pti.shards[sid].IsExpired() { res = append(res, pti.shards[sid].GetIdent()) } } for sid, info := range *nilShardMap { if e.containSid(res, sid) { continue } if e.nilShardIsExpired(info.DurationInfo.Duration, info.Ident.EndTime) { res = append(res, &info.Ident) } } pti.mu.RUnlock() } } return res }" := by rfl

theorem src_UpdateShardDurationInfo_expected : src_UpdateShardDurationInfo = "{ e.mu.RLock() if err := e.checkAndAddRefPTNoLock(info.Ident.OwnerDb, info.Ident.OwnerPt); err != nil { e.mu.RUnlock() return err } dbPT := e.DBPartitions[info.Ident.OwnerDb][info.Ident.OwnerPt] e.mu.RUnlock() defer e.unrefDBPT(info.Ident.OwnerDb, info.Ident.OwnerPt) dbPT.mu.RLock() defer dbPT.mu.RUnlock() shard := dbPT.shards[info.Ident.ShardID] if shard == nil || shard.GetIndexBuilder() == nil { (*nilShardMap)[info.Ident.ShardID] = info return nil } shard.GetIdent().ShardGroupID = info.Ident.ShardGroupID shard.GetDuration().Duration = info.DurationInfo.Duration shard.GetDuration().Tier = info.DurationInfo.Tier shard.GetDuration().TierDuration = info.DurationInfo.TierDuration shard.GetDuration().MergeDuration = info.DurationInfo.MergeDuration shard.GetIndexBuilder().SetDuration(info.DurationInfo.Duration) shard.GetIndexBuilder().SetMergeDuration(info.DurationInfo.MergeDuration) return nil }" := by rfl

theorem src_containSid_expected : src_containSid = "{ for _, s := range shards { if s.ShardID == sid { return true } } return false }" := by rfl

theorem src_handle_expected : src_handle = "{ logger, logEnd := log.NewOperation(s.Logger.GetZapLogger(), \"retention policy deletion check\", \"retention_delete_check\") nilShardMap := make(map[uint64]*meta.ShardDurationInfo) nilIndexMap := make(map[uint64]*meta.IndexDurationInfo) if err := s.updateDurationInfo(&nilShardMap, &nilIndexMap); err != nil { return } var retryNeeded bool if config.IsLogKeeper() { retryNeeded = s.HandleSharedStorage(logger) } else { retryNeeded = s.HandleLocalStorage(logger, &nilShardMap, &nilIndexMap) } if retryNeeded { } }" := by rfl

theorem src_updateShardDurationInfo_expected : src_updateShardDurationInfo = "{ res, err := s.MetaClient.GetShardDurationInfo(s.index) if err != nil { return err } if res.DataIndex > s.index { s.index = res.DataIndex } for i := range res.Durations { err = s.Engine.UpdateShardDurationInfo(&res.Durations[i], nilShardMap) if errno.Equal(err, errno.PtNotFound) || errno.Equal(err, errno.DBPTClosed) { continue } if err != nil { return err } } return nil }" := by rfl

theorem src_updateDurationInfo_expected : src_updateDurationInfo = "{ err1 := s.updateShardDurationInfo(nilShardMap) err2 := s.UpdateIndexDurationInfo(nilIndexMap) if err1 != nil { return err1 } return err2 }" := by rfl

theorem src_DeleteShardOrIndex_expected : src_DeleteShardOrIndex = "{ pdInfo := s.getPendingInfo(delType) if err := pdInfo.IsInPendingState(id); err != nil { return err } pendingState := InitPending done := make(chan error, 1) go func() { err := s.DeleteByEngine(db, ptId, id, delType) if err != nil { s.Logger.Error(\"delete shard or index failed\", zap.Int(\"delete type\", delType), zap.Uint64(\"id\", id), zap.Error(err)) } done <- err pdInfo.ExitingPendingState(id, &pendingState) }() select { case err := <-done: return err case <-time.After(shardDeletionTimeout): pdInfo.EnteringPendingState(id, &pendingState) return fmt.Errorf(\"id{%d} deletion entered pending status\", id) } }" := by rfl

theorem src_DeleteShardGroup_expected : src_DeleteShardGroup = "{ rpi, err := data.RetentionPolicy(database, policy) if err != nil { return err } for i := range rpi.ShardGroups { if rpi.ShardGroups[i].ID == id { if deleteType == CancelDelete { rpi.ShardGroups[i].DeletedAt = time.Time{} } else { if deletedAt != 0 { rpi.ShardGroups[i].DeletedAt = time.Unix(0, deletedAt) } else { rpi.ShardGroups[i].DeletedAt = time.Now().UTC() } } break } } return nil }" := by rfl

theorem src_pruneShardGroups_expected : src_pruneShardGroups = "{ data.WalkDatabases(func(db *DatabaseInfo) { db.WalkRetentionPolicy(func(rp *RetentionPolicyInfo) { var endTime int64 deleteSg := false for idx := 0; idx < len(rp.ShardGroups); { if id >= rp.ShardGroups[idx].Shards[0].ID && id <= rp.ShardGroups[idx].Shards[len(rp.ShardGroups[idx].Shards)-1].ID { pos := sort.Search(len(rp.ShardGroups[idx].Shards), func(i int) bool { return rp.ShardGroups[idx].Shards[i].ID >= id }) if rp.ShardGroups[idx].Shards[pos].ID == id { rp.ShardGroups[idx].Shards[pos].MarkDelete = true } } if !rp.ShardGroups[idx].DeletedAt.IsZero() && rp.ShardGroups[idx].canDelete() { for _, mstInfo := range rp.Measurements { if mstInfo.InitNumOfShards == 0 { continue } delete(mstInfo.ShardIdexes, rp.ShardGroups[idx].ID) } if rp.ShardGroups[idx].EndTime.UnixNano() > endTime { endTime = rp.ShardGroups[idx].EndTime.UnixNano() } rp.ShardGroups = append(rp.ShardGroups[:idx], rp.ShardGroups[idx+1:]...) deleteSg = true } else { idx++ } } if SchemaCleanEn && deleteSg { data.SchemaClean(rp, endTime, db) } }) }) return nil }" := by rfl

theorem src_ShardGroupsByTimeRange_expected : src_ShardGroupsByTimeRange = "{ rpi, err := data.RetentionPolicy(database, policy) if err != nil { return nil, err } else if rpi == nil { return nil, ErrRetentionPolicyNotFound(policy) } groups := make([]ShardGroupInfo, 0, len(rpi.ShardGroups)) for _, g := range rpi.ShardGroups { if g.Deleted() || !g.Overlaps(tmin, tmax) { continue } groups = append(groups, g) } return groups, nil }" := by rfl

theorem src_canDelete_expected : src_canDelete = "{ for i := range sgi.Shards { if !sgi.Shards[i].MarkDelete { return false } } return true }" := by rfl

theorem src_Deleted_expected : src_Deleted = "{ return !sgi.DeletedAt.IsZero() }" := by rfl

theorem src_Overlaps_expected : src_Overlaps = "{ return !sgi.StartTime.After(max) && sgi.EndTime.After(min) }" := by rfl

theorem src_HandleLocalStorage_shards_expected : src_HandleLocalStorage_shards = "var retryNeeded bool; expiredShards := s.Engine.ExpiredShards(nilShardMap); for i := range expiredShards { if err := s.MetaClient.DeleteShardGroup(expiredShards[i].OwnerDb, expiredShards[i].Policy, expiredShards[i].ShardGroupID, meta.MarkDelete); err != nil { retryNeeded = true } if err := s.DeleteShardOrIndex(expiredShards[i].OwnerDb, expiredShards[i].OwnerPt, expiredShards[i].ShardID, ShardDelete); err != nil { if !errno.Equal(err, errno.ShardNotFound) && !errno.Equal(err, errno.IndexNotFound) { retryNeeded = true } } if err := s.MetaClient.PruneGroupsCommand(true, expiredShards[i].ShardID); err != nil { } }" := by rfl

theorem durationInfos_assign_expected : durationInfos_assign = ["durationInfo.Ident.ShardID = sh.ID", "durationInfo.Ident.ShardGroupID = sg.ID", "durationInfo.Ident.EndTime = sg.EndTime", "durationInfo.DurationInfo.Duration = rp.Duration"] := by rfl

/-- closed forms of the translated write-side test and of `Overlaps`. -/
theorem writeMinTime_expected (nowSec d : Int) (hn : 0 ≤ nowSec ∧ OG.C14.InI64 (nowSec * 1000000000)) (hd : OG.C14.InI64 d) :
    OG.C14.writeMinTime nowSec d = if d > 0 then nowSec * 1000000000 - d else 0 := by
  unfold OG.C14.writeMinTime
  by_cases h : d > 0
  · simp only [h, decide_true, if_true]
    rw [OG.C14.wrap64_of_range hn.2, OG.C14.wrap64_of_range (by unfold OG.C14.InI64 at *; omega)]
  · simp [h]

theorem writeRejected_expected (ts m : Int) : OG.C14.writeRejected ts m = decide (ts < m) := by rfl

theorem groupOverlaps_expected (s e tmin tmax : Int) :
    OG.C14.groupOverlaps s e tmin tmax = true ↔ s ≤ tmax ∧ tmin < e := by
  unfold OG.C14.groupOverlaps
  simp only [Bool.and_eq_true, Bool.not_eq_true', decide_eq_false_iff_not, decide_eq_true_eq]
  omega

theorem generation_ok : generationFailed = false := by rfl

end OG.C14.Facts
