/-
C14 — the invariants of the index-side machine and their preservation by every step.
-/
import OG.C14.IndexLemmas

namespace OG.C14.Ix
open OG.C14

/-! ### where the pieces of the next state come from -/

theorem loadShard_shards {sid : Nat} {σ : St} {s : XShard} (h : s ∈ (loadShard sid σ).shards) :
    s ∈ σ.shards ∨ (∃ c ∈ σ.cs, c.iid = s.iid ∧ c.endT = s.endT) := by
  unfold loadShard at h
  split at h
  · exact Or.inl h
  · split at h
    · exact Or.inl h
    · rename_i c hc
      have hcm : c ∈ σ.cs := List.mem_of_find?_eq_some hc
      split at h
      · simp only [List.mem_append, List.mem_singleton] at h
        rcases h with h | rfl
        · exact Or.inl h
        · exact Or.inr ⟨c, hcm, rfl, rfl⟩
      · split at h
        · exact Or.inl h
        · simp only [List.mem_append, List.mem_singleton] at h
          rcases h with h | rfl
          · exact Or.inl h
          · exact Or.inr ⟨c, hcm, rfl, rfl⟩

theorem loadShard_idxs {sid : Nat} {σ : St} {x : XIndex} (h : x ∈ (loadShard sid σ).idxs) :
    x ∈ σ.idxs ∨ (x.fresh = false ∧ ∃ c ∈ σ.ci, c.iid = x.iid ∧ c.endT = x.b.endTime) := by
  unfold loadShard at h
  split at h
  · exact Or.inl h
  · split at h
    · exact Or.inl h
    · split at h
      · exact Or.inl h
      · split at h
        · exact Or.inl h
        · rename_i c hc
          have hcm : c ∈ σ.ci := List.mem_of_find?_eq_some hc
          simp only [List.mem_append, List.mem_singleton] at h
          rcases h with h | rfl
          · exact Or.inl h
          · exact Or.inr ⟨rfl, c, hcm, rfl, rfl⟩

theorem loadShard_other (sid : Nat) (σ : St) :
    (loadShard sid σ).cs = σ.cs ∧ (loadShard sid σ).ci = σ.ci ∧ (loadShard sid σ).nilI = σ.nilI ∧
    (loadShard sid σ).iq = σ.iq ∧ (loadShard sid σ).clock = σ.clock ∧ (loadShard sid σ).log = σ.log ∧
    (loadShard sid σ).phase = σ.phase ∧ (loadShard sid σ).refI = σ.refI := by
  unfold loadShard
  split
  · simp
  · split
    · simp
    · split
      · simp
      · split <;> simp

theorem step_shards {σ : St} (op : Op) {s : XShard} (h : s ∈ (step σ op).shards) :
    (∃ s0 ∈ σ.shards, s0.iid = s.iid ∧ s0.endT = s.endT) ∨ (∃ c ∈ σ.cs, c.iid = s.iid ∧ c.endT = s.endT) := by
  cases op with
  | tick dt => exact Or.inl ⟨s, h, rfl, rfl⟩
  | alter d => exact Or.inl ⟨s, h, rfl, rfl⟩
  | load sid =>
    rcases loadShard_shards h with h | h
    · exact Or.inl ⟨s, h, rfl, rfl⟩
    · exact Or.inr h
  | close sid =>
    simp only [step, List.mem_map] at h
    obtain ⟨s0, h0, rfl⟩ := h
    refine Or.inl ⟨s0, h0, ?_⟩
    split <;> exact ⟨rfl, rfl⟩
  | refreshS ok =>
    simp only [step] at h
    split at h
    · split at h
      · simp only [refreshS, List.mem_map] at h
        obtain ⟨s0, h0, rfl⟩ := h
        exact Or.inl ⟨s0, h0, (updShard_iid _ _).symm, (updShard_endT _ _).symm⟩
      · exact Or.inl ⟨s, h, rfl, rfl⟩
    · exact Or.inl ⟨s, h, rfl, rfl⟩
  | refreshI ok =>
    simp only [step] at h
    split at h
    · split at h
      · exact Or.inl ⟨s, h, rfl, rfl⟩
      · exact Or.inl ⟨s, h, rfl, rfl⟩
    · exact Or.inl ⟨s, h, rfl, rfl⟩
  | collectS =>
    simp only [step] at h
    split at h <;> exact Or.inl ⟨s, h, rfl, rfl⟩
  | procS o =>
    simp only [step] at h
    split at h
    · simp only [procS] at h
      split at h
      · exact Or.inl ⟨s, (List.mem_filter.mp h).1, rfl, rfl⟩
      · exact Or.inl ⟨s, h, rfl, rfl⟩
    · exact Or.inl ⟨s, h, rfl, rfl⟩
  | collectI =>
    simp only [step] at h
    split at h <;> exact Or.inl ⟨s, h, rfl, rfl⟩
  | procI o =>
    simp only [step] at h
    split at h
    · simp only [procI] at h
      split at h
      · obtain ⟨s0, h0, rfl⟩ := List.mem_map.mp h
        refine Or.inl ⟨s0, h0, ?_⟩
        split <;> exact ⟨rfl, rfl⟩
      · exact Or.inl ⟨s, h, rfl, rfl⟩
    · exact Or.inl ⟨s, h, rfl, rfl⟩
  | cache =>
    simp only [step] at h
    split at h <;> exact Or.inl ⟨s, h, rfl, rfl⟩
  | offload => exact Or.inl ⟨s, h, rfl, rfl⟩
  | rollback => exact Or.inl ⟨s, h, rfl, rfl⟩

theorem step_cs {σ : St} (op : Op) {c : CSh} (h : c ∈ (step σ op).cs) :
    ∃ c0 ∈ σ.cs, c.iid = c0.iid ∧ c.endT = c0.endT := by
  cases op with
  | tick dt => exact ⟨c, h, rfl, rfl⟩
  | alter d => exact ⟨c, h, rfl, rfl⟩
  | load sid => simp only [step, (loadShard_other sid σ).1] at h; exact ⟨c, h, rfl, rfl⟩
  | close sid => exact ⟨c, h, rfl, rfl⟩
  | refreshS ok =>
    simp only [step] at h
    split at h
    · split at h <;> exact ⟨c, h, rfl, rfl⟩
    · exact ⟨c, h, rfl, rfl⟩
  | refreshI ok =>
    simp only [step] at h
    split at h
    · split at h <;> exact ⟨c, h, rfl, rfl⟩
    · exact ⟨c, h, rfl, rfl⟩
  | collectS => simp only [step] at h; split at h <;> exact ⟨c, h, rfl, rfl⟩
  | procS o =>
    simp only [step] at h
    split at h
    · exact procS_cs_back h
    · exact ⟨c, h, rfl, rfl⟩
  | collectI => simp only [step] at h; split at h <;> exact ⟨c, h, rfl, rfl⟩
  | procI o =>
    simp only [step] at h
    split at h
    · simp only [procI] at h; exact ⟨c, h, rfl, rfl⟩
    · exact ⟨c, h, rfl, rfl⟩
  | cache => simp only [step] at h; split at h <;> exact ⟨c, h, rfl, rfl⟩
  | offload => exact ⟨c, h, rfl, rfl⟩
  | rollback => exact ⟨c, h, rfl, rfl⟩

theorem step_ci {σ : St} (op : Op) {c : CIx} (h : c ∈ (step σ op).ci) :
    ∃ c0 ∈ σ.ci, c.iid = c0.iid ∧ c.endT = c0.endT := by
  cases op with
  | tick dt => exact ⟨c, h, rfl, rfl⟩
  | alter d => exact ⟨c, h, rfl, rfl⟩
  | load sid => simp only [step, (loadShard_other sid σ).2.1] at h; exact ⟨c, h, rfl, rfl⟩
  | close sid => exact ⟨c, h, rfl, rfl⟩
  | refreshS ok =>
    simp only [step] at h
    split at h
    · split at h <;> exact ⟨c, h, rfl, rfl⟩
    · exact ⟨c, h, rfl, rfl⟩
  | refreshI ok =>
    simp only [step] at h
    split at h
    · split at h <;> exact ⟨c, h, rfl, rfl⟩
    · exact ⟨c, h, rfl, rfl⟩
  | collectS => simp only [step] at h; split at h <;> exact ⟨c, h, rfl, rfl⟩
  | procS o =>
    simp only [step] at h
    split at h
    · simp only [procS] at h; exact ⟨c, h, rfl, rfl⟩
    · exact ⟨c, h, rfl, rfl⟩
  | collectI => simp only [step] at h; split at h <;> exact ⟨c, h, rfl, rfl⟩
  | procI o =>
    simp only [step] at h
    split at h
    · exact procI_ci_back h
    · exact ⟨c, h, rfl, rfl⟩
  | cache => simp only [step] at h; split at h <;> exact ⟨c, h, rfl, rfl⟩
  | offload => exact ⟨c, h, rfl, rfl⟩
  | rollback => exact ⟨c, h, rfl, rfl⟩

theorem step_idxs {σ : St} (op : Op) {x : XIndex} (h : x ∈ (step σ op).idxs) : Top σ x.iid x.b.endTime := by
  cases op with
  | tick dt => exact Top.idx h
  | alter d => exact Top.idx h
  | load sid =>
    rcases loadShard_idxs h with h | ⟨_, c, hc, e1, e2⟩
    · exact Top.idx h
    · exact e1 ▸ e2 ▸ Top.cat hc
  | close sid => exact Top.idx h
  | refreshS ok =>
    simp only [step] at h
    split at h
    · split at h
      · simp only [refreshS, List.mem_map] at h
        obtain ⟨x1, ⟨x0, h0, rfl⟩, rfl⟩ := h
        rw [updIndexS_iid, updIndexS_endTime]
        exact (Top.idx h0 : Top σ x0.iid x0.b.endTime)
      · obtain ⟨x0, h0, rfl⟩ := List.mem_map.mp h
        exact (Top.idx h0 : Top σ x0.iid x0.b.endTime)
    · exact Top.idx h
  | refreshI ok =>
    simp only [step] at h
    split at h
    · split at h
      · simp only [refreshI, List.mem_map] at h
        obtain ⟨x0, h0, rfl⟩ := h
        rw [updIndexI_iid, updIndexI_endTime]
        exact Top.idx h0
      · exact Top.idx h
    · exact Top.idx h
  | collectS => simp only [step] at h; split at h <;> exact Top.idx h
  | procS o =>
    simp only [step] at h
    split at h
    · simp only [procS] at h; exact Top.idx h
    · exact Top.idx h
  | collectI => simp only [step] at h; split at h <;> exact Top.idx h
  | procI o =>
    simp only [step] at h
    split at h
    · simp only [procI] at h
      split at h
      · exact Top.idx (List.mem_filter.mp h).1
      · exact Top.idx h
    · exact Top.idx h
  | cache => simp only [step] at h; split at h <;> exact Top.idx h
  | offload => exact Top.idx h
  | rollback => exact Top.idx h

theorem mem_nilIInfos {idxs : List XIndex} {ci : List CIx} {d : Int} {n : IInfo}
    (h : n ∈ nilIInfos idxs (iInfos ci d)) : n.dur = d ∧ ∃ c ∈ ci, c.iid = n.iid ∧ c.endT = n.endT := by
  unfold nilIInfos iInfos at h
  obtain ⟨h, _⟩ := List.mem_filter.mp h
  obtain ⟨c, hc, rfl⟩ := List.mem_map.mp h
  exact ⟨rfl, c, hc, rfl, rfl⟩

theorem step_nilI {σ : St} (op : Op) {n : IInfo} (h : n ∈ (step σ op).nilI) : Top σ n.iid n.endT := by
  cases op with
  | tick dt => exact Top.nil h
  | alter d => exact Top.nil h
  | load sid => simp only [step, (loadShard_other sid σ).2.2.1] at h; exact Top.nil h
  | close sid => exact Top.nil h
  | refreshS ok =>
    simp only [step] at h
    split at h
    · split at h
      · simp only [refreshS] at h; exact absurd h (List.not_mem_nil)
      · exact absurd h (List.not_mem_nil)
    · exact Top.nil h
  | refreshI ok =>
    simp only [step] at h
    split at h
    · split at h
      · simp only [refreshI] at h
        obtain ⟨_, c, hc, e1, e2⟩ := mem_nilIInfos h
        exact e1 ▸ e2 ▸ Top.cat hc
      · exact Top.nil h
    · exact Top.nil h
  | collectS => simp only [step] at h; split at h <;> exact Top.nil h
  | procS o =>
    simp only [step] at h
    split at h
    · simp only [procS] at h; exact Top.nil h
    · exact Top.nil h
  | collectI => simp only [step] at h; split at h <;> exact Top.nil h
  | procI o =>
    simp only [step] at h
    split at h
    · simp only [procI] at h; exact Top.nil h
    · exact Top.nil h
  | cache => simp only [step] at h; split at h <;> exact Top.nil h
  | offload => exact Top.nil h
  | rollback => exact Top.nil h

/-- a queued item was queued before, or `ExpiredIndexes` has just reported it. -/
theorem step_iq {σ : St} (op : Op) {q : IQ} (h : q ∈ (step σ op).iq) :
    q ∈ σ.iq ∨ (σ.phase = .shardsDone ∧ q ∈ expiredI σ.clock σ.shards σ.idxs σ.nilI) := by
  cases op with
  | tick dt => exact Or.inl h
  | alter d => exact Or.inl h
  | load sid => simp only [step, (loadShard_other sid σ).2.2.2.1] at h; exact Or.inl h
  | close sid => exact Or.inl h
  | refreshS ok =>
    simp only [step] at h
    split at h
    · split at h <;> exact Or.inl h
    · exact Or.inl h
  | refreshI ok =>
    simp only [step] at h
    split at h
    · split at h <;> exact Or.inl h
    · exact Or.inl h
  | collectS => simp only [step] at h; split at h <;> exact Or.inl h
  | procS o =>
    simp only [step] at h
    split at h
    · simp only [procS] at h; exact Or.inl h
    · exact Or.inl h
  | collectI =>
    simp only [step] at h
    split at h
    · rename_i hp
      exact Or.inr ⟨hp, mem_sortI.mp h⟩
    · exact Or.inl h
  | procI o =>
    simp only [step] at h
    split at h
    · rename_i hq
      exact Or.inl (hq ▸ List.mem_cons_of_mem _ h)
    · exact Or.inl h
  | cache => simp only [step] at h; split at h <;> exact Or.inl h
  | offload => exact Or.inl h
  | rollback => exact Or.inl h

theorem Low.step {σ : St} (op : Op) {i : Nat} {e : Int} (h : Low (step σ op) i e) : Low σ i e :=
  Low.of (fun _ hs => step_shards op hs) (fun _ hc => step_cs op hc) h

theorem Top.step {σ : St} (op : Op) {i : Nat} {e : Int} (h : Top (step σ op) i e) : Top σ i e := by
  refine Top.of (fun _ hx => step_idxs op hx) (fun _ hc => step_ci op hc) (fun _ hn => step_nilI op hn) ?_ h
  intro q hq
  rcases step_iq op hq with hq | ⟨_, hq⟩
  · exact Top.q hq
  · rcases mem_expiredI hq with ⟨x, hx, _, _, rfl⟩ | ⟨n, hn, _, rfl⟩
    · exact Top.idx hx
    · exact Top.nil hn

theorem Aligned.step {σ : St} (h : Aligned σ) (op : Op) : Aligned (step σ op) :=
  fun i e e' a b => h i e e' (Low.step op a) (Top.step op b)

/-! ### the ghost log -/

/-- a record that is new after a step is a shard record, or was written by the iteration of the
index loop for the head of the queue. -/
theorem step_log {σ : St} (op : Op) {ev : Ev} (h : ev ∈ (step σ op).log) :
    ev ∈ σ.log ∨ ev.kind = .delShard ∨
    (∃ q rest, σ.phase = .indexes ∧ σ.iq = q :: rest ∧ ev.id = q.iid ∧ ev.endT = q.endT ∧ ev.d = q.dUsed ∧
      ev.now = q.nowD ∧ ev.fresh = q.fresh ∧ ev.refD = σ.refI ∧ ev.users = usersOf q.iid σ.shards ∧
      ev.fromNil = q.fromNil ∧ ev.held = q.held) := by
  cases op with
  | tick dt => exact Or.inl h
  | alter d => exact Or.inl h
  | load sid => simp only [step, (loadShard_other sid σ).2.2.2.2.2.1] at h; exact Or.inl h
  | close sid => exact Or.inl h
  | refreshS ok =>
    simp only [step] at h
    split at h
    · split at h <;> exact Or.inl h
    · exact Or.inl h
  | refreshI ok =>
    simp only [step] at h
    split at h
    · split at h <;> exact Or.inl h
    · exact Or.inl h
  | collectS => simp only [step] at h; split at h <;> exact Or.inl h
  | procS o =>
    simp only [step] at h
    split at h
    · simp only [procS, List.mem_append] at h
      rcases h with h | h
      · split at h
        · simp only [List.mem_singleton] at h
          exact Or.inr (Or.inl (h ▸ rfl))
        · exact absurd h List.not_mem_nil
      · exact Or.inl h
    · exact Or.inl h
  | collectI => simp only [step] at h; split at h <;> exact Or.inl h
  | procI o =>
    simp only [step] at h
    split at h
    · rename_i q rest hp hq
      simp only [procI, List.mem_append] at h
      have new : ∀ k : EvKind, ev = (⟨k, q.iid, q.endT, q.dUsed, q.nowD, q.fresh, σ.refI, usersOf q.iid σ.shards, q.fromNil, q.held⟩ : Ev) →
          ∃ q rest, σ.phase = .indexes ∧ σ.iq = q :: rest ∧ ev.id = q.iid ∧ ev.endT = q.endT ∧ ev.d = q.dUsed ∧
            ev.now = q.nowD ∧ ev.fresh = q.fresh ∧ ev.refD = σ.refI ∧ ev.users = usersOf q.iid σ.shards ∧
            ev.fromNil = q.fromNil ∧ ev.held = q.held := by
        intro k hk
        exact ⟨q, rest, hp, hq, by rw [hk], by rw [hk], by rw [hk], by rw [hk], by rw [hk], by rw [hk], by rw [hk], by rw [hk], by rw [hk]⟩
      rcases h with ((h | h) | h) | h
      · split at h
        · exact Or.inr (Or.inr (new _ (List.mem_singleton.mp h)))
        · exact absurd h List.not_mem_nil
      · split at h
        · exact Or.inr (Or.inr (new _ (List.mem_singleton.mp h)))
        · exact absurd h List.not_mem_nil
      · split at h
        · exact Or.inr (Or.inr (new _ (List.mem_singleton.mp h)))
        · exact absurd h List.not_mem_nil
      · exact Or.inl h
    · exact Or.inl h
  | cache => simp only [step] at h; split at h <;> exact Or.inl h
  | offload => exact Or.inl h
  | rollback => exact Or.inl h

/-! ### invariant A -/

/-- a record of an index deletion is good when the test that decided it had passed
(`d ≠ 0`, `end + d < now`, `now` = the clock reading of the test) and every shard object that held
the index at the moment of the action was expired under that same duration at that reading. -/
def GoodEvA (ev : Ev) : Prop :=
  ev.d ≠ 0 ∧ ev.endT + ev.d < ev.now ∧ ∀ u ∈ ev.users, u.2 + ev.d < ev.now

structure InvA (σ : St) : Prop where
  al : Aligned σ
  iqOk : ∀ q ∈ σ.iq, q.dUsed ≠ 0 ∧ q.endT + q.dUsed < q.nowD
  logOk : ∀ ev ∈ σ.log, ev.kind ≠ .delShard → GoodEvA ev

theorem mem_usersOf {iid : Nat} {shards : List XShard} {u : Nat × Int} (h : u ∈ usersOf iid shards) :
    ∃ s ∈ shards, s.iid = iid ∧ u = (s.sid, s.endT) := by
  unfold usersOf at h
  obtain ⟨s, hs, rfl⟩ := List.mem_map.mp h
  obtain ⟨hs, he⟩ := List.mem_filter.mp hs
  exact ⟨s, hs, by simpa using he, rfl⟩

theorem InvA.step {σ : St} (h : InvA σ) (op : Op) : InvA (step σ op) := by
  refine ⟨h.al.step op, ?_, ?_⟩
  · intro q hq
    rcases step_iq op hq with hq | ⟨_, hq⟩
    · exact h.iqOk q hq
    · have := expiredI_sound hq
      exact ⟨this.1, this.2.1⟩
  · intro ev hev hk
    rcases step_log op hev with hev | hev | ⟨q, rest, _, hq, e1, e2, e3, e4, _, _, e7, _, _⟩
    · exact h.logOk ev hev hk
    · exact absurd hev hk
    · have hqm : q ∈ σ.iq := hq ▸ List.mem_cons_self
      have hqo := h.iqOk q hqm
      refine ⟨by rw [e3]; exact hqo.1, by rw [e2, e3, e4]; exact hqo.2, ?_⟩
      intro u hu
      rw [e7] at hu
      obtain ⟨s, hs, hi, rfl⟩ := mem_usersOf hu
      have := h.al q.iid s.endT q.endT (Or.inl ⟨s, hs, hi, rfl⟩) (Top.q hqm)
      rw [e3, e4]
      show s.endT + q.dUsed < q.nowD
      omega

theorem InvA.steps {σ : St} (h : InvA σ) (ops : List Op) : InvA (steps σ ops) := by
  induction ops generalizing σ with
  | nil => exact h
  | cons op rest ih => exact ih (h.step op)

/-- the initial state: nothing on the store, nothing queued, no record; alignment is the
catalogue's own: no shard group ends after the index group its shards are assigned to. -/
def AlignedCat (cs : List CSh) (ci : List CIx) : Prop :=
  ∀ c ∈ cs, ∀ k ∈ ci, c.iid = k.iid → c.endT ≤ k.endT

theorem InvA.init (clock d : Int) {cs : List CSh} {ci : List CIx} (hal : AlignedCat cs ci) :
    InvA (St.init clock d cs ci) := by
  refine ⟨?_, ?_, ?_⟩
  · intro i e e' hl ht
    rcases hl with ⟨s, hs, _⟩ | ⟨c, hc, rfl, rfl⟩
    · exact absurd hs List.not_mem_nil
    · rcases ht with ⟨x, hx, _⟩ | ⟨k, hk, e1, rfl⟩ | ⟨n, hn, _⟩ | ⟨q, hq, _⟩
      · exact absurd hx List.not_mem_nil
      · exact hal c hc k hk e1.symm
      · exact absurd hn List.not_mem_nil
      · exact absurd hq List.not_mem_nil
  · intro q hq; exact absurd hq List.not_mem_nil
  · intro ev hev; exact absurd hev List.not_mem_nil

/-! ### invariant G: the guard of `ExpiredIndexes` (no alignment needed) -/

/-- every shard object that worked with the partition's builder when the test ran had expired by
its own duration at that clock reading. -/
def HeldExpired (held : List (Nat × Int × Int)) (now : Int) : Prop :=
  ∀ u ∈ held, u.2.2 ≠ 0 ∧ u.2.1 + u.2.2 < now

structure InvG (σ : St) : Prop where
  iqG : ∀ q ∈ σ.iq, q.fromNil = false → HeldExpired q.held q.nowD
  logG : ∀ ev ∈ σ.log, ev.kind ≠ .delShard → ev.fromNil = false → HeldExpired ev.held ev.now

theorem InvG.step {σ : St} (h : InvG σ) (op : Op) : InvG (step σ op) := by
  refine ⟨?_, ?_⟩
  · intro q hq hn
    rcases step_iq op hq with hq | ⟨_, hq⟩
    · exact h.iqG q hq hn
    · exact expiredI_held hq hn
  · intro ev hev hk hn
    rcases step_log op hev with hev | hev | ⟨q, rest, _, hq, _, _, _, e4, _, _, _, e8, e9⟩
    · exact h.logG ev hev hk hn
    · exact absurd hev hk
    · have hqm : q ∈ σ.iq := hq ▸ List.mem_cons_self
      rw [e9, e4]
      exact h.iqG q hqm (e8 ▸ hn)

theorem InvG.steps {σ : St} (h : InvG σ) (ops : List Op) : InvG (steps σ ops) := by
  induction ops generalizing σ with
  | nil => exact h
  | cons op rest ih => exact ih (h.step op)

theorem InvG.init (clock d : Int) (cs : List CSh) (ci : List CIx) : InvG (St.init clock d cs ci) :=
  ⟨fun q hq => absurd hq List.not_mem_nil, fun ev hev => absurd hev List.not_mem_nil⟩

end OG.C14.Ix
