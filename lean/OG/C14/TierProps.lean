/-
C14 — tier moves: theorems about `Tier.lean` (kept apart from the model so that the driver builds
whatever happens to the proofs).
-/
import OG.C14.Tier

namespace OG.C14.Tier
open OG.C14

theorem tier_expired_iff (now td e : Int) : shardTierExpired now td e = true ↔ td ≠ 0 ∧ e + td < now := by
  unfold shardTierExpired
  simp

/-- **tier_move_iff**: a shard is handed to the mover exactly when its tier has a duration, the
shard's end plus that duration has passed, and it is not cold already. -/
theorem tier_move_iff (now : Int) (tier : Nat) (td e : Int) :
    move now tier td e ≠ .stay ↔ td ≠ 0 ∧ e + td < now ∧ tier ≠ cold := by
  unfold move
  by_cases h : shardTierExpired now td e = true
  · have := (tier_expired_iff now td e).mp h
    by_cases hc : tier = cold
    · simp [h, hc]
    · by_cases hh : tier = hot <;> simp [h, hc, hh, this.1, this.2]
  · have hn : ¬ (td ≠ 0 ∧ e + td < now) := fun hx => h ((tier_expired_iff now td e).mpr hx)
    simp only [Bool.not_eq_true] at h
    simp [h]
    intro a b
    exact absurd ⟨a, b⟩ hn

/-- **unlimited_policy_may_still_move**: the deletion test and the tier test are independent — a
shard of an unlimited policy is never reported as expired but is moved when its tier duration
says so; and a shard whose tier has no duration never moves. -/
theorem unlimited_policy_may_still_move (now td e : Int) (h : td ≠ 0 ∧ e + td < now) :
    shardIsExpired now 0 e = false ∧ move now hot td e = .toWarm := by
  constructor
  · unfold shardIsExpired; simp
  · unfold move
    rw [(tier_expired_iff now td e).mpr h]
    decide

/-- **expired_implies_tier_expired**: `CheckSpecValid` keeps `HotDuration, WarmDuration ≤ Duration`
(`checkLeqThanDuration`), so by the time a shard is deleted its tier duration (if any) has passed
as well: deletion never overtakes a pending move. -/
theorem expired_implies_tier_expired (now d td e : Int) (htd : td ≠ 0) (hle : td ≤ d)
    (h : shardIsExpired now d e = true) : shardTierExpired now td e = true := by
  have : d ≠ 0 ∧ e + d < now := by
    unfold shardIsExpired at h
    simpa using h
  exact (tier_expired_iff now td e).mpr ⟨htd, by omega⟩

example : move 100 1 10 50 = .toWarm ∧ move 100 2 10 50 = .toCold ∧ move 100 3 10 50 = .stay ∧
    move 100 1 0 50 = .stay ∧ move 60 1 10 50 = .stay := by decide

end OG.C14.Tier
