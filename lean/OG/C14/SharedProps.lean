/-
C14 — retention on shared storage: what is removed was marked as expired at least one grace
period earlier; taking the marks back keeps the data; an alteration of the policy during the
grace period does *not* (witness).
-/
import OG.C14.Shared
import OG.C14.Lemmas

namespace OG.C14.Sh
open OG.C14

/-! ### the regenerated tests -/

theorem shared_mark_iff (t d e : Int) : sharedMarkCond t d e = true ↔ d ≠ 0 ∧ e + d < t := by
  unfold sharedMarkCond
  simp

/-- a marked group is still in its grace period while `now < DeletedAt + delay`. -/
theorem shared_grace_iff (t da dl : Int) : sharedInGrace t da dl = true ↔ t < da + dl := by
  unfold sharedInGrace
  simp

/-- an index group is due when the policy is limited and `end + duration + delay ≤ now` — for
every duration, the largest ones included: the two are added to the end one after the other
(`EndTime.Add(d).Add(delay)`, /repo 1da982d; `d + delay` in `time.Duration` wrapped for a policy
within a day of the maximum, e.g. `DURATION 106751d`, and made every ended index group due). -/
theorem shared_index_iff (t d e dl : Int) : sharedIndexSkip t d e dl = false ↔ d ≠ 0 ∧ e + (d + dl) ≤ t := by
  unfold sharedIndexSkip
  simp
  omega

/-- the largest whole-day duration (106751 d) with the 24 h delay: an index group that ended a day
ago is not due (the `time.Duration` sum would be negative: `wrap64` of it is). -/
example : sharedIndexSkip 0 (106751 * 86400 * 1000000000) (-86400 * 1000000000) delay = true ∧
    wrap64 (106751 * 86400 * 1000000000 + delay) < 0 := by decide

/-- the three tests agree with their statements over ℤ for every representable (int64) clock
reading, end, mark time and duration — none of them leaves `time.Time` arithmetic. -/
theorem shared_tests_int64 (t d e da : Int) (_ht : InI64 t) (_hd : InI64 d) (_he : InI64 e) (_hda : InI64 da) :
    (sharedMarkCond t d e = true ↔ d ≠ 0 ∧ e + d < t) ∧ (sharedInGrace t da delay = true ↔ t < da + delay) ∧
    (sharedIndexSkip t d e delay = false ↔ d ≠ 0 ∧ e + (d + delay) ≤ t) :=
  ⟨shared_mark_iff t d e, shared_grace_iff t da delay, shared_index_iff t d e delay⟩

example : sharedMarkCond 101 50 50 = true ∧ sharedMarkCond 100 50 50 = false ∧ sharedMarkCond 1000 0 50 = false ∧
    sharedInGrace 10 5 24 = true ∧ sharedInGrace 29 5 24 = false := by decide

/-! ### invariants -/

/-- every mark was set by a passed expiry test with the duration recorded beside it. -/
def MarkInv (sgs : List SG) : Prop :=
  ∀ g ∈ sgs, ∀ da, g.deletedAt = some da → g.dMark ≠ 0 ∧ g.endT + g.dMark < da

def GoodEv (ev : Ev) : Prop :=
  ev.dMark ≠ 0 ∧ ev.endT + ev.dMark < ev.markedAt ∧ ev.markedAt + delay ≤ ev.now

structure Inv (σ : St) : Prop where
  marks : MarkInv σ.sgs
  lg : ∀ ev ∈ σ.log, GoodEv ev

theorem MarkInv.markAll {sgs : List SG} (h : MarkInv sgs) (now d : Int) : MarkInv (markAll now d sgs) := by
  intro g hg da hda
  unfold Sh.markAll at hg
  obtain ⟨g0, h0, rfl⟩ := List.mem_map.mp hg
  by_cases hc : (g0.deletedAt.isNone && sharedMarkCond now d g0.endT) = true
  · simp only [hc, if_true] at hda ⊢
    simp only [Bool.and_eq_true] at hc
    simp only [Option.some.injEq] at hda
    subst hda
    exact (shared_mark_iff _ _ _).mp hc.2
  · simp only [hc] at hda ⊢
    exact h g0 h0 da hda

theorem MarkInv.pruneS {sgs : List SG} (h : MarkInv sgs) (sid : Nat) : MarkInv (pruneS sid sgs) := by
  intro g hg da hda
  unfold Sh.pruneS at hg
  obtain ⟨hg, _⟩ := List.mem_filter.mp hg
  obtain ⟨g0, h0, rfl⟩ := List.mem_map.mp hg
  exact h g0 h0 da hda

theorem delShards_inv (now dNow : Int) (g : SG) (hg : g.dMark ≠ 0 ∧ g.endT + g.dMark < g.deletedAt.getD 0 ∧ g.deletedAt.getD 0 + delay ≤ now) :
    ∀ (sids : List Nat) (σ : St), Inv σ → Inv (delShards now dNow g sids σ)
  | [], σ, h => h
  | sid :: rest, σ, h => by
    unfold delShards
    apply delShards_inv now dNow g hg rest
    refine ⟨h.marks.pruneS sid, ?_⟩
    intro ev hev
    rcases List.mem_cons.mp hev with rfl | hev
    · exact hg
    · exact h.lg ev hev

theorem delGroups_inv (now dNow : Int) : ∀ (l : List (SG × List Nat)) (σ : St),
    (∀ p ∈ l, p.1.dMark ≠ 0 ∧ p.1.endT + p.1.dMark < p.1.deletedAt.getD 0 ∧ p.1.deletedAt.getD 0 + delay ≤ now) →
    Inv σ → Inv (delGroups now dNow l σ)
  | [], σ, _, h => h
  | (g, sids) :: rest, σ, hl, h => by
    unfold delGroups
    exact delGroups_inv now dNow rest _ (fun p hp => hl p (List.mem_cons_of_mem _ hp))
      (delShards_inv now dNow g (hl (g, sids) List.mem_cons_self) sids σ h)

theorem Inv.step {σ : St} (h : Inv σ) (op : Op) : Inv (step σ op) := by
  cases op with
  | tick dt => exact ⟨h.marks, h.lg⟩
  | alter d => exact ⟨h.marks, h.lg⟩
  | revert =>
    refine ⟨?_, h.lg⟩
    intro g hg da hda
    obtain ⟨g0, _, rfl⟩ := List.mem_map.mp hg
    simp at hda
  | check =>
    simp only [Sh.step, Sh.check]
    have hdel : ∀ p ∈ toDelete σ, p.1.dMark ≠ 0 ∧ p.1.endT + p.1.dMark < p.1.deletedAt.getD 0 ∧ p.1.deletedAt.getD 0 + delay ≤ σ.clock := by
      intro p hp
      unfold toDelete at hp
      obtain ⟨g, hg, rfl⟩ := List.mem_map.mp hp
      obtain ⟨hgm, hc⟩ := List.mem_filter.mp hg
      cases hda : g.deletedAt with
      | none => simp [hda] at hc
      | some da =>
        simp only [hda, Bool.not_eq_true'] at hc
        have hm := h.marks g hgm da hda
        have hgr : ¬ (σ.clock < da + delay) := by
          intro hlt
          have := (shared_grace_iff σ.clock da delay).mpr hlt
          rw [hc] at this
          exact absurd this (by simp)
        simp only [Option.getD_some]
        exact ⟨hm.1, hm.2, by omega⟩
    have h1 : Inv { σ with sgs := markAll σ.clock σ.dur σ.sgs } := ⟨h.marks.markAll _ _, h.lg⟩
    have h2 := delGroups_inv σ.clock σ.dur (toDelete σ) _ hdel h1
    exact ⟨h2.marks, h2.lg⟩

theorem Inv.steps {σ : St} (h : Inv σ) (ops : List Op) : Inv (steps σ ops) := by
  induction ops generalizing σ with
  | nil => exact h
  | cons op rest ih => exact ih (h.step op)

/-! ### the property on shared storage -/

/-- **shared_deleted_only_after_grace**: start from a catalogue without marks; after any sequence
of ticks (forwards or backwards), alterations, checks and reverts, every shard removed from the
object store belonged to a group that was marked by a passed expiry test
(`d ≠ 0`, `end + d < markedAt`, `d` the policy duration at that moment) and was removed no earlier
than one grace period (`RetentionDelayedTime`) after the mark. -/
theorem shared_deleted_only_after_grace (clock d : Int) (sgs : List SG) (igs : List IG)
    (h0 : ∀ g ∈ sgs, g.deletedAt = none) (ops : List Op) (ev : Ev)
    (hev : ev ∈ (steps (St.init clock d sgs igs) ops).log) :
    ev.dMark ≠ 0 ∧ ev.endT + ev.dMark < ev.markedAt ∧ ev.markedAt + delay ≤ ev.now := by
  have hinit : Inv (St.init clock d sgs igs) :=
    ⟨fun g hg da hda => by rw [h0 g hg] at hda; simp at hda, fun ev hev => absurd hev List.not_mem_nil⟩
  exact (hinit.steps ops).lg ev hev

theorem delGroups_nil_gone (now dNow : Int) (σ : St) : (delGroups now dNow [] σ).gone = σ.gone := rfl

/-- **revert_keeps**: once the marks are taken back (`RevertRetentionPolicyDelete`), the next
check removes nothing, whatever the clock says. -/
theorem revert_keeps (σ : St) : (step (step σ .revert) .check).gone = σ.gone := by
  have hnone : toDelete (step σ .revert) = [] := by
    unfold toDelete
    simp only [Sh.step]
    rw [List.map_eq_nil_iff, List.filter_eq_nil_iff]
    intro g hg
    obtain ⟨g0, _, rfl⟩ := List.mem_map.mp hg
    simp
  simp only [Sh.step, Sh.check] at hnone ⊢
  rw [hnone]
  rfl

/-- the full statement of "raising the duration before the deletion takes effect keeps the data"
on shared storage: whatever is removed is expired under the policy duration *at that moment*. -/
def shared_raise_keeps_full : Prop :=
  ∀ (clock d : Int) (sgs : List SG) (igs : List IG), (∀ g ∈ sgs, g.deletedAt = none) → ∀ (ops : List Op) (ev : Ev),
    ev ∈ (steps (St.init clock d sgs igs) ops).log → ev.dNow ≠ 0 ∧ ev.endT + ev.dNow < ev.now

def wOps : List Op := [.check, .alter 0, .tick (delay + 1), .check]

/-- **alter_in_grace_not_cancelled** (negation witness): a group is marked under a 10 ns policy;
the policy is made unlimited during the grace period; 24 h later the shard is removed all the
same — only `RevertRetentionPolicyDelete` cancels a mark. -/
theorem alter_in_grace_not_cancelled : ¬ shared_raise_keeps_full := by
  intro h
  have := h 100 10 [⟨1, 0, none, 0, [(1, false)]⟩] [] (by simp) wOps
    ⟨1, 1, 0, 100, 10, 100 + (delay + 1), 0⟩ (by decide)
  exact this.1 rfl

example : (steps (St.init 100 10 [⟨1, 0, none, 0, [(1, false)]⟩] []) wOps).gone = [1] := by decide

/-- with the revert in between nothing goes. -/
example : (steps (St.init 100 10 [⟨1, 0, none, 0, [(1, false)]⟩] []) [.check, .alter 0, .revert, .tick (delay + 1), .check]).gone = [] := by
  decide

/-- and inside the grace period nothing goes either. -/
example : (steps (St.init 100 10 [⟨1, 0, none, 0, [(1, false)]⟩] []) [.check, .tick (delay - 1), .check]).gone = [] := by
  decide

end OG.C14.Sh
