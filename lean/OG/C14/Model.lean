/-
C14 — model of the retention path ("retention removes only data that has expired").

Core-only, executable.  The expiry predicates `shardIsExpired` / `nilShardIsExpired`, the
write-side window test `writeMinTime` / `writeRejected` and `groupOverlaps` are *regenerated*
from the Go source by ogfacts (OG.Generated.C14: `(*shard).IsExpired`,
`(*EngineImpl).nilShardIsExpired`, `checkDBRP`, `routeAndMapOriginRows`,
`ShardGroupInfo.Overlaps`).  Everything else is hand-written from

  engine/engine.go            UpdateShardDurationInfo, ExpiredShards, DeleteShard
  services/retention/service.go  handle, updateShardDurationInfo, HandleLocalStorage,
                              DeleteShardOrIndex (pending state)
  meta/data.go                DurationInfos, DeleteShardGroup, pruneShardGroups,
                              ShardGroupsByTimeRange

and tied to the code by the correspondence harness (the real service loop over the real engine
and the real `meta.Data`).

Times are `Int` nanoseconds, durations are `Int` nanoseconds, `0` = unlimited.
One store node is modelled: the catalogue marks which shards it owns (`mine`).
-/
import OG.Generated.C14

namespace OG.C14

/-- an entry of `DBPTInfo.shards` (a shard object of the store). `idx` is
`GetIndexBuilder() != nil` (false while the shard is closing); `dur` is
`durationInfo.Duration`, the duration the store holds for it; `gid` is
`ident.ShardGroupID` (0 until the first refresh: `CreateShard` does not set it). -/
structure EShard where
  sid : Nat
  gid : Nat
  endT : Int
  idx : Bool
  dur : Int
deriving DecidableEq, Repr

/-- `meta.ShardInfo` as far as retention reads it: id, owned by this store, `MarkDelete`. -/
structure CShard where
  sid : Nat
  mine : Bool
  marked : Bool
deriving DecidableEq, Repr

/-- `meta.ShardGroupInfo`: `deleted` is `!DeletedAt.IsZero()`. -/
structure Group where
  gid : Nat
  startT : Int
  endT : Int
  deleted : Bool
  shards : List CShard
deriving DecidableEq, Repr

/-- `meta.ShardDurationInfo`: what `DurationInfos` sends to the store for one shard. -/
structure DurInfo where
  sid : Nat
  gid : Nat
  endT : Int
  dur : Int
deriving DecidableEq, Repr

/-- one `*meta.ShardIdentifier` returned by `ExpiredShards`, plus (ghost) the duration the
expiry test used and whether it came from the not-loaded map. -/
structure QItem where
  sid : Nat
  gid : Nat
  endT : Int
  dUsed : Int
  fromNil : Bool
deriving DecidableEq, Repr

inductive Phase
  | idle | refreshed | processing
deriving DecidableEq, Repr

inductive EvKind
  | markedGroup | deletedShard | prunedShard
deriving DecidableEq, Repr

/-- ghost record of one destructive action of the service: `id` is a group id
(`markedGroup`) or a shard id. -/
structure Ev where
  kind : EvKind
  id : Nat
  endT : Int
  d : Int
  now : Int
deriving DecidableEq, Repr

structure St where
  clock : Int
  metaDur : Int               -- the policy's Duration in the catalogue
  cat : List Group            -- the policy's ShardGroups
  eng : List EShard           -- shards the store has (loaded)
  disk : List Nat             -- shard ids whose data / wal directories exist on the store
  nilMap : List DurInfo       -- nilShardMap of the current run
  queue : List QItem          -- expiredShards still to be processed by the current run
  pending : List Nat          -- PendingInfo.pendingId
  phase : Phase
  refDur : Int                -- ghost: duration returned by the last successful refresh
  seen : List Int             -- ghost: every duration meta ever handed to this store
  log : List Ev               -- ghost
deriving Repr

/-! ### catalogue side -/

/-- `Data.DurationInfos` for this store's partitions: one entry per owned shard of every
group (deleted groups and `MarkDelete`d shards included, as in the code). -/
def durInfos (cat : List Group) (d : Int) : List DurInfo :=
  cat.flatMap fun g => (g.shards.filter (·.mine)).map fun s => ⟨s.sid, g.gid, g.endT, d⟩

/-- `Data.DeleteShardGroup(…, MarkDelete)`. -/
def markGroup (gid : Nat) (cat : List Group) : List Group :=
  cat.map fun g => if g.gid == gid then { g with deleted := true } else g

/-- `sort.Search(len, Shards[i].ID >= id)` on a list sorted by id, then `MarkDelete = true` if
the entry found is the one named (since /repo f9bcf88; before, the first id ≥ `id` was marked). -/
def markFirstGE (id : Nat) : List CShard → List CShard
  | [] => []
  | s :: r => if id ≤ s.sid then (if s.sid == id then { s with marked := true } else s) :: r else s :: markFirstGE id r

/-- the per-group part of `pruneShardGroups`: the id range test uses the first and the last
shard of the group. -/
def pruneGroup (id : Nat) (g : Group) : Group :=
  match g.shards.head?, g.shards.getLast? with
  | some f, some l =>
    if f.sid ≤ id && id ≤ l.sid then { g with shards := markFirstGE id g.shards } else g
  | _, _ => g

def Group.canDelete (g : Group) : Bool := g.shards.all (·.marked)

/-- `pruneShardGroups` indexes `Shards[0]`: a group without shards is a panic. -/
def pruneWouldPanic (cat : List Group) : Bool := cat.any (·.shards.isEmpty)

/-- `Data.pruneShardGroups(id)`. -/
def pruneCat (id : Nat) (cat : List Group) : List Group :=
  (cat.map (pruneGroup id)).filter fun g => !(g.deleted && g.canDelete)

/-- `Data.ShardGroupsByTimeRange(tmin, tmax)`: ids of the groups a query may read. -/
def queryGroups (cat : List Group) (tmin tmax : Int) : List Nat :=
  (cat.filter fun g => !(g.deleted || !groupOverlaps g.startT g.endT tmin tmax)).map (·.gid)

/-! ### store side -/

/-- `EngineImpl.UpdateShardDurationInfo` on a loaded shard with an index builder. -/
def updShard (infos : List DurInfo) (s : EShard) : EShard :=
  if s.idx then
    match infos.find? (fun i => i.sid == s.sid) with
    | some i => { s with gid := i.gid, dur := i.dur }
    | none => s
  else s

/-- … and the entries that go to `nilShardMap` instead: shard absent or without index builder. -/
def nilInfos (eng : List EShard) (infos : List DurInfo) : List DurInfo :=
  infos.filter fun i => !(eng.any fun s => s.sid == i.sid && s.idx)

/-- `ExpiredShards`, loaded part: the shard's own (cached) duration decides — unless the
refresh of this run could not reach the shard object (it is in `nilShardMap`): then the entry
meta just sent decides, below. -/
def expiredLoaded (now : Int) (eng : List EShard) (nm : List DurInfo) : List QItem :=
  (eng.filter fun s => !(nm.any fun i => i.sid == s.sid) && shardIsExpired now s.dur s.endT).map
    fun s => ⟨s.sid, s.gid, s.endT, s.dur, false⟩

/-- `ExpiredShards`, not-loaded part (`containSid` skips ids already reported). -/
def expiredNil (now : Int) (res : List QItem) (nm : List DurInfo) : List QItem :=
  (nm.filter fun i => !(res.any fun q => q.sid == i.sid) && nilShardIsExpired now i.dur i.endT).map
    fun i => ⟨i.sid, i.gid, i.endT, i.dur, true⟩

def expiredShards (now : Int) (eng : List EShard) (nm : List DurInfo) : List QItem :=
  let l := expiredLoaded now eng nm
  l ++ expiredNil now l nm

/-- the harness hands the service the result sorted by shard id (Go map order is random). -/
def insQ (a : QItem) : List QItem → List QItem
  | [] => [a]
  | b :: r => if a.sid ≤ b.sid then a :: b :: r else b :: insQ a r

def sortQ (q : List QItem) : List QItem := q.foldr insQ []

/-! ### service steps -/

inductive DelScript
  | ok | fail | timeout
deriving DecidableEq, Repr

inductive DelRes
  | ok | notFound | failed | timedOut | stillPending | closedErr
deriving DecidableEq, Repr

/-- scripted outcome of the three calls made for one expired shard. -/
structure Outcome where
  markOk : Bool
  del : DelScript
  pruneOk : Bool
deriving DecidableEq, Repr

def Outcome.good : Outcome := ⟨true, .ok, true⟩

/-- `EngineImpl.DeleteShard`: the shard leaves `DBPTInfo.shards` first; `Close()` of a shard
that is already closing fails (`ErrShardClosed`) and the directories stay. -/
def engDelRes (sid : Nat) (eng : List EShard) : DelRes :=
  match eng.find? (fun s => s.sid == sid) with
  | some s => if s.idx then .ok else .closedErr
  | none => .notFound

/-- `DeleteShardOrIndex`: refused while pending; a timeout enters the pending state and
leaves the store untouched until the background delete completes. -/
def delRes (sc : DelScript) (sid : Nat) (eng : List EShard) (pending : List Nat) : DelRes :=
  if pending.contains sid then .stillPending
  else match sc with
    | .timeout => .timedOut
    | .fail => .failed
    | .ok => engDelRes sid eng

def delEng (r : DelRes) (sid : Nat) (eng : List EShard) : List EShard :=
  match r with
  | .ok | .closedErr => eng.filter fun s => s.sid != sid
  | _ => eng

def delDisk (r : DelRes) (sid : Nat) (disk : List Nat) : List Nat :=
  match r with
  | .ok => disk.filter fun x => x != sid
  | _ => disk

def delPending (r : DelRes) (sid : Nat) (pending : List Nat) : List Nat :=
  match r with
  | .timedOut => sid :: pending
  | _ => pending

def evs (o : Outcome) (r : DelRes) (panics : Bool) (q : QItem) (now : Int) : List Ev :=
  (if o.markOk then [⟨.markedGroup, q.gid, q.endT, q.dUsed, now⟩] else []) ++
  (if r = .ok ∨ r = .closedErr ∨ r = .timedOut then [⟨.deletedShard, q.sid, q.endT, q.dUsed, now⟩] else []) ++
  (if o.pruneOk && !panics then [⟨.prunedShard, q.sid, q.endT, q.dUsed, now⟩] else [])

def markStage (ok : Bool) (gid : Nat) (cat : List Group) : List Group :=
  if ok then markGroup gid cat else cat

def pruneStage (ok : Bool) (id : Nat) (cat : List Group) : List Group :=
  if ok && !pruneWouldPanic cat then pruneCat id cat else cat

/-- the body of the `for i := range expiredShards` loop of `HandleLocalStorage`:
DeleteShardGroup(mark) ; DeleteShardOrIndex ; PruneGroupsCommand — each attempted whatever the
previous one returned. -/
def procItem (o : Outcome) (q : QItem) (σ : St) : St :=
  let cat1 := markStage o.markOk q.gid σ.cat
  let r := delRes o.del q.sid σ.eng σ.pending
  { σ with cat := pruneStage o.pruneOk q.sid cat1, eng := delEng r q.sid σ.eng, disk := delDisk r q.sid σ.disk,
           pending := delPending r q.sid σ.pending,
           log := evs o r (pruneWouldPanic cat1) q σ.clock ++ σ.log }

inductive Op
  | tick (dt : Int)             -- time passes
  | alter (d : Int)             -- ALTER RETENTION POLICY … DURATION d
  | load (sid : Nat)            -- first write creates the shard on the store (CreateShard)
  | close (sid : Nat)           -- the shard starts closing: GetIndexBuilder() = nil
  | refresh (ok : Bool)         -- updateDurationInfo
  | collect                     -- Engine.ExpiredShards
  | proc (o : Outcome)          -- one iteration of the HandleLocalStorage loop
  | complete                    -- background deletes that timed out finish
deriving Repr

def loadShard (sid : Nat) (σ : St) : St :=
  if σ.eng.any (·.sid == sid) then σ
  else match (durInfos σ.cat σ.metaDur).find? (fun i => i.sid == sid) with
    | some i => { σ with eng := σ.eng ++ [⟨sid, 0, i.endT, true, σ.metaDur⟩],
                         disk := if σ.disk.contains sid then σ.disk else sid :: σ.disk,
                         seen := σ.metaDur :: σ.seen }
    | none => σ

def refreshOk (σ : St) : St :=
  let infos := durInfos σ.cat σ.metaDur
  { σ with eng := σ.eng.map (updShard infos), nilMap := nilInfos σ.eng infos, phase := .refreshed,
           refDur := σ.metaDur, seen := σ.metaDur :: σ.seen }

def collect (σ : St) : St :=
  let q := sortQ (expiredShards σ.clock σ.eng σ.nilMap)
  { σ with queue := q, phase := if q.isEmpty then .idle else .processing }

/-- the background deletes that had timed out run now (`EngineImpl.DeleteShard` each). -/
def completeAll : List Nat → St → St
  | [], σ => σ
  | sid :: rest, σ =>
    let r := engDelRes sid σ.eng
    completeAll rest { σ with eng := delEng r sid σ.eng, disk := delDisk r sid σ.disk }

def step (σ : St) : Op → St
  | .tick dt => if 0 ≤ dt then { σ with clock := σ.clock + dt } else σ
  | .alter d => { σ with metaDur := d }
  | .load sid => loadShard sid σ
  | .close sid => { σ with eng := σ.eng.map fun s => if s.sid == sid then { s with idx := false } else s }
  | .refresh ok =>
    match σ.phase with
    | .idle => if ok then refreshOk σ else σ
    | _ => σ
  | .collect =>
    match σ.phase with
    | .refreshed => collect σ
    | _ => σ
  | .proc o =>
    match σ.phase, σ.queue with
    | .processing, q :: rest =>
      let σ' := procItem o q σ
      { σ' with queue := rest, phase := if rest.isEmpty then .idle else .processing }
    | _, _ => σ
  | .complete => completeAll σ.pending { σ with pending := [] }

def steps (σ : St) (ops : List Op) : St := ops.foldl step σ

/-! ### one whole run of `handle()` as a finite sequence of the steps above -/

/-- script of one run: does the refresh reach meta; an alteration that lands between the
refresh and the expiry check; per-shard outcomes. -/
structure Script where
  refreshOk : Bool
  alterMid : Option Int
  outcome : Nat → Outcome

def Script.good : Script := ⟨true, none, fun _ => .good⟩

/-- the steps up to and including `ExpiredShards`. -/
def runHead (sc : Script) : List Op :=
  [.refresh sc.refreshOk] ++ (match sc.alterMid with | some d => [.alter d] | none => []) ++ [.collect]

/-- the ops of a whole run started in `σ`: `runHead`, then one `proc` per reported shard. -/
def runOps (sc : Script) (σ : St) : List Op :=
  runHead sc ++ (steps σ (runHead sc)).queue.map fun q => .proc (sc.outcome q.sid)

def run (sc : Script) (σ : St) : St := steps σ (runOps sc σ)

/-- initial state: a catalogue, no store shards, nothing in flight. -/
def St.init (clock d : Int) (cat : List Group) : St :=
  ⟨clock, d, cat, [], [], [], [], [], .idle, d, [d], []⟩

end OG.C14
