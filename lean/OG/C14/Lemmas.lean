/-
C14 — helper lemmas: the regenerated predicates in closed form, membership facts about the
model's list functions, and the two invariants of the service state machine.
-/
import OG.C14.Model

namespace OG.C14

/-! ### the regenerated predicates -/

theorem shardIsExpired_iff (now d e : Int) : shardIsExpired now d e = true ↔ d ≠ 0 ∧ e + d < now := by
  unfold shardIsExpired
  simp

theorem nilShardIsExpired_iff (now d e : Int) : nilShardIsExpired now d e = true ↔ d ≠ 0 ∧ e + d < now := by
  unfold nilShardIsExpired
  simp

/-! ### membership -/

theorem mem_sortQ {q : QItem} {l : List QItem} : q ∈ sortQ l ↔ q ∈ l := by
  unfold sortQ
  exact List.mem_mergeSort

theorem mem_expiredLoaded {now : Int} {eng : List EShard} {q : QItem} :
    q ∈ expiredLoaded now eng ↔
      ∃ s ∈ eng, shardIsExpired now s.dur s.endT = true ∧ q = ⟨s.sid, s.gid, s.endT, s.dur, false⟩ := by
  unfold expiredLoaded
  simp only [List.mem_map, List.mem_filter]
  constructor
  · rintro ⟨s, ⟨hs, he⟩, rfl⟩; exact ⟨s, hs, he, rfl⟩
  · rintro ⟨s, hs, he, rfl⟩; exact ⟨s, ⟨hs, he⟩, rfl⟩

theorem mem_expiredNil {now : Int} {res : List QItem} {nm : List DurInfo} {q : QItem} :
    q ∈ expiredNil now res nm ↔
      ∃ i ∈ nm, (res.any fun r => r.sid == i.sid) = false ∧ nilShardIsExpired now i.dur i.endT = true ∧
        q = ⟨i.sid, i.gid, i.endT, i.dur, true⟩ := by
  unfold expiredNil
  simp only [List.mem_map, List.mem_filter, Bool.and_eq_true, Bool.not_eq_true']
  constructor
  · rintro ⟨i, ⟨hi, h1, h2⟩, rfl⟩; exact ⟨i, hi, h1, h2, rfl⟩
  · rintro ⟨i, hi, h1, h2, rfl⟩; exact ⟨i, ⟨hi, h1, h2⟩, rfl⟩

/-- everything `ExpiredShards` reports passed the regenerated expiry test with the duration
recorded in the item. -/
theorem expiredShards_sound {now : Int} {eng : List EShard} {nm : List DurInfo} {q : QItem}
    (h : q ∈ expiredShards now eng nm) : q.dUsed ≠ 0 ∧ q.endT + q.dUsed < now := by
  unfold expiredShards at h
  simp only [List.mem_append] at h
  rcases h with h | h
  · obtain ⟨s, _, he, rfl⟩ := mem_expiredLoaded.mp h
    exact (shardIsExpired_iff _ _ _).mp he
  · obtain ⟨i, _, _, he, rfl⟩ := mem_expiredNil.mp h
    exact (nilShardIsExpired_iff _ _ _).mp he

/-! ### invariant 1: everything queued or logged was expired when it was decided -/

structure TimeInv (σ : St) : Prop where
  queue : ∀ q ∈ σ.queue, q.dUsed ≠ 0 ∧ q.endT + q.dUsed < σ.clock
  log : ∀ e ∈ σ.log, e.d ≠ 0 ∧ e.endT + e.d < e.now ∧ e.now ≤ σ.clock

theorem mem_evs {o : Outcome} {r : DelRes} {p : Bool} {q : QItem} {now : Int} {e : Ev}
    (h : e ∈ evs o r p q now) : e.endT = q.endT ∧ e.d = q.dUsed ∧ e.now = now := by
  unfold evs at h
  simp only [List.mem_append] at h
  rcases h with (h | h) | h <;> split at h <;> simp at h <;> subst h <;> simp

theorem completeAll_clock (l : List Nat) (σ : St) : (completeAll l σ).clock = σ.clock := by
  induction l generalizing σ with
  | nil => rfl
  | cons a r ih => simp [completeAll, ih]

theorem completeAll_queue (l : List Nat) (σ : St) : (completeAll l σ).queue = σ.queue := by
  induction l generalizing σ with
  | nil => rfl
  | cons a r ih => simp [completeAll, ih]

theorem completeAll_log (l : List Nat) (σ : St) : (completeAll l σ).log = σ.log := by
  induction l generalizing σ with
  | nil => rfl
  | cons a r ih => simp [completeAll, ih]

theorem TimeInv.step {σ : St} (h : TimeInv σ) (op : Op) : TimeInv (step σ op) := by
  cases op with
  | tick dt =>
    simp only [OG.C14.step]
    split
    · constructor
      · intro q hq; have := h.queue q hq; simp only at hq ⊢; omega
      · intro e he; have := h.log e he; simp only at he ⊢; omega
    · exact h
  | alter d => exact ⟨h.queue, h.log⟩
  | load sid =>
    simp only [OG.C14.step, loadShard]
    split
    · exact h
    · split
      · exact ⟨h.queue, h.log⟩
      · exact h
  | close sid => exact ⟨h.queue, h.log⟩
  | refresh ok =>
    simp only [OG.C14.step]
    split
    · split
      · exact ⟨h.queue, h.log⟩
      · exact h
    · exact h
  | collect =>
    simp only [OG.C14.step]
    split
    · constructor
      · intro q hq
        exact expiredShards_sound (mem_sortQ.mp hq)
      · exact h.log
    · exact h
  | proc o =>
    simp only [OG.C14.step]
    split
    · rename_i q rest hph hq
      constructor
      · intro q' hq'
        exact h.queue q' (by rw [hq]; exact List.mem_cons_of_mem _ hq')
      · intro e he
        simp only [procItem, List.mem_append] at he
        rcases he with he | he
        · obtain ⟨h1, h2, h3⟩ := mem_evs he
          have := h.queue q (by rw [hq]; exact List.mem_cons_self)
          have hc : (procItem o q σ).clock = σ.clock := rfl
          simp only
          rw [h1, h2, h3, hc]; omega
        · exact h.log e he
    · exact h
  | complete =>
    simp only [OG.C14.step]
    constructor
    · intro q hq
      rw [completeAll_queue] at hq
      rw [completeAll_clock]
      exact h.queue q hq
    · intro e he
      rw [completeAll_log] at he
      rw [completeAll_clock]
      exact h.log e he

theorem TimeInv.steps {σ : St} (h : TimeInv σ) (ops : List Op) : TimeInv (steps σ ops) := by
  induction ops generalizing σ with
  | nil => exact h
  | cons op r ih => exact ih (h.step op)

theorem TimeInv.init (clock d : Int) (cat : List Group) : TimeInv (St.init clock d cat) :=
  ⟨by intro q hq; simp [St.init] at hq, by intro e he; simp [St.init] at he⟩

end OG.C14
