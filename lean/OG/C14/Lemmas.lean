/-
C14 — helper lemmas: the regenerated predicates in closed form, membership facts about the
model's list functions, and the two invariants of the service state machine.
-/
import OG.C14.Model

namespace OG.C14

/-! ### int64 arithmetic -/

/-- the int64 range (Go `int64`, `time.Duration`, unix nanoseconds). -/
def InI64 (x : Int) : Prop := -9223372036854775808 ≤ x ∧ x ≤ 9223372036854775807

/-- inside the range the two's-complement wrap is the identity. -/
theorem wrap64_of_range {x : Int} (h : InI64 x) : wrap64 x = x := by
  unfold wrap64
  unfold InI64 at h
  omega

theorem wrap64_range (x : Int) : InI64 (wrap64 x) := by
  unfold wrap64 InI64
  omega

/-! ### the regenerated predicates -/

theorem shardIsExpired_iff (now d e : Int) : shardIsExpired now d e = true ↔ d ≠ 0 ∧ e + d < now := by
  unfold shardIsExpired
  simp

theorem nilShardIsExpired_iff (now d e : Int) : nilShardIsExpired now d e = true ↔ d ≠ 0 ∧ e + d < now := by
  unfold nilShardIsExpired
  simp

/-! ### membership -/

theorem mem_insQ {x a : QItem} {l : List QItem} : x ∈ insQ a l ↔ x = a ∨ x ∈ l := by
  induction l with
  | nil => simp [insQ]
  | cons b r ih =>
    simp only [insQ]
    split
    · simp
    · simp only [List.mem_cons, ih]
      constructor
      · rintro (h | h | h)
        · exact Or.inr (Or.inl h)
        · exact Or.inl h
        · exact Or.inr (Or.inr h)
      · rintro (h | h | h)
        · exact Or.inr (Or.inl h)
        · exact Or.inl h
        · exact Or.inr (Or.inr h)

theorem mem_sortQ {q : QItem} {l : List QItem} : q ∈ sortQ l ↔ q ∈ l := by
  unfold sortQ
  induction l with
  | nil => simp
  | cons a r ih => simp only [List.foldr_cons, mem_insQ, ih, List.mem_cons]

theorem mem_expiredLoaded {now : Int} {eng : List EShard} {nm : List DurInfo} {q : QItem} :
    q ∈ expiredLoaded now eng nm ↔
      ∃ s ∈ eng, (nm.any fun i => i.sid == s.sid) = false ∧ shardIsExpired now s.dur s.endT = true ∧
        q = ⟨s.sid, s.gid, s.endT, s.dur, false⟩ := by
  unfold expiredLoaded
  simp only [List.mem_map, List.mem_filter, Bool.and_eq_true, Bool.not_eq_true']
  constructor
  · rintro ⟨s, ⟨hs, hn, he⟩, rfl⟩; exact ⟨s, hs, hn, he, rfl⟩
  · rintro ⟨s, hs, hn, he, rfl⟩; exact ⟨s, ⟨hs, hn, he⟩, rfl⟩

theorem mem_expiredNil {now : Int} {res : List QItem} {nm : List DurInfo} {q : QItem} :
    q ∈ expiredNil now res nm ↔
      ∃ i ∈ nm, (res.any fun r => r.sid == i.sid) = false ∧ nilShardIsExpired now i.dur i.endT = true ∧
        q = ⟨i.sid, i.gid, i.endT, i.dur, true⟩ := by
  unfold expiredNil
  simp only [List.mem_map, List.mem_filter, Bool.and_eq_true, Bool.not_eq_true']
  constructor
  · rintro ⟨i, ⟨hi, h1, h2⟩, rfl⟩; exact ⟨i, hi, h1, h2, rfl⟩
  · rintro ⟨i, hi, h1, h2, rfl⟩; exact ⟨i, ⟨hi, h1, h2⟩, rfl⟩

/-- everything `ExpiredShards` reports passed the regenerated expiry test with the duration
recorded in the item. -/
theorem expiredShards_sound {now : Int} {eng : List EShard} {nm : List DurInfo} {q : QItem}
    (h : q ∈ expiredShards now eng nm) : q.dUsed ≠ 0 ∧ q.endT + q.dUsed < now := by
  unfold expiredShards at h
  simp only [List.mem_append] at h
  rcases h with h | h
  · obtain ⟨s, _, _, he, rfl⟩ := mem_expiredLoaded.mp h
    exact (shardIsExpired_iff _ _ _).mp he
  · obtain ⟨i, _, _, he, rfl⟩ := mem_expiredNil.mp h
    exact (nilShardIsExpired_iff _ _ _).mp he

/-! ### invariant 1: everything queued or logged was expired when it was decided -/

structure TimeInv (σ : St) : Prop where
  queue : ∀ q ∈ σ.queue, q.dUsed ≠ 0 ∧ q.endT + q.dUsed < σ.clock
  log : ∀ e ∈ σ.log, e.d ≠ 0 ∧ e.endT + e.d < e.now ∧ e.now ≤ σ.clock

theorem mem_evs {o : Outcome} {r : DelRes} {p : Bool} {q : QItem} {now : Int} {e : Ev}
    (h : e ∈ evs o r p q now) : e.endT = q.endT ∧ e.d = q.dUsed ∧ e.now = now := by
  unfold evs at h
  simp only [List.mem_append] at h
  rcases h with (h | h) | h <;> split at h <;> simp at h <;> subst h <;> simp

theorem completeAll_clock (l : List Nat) (σ : St) : (completeAll l σ).clock = σ.clock := by
  induction l generalizing σ with
  | nil => rfl
  | cons a r ih => simp [completeAll, ih]

theorem completeAll_queue (l : List Nat) (σ : St) : (completeAll l σ).queue = σ.queue := by
  induction l generalizing σ with
  | nil => rfl
  | cons a r ih => simp [completeAll, ih]

theorem completeAll_log (l : List Nat) (σ : St) : (completeAll l σ).log = σ.log := by
  induction l generalizing σ with
  | nil => rfl
  | cons a r ih => simp [completeAll, ih]

theorem TimeInv.step {σ : St} (h : TimeInv σ) (op : Op) : TimeInv (step σ op) := by
  cases op with
  | tick dt =>
    simp only [OG.C14.step]
    split
    · constructor
      · intro q hq; have := h.queue q hq; simp only at hq ⊢; omega
      · intro e he; have := h.log e he; simp only at he ⊢; omega
    · exact h
  | alter d => exact ⟨h.queue, h.log⟩
  | load sid =>
    simp only [OG.C14.step, loadShard]
    split
    · exact h
    · split
      · exact ⟨h.queue, h.log⟩
      · exact h
  | close sid => exact ⟨h.queue, h.log⟩
  | refresh ok =>
    simp only [OG.C14.step]
    split
    · split
      · exact ⟨h.queue, h.log⟩
      · exact h
    · exact h
  | collect =>
    simp only [OG.C14.step]
    split
    · constructor
      · intro q hq
        exact expiredShards_sound (mem_sortQ.mp hq)
      · exact h.log
    · exact h
  | proc o =>
    simp only [OG.C14.step]
    split
    · rename_i q rest hph hq
      constructor
      · intro q' hq'
        exact h.queue q' (by rw [hq]; exact List.mem_cons_of_mem _ hq')
      · intro e he
        simp only [procItem, List.mem_append] at he
        rcases he with he | he
        · obtain ⟨h1, h2, h3⟩ := mem_evs he
          have := h.queue q (by rw [hq]; exact List.mem_cons_self)
          have hc : (procItem o q σ).clock = σ.clock := rfl
          simp only
          rw [h1, h2, h3, hc]; omega
        · exact h.log e he
    · exact h
  | complete =>
    simp only [OG.C14.step]
    constructor
    · intro q hq
      rw [completeAll_queue] at hq
      rw [completeAll_clock]
      exact h.queue q hq
    · intro e he
      rw [completeAll_log] at he
      rw [completeAll_clock]
      exact h.log e he

theorem TimeInv.steps {σ : St} (h : TimeInv σ) (ops : List Op) : TimeInv (steps σ ops) := by
  induction ops generalizing σ with
  | nil => exact h
  | cons op r ih => exact ih (h.step op)

theorem TimeInv.init (clock d : Int) (cat : List Group) : TimeInv (St.init clock d cat) :=
  ⟨by intro q hq; simp [St.init] at hq, by intro e he; simp [St.init] at he⟩

/-! ### the catalogue transformations keep the skeleton of every group -/

def Group.sids (g : Group) : List Nat := g.shards.map (·.sid)

/-- same id, same time span, same shard ids (flags may differ). -/
def Skel (g' g : Group) : Prop :=
  g'.gid = g.gid ∧ g'.startT = g.startT ∧ g'.endT = g.endT ∧ g'.sids = g.sids

theorem Skel.refl (g : Group) : Skel g g := ⟨rfl, rfl, rfl, rfl⟩

theorem markFirstGE_sids (id : Nat) (l : List CShard) :
    (markFirstGE id l).map (·.sid) = l.map (·.sid) := by
  induction l with
  | nil => rfl
  | cons a r ih =>
    simp only [markFirstGE]
    split
    · split <;> simp
    · simp [ih]

theorem pruneGroup_skel (id : Nat) (g : Group) : Skel (pruneGroup id g) g := by
  unfold pruneGroup
  split
  · split
    · exact ⟨rfl, rfl, rfl, by simp [Group.sids, markFirstGE_sids]⟩
    · exact Skel.refl g
  · exact Skel.refl g

theorem pruneGroup_deleted (id : Nat) (g : Group) : (pruneGroup id g).deleted = g.deleted := by
  unfold pruneGroup
  split
  · split <;> rfl
  · rfl

theorem mem_markGroup {gid : Nat} {cat : List Group} {g' : Group} (h : g' ∈ markGroup gid cat) :
    ∃ g ∈ cat, Skel g' g ∧ g'.shards = g.shards ∧
      (g'.deleted = true → g.deleted = true ∨ g.gid = gid) := by
  unfold markGroup at h
  obtain ⟨g, hg, rfl⟩ := List.mem_map.mp h
  refine ⟨g, hg, ?_⟩
  split
  · rename_i hc
    exact ⟨⟨rfl, rfl, rfl, rfl⟩, rfl, fun _ => Or.inr (by simpa using hc)⟩
  · exact ⟨Skel.refl g, rfl, fun hd => Or.inl hd⟩

theorem mem_pruneCat {id : Nat} {cat : List Group} {g' : Group} (h : g' ∈ pruneCat id cat) :
    ∃ g ∈ cat, Skel g' g ∧ g'.deleted = g.deleted := by
  unfold pruneCat at h
  obtain ⟨hm, _⟩ := List.mem_filter.mp h
  obtain ⟨g, hg, rfl⟩ := List.mem_map.mp hm
  exact ⟨g, hg, pruneGroup_skel id g, pruneGroup_deleted id g⟩

theorem Skel.trans {a b c : Group} (h1 : Skel a b) (h2 : Skel b c) : Skel a c :=
  ⟨h1.1.trans h2.1, h1.2.1.trans h2.2.1, h1.2.2.1.trans h2.2.2.1, h1.2.2.2.trans h2.2.2.2⟩

theorem mem_markStage {ok : Bool} {gid : Nat} {cat : List Group} {g' : Group}
    (h : g' ∈ markStage ok gid cat) :
    ∃ g ∈ cat, Skel g' g ∧ g'.shards = g.shards ∧
      (g'.deleted = true → g.deleted = true ∨ (ok = true ∧ g.gid = gid)) := by
  unfold markStage at h
  split at h
  · rename_i hm
    obtain ⟨g, hg, hs, hsh, hd⟩ := mem_markGroup h
    exact ⟨g, hg, hs, hsh, fun hdel => (hd hdel).imp id fun x => ⟨hm, x⟩⟩
  · exact ⟨g', h, Skel.refl g', rfl, fun hdel => Or.inl hdel⟩

theorem mem_pruneStage {ok : Bool} {id : Nat} {cat : List Group} {g' : Group}
    (h : g' ∈ pruneStage ok id cat) : ∃ g ∈ cat, Skel g' g ∧ g'.deleted = g.deleted := by
  unfold pruneStage at h
  split at h
  · exact mem_pruneCat h
  · exact ⟨g', h, Skel.refl g', rfl⟩

/-- the catalogue after one loop iteration: every group is an old group, and a group that is
deleted now was deleted before or is the group the iteration marked. -/
theorem procItem_cat_back {o : Outcome} {q : QItem} {σ : St} {g' : Group}
    (h : g' ∈ (procItem o q σ).cat) :
    ∃ g ∈ σ.cat, Skel g' g ∧
      (g'.deleted = true → g.deleted = true ∨ (o.markOk = true ∧ g.gid = q.gid)) := by
  simp only [procItem] at h
  obtain ⟨g1, hg1, hs1, hd1⟩ := mem_pruneStage h
  obtain ⟨g, hg, hs, _, hd⟩ := mem_markStage hg1
  exact ⟨g, hg, hs1.trans hs, fun hdel => hd (hd1 ▸ hdel)⟩

theorem markStage_keep {ok : Bool} {gid : Nat} {cat : List Group} {g : Group}
    (hg : g ∈ cat) (hnot : ¬ (ok = true ∧ g.gid = gid)) : g ∈ markStage ok gid cat := by
  unfold markStage
  split
  · rename_i hm
    unfold markGroup
    refine List.mem_map.mpr ⟨g, hg, ?_⟩
    have : (g.gid == gid) = false := by
      cases hq : (g.gid == gid)
      · rfl
      · exact absurd ⟨hm, by simpa using hq⟩ hnot
    simp [this]
  · exact hg

theorem pruneStage_keep {ok : Bool} {id : Nat} {cat : List Group} {g : Group}
    (hg : g ∈ cat) (hlive : g.deleted = false) :
    ∃ g' ∈ pruneStage ok id cat, Skel g' g ∧ g'.deleted = false := by
  unfold pruneStage
  split
  · refine ⟨pruneGroup id g, ?_, pruneGroup_skel _ _, by rw [pruneGroup_deleted]; exact hlive⟩
    unfold pruneCat
    refine List.mem_filter.mpr ⟨List.mem_map.mpr ⟨g, hg, rfl⟩, ?_⟩
    simp [pruneGroup_deleted, hlive]
  · exact ⟨g, hg, Skel.refl g, hlive⟩

/-- … and a live group that the iteration did not mark is still there, live. -/
theorem procItem_cat_keep {o : Outcome} {q : QItem} {σ : St} {g : Group}
    (hg : g ∈ σ.cat) (hlive : g.deleted = false) (hnot : ¬ (o.markOk = true ∧ g.gid = q.gid)) :
    ∃ g' ∈ (procItem o q σ).cat, Skel g' g ∧ g'.deleted = false := by
  simp only [procItem]
  exact pruneStage_keep (markStage_keep hg hnot) hlive

/-! ### invariant 2: identifiers and end times of store, run and catalogue agree -/

theorem mem_durInfos {cat : List Group} {d : Int} {i : DurInfo} :
    i ∈ durInfos cat d ↔ ∃ g ∈ cat, ∃ c ∈ g.shards, c.mine = true ∧ i = ⟨c.sid, g.gid, g.endT, d⟩ := by
  unfold durInfos
  simp only [List.mem_flatMap, List.mem_map, List.mem_filter]
  constructor
  · rintro ⟨g, hg, c, ⟨hc, hm⟩, rfl⟩; exact ⟨g, hg, c, hc, hm, rfl⟩
  · rintro ⟨g, hg, c, hc, hm, rfl⟩; exact ⟨g, hg, c, ⟨hc, hm⟩, rfl⟩

theorem updShard_sid (infos : List DurInfo) (s : EShard) : (updShard infos s).sid = s.sid := by
  unfold updShard; split <;> (try split) <;> rfl

theorem updShard_endT (infos : List DurInfo) (s : EShard) : (updShard infos s).endT = s.endT := by
  unfold updShard; split <;> (try split) <;> rfl

theorem updShard_idx (infos : List DurInfo) (s : EShard) : (updShard infos s).idx = s.idx := by
  unfold updShard; split <;> (try split) <;> rfl

theorem updShard_cases (infos : List DurInfo) (s : EShard) :
    ((updShard infos s).gid = s.gid ∧ (updShard infos s).dur = s.dur) ∨
    ∃ i ∈ infos, i.sid = s.sid ∧ (updShard infos s).gid = i.gid ∧ (updShard infos s).dur = i.dur := by
  unfold updShard
  split
  · split
    · rename_i i hf
      refine Or.inr ⟨i, List.mem_of_find?_eq_some hf, ?_, rfl, rfl⟩
      have := List.find?_some hf
      simpa using this
    · exact Or.inl ⟨rfl, rfl⟩
  · exact Or.inl ⟨rfl, rfl⟩

structure WFc (cat : List Group) (eng : List EShard) (nm : List DurInfo) (queue : List QItem)
    (seen : List Int) : Prop where
  gidPos : ∀ g ∈ cat, g.gid ≠ 0
  gidEnd : ∀ g ∈ cat, ∀ g' ∈ cat, g.gid = g'.gid → g.endT = g'.endT
  sidEnd : ∀ g ∈ cat, ∀ g' ∈ cat, ∀ x ∈ g.sids, x ∈ g'.sids → g.endT = g'.endT
  engEnd : ∀ s ∈ eng, ∀ g ∈ cat, s.sid ∈ g.sids → g.endT = s.endT
  engGid : ∀ s ∈ eng, ∀ g ∈ cat, g.gid = s.gid → g.endT = s.endT
  nilGid : ∀ i ∈ nm, ∀ g ∈ cat, g.gid = i.gid → g.endT = i.endT
  queueGid : ∀ q ∈ queue, ∀ g ∈ cat, g.gid = q.gid → g.endT = q.endT
  seenEng : ∀ s ∈ eng, s.dur ∈ seen
  seenNil : ∀ i ∈ nm, i.dur ∈ seen
  seenQ : ∀ q ∈ queue, q.dUsed ∈ seen

def WF (σ : St) : Prop := WFc σ.cat σ.eng σ.nilMap σ.queue σ.seen

theorem WFc.seen_mono {cat eng nm queue seen seen'} (h : WFc cat eng nm queue seen)
    (hs : ∀ x ∈ seen, x ∈ seen') : WFc cat eng nm queue seen' :=
  ⟨h.gidPos, h.gidEnd, h.sidEnd, h.engEnd, h.engGid, h.nilGid, h.queueGid,
    fun s hs' => hs _ (h.seenEng s hs'), fun i hi => hs _ (h.seenNil i hi), fun q hq => hs _ (h.seenQ q hq)⟩

theorem WFc.sub {cat eng nm queue seen eng' queue'} (h : WFc cat eng nm queue seen)
    (he : ∀ s ∈ eng', s ∈ eng) (hq : ∀ q ∈ queue', q ∈ queue) : WFc cat eng' nm queue' seen :=
  ⟨h.gidPos, h.gidEnd, h.sidEnd, fun s hs => h.engEnd s (he s hs), fun s hs => h.engGid s (he s hs), h.nilGid,
    fun q hq' => h.queueGid q (hq q hq'), fun s hs => h.seenEng s (he s hs), h.seenNil, fun q hq' => h.seenQ q (hq q hq')⟩

theorem WFc.cat_skel {cat cat' eng nm queue seen} (h : WFc cat eng nm queue seen)
    (hk : ∀ g' ∈ cat', ∃ g ∈ cat, Skel g' g) : WFc cat' eng nm queue seen := by
  constructor
  · intro g' hg'; obtain ⟨g, hg, hs⟩ := hk g' hg'; rw [hs.1]; exact h.gidPos g hg
  · intro a ha b hb hab
    obtain ⟨g, hg, hs⟩ := hk a ha; obtain ⟨g2, hg2, hs2⟩ := hk b hb
    rw [hs.2.2.1, hs2.2.2.1]; exact h.gidEnd g hg g2 hg2 (by rw [← hs.1, ← hs2.1]; exact hab)
  · intro a ha b hb x hx hx'
    obtain ⟨g, hg, hs⟩ := hk a ha; obtain ⟨g2, hg2, hs2⟩ := hk b hb
    rw [hs.2.2.1, hs2.2.2.1]; exact h.sidEnd g hg g2 hg2 x (hs.2.2.2 ▸ hx) (hs2.2.2.2 ▸ hx')
  · intro s hs a ha hx
    obtain ⟨g, hg, hk'⟩ := hk a ha
    rw [hk'.2.2.1]; exact h.engEnd s hs g hg (hk'.2.2.2 ▸ hx)
  · intro s hs a ha hx
    obtain ⟨g, hg, hk'⟩ := hk a ha
    rw [hk'.2.2.1]; exact h.engGid s hs g hg (hk'.1 ▸ hx)
  · intro i hi a ha hx
    obtain ⟨g, hg, hk'⟩ := hk a ha
    rw [hk'.2.2.1]; exact h.nilGid i hi g hg (hk'.1 ▸ hx)
  · intro q hq a ha hx
    obtain ⟨g, hg, hk'⟩ := hk a ha
    rw [hk'.2.2.1]; exact h.queueGid q hq g hg (hk'.1 ▸ hx)
  · exact h.seenEng
  · exact h.seenNil
  · exact h.seenQ

theorem completeAll_cat (l : List Nat) (σ : St) : (completeAll l σ).cat = σ.cat := by
  induction l generalizing σ with
  | nil => rfl
  | cons a r ih => simp [completeAll, ih]

theorem completeAll_seen (l : List Nat) (σ : St) : (completeAll l σ).seen = σ.seen := by
  induction l generalizing σ with
  | nil => rfl
  | cons a r ih => simp [completeAll, ih]

theorem completeAll_nilMap (l : List Nat) (σ : St) : (completeAll l σ).nilMap = σ.nilMap := by
  induction l generalizing σ with
  | nil => rfl
  | cons a r ih => simp [completeAll, ih]

theorem mem_delEng {r : DelRes} {sid : Nat} {eng : List EShard} {s : EShard}
    (h : s ∈ delEng r sid eng) : s ∈ eng := by
  unfold delEng at h
  split at h
  · exact (List.mem_filter.mp h).1
  · exact (List.mem_filter.mp h).1
  · exact h

theorem completeAll_eng_sub (l : List Nat) (σ : St) : ∀ s ∈ (completeAll l σ).eng, s ∈ σ.eng := by
  induction l generalizing σ with
  | nil => intro s hs; exact hs
  | cons a r ih =>
    intro s hs
    simp only [completeAll] at hs
    exact mem_delEng (ih _ s hs)

theorem WF.step {σ : St} (h : WF σ) (op : Op) : WF (step σ op) := by
  unfold WF at h ⊢
  cases op with
  | tick dt =>
    simp only [OG.C14.step]
    split <;> exact h
  | alter d => exact h
  | load sid =>
    simp only [OG.C14.step, loadShard]
    split
    · exact h
    · split
      · rename_i i hf
        have hi := List.mem_of_find?_eq_some hf
        have hsid : i.sid = sid := by simpa using List.find?_some hf
        obtain ⟨g1, hg1, c, hc, _, rfl⟩ := mem_durInfos.mp hi
        have hcs : c.sid ∈ g1.sids := List.mem_map.mpr ⟨c, hc, rfl⟩
        simp only at hsid
        have h' := h.seen_mono (seen' := σ.metaDur :: σ.seen) (fun x hx => List.mem_cons_of_mem _ hx)
        refine ⟨h'.gidPos, h'.gidEnd, h'.sidEnd, ?_, ?_, h'.nilGid, h'.queueGid, ?_, h'.seenNil, h'.seenQ⟩
        · intro s hs g hg hx
          rcases List.mem_append.mp hs with hs | hs
          · exact h.engEnd s hs g hg hx
          · simp only [List.mem_singleton] at hs; subst hs
            simp only at hx ⊢
            exact h.sidEnd g hg g1 hg1 sid hx (hsid ▸ hcs)
        · intro s hs g hg hx
          rcases List.mem_append.mp hs with hs | hs
          · exact h.engGid s hs g hg hx
          · simp only [List.mem_singleton] at hs; subst hs
            exact absurd hx (h.gidPos g hg)
        · intro s hs
          rcases List.mem_append.mp hs with hs | hs
          · exact h'.seenEng s hs
          · simp only [List.mem_singleton] at hs; subst hs
            exact List.mem_cons_self
      · exact h
  | close sid =>
    simp only [OG.C14.step]
    refine ⟨h.gidPos, h.gidEnd, h.sidEnd, ?_, ?_, h.nilGid, h.queueGid, ?_, h.seenNil, h.seenQ⟩
    · intro s hs g hg hx
      obtain ⟨s0, hs0, rfl⟩ := List.mem_map.mp hs
      have := h.engEnd s0 hs0 g hg
      split at hx <;> split <;> simp_all
    · intro s hs g hg hx
      obtain ⟨s0, hs0, rfl⟩ := List.mem_map.mp hs
      have := h.engGid s0 hs0 g hg
      split at hx <;> split <;> simp_all
    · intro s hs
      obtain ⟨s0, hs0, rfl⟩ := List.mem_map.mp hs
      have := h.seenEng s0 hs0
      split <;> simp_all
  | refresh ok =>
    simp only [OG.C14.step]
    split
    · split
      · simp only [refreshOk]
        have h' := h.seen_mono (seen' := σ.metaDur :: σ.seen) (fun x hx => List.mem_cons_of_mem _ hx)
        have hinfo : ∀ i ∈ durInfos σ.cat σ.metaDur, i.dur = σ.metaDur ∧
            ∀ g ∈ σ.cat, g.gid = i.gid → g.endT = i.endT := by
          intro i hi
          obtain ⟨g1, hg1, c, _, _, rfl⟩ := mem_durInfos.mp hi
          exact ⟨rfl, fun g hg hx => h.gidEnd g hg g1 hg1 hx⟩
        refine ⟨h'.gidPos, h'.gidEnd, h'.sidEnd, ?_, ?_, ?_, h'.queueGid, ?_, ?_, h'.seenQ⟩
        · intro s hs g hg hx
          obtain ⟨s0, hs0, rfl⟩ := List.mem_map.mp hs
          rw [updShard_sid] at hx; rw [updShard_endT]
          exact h.engEnd s0 hs0 g hg hx
        · intro s hs g hg hx
          obtain ⟨s0, hs0, rfl⟩ := List.mem_map.mp hs
          rw [updShard_endT]
          rcases updShard_cases (durInfos σ.cat σ.metaDur) s0 with ⟨h1, _⟩ | ⟨i, hi, hsid, h1, _⟩
          · exact h.engGid s0 hs0 g hg (h1 ▸ hx)
          · obtain ⟨g1, hg1, c, hc, _, rfl⟩ := mem_durInfos.mp hi
            simp only at hsid h1
            have e1 : g.endT = g1.endT := h.gidEnd g hg g1 hg1 (by rw [hx, h1])
            have e2 : g1.endT = s0.endT :=
              h.engEnd s0 hs0 g1 hg1 (hsid ▸ List.mem_map.mpr ⟨c, hc, rfl⟩)
            rw [e1, e2]
        · intro i hi g hg hx
          exact (hinfo i (List.mem_filter.mp hi).1).2 g hg hx
        · intro s hs
          obtain ⟨s0, hs0, rfl⟩ := List.mem_map.mp hs
          rcases updShard_cases (durInfos σ.cat σ.metaDur) s0 with ⟨_, h2⟩ | ⟨i, hi, _, _, h2⟩
          · rw [h2]; exact h'.seenEng s0 hs0
          · rw [h2, (hinfo i hi).1]; exact List.mem_cons_self
        · intro i hi
          rw [(hinfo i (List.mem_filter.mp hi).1).1]; exact List.mem_cons_self
      · exact h
    · exact h
  | collect =>
    simp only [OG.C14.step]
    split
    · simp only [OG.C14.collect]
      refine ⟨h.gidPos, h.gidEnd, h.sidEnd, h.engEnd, h.engGid, h.nilGid, ?_, h.seenEng, h.seenNil, ?_⟩
      · intro q hq g hg hx
        have hq := mem_sortQ.mp hq
        unfold expiredShards at hq
        rcases List.mem_append.mp hq with hq | hq
        · obtain ⟨s, hs, _, _, rfl⟩ := mem_expiredLoaded.mp hq
          exact h.engGid s hs g hg hx
        · obtain ⟨i, hi, _, _, rfl⟩ := mem_expiredNil.mp hq
          exact h.nilGid i hi g hg hx
      · intro q hq
        have hq := mem_sortQ.mp hq
        unfold expiredShards at hq
        rcases List.mem_append.mp hq with hq | hq
        · obtain ⟨s, hs, _, _, rfl⟩ := mem_expiredLoaded.mp hq
          exact h.seenEng s hs
        · obtain ⟨i, hi, _, _, rfl⟩ := mem_expiredNil.mp hq
          exact h.seenNil i hi
    · exact h
  | proc o =>
    simp only [OG.C14.step]
    split
    · rename_i q rest hph hq
      have h1 : WFc (procItem o q σ).cat σ.eng σ.nilMap σ.queue σ.seen :=
        h.cat_skel (fun g' hg' => by
          obtain ⟨g, hg, hs, _⟩ := procItem_cat_back hg'
          exact ⟨g, hg, hs⟩)
      exact h1.sub (fun s hs => mem_delEng hs) (fun q' hq' => by rw [hq]; exact List.mem_cons_of_mem _ hq')
    · exact h
  | complete =>
    simp only [OG.C14.step]
    rw [completeAll_cat, completeAll_seen, completeAll_nilMap, completeAll_queue]
    exact h.sub (completeAll_eng_sub _ _) (fun q hq => hq)

/-! ### invariant 3: a group of the initial catalogue is live, or its marking is on record -/

def GI (cat0 : List Group) (σ : St) : Prop :=
  ∀ g0 ∈ cat0, g0.deleted = false →
    (∃ g ∈ σ.cat, g.gid = g0.gid ∧ g.startT = g0.startT ∧ g.endT = g0.endT ∧ g.deleted = false) ∨
    (∃ e ∈ σ.log, e.kind = .markedGroup ∧ e.id = g0.gid ∧ e.endT = g0.endT ∧ e.d ∈ σ.seen)

theorem GI.of_eq {cat0 : List Group} {σ σ' : St} (h : GI cat0 σ) (hc : σ'.cat = σ.cat)
    (hl : σ'.log = σ.log) (hs : ∀ x ∈ σ.seen, x ∈ σ'.seen) : GI cat0 σ' := by
  intro g0 hg0 hd
  rcases h g0 hg0 hd with ⟨g, hg, hh⟩ | ⟨e, he, h1, h2, h3, h4⟩
  · exact Or.inl ⟨g, hc ▸ hg, hh⟩
  · exact Or.inr ⟨e, hl ▸ he, h1, h2, h3, hs _ h4⟩

theorem GI.step {cat0 : List Group} {σ : St} (hw : WF σ) (h : GI cat0 σ) (op : Op) :
    GI cat0 (step σ op) := by
  cases op with
  | tick dt =>
    simp only [OG.C14.step]
    split
    · exact h.of_eq rfl rfl (fun x hx => hx)
    · exact h
  | alter d => exact h.of_eq rfl rfl (fun x hx => hx)
  | load sid =>
    simp only [OG.C14.step, loadShard]
    split
    · exact h
    · split
      · exact h.of_eq rfl rfl (fun x hx => List.mem_cons_of_mem _ hx)
      · exact h
  | close sid => exact h.of_eq rfl rfl (fun x hx => hx)
  | refresh ok =>
    simp only [OG.C14.step]
    split
    · split
      · exact h.of_eq rfl rfl (fun x hx => List.mem_cons_of_mem _ hx)
      · exact h
    · exact h
  | collect =>
    simp only [OG.C14.step]
    split
    · exact h.of_eq rfl rfl (fun x hx => hx)
    · exact h
  | proc o =>
    simp only [OG.C14.step]
    split
    · rename_i q rest hph hq
      have hqm : q ∈ σ.queue := by rw [hq]; exact List.mem_cons_self
      intro g0 hg0 hd
      rcases h g0 hg0 hd with ⟨g, hg, e1, e2, e3, hlive⟩ | ⟨e, he, h1, h2, h3, h4⟩
      · by_cases hm : o.markOk = true ∧ g.gid = q.gid
        · -- this iteration marks the group: the event is on record
          refine Or.inr ⟨⟨.markedGroup, q.gid, q.endT, q.dUsed, σ.clock⟩, ?_, rfl, ?_, ?_, ?_⟩
          · simp only [procItem]
            refine List.mem_append_left _ ?_
            unfold evs
            simp [hm.1]
          · simp only; rw [← hm.2, e1]
          · simp only; rw [← hw.queueGid q hqm g hg hm.2, e3]
          · exact hw.seenQ q hqm
        · obtain ⟨g', hg', hs, hl'⟩ := procItem_cat_keep (o := o) (q := q) hg hlive hm
          exact Or.inl ⟨g', hg', hs.1.trans e1, hs.2.1.trans e2, hs.2.2.1.trans e3, hl'⟩
      · refine Or.inr ⟨e, ?_, h1, h2, h3, h4⟩
        simp only [procItem]
        exact List.mem_append_right _ he
    · exact h
  | complete =>
    simp only [OG.C14.step]
    exact h.of_eq (by rw [completeAll_cat]) (by rw [completeAll_log]) (fun x hx => by rw [completeAll_seen]; exact hx)

/-! ### nothing leaves the store, and no group is marked, without a record -/

/-- a delete that timed out is on record (it was issued for an expired shard). -/
def PendInv (σ : St) : Prop :=
  ∀ sid ∈ σ.pending, ∃ e ∈ σ.log, e.kind = .deletedShard ∧ e.id = sid

theorem completeAll_eng_keep (l : List Nat) (σ : St) (s : EShard) (hs : s ∈ σ.eng) (hn : s.sid ∉ l) :
    s ∈ (completeAll l σ).eng := by
  induction l generalizing σ with
  | nil => exact hs
  | cons a r ih =>
    simp only [completeAll]
    apply ih
    · simp only
      unfold delEng
      have hne : (s.sid != a) = true := by
        simp only [bne_iff_ne, ne_eq]
        intro h; exact hn (h ▸ List.mem_cons_self)
      split
      · exact List.mem_filter.mpr ⟨hs, hne⟩
      · exact List.mem_filter.mpr ⟨hs, hne⟩
      · exact hs
    · intro h; exact hn (List.mem_cons_of_mem _ h)

theorem PendInv.step {σ : St} (h : PendInv σ) (op : Op) : PendInv (step σ op) := by
  cases op with
  | tick dt => simp only [OG.C14.step]; split <;> exact h
  | alter d => exact h
  | load sid =>
    simp only [OG.C14.step, loadShard]
    split
    · exact h
    · split <;> exact h
  | close sid => exact h
  | refresh ok =>
    simp only [OG.C14.step]
    split
    · split <;> exact h
    · exact h
  | collect =>
    simp only [OG.C14.step]
    split <;> exact h
  | proc o =>
    simp only [OG.C14.step]
    split
    · rename_i q rest hph hq
      intro sid hsid
      simp only [procItem] at hsid ⊢
      unfold delPending at hsid
      split at hsid
      · rename_i hr
        rcases List.mem_cons.mp hsid with rfl | hsid
        · refine ⟨⟨.deletedShard, q.sid, q.endT, q.dUsed, σ.clock⟩, ?_, rfl, rfl⟩
          refine List.mem_append_left _ ?_
          unfold evs
          simp [hr]
        · obtain ⟨e, he, hh⟩ := h sid hsid
          exact ⟨e, List.mem_append_right _ he, hh⟩
      · obtain ⟨e, he, hh⟩ := h sid hsid
        exact ⟨e, List.mem_append_right _ he, hh⟩
    · exact h
  | complete =>
    simp only [OG.C14.step]
    intro sid hsid
    have : (completeAll σ.pending { σ with pending := [] }).pending = [] := by
      generalize σ.pending = l
      generalize hσ' : ({ σ with pending := [] } : St) = σ'
      have hp : σ'.pending = [] := by rw [← hσ']
      clear hσ'
      induction l generalizing σ' with
      | nil => exact hp
      | cons a r ih => simp only [completeAll]; exact ih _ hp
    rw [this] at hsid
    exact absurd hsid (by simp)

/-- a shard object leaves the store only through a recorded delete. -/
theorem shard_leaves_logged {σ : St} (hp : PendInv σ) (op : Op) (s : EShard) (hs : s ∈ σ.eng)
    (hgone : ∀ s' ∈ (step σ op).eng, s'.sid ≠ s.sid) :
    ∃ e ∈ (step σ op).log, e.kind = .deletedShard ∧ e.id = s.sid := by
  cases op with
  | tick dt =>
    simp only [OG.C14.step] at hgone
    split at hgone <;> exact absurd rfl (hgone s hs)
  | alter d => exact absurd rfl (hgone s hs)
  | load sid =>
    simp only [OG.C14.step, loadShard] at hgone
    split at hgone
    · exact absurd rfl (hgone s hs)
    · split at hgone
      · exact absurd rfl (hgone s (List.mem_append_left _ hs))
      · exact absurd rfl (hgone s hs)
  | close sid =>
    simp only [OG.C14.step] at hgone
    have := hgone _ (List.mem_map.mpr ⟨s, hs, rfl⟩)
    split at this <;> exact absurd rfl this
  | refresh ok =>
    simp only [OG.C14.step] at hgone
    split at hgone
    · split at hgone
      · have := hgone _ (List.mem_map.mpr ⟨s, hs, rfl⟩)
        rw [updShard_sid] at this
        exact absurd rfl this
      · exact absurd rfl (hgone s hs)
    · exact absurd rfl (hgone s hs)
  | collect =>
    simp only [OG.C14.step] at hgone
    split at hgone <;> exact absurd rfl (hgone s hs)
  | proc o =>
    simp only [OG.C14.step] at hgone ⊢
    split at hgone
    · rename_i q rest hph hq
      simp only [procItem] at hgone ⊢
      by_cases hr : delRes o.del q.sid σ.eng σ.pending = .ok ∨ delRes o.del q.sid σ.eng σ.pending = .closedErr
      · by_cases hsid : s.sid = q.sid
        · refine ⟨⟨.deletedShard, q.sid, q.endT, q.dUsed, σ.clock⟩, ?_, rfl, hsid.symm⟩
          refine List.mem_append_left _ ?_
          unfold evs
          rcases hr with hr | hr <;> simp [hr]
        · exfalso
          refine hgone s ?_ rfl
          unfold delEng
          have hne : (s.sid != q.sid) = true := by simpa using hsid
          split
          · exact List.mem_filter.mpr ⟨hs, hne⟩
          · exact List.mem_filter.mpr ⟨hs, hne⟩
          · exact hs
      · exfalso
        refine hgone s ?_ rfl
        unfold delEng
        split
        · rename_i h1; exact absurd (Or.inl h1) hr
        · rename_i h1; exact absurd (Or.inr h1) hr
        · exact hs
    · exact absurd rfl (hgone s hs)
  | complete =>
    simp only [OG.C14.step] at hgone ⊢
    rw [completeAll_log]
    by_cases hin : s.sid ∈ σ.pending
    · exact hp s.sid hin
    · exact absurd rfl (hgone s (completeAll_eng_keep _ _ s hs hin))

/-- a live group stops being live only through a recorded mark. -/
theorem group_marked_logged {σ : St} (op : Op) (g : Group) (hg : g ∈ σ.cat) (hlive : g.deleted = false)
    (hgone : ∀ g' ∈ (step σ op).cat, g'.gid = g.gid → g'.deleted = true) :
    ∃ e ∈ (step σ op).log, e.kind = .markedGroup ∧ e.id = g.gid := by
  have same : ∀ σ' : St, σ'.cat = σ.cat → (∀ g' ∈ σ'.cat, g'.gid = g.gid → g'.deleted = true) → False := by
    intro σ' hc hh
    have := hh g (hc ▸ hg) rfl
    rw [hlive] at this; exact Bool.noConfusion this
  cases op with
  | tick dt =>
    simp only [OG.C14.step] at hgone
    split at hgone <;> exact (same _ rfl hgone).elim
  | alter d => exact (same _ rfl hgone).elim
  | load sid =>
    simp only [OG.C14.step, loadShard] at hgone
    split at hgone
    · exact (same _ rfl hgone).elim
    · split at hgone <;> exact (same _ rfl hgone).elim
  | close sid => exact (same _ rfl hgone).elim
  | refresh ok =>
    simp only [OG.C14.step] at hgone
    split at hgone
    · split at hgone <;> exact (same _ rfl hgone).elim
    · exact (same _ rfl hgone).elim
  | collect =>
    simp only [OG.C14.step] at hgone
    split at hgone <;> exact (same _ rfl hgone).elim
  | proc o =>
    simp only [OG.C14.step] at hgone ⊢
    split at hgone
    · rename_i q rest hph hq
      by_cases hm : o.markOk = true ∧ g.gid = q.gid
      · refine ⟨⟨.markedGroup, q.gid, q.endT, q.dUsed, σ.clock⟩, ?_, rfl, hm.2.symm⟩
        simp only [procItem]
        refine List.mem_append_left _ ?_
        unfold evs
        simp [hm.1]
      · obtain ⟨g', hg', hs, hl'⟩ := procItem_cat_keep (o := o) (q := q) hg hlive hm
        have := hgone g' hg' hs.1
        rw [hl'] at this; exact Bool.noConfusion this
    · exact (same _ rfl hgone).elim
  | complete =>
    simp only [OG.C14.step] at hgone
    exact (same _ (by rw [completeAll_cat]) hgone).elim

/-! ### the run decides with the duration its refresh obtained -/

/-- `DBPTInfo.shards` is a map: one shard object per id. -/
def EngUniq (σ : St) : Prop := ∀ s ∈ σ.eng, ∀ s' ∈ σ.eng, s.sid = s'.sid → s = s'

theorem EngUniq.of_sub {σ σ' : St} (h : EngUniq σ) (hs : ∀ s ∈ σ'.eng, s ∈ σ.eng) : EngUniq σ' :=
  fun s hs1 s' hs2 he => h s (hs s hs1) s' (hs s' hs2) he

theorem EngUniq.of_map {σ σ' : St} (h : EngUniq σ) (f : EShard → EShard) (hf : ∀ s, (f s).sid = s.sid)
    (he : σ'.eng = σ.eng.map f) : EngUniq σ' := by
  intro s hs s' hs' hsid
  rw [he] at hs hs'
  obtain ⟨a, ha, rfl⟩ := List.mem_map.mp hs
  obtain ⟨b, hb, rfl⟩ := List.mem_map.mp hs'
  rw [hf, hf] at hsid
  rw [h a ha b hb hsid]

theorem EngUniq.step {σ : St} (h : EngUniq σ) (op : Op) : EngUniq (step σ op) := by
  cases op with
  | tick dt => simp only [OG.C14.step]; split <;> exact h
  | alter d => exact h
  | load sid =>
    simp only [OG.C14.step, loadShard]
    split
    · exact h
    · rename_i hno
      split
      · intro s hs s' hs' hsid
        simp only at hs hs'
        have hnot : ∀ x ∈ σ.eng, x.sid ≠ sid := by
          intro x hx hxs
          apply hno
          exact List.any_eq_true.mpr ⟨x, hx, by simpa using hxs⟩
        rcases List.mem_append.mp hs with hs | hs <;> rcases List.mem_append.mp hs' with hs' | hs'
        · exact h s hs s' hs' hsid
        · simp only [List.mem_singleton] at hs'; subst hs'
          exact absurd hsid (hnot s hs)
        · simp only [List.mem_singleton] at hs; subst hs
          exact absurd hsid.symm (hnot s' hs')
        · simp only [List.mem_singleton] at hs hs'; rw [hs, hs']
      · exact h
  | close sid =>
    exact h.of_map (fun s => if s.sid == sid then { s with idx := false } else s)
      (fun s => by split <;> rfl) rfl
  | refresh ok =>
    simp only [OG.C14.step]
    split
    · split
      · exact h.of_map (updShard (durInfos σ.cat σ.metaDur)) (updShard_sid _) rfl
      · exact h
    · exact h
  | collect => simp only [OG.C14.step]; split <;> exact h
  | proc o =>
    simp only [OG.C14.step]
    split
    · exact h.of_sub (fun s hs => mem_delEng hs)
    · exact h
  | complete =>
    simp only [OG.C14.step]
    exact h.of_sub (completeAll_eng_sub _ _)

/-- the catalogue lists shard `sid` for this store. -/
def Listed (cat : List Group) (sid : Nat) : Prop :=
  ∃ g ∈ cat, ∃ c ∈ g.shards, c.mine = true ∧ c.sid = sid

theorem listed_iff {cat : List Group} {sid : Nat} (d : Int) :
    Listed cat sid ↔ ∃ i ∈ durInfos cat d, i.sid = sid := by
  constructor
  · rintro ⟨g, hg, c, hc, hm, rfl⟩
    exact ⟨⟨c.sid, g.gid, g.endT, d⟩, mem_durInfos.mpr ⟨g, hg, c, hc, hm, rfl⟩, rfl⟩
  · rintro ⟨i, hi, rfl⟩
    obtain ⟨g, hg, c, hc, hm, rfl⟩ := mem_durInfos.mp hi
    exact ⟨g, hg, c, hc, hm, rfl⟩

theorem durInfos_dur {cat : List Group} {d : Int} {i : DurInfo} (h : i ∈ durInfos cat d) : i.dur = d := by
  obtain ⟨g, _, c, _, _, rfl⟩ := mem_durInfos.mp h; rfl

/-- after a successful refresh, whatever `ExpiredShards` reports about a shard the catalogue
lists was decided with the duration that refresh obtained. -/
theorem fresh_after_refresh {σ : St} (hu : EngUniq σ) (now : Int) {q : QItem}
    (hq : q ∈ expiredShards now (refreshOk σ).eng (refreshOk σ).nilMap) (hl : Listed σ.cat q.sid) :
    q.dUsed = σ.metaDur := by
  obtain ⟨i0, hi0, hi0s⟩ := (listed_iff σ.metaDur).mp hl
  unfold expiredShards at hq
  simp only [refreshOk] at hq
  rcases List.mem_append.mp hq with hq | hq
  · obtain ⟨s', hs', hnil, _, rfl⟩ := mem_expiredLoaded.mp hq
    obtain ⟨s, hs, rfl⟩ := List.mem_map.mp hs'
    simp only at hi0s ⊢
    rw [updShard_sid] at hi0s hnil
    by_cases hidx : s.idx = true
    · unfold updShard
      rw [if_pos hidx]
      split
      · rename_i i hf
        exact durInfos_dur (List.mem_of_find?_eq_some hf)
      · rename_i hf
        have := List.find?_eq_none.mp hf i0 hi0
        simp [hi0s] at this
    · exfalso
      have hin : i0 ∈ nilInfos σ.eng (durInfos σ.cat σ.metaDur) := by
        unfold nilInfos
        refine List.mem_filter.mpr ⟨hi0, ?_⟩
        simp only [Bool.not_eq_true', List.any_eq_false, Bool.and_eq_true, beq_iff_eq, not_and]
        intro x hx hxs
        have : x = s := hu x hx s hs (hxs.trans hi0s)
        rw [this]; exact hidx
      have := List.any_eq_false.mp hnil i0 hin
      simp [hi0s] at this
  · obtain ⟨i, hi, _, _, rfl⟩ := mem_expiredNil.mp hq
    exact durInfos_dur (List.mem_filter.mp hi).1

/-! ### the loop of one run, as a fold over the reported shards -/

def procQ (oc : Nat → Outcome) : List QItem → St → St
  | [], σ => σ
  | q :: rest, σ => procQ oc rest (procItem (oc q.sid) q σ)

theorem steps_append (σ : St) (a b : List Op) : steps σ (a ++ b) = steps (steps σ a) b := by
  unfold steps; exact List.foldl_append ..

/-- the part of the state the loop reads and writes. -/
def Core (σ : St) : Int × List Group × List EShard × List Nat × List Nat × List Ev :=
  (σ.clock, σ.cat, σ.eng, σ.disk, σ.pending, σ.log)

theorem procItem_core (o : Outcome) (q : QItem) {σ σ' : St} (h : Core σ = Core σ') :
    Core (procItem o q σ) = Core (procItem o q σ') := by
  simp only [Core, Prod.mk.injEq] at h
  obtain ⟨h1, h2, h3, h4, h5, h6⟩ := h
  simp only [Core, procItem, h1, h2, h3, h4, h5, h6]

theorem procQ_core (oc : Nat → Outcome) (l : List QItem) {σ σ' : St} (h : Core σ = Core σ') :
    Core (procQ oc l σ) = Core (procQ oc l σ') := by
  induction l generalizing σ σ' with
  | nil => exact h
  | cons q r ih => exact ih (procItem_core _ _ h)

/-- the `proc` steps of a run are exactly `procQ` over the reported list. -/
theorem steps_procs (oc : Nat → Outcome) : ∀ (Q : List QItem) (σ : St), σ.queue = Q →
    (Q ≠ [] → σ.phase = .processing) →
    Core (steps σ (Q.map fun q => .proc (oc q.sid))) = Core (procQ oc Q σ) := by
  intro Q
  induction Q with
  | nil => intro σ _ _; rfl
  | cons q rest ih =>
    intro σ hq hph
    have hph := hph (by simp)
    simp only [List.map_cons, steps, List.foldl_cons, procQ]
    have hstep : step σ (.proc (oc q.sid)) =
        { procItem (oc q.sid) q σ with queue := rest, phase := if rest.isEmpty then .idle else .processing } := by
      simp only [step, hph, hq]
    rw [hstep]
    have := ih { procItem (oc q.sid) q σ with queue := rest, phase := if rest.isEmpty then .idle else .processing }
      rfl (by intro hne; cases rest with
        | nil => exact absurd rfl hne
        | cons _ _ => rfl)
    simp only [steps] at this
    rw [this]
    exact procQ_core oc rest rfl

/-! ### pruning marks exactly the shard it is asked to (groups sorted by shard id) -/

/-- static shape of the catalogue: every group has shards, ids strictly ascending (they are
allocated consecutively and appended). -/
def CatStatic (cat : List Group) : Prop :=
  ∀ g ∈ cat, g.shards ≠ [] ∧ g.sids.Pairwise (· < ·)

theorem CatStatic.of_skel {cat cat' : List Group} (h : CatStatic cat)
    (hk : ∀ g' ∈ cat', ∃ g ∈ cat, Skel g' g) : CatStatic cat' := by
  intro g' hg'
  obtain ⟨g, hg, hs⟩ := hk g' hg'
  obtain ⟨h1, h2⟩ := h g hg
  have hsids : g'.sids = g.sids := hs.2.2.2
  refine ⟨?_, hsids ▸ h2⟩
  intro he
  apply h1
  have : g.sids = [] := by rw [← hsids]; simp [Group.sids, he]
  simpa [Group.sids] using this

theorem mem_markFirstGE {id : Nat} {l : List CShard} {c' : CShard} (h : c' ∈ markFirstGE id l) :
    ∃ c ∈ l, c'.sid = c.sid ∧ c'.mine = c.mine ∧ (c.marked = true → c'.marked = true) := by
  induction l with
  | nil => simp [markFirstGE] at h
  | cons a r ih =>
    simp only [markFirstGE] at h
    split at h
    · rcases List.mem_cons.mp h with rfl | h
      · refine ⟨a, List.mem_cons_self, ?_⟩
        split
        · exact ⟨rfl, rfl, fun _ => rfl⟩
        · exact ⟨rfl, rfl, fun h => h⟩
      · exact ⟨c', List.mem_cons_of_mem _ h, rfl, rfl, fun h => h⟩
    · rcases List.mem_cons.mp h with rfl | h
      · exact ⟨c', List.mem_cons_self, rfl, rfl, fun h => h⟩
      · obtain ⟨c, hc, hh⟩ := ih h
        exact ⟨c, List.mem_cons_of_mem _ hc, hh⟩

theorem markFirstGE_marks {id : Nat} {l : List CShard} (hs : (l.map (·.sid)).Pairwise (· < ·)) :
    ∀ c' ∈ markFirstGE id l, c'.sid = id → c'.marked = true := by
  induction l with
  | nil => intro c' h; simp [markFirstGE] at h
  | cons a r ih =>
    intro c' h hid
    simp only [List.map_cons, List.pairwise_cons] at hs
    simp only [markFirstGE] at h
    split at h
    · rename_i hle
      rcases List.mem_cons.mp h with rfl | h
      · split at hid
        · rename_i he
          simp [he]
        · rename_i he
          exact absurd (by simpa using hid) (by simpa using he)
      · have := hs.1 c'.sid (List.mem_map.mpr ⟨c', h, rfl⟩)
        omega
    · rename_i hle
      rcases List.mem_cons.mp h with rfl | h
      · omega
      · exact ih hs.2 c' h hid

theorem head_le {l : List CShard} {f x : CShard} (hs : (l.map (·.sid)).Pairwise (· < ·))
    (hf : l.head? = some f) (hx : x ∈ l) : f.sid ≤ x.sid := by
  cases l with
  | nil => simp at hf
  | cons a r =>
    simp only [List.head?_cons, Option.some.injEq] at hf
    subst hf
    simp only [List.map_cons, List.pairwise_cons] at hs
    rcases List.mem_cons.mp hx with rfl | hx
    · exact Nat.le_refl _
    · exact Nat.le_of_lt (hs.1 x.sid (List.mem_map.mpr ⟨x, hx, rfl⟩))

theorem le_last {l : List CShard} {z x : CShard} (hs : (l.map (·.sid)).Pairwise (· < ·))
    (hz : l.getLast? = some z) (hx : x ∈ l) : x.sid ≤ z.sid := by
  induction l with
  | nil => simp at hx
  | cons a r ih =>
    simp only [List.map_cons, List.pairwise_cons] at hs
    cases r with
    | nil =>
      simp only [List.getLast?_singleton, Option.some.injEq] at hz
      subst hz
      simp only [List.mem_singleton] at hx
      subst hx; exact Nat.le_refl _
    | cons b r' =>
      rw [List.getLast?_cons_cons] at hz
      have hzm : z ∈ b :: r' := List.mem_of_getLast? hz
      rcases List.mem_cons.mp hx with rfl | hx
      · exact Nat.le_of_lt (hs.1 z.sid (List.mem_map.mpr ⟨z, hzm, rfl⟩))
      · exact ih hs.2 hz hx

theorem pruneGroup_marks (id : Nat) (g : Group) (hs : g.sids.Pairwise (· < ·)) :
    ∀ c ∈ (pruneGroup id g).shards, c.sid = id → c.marked = true := by
  intro c hc hid
  unfold pruneGroup at hc
  split at hc
  · rename_i f l hf hl
    split at hc
    · exact markFirstGE_marks hs c hc hid
    · rename_i hguard
      exfalso; apply hguard
      have h1 := head_le hs hf hc
      have h2 := le_last hs hl hc
      simp only [Bool.and_eq_true, decide_eq_true_eq]
      omega
  · rename_i hno
    cases hsh : g.shards with
    | nil => rw [hsh] at hc; simp at hc
    | cons a r =>
      exfalso
      have hne : g.shards ≠ [] := by rw [hsh]; simp
      exact hno a (g.shards.getLast hne) (by rw [hsh]; rfl) (List.getLast?_eq_some_getLast hne)

theorem mem_pruneGroup_shards {id : Nat} {g : Group} {c' : CShard} (h : c' ∈ (pruneGroup id g).shards) :
    ∃ c ∈ g.shards, c'.sid = c.sid ∧ c'.mine = c.mine ∧ (c.marked = true → c'.marked = true) := by
  unfold pruneGroup at h
  split at h
  · split at h
    · exact mem_markFirstGE h
    · exact ⟨c', h, rfl, rfl, fun h => h⟩
  · exact ⟨c', h, rfl, rfl, fun h => h⟩

/-- marks are only ever set. -/
theorem procItem_marks {o : Outcome} {q : QItem} {σ : St} {g' : Group} {c' : CShard}
    (hg' : g' ∈ (procItem o q σ).cat) (hc' : c' ∈ g'.shards) :
    ∃ g ∈ σ.cat, ∃ c ∈ g.shards, c'.sid = c.sid ∧ c'.mine = c.mine ∧ (c.marked = true → c'.marked = true) := by
  simp only [procItem] at hg'
  have h2 : ∃ g1 ∈ markStage o.markOk q.gid σ.cat, ∃ c ∈ g1.shards, c'.sid = c.sid ∧ c'.mine = c.mine ∧
      (c.marked = true → c'.marked = true) := by
    unfold pruneStage at hg'
    split at hg'
    · unfold pruneCat at hg'
      obtain ⟨hm, _⟩ := List.mem_filter.mp hg'
      obtain ⟨g1, hg1, rfl⟩ := List.mem_map.mp hm
      obtain ⟨c, hc, hh⟩ := mem_pruneGroup_shards hc'
      exact ⟨g1, hg1, c, hc, hh⟩
    · exact ⟨g', hg', c', hc', rfl, rfl, id⟩
  obtain ⟨g1, hg1, c, hc, hh⟩ := h2
  obtain ⟨g, hg, _, hsh, _⟩ := mem_markStage hg1
  exact ⟨g, hg, c, hsh ▸ hc, hh⟩

/-- with the prune call succeeding on a well-shaped catalogue, every catalogue entry of the
shard is marked afterwards. -/
theorem procItem_prunes {o : Outcome} {q : QItem} {σ : St} (hst : CatStatic σ.cat) (hp : o.pruneOk = true) :
    ∀ g' ∈ (procItem o q σ).cat, ∀ c ∈ g'.shards, c.sid = q.sid → c.marked = true := by
  intro g' hg' c hc hid
  simp only [procItem] at hg'
  have hst1 : CatStatic (markStage o.markOk q.gid σ.cat) :=
    hst.of_skel (fun g1 hg1 => by obtain ⟨g, hg, hs, _⟩ := mem_markStage hg1; exact ⟨g, hg, hs⟩)
  have hnp : pruneWouldPanic (markStage o.markOk q.gid σ.cat) = false := by
    unfold pruneWouldPanic
    simp only [List.any_eq_false, List.isEmpty_iff]
    intro g1 hg1; exact (hst1 g1 hg1).1
  unfold pruneStage at hg'
  rw [hp, hnp] at hg'
  simp only [Bool.not_false, Bool.and_self, ↓reduceIte] at hg'
  unfold pruneCat at hg'
  obtain ⟨hm, _⟩ := List.mem_filter.mp hg'
  obtain ⟨g1, hg1, rfl⟩ := List.mem_map.mp hm
  exact pruneGroup_marks q.sid g1 (hst1 g1 hg1).2 c hc hid

/-! ### what one loop iteration, and the whole loop, keeps and removes -/

theorem procItem_eng_keep {o : Outcome} {q : QItem} {σ : St} {s : EShard} (hs : s ∈ σ.eng)
    (hne : s.sid ≠ q.sid) : s ∈ (procItem o q σ).eng := by
  simp only [procItem]
  unfold delEng
  have : (s.sid != q.sid) = true := by simpa using hne
  split
  · exact List.mem_filter.mpr ⟨hs, this⟩
  · exact List.mem_filter.mpr ⟨hs, this⟩
  · exact hs

theorem procItem_disk_keep {o : Outcome} {q : QItem} {σ : St} {x : Nat} (hx : x ∈ σ.disk)
    (hne : x ≠ q.sid) : x ∈ (procItem o q σ).disk := by
  simp only [procItem]
  unfold delDisk
  split
  · exact List.mem_filter.mpr ⟨hx, by simpa using hne⟩
  · exact hx

theorem procItem_disk_sub {o : Outcome} {q : QItem} {σ : St} {x : Nat} (hx : x ∈ (procItem o q σ).disk) :
    x ∈ σ.disk := by
  simp only [procItem] at hx
  unfold delDisk at hx
  split at hx
  · exact (List.mem_filter.mp hx).1
  · exact hx

theorem engDelRes_cases (sid : Nat) (eng : List EShard) :
    (engDelRes sid eng = .notFound ∧ ∀ s ∈ eng, s.sid ≠ sid) ∨
    (engDelRes sid eng = .ok ∧ ∃ s ∈ eng, s.sid = sid ∧ s.idx = true) ∨
    (engDelRes sid eng = .closedErr ∧ ∃ s ∈ eng, s.sid = sid ∧ s.idx = false) := by
  unfold engDelRes
  split
  · rename_i s hf
    have hm := List.mem_of_find?_eq_some hf
    have hsid : s.sid = sid := by simpa using List.find?_some hf
    by_cases hi : s.idx = true
    · exact Or.inr (Or.inl ⟨by simp [hi], s, hm, hsid, hi⟩)
    · exact Or.inr (Or.inr ⟨by simp [hi], s, hm, hsid, by simpa using hi⟩)
  · rename_i hf
    refine Or.inl ⟨rfl, fun s hs hsid => ?_⟩
    have := List.find?_eq_none.mp hf s hs
    simp [hsid] at this

theorem procItem_pending {o : Outcome} {q : QItem} {σ : St} (h : o.del ≠ .timeout) :
    (procItem o q σ).pending = σ.pending := by
  simp only [procItem]
  have hne : delRes o.del q.sid σ.eng σ.pending ≠ .timedOut := by
    unfold delRes
    split
    · intro hh; cases hh
    · cases hd : o.del with
      | timeout => exact absurd hd h
      | fail => intro hh; cases hh
      | ok =>
        simp only
        rcases engDelRes_cases q.sid σ.eng with ⟨h1, _⟩ | ⟨h1, _⟩ | ⟨h1, _⟩ <;> rw [h1] <;> intro hh <;> cases hh
  unfold delPending
  split
  · rename_i hr; exact absurd hr hne
  · rfl

/-- an iteration whose delete reaches the engine leaves no shard object with that id. -/
theorem procItem_removes {o : Outcome} {q : QItem} {σ : St} (hd : o.del = .ok)
    (hp : q.sid ∉ σ.pending) : ∀ s ∈ (procItem o q σ).eng, s.sid ≠ q.sid := by
  intro s hs
  simp only [procItem] at hs
  have hr : delRes o.del q.sid σ.eng σ.pending = engDelRes q.sid σ.eng := by
    unfold delRes
    have : σ.pending.contains q.sid = false := by simpa using hp
    rw [this, hd]; simp
  rw [hr] at hs
  rcases engDelRes_cases q.sid σ.eng with ⟨h1, h2⟩ | ⟨h1, _⟩ | ⟨h1, _⟩
  · rw [h1] at hs; exact h2 s hs
  · rw [h1] at hs; simpa using (List.mem_filter.mp hs).2
  · rw [h1] at hs; simpa using (List.mem_filter.mp hs).2

/-- … and, when the shard object was a healthy one, no directory either. -/
theorem procItem_removes_disk {o : Outcome} {q : QItem} {σ : St} (hd : o.del = .ok)
    (hp : q.sid ∉ σ.pending) (hidx : ∀ s ∈ σ.eng, s.sid = q.sid → s.idx = true)
    (hon : q.sid ∈ σ.disk → ∃ s ∈ σ.eng, s.sid = q.sid) : q.sid ∉ (procItem o q σ).disk := by
  intro hx
  have hx0 := procItem_disk_sub hx
  obtain ⟨s0, hs0, hs0id⟩ := hon hx0
  simp only [procItem] at hx
  have hr : delRes o.del q.sid σ.eng σ.pending = engDelRes q.sid σ.eng := by
    unfold delRes
    have : σ.pending.contains q.sid = false := by simpa using hp
    rw [this, hd]; simp
  rw [hr] at hx
  rcases engDelRes_cases q.sid σ.eng with ⟨_, h2⟩ | ⟨h1, _⟩ | ⟨_, s, hs, hsid, hi⟩
  · exact h2 s0 hs0 hs0id
  · rw [h1] at hx
    simp [delDisk] at hx
  · have := hidx s hs hsid
    rw [hi] at this; exact Bool.noConfusion this

/-- target of the liveness argument: the shard is gone from the store and marked in the catalogue. -/
def Removed (σ : St) (sid : Nat) : Prop :=
  (∀ s ∈ σ.eng, s.sid ≠ sid) ∧ (∀ g ∈ σ.cat, ∀ c ∈ g.shards, c.sid = sid → c.marked = true)

theorem Removed.procItem {σ : St} {sid : Nat} (h : Removed σ sid) (o : Outcome) (q : QItem) :
    Removed (procItem o q σ) sid := by
  constructor
  · intro s hs; exact h.1 s (mem_delEng (by simpa only [OG.C14.procItem] using hs))
  · intro g' hg' c' hc' hid
    obtain ⟨g, hg, c, hc, h1, _, h3⟩ := procItem_marks hg' hc'
    exact h3 (h.2 g hg c hc (h1 ▸ hid))

theorem Removed.procQ {σ : St} {sid : Nat} (h : Removed σ sid) (oc : Nat → Outcome) (Q : List QItem) :
    Removed (procQ oc Q σ) sid := by
  induction Q generalizing σ with
  | nil => exact h
  | cons q r ih => exact ih (h.procItem _ _)

theorem procItem_catStatic {o : Outcome} {q : QItem} {σ : St} (h : CatStatic σ.cat) :
    CatStatic (procItem o q σ).cat :=
  h.of_skel (fun g' hg' => by obtain ⟨g, hg, hs, _⟩ := procItem_cat_back hg'; exact ⟨g, hg, hs⟩)

/-- a loop in which every call succeeds removes every shard it was given. -/
theorem procQ_removes (oc : Nat → Outcome) (sid : Nat) : ∀ (Q : List QItem) (σ : St), CatStatic σ.cat →
    (∀ q ∈ Q, oc q.sid = .good) → sid ∉ σ.pending → (∃ q ∈ Q, q.sid = sid) →
    Removed (procQ oc Q σ) sid := by
  intro Q
  induction Q with
  | nil => intro σ _ _ _ h; obtain ⟨q, hq, _⟩ := h; simp at hq
  | cons q rest ih =>
    intro σ hst hgood hpend hex
    have hg : oc q.sid = .good := hgood q List.mem_cons_self
    simp only [procQ]
    by_cases hq : q.sid = sid
    · apply Removed.procQ
      rw [hg]
      constructor
      · intro s hs; rw [← hq]; exact procItem_removes rfl (hq ▸ hpend) s hs
      · intro g' hg' c hc hid
        exact procItem_prunes hst rfl g' hg' c hc (hid.trans hq.symm)
    · apply ih _ (procItem_catStatic hst) (fun q' hq' => hgood q' (List.mem_cons_of_mem _ hq'))
      · rw [procItem_pending (by rw [hg]; simp [Outcome.good])]; exact hpend
      · obtain ⟨q', hq', hs'⟩ := hex
        rcases List.mem_cons.mp hq' with rfl | hq'
        · exact absurd hs' hq
        · exact ⟨q', hq', hs'⟩

/-- the loop does not touch shards it was not given … -/
theorem procQ_eng_keep (oc : Nat → Outcome) : ∀ (Q : List QItem) (σ : St) (s : EShard), s ∈ σ.eng →
    (∀ q ∈ Q, q.sid ≠ s.sid) → s ∈ (procQ oc Q σ).eng := by
  intro Q
  induction Q with
  | nil => intro σ s hs _; exact hs
  | cons q rest ih =>
    intro σ s hs hne
    simp only [procQ]
    exact ih _ s (procItem_eng_keep hs (fun h => hne q List.mem_cons_self h.symm))
      (fun q' hq' => hne q' (List.mem_cons_of_mem _ hq'))

theorem procQ_disk_keep (oc : Nat → Outcome) : ∀ (Q : List QItem) (σ : St) (x : Nat), x ∈ σ.disk →
    (∀ q ∈ Q, q.sid ≠ x) → x ∈ (procQ oc Q σ).disk := by
  intro Q
  induction Q with
  | nil => intro σ x hx _; exact hx
  | cons q rest ih =>
    intro σ x hx hne
    simp only [procQ]
    exact ih _ x (procItem_disk_keep hx (fun h => hne q List.mem_cons_self h.symm))
      (fun q' hq' => hne q' (List.mem_cons_of_mem _ hq'))

/-- … nor groups none of the given shards points to. -/
theorem procQ_group_keep (oc : Nat → Outcome) : ∀ (Q : List QItem) (σ : St) (g : Group), g ∈ σ.cat →
    g.deleted = false → (∀ q ∈ Q, q.gid ≠ g.gid) →
    ∃ g' ∈ (procQ oc Q σ).cat, Skel g' g ∧ g'.deleted = false := by
  intro Q
  induction Q with
  | nil => intro σ g hg hl _; exact ⟨g, hg, Skel.refl g, hl⟩
  | cons q rest ih =>
    intro σ g hg hl hne
    simp only [procQ]
    obtain ⟨g1, hg1, hs1, hl1⟩ := procItem_cat_keep (o := oc q.sid) (q := q) hg hl
      (fun h => hne q List.mem_cons_self h.2.symm)
    obtain ⟨g2, hg2, hs2, hl2⟩ := ih _ g1 hg1 hl1 (fun q' hq' => by
      rw [hs1.1]; exact hne q' (List.mem_cons_of_mem _ hq'))
    exact ⟨g2, hg2, hs2.trans hs1, hl2⟩

/-- marks of shards the loop was not given stay as they were (exact pruning). -/
theorem procQ_disk_sub (oc : Nat → Outcome) : ∀ (Q : List QItem) (σ : St) (x : Nat),
    x ∈ (procQ oc Q σ).disk → x ∈ σ.disk := by
  intro Q
  induction Q with
  | nil => intro σ x hx; exact hx
  | cons q rest ih => intro σ x hx; exact procItem_disk_sub (ih _ x hx)

/-! ### the head of a run -/

theorem runHead_eq {sc : Script} {σ : St} (hidle : σ.phase = .idle) (hrf : sc.refreshOk = true) :
    steps σ (runHead sc) =
      collect (match sc.alterMid with
        | some d => { refreshOk σ with metaDur := d }
        | none => refreshOk σ) := by
  unfold runHead
  rw [hrf]
  have h1 : step σ (.refresh true) = refreshOk σ := by simp only [step, hidle, ↓reduceIte]
  cases sc.alterMid with
  | none =>
    simp only [List.append_nil, List.singleton_append, steps, List.foldl_cons, List.foldl_nil, h1]
    simp only [step, refreshOk]
  | some d =>
    simp only [List.cons_append, List.nil_append, steps, List.foldl_cons, List.foldl_nil, h1]
    simp only [step, refreshOk]

theorem runHead_ok {sc : Script} {σ : St} (hidle : σ.phase = .idle) (hrf : sc.refreshOk = true) :
    (steps σ (runHead sc)).queue = sortQ (expiredShards σ.clock (refreshOk σ).eng (refreshOk σ).nilMap) ∧
    (steps σ (runHead sc)).cat = σ.cat ∧ (steps σ (runHead sc)).eng = (refreshOk σ).eng ∧
    (steps σ (runHead sc)).disk = σ.disk ∧ (steps σ (runHead sc)).pending = σ.pending ∧
    (steps σ (runHead sc)).clock = σ.clock ∧ (steps σ (runHead sc)).log = σ.log ∧
    ((steps σ (runHead sc)).queue ≠ [] → (steps σ (runHead sc)).phase = .processing) := by
  rw [runHead_eq hidle hrf]
  cases sc.alterMid with
  | none =>
    refine ⟨rfl, rfl, rfl, rfl, rfl, rfl, rfl, ?_⟩
    intro hne
    simp only [collect] at hne ⊢
    simp only [List.isEmpty_iff, hne, ↓reduceIte]
  | some d =>
    refine ⟨rfl, rfl, rfl, rfl, rfl, rfl, rfl, ?_⟩
    intro hne
    simp only [collect] at hne ⊢
    simp only [List.isEmpty_iff, hne, ↓reduceIte]

theorem runHead_fail {sc : Script} {σ : St} (hidle : σ.phase = .idle) (hrf : sc.refreshOk = false) :
    (steps σ (runHead sc)).queue = σ.queue ∧ (steps σ (runHead sc)).cat = σ.cat ∧
    (steps σ (runHead sc)).eng = σ.eng ∧ (steps σ (runHead sc)).disk = σ.disk ∧
    (steps σ (runHead sc)).pending = σ.pending ∧ (steps σ (runHead sc)).log = σ.log ∧
    (steps σ (runHead sc)).phase = .idle := by
  unfold runHead
  rw [hrf]
  have h1 : step σ (.refresh false) = σ := by simp only [step, hidle]; rfl
  cases sc.alterMid with
  | none =>
    simp only [List.append_nil, List.singleton_append, steps, List.foldl_cons, List.foldl_nil, h1]
    simp [step, hidle]
  | some d =>
    simp only [List.cons_append, List.nil_append, steps, List.foldl_cons, List.foldl_nil, h1]
    simp [step, hidle]

theorem run_core (sc : Script) (σ : St)
    (hph : (steps σ (runHead sc)).queue ≠ [] → (steps σ (runHead sc)).phase = .processing) :
    Core (run sc σ) = Core (procQ sc.outcome (steps σ (runHead sc)).queue (steps σ (runHead sc))) := by
  unfold run runOps
  rw [steps_append]
  exact steps_procs sc.outcome _ _ rfl hph

/-! ### monotone parts of the state; losses over many steps -/

theorem log_mono {σ : St} (op : Op) {e : Ev} (h : e ∈ σ.log) : e ∈ (step σ op).log := by
  cases op with
  | tick dt => simp only [OG.C14.step]; split <;> exact h
  | alter d => exact h
  | load sid =>
    simp only [OG.C14.step, loadShard]
    split
    · exact h
    · split <;> exact h
  | close sid => exact h
  | refresh ok =>
    simp only [OG.C14.step]
    split
    · split <;> exact h
    · exact h
  | collect => simp only [OG.C14.step]; split <;> exact h
  | proc o =>
    simp only [OG.C14.step]
    split
    · simp only [procItem]; exact List.mem_append_right _ h
    · exact h
  | complete => simp only [OG.C14.step]; rw [completeAll_log]; exact h

theorem steps_log_mono {σ : St} (ops : List Op) {e : Ev} (h : e ∈ σ.log) : e ∈ (steps σ ops).log := by
  induction ops generalizing σ with
  | nil => exact h
  | cons op r ih => exact ih (log_mono op h)

theorem PendInv.steps {σ : St} (h : PendInv σ) (ops : List Op) : PendInv (steps σ ops) := by
  induction ops generalizing σ with
  | nil => exact h
  | cons op r ih => exact ih (h.step op)

theorem EngUniq.steps {σ : St} (h : EngUniq σ) (ops : List Op) : EngUniq (steps σ ops) := by
  induction ops generalizing σ with
  | nil => exact h
  | cons op r ih => exact ih (h.step op)

/-- a shard object that is in the store now and not after `ops` left through a recorded delete. -/
theorem shard_loss_recorded {σ : St} (hp : PendInv σ) (ops : List Op) (sid : Nat)
    (hin : ∃ s ∈ σ.eng, s.sid = sid) (hout : ∀ s ∈ (steps σ ops).eng, s.sid ≠ sid) :
    ∃ e ∈ (steps σ ops).log, e.kind = .deletedShard ∧ e.id = sid := by
  induction ops generalizing σ with
  | nil =>
    obtain ⟨s, hs, hsid⟩ := hin
    exact absurd hsid (hout s hs)
  | cons op r ih =>
    by_cases hmid : ∃ s ∈ (step σ op).eng, s.sid = sid
    · exact ih (hp.step op) hmid hout
    · obtain ⟨s, hs, rfl⟩ := hin
      obtain ⟨e, he, hh⟩ := shard_leaves_logged hp op s hs (fun s' hs' hsid => hmid ⟨s', hs', hsid⟩)
      exact ⟨e, steps_log_mono r he, hh⟩

/-- a group that is live now and has no live successor after `ops` was marked by a recorded call. -/
theorem group_loss_recorded {σ : St} (ops : List Op) (gid : Nat)
    (hin : ∃ g ∈ σ.cat, g.gid = gid ∧ g.deleted = false)
    (hout : ∀ g' ∈ (steps σ ops).cat, g'.gid = gid → g'.deleted = true) :
    ∃ e ∈ (steps σ ops).log, e.kind = .markedGroup ∧ e.id = gid := by
  induction ops generalizing σ with
  | nil =>
    obtain ⟨g, hg, hgid, hl⟩ := hin
    have := hout g hg hgid
    rw [hl] at this; exact Bool.noConfusion this
  | cons op r ih =>
    by_cases hmid : ∃ g ∈ (step σ op).cat, g.gid = gid ∧ g.deleted = false
    · exact ih hmid hout
    · obtain ⟨g, hg, rfl, hl⟩ := hin
      obtain ⟨e, he, hh⟩ := group_marked_logged op g hg hl (fun g' hg' hgid => by
        cases hd : g'.deleted
        · exact absurd ⟨g', hg', hgid, hd⟩ hmid
        · rfl)
      exact ⟨e, steps_log_mono r he, hh⟩

theorem GI.steps {cat0 : List Group} {σ : St} (hw : WF σ) (h : GI cat0 σ) (ops : List Op) :
    GI cat0 (steps σ ops) := by
  induction ops generalizing σ with
  | nil => exact h
  | cons op r ih => exact ih (hw.step op) (h.step hw op)

theorem GI.self (σ : St) : GI σ.cat σ :=
  fun g0 hg0 hd => Or.inl ⟨g0, hg0, rfl, rfl, rfl, hd⟩

/-! ### pruning marks nothing but the shard it is asked to (ids of a group consecutive) -/

/-- the ids of a group are consecutive (they are allocated with `MaxShardID++` in one loop):
every id between the first and the last is an id of the group. -/
def NoHoles (g : Group) : Prop :=
  ∀ f l, g.shards.head? = some f → g.shards.getLast? = some l → ∀ id, f.sid ≤ id → id ≤ l.sid → id ∈ g.sids

theorem markFirstGE_only {id : Nat} {l : List CShard} (hs : (l.map (·.sid)).Pairwise (· < ·))
    (hin : id ∈ l.map (·.sid)) : ∀ c' ∈ markFirstGE id l,
      ∃ c ∈ l, c'.sid = c.sid ∧ c'.mine = c.mine ∧ (c'.marked = c.marked ∨ c'.sid = id) := by
  induction l with
  | nil => simp at hin
  | cons a r ih =>
    intro c' h
    simp only [List.map_cons, List.pairwise_cons] at hs
    simp only [List.map_cons, List.mem_cons] at hin
    simp only [markFirstGE] at h
    split at h
    · rename_i hle
      have ha : a.sid = id := by
        rcases hin with h1 | h1
        · exact h1.symm
        · have : a.sid < id := hs.1 id h1
          omega
      rcases List.mem_cons.mp h with rfl | h
      · refine ⟨a, List.mem_cons_self, ?_⟩
        split
        · exact ⟨rfl, rfl, Or.inr ha⟩
        · exact ⟨rfl, rfl, Or.inl rfl⟩
      · exact ⟨c', List.mem_cons_of_mem _ h, rfl, rfl, Or.inl rfl⟩
    · rename_i hle
      rcases List.mem_cons.mp h with rfl | h
      · exact ⟨c', List.mem_cons_self, rfl, rfl, Or.inl rfl⟩
      · have hin' : id ∈ r.map (·.sid) := by
          rcases hin with h1 | h1
          · omega
          · exact h1
        obtain ⟨c, hc, hh⟩ := ih hs.2 hin' c' h
        exact ⟨c, List.mem_cons_of_mem _ hc, hh⟩

theorem pruneGroup_only (id : Nat) (g : Group) (hs : g.sids.Pairwise (· < ·)) (hnh : NoHoles g) :
    ∀ c' ∈ (pruneGroup id g).shards,
      ∃ c ∈ g.shards, c'.sid = c.sid ∧ c'.mine = c.mine ∧ (c'.marked = c.marked ∨ c'.sid = id) := by
  intro c' h
  unfold pruneGroup at h
  split at h
  · rename_i f l hf hl
    split at h
    · rename_i hguard
      simp only [Bool.and_eq_true, decide_eq_true_eq] at hguard
      exact markFirstGE_only hs (hnh f l hf hl id hguard.1 hguard.2) c' h
    · exact ⟨c', h, rfl, rfl, Or.inl rfl⟩
  · exact ⟨c', h, rfl, rfl, Or.inl rfl⟩

/-- one loop iteration changes the `MarkDelete` flag of no catalogue entry but the reported shard's. -/
theorem procItem_marks_only {o : Outcome} {q : QItem} {σ : St} (hst : CatStatic σ.cat)
    (hnh : ∀ g ∈ σ.cat, NoHoles g) {g' : Group} {c' : CShard}
    (hg' : g' ∈ (procItem o q σ).cat) (hc' : c' ∈ g'.shards) :
    ∃ g ∈ σ.cat, ∃ c ∈ g.shards, c'.sid = c.sid ∧ c'.mine = c.mine ∧ (c'.marked = c.marked ∨ c'.sid = q.sid) := by
  simp only [procItem] at hg'
  have h2 : ∃ g1 ∈ markStage o.markOk q.gid σ.cat, ∃ c ∈ g1.shards, c'.sid = c.sid ∧ c'.mine = c.mine ∧
      (c'.marked = c.marked ∨ c'.sid = q.sid) := by
    unfold pruneStage at hg'
    split at hg'
    · unfold pruneCat at hg'
      obtain ⟨hm, _⟩ := List.mem_filter.mp hg'
      obtain ⟨g1, hg1, rfl⟩ := List.mem_map.mp hm
      obtain ⟨g, hg, hsk, hsh, _⟩ := mem_markStage hg1
      have hs1 : g1.sids.Pairwise (· < ·) := by rw [hsk.2.2.2]; exact (hst g hg).2
      have hn1 : NoHoles g1 := by
        intro f l hf hl id h1 h2
        rw [hsk.2.2.2]
        exact hnh g hg f l (hsh ▸ hf) (hsh ▸ hl) id h1 h2
      obtain ⟨c, hc, hh⟩ := pruneGroup_only q.sid g1 hs1 hn1 c' hc'
      exact ⟨g1, hg1, c, hc, hh⟩
    · exact ⟨g', hg', c', hc', rfl, rfl, Or.inl rfl⟩
  obtain ⟨g1, hg1, c, hc, hh⟩ := h2
  obtain ⟨g, hg, _, hsh, _⟩ := mem_markStage hg1
  exact ⟨g, hg, c, hsh ▸ hc, hh⟩

theorem WF.steps {σ : St} (h : WF σ) (ops : List Op) : WF (steps σ ops) := by
  induction ops generalizing σ with
  | nil => exact h
  | cons op r ih => exact ih (h.step op)

end OG.C14
