/-
C14 — a prune removes from the schema only fields that were never written into a shard group
ending 2^32 ns (≈ 4.3 s) or more after the pruned one; so a measurement is marked deleted only
when all its data lies in groups at most as young as the group retention has just removed.
-/
import OG.C14.Schema

namespace OG.C14.Sc

/-- `upd f e` leaves an entry named `f` that holds at least `e`. -/
theorem upd_self (f : Nat) (e : Int) (s : List Fld) : ∃ x ∈ upd f e s, x.name = f ∧ e ≤ x.endHi := by
  induction s with
  | nil => exact ⟨⟨f, e⟩, by simp [upd], rfl, Int.le_refl _⟩
  | cons a r ih =>
    simp only [upd]
    split
    · rename_i ha
      have han : a.name = f := by simpa using ha
      split
      · exact ⟨⟨f, e⟩, List.mem_cons_self, rfl, Int.le_refl _⟩
      · rename_i hlt
        exact ⟨a, List.mem_cons_self, han, by omega⟩
    · obtain ⟨x, hx, h1, h2⟩ := ih
      exact ⟨x, List.mem_cons_of_mem _ hx, h1, h2⟩

/-- no `upd` lowers what an entry of a given name holds. -/
theorem upd_mono (g : Nat) (e' : Int) {f : Nat} {v : Int} {s : List Fld}
    (h : ∃ x ∈ s, x.name = f ∧ v ≤ x.endHi) : ∃ x ∈ upd g e' s, x.name = f ∧ v ≤ x.endHi := by
  induction s with
  | nil => obtain ⟨x, hx, _⟩ := h; exact absurd hx List.not_mem_nil
  | cons a r ih =>
    obtain ⟨x, hx, h1, h2⟩ := h
    simp only [upd]
    split
    · rename_i ha
      have han : a.name = g := by simpa using ha
      split
      · rename_i hlt
        rcases List.mem_cons.mp hx with rfl | hx
        · exact ⟨⟨g, e'⟩, List.mem_cons_self, by rw [← han, h1], by show v ≤ e'; omega⟩
        · exact ⟨x, List.mem_cons_of_mem _ hx, h1, h2⟩
      · exact ⟨x, hx, h1, h2⟩
    · rcases List.mem_cons.mp hx with rfl | hx
      · exact ⟨x, List.mem_cons_self, h1, h2⟩
      · obtain ⟨y, hy, g1, g2⟩ := ih ⟨x, hx, h1, h2⟩
        exact ⟨y, List.mem_cons_of_mem _ hy, g1, g2⟩

theorem foldl_keeps (ws : List (Nat × Int)) {f : Nat} {v : Int} : ∀ (s : List Fld),
    (∃ x ∈ s, x.name = f ∧ v ≤ x.endHi) →
    ∃ x ∈ ws.foldl (fun s w => upd w.1 (hi w.2) s) s, x.name = f ∧ v ≤ x.endHi := by
  induction ws with
  | nil => intro s h; exact h
  | cons w r ih => intro s h; exact ih _ (upd_mono w.1 (hi w.2) h)

/-- **schema_end_covers_every_write**: after any sequence of schema updates, a field holds at
least the (high 32 bits of the) end of every shard group it was written to. -/
theorem schema_end_covers_every_write (ws : List (Nat × Int)) (f : Nat) (e : Int) (h : (f, e) ∈ ws) :
    ∃ x ∈ schemaOf ws, x.name = f ∧ hi e ≤ x.endHi := by
  unfold schemaOf
  suffices H : ∀ (s : List Fld), ∃ x ∈ ws.foldl (fun s w => upd w.1 (hi w.2) s) s, x.name = f ∧ hi e ≤ x.endHi from H []
  induction ws with
  | nil => exact absurd h List.not_mem_nil
  | cons w r ih =>
    intro s
    rcases List.mem_cons.mp h with rfl | h
    · exact foldl_keeps r _ (upd_self _ _ s)
    · exact ih h _

/-- **field_of_newer_group_survives**: a field that was written into a shard group whose end lies
in a later 2^32-ns slot than the pruned end stays in the schema. -/
theorem field_of_newer_group_survives (ws : List (Nat × Int)) (f : Nat) (e E : Int) (h : (f, e) ∈ ws)
    (hnew : hi E < hi e) : ∃ x ∈ clean (schemaOf ws) E, x.name = f := by
  obtain ⟨x, hx, h1, h2⟩ := schema_end_covers_every_write ws f e h
  refine ⟨x, ?_, h1⟩
  unfold clean
  exact List.mem_filter.mpr ⟨hx, by simp; omega⟩

theorem hi_le_imp (e E : Int) (h : hi e ≤ hi E) : e < E + two32 := by
  unfold hi two32 at *
  have h1 := Int.emod_add_mul_ediv e 4294967296
  have h2 := Int.emod_add_mul_ediv E 4294967296
  have h3 := Int.emod_lt_of_pos e (by decide : (0 : Int) < 4294967296)
  have h4 := Int.emod_nonneg E (by decide : (4294967296 : Int) ≠ 0)
  omega

/-- **measurement_marked_only_if_all_old**: `SchemaClean` leaves no field (the measurement is then
marked deleted) only if every write the measurement ever saw went into a shard group ending less
than 2^32 ns after the pruned end — with shard groups at least an hour long: into groups that
end no later than the pruned (expired) one. -/
theorem measurement_marked_only_if_all_old (ws : List (Nat × Int)) (E : Int)
    (h : markedDeleted (schemaOf ws) E = true) : ∀ w ∈ ws, hi w.2 ≤ hi E ∧ w.2 < E + two32 := by
  intro w hw
  have hle : hi w.2 ≤ hi E := by
    apply Int.not_lt.mp
    intro hlt
    obtain ⟨x, hx, _⟩ := field_of_newer_group_survives ws w.1 w.2 E (by simpa using hw) hlt
    unfold markedDeleted at h
    rw [List.isEmpty_iff.mp h] at hx
    exact absurd hx List.not_mem_nil
  exact ⟨hle, hi_le_imp _ _ hle⟩

def hourNs : Int := 3600 * 1000000000

/-- fields 1, 2 written to the group ending at hour 10; field 2 also to the group ending at hour
11: pruning the first group removes field 1 only; pruning the second one marks the measurement. -/
example : (clean (schemaOf [(1, 10 * hourNs), (2, 10 * hourNs), (2, 11 * hourNs)]) (10 * hourNs)).map (·.name) = [2] ∧
    markedDeleted (schemaOf [(1, 10 * hourNs), (2, 10 * hourNs), (2, 11 * hourNs)]) (10 * hourNs) = false ∧
    markedDeleted (schemaOf [(1, 10 * hourNs), (2, 10 * hourNs), (2, 11 * hourNs)]) (11 * hourNs) = true := by decide

end OG.C14.Sc
