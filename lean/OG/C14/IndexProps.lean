/-
C14 — property theorems of the index side ("retention removes only data that has expired",
for the index builders the shards of the store hold).

`IxBuilder`, `ixSetDuration`, `ixExpired`, `ixExpiredCache` are the definitions ogfacts regenerates
from engine/index/tsi/index_builder.go on every run; the machine is `OG.C14.Ix` (`Index.lean`),
tied to the code by the `x` stream of the correspondence run.
-/
import OG.C14.IndexInvF

namespace OG.C14.Ix
open OG.C14

/-! ## 1. the expiry test and the setter -/

/-- **index_expired_iff** (`(*IndexBuilder).Expired`): 0 = unlimited never expires; otherwise
the index expires when its (index group's) end plus the duration lies strictly before now. -/
theorem index_expired_iff (now : Int) (b : IxBuilder) :
    ixExpired now b = true ↔ b.duration ≠ 0 ∧ b.endTime + b.duration < now :=
  ixExpired_iff now b

theorem index_unlimited_never (now : Int) (b : IxBuilder) (h : b.duration = 0) : ixExpired now b = false := by
  cases he : ixExpired now b
  · rfl
  · exact absurd h ((index_expired_iff now b).mp he).1

/-- the cache of an index is cleared only under a limited policy and only after the index
group's end plus its own length (`ExpiredCache`; nothing is deleted by it). -/
theorem index_cache_expired_iff (now : Int) (b : IxBuilder) :
    ixExpiredCache now b = true ↔ b.duration ≠ 0 ∧ b.endTime + b.cacheDuration < now :=
  ixExpiredCache_iff now b

example : ixExpired 101 ⟨50, 50, 10, 0⟩ = true ∧ ixExpired 100 ⟨50, 50, 10, 0⟩ = false ∧
    ixExpired 100000 ⟨0, 50, 10, 0⟩ = false := by decide

/-- **alter_takes_effect_on_index**, the setter: whatever the builder held before and whatever
the new duration is (0 = unlimited included), after `SetDuration d` the builder's duration is `d`,
and its end is untouched. -/
theorem alter_takes_effect_on_index (b : IxBuilder) (d : Int) :
    (ixSetDuration b d).duration = d ∧ (ixSetDuration b d).endTime = b.endTime :=
  ⟨ixSetDuration_duration b d, ixSetDuration_endTime b d⟩

/-- … and through the service: the index side of the refresh leaves every builder whose index
the catalogue lists with exactly the policy's duration, for every duration and every previous
value. -/
theorem refresh_takes_effect_on_index {σ : St} (hp : σ.phase = .half) {x : XIndex} (hx : x ∈ σ.idxs)
    {c : CIx} (hc : c ∈ σ.ci) (hi : c.iid = x.iid) :
    ∃ x' ∈ (step σ (.refreshI true)).idxs, x'.iid = x.iid ∧ x'.b.duration = σ.metaDur ∧ x'.b.endTime = x.b.endTime := by
  refine ⟨updIndexI (iInfos σ.ci σ.metaDur) x, ?_, updIndexI_iid _ _, ?_, updIndexI_endTime _ _⟩
  · simp only [step, hp, refreshI, if_true]
    exact List.mem_map_of_mem hx
  · unfold updIndexI
    split
    · rename_i i hfi
      have := mem_iInfos (List.mem_of_find?_eq_some hfi)
      show (ixSetDuration x.b i.dur).duration = σ.metaDur
      rw [ixSetDuration_duration]
      exact this
    · -- the catalogue lists the index: `find?` cannot have failed
      rename_i hnone
      exfalso
      have hmem : (⟨c.iid, c.igid, c.startT, c.endT, σ.metaDur⟩ : IInfo) ∈ iInfos σ.ci σ.metaDur :=
        List.mem_map_of_mem (f := fun c => (⟨c.iid, c.igid, c.startT, c.endT, σ.metaDur⟩ : IInfo)) hc
      have := List.find?_eq_none.mp hnone _ hmem
      simp [hi] at this

example : (ixSetDuration ⟨3600, 50, 10, 0⟩ 0).duration = 0 ∧ (ixSetDuration ⟨0, 50, 10, 0⟩ 7200).duration = 7200 ∧
    (ixSetDuration ⟨3600, 50, 10, 0⟩ 60).duration = 60 := by decide

/-! ## 2. every history: an index goes only when nothing alive holds it -/

/-- **no_live_shard_loses_index**: start from any catalogue in which no shard group ends after
the index group its shards are assigned to, and run any sequence of ticks, policy alterations,
shard creations / closings, refresh calls (reaching meta or not, with alterations in between),
expiry checks and loop iterations with any failure script.  Every destructive action on an index
(catalogue mark, deletion from the store, prune) was decided by a passed expiry test
(`d ≠ 0`, `end + d < now`), every shard object that held the index at that moment was expired
under that same duration — so the only shards that can outlive their index are expired ones whose
own deletion failed —, and if this run's refresh had reached the builder, `d` is the duration
meta handed out in this run. -/
theorem no_live_shard_loses_index (clock d : Int) (cs : List CSh) (ci : List CIx) (hal : AlignedCat cs ci)
    (ops : List Op) (ev : Ev) (hev : ev ∈ (steps (St.init clock d cs ci) ops).log) (hk : ev.kind ≠ .delShard) :
    ev.d ≠ 0 ∧ ev.endT + ev.d < ev.now ∧ (∀ u ∈ ev.users, u.2 + ev.d < ev.now) ∧
    (ev.fresh = true → ev.d = ev.refD) := by
  have hA := ((InvA.init clock d hal).steps ops).logOk ev hev hk
  have hF := ((InvF.init clock d cs ci).steps ops).logF ev hev hk
  exact ⟨hA.1.1, hA.1.2.1, hA.1.2.2, hF⟩

/-- **unlimited_never_deletes**: over every history, an index whose builder this run's refresh
reached under an unlimited policy (meta handed out 0) is neither marked, deleted nor pruned. -/
theorem unlimited_never_deletes (clock d : Int) (cs : List CSh) (ci : List CIx) (hal : AlignedCat cs ci)
    (ops : List Op) (ev : Ev) (hev : ev ∈ (steps (St.init clock d cs ci) ops).log) (hk : ev.kind ≠ .delShard)
    (hf : ev.fresh = true) : ev.refD ≠ 0 := by
  obtain ⟨h1, _, _, h4⟩ := no_live_shard_loses_index clock d cs ci hal ops ev hev hk
  rw [← h4 hf]
  exact h1

/-- where a builder can go: if the store holds a builder for index `x.iid` before a step and none
after it, the step was the index-loop iteration for that index, the delete ran, and the record
with the users of that moment is in the log. -/
theorem index_loss_recorded {σ : St} (op : Op) {x : XIndex} (hx : x ∈ σ.idxs)
    (hgone : ∀ x' ∈ (step σ op).idxs, x'.iid ≠ x.iid) :
    ∃ ev ∈ (step σ op).log, ev.kind = .delIndex ∧ ev.id = x.iid ∧ ev.now = σ.clock ∧
      ev.users = usersOf x.iid σ.shards := by
  have keep : (∃ x' ∈ (step σ op).idxs, x'.iid = x.iid) → False := fun ⟨x', h1, h2⟩ => hgone x' h1 h2
  cases op with
  | tick dt => exact (keep ⟨x, by simp only [step]; split <;> exact hx, rfl⟩).elim
  | alter d => exact (keep ⟨x, hx, rfl⟩).elim
  | load sid =>
    refine (keep ⟨x, ?_, rfl⟩).elim
    simp only [step]
    unfold loadShard
    split
    · exact hx
    · split
      · exact hx
      · split
        · exact hx
        · split
          · exact hx
          · exact List.mem_append_left _ hx
  | close sid => exact (keep ⟨x, hx, rfl⟩).elim
  | refreshS ok =>
    refine (keep ?_).elim
    simp only [step]
    split
    · split
      · exact ⟨_, List.mem_map_of_mem (List.mem_map_of_mem hx), by rw [updIndexS_iid]⟩
      · exact ⟨_, List.mem_map_of_mem hx, rfl⟩
    · exact ⟨x, hx, rfl⟩
  | refreshI ok =>
    refine (keep ?_).elim
    simp only [step]
    split
    · split
      · exact ⟨_, List.mem_map_of_mem hx, updIndexI_iid _ _⟩
      · exact ⟨x, hx, rfl⟩
    · exact ⟨x, hx, rfl⟩
  | collectS => exact (keep ⟨x, by simp only [step]; split <;> exact hx, rfl⟩).elim
  | procS o =>
    refine (keep ⟨x, ?_, rfl⟩).elim
    simp only [step]
    split
    · simp only [procS]; exact hx
    · exact hx
  | collectI => exact (keep ⟨x, by simp only [step]; split <;> exact hx, rfl⟩).elim
  | procI o =>
    simp only [step] at hgone ⊢
    split at hgone
    · rename_i q rest hp hq
      simp only [procI] at hgone ⊢
      by_cases hg : delIRes o q.iid σ.idxs = .ok
      · simp only [hg, if_true] at hgone ⊢
        by_cases hqi : x.iid = q.iid
        · refine ⟨⟨.delIndex, q.iid, q.endT, q.dUsed, σ.clock, q.fresh, σ.refI, usersOf q.iid σ.shards⟩, ?_, rfl, hqi.symm, rfl, by rw [hqi]⟩
          simp
        · exact (hgone x (List.mem_filter.mpr ⟨hx, by simpa using hqi⟩) rfl).elim
      · simp only [hg, if_false] at hgone
        exact (hgone x hx rfl).elim
    · exact (hgone x hx rfl).elim
  | cache => exact (keep ⟨x, by simp only [step]; split <;> exact hx, rfl⟩).elim

end OG.C14.Ix
