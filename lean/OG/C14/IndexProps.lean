/-
C14 — property theorems of the index side ("retention removes only data that has expired",
for the index builders the shards of the store hold).

`IxBuilder`, `ixSetDuration`, `ixExpired`, `ixExpiredCache` are the definitions ogfacts regenerates
from engine/index/tsi/index_builder.go on every run; the machine is `OG.C14.Ix` (`Index.lean`),
tied to the code by the `x` stream of the correspondence run.
-/
import OG.C14.IndexRun

namespace OG.C14.Ix
open OG.C14

/-! ## 1. the expiry test and the setter -/

/-- **index_expired_iff** (`(*IndexBuilder).Expired`): 0 = unlimited never expires; otherwise
the index expires when its (index group's) end plus the duration lies strictly before now. -/
theorem index_expired_iff (now : Int) (b : IxBuilder) :
    ixExpired now b = true ↔ b.duration ≠ 0 ∧ b.endTime + b.duration < now :=
  ixExpired_iff now b

theorem index_unlimited_never (now : Int) (b : IxBuilder) (h : b.duration = 0) : ixExpired now b = false := by
  cases he : ixExpired now b
  · rfl
  · exact absurd h ((index_expired_iff now b).mp he).1

/-- the cache of an index is cleared only under a limited policy and only after the index
group's end plus its own length (`ExpiredCache`; nothing is deleted by it). -/
theorem index_cache_expired_iff (now : Int) (b : IxBuilder) :
    ixExpiredCache now b = true ↔ b.duration ≠ 0 ∧ b.endTime + b.cacheDuration < now :=
  ixExpiredCache_iff now b

/-- **index_expired_iff_int64**: for every int64 clock reading, index end and duration the test of
the code equals the statement over ℤ (see `expired_iff_int64`). -/
theorem index_expired_iff_int64 (now : Int) (b : IxBuilder) (_hn : InI64 now) (_hd : InI64 b.duration) (_he : InI64 b.endTime) :
    ixExpired now b = true ↔ b.duration ≠ 0 ∧ b.endTime + b.duration < now :=
  ixExpired_iff now b

example : ixExpired 1790000000000000000 ⟨99999 * 86400000000000, 1790000000000000000 - 3600000000000, 10, 0⟩ = false ∧
    ixExpired 1790000000000000000 ⟨9223372036854775807, 1790000000000000000 - 3600000000000, 10, 0⟩ = false ∧
    ixExpired 1790000000000000000 ⟨1, 1790000000000000000 - 3600000000000, 10, 0⟩ = true := by decide

example : ixExpired 101 ⟨50, 50, 10, 0⟩ = true ∧ ixExpired 100 ⟨50, 50, 10, 0⟩ = false ∧
    ixExpired 100000 ⟨0, 50, 10, 0⟩ = false := by decide

/-- **alter_takes_effect_on_index**, the setter: whatever the builder held before and whatever
the new duration is (0 = unlimited included), after `SetDuration d` the builder's duration is `d`,
and its end is untouched. -/
theorem alter_takes_effect_on_index (b : IxBuilder) (d : Int) :
    (ixSetDuration b d).duration = d ∧ (ixSetDuration b d).endTime = b.endTime :=
  ⟨ixSetDuration_duration b d, ixSetDuration_endTime b d⟩

/-- … and through the service: the index side of the refresh leaves every builder whose index
the catalogue lists with exactly the policy's duration, for every duration and every previous
value. -/
theorem refresh_takes_effect_on_index {σ : St} (hp : σ.phase = .half) {x : XIndex} (hx : x ∈ σ.idxs)
    {c : CIx} (hc : c ∈ σ.ci) (hi : c.iid = x.iid) :
    ∃ x' ∈ (step σ (.refreshI true)).idxs, x'.iid = x.iid ∧ x'.b.duration = σ.metaDur ∧ x'.b.endTime = x.b.endTime := by
  refine ⟨updIndexI (iInfos σ.ci σ.metaDur) x, ?_, updIndexI_iid _ _, ?_, updIndexI_endTime _ _⟩
  · simp only [step, hp, refreshI, if_true]
    exact List.mem_map_of_mem hx
  · unfold updIndexI
    split
    · rename_i i hfi
      have := mem_iInfos (List.mem_of_find?_eq_some hfi)
      show (ixSetDuration x.b i.dur).duration = σ.metaDur
      rw [ixSetDuration_duration]
      exact this
    · -- the catalogue lists the index: `find?` cannot have failed
      rename_i hnone
      exfalso
      have hmem : (⟨c.iid, c.igid, c.startT, c.endT, σ.metaDur⟩ : IInfo) ∈ iInfos σ.ci σ.metaDur :=
        List.mem_map_of_mem (f := fun c => (⟨c.iid, c.igid, c.startT, c.endT, σ.metaDur⟩ : IInfo)) hc
      have := List.find?_eq_none.mp hnone _ hmem
      simp [hi] at this

example : (ixSetDuration ⟨3600, 50, 10, 0⟩ 0).duration = 0 ∧ (ixSetDuration ⟨0, 50, 10, 0⟩ 7200).duration = 7200 ∧
    (ixSetDuration ⟨3600, 50, 10, 0⟩ 60).duration = 60 := by decide

/-! ## 2. every history: an index goes only when nothing alive holds it -/

/-- **no_live_shard_loses_index**: start from any catalogue in which no shard group ends after
the index group its shards are assigned to, and run any sequence of ticks, policy alterations,
shard creations / closings, refresh calls (reaching meta or not, with alterations in between),
expiry checks and loop iterations with any failure script.  Every destructive action on an index
(catalogue mark, deletion from the store, prune) was decided by a passed expiry test
(`d ≠ 0`, `end + d < now`), every shard object that held the index at that moment was expired
under that same duration — so the only shards that can outlive their index are expired ones whose
own deletion failed —, and if this run's refresh had reached the builder, `d` is the duration
meta handed out in this run. -/
theorem no_live_shard_loses_index (clock d : Int) (cs : List CSh) (ci : List CIx) (hal : AlignedCat cs ci)
    (ops : List Op) (ev : Ev) (hev : ev ∈ (steps (St.init clock d cs ci) ops).log) (hk : ev.kind ≠ .delShard) :
    ev.d ≠ 0 ∧ ev.endT + ev.d < ev.now ∧ (∀ u ∈ ev.users, u.2 + ev.d < ev.now) ∧
    (ev.fresh = true → ev.d = ev.refD) := by
  have hA := ((InvA.init clock d hal).steps ops).logOk ev hev hk
  have hF := ((InvF.init clock d cs ci).steps ops).logF ev hev hk
  exact ⟨hA.1, hA.2.1, hA.2.2, hF⟩

/-- **unlimited_never_deletes**: over every history, an index whose builder this run's refresh
reached under an unlimited policy (meta handed out 0) is neither marked, deleted nor pruned. -/
theorem unlimited_never_deletes (clock d : Int) (cs : List CSh) (ci : List CIx) (hal : AlignedCat cs ci)
    (ops : List Op) (ev : Ev) (hev : ev ∈ (steps (St.init clock d cs ci) ops).log) (hk : ev.kind ≠ .delShard)
    (hf : ev.fresh = true) : ev.refD ≠ 0 := by
  obtain ⟨h1, _, _, h4⟩ := no_live_shard_loses_index clock d cs ci hal ops ev hev hk
  rw [← h4 hf]
  exact h1

/-- **index_waits_for_live_shards** (any catalogue — no alignment assumed, so also for a shard
group that outlives its index group, which `ALTER RETENTION POLICY … SHARD DURATION` can produce):
over every history, a builder of the partition is marked / deleted / pruned only if every shard
object that worked with it when `ExpiredIndexes` ran had itself expired, by its own duration, at
that clock reading.  (`ExpiredIndexes` skips an expired builder while a live shard holds it.) -/
theorem index_waits_for_live_shards (clock d : Int) (cs : List CSh) (ci : List CIx) (ops : List Op) (ev : Ev)
    (hev : ev ∈ (steps (St.init clock d cs ci) ops).log) (hk : ev.kind ≠ .delShard) (hn : ev.fromNil = false) :
    ∀ u ∈ ev.held, u.2.2 ≠ 0 ∧ u.2.1 + u.2.2 < ev.now :=
  ((InvG.init clock d cs ci).steps ops).logG ev hev hk hn

/-- **clock_set_back_is_harmless**: ticks may be negative (the wall clock set back, at any point
of a history): every record still carries the clock reading `now` of the expiry test that decided
it and `end + d < now` held at that reading — a decision is never justified by a later or an
earlier reading than its own.  (Statement of `no_live_shard_loses_index` specialised; here to make
the quantification over negative ticks explicit.) -/
theorem clock_set_back_is_harmless (clock d : Int) (cs : List CSh) (ci : List CIx) (hal : AlignedCat cs ci)
    (pre post : List Op) (dt : Int) (_hdt : dt < 0) (ev : Ev)
    (hev : ev ∈ (steps (St.init clock d cs ci) (pre ++ [.tick dt] ++ post)).log) (hk : ev.kind ≠ .delShard) :
    ev.d ≠ 0 ∧ ev.endT + ev.d < ev.now :=
  let h := no_live_shard_loses_index clock d cs ci hal (pre ++ [.tick dt] ++ post) ev hev hk
  ⟨h.1, h.2.1⟩

/-- where a builder can go: if the store holds a builder for index `x.iid` before a step and none
after it, the step was the index-loop iteration for that index, the delete ran, and the record
with the users of that moment is in the log. -/
theorem index_loss_recorded {σ : St} (op : Op) {x : XIndex} (hx : x ∈ σ.idxs)
    (hgone : ∀ x' ∈ (step σ op).idxs, x'.iid ≠ x.iid) :
    ∃ ev ∈ (step σ op).log, ev.kind = .delIndex ∧ ev.id = x.iid ∧ ev.users = usersOf x.iid σ.shards ∧
      ∃ q ∈ σ.iq, q.iid = x.iid ∧ ev.now = q.nowD ∧ ev.d = q.dUsed ∧ ev.held = q.held ∧ ev.fromNil = q.fromNil := by
  have keep : (∃ x' ∈ (step σ op).idxs, x'.iid = x.iid) → False := fun ⟨x', h1, h2⟩ => hgone x' h1 h2
  cases op with
  | tick dt => exact (keep ⟨x, hx, rfl⟩).elim
  | alter d => exact (keep ⟨x, hx, rfl⟩).elim
  | load sid =>
    refine (keep ⟨x, ?_, rfl⟩).elim
    simp only [step]
    unfold loadShard
    split
    · exact hx
    · split
      · exact hx
      · split
        · exact hx
        · split
          · exact hx
          · exact List.mem_append_left _ hx
  | close sid => exact (keep ⟨x, hx, rfl⟩).elim
  | refreshS ok =>
    refine (keep ?_).elim
    simp only [step]
    split
    · split
      · exact ⟨_, List.mem_map_of_mem (List.mem_map_of_mem hx), by rw [updIndexS_iid]⟩
      · exact ⟨_, List.mem_map_of_mem hx, rfl⟩
    · exact ⟨x, hx, rfl⟩
  | refreshI ok =>
    refine (keep ?_).elim
    simp only [step]
    split
    · split
      · exact ⟨_, List.mem_map_of_mem hx, updIndexI_iid _ _⟩
      · exact ⟨x, hx, rfl⟩
    · exact ⟨x, hx, rfl⟩
  | collectS => exact (keep ⟨x, by simp only [step]; split <;> exact hx, rfl⟩).elim
  | procS o =>
    refine (keep ⟨x, ?_, rfl⟩).elim
    simp only [step]
    split
    · simp only [procS]; exact hx
    · exact hx
  | collectI => exact (keep ⟨x, by simp only [step]; split <;> exact hx, rfl⟩).elim
  | procI o =>
    simp only [step] at hgone ⊢
    split at hgone
    · rename_i q rest hp hq
      simp only [procI] at hgone ⊢
      by_cases hg : delIRes o q.iid σ.idxs = .ok
      · simp only [hg, if_true] at hgone ⊢
        by_cases hqi : x.iid = q.iid
        · refine ⟨⟨.delIndex, q.iid, q.endT, q.dUsed, q.nowD, q.fresh, σ.refI, usersOf q.iid σ.shards, q.fromNil, q.held⟩, ?_, rfl, hqi.symm, by rw [hqi],
            q, hq ▸ List.mem_cons_self, hqi.symm, rfl, rfl, rfl, rfl⟩
          simp
        · exact (hgone x (List.mem_filter.mpr ⟨hx, by simpa using hqi⟩) rfl).elim
      · simp only [hg, if_false] at hgone
        exact (hgone x hx rfl).elim
    · exact (hgone x hx rfl).elim
  | cache => exact (keep ⟨x, by simp only [step]; split <;> exact hx, rfl⟩).elim
  | offload => exact (keep ⟨x, hx, rfl⟩).elim
  | rollback => exact (keep ⟨x, hx, rfl⟩).elim

/-- **offloading_partition_keeps_shards**: while the partition is being offloaded to another
store (`PreOffload` done, `bgrEnabled = false`) no step — in particular no iteration of the
retention service's shard loop — takes a shard object out of the store: `DeleteShard` is refused
with `PtIsAlreadyMigrating`. -/
theorem offloading_partition_keeps_shards {σ : St} (hb : σ.bgr = false) (op : Op) {s : XShard} (hs : s ∈ σ.shards) :
    ∃ s' ∈ (step σ op).shards, s'.sid = s.sid := by
  cases op with
  | tick dt => exact ⟨s, hs, rfl⟩
  | alter d => exact ⟨s, hs, rfl⟩
  | load sid =>
    refine ⟨s, ?_, rfl⟩
    simp only [step]
    unfold loadShard
    split
    · exact hs
    · split
      · exact hs
      · split
        · exact List.mem_append_left _ hs
        · split
          · exact hs
          · exact List.mem_append_left _ hs
  | close sid =>
    refine ⟨_, List.mem_map_of_mem hs, ?_⟩
    split <;> rfl
  | refreshS ok =>
    simp only [step]
    split
    · split
      · exact ⟨_, List.mem_map_of_mem hs, updShard_sid _ _⟩
      · exact ⟨s, hs, rfl⟩
    · exact ⟨s, hs, rfl⟩
  | refreshI ok =>
    simp only [step]
    split
    · split <;> exact ⟨s, hs, rfl⟩
    · exact ⟨s, hs, rfl⟩
  | collectS => simp only [step]; split <;> exact ⟨s, hs, rfl⟩
  | procS o =>
    simp only [step]
    split
    · rename_i q rest _ _
      have hr : delSRes o q.sid σ.shards σ.bgr = .failed ∨ delSRes o q.sid σ.shards σ.bgr = .migrating := by
        unfold delSRes
        rw [hb]
        by_cases hd : o.delOk = true <;> simp [hd]
      simp only [procS]
      rcases hr with hr | hr <;> simp only [hr] <;> exact ⟨s, by simpa using hs, rfl⟩
    · exact ⟨s, hs, rfl⟩
  | collectI => simp only [step]; split <;> exact ⟨s, hs, rfl⟩
  | procI o =>
    simp only [step]
    split
    · simp only [procI]
      split
      · refine ⟨_, List.mem_map_of_mem hs, ?_⟩
        split <;> rfl
      · exact ⟨s, hs, rfl⟩
    · exact ⟨s, hs, rfl⟩
  | cache => simp only [step]; split <;> exact ⟨s, hs, rfl⟩
  | offload => exact ⟨s, hs, rfl⟩
  | rollback => exact ⟨s, hs, rfl⟩

/-! ## 3. one run: raising the duration before the deletion keeps the index -/

/-- the builders after both sides of a refresh: same ids, same ends, and the policy's duration
on every builder whose index the catalogue lists. -/
theorem refreshed_builders {σ : St} {x2 : XIndex}
    (h : x2 ∈ ((σ.idxs.map fun x => { x with fresh := false }).map
        (updIndexS σ.metaDur (sInfos σ.cs σ.metaDur) σ.shards)).map (updIndexI (iInfos σ.ci σ.metaDur))) :
    ∃ x0 ∈ σ.idxs, x2.iid = x0.iid ∧ x2.b.endTime = x0.b.endTime ∧
      ((∃ c ∈ σ.ci, c.iid = x0.iid) → x2.b.duration = σ.metaDur) := by
  simp only [List.mem_map] at h
  obtain ⟨x1, ⟨xr, ⟨x0, h0, rfl⟩, rfl⟩, rfl⟩ := h
  refine ⟨x0, h0, ?_, ?_, ?_⟩
  · rw [updIndexI_iid, updIndexS_iid]
  · rw [updIndexI_endTime, updIndexS_endTime]
  · rintro ⟨c, hc, hi⟩
    unfold updIndexI
    split
    · rename_i i hfi
      have := mem_iInfos (List.mem_of_find?_eq_some hfi)
      show (ixSetDuration _ i.dur).duration = σ.metaDur
      rw [ixSetDuration_duration]
      exact this
    · rename_i hnone
      exfalso
      have hmem : (⟨c.iid, c.igid, c.startT, c.endT, σ.metaDur⟩ : IInfo) ∈ iInfos σ.ci σ.metaDur :=
        List.mem_map_of_mem (f := fun c => (⟨c.iid, c.igid, c.startT, c.endT, σ.metaDur⟩ : IInfo)) hc
      have := List.find?_eq_none.mp hnone _ hmem
      simp [hi, updIndexS_iid] at this

/-- **raising_before_delete_keeps**: the store holds builders for index `i`, the catalogue lists
the index unmarked, and the policy is altered to a duration `d` that is unlimited or reaches at
least to now from the index's end (`d = 0 ∨ clock ≤ end + d`) before a run whose two refresh
calls reach meta.  Then after that run — whatever it does to shards and other indexes, whatever
fails — the store still holds a builder for `i` and the catalogue still lists it unmarked. -/
theorem raising_before_delete_keeps (σ : St) (hp : σ.phase = .idle) (i : Nat) (d : Int)
    (hx : ∃ x ∈ σ.idxs, x.iid = i)
    (hb : ∀ x ∈ σ.idxs, x.iid = i → d = 0 ∨ σ.clock ≤ x.b.endTime + d)
    (hc : ∃ c ∈ σ.ci, c.iid = i ∧ c.marked = false)
    (sc : Script) (h1 : sc.okS = true) (h2 : sc.okI = true) (h3 : sc.alter1 = none) (h4 : sc.alter2 = none) :
    (∃ x ∈ (run sc (step σ (.alter d))).idxs, x.iid = i) ∧
    (∃ c ∈ (run sc (step σ (.alter d))).ci, c.iid = i ∧ c.marked = false) := by
  -- the state after the alteration
  have tp : (step σ (.alter d)).phase = .idle := hp
  have tm : (step σ (.alter d)).metaDur = d := rfl
  have ti : (step σ (.alter d)).idxs = σ.idxs := rfl
  have tc : (step σ (.alter d)).ci = σ.ci := rfl
  have tk : (step σ (.alter d)).clock = σ.clock := rfl
  generalize step σ (.alter d) = τ at *
  -- head of the run
  have hhead : runHead sc = [.refreshS true, .refreshI true, .collectS] := by
    simp [runHead, h1, h2, h3, h4, optAlter]
  obtain ⟨e1, e2, e3, e4, _, e6⟩ := head_fields τ tp
  simp only [run, hhead]
  generalize hσ1 : steps τ [.refreshS true, .refreshI true, .collectS] = σ1 at *
  -- the shard loop
  obtain ⟨f1, f2, f3, f4, _⟩ := procSAll_fields sc.outS σ1.sq.length σ1
  have f6 := procSAll_phase sc.outS σ1.sq.length σ1 e6 (Nat.le_refl _)
  generalize hσ2 : procSAll sc.outS σ1.sq.length σ1 = σ2 at *
  -- facts about the builders of index i at `ExpiredIndexes`
  have K1 : ∃ x ∈ σ2.idxs, x.iid = i := by
    obtain ⟨x, hxm, hxi⟩ := hx
    rw [f1, e1, ti]
    refine ⟨_, List.mem_map_of_mem (List.mem_map_of_mem (List.mem_map_of_mem hxm)), ?_⟩
    rw [updIndexI_iid, updIndexS_iid]
    exact hxi
  have K2 : ∀ x ∈ σ2.idxs, x.iid = i → ixExpired σ2.clock x.b = false := by
    intro x2 hx2 hi2
    rw [f1, e1] at hx2
    obtain ⟨x0, h0, g1, g2, g3⟩ := refreshed_builders hx2
    rw [ti] at h0
    have hd : x2.b.duration = d := by
      rw [← tm]
      apply g3
      obtain ⟨c, hcm, hci, _⟩ := hc
      exact ⟨c, tc ▸ hcm, by rw [hci, ← g1, hi2]⟩
    cases he : ixExpired σ2.clock x2.b
    · rfl
    · exfalso
      obtain ⟨n1, n2⟩ := (index_expired_iff _ _).mp he
      rw [hd] at n1 n2
      rw [f4, e4, tk, g2] at n2
      rcases hb x0 h0 (by rw [← g1, hi2]) with h | h
      · exact n1 h
      · omega
  have K3 : ∀ n ∈ σ2.nilI, n.iid ≠ i := by
    intro n hn hni
    rw [f3, e2] at hn
    unfold nilIInfos at hn
    obtain ⟨_, hf⟩ := List.mem_filter.mp hn
    obtain ⟨x, hxm, hxi⟩ := K1
    rw [f1, e1] at hxm
    have : (List.any ((τ.idxs.map fun x => { x with fresh := false }).map
        (updIndexS τ.metaDur (sInfos τ.cs τ.metaDur) τ.shards)) fun x => x.iid == n.iid) = true := by
      obtain ⟨x1, hx1, rfl⟩ := List.mem_map.mp hxm
      rw [updIndexI_iid] at hxi
      exact List.any_eq_true.mpr ⟨x1, hx1, by rw [hxi, hni]; simp⟩
    rw [this] at hf
    exact absurd hf (by simp)
  -- ExpiredIndexes does not report i; the index loop and the cache loop keep it
  have hkeep : Keep i (step σ2 .collectI) := by
    simp only [step, f6]
    refine ⟨K1, ?_, ?_⟩
    · obtain ⟨c, hcm, hci, hcm'⟩ := hc
      exact ⟨c, by rw [f2, e3, tc]; exact hcm, hci, hcm'⟩
    · intro q hq hqi
      rcases mem_expiredI (mem_sortI.mp hq) with ⟨x, hxm, he, _, rfl⟩ | ⟨n, hn, _, rfl⟩
      · rw [K2 x hxm hqi] at he
        exact absurd he (by simp)
      · exact K3 n hn hqi
  have hfin := (Keep.procIAll sc.outI (step σ2 .collectI).iq.length _ hkeep).cache
  exact ⟨hfin.1, hfin.2.1⟩

/-- **unlimited policy, one run**: after `ALTER … DURATION INF` a run keeps every index the
catalogue lists, whatever the builders held before. -/
theorem unlimited_run_keeps_index (σ : St) (hp : σ.phase = .idle) (i : Nat)
    (hx : ∃ x ∈ σ.idxs, x.iid = i) (hc : ∃ c ∈ σ.ci, c.iid = i ∧ c.marked = false)
    (sc : Script) (h1 : sc.okS = true) (h2 : sc.okI = true) (h3 : sc.alter1 = none) (h4 : sc.alter2 = none) :
    (∃ x ∈ (run sc (step σ (.alter 0))).idxs, x.iid = i) ∧
    (∃ c ∈ (run sc (step σ (.alter 0))).ci, c.iid = i ∧ c.marked = false) :=
  raising_before_delete_keeps σ hp i 0 hx (fun _ _ _ => Or.inl rfl) hc sc h1 h2 h3 h4

/-! ## 4. non-vacuity: a concrete catalogue and history -/

namespace Ex

/-- two shard groups (ends 100 and 200) on one index group [0, 200), policy 50. -/
def cs : List CSh := [⟨1, 1, 11, 100, false, false, false⟩, ⟨3, 2, 11, 200, false, false, false⟩]
def ci : List CIx := [⟨11, 1, 0, 200, false, false, false⟩]

example : AlignedCat cs ci := by simp [AlignedCat, cs, ci]

/-- both shards written, the clock passes end + duration of the index group, a run without
failures: the shards go, then the index (with no user left); the log has its record. -/
def ops1 : List Op :=
  [.load 1, .load 3, .tick 260, .refreshS true, .refreshI true, .collectS, .procS .good, .procS .good,
   .collectI, .procI .good, .cache]

example : ((steps (St.init 0 50 cs ci) ops1).idxs, (steps (St.init 0 50 cs ci) ops1).shards.length,
    (steps (St.init 0 50 cs ci) ops1).ci) = ([], 0, []) := by decide

example : ((steps (St.init 0 50 cs ci) ops1).log.filter fun e => e.kind == .delIndex).map (fun e => (e.id, e.d, e.now, e.fresh, e.users)) =
    [(11, 50, 260, true, [])] := by rfl

/-- the deletion of shard 3 fails (it stays, expired): the index goes with a user, and the
user is expired under the duration that decided — the situation the theorem allows. -/
def ops2 : List Op :=
  [.load 1, .load 3, .tick 260, .refreshS true, .refreshI true, .collectS, .procS .good, .procS ⟨true, false, true⟩,
   .collectI, .procI .good, .cache]

example : ((steps (St.init 0 50 cs ci) ops2).log.filter fun e => e.kind == .delIndex).map (fun e => (e.id, e.d, e.now, e.users)) =
    [(11, 50, 260, [(3, 200)])] := by rfl

/-- a shard group that outlives its index group (ends 100 and 300 on the index group [0, 200)):
at clock 260 with policy 50 the index has expired (200 + 50 < 260), shard 3 has not
(300 + 50 ≥ 260): `ExpiredIndexes` does not report the index while shard 3 holds it. -/
def csM : List CSh := [⟨1, 1, 11, 100, false, false, false⟩, ⟨3, 2, 11, 300, false, false, false⟩]

example : ¬ AlignedCat csM ci := by simp [AlignedCat, csM, ci]

example : (run .good (steps (St.init 0 50 csM ci) [.load 1, .load 3, .tick 260])).idxs.map (·.iid) = [11] ∧
    (run .good (steps (St.init 0 50 csM ci) [.load 1, .load 3, .tick 260])).shards.map (·.sid) = [3] := by decide

/-- … and goes in the run after shard 3 has expired and gone. -/
example : (run .good (steps (St.init 0 50 csM ci) [.load 1, .load 3, .tick 360])).idxs = [] := by decide

/-- the clock set back after `ExpiredIndexes` decided: the record keeps the reading of the test. -/
example : ((steps (St.init 0 50 cs ci) [.load 1, .load 3, .tick 260, .refreshS true, .refreshI true, .collectS,
      .procS .good, .procS .good, .collectI, .tick (-100), .procI .good, .cache]).log.filter fun e => e.kind == .delIndex).map
        (fun e => (e.id, e.d, e.now)) = [(11, 50, 260)] := by rfl

/-- the same clock, but the policy was made unlimited before the run: nothing is reported,
nothing goes (hypotheses of `raising_before_delete_keeps` with `d = 0`). -/
def σ0 : St := steps (St.init 0 50 cs ci) [.load 1, .load 3, .tick 260]

example : σ0.phase = .idle ∧ (∃ x ∈ σ0.idxs, x.iid = 11) ∧ (∃ c ∈ σ0.ci, c.iid = 11 ∧ c.marked = false) := by decide

example : (run .good (step σ0 (.alter 0))).idxs.map (fun x => (x.iid, x.b.duration)) = [(11, 0)] ∧
    (run .good (step σ0 (.alter 0))).shards.length = 2 := by decide

/-- … and without the alteration the same run deletes all of it. -/
example : (run .good σ0).idxs = [] ∧ (run .good σ0).shards = [] := by decide

/-- raised to a finite duration that reaches now from the index's end (200 + 60 ≥ 260): the
index and shard 3 stay, shard 1 (100 + 60 < 260) goes. -/
example : (run .good (step σ0 (.alter 60))).idxs.map (fun x => (x.iid, x.b.duration)) = [(11, 60)] ∧
    (run .good (step σ0 (.alter 60))).shards.map (·.sid) = [3] := by decide

end Ex

end OG.C14.Ix
