/-
C14 — one whole run of `handle()` on the index-side machine: raising the duration (or making the
policy unlimited) before the run keeps the index on the store and in the catalogue.
-/
import OG.C14.IndexInvF

namespace OG.C14.Ix
open OG.C14

/-! ### the shard loop does not touch the index side -/

theorem procS_step_fields (σ : St) (o : Outcome) :
    (step σ (.procS o)).idxs = σ.idxs ∧ (step σ (.procS o)).ci = σ.ci ∧ (step σ (.procS o)).nilI = σ.nilI ∧
    (step σ (.procS o)).clock = σ.clock ∧ (step σ (.procS o)).iq = σ.iq := by
  simp only [step]
  split
  · simp [procS]
  · simp

theorem procSAll_fields (oc : Nat → Outcome) : ∀ (n : Nat) (σ : St),
    (procSAll oc n σ).idxs = σ.idxs ∧ (procSAll oc n σ).ci = σ.ci ∧ (procSAll oc n σ).nilI = σ.nilI ∧
    (procSAll oc n σ).clock = σ.clock ∧ (procSAll oc n σ).iq = σ.iq
  | 0, σ => by simp [procSAll]
  | n + 1, σ => by
    unfold procSAll
    split
    · rename_i q rest hp hq
      obtain ⟨a, b, c, d, e⟩ := procSAll_fields oc n (step σ (.procS (oc q.sid)))
      obtain ⟨a', b', c', d', e'⟩ := procS_step_fields σ (oc q.sid)
      exact ⟨a.trans a', b.trans b', c.trans c', d.trans d', e.trans e'⟩
    · simp

/-- the shard loop ends: after as many iterations as items were reported the run is at
`ExpiredIndexes`. -/
theorem procSAll_phase (oc : Nat → Outcome) : ∀ (n : Nat) (σ : St),
    (σ.phase = .shardsDone ∨ (σ.phase = .shards ∧ σ.sq ≠ [])) → σ.sq.length ≤ n →
    (procSAll oc n σ).phase = .shardsDone
  | 0, σ, h, hl => by
    rcases h with h | ⟨_, h⟩
    · simpa [procSAll] using h
    · exact absurd (List.eq_nil_of_length_eq_zero (Nat.le_zero.mp hl)) h
  | n + 1, σ, h, hl => by
    unfold procSAll
    split
    · rename_i q rest hp hq
      apply procSAll_phase oc n
      · simp only [step, hp, hq]
        by_cases he : rest.isEmpty = true
        · left; simp [he]
        · right
          refine ⟨by simp [he], ?_⟩
          intro hc
          exact he (by simpa using hc)
      · simp only [step, hp, hq]
        rw [hq] at hl
        simpa using hl
    · rename_i hno
      rcases h with h | ⟨hp, hne⟩
      · exact h
      · exfalso
        match hs : σ.sq with
        | [] => exact hne hs
        | q :: rest => exact hno q rest hp hs

/-! ### what keeps an index through the index loop -/

/-- index `i` is on the store, listed unmarked in the catalogue, and not among the reported. -/
def Keep (i : Nat) (σ : St) : Prop :=
  (∃ x ∈ σ.idxs, x.iid = i) ∧ (∃ c ∈ σ.ci, c.iid = i ∧ c.marked = false) ∧ (∀ q ∈ σ.iq, q.iid ≠ i)

theorem markIG_keep {igid i : Nat} {ci : List CIx} (h : ∃ c ∈ ci, c.iid = i ∧ c.marked = false) :
    ∃ c ∈ markIG igid ci, c.iid = i ∧ c.marked = false := by
  obtain ⟨c, hc, hi, hm⟩ := h
  unfold markIG
  refine ⟨_, List.mem_map_of_mem hc, ?_⟩
  split <;> exact ⟨hi, hm⟩

theorem pruneI_keep {iid i : Nat} {ci : List CIx} (hne : iid ≠ i) (h : ∃ c ∈ ci, c.iid = i ∧ c.marked = false) :
    ∃ c ∈ pruneI iid ci, c.iid = i ∧ c.marked = false := by
  obtain ⟨c, hc, hi, hm⟩ := h
  unfold pruneI
  have hcond : (c.iid == iid) = false := by
    rw [hi]
    simpa using fun h => hne h.symm
  refine ⟨c, List.mem_filter.mpr ⟨?_, by simp [hm]⟩, hi, hm⟩
  have := List.mem_map_of_mem (f := fun c : CIx => if c.iid == iid then { c with marked := true } else c) hc
  simpa [hcond] using this

theorem Keep.procI {i : Nat} {σ : St} (h : Keep i σ) (o : Outcome) : Keep i (step σ (.procI o)) := by
  simp only [step]
  split
  · rename_i q rest hp hq
    obtain ⟨⟨x, hx, hxi⟩, hc, hqs⟩ := h
    have hqi : q.iid ≠ i := hqs q (hq ▸ List.mem_cons_self)
    refine ⟨?_, ?_, ?_⟩
    · simp only [Ix.procI]
      split
      · exact ⟨x, List.mem_filter.mpr ⟨hx, by rw [hxi]; simpa using fun h => hqi h.symm⟩, hxi⟩
      · exact ⟨x, hx, hxi⟩
    · simp only [Ix.procI]
      by_cases hp' : o.pruneOk = true <;> by_cases hm : o.markOk = true <;> simp only [hp', hm, if_true]
      · exact pruneI_keep hqi (markIG_keep hc)
      · exact pruneI_keep hqi hc
      · exact markIG_keep hc
      · exact hc
    · intro q' hq'
      exact hqs q' (hq ▸ List.mem_cons_of_mem _ hq')
  · exact h

theorem Keep.procIAll {i : Nat} (oc : Nat → Outcome) : ∀ (n : Nat) (σ : St), Keep i σ → Keep i (procIAll oc n σ)
  | 0, σ, h => by simpa [Ix.procIAll] using h
  | n + 1, σ, h => by
    unfold Ix.procIAll
    split
    · exact Keep.procIAll oc n _ (h.procI _)
    · exact h

theorem Keep.cache {i : Nat} {σ : St} (h : Keep i σ) : Keep i (step σ .cache) := by
  simp only [step]
  split <;> exact h

/-! ### the head of a run that refreshes both sides without an alteration in between -/

theorem head_fields (σ : St) (hp : σ.phase = .idle) :
    let σc := steps σ [.refreshS true, .refreshI true, .collectS]
    σc.idxs = ((σ.idxs.map fun x => { x with fresh := false }).map
        (updIndexS σ.metaDur (sInfos σ.cs σ.metaDur) σ.shards)).map (updIndexI (iInfos σ.ci σ.metaDur)) ∧
    σc.nilI = nilIInfos ((σ.idxs.map fun x => { x with fresh := false }).map
        (updIndexS σ.metaDur (sInfos σ.cs σ.metaDur) σ.shards)) (iInfos σ.ci σ.metaDur) ∧
    σc.ci = σ.ci ∧ σc.clock = σ.clock ∧ σc.iq = σ.iq ∧
    (σc.phase = .shardsDone ∨ (σc.phase = .shards ∧ σc.sq ≠ [])) := by
  refine ⟨?_, ?_, ?_, ?_, ?_, ?_⟩ <;> simp only [steps, List.foldl, step, hp, refreshS, refreshI, if_true, Bool.and_self]
  split
  · left; rfl
  · rename_i he
    right
    refine ⟨rfl, ?_⟩
    intro hc
    exact he (by simpa using hc)

end OG.C14.Ix
