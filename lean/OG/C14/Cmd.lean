/-
C14 — the command path of `ALTER RETENTION POLICY`: `metaclient.UpdateRetentionPolicy` puts every
field of the update that is set (a pointer) into the protobuf command, the meta state machine
(`ApplyUpdateRetentionPolicy`) decodes the command back into an update and calls
`Data.UpdateRetentionPolicy`, which validates (`CheckSpecValid`) and stores.

*Regenerated* (OG.Generated.C14): `rpuRule_<Field>` — by which rule the handler sets the pointer of
each optional field (`present`: iff the field is in the command; `nonzero`: only if its value is
not 0).  Hand-written: `decode`, the part of `CheckSpecValid` that concerns the policy duration
(not below `MinRetentionPolicyDuration`, not below the shard group duration; 0 = unlimited always
passes); tied by facts and by the `x` / `g` streams (the real command, marshalled and applied by
the real `ApplyUpdateRetentionPolicy`).  Core only, no proofs here (the driver imports this file).
-/
import OG.C14.Index
import OG.C14.Align

namespace OG.C14.Cmd
open OG.C14

/-- what the update carries for a field the command has (`some v`) or has not (`none`). -/
def decode (r : FieldRule) (field : Option Int) : Option Int :=
  match r with
  | .present => field
  | .nonzero => match field with
    | some v => if v != 0 then some v else none
    | none => none

/-- `MinRetentionPolicyDuration = time.Hour` -/
def minDur : Int := 3600000000000

/-- `checkGeqThanMinDuration` and `checkGeqThanShardGroupDuration` for the policy duration. -/
def valid (dur sgd : Int) : Bool :=
  !(dur != 0 && decide (dur < minDur)) && !(dur != 0 && decide (dur < sgd))

/-- the policy duration after a command whose `Duration` field is `f`; `none` = the command is
refused and nothing changes. -/
def applyDur (old sgd : Int) (f : Option Int) : Option Int :=
  let d := (decode rpuRule_Duration f).getD old
  if valid d sgd then some d else none

/-- `ALTER RETENTION POLICY … DURATION f` on the catalogue of the index-side machine (shard group
duration 1 h there). -/
def cmdAlter (σ : Ix.St) (f : Option Int) : Ix.St × Bool :=
  match applyDur σ.metaDur minDur f with
  | some d => (Ix.step σ (.alter d), true)
  | none => (σ, false)

/-- the command on the catalogue of `Align.lean`: duration, shard group duration, index group
duration, each present or not. -/
def alterCat (c : Al.Cat) (dur : Int) (fd fs fi : Option Int) : (Al.Cat × Int) × Bool :=
  let s := (decode rpuRule_ShardGroupDuration fs).getD c.sgd
  let i := (decode rpuRule_IndexGroupDuration fi).getD c.igd
  let d := (decode rpuRule_Duration fd).getD dur
  if valid d s then (({ c with sgd := s, igd := Al.normIgd i s }, d), true) else ((c, dur), false)

end OG.C14.Cmd
