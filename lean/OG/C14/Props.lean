/-
C14 — property theorems.

Property: "Data is deleted by the retention service only when it belongs to a shard whose whole
time span ended more than the retention policy's duration ago; a policy with unlimited duration
never loses data, and points whose timestamp is still within the retention window remain
queryable.  Raising a policy's duration before the deletion takes effect keeps the data;
expired shards are eventually removed from both storage and catalogue."

The expiry predicates, the write-side window test and `Overlaps` are the definitions ogfacts
regenerates from the Go source on every run (OG.Generated.C14); the service / store /
catalogue machine is `OG.C14.Model`, tied to the code by the correspondence run.
-/
import OG.C14.Lemmas

namespace OG.C14

/-! ## 1. the expiry instant -/

/-- **expired_iff** (`(*shard).IsExpired`): expired ⇔ the duration is limited and the shard's
end plus the duration lies strictly before now. -/
theorem expired_iff (d e now : Int) : shardIsExpired now d e = true ↔ d ≠ 0 ∧ e + d < now :=
  shardIsExpired_iff now d e

/-- the same for `(*EngineImpl).nilShardIsExpired` (not-loaded shards). -/
theorem nil_expired_iff (d e now : Int) : nilShardIsExpired now d e = true ↔ d ≠ 0 ∧ e + d < now :=
  nilShardIsExpired_iff now d e

/-- loaded and not-loaded shards are judged by the same test. -/
theorem expiry_tests_agree (d e now : Int) : shardIsExpired now d e = nilShardIsExpired now d e := by
  cases h : nilShardIsExpired now d e
  · cases h' : shardIsExpired now d e
    · rfl
    · exact absurd ((nil_expired_iff d e now).mpr ((expired_iff d e now).mp h')) (by simp [h])
  · exact (expired_iff d e now).mpr ((nil_expired_iff d e now).mp h)

/-- **unlimited_never**: duration 0 never expires, at any clock reading. -/
theorem unlimited_never (e now : Int) :
    shardIsExpired now 0 e = false ∧ nilShardIsExpired now 0 e = false := by
  constructor
  · cases h : shardIsExpired now 0 e
    · rfl
    · exact absurd rfl ((expired_iff 0 e now).mp h).1
  · cases h : nilShardIsExpired now 0 e
    · rfl
    · exact absurd rfl ((nil_expired_iff 0 e now).mp h).1

/-- at the exact instant `end + d = now` the shard is *not* yet expired (`Before`, not `!After`). -/
theorem boundary_not_expired (d e : Int) : shardIsExpired (e + d) d e = false := by
  cases h : shardIsExpired (e + d) d e
  · rfl
  · exact absurd ((expired_iff d e (e + d)).mp h).2 (by omega)

/-- an expired shard holds only points that are out of the window. -/
theorem expired_points_outside (d e now t : Int) (h : shardIsExpired now d e = true) (ht : t < e) :
    t + d < now := by
  have := ((expired_iff d e now).mp h).2; omega

example : shardIsExpired 101 50 50 = true ∧ shardIsExpired 100 50 50 = false ∧ shardIsExpired 1000 0 50 = false := by
  decide

/-- **expired_iff_int64**: the same for the number types of the code — for every clock reading,
shard end and duration that an int64 count of nanoseconds can hold (durations up to the
`time.Duration` maximum of 106751 d, ends up to 2262-04-11), the test the code computes — in
whichever mix of `time.Time` arithmetic (exact) and int64 arithmetic (wrapping, `wrap64`) it is
written — equals the statement over ℤ. In particular `end + duration` beyond the int64 range
(a 99999 d policy today) does not make a shard expire. -/
theorem expired_iff_int64 (now d e : Int) (_hn : InI64 now) (_hd : InI64 d) (_he : InI64 e) :
    (shardIsExpired now d e = true ↔ d ≠ 0 ∧ e + d < now) ∧ (nilShardIsExpired now d e = true ↔ d ≠ 0 ∧ e + d < now) :=
  ⟨expired_iff d e now, nil_expired_iff d e now⟩

/-- the extremes: now = 2026, a shard group that ended an hour ago, durations 1 ns, 1 h − 1 ns,
36500 d, 99999 d, the `time.Duration` maximum; a group ending in 2262 — while the int64 sum
`end + duration` of the 99999 d case is negative. -/
example :
    shardIsExpired 1790000000000000000 1 (1790000000000000000 - 3600000000000) = true ∧
    shardIsExpired 1790000000000000000 3600000000000 (1790000000000000000 - 3600000000000) = false ∧
    shardIsExpired 1790000000000000000 (36500 * 86400000000000) (1790000000000000000 - 3600000000000) = false ∧
    shardIsExpired 1790000000000000000 (99999 * 86400000000000) (1790000000000000000 - 3600000000000) = false ∧
    shardIsExpired 1790000000000000000 9223372036854775807 (1790000000000000000 - 3600000000000) = false ∧
    shardIsExpired 1790000000000000000 1 9223372036854775807 = false ∧
    nilShardIsExpired 1790000000000000000 (99999 * 86400000000000) (1790000000000000000 - 3600000000000) = false ∧
    wrap64 (1790000000000000000 - 3600000000000 + 99999 * 86400000000000) < 0 := by
  decide

/-! ## 2. the write side (`checkDBRP` + `routeAndMapOriginRows`) -/

/-- a write is refused only for a point that already is outside the window (the write path reads
a clock with one-second granularity that never runs ahead: `nowSec·10⁹ ≤ now`). The write path
computes in int64 nanoseconds (`wrap64`): for every clock reading and duration of that range. -/
theorem rejected_only_outside_window (nowSec now d ts : Int) (hd : 0 < d) (hclk : nowSec * 1000000000 ≤ now)
    (hn : 0 ≤ nowSec ∧ InI64 (nowSec * 1000000000)) (hdr : InI64 d)
    (h : writeRejected ts (writeMinTime nowSec d) = true) : ts + d < now := by
  unfold writeRejected writeMinTime at h
  simp only [decide_eq_true_eq] at h
  rw [if_pos (by simpa using hd)] at h
  rw [wrap64_of_range hn.2, wrap64_of_range (by unfold InI64 at *; omega)] at h
  omega

/-- an accepted point lands in a group that the coarse clock does not yet call expired. -/
theorem accepted_group_not_expired (nowSec d ts e : Int) (hd : 0 < d) (hte : ts < e)
    (hn : 0 ≤ nowSec ∧ InI64 (nowSec * 1000000000)) (hdr : InI64 d)
    (h : writeRejected ts (writeMinTime nowSec d) = false) : ¬ (e + d < nowSec * 1000000000) := by
  unfold writeRejected writeMinTime at h
  simp only [decide_eq_false_iff_not] at h
  rw [if_pos (by simpa using hd)] at h
  rw [wrap64_of_range hn.2, wrap64_of_range (by unfold InI64 at *; omega)] at h
  omega

/-- unlimited duration: only negative timestamps are refused by this test. -/
theorem unlimited_rejects_only_negative (nowSec ts : Int) :
    writeRejected ts (writeMinTime nowSec 0) = true ↔ ts < 0 := by
  unfold writeRejected writeMinTime
  simp

example : writeRejected 949 (writeMinTime 1 50) = true ∧ writeRejected 999999950 (writeMinTime 1 50) = false := by
  decide

/-! ## 3. deleted ⇒ expired -/

/-- **deleted_only_expired**, over every interleaving of service steps, clock ticks, policy
alterations, shard creations / closings and late completions of timed-out deletes:

* a shard object leaves the store only through a delete the service issued (`deletedShard` on record),
* a group stops being readable only through a mark the service issued (`markedGroup` on record),
* and every recorded action was taken for an item that had passed the regenerated expiry test
  at that moment with the duration `d` the store held for it: `d ≠ 0`, `end + d < now`; hence
  every point `t < end` of that shard has `t + d < now`. -/
theorem deleted_only_expired {σ : St} (hT : TimeInv σ) (hP : PendInv σ) (ops : List Op) :
    (∀ sid, (∃ s ∈ σ.eng, s.sid = sid) → (∀ s ∈ (steps σ ops).eng, s.sid ≠ sid) →
      ∃ e ∈ (steps σ ops).log, e.kind = .deletedShard ∧ e.id = sid) ∧
    (∀ gid, (∃ g ∈ σ.cat, g.gid = gid ∧ g.deleted = false) →
      (∀ g' ∈ (steps σ ops).cat, g'.gid = gid → g'.deleted = true) →
      ∃ e ∈ (steps σ ops).log, e.kind = .markedGroup ∧ e.id = gid) ∧
    (∀ e ∈ (steps σ ops).log, e.d ≠ 0 ∧ e.endT + e.d < e.now ∧ e.now ≤ (steps σ ops).clock ∧
      ∀ t, t < e.endT → t + e.d < e.now) := by
  refine ⟨fun sid hin hout => shard_loss_recorded hP ops sid hin hout,
    fun gid hin hout => group_loss_recorded ops gid hin hout, ?_⟩
  intro e he
  obtain ⟨h1, h2, h3⟩ := (hT.steps ops).log e he
  exact ⟨h1, h2, h3, fun t ht => by omega⟩

/-- the duration used is the refreshed one: in a run that starts in `σ` and whose refresh
succeeds, every shard `ExpiredShards` reports passed the test against the clock, and — for every
shard the catalogue lists — with the policy duration meta returned to *this* run's refresh
(an alteration that lands after the refresh, `alterMid`, is not seen any more). -/
theorem run_decides_with_refreshed_duration {σ : St} (hu : EngUniq σ) (hidle : σ.phase = .idle)
    (sc : Script) (hrf : sc.refreshOk = true) :
    ∀ q ∈ (steps σ (runHead sc)).queue,
      q.dUsed ≠ 0 ∧ q.endT + q.dUsed < σ.clock ∧ (Listed σ.cat q.sid → q.dUsed = σ.metaDur) := by
  intro q hq
  rw [(runHead_ok hidle hrf).1] at hq
  have hq := mem_sortQ.mp hq
  obtain ⟨h1, h2⟩ := expiredShards_sound hq
  exact ⟨h1, h2, fun hl => fresh_after_refresh hu σ.clock hq hl⟩

/-- a run whose refresh fails touches nothing. -/
theorem run_without_refresh_touches_nothing {σ : St} (hidle : σ.phase = .idle) (hq : σ.queue = [])
    (sc : Script) (hrf : sc.refreshOk = false) :
    (run sc σ).cat = σ.cat ∧ (run sc σ).eng = σ.eng ∧ (run sc σ).disk = σ.disk ∧ (run sc σ).log = σ.log := by
  obtain ⟨h1, h2, h3, h4, _, h6, _⟩ := runHead_fail (sc := sc) hidle hrf
  have hc := run_core sc σ (by rw [h1, hq]; intro h; exact absurd rfl h)
  rw [h1, hq] at hc
  simp only [procQ, Core, Prod.mk.injEq] at hc
  obtain ⟨_, c2, c3, c4, _, c6⟩ := hc
  exact ⟨c2.trans h2, c3.trans h3, c4.trans h4, c6.trans h6⟩

/-- the catalogue side of `deleted_only_expired`: a step changes the `MarkDelete` flag of a
catalogue entry only in the loop iteration for that very shard — which was reported as expired
(`d ≠ 0`, `end + d < clock`) — provided the groups' shard ids are ascending and consecutive, as
`createShards` allocates them (`pruneShardGroups` finds the entry with `sort.Search`). -/
theorem prune_marks_only_reported {σ : St} (hT : TimeInv σ) (hst : CatStatic σ.cat)
    (hnh : ∀ g ∈ σ.cat, NoHoles g) (op : Op) :
    ∀ g' ∈ (step σ op).cat, ∀ c' ∈ g'.shards, ∃ g ∈ σ.cat, ∃ c ∈ g.shards, c'.sid = c.sid ∧
      (c'.marked = c.marked ∨
        ∃ q rest, σ.queue = q :: rest ∧ q.sid = c'.sid ∧ q.dUsed ≠ 0 ∧ q.endT + q.dUsed < σ.clock) := by
  intro g' hg' c' hc'
  have same : (step σ op).cat = σ.cat → ∃ g ∈ σ.cat, ∃ c ∈ g.shards, c'.sid = c.sid ∧
      (c'.marked = c.marked ∨
        ∃ q rest, σ.queue = q :: rest ∧ q.sid = c'.sid ∧ q.dUsed ≠ 0 ∧ q.endT + q.dUsed < σ.clock) :=
    fun h => ⟨g', h ▸ hg', c', hc', rfl, Or.inl rfl⟩
  cases op with
  | tick dt => apply same; simp only [step]; split <;> rfl
  | alter d => exact same rfl
  | load sid =>
    apply same
    simp only [step, loadShard]
    split
    · rfl
    · split <;> rfl
  | close sid => exact same rfl
  | refresh ok =>
    apply same
    simp only [step]
    split
    · split <;> rfl
    · rfl
  | collect => apply same; simp only [step]; split <;> rfl
  | complete => apply same; simp only [step]; rw [completeAll_cat]
  | proc o =>
    simp only [step] at hg'
    split at hg'
    · rename_i q rest hph hq
      obtain ⟨g, hg, c, hc, h1, _, h3⟩ := procItem_marks_only hst hnh hg' hc'
      refine ⟨g, hg, c, hc, h1, ?_⟩
      rcases h3 with h3 | h3
      · exact Or.inl h3
      · have := hT.queue q (by rw [hq]; exact List.mem_cons_self)
        exact Or.inr ⟨q, rest, hq, h3.symm, this.1, this.2⟩
    · exact ⟨g', hg', c', hc', rfl, Or.inl rfl⟩

/-- with a hole in the ids, pruning the missing id marks nothing: `sort.Search` returns the first
entry with id ≥ the one asked for, and (since /repo f9bcf88) the entry is marked only if it is the
one named — before that fix the neighbour (shard 3 here) was marked. -/
theorem prune_hole_marks_nothing :
    (pruneGroup 2 ⟨1, 0, 100, true, [⟨1, true, false⟩, ⟨3, true, false⟩]⟩).shards =
      [⟨1, true, false⟩, ⟨3, true, false⟩] := by decide

/-! ## 4. raising the duration before the run keeps the data -/

/-- every shard object of the store is listed by the catalogue (it is, unless an earlier run
pruned the catalogue entry while its delete failed). -/
def NoOrphan (σ : St) : Prop := ∀ s ∈ σ.eng, Listed σ.cat s.sid

/-- the run-level core of `raise_before_delete_keeps`: the run starts in `σ`, whose catalogue
already carries the duration. -/
theorem run_keeps_in_window {σ : St} (hw' : WF σ) (hu' : EngUniq σ) (hno : NoOrphan σ)
    (hidle' : σ.phase = .idle) (hq' : σ.queue = []) (g : Group) (hg : g ∈ σ.cat)
    (hlive : g.deleted = false) (hkeep : σ.metaDur = 0 ∨ g.endT + σ.metaDur ≥ σ.clock) (sc : Script) :
    (∀ c ∈ g.shards, (∃ s ∈ σ.eng, s.sid = c.sid) → ∃ s' ∈ (run sc σ).eng, s'.sid = c.sid) ∧
    (∀ c ∈ g.shards, c.sid ∈ σ.disk → c.sid ∈ (run sc σ).disk) ∧
    (∃ g' ∈ (run sc σ).cat, g'.gid = g.gid ∧ g'.startT = g.startT ∧ g'.endT = g.endT ∧ g'.deleted = false) := by
  cases hrf : sc.refreshOk with
  | false =>
    obtain ⟨c2, c3, c4, _⟩ := run_without_refresh_touches_nothing hidle' hq' sc hrf
    refine ⟨?_, ?_, ?_⟩
    · intro c _ ⟨s, hs, hsid⟩
      exact ⟨s, by rw [c3]; exact hs, hsid⟩
    · intro c _ hc
      rw [c4]; exact hc
    · exact ⟨g, by rw [c2]; exact hg, rfl, rfl, rfl, hlive⟩
  | true =>
    obtain ⟨e1, e2, e3, e4, _, _, _, e8⟩ := runHead_ok (sc := sc) hidle' hrf
    have hc := run_core sc σ e8
    simp only [Core, Prod.mk.injEq] at hc
    obtain ⟨_, c2, c3, c4, _, _⟩ := hc
    have hw2 : WF (steps σ (runHead sc)) := hw'.steps _
    -- nothing that points at `g` is in the reported list
    have key : ∀ q ∈ (steps σ (runHead sc)).queue, (∀ c ∈ g.shards, q.sid ≠ c.sid) ∧ q.gid ≠ g.gid := by
      intro q hq
      have hqq := hq
      rw [e1] at hq
      have hq := mem_sortQ.mp hq
      obtain ⟨hd0, hlt⟩ := expiredShards_sound hq
      -- listed, hence decided with the refreshed duration
      have hlisted : Listed σ.cat q.sid := by
        unfold expiredShards at hq
        rcases List.mem_append.mp hq with h | h
        · obtain ⟨s', hs', _, _, rfl⟩ := mem_expiredLoaded.mp h
          simp only [refreshOk] at hs'
          obtain ⟨s, hs, rfl⟩ := List.mem_map.mp hs'
          simp only [updShard_sid]
          exact hno s hs
        · obtain ⟨i, hi, _, _, rfl⟩ := mem_expiredNil.mp h
          simp only [refreshOk, nilInfos] at hi
          exact (listed_iff σ.metaDur).mpr ⟨i, (List.mem_filter.mp hi).1, rfl⟩
      have hfresh : q.dUsed = σ.metaDur := fresh_after_refresh hu' σ.clock hq hlisted
      have hnot : ¬ (q.endT = g.endT) := by
        intro he
        rw [hfresh, he] at hlt
        rw [hfresh] at hd0
        rcases hkeep with h | h
        · exact hd0 h
        · omega
      constructor
      · intro c hc hsid
        apply hnot
        have hcs : q.sid ∈ g.sids := hsid ▸ List.mem_map.mpr ⟨c, hc, rfl⟩
        unfold expiredShards at hq
        rcases List.mem_append.mp hq with h | h
        · obtain ⟨s', hs', _, _, rfl⟩ := mem_expiredLoaded.mp h
          simp only [refreshOk] at hs'
          obtain ⟨s, hs, rfl⟩ := List.mem_map.mp hs'
          simp only [updShard_sid, updShard_endT] at hcs ⊢
          exact (hw'.engEnd s hs g hg hcs).symm
        · obtain ⟨i, hi, _, _, rfl⟩ := mem_expiredNil.mp h
          simp only [refreshOk, nilInfos] at hi
          obtain ⟨g1, hg1, c1, hc1, _, rfl⟩ := mem_durInfos.mp (List.mem_filter.mp hi).1
          simp only at hcs ⊢
          exact hw'.sidEnd g1 hg1 g hg c1.sid (List.mem_map.mpr ⟨c1, hc1, rfl⟩) hcs
      · intro hgid
        apply hnot
        exact (hw2.queueGid q hqq g (by rw [e2]; exact hg) hgid.symm).symm
    refine ⟨?_, ?_, ?_⟩
    · intro c hc ⟨s, hs, hsid⟩
      have hs2 : updShard (durInfos σ.cat σ.metaDur) s ∈ (steps σ (runHead sc)).eng := by
        rw [e3]; simp only [refreshOk]
        exact List.mem_map.mpr ⟨s, hs, rfl⟩
      refine ⟨updShard (durInfos σ.cat σ.metaDur) s, ?_, (updShard_sid _ s).trans hsid⟩
      rw [c3]
      exact procQ_eng_keep sc.outcome _ _ _ hs2 (fun q hq => by
        rw [updShard_sid, hsid]; exact (key q hq).1 c hc)
    · intro c hc hd
      rw [c4]
      exact procQ_disk_keep sc.outcome _ _ _ (by rw [e4]; exact hd) (fun q hq => (key q hq).1 c hc)
    · obtain ⟨g', hg', hs, hl⟩ := procQ_group_keep sc.outcome _ (steps σ (runHead sc)) g
        (by rw [e2]; exact hg) hlive (fun q hq => (key q hq).2)
      exact ⟨g', by rw [c2]; exact hg', hs.1, hs.2.1, hs.2.2.1, hl⟩

/-- **raise_before_delete_keeps**: the policy is altered to `d` (raised, or set to 0) before the
run starts.  If `d` keeps group `g` inside the window at the clock of the run
(`d = 0 ∨ g.end + d ≥ clock`), then after the run — whatever the script of failures, timeouts
and even a further alteration in the middle — every shard of `g` the store had is still in the
store and on disk, and `g` is still live in the catalogue. -/
theorem raise_before_delete_keeps {σ0 : St} (hw : WF σ0) (hu : EngUniq σ0) (hno : NoOrphan σ0)
    (hidle : σ0.phase = .idle) (hq0 : σ0.queue = []) (d : Int) (g : Group) (hg : g ∈ σ0.cat)
    (hlive : g.deleted = false) (hkeep : d = 0 ∨ g.endT + d ≥ σ0.clock) (sc : Script) :
    (∀ c ∈ g.shards, (∃ s ∈ σ0.eng, s.sid = c.sid) →
      ∃ s' ∈ (run sc (step σ0 (.alter d))).eng, s'.sid = c.sid) ∧
    (∀ c ∈ g.shards, c.sid ∈ σ0.disk → c.sid ∈ (run sc (step σ0 (.alter d))).disk) ∧
    (∃ g' ∈ (run sc (step σ0 (.alter d))).cat,
      g'.gid = g.gid ∧ g'.startT = g.startT ∧ g'.endT = g.endT ∧ g'.deleted = false) :=
  run_keeps_in_window (σ := step σ0 (.alter d)) (hw.step _) (hu.step _) hno hidle hq0 g hg hlive hkeep sc

/-- **unlimited duration never loses data**: the same with `d = 0`, for every group. -/
theorem unlimited_keeps_everything {σ0 : St} (hw : WF σ0) (hu : EngUniq σ0) (hno : NoOrphan σ0)
    (hidle : σ0.phase = .idle) (hq0 : σ0.queue = []) (g : Group) (hg : g ∈ σ0.cat)
    (hlive : g.deleted = false) (sc : Script) :
    (∀ c ∈ g.shards, (∃ s ∈ σ0.eng, s.sid = c.sid) →
      ∃ s' ∈ (run sc (step σ0 (.alter 0))).eng, s'.sid = c.sid) ∧
    (∃ g' ∈ (run sc (step σ0 (.alter 0))).cat, g'.gid = g.gid ∧ g'.deleted = false) := by
  obtain ⟨h1, _, g', hg', h3, _, _, h4⟩ :=
    raise_before_delete_keeps hw hu hno hidle hq0 0 g hg hlive (Or.inl rfl) sc
  exact ⟨h1, g', hg', h3, h4⟩

/-! ## 5. expired shards are eventually removed from storage and catalogue -/

/-- a whole run is a finite sequence of service steps: the refresh, possibly an alteration
arriving meanwhile, the expiry check, and one loop iteration per reported shard. -/
theorem run_is_finitely_many_steps (sc : Script) (σ : St) :
    run sc σ = steps σ (runOps sc σ) ∧
    (runOps sc σ).length = (runHead sc).length + (steps σ (runHead sc)).queue.length := by
  constructor
  · rfl
  · unfold runOps; simp

/-- waiting does not un-expire anything. -/
theorem expired_stays_expired (d e now dt : Int) (hdt : 0 ≤ dt) (h : shardIsExpired now d e = true) :
    shardIsExpired (now + dt) d e = true := by
  have := (expired_iff d e now).mp h
  exact (expired_iff d e (now + dt)).mpr ⟨this.1, by omega⟩

/-- **eventually_removed** (progress): a shard the catalogue lists for this store, whose group
ended more than the policy's (limited) duration ago and whose delete is not pending, is
reported by the next run whose refresh reaches meta; if that run's three calls for it succeed —
the fairness assumption — then after the finitely many steps of the run the store has no shard
object with that id, every catalogue entry of it is marked deleted (the group disappears with
its last entry), and — unless the shard object was a closing one — its directories are gone.
A failed refresh changes nothing (`run_without_refresh_touches_nothing`) and waiting keeps the
shard expired (`expired_stays_expired`), so the precondition survives until such a run. -/
theorem eventually_removed {σ : St} (hw : WF σ) (hst : CatStatic σ.cat)
    (hidle : σ.phase = .idle) (sid : Nat) (g : Group) (hg : g ∈ σ.cat) (c : CShard) (hc : c ∈ g.shards)
    (hmine : c.mine = true) (hsid : c.sid = sid)
    (hexp : σ.metaDur ≠ 0 ∧ g.endT + σ.metaDur < σ.clock) (hpend : sid ∉ σ.pending)
    (sc : Script) (hrf : sc.refreshOk = true) (hgood : ∀ x, sc.outcome x = .good) :
    Removed (run sc σ) sid ∧
    ((∀ s ∈ σ.eng, s.sid = sid → s.idx = true) → (sid ∈ σ.disk → ∃ s ∈ σ.eng, s.sid = sid) →
      sid ∉ (run sc σ).disk) := by
  obtain ⟨e1, e2, e3, e4, e5, _, _, e8⟩ := runHead_ok (sc := sc) hidle hrf
  have hcore := run_core sc σ e8
  simp only [Core, Prod.mk.injEq] at hcore
  obtain ⟨_, c2, c3, c4, _, _⟩ := hcore
  -- the catalogue's entry for the shard, as the refresh sees it
  have hi0 : (⟨sid, g.gid, g.endT, σ.metaDur⟩ : DurInfo) ∈ durInfos σ.cat σ.metaDur :=
    mem_durInfos.mpr ⟨g, hg, c, hc, hmine, by rw [hsid]⟩
  have hcs : sid ∈ g.sids := hsid ▸ List.mem_map.mpr ⟨c, hc, rfl⟩
  -- the shard is in the reported list
  have hin : ∃ q ∈ (steps σ (runHead sc)).queue, q.sid = sid := by
    rw [e1]
    by_cases hload : ∃ s ∈ σ.eng, s.sid = sid ∧ s.idx = true
    · -- refreshed in place, judged by its own (now fresh) duration
      obtain ⟨s, hs, hss, hidx⟩ := hload
      refine ⟨⟨s.sid, (updShard (durInfos σ.cat σ.metaDur) s).gid, s.endT, σ.metaDur, false⟩,
        mem_sortQ.mpr ?_, hss⟩
      unfold expiredShards
      refine List.mem_append_left _ (mem_expiredLoaded.mpr ⟨updShard (durInfos σ.cat σ.metaDur) s, ?_, ?_, ?_, ?_⟩)
      · simp only [refreshOk]; exact List.mem_map.mpr ⟨s, hs, rfl⟩
      · simp only [refreshOk, nilInfos, updShard_sid]
        rw [List.any_eq_false]
        intro i hi
        have := (List.mem_filter.mp hi).2
        simp only [Bool.not_eq_true', List.any_eq_false, Bool.and_eq_true, beq_iff_eq, not_and] at this
        intro hh
        have hh : i.sid = s.sid := by simpa using hh
        exact absurd hidx (by simpa using this s hs hh.symm)
      · have hdur : (updShard (durInfos σ.cat σ.metaDur) s).dur = σ.metaDur := by
          unfold updShard
          rw [if_pos hidx]
          split
          · rename_i i hf; exact durInfos_dur (List.mem_of_find?_eq_some hf)
          · rename_i hf
            have := List.find?_eq_none.mp hf _ hi0
            simp [hss] at this
        rw [hdur, updShard_endT]
        refine (expired_iff _ _ _).mpr ⟨hexp.1, ?_⟩
        rw [← hw.engEnd s hs g hg (hss ▸ hcs)]; exact hexp.2
      · have hdur : (updShard (durInfos σ.cat σ.metaDur) s).dur = σ.metaDur := by
          unfold updShard
          rw [if_pos hidx]
          split
          · rename_i i hf; exact durInfos_dur (List.mem_of_find?_eq_some hf)
          · rename_i hf
            have := List.find?_eq_none.mp hf _ hi0
            simp [hss] at this
        simp only [updShard_sid, updShard_endT, hdur]
    · -- not refreshed in place: the entry meta sent decides
      have hnil : (⟨sid, g.gid, g.endT, σ.metaDur⟩ : DurInfo) ∈ (refreshOk σ).nilMap := by
        simp only [refreshOk, nilInfos]
        refine List.mem_filter.mpr ⟨hi0, ?_⟩
        simp only [Bool.not_eq_true', List.any_eq_false, Bool.and_eq_true, beq_iff_eq, not_and]
        intro x hx hxs
        cases hxi : x.idx
        · simp
        · exact absurd ⟨x, hx, hxs, hxi⟩ hload
      refine ⟨⟨sid, g.gid, g.endT, σ.metaDur, true⟩, mem_sortQ.mpr ?_, rfl⟩
      unfold expiredShards
      refine List.mem_append_right _ (mem_expiredNil.mpr ⟨_, hnil, ?_, ?_, rfl⟩)
      · rw [List.any_eq_false]
        intro q hq hh
        have hh : q.sid = sid := by simpa using hh
        obtain ⟨s', _, hn, _, rfl⟩ := mem_expiredLoaded.mp hq
        have := List.any_eq_false.mp hn _ hnil
        simp only at hh
        simp [hh] at this
      · exact (nil_expired_iff _ _ _).mpr hexp
  have hrem : Removed (procQ sc.outcome (steps σ (runHead sc)).queue (steps σ (runHead sc))) sid :=
    procQ_removes sc.outcome sid _ _ (by rw [e2]; exact hst) (fun q _ => hgood q.sid)
      (by rw [e5]; exact hpend) hin
  refine ⟨⟨by rw [c3]; exact hrem.1, by rw [c2]; exact hrem.2⟩, ?_⟩
  intro hhealthy hdisk
  rw [c4]
  -- the disk part: follow the loop until the iteration for `sid`
  have aux : ∀ (Q : List QItem) (τ : St), (∀ s ∈ τ.eng, s.sid = sid → s.idx = true) →
      (sid ∈ τ.disk → ∃ s ∈ τ.eng, s.sid = sid) → sid ∉ τ.pending → (∃ q ∈ Q, q.sid = sid) →
      sid ∉ (procQ sc.outcome Q τ).disk := by
    intro Q
    induction Q with
    | nil => intro τ _ _ _ h; obtain ⟨q, hq, _⟩ := h; simp at hq
    | cons q rest ih =>
      intro τ h1 h2 h3 hex
      have hg' : sc.outcome q.sid = .good := hgood q.sid
      simp only [procQ]
      by_cases hq : q.sid = sid
      · intro hx
        have hx := procQ_disk_sub sc.outcome rest _ sid hx
        rw [hg'] at hx
        exact procItem_removes_disk (o := .good) (q := q) (σ := τ) rfl (hq ▸ h3)
          (fun s hs hs' => h1 s hs (hs'.trans hq)) (fun hd => by
            obtain ⟨s, hs, hs'⟩ := h2 (hq ▸ hd); exact ⟨s, hs, hs'.trans hq.symm⟩) (hq ▸ hx)
      · apply ih
        · intro s hs hs'
          exact h1 s (mem_delEng (by simpa only [procItem] using hs)) hs'
        · intro hd
          obtain ⟨s, hs, hs'⟩ := h2 (procItem_disk_sub hd)
          exact ⟨s, procItem_eng_keep hs (by rw [hs']; exact fun h => hq h.symm), hs'⟩
        · rw [procItem_pending (by rw [hg']; simp [Outcome.good])]; exact h3
        · obtain ⟨q', hq', hs'⟩ := hex
          rcases List.mem_cons.mp hq' with rfl | hq'
          · exact absurd hs' hq
          · exact ⟨q', hq', hs'⟩
  apply aux _ _ _ _ (by rw [e5]; exact hpend) hin
  · intro s hs hss
    rw [e3] at hs
    simp only [refreshOk] at hs
    obtain ⟨s0, hs0, rfl⟩ := List.mem_map.mp hs
    rw [updShard_idx]
    exact hhealthy s0 hs0 ((updShard_sid _ s0).symm.trans hss)
  · intro hd
    rw [e4] at hd
    obtain ⟨s, hs, hss⟩ := hdisk hd
    exact ⟨updShard (durInfos σ.cat σ.metaDur) s, by rw [e3]; simp only [refreshOk]; exact List.mem_map.mpr ⟨s, hs, rfl⟩,
      (updShard_sid _ s).trans hss⟩

/-! ## 6. a point inside the window stays queryable -/

/-- **in_window_queryable**: start anywhere the invariants hold and run any sequence of steps.
A point `t` of a group that was live at the start, which every duration meta ever handed to
this store keeps inside the window at the present clock (`d = 0 ∨ t + d ≥ clock` for all `d`
in `seen`), is covered by a live group: `ShardGroupsByTimeRange(t, t)` returns its group. -/
theorem in_window_queryable {σ : St} (hT : TimeInv σ) (hw : WF σ) (ops : List Op)
    (g0 : Group) (hg0 : g0 ∈ σ.cat) (hlive : g0.deleted = false) (t : Int)
    (ht : g0.startT ≤ t ∧ t < g0.endT)
    (hwin : ∀ d ∈ (steps σ ops).seen, d = 0 ∨ t + d ≥ (steps σ ops).clock) :
    g0.gid ∈ queryGroups (steps σ ops).cat t t := by
  have hgi := (GI.self σ).steps hw ops
  have hT' := hT.steps ops
  rcases hgi g0 hg0 hlive with ⟨g, hg, h1, h2, h3, h4⟩ | ⟨e, he, _, _, h3, h4⟩
  · unfold queryGroups
    refine List.mem_map.mpr ⟨g, List.mem_filter.mpr ⟨hg, ?_⟩, h1⟩
    unfold groupOverlaps
    simp only [h4, h2, h3, Bool.false_or, Bool.not_not, Bool.and_eq_true, Bool.not_eq_true',
      decide_eq_false_iff_not, decide_eq_true_eq]
    omega
  · exfalso
    obtain ⟨hd, hlt, hle⟩ := hT'.log e he
    rcases hwin e.d h4 with h | h
    · exact hd h
    · omega

/-- for a policy that is never altered, the window is the policy's: `t + d ≥ clock` (or `d = 0`). -/
theorem in_window_queryable_init (clock d : Int) (cat : List Group)
    (hcat : WF (St.init clock d cat)) (ops : List Op)
    (hconst : ∀ x ∈ (steps (St.init clock d cat) ops).seen, x = d)
    (g0 : Group) (hg0 : g0 ∈ cat) (hlive : g0.deleted = false) (t : Int)
    (ht : g0.startT ≤ t ∧ t < g0.endT)
    (hwin : d = 0 ∨ t + d ≥ (steps (St.init clock d cat) ops).clock) :
    g0.gid ∈ queryGroups (steps (St.init clock d cat) ops).cat t t :=
  in_window_queryable (TimeInv.init clock d cat) hcat ops g0 hg0 hlive t ht
    (fun x hx => by rw [hconst x hx]; exact hwin)

/-! ## 7. the hypotheses are satisfiable: a worked instance -/

theorem WF.init (clock d : Int) (cat : List Group) (h1 : ∀ g ∈ cat, g.gid ≠ 0)
    (h2 : ∀ g ∈ cat, ∀ g' ∈ cat, g.gid = g'.gid → g.endT = g'.endT)
    (h3 : ∀ g ∈ cat, ∀ g' ∈ cat, ∀ x ∈ g.sids, x ∈ g'.sids → g.endT = g'.endT) :
    WF (St.init clock d cat) :=
  ⟨h1, h2, h3, by intro s hs; simp [St.init] at hs, by intro s hs; simp [St.init] at hs,
    by intro s hs; simp [St.init] at hs, by intro s hs; simp [St.init] at hs,
    by intro s hs; simp [St.init] at hs, by intro s hs; simp [St.init] at hs, by intro s hs; simp [St.init] at hs⟩

theorem PendInv.init (clock d : Int) (cat : List Group) : PendInv (St.init clock d cat) := by
  intro sid h; simp [St.init] at h

theorem EngUniq.init (clock d : Int) (cat : List Group) : EngUniq (St.init clock d cat) := by
  intro s h; simp [St.init] at h

/-- two groups [0,100) and [100,200), two partitions of which this store owns the first. -/
def exCat : List Group :=
  [⟨1, 0, 100, false, [⟨1, true, false⟩, ⟨2, false, false⟩]⟩,
   ⟨2, 100, 200, false, [⟨3, true, false⟩, ⟨4, false, false⟩]⟩]

/-- duration 50; both owned shards get written to; then the clock reads 170: group 1 expired
(100 + 50 < 170), group 2 not (200 + 50 ≥ 170). -/
def ex0 : St := steps (St.init 0 50 exCat) [.load 1, .load 3, .tick 170]

theorem exCat_wf : WF (St.init 0 50 exCat) :=
  WF.init 0 50 exCat (by decide) (by decide) (by decide)

theorem ex0_wf : WF ex0 := exCat_wf.steps _
theorem ex0_uniq : EngUniq ex0 := (EngUniq.init 0 50 exCat).steps _
theorem ex0_time : TimeInv ex0 := (TimeInv.init 0 50 exCat).steps _
theorem ex0_pend : PendInv ex0 := (PendInv.init 0 50 exCat).steps _
theorem ex0_static : CatStatic ex0.cat := by unfold CatStatic Group.sids; decide
theorem ex0_noOrphan : NoOrphan ex0 := by unfold NoOrphan Listed; decide

/-- the run deletes the expired shard 1, marks group 1 and the shard's catalogue entry, keeps 3. -/
example : (run Script.good ex0).eng.map (·.sid) = [3] ∧ (run Script.good ex0).disk = [3] ∧
    (run Script.good ex0).cat =
      [⟨1, 0, 100, true, [⟨1, true, true⟩, ⟨2, false, false⟩]⟩,
       ⟨2, 100, 200, false, [⟨3, true, false⟩, ⟨4, false, false⟩]⟩] := by decide

/-- `deleted_only_expired` on it: the three recorded actions all carry d = 50, end = 100, now = 170. -/
example : (run Script.good ex0).log.map (fun e => (e.d, e.endT, e.now)) =
    [(50, 100, 170), (50, 100, 170), (50, 100, 170)] := by decide

/-- `raise_before_delete_keeps` applies: raised to 200 before the run, group 1 is inside the window … -/
example : ∃ s' ∈ (run Script.good (step ex0 (.alter 200))).eng, s'.sid = 1 :=
  (raise_before_delete_keeps ex0_wf ex0_uniq ex0_noOrphan rfl rfl 200
    ⟨1, 0, 100, false, [⟨1, true, false⟩, ⟨2, false, false⟩]⟩ (by decide) rfl (Or.inr (by decide))
    Script.good).1 ⟨1, true, false⟩ (by decide) (by decide)

/-- … and really keeps both shards and leaves group 1 live. -/
example : (run Script.good (step ex0 (.alter 200))).eng.map (·.sid) = [1, 3] ∧
    queryGroups (run Script.good (step ex0 (.alter 200))).cat 50 50 = [1] := by decide

/-- the hypothesis "before the refresh" is needed: an alteration that lands after meta answered
this run's refresh (between `updateDurationInfo` and `ExpiredShards`) is too late for this run. -/
theorem raise_after_refresh_is_too_late :
    (run ⟨true, some 200, fun _ => .good⟩ ex0).eng.map (·.sid) = [3] := by decide

/-- `eventually_removed` applies to shard 1 of `ex0`. -/
example : Removed (run Script.good ex0) 1 ∧ 1 ∉ (run Script.good ex0).disk := by
  obtain ⟨h1, h2⟩ := eventually_removed ex0_wf ex0_static rfl 1
    ⟨1, 0, 100, false, [⟨1, true, false⟩, ⟨2, false, false⟩]⟩ (by decide) ⟨1, true, false⟩ (by decide) rfl rfl
    (by decide) (by decide) Script.good rfl (fun _ => rfl)
  exact ⟨h1, h2 (by decide) (by decide)⟩

/-- with failures the shard survives the run and a later fair run removes it: the delete times
out (pending), the prune fails; after the background delete completes the next run finishes the job. -/
def ex1 : St := run ⟨true, none, fun _ => ⟨true, .timeout, false⟩⟩ ex0

example : ex1.eng.map (·.sid) = [1, 3] ∧ ex1.pending = [1] ∧ (step ex1 .complete).eng.map (·.sid) = [3] ∧
    Removed (run Script.good (step ex1 .complete)) 1 :=
  ⟨by decide, by decide, by decide, by unfold Removed; decide⟩

/-- `in_window_queryable` on it: t = 150 (group 2) is inside the window of the only duration
ever seen (150 + 50 ≥ 170) and is returned; t = 50 is outside and its group is gone. -/
example : 2 ∈ queryGroups (steps ex0 (runOps Script.good ex0)).cat 150 150 :=
  in_window_queryable ex0_time ex0_wf (runOps Script.good ex0)
    ⟨2, 100, 200, false, [⟨3, true, false⟩, ⟨4, false, false⟩]⟩ (by decide) rfl 150 (by decide) (by decide)

example : queryGroups (run Script.good ex0).cat 150 150 = [2] ∧ queryGroups (run Script.good ex0).cat 50 50 = [] := by
  decide

end OG.C14
