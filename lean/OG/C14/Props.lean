/-
C14 — property theorems.

Property: "Data is deleted by the retention service only when it belongs to a shard whose whole
time span ended more than the retention policy's duration ago; a policy with unlimited duration
never loses data, and points whose timestamp is still within the retention window remain
queryable.  Raising a policy's duration before the deletion takes effect keeps the data;
expired shards are eventually removed from both storage and catalogue."

The expiry predicates, the write-side window test and `Overlaps` are the definitions ogfacts
regenerates from the Go source on every run (OG.Generated.C14); the service / store /
catalogue machine is `OG.C14.Model`, tied to the code by the correspondence run.
-/
import OG.C14.Lemmas

namespace OG.C14

/-! ## 1. the expiry instant -/

/-- **expired_iff** (`(*shard).IsExpired`): expired ⇔ the duration is limited and the shard's
end plus the duration lies strictly before now. -/
theorem expired_iff (d e now : Int) : shardIsExpired now d e = true ↔ d ≠ 0 ∧ e + d < now :=
  shardIsExpired_iff now d e

/-- the same for `(*EngineImpl).nilShardIsExpired` (not-loaded shards). -/
theorem nil_expired_iff (d e now : Int) : nilShardIsExpired now d e = true ↔ d ≠ 0 ∧ e + d < now :=
  nilShardIsExpired_iff now d e

/-- loaded and not-loaded shards are judged by the same test. -/
theorem expiry_tests_agree (d e now : Int) : shardIsExpired now d e = nilShardIsExpired now d e := by
  cases h : nilShardIsExpired now d e
  · cases h' : shardIsExpired now d e
    · rfl
    · exact absurd ((nil_expired_iff d e now).mpr ((expired_iff d e now).mp h')) (by simp [h])
  · exact (expired_iff d e now).mpr ((nil_expired_iff d e now).mp h)

/-- **unlimited_never**: duration 0 never expires, at any clock reading. -/
theorem unlimited_never (e now : Int) :
    shardIsExpired now 0 e = false ∧ nilShardIsExpired now 0 e = false := by
  constructor
  · cases h : shardIsExpired now 0 e
    · rfl
    · exact absurd rfl ((expired_iff 0 e now).mp h).1
  · cases h : nilShardIsExpired now 0 e
    · rfl
    · exact absurd rfl ((nil_expired_iff 0 e now).mp h).1

/-- at the exact instant `end + d = now` the shard is *not* yet expired (`Before`, not `!After`). -/
theorem boundary_not_expired (d e : Int) : shardIsExpired (e + d) d e = false := by
  cases h : shardIsExpired (e + d) d e
  · rfl
  · exact absurd ((expired_iff d e (e + d)).mp h).2 (by omega)

/-- an expired shard holds only points that are out of the window. -/
theorem expired_points_outside (d e now t : Int) (h : shardIsExpired now d e = true) (ht : t < e) :
    t + d < now := by
  have := ((expired_iff d e now).mp h).2; omega

example : shardIsExpired 101 50 50 = true ∧ shardIsExpired 100 50 50 = false ∧ shardIsExpired 1000 0 50 = false := by
  decide

/-! ## 2. the write side (`checkDBRP` + `routeAndMapOriginRows`) -/

/-- a write is refused only for a point that already is outside the window (the write path reads
a clock with one-second granularity that never runs ahead: `nowSec·10⁹ ≤ now`). -/
theorem rejected_only_outside_window (nowSec now d ts : Int) (hd : 0 < d) (hclk : nowSec * 1000000000 ≤ now)
    (h : writeRejected ts (writeMinTime nowSec d) = true) : ts + d < now := by
  unfold writeRejected writeMinTime at h
  simp only [decide_eq_true_eq] at h
  rw [if_pos (by simpa using hd)] at h
  omega

/-- an accepted point lands in a group that the coarse clock does not yet call expired. -/
theorem accepted_group_not_expired (nowSec d ts e : Int) (hd : 0 < d) (hte : ts < e)
    (h : writeRejected ts (writeMinTime nowSec d) = false) : ¬ (e + d < nowSec * 1000000000) := by
  unfold writeRejected writeMinTime at h
  simp only [decide_eq_false_iff_not] at h
  rw [if_pos (by simpa using hd)] at h
  omega

/-- unlimited duration: only negative timestamps are refused by this test. -/
theorem unlimited_rejects_only_negative (nowSec ts : Int) :
    writeRejected ts (writeMinTime nowSec 0) = true ↔ ts < 0 := by
  unfold writeRejected writeMinTime
  simp

example : writeRejected 949 (writeMinTime 1 50) = true ∧ writeRejected 999999950 (writeMinTime 1 50) = false := by
  decide

/-! ## 3. deleted ⇒ expired -/

/-- **deleted_only_expired**, over every interleaving of service steps, clock ticks, policy
alterations, shard creations / closings and late completions of timed-out deletes:

* a shard object leaves the store only through a delete the service issued (`deletedShard` on record),
* a group stops being readable only through a mark the service issued (`markedGroup` on record),
* and every recorded action was taken for an item that had passed the regenerated expiry test
  at that moment with the duration `d` the store held for it: `d ≠ 0`, `end + d < now`; hence
  every point `t < end` of that shard has `t + d < now`. -/
theorem deleted_only_expired {σ : St} (hT : TimeInv σ) (hP : PendInv σ) (ops : List Op) :
    (∀ sid, (∃ s ∈ σ.eng, s.sid = sid) → (∀ s ∈ (steps σ ops).eng, s.sid ≠ sid) →
      ∃ e ∈ (steps σ ops).log, e.kind = .deletedShard ∧ e.id = sid) ∧
    (∀ gid, (∃ g ∈ σ.cat, g.gid = gid ∧ g.deleted = false) →
      (∀ g' ∈ (steps σ ops).cat, g'.gid = gid → g'.deleted = true) →
      ∃ e ∈ (steps σ ops).log, e.kind = .markedGroup ∧ e.id = gid) ∧
    (∀ e ∈ (steps σ ops).log, e.d ≠ 0 ∧ e.endT + e.d < e.now ∧ e.now ≤ (steps σ ops).clock ∧
      ∀ t, t < e.endT → t + e.d < e.now) := by
  refine ⟨fun sid hin hout => shard_loss_recorded hP ops sid hin hout,
    fun gid hin hout => group_loss_recorded ops gid hin hout, ?_⟩
  intro e he
  obtain ⟨h1, h2, h3⟩ := (hT.steps ops).log e he
  exact ⟨h1, h2, h3, fun t ht => by omega⟩

/-- the duration used is the refreshed one: in a run that starts in `σ` and whose refresh
succeeds, every shard `ExpiredShards` reports passed the test against the clock, and — for every
shard the catalogue lists — with the policy duration meta returned to *this* run's refresh
(an alteration that lands after the refresh, `alterMid`, is not seen any more). -/
theorem run_decides_with_refreshed_duration {σ : St} (hu : EngUniq σ) (hidle : σ.phase = .idle)
    (sc : Script) (hrf : sc.refreshOk = true) :
    ∀ q ∈ (steps σ (runHead sc)).queue,
      q.dUsed ≠ 0 ∧ q.endT + q.dUsed < σ.clock ∧ (Listed σ.cat q.sid → q.dUsed = σ.metaDur) := by
  intro q hq
  rw [(runHead_ok hidle hrf).1] at hq
  have hq := mem_sortQ.mp hq
  obtain ⟨h1, h2⟩ := expiredShards_sound hq
  exact ⟨h1, h2, fun hl => fresh_after_refresh hu σ.clock hq hl⟩

/-- a run whose refresh fails touches nothing. -/
theorem run_without_refresh_touches_nothing {σ : St} (hidle : σ.phase = .idle) (hq : σ.queue = [])
    (sc : Script) (hrf : sc.refreshOk = false) :
    (run sc σ).cat = σ.cat ∧ (run sc σ).eng = σ.eng ∧ (run sc σ).disk = σ.disk ∧ (run sc σ).log = σ.log := by
  obtain ⟨h1, h2, h3, h4, _, h6, _⟩ := runHead_fail (sc := sc) hidle hrf
  have hc := run_core sc σ (by rw [h1, hq]; intro h; exact absurd rfl h)
  rw [h1, hq] at hc
  simp only [procQ, Core, Prod.mk.injEq] at hc
  obtain ⟨_, c2, c3, c4, _, c6⟩ := hc
  exact ⟨c2.trans h2, c3.trans h3, c4.trans h4, c6.trans h6⟩

/-! ## 4. raising the duration before the run keeps the data -/

/-- every shard object of the store is listed by the catalogue (it is, unless an earlier run
pruned the catalogue entry while its delete failed). -/
def NoOrphan (σ : St) : Prop := ∀ s ∈ σ.eng, Listed σ.cat s.sid

/-- the run-level core of `raise_before_delete_keeps`: the run starts in `σ`, whose catalogue
already carries the duration. -/
theorem run_keeps_in_window {σ : St} (hw' : WF σ) (hu' : EngUniq σ) (hno : NoOrphan σ)
    (hidle' : σ.phase = .idle) (hq' : σ.queue = []) (g : Group) (hg : g ∈ σ.cat)
    (hlive : g.deleted = false) (hkeep : σ.metaDur = 0 ∨ g.endT + σ.metaDur ≥ σ.clock) (sc : Script) :
    (∀ c ∈ g.shards, (∃ s ∈ σ.eng, s.sid = c.sid) → ∃ s' ∈ (run sc σ).eng, s'.sid = c.sid) ∧
    (∀ c ∈ g.shards, c.sid ∈ σ.disk → c.sid ∈ (run sc σ).disk) ∧
    (∃ g' ∈ (run sc σ).cat, g'.gid = g.gid ∧ g'.startT = g.startT ∧ g'.endT = g.endT ∧ g'.deleted = false) := by
  cases hrf : sc.refreshOk with
  | false =>
    obtain ⟨c2, c3, c4, _⟩ := run_without_refresh_touches_nothing hidle' hq' sc hrf
    refine ⟨?_, ?_, ?_⟩
    · intro c _ ⟨s, hs, hsid⟩
      exact ⟨s, by rw [c3]; exact hs, hsid⟩
    · intro c _ hc
      rw [c4]; exact hc
    · exact ⟨g, by rw [c2]; exact hg, rfl, rfl, rfl, hlive⟩
  | true =>
    obtain ⟨e1, e2, e3, e4, _, _, _, e8⟩ := runHead_ok (sc := sc) hidle' hrf
    have hc := run_core sc σ e8
    simp only [Core, Prod.mk.injEq] at hc
    obtain ⟨_, c2, c3, c4, _, _⟩ := hc
    have hw2 : WF (steps σ (runHead sc)) := hw'.steps _
    -- nothing that points at `g` is in the reported list
    have key : ∀ q ∈ (steps σ (runHead sc)).queue, (∀ c ∈ g.shards, q.sid ≠ c.sid) ∧ q.gid ≠ g.gid := by
      intro q hq
      have hqq := hq
      rw [e1] at hq
      have hq := mem_sortQ.mp hq
      obtain ⟨hd0, hlt⟩ := expiredShards_sound hq
      -- listed, hence decided with the refreshed duration
      have hlisted : Listed σ.cat q.sid := by
        unfold expiredShards at hq
        rcases List.mem_append.mp hq with h | h
        · obtain ⟨s', hs', _, _, rfl⟩ := mem_expiredLoaded.mp h
          simp only [refreshOk] at hs'
          obtain ⟨s, hs, rfl⟩ := List.mem_map.mp hs'
          simp only [updShard_sid]
          exact hno s hs
        · obtain ⟨i, hi, _, _, rfl⟩ := mem_expiredNil.mp h
          simp only [refreshOk, nilInfos] at hi
          exact (listed_iff σ.metaDur).mpr ⟨i, (List.mem_filter.mp hi).1, rfl⟩
      have hfresh : q.dUsed = σ.metaDur := fresh_after_refresh hu' σ.clock hq hlisted
      have hnot : ¬ (q.endT = g.endT) := by
        intro he
        rw [hfresh, he] at hlt
        rw [hfresh] at hd0
        rcases hkeep with h | h
        · exact hd0 h
        · omega
      constructor
      · intro c hc hsid
        apply hnot
        have hcs : q.sid ∈ g.sids := hsid ▸ List.mem_map.mpr ⟨c, hc, rfl⟩
        unfold expiredShards at hq
        rcases List.mem_append.mp hq with h | h
        · obtain ⟨s', hs', _, _, rfl⟩ := mem_expiredLoaded.mp h
          simp only [refreshOk] at hs'
          obtain ⟨s, hs, rfl⟩ := List.mem_map.mp hs'
          simp only [updShard_sid, updShard_endT] at hcs ⊢
          exact (hw'.engEnd s hs g hg hcs).symm
        · obtain ⟨i, hi, _, _, rfl⟩ := mem_expiredNil.mp h
          simp only [refreshOk, nilInfos] at hi
          obtain ⟨g1, hg1, c1, hc1, _, rfl⟩ := mem_durInfos.mp (List.mem_filter.mp hi).1
          simp only at hcs ⊢
          exact hw'.sidEnd g1 hg1 g hg c1.sid (List.mem_map.mpr ⟨c1, hc1, rfl⟩) hcs
      · intro hgid
        apply hnot
        exact (hw2.queueGid q hqq g (by rw [e2]; exact hg) hgid.symm).symm
    refine ⟨?_, ?_, ?_⟩
    · intro c hc ⟨s, hs, hsid⟩
      have hs2 : updShard (durInfos σ.cat σ.metaDur) s ∈ (steps σ (runHead sc)).eng := by
        rw [e3]; simp only [refreshOk]
        exact List.mem_map.mpr ⟨s, hs, rfl⟩
      refine ⟨updShard (durInfos σ.cat σ.metaDur) s, ?_, (updShard_sid _ s).trans hsid⟩
      rw [c3]
      exact procQ_eng_keep sc.outcome _ _ _ hs2 (fun q hq => by
        rw [updShard_sid, hsid]; exact (key q hq).1 c hc)
    · intro c hc hd
      rw [c4]
      exact procQ_disk_keep sc.outcome _ _ _ (by rw [e4]; exact hd) (fun q hq => (key q hq).1 c hc)
    · obtain ⟨g', hg', hs, hl⟩ := procQ_group_keep sc.outcome _ (steps σ (runHead sc)) g
        (by rw [e2]; exact hg) hlive (fun q hq => (key q hq).2)
      exact ⟨g', by rw [c2]; exact hg', hs.1, hs.2.1, hs.2.2.1, hl⟩

/-- **raise_before_delete_keeps**: the policy is altered to `d` (raised, or set to 0) before the
run starts.  If `d` keeps group `g` inside the window at the clock of the run
(`d = 0 ∨ g.end + d ≥ clock`), then after the run — whatever the script of failures, timeouts
and even a further alteration in the middle — every shard of `g` the store had is still in the
store and on disk, and `g` is still live in the catalogue. -/
theorem raise_before_delete_keeps {σ0 : St} (hw : WF σ0) (hu : EngUniq σ0) (hno : NoOrphan σ0)
    (hidle : σ0.phase = .idle) (hq0 : σ0.queue = []) (d : Int) (g : Group) (hg : g ∈ σ0.cat)
    (hlive : g.deleted = false) (hkeep : d = 0 ∨ g.endT + d ≥ σ0.clock) (sc : Script) :
    (∀ c ∈ g.shards, (∃ s ∈ σ0.eng, s.sid = c.sid) →
      ∃ s' ∈ (run sc (step σ0 (.alter d))).eng, s'.sid = c.sid) ∧
    (∀ c ∈ g.shards, c.sid ∈ σ0.disk → c.sid ∈ (run sc (step σ0 (.alter d))).disk) ∧
    (∃ g' ∈ (run sc (step σ0 (.alter d))).cat,
      g'.gid = g.gid ∧ g'.startT = g.startT ∧ g'.endT = g.endT ∧ g'.deleted = false) :=
  run_keeps_in_window (σ := step σ0 (.alter d)) (hw.step _) (hu.step _) hno hidle hq0 g hg hlive hkeep sc

/-- **unlimited duration never loses data**: the same with `d = 0`, for every group. -/
theorem unlimited_keeps_everything {σ0 : St} (hw : WF σ0) (hu : EngUniq σ0) (hno : NoOrphan σ0)
    (hidle : σ0.phase = .idle) (hq0 : σ0.queue = []) (g : Group) (hg : g ∈ σ0.cat)
    (hlive : g.deleted = false) (sc : Script) :
    (∀ c ∈ g.shards, (∃ s ∈ σ0.eng, s.sid = c.sid) →
      ∃ s' ∈ (run sc (step σ0 (.alter 0))).eng, s'.sid = c.sid) ∧
    (∃ g' ∈ (run sc (step σ0 (.alter 0))).cat, g'.gid = g.gid ∧ g'.deleted = false) := by
  obtain ⟨h1, _, g', hg', h3, _, _, h4⟩ :=
    raise_before_delete_keeps hw hu hno hidle hq0 0 g hg hlive (Or.inl rfl) sc
  exact ⟨h1, g', hg', h3, h4⟩

end OG.C14
