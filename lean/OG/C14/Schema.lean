/-
C14 — what a prune of shard groups does to the measurements (`SchemaCleanEn`, on by default):
`pruneShardGroups` → `SchemaClean(rp, max end of the groups it removed)` → every field whose
`EndTime` (high 32 bits of the end of the newest shard group it was written to) is not above the
pruned end leaves the schema; a measurement without fields is marked deleted
(`MarkMeasurementDelete`).  Hand-written from meta/measurement.go (`TimeReserveHigh32`,
`SchemaClean`), meta/data.go (`UpdateSchema`, `SchemaClean`, `pruneShardGroups`); tied by facts and
by the `c` stream of the harness (the real `meta.Data`).  Core only.
-/
namespace OG.C14.Sc

def two32 : Int := 4294967296

/-- `TimeReserveHigh32(t) = int32(t >> 32)` (arithmetic shift = floor division). -/
def hi (t : Int) : Int := t / two32

structure Fld where
  name : Nat
  endHi : Int
deriving DecidableEq, Repr

/-- `Data.UpdateSchema` for one field: created with the end time sent, else raised to it. -/
def upd (f : Nat) (e : Int) : List Fld → List Fld
  | [] => [⟨f, e⟩]
  | x :: r => if x.name == f then (if x.endHi < e then ⟨f, e⟩ :: r else x :: r) else x :: upd f e r

/-- the schema after a list of writes `(field, end of the shard group written to)`. -/
def schemaOf (ws : List (Nat × Int)) : List Fld := ws.foldl (fun s w => upd w.1 (hi w.2) s) []

/-- `MeasurementInfo.SchemaClean(sgEndTime)` -/
def clean (s : List Fld) (E : Int) : List Fld := s.filter fun x => !(decide (x.endHi ≤ hi E))

/-- `Data.SchemaClean`: a tsstore measurement with no field left is marked deleted. -/
def markedDeleted (s : List Fld) (E : Int) : Bool := (clean s E).isEmpty

end OG.C14.Sc
