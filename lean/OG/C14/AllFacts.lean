/-
C14 — umbrella of the expectations about the regenerated facts (source shapes, closed forms).
-/
import OG.C14.Facts
import OG.C14.IndexFacts
