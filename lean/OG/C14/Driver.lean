/-
C14 — line-protocol driver of the model (core only).

Stateless ops (times are relative to the wall clock of the call, so the model runs at now = 0):
  isx <d> <rel>                                   → 1 | 0          Shard.IsExpired()
  es <sid:d:rel:idx,…|-> <sid:d:rel,…|->          → exp <sids>     EngineImpl.ExpiredShards

Trace ops (one retention service, one store, one catalogue; state is kept between lines):
  t new <metaDur> <gid:start:end:deleted:sid.mine.marked+…;…>
  t alter <d> | t load <sid> | t close <sid> | t complete | t query <t>
  t run <refreshOk> <alterMid|-> <sid=mark.del.prune,…|->
every trace op answers `<op specific> | <state dump>`.
-/
import OG.C14.Model
import OG.C14.IndexDriver

namespace OG.C14

def bit (b : Bool) : String := if b then "1" else "0"

def parseBit : String → Option Bool
  | "1" => some true | "0" => some false | _ => none

def listOf (s : String) (sep : String) : List String :=
  if s == "-" || s == "" then [] else s.splitOn sep

def joinNat (xs : List Nat) : String := ",".intercalate (xs.map toString)

def sortNat (xs : List Nat) : List Nat := xs.mergeSort fun a b => decide (a ≤ b)

/-- `sid:d:rel:idx` -/
def parseLoaded (s : String) : Option EShard :=
  match s.splitOn ":" with
  | [sid, d, rel, idx] => do
    let sid ← sid.toNat?
    let d ← d.toInt?
    let rel ← rel.toInt?
    let idx ← parseBit idx
    some ⟨sid, 0, rel, idx, d⟩
  | _ => none

/-- `sid:d:rel` -/
def parseNil (s : String) : Option DurInfo :=
  match s.splitOn ":" with
  | [sid, d, rel] => do
    let sid ← sid.toNat?
    let d ← d.toInt?
    let rel ← rel.toInt?
    some ⟨sid, 0, rel, d⟩
  | _ => none

def parseCShard (s : String) : Option CShard :=
  match s.splitOn "." with
  | [sid, mine, marked] => do
    some ⟨← sid.toNat?, ← parseBit mine, ← parseBit marked⟩
  | _ => none

def parseGroup (s : String) : Option Group :=
  match s.splitOn ":" with
  | [gid, st, en, del, shards] => do
    let sh ← (listOf shards "+").mapM parseCShard
    some ⟨← gid.toNat?, ← st.toInt?, ← en.toInt?, ← parseBit del, sh⟩
  | _ => none

def parseDel : String → Option DelScript
  | "o" => some .ok | "f" => some .fail | "t" => some .timeout | _ => none

def parseOutcome (s : String) : Option (Nat × Outcome) :=
  match s.splitOn "=" with
  | [sid, o] =>
    match o.splitOn "." with
    | [m, d, p] => do some (← sid.toNat?, ⟨← parseBit m, ← parseDel d, ← parseBit p⟩)
    | _ => none
  | _ => none

def outcomeFn (xs : List (Nat × Outcome)) (sid : Nat) : Outcome :=
  match xs.find? (fun x => x.1 == sid) with
  | some x => x.2
  | none => .good

def showEng (eng : List EShard) : String :=
  let e := eng.mergeSort fun a b => decide (a.sid ≤ b.sid)
  ",".intercalate (e.map fun s => s!"{s.sid}:{s.gid}:{s.dur}:{bit s.idx}")

def showGroup (g : Group) : String :=
  s!"{g.gid}:{bit g.deleted}:" ++ "+".intercalate (g.shards.map fun s => s!"{s.sid}.{bit s.mine}.{bit s.marked}")

def dump (σ : St) : String :=
  s!"d={σ.metaDur} eng=[{showEng σ.eng}] disk=[{joinNat (sortNat σ.disk)}] cat=[{";".intercalate (σ.cat.map showGroup)}] pend=[{joinNat (sortNat σ.pending)}]"

def showDelRes : DelRes → String
  | .ok => "ok" | .notFound => "nf" | .failed => "fail" | .timedOut => "tmo" | .stillPending => "pend"
  | .closedErr => "closed"

/-- the calls one `proc` step makes, as the harness records them. -/
def procLog (o : Outcome) (q : QItem) (σ : St) : String :=
  let cat1 := markStage o.markOk q.gid σ.cat
  let r := delRes o.del q.sid σ.eng σ.pending
  let p := if !o.pruneOk then "0" else if pruneWouldPanic cat1 then "panic" else "1"
  s!" M{q.gid}:{bit o.markOk} D{q.sid}:{showDelRes r} P{q.sid}:{p}"

/-- run the `proc` steps of a run, collecting the call log. -/
def procAll (oc : Nat → Outcome) : Nat → St → String → St × String
  | 0, σ, acc => (σ, acc)
  | fuel + 1, σ, acc =>
    match σ.phase, σ.queue with
    | .processing, q :: _ =>
      let o := oc q.sid
      procAll oc fuel (step σ (.proc o)) (acc ++ procLog o q σ)
    | _, _ => (σ, acc)

/-- one `handle()`; only possible when no run is in flight. -/
def runLogged (sc : Script) (σ : St) : St × String :=
  if !sc.refreshOk then (step σ (.refresh false), "Rfail")
  else
    let σ1 := step σ (.refresh true)
    let head := s!"Rok N[{joinNat (sortNat (σ1.nilMap.map (·.sid)))}] E[{showEng σ1.eng}]"
    let σ2 := match sc.alterMid with
      | some d => step σ1 (.alter d)
      | none => σ1
    let σ3 := step σ2 .collect
    let head := head ++ s!" X[{joinNat (σ3.queue.map (·.sid))}]"
    procAll sc.outcome (σ3.queue.length) σ3 head

def stepTrace (σ : Option St) (ws : List String) : Option St × String :=
  match σ, ws with
  | _, ["new", d, groups] =>
    match d.toInt?, (listOf groups ";").mapM parseGroup with
    | some d, some gs => let σ := St.init 0 d gs; (some σ, "ok | " ++ dump σ)
    | _, _ => (σ, "bad-op")
  | some σ, ["alter", d] =>
    match d.toInt? with
    | some d => let σ := step σ (.alter d); (some σ, "ok | " ++ dump σ)
    | none => (some σ, "bad-op")
  | some σ, ["load", sid] =>
    match sid.toNat? with
    | some sid =>
      let σ' := step σ (.load sid)
      (some σ', (if σ'.eng.length == σ.eng.length then "noop" else "ok") ++ " | " ++ dump σ')
    | none => (some σ, "bad-op")
  | some σ, ["close", sid] =>
    match sid.toNat? with
    | some sid => let σ := step σ (.close sid); (some σ, "ok | " ++ dump σ)
    | none => (some σ, "bad-op")
  | some σ, ["complete"] => let σ := step σ .complete; (some σ, "ok | " ++ dump σ)
  | some σ, ["query", t] =>
    match t.toInt? with
    | some t => (some σ, s!"groups {joinNat (queryGroups σ.cat t t)} | " ++ dump σ)
    | none => (some σ, "bad-op")
  | some σ, ["run", rf, am, ocs] =>
    let am' : Option (Option Int) := if am == "-" then some none else (am.toInt?).map some
    match σ.phase, parseBit rf, am', (listOf ocs ",").mapM parseOutcome with
    | .idle, some rf, some am, some ocs =>
      let (σ', log) := runLogged ⟨rf, am, outcomeFn ocs⟩ σ
      (some σ', log ++ " | " ++ dump σ')
    | _, _, _, _ => (some σ, "bad-op")
  | _, _ => (σ, "bad-op")

/-- driver state: the trace machine of `Model.lean` and the index-side machine of `Index.lean`. -/
abbrev DSt := Option St × Option Ix.St × Option (Al.Cat × Int) × Option Sh.St × Option Sc.CSt

def stepLine1 (σ : Option St) (line : String) : Option St × String :=
  match (line.trimAscii.toString.splitOn " ").filter (· ≠ "") with
  | ["isx", d, rel] =>
    match d.toInt?, rel.toInt? with
    | some d, some rel => (σ, bit (shardIsExpired 0 d rel))
    | _, _ => (σ, "bad-op")
  | ["es", ls, ns] =>
    match (listOf ls ",").mapM parseLoaded, (listOf ns ",").mapM parseNil with
    | some l, some n => (σ, "exp " ++ joinNat (sortNat ((expiredShards 0 l n).map (·.sid))))
    | _, _ => (σ, "bad-op")
  | "t" :: ws => stepTrace σ ws
  | _ => (σ, "bad-op")

def stepLine (σ : DSt) (line : String) : DSt × String :=
  match (line.trimAscii.toString.splitOn " ").filter (· ≠ "") with
  | "x" :: ws => let (x, ans) := Ix.stepX σ.2.1 ws; ((σ.1, x, σ.2.2), ans)
  | "c" :: ws => let (x, ans) := Sc.stepC σ.2.2.2.2 ws; ((σ.1, σ.2.1, σ.2.2.1, σ.2.2.2.1, x), ans)
  | "g" :: ws => let (g, ans) := Al.stepG σ.2.2.1 ws; ((σ.1, σ.2.1, g, σ.2.2.2), ans)
  | "m" :: ws => (σ, Tier.stepM ws)
  | "s" :: ws => let (x, ans) := Sh.stepS σ.2.2.2.1 ws; ((σ.1, σ.2.1, σ.2.2.1, x, σ.2.2.2.2), ans)
  | _ => let (s, ans) := stepLine1 σ.1 line; ((s, σ.2), ans)

partial def loop (h out : IO.FS.Stream) (σ : DSt) : IO Unit := do
  let line ← h.getLine
  if line.isEmpty then return ()
  let (σ', ans) := stepLine σ line
  out.putStrLn ans
  loop h out σ'

def main : IO Unit := do
  loop (← IO.getStdin) (← IO.getStdout) (none, none, none, none, none)

end OG.C14

def main : IO Unit := OG.C14.main
