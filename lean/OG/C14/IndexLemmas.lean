/-
C14 — helper lemmas of the index-side machine (`Index.lean`): the regenerated functions in closed
form, membership facts, and the two invariants
  * `InvA`: shards never end after the index they hold (alignment carried from the catalogue),
    everything queued by `ExpiredIndexes` passed the expiry test, every `delIndex` record names
    users that are expired under the duration the decision used;
  * `InvF`: a builder the index side of this run's refresh reached holds exactly the duration
    meta handed out (this is where `SetDuration` must really set), and so does every queued item.
-/
import OG.C14.Index
import OG.C14.Lemmas

namespace OG.C14.Ix
open OG.C14

/-! ### the regenerated functions -/

theorem ixExpired_iff (now : Int) (b : IxBuilder) :
    ixExpired now b = true ↔ b.duration ≠ 0 ∧ b.endTime + b.duration < now := by
  unfold ixExpired
  simp

theorem ixExpiredCache_iff (now : Int) (b : IxBuilder) :
    ixExpiredCache now b = true ↔ b.duration ≠ 0 ∧ b.endTime + b.cacheDuration < now := by
  unfold ixExpiredCache
  simp

/-- `SetDuration` does not move the builder's time range. -/
theorem ixSetDuration_endTime (b : IxBuilder) (d : Int) : (ixSetDuration b d).endTime = b.endTime := by
  unfold ixSetDuration
  (try split) <;> rfl

theorem ixSetDuration_cacheDuration (b : IxBuilder) (d : Int) :
    (ixSetDuration b d).cacheDuration = b.cacheDuration := by
  unfold ixSetDuration
  (try split) <;> rfl

/-- `SetDuration` stores what it is given — every value, 0 (unlimited) included. -/
theorem ixSetDuration_duration (b : IxBuilder) (d : Int) : (ixSetDuration b d).duration = d := by
  unfold ixSetDuration
  rfl

/-! ### membership -/

theorem mem_insI {x a : IQ} {l : List IQ} : x ∈ insI a l ↔ x = a ∨ x ∈ l := by
  induction l with
  | nil => simp [insI]
  | cons b r ih =>
    simp only [insI]
    split
    · simp
    · simp only [List.mem_cons, ih]
      constructor
      · rintro (h | h | h)
        · exact Or.inr (Or.inl h)
        · exact Or.inl h
        · exact Or.inr (Or.inr h)
      · rintro (h | h | h)
        · exact Or.inr (Or.inl h)
        · exact Or.inl h
        · exact Or.inr (Or.inr h)

theorem mem_sortI {q : IQ} {l : List IQ} : q ∈ sortI l ↔ q ∈ l := by
  unfold sortI
  induction l with
  | nil => simp
  | cons a r ih => simp only [List.foldr_cons, mem_insI, ih, List.mem_cons]

/-- what `ExpiredIndexes` reports: a loaded builder that passed `Expired()` while no shard that
has not expired works with it, or a not-loaded entry that passed `nilShardIsExpired`. -/
theorem mem_expiredI {now : Int} {shards : List XShard} {idxs : List XIndex} {nm : List IInfo} {q : IQ}
    (h : q ∈ expiredI now shards idxs nm) :
    (∃ x ∈ idxs, ixExpired now x.b = true ∧ heldLive now shards x.iid = false ∧
      q = ⟨x.iid, x.igid, x.b.endTime, x.b.duration, x.fresh, now, false, heldOf shards x.iid⟩) ∨
    (∃ i ∈ nm, nilShardIsExpired now i.dur i.endT = true ∧
      q = ⟨i.iid, i.igid, i.endT, i.dur, true, now, true, heldOf shards i.iid⟩) := by
  unfold expiredI at h
  simp only [List.mem_append, List.mem_map, List.mem_filter, Bool.and_eq_true, Bool.not_eq_true'] at h
  rcases h with ⟨x, ⟨hx, he, hl⟩, rfl⟩ | ⟨i, ⟨hi, ⟨_, _⟩, he⟩, rfl⟩
  · exact Or.inl ⟨x, hx, he, hl, rfl⟩
  · exact Or.inr ⟨i, hi, he, rfl⟩

theorem expiredI_sound {now : Int} {shards : List XShard} {idxs : List XIndex} {nm : List IInfo} {q : IQ}
    (h : q ∈ expiredI now shards idxs nm) : q.dUsed ≠ 0 ∧ q.endT + q.dUsed < q.nowD ∧ q.nowD = now := by
  rcases mem_expiredI h with ⟨x, _, he, _, rfl⟩ | ⟨i, _, he, rfl⟩
  · exact ⟨((ixExpired_iff _ _).mp he).1, ((ixExpired_iff _ _).mp he).2, rfl⟩
  · exact ⟨((nilShardIsExpired_iff _ _ _).mp he).1, ((nilShardIsExpired_iff _ _ _).mp he).2, rfl⟩

/-- a builder of the partition is reported only when every shard object that works with it has
itself expired, by its own duration, at that clock reading. -/
theorem expiredI_held {now : Int} {shards : List XShard} {idxs : List XIndex} {nm : List IInfo} {q : IQ}
    (h : q ∈ expiredI now shards idxs nm) (hn : q.fromNil = false) :
    ∀ u ∈ q.held, u.2.2 ≠ 0 ∧ u.2.1 + u.2.2 < q.nowD := by
  rcases mem_expiredI h with ⟨x, _, _, hl, rfl⟩ | ⟨i, _, _, rfl⟩
  · intro u hu
    unfold heldOf at hu
    obtain ⟨s, hs, rfl⟩ := List.mem_map.mp hu
    unfold heldLive at hl
    have := (List.any_eq_false.mp hl) s hs
    have he : shardIsExpired now s.dur s.endT = true := by simpa using this
    exact (shardIsExpired_iff _ _ _).mp he
  · exact absurd hn (by simp)

theorem updShard_iid (infos : List SInfo) (s : XShard) : (updShard infos s).iid = s.iid := by
  unfold updShard; split
  · split <;> rfl
  · rfl

theorem updShard_endT (infos : List SInfo) (s : XShard) : (updShard infos s).endT = s.endT := by
  unfold updShard; split
  · split <;> rfl
  · rfl

theorem updShard_sid (infos : List SInfo) (s : XShard) : (updShard infos s).sid = s.sid := by
  unfold updShard; split
  · split <;> rfl
  · rfl

theorem updIndexS_iid (d : Int) (infos : List SInfo) (sh : List XShard) (x : XIndex) :
    (updIndexS d infos sh x).iid = x.iid := by
  unfold updIndexS; split <;> rfl

theorem updIndexS_endTime (d : Int) (infos : List SInfo) (sh : List XShard) (x : XIndex) :
    (updIndexS d infos sh x).b.endTime = x.b.endTime := by
  unfold updIndexS; split
  · exact ixSetDuration_endTime _ _
  · rfl

theorem updIndexS_fresh (d : Int) (infos : List SInfo) (sh : List XShard) (x : XIndex) :
    (updIndexS d infos sh x).fresh = x.fresh := by
  unfold updIndexS; split <;> rfl

theorem updIndexI_iid (infos : List IInfo) (x : XIndex) : (updIndexI infos x).iid = x.iid := by
  unfold updIndexI; split <;> rfl

theorem updIndexI_endTime (infos : List IInfo) (x : XIndex) : (updIndexI infos x).b.endTime = x.b.endTime := by
  unfold updIndexI; split
  · exact ixSetDuration_endTime _ _
  · rfl

theorem mem_markSG {gid : Nat} {cs : List CSh} {c' : CSh} (h : c' ∈ markSG gid cs) :
    ∃ c ∈ cs, c'.iid = c.iid ∧ c'.endT = c.endT ∧ c'.sid = c.sid := by
  unfold markSG at h
  obtain ⟨c, hc, rfl⟩ := List.mem_map.mp h
  refine ⟨c, hc, ?_⟩
  split <;> exact ⟨rfl, rfl, rfl⟩

theorem mem_pruneS {sid : Nat} {cs : List CSh} {c' : CSh} (h : c' ∈ pruneS sid cs) :
    ∃ c ∈ cs, c'.iid = c.iid ∧ c'.endT = c.endT ∧ c'.sid = c.sid := by
  unfold pruneS at h
  obtain ⟨h, _⟩ := List.mem_filter.mp h
  obtain ⟨c, hc, rfl⟩ := List.mem_map.mp h
  refine ⟨c, hc, ?_⟩
  split <;> exact ⟨rfl, rfl, rfl⟩

theorem mem_markIG {igid : Nat} {ci : List CIx} {c' : CIx} (h : c' ∈ markIG igid ci) :
    ∃ c ∈ ci, c'.iid = c.iid ∧ c'.endT = c.endT ∧ c'.startT = c.startT := by
  unfold markIG at h
  obtain ⟨c, hc, rfl⟩ := List.mem_map.mp h
  refine ⟨c, hc, ?_⟩
  split <;> exact ⟨rfl, rfl, rfl⟩

theorem mem_pruneI {iid : Nat} {ci : List CIx} {c' : CIx} (h : c' ∈ pruneI iid ci) :
    ∃ c ∈ ci, c'.iid = c.iid ∧ c'.endT = c.endT ∧ c'.startT = c.startT := by
  unfold pruneI at h
  obtain ⟨h, _⟩ := List.mem_filter.mp h
  obtain ⟨c, hc, rfl⟩ := List.mem_map.mp h
  refine ⟨c, hc, ?_⟩
  split <;> exact ⟨rfl, rfl, rfl⟩

/-- the catalogue entries after one iteration of the shard loop come from entries before it. -/
theorem procS_cs_back {o : Outcome} {q : SQ} {σ : St} {c' : CSh} (h : c' ∈ (procS o q σ).cs) :
    ∃ c ∈ σ.cs, c'.iid = c.iid ∧ c'.endT = c.endT := by
  simp only [procS] at h
  by_cases hp : o.pruneOk = true <;> by_cases hm : o.markOk = true <;> simp only [hp, hm, if_true] at h
  · obtain ⟨c1, h1, e1, e2, _⟩ := mem_pruneS h
    obtain ⟨c, hc, f1, f2, _⟩ := mem_markSG h1
    exact ⟨c, hc, e1.trans f1, e2.trans f2⟩
  · obtain ⟨c, hc, e1, e2, _⟩ := mem_pruneS h
    exact ⟨c, hc, e1, e2⟩
  · obtain ⟨c, hc, e1, e2, _⟩ := mem_markSG h
    exact ⟨c, hc, e1, e2⟩
  · exact ⟨c', h, rfl, rfl⟩

theorem procI_ci_back {o : Outcome} {q : IQ} {σ : St} {c' : CIx} (h : c' ∈ (procI o q σ).ci) :
    ∃ c ∈ σ.ci, c'.iid = c.iid ∧ c'.endT = c.endT := by
  simp only [procI] at h
  by_cases hp : o.pruneOk = true <;> by_cases hm : o.markOk = true <;> simp only [hp, hm, if_true] at h
  · obtain ⟨c1, h1, e1, e2, _⟩ := mem_pruneI h
    obtain ⟨c, hc, f1, f2, _⟩ := mem_markIG h1
    exact ⟨c, hc, e1.trans f1, e2.trans f2⟩
  · obtain ⟨c, hc, e1, e2, _⟩ := mem_pruneI h
    exact ⟨c, hc, e1, e2⟩
  · obtain ⟨c, hc, e1, e2, _⟩ := mem_markIG h
    exact ⟨c, hc, e1, e2⟩
  · exact ⟨c', h, rfl, rfl⟩

/-! ### alignment: who may hold an index (`Low`), what stands for an index (`Top`) -/

/-- a shard object of the store, or a shard of the catalogue, on index `i`, ending at `e`. -/
def Low (σ : St) (i : Nat) (e : Int) : Prop :=
  (∃ s ∈ σ.shards, s.iid = i ∧ s.endT = e) ∨ (∃ c ∈ σ.cs, c.iid = i ∧ c.endT = e)

/-- index `i` with end `e`: a builder of the store, an index of the catalogue, an entry of the
not-loaded map, a reported item. -/
def Top (σ : St) (i : Nat) (e : Int) : Prop :=
  (∃ x ∈ σ.idxs, x.iid = i ∧ x.b.endTime = e) ∨ (∃ c ∈ σ.ci, c.iid = i ∧ c.endT = e) ∨
  (∃ n ∈ σ.nilI, n.iid = i ∧ n.endT = e) ∨ (∃ q ∈ σ.iq, q.iid = i ∧ q.endT = e)

/-- no shard ends after the index (group) it belongs to. -/
def Aligned (σ : St) : Prop := ∀ i e e', Low σ i e → Top σ i e' → e ≤ e'

theorem Low.of {σ σ' : St} {i : Nat} {e : Int}
    (hs : ∀ s ∈ σ'.shards, (∃ s0 ∈ σ.shards, s0.iid = s.iid ∧ s0.endT = s.endT) ∨ (∃ c ∈ σ.cs, c.iid = s.iid ∧ c.endT = s.endT))
    (hc : ∀ c ∈ σ'.cs, ∃ c0 ∈ σ.cs, c.iid = c0.iid ∧ c.endT = c0.endT)
    (h : Low σ' i e) : Low σ i e := by
  rcases h with ⟨s, hs', rfl, rfl⟩ | ⟨c, hc', rfl, rfl⟩
  · rcases hs s hs' with ⟨s0, h0, e1, e2⟩ | ⟨c, h0, e1, e2⟩
    · exact Or.inl ⟨s0, h0, e1, e2⟩
    · exact Or.inr ⟨c, h0, e1, e2⟩
  · obtain ⟨c0, h0, e1, e2⟩ := hc c hc'
    exact Or.inr ⟨c0, h0, e1.symm, e2.symm⟩

theorem Top.of {σ σ' : St} {i : Nat} {e : Int}
    (hx : ∀ x ∈ σ'.idxs, Top σ x.iid x.b.endTime)
    (hc : ∀ c ∈ σ'.ci, ∃ c0 ∈ σ.ci, c.iid = c0.iid ∧ c.endT = c0.endT)
    (hn : ∀ n ∈ σ'.nilI, Top σ n.iid n.endT)
    (hq : ∀ q ∈ σ'.iq, Top σ q.iid q.endT)
    (h : Top σ' i e) : Top σ i e := by
  rcases h with ⟨x, hx', rfl, rfl⟩ | ⟨c, hc', rfl, rfl⟩ | ⟨n, hn', rfl, rfl⟩ | ⟨q, hq', rfl, rfl⟩
  · exact hx x hx'
  · obtain ⟨c0, h0, e1, e2⟩ := hc c hc'
    exact Or.inr (Or.inl ⟨c0, h0, e1.symm, e2.symm⟩)
  · exact hn n hn'
  · exact hq q hq'

theorem Top.idx {σ : St} {x : XIndex} (h : x ∈ σ.idxs) : Top σ x.iid x.b.endTime := Or.inl ⟨x, h, rfl, rfl⟩
theorem Top.cat {σ : St} {c : CIx} (h : c ∈ σ.ci) : Top σ c.iid c.endT := Or.inr (Or.inl ⟨c, h, rfl, rfl⟩)
theorem Top.nil {σ : St} {n : IInfo} (h : n ∈ σ.nilI) : Top σ n.iid n.endT := Or.inr (Or.inr (Or.inl ⟨n, h, rfl, rfl⟩))
theorem Top.q {σ : St} {q : IQ} (h : q ∈ σ.iq) : Top σ q.iid q.endT := Or.inr (Or.inr (Or.inr ⟨q, h, rfl, rfl⟩))

end OG.C14.Ix
