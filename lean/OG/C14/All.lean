/-
C14 — umbrella of the property theorems (one module to build and to audit: `./check` takes the
Lean lock once).
-/
import OG.C14.Props
import OG.C14.IndexProps
import OG.C14.AlignProps
import OG.C14.SharedProps
import OG.C14.TierProps
import OG.C14.SchemaProps
import OG.C14.CmdProps
