/-
C14 — retention on shared storage (product mode logkeeper): the catalogue decides.

`HandleSharedStorage`: `GetExpiredShards` → (groups to mark, groups whose grace period is over);
the first are marked with `DelayDeleteShardGroup(now)`, the shards of the second are removed from
the object store and pruned from the catalogue; then `GetExpiredIndexes` → `DeleteIndexGroup` +
prune.  `RevertRetentionPolicyDelete` takes the marks back (`CancelDelete`).

*Regenerated* (OG.Generated.C14, from lib/metaclient/meta_client_impl.go): `sharedMarkCond`,
`sharedInGrace`, `sharedIndexSkip`.  *Hand-written* from `GetExpiredShards`, `GetExpiredIndexes`,
`RevertRetentionPolicyDelete`, `HandleSharedStorage`, `Data.DeleteShardGroup`, `pruneShardGroups`,
`DeleteIndexGroup`, `pruneIndexGroups`; tied by facts and by the `s` stream of the harness (the
real client functions over the real `meta.Data`; the object store itself is not driven).
Times are `Int` ns; one node owns every partition.
-/
import OG.Generated.C14

namespace OG.C14.Sh
open OG.C14

/-- `RetentionDelayedTime = 24 * time.Hour` -/
def delay : Int := 24 * 3600 * 1000000000

/-- a shard group: `deletedAt` = `DeletedAt` if set; `dMark` (ghost) = the policy duration when
it was marked; shards = (id, `MarkDelete`). -/
structure SG where
  gid : Nat
  endT : Int
  deletedAt : Option Int
  dMark : Int
  shards : List (Nat × Bool)
deriving DecidableEq, Repr

structure IG where
  igid : Nat
  endT : Int
  deleted : Bool
  idxs : List (Nat × Bool)
deriving DecidableEq, Repr

/-- ghost record: shard `sid` of group `gid` removed from the object store and pruned. -/
structure Ev where
  sid : Nat
  gid : Nat
  endT : Int
  markedAt : Int
  dMark : Int
  now : Int
  dNow : Int          -- the policy duration when the shard was removed
deriving DecidableEq, Repr

structure St where
  clock : Int
  dur : Int
  sgs : List SG
  igs : List IG
  gone : List Nat       -- shards removed from the object store
  log : List Ev
deriving Repr

/-- first list of `GetExpiredShards`: live groups that pass the mark test. -/
def toMark (σ : St) : List Nat :=
  (σ.sgs.filter fun g => g.deletedAt.isNone && sharedMarkCond σ.clock σ.dur g.endT).map (·.gid)

/-- second list: marked groups whose grace period is over, with their unmarked shards. -/
def toDelete (σ : St) : List (SG × List Nat) :=
  (σ.sgs.filter fun g => match g.deletedAt with
      | some da => !sharedInGrace σ.clock da delay
      | none => false).map fun g => (g, (g.shards.filter fun s => !s.2).map (·.1))

/-- `DelayDeleteShardGroup(gid, now, MarkDelete)` for every group of the first list (group ids
are unique: marking by id = marking the groups that passed the test). -/
def markAll (now d : Int) (sgs : List SG) : List SG :=
  sgs.map fun g => if g.deletedAt.isNone && sharedMarkCond now d g.endT then { g with deletedAt := some now, dMark := d } else g

/-- `pruneShardGroups(sid)` (ids of a group are consecutive: exact match) -/
def pruneS (sid : Nat) (sgs : List SG) : List SG :=
  (sgs.map fun g => { g with shards := g.shards.map fun s => if s.1 == sid then (s.1, true) else s }).filter
    fun g => !(g.deletedAt.isSome && g.shards.all (·.2))

def delShards (now dNow : Int) (g : SG) : List Nat → St → St
  | [], σ => σ
  | sid :: rest, σ =>
    let ev : Ev := ⟨sid, g.gid, g.endT, g.deletedAt.getD 0, g.dMark, now, dNow⟩
    delShards now dNow g rest { σ with sgs := pruneS sid σ.sgs, gone := sid :: σ.gone, log := ev :: σ.log }

def delGroups (now dNow : Int) : List (SG × List Nat) → St → St
  | [], σ => σ
  | (g, sids) :: rest, σ => delGroups now dNow rest (delShards now dNow g sids σ)

/-- `GetExpiredIndexes` + `DeleteIndexGroup` + prune of every index: the group leaves. -/
def expIdx (σ : St) : List Nat :=
  (σ.igs.filter fun g => !sharedIndexSkip σ.clock σ.dur g.endT delay).map (·.igid)

inductive Op
  | tick (dt : Int)
  | alter (d : Int)
  | check            -- one `HandleSharedStorage`
  | revert           -- `RevertRetentionPolicyDelete`
deriving Repr

def check (σ : St) : St :=
  let dels := toDelete σ
  let σ1 := { σ with sgs := markAll σ.clock σ.dur σ.sgs }
  let σ2 := delGroups σ.clock σ.dur dels σ1
  { σ2 with igs := σ2.igs.filter fun g => !(expIdx σ2).contains g.igid }

def step (σ : St) : Op → St
  | .tick dt => { σ with clock := σ.clock + dt }
  | .alter d => { σ with dur := d }
  | .check => check σ
  | .revert => { σ with sgs := σ.sgs.map fun g => { g with deletedAt := none } }

def steps (σ : St) (ops : List Op) : St := ops.foldl step σ

def St.init (clock d : Int) (sgs : List SG) (igs : List IG) : St := ⟨clock, d, sgs, igs, [], []⟩

end OG.C14.Sh
