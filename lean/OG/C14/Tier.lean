/-
C14 — tier moves next to retention (hierarchical storage): which shards
`FetchShardsNeedChangeStore` hands to the mover.  `shardTierExpired` is regenerated from
`(*shard).IsTierExpired`; the tier numbers are facts (lib/util/util.go).  A tier move copies a
shard to the next store and is not a retention decision: the point here is that it uses its own
duration and never the deletion test.  (`EnableWriteHistoryOrderedData` off, the default.)
-/
import OG.Generated.C14

namespace OG.C14.Tier
open OG.C14

inductive Move
  | stay | toWarm | toCold
deriving DecidableEq, Repr

def hot : Nat := 1
def cold : Nat := 3

/-- the body of the loop of `FetchShardsNeedChangeStore` for one shard. -/
def move (now : Int) (tier : Nat) (tierDur endT : Int) : Move :=
  if !shardTierExpired now tierDur endT || tier == cold then .stay
  else if tier == hot then .toWarm else .toCold

/-- `RetentionPolicyInfo.TierDuration(tier)` -/
def tierDuration (hotD warmD : Int) (tier : Nat) : Int :=
  if tier == 1 then hotD else if tier == 2 || tier == 4 then warmD else 0

end OG.C14.Tier
