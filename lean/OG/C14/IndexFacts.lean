/-
C14 — expectations about the regenerated facts of the index side (see `Facts.lean`): the
source shapes `Index.lean` transcribes, and closed forms of the translated functions of
engine/index/tsi/index_builder.go.
-/
import OG.C14.Index

namespace OG.C14.IxFacts
open OG.Gen.C14 OG.C14

theorem src_ExpiredIndexes_expected : src_ExpiredIndexes = "{ e.mu.RLock() defer e.mu.RUnlock() var res []*meta2.IndexIdentifier for db := range e.DBPartitions { for _, pti := range e.DBPartitions[db] { pti.mu.RLock() for idxId := range e.DBPartitions[db][pti.id].indexBuilder { iBuilder := e.DBPartitions[db][pti.id].indexBuilder[idxId] if iBuilder.Expired() && !pti.indexHeldByLiveShardNoLock(iBuilder) { res = append(res, iBuilder.Ident()) } } for idxId, info := range *nilIndexMap { if e.containIdxid(res, idxId) { continue } if _, loaded := pti.indexBuilder[idxId]; loaded { continue } if e.nilShardIsExpired(info.DurationInfo.Duration, info.Ident.EndTime) { index := meta2.IndexDescriptor{ IndexID: info.Ident.IndexID, IndexGroupID: info.Ident.IndexGroupID, TimeRange: meta2.TimeRangeInfo{ StartTime: info.Ident.StartTime, EndTime: info.Ident.EndTime, }, } res = append(res, &meta2.IndexIdentifier{ OwnerDb: info.Ident.OwnerDb, OwnerPt: info.Ident.OwnerPt, Policy: info.Ident.Policy, Index: &index, }) } } pti.mu.RUnlock() } } return res }" := by rfl

theorem src_ExpiredCacheIndexes_expected : src_ExpiredCacheIndexes = "{ e.mu.RLock() defer e.mu.RUnlock() var res []*meta2.IndexIdentifier for db := range e.DBPartitions { for _, pti := range e.DBPartitions[db] { pti.mu.RLock() for idxId := range e.DBPartitions[db][pti.id].indexBuilder { if e.DBPartitions[db][pti.id].indexBuilder[idxId].ExpiredCache() { res = append(res, e.DBPartitions[db][pti.id].indexBuilder[idxId].Ident()) } } pti.mu.RUnlock() } } return res }" := by rfl

theorem src_UpdateIndexDurationInfo_expected : src_UpdateIndexDurationInfo = "{ e.mu.RLock() if err := e.checkAndAddRefPTNoLock(info.Ident.OwnerDb, info.Ident.OwnerPt); err != nil { e.mu.RUnlock() return err } dbPT := e.DBPartitions[info.Ident.OwnerDb][info.Ident.OwnerPt] e.mu.RUnlock() defer e.unrefDBPT(info.Ident.OwnerDb, info.Ident.OwnerPt) dbPT.mu.RLock() defer dbPT.mu.RUnlock() index := dbPT.indexBuilder[info.Ident.IndexID] if index == nil { (*nilIndexMap)[info.Ident.IndexID] = info return nil } index.Ident().Index.IndexGroupID = info.Ident.IndexGroupID index.SetDuration(info.DurationInfo.Duration) index.SetMergeDuration(info.DurationInfo.MergeDuration) return nil }" := by rfl

theorem src_containIdxid_expected : src_containIdxid = "{ for _, s := range indexes { if s.Index.IndexID == idxId { return true } } return false }" := by rfl

theorem src_getShardIndex_expected : src_getShardIndex = "{ if config.IsLogKeeper() { return nil, nil } dbPT.mu.RLock() indexBuilder, ok := dbPT.indexBuilder[indexID] dbPT.mu.RUnlock() if !ok { return nil, errno.NewError(errno.IndexNotFound, dbPT.database, dbPT.id, indexID) } indexBuilder.SetDuration(duration) indexBuilder.SetMergeDuration(mergeDuration) return indexBuilder, nil }" := by rfl

theorem src_svcUpdateIndexDurationInfo_expected : src_svcUpdateIndexDurationInfo = "{ res, err := s.MetaClient.GetIndexDurationInfo(s.index) if err != nil { return err } if res.DataIndex > s.index { s.index = res.DataIndex } for i := range res.Durations { err = s.Engine.UpdateIndexDurationInfo(&res.Durations[i], nilIndexMap) if errno.Equal(err, errno.PtNotFound) || errno.Equal(err, errno.DBPTClosed) { continue } if err != nil { return err } } return nil }" := by rfl

theorem src_DeleteByEngine_expected : src_DeleteByEngine = "{ if delType == ShardDelete { return s.Engine.DeleteShard(db, ptId, id) } else { return s.Engine.DeleteIndex(db, ptId, id) } }" := by rfl

theorem src_DeleteIndexGroup_expected : src_DeleteIndexGroup = "{ rpi, err := data.RetentionPolicy(database, policy) if err != nil { return err } for i := range rpi.IndexGroups { if rpi.IndexGroups[i].ID == id { rpi.IndexGroups[i].DeletedAt = time.Now().UTC() break } } return nil }" := by rfl

theorem src_pruneIndexGroups_expected : src_pruneIndexGroups = "{ data.WalkDatabases(func(db *DatabaseInfo) { db.WalkRetentionPolicy(func(rp *RetentionPolicyInfo) { for idx := 0; idx < len(rp.IndexGroups); { if id >= rp.IndexGroups[idx].Indexes[0].ID && id <= rp.IndexGroups[idx].Indexes[len(rp.IndexGroups[idx].Indexes)-1].ID { pos := sort.Search(len(rp.IndexGroups[idx].Indexes), func(i int) bool { return rp.IndexGroups[idx].Indexes[i].ID >= id }) if rp.IndexGroups[idx].Indexes[pos].ID == id { rp.IndexGroups[idx].Indexes[pos].MarkDelete = true } } if rp.IndexGroups[idx].canDelete() { rp.IndexGroups = append(rp.IndexGroups[:idx], rp.IndexGroups[idx+1:]...) } else { idx++ } } }) }) return nil }" := by rfl

theorem src_PruneGroups_expected : src_PruneGroups = "{ if shardGroup { return data.pruneShardGroups(id) } else { return data.pruneIndexGroups(id) } }" := by rfl

theorem src_ixCanDelete_expected : src_ixCanDelete = "{ for i := range igi.Indexes { if !igi.Indexes[i].MarkDelete { return false } } return true }" := by rfl

theorem src_HandleLocalStorage_indexes_expected : src_HandleLocalStorage_indexes = "expiredIndexes := s.Engine.ExpiredIndexes(nilIndexMap); for i := range expiredIndexes { if err := s.MetaClient.DeleteIndexGroup(expiredIndexes[i].OwnerDb, expiredIndexes[i].Policy, expiredIndexes[i].Index.IndexGroupID); err != nil { retryNeeded = true } if err := s.DeleteShardOrIndex(expiredIndexes[i].OwnerDb, expiredIndexes[i].OwnerPt, expiredIndexes[i].Index.IndexID, IndexDelete); err != nil { retryNeeded = true } if err := s.MetaClient.PruneGroupsCommand(false, expiredIndexes[i].Index.IndexID); err != nil { } }; expiredCacheIndexes := s.Engine.ExpiredCacheIndexes(); for i := range expiredCacheIndexes { if err := s.Engine.ClearIndexCache(expiredCacheIndexes[i].OwnerDb, expiredCacheIndexes[i].OwnerPt, expiredCacheIndexes[i].Index.IndexID); err != nil { retryNeeded = true } }; return retryNeeded" := by rfl

theorem deleteIndex_effects_expected : deleteIndex_effects = ["iBuild, ok := dbPtInfo.indexBuilder[indexID]", "_, ok := dbPtInfo.pendingIndexDeletes[indexID]", "delete(dbPtInfo.indexBuilder, indexID)", "dbPtInfo.pendingIndexDeletes[indexID] = struct{}{}", "iBuild.Close()", "fileops.RemoveAll(iBuild.Path(), lock)"] := by rfl

theorem indexDurationInfos_assign_expected : indexDurationInfos_assign = ["durationInfo.Ident.IndexID = ii.ID", "durationInfo.Ident.IndexGroupID = ig.ID", "durationInfo.Ident.StartTime = ig.StartTime", "durationInfo.Ident.EndTime = ig.EndTime", "durationInfo.DurationInfo.Duration = rp.Duration"] := by rfl

theorem newIndex_options_expected : newIndex_options = ["CacheDuration(timeRangeInfo.OwnerIndex.TimeRange.EndTime.Sub(timeRangeInfo.OwnerIndex.TimeRange.StartTime))", "Duration(timeRangeInfo.ShardDuration.DurationInfo.Duration)", "EndTime(timeRangeInfo.OwnerIndex.TimeRange.EndTime)", "StartTime(timeRangeInfo.OwnerIndex.TimeRange.StartTime)"] := by rfl

theorem newIndexBuilder_fields_expected : newIndexBuilder_fields = ["duration: opt.duration", "cacheDuration: opt.ident.Index.TimeRange.EndTime.Sub(opt.ident.Index.TimeRange.StartTime)", "startTime: opt.startTime", "endTime: opt.endTime"] := by rfl

theorem src_indexHeldByLiveShard_expected : src_indexHeldByLiveShard = "{ for _, sh := range pti.shards { if sh.GetIndexBuilder() == iBuilder && !sh.IsExpired() { return true } } return false }" := by rfl

theorem src_normalisedIndexDuration_expected : src_normalisedIndexDuration = "{ if igd < sgd { return sgd } if igd%sgd == 0 { return igd } mul := igd / sgd return (mul + 1) * sgd }" := by rfl

theorem src_ixContains_expected : src_ixContains = "{ return !t.Before(igi.StartTime) && t.Before(igi.EndTime) }" := by rfl

theorem src_ixLess_expected : src_ixLess = "{ iEnd := igs[i].EndTime jEnd := igs[j].EndTime if iEnd.Equal(jEnd) { return igs[i].StartTime.Before(igs[j].StartTime) } return iEnd.Before(jEnd) }" := by rfl

theorem src_newShardGroup_expected : src_newShardGroup = "{ startTime := timestamp.Truncate(rpi.ShardGroupDuration) data.MaxShardGroupID++ sgi := ShardGroupInfo{ ID: data.MaxShardGroupID, StartTime: startTime.UTC(), EndTime: startTime.Add(rpi.ShardGroupDuration).UTC(), EngineType: engineType, Version: version, } if sgi.EndTime.After(time.Unix(0, models.MaxNanoTime)) { sgi.EndTime = time.Unix(0, models.MaxNanoTime+1) } return &sgi }" := by rfl

theorem src_createIndexGroupIfNeeded_expected : src_createIndexGroupIfNeeded = "{ if len(rpi.IndexGroups) == 0 { return data.CreateIndexGroup(rpi, timestamp, engineType, ptNum) } var igIdx int for igIdx = len(rpi.IndexGroups) - 1; igIdx >= 0; igIdx-- { if rpi.IndexGroups[igIdx].EngineType == engineType && rpi.IndexGroups[igIdx].Contains(timestamp) { break } } if igIdx >= 0 && len(rpi.IndexGroups[igIdx].Indexes) >= int(ptNum) { return &rpi.IndexGroups[igIdx] } return data.CreateIndexGroup(rpi, timestamp, engineType, ptNum) }" := by rfl

theorem src_CreateIndexGroup_expected : src_CreateIndexGroup = "{ data.MaxIndexGroupID++ igi := IndexGroupInfo{} igi.ID = data.MaxIndexGroupID igi.StartTime = timestamp.Truncate(rpi.IndexGroupDuration).UTC() igi.EndTime = igi.StartTime.Add(rpi.IndexGroupDuration).UTC() if igi.EndTime.After(time.Unix(0, models.MaxNanoTime)) { igi.EndTime = time.Unix(0, models.MaxNanoTime+1) } igi.EngineType = engineType igi.Indexes = make([]IndexInfo, ptNum) for i := range igi.Indexes { data.MaxIndexID++ igi.Indexes[i] = IndexInfo{ID: data.MaxIndexID, Owners: []uint32{uint32(i)}} } rpi.IndexGroups = append(rpi.IndexGroups, igi) sort.Sort(IndexGroupInfos(rpi.IndexGroups)) return &igi }" := by rfl

theorem src_ShardGroupByTimestamp_expected : src_ShardGroupByTimestamp = "{ for i := len(rpi.ShardGroups) - 1; i >= 0; i-- { sgi := &rpi.ShardGroups[i] if sgi.EngineType == engineType && sgi.Contains(timestamp) && !sgi.Deleted() && (!sgi.Truncated() || timestamp.Before(sgi.TruncatedAt)) { return &rpi.ShardGroups[i] } } return nil }" := by rfl

/-! the command path of ALTER RETENTION POLICY (`Cmd.lean`; the per-field rules are `OG.C14.rpuRule_*`) -/

theorem src_clientUpdateRetentionPolicy_expected : src_clientUpdateRetentionPolicy = "{ var newName *string if rpu.Name != nil { newName = rpu.Name } var replicaN *uint32 if rpu.ReplicaN != nil { value := uint32(*rpu.ReplicaN) replicaN = &value } cmd := &proto2.UpdateRetentionPolicyCommand{ Database: proto.String(database), Name: proto.String(name), NewName: newName, Duration: meta2.GetInt64Duration(rpu.Duration), ReplicaN: replicaN, ShardGroupDuration: meta2.GetInt64Duration(rpu.ShardGroupDuration), MakeDefault: proto.Bool(makeDefault), HotDuration: meta2.GetInt64Duration(rpu.HotDuration), WarmDuration: meta2.GetInt64Duration(rpu.WarmDuration), IndexGroupDuration: meta2.GetInt64Duration(rpu.IndexGroupDuration), IndexColdDuration: meta2.GetInt64Duration(rpu.IndexColdDuration), } return c.retryUntilExec(proto2.Command_UpdateRetentionPolicyCommand, proto2.E_UpdateRetentionPolicyCommand_Command, cmd) }" := by rfl

theorem src_GetDuration_expected : src_GetDuration = "{ if d != nil { value := time.Duration(*d) return &value } return nil }" := by rfl

theorem src_GetInt64Duration_expected : src_GetInt64Duration = "{ if duration != nil { value := int64(*duration) return &value } return nil }" := by rfl

theorem src_LoadDurationOrDefault_expected : src_LoadDurationOrDefault = "{ if duration == nil { return existDuration } return duration }" := by rfl

theorem src_checkGeqThanMinDuration_expected : src_checkGeqThanMinDuration = "{ if rpi.Duration != 0 && rpi.Duration < MinRetentionPolicyDuration { return ErrRetentionPolicyDurationTooLow } if rpi.HotDuration != 0 && rpi.HotDuration < MinRetentionPolicyDuration { return ErrRetentionPolicyDurationTooLow } if rpi.WarmDuration != 0 && rpi.WarmDuration < MinRetentionPolicyWarmDuration { return ErrRetentionPolicyDurationTooLow } if rpi.IndexColdDuration != 0 && rpi.IndexColdDuration < MinRetentionPolicyIndexColdDuration { return ErrRetentionPolicyIndexColdDurationTooLow } return nil }" := by rfl

theorem src_checkGeqThanShardGroupDuration_expected : src_checkGeqThanShardGroupDuration = "{ if rpi.Duration != 0 && rpi.Duration < rpi.ShardGroupDuration { return ErrIncompatibleDurations } if rpi.HotDuration != 0 && rpi.HotDuration < rpi.ShardGroupDuration { return ErrIncompatibleHotDurations } if rpi.WarmDuration != 0 && rpi.WarmDuration < rpi.ShardGroupDuration { return ErrIncompatibleWarmDurations } if rpi.WarmDuration != rpi.Duration && rpi.WarmDuration%rpi.ShardGroupDuration != 0 { return ErrIncompatibleShardGroupDurations } return nil }" := by rfl

theorem minRetentionPolicyDuration_src_expected : minRetentionPolicyDuration_src = "time.Hour" := by rfl

theorem applyUpdateRP_returns_expected : applyUpdateRP_returns = ["data.UpdateRetentionPolicy(v.GetDatabase(), v.GetName(), &rpu, v.GetMakeDefault())"] := by rfl

/-! schema clean after a prune (`Schema.lean`) -/

theorem src_msSchemaClean_expected : src_msSchemaClean = "{ if msti.EngineType != config.TSSTORE { return 0 } endTime := TimeReserveHigh32(sgEndTime) msti.SchemaLock.Lock() defer msti.SchemaLock.Unlock() for k, schemaVal := range *(msti.Schema) { if schemaVal.EndTime <= endTime { delete(*(msti.Schema), k) } } return len(*msti.Schema) }" := by rfl

theorem src_TimeReserveHigh32_expected : src_TimeReserveHigh32 = "{ return int32(time >> 32) }" := by rfl

theorem src_dataSchemaClean_expected : src_dataSchemaClean = "{ for _, msti := range rp.Measurements { leftSchema := msti.SchemaClean(sgEndTime) if msti.EngineType == config.TSSTORE && leftSchema == 0 { data.MarkMeasurementDelete(db.Name, rp.Name, msti.originName) } } }" := by rfl

theorem src_UpdateSchema_expected : src_UpdateSchema = "{ msti, err := data.Measurement(database, retentionPolicy, mst) if err != nil { return err } msti.SchemaLock.Lock() defer msti.SchemaLock.Unlock() if msti.Schema == nil { newSchema := NewCleanSchema(0) msti.Schema = &newSchema } if err = checkFieldsToCreate(msti.Schema, fieldToCreate); err != nil { return err } if SchemaCleanEn { cleanSchema := msti.Schema for i := range fieldToCreate { existVal, ok := (*cleanSchema)[fieldToCreate[i].GetFieldName()] if !ok { (*cleanSchema)[fieldToCreate[i].GetFieldName()] = SchemaVal{Typ: int8(fieldToCreate[i].GetFieldType()), EndTime: fieldToCreate[i].GetEndTime()} continue } if int32(existVal.Typ) != fieldToCreate[i].GetFieldType() { return ErrFieldTypeConflict } if existVal.EndTime < fieldToCreate[i].GetEndTime() { (*cleanSchema)[fieldToCreate[i].GetFieldName()] = SchemaVal{Typ: int8(fieldToCreate[i].GetFieldType()), EndTime: fieldToCreate[i].GetEndTime()} } } } else { normalSchema := msti.Schema for i := range fieldToCreate { existType, ok := (*normalSchema)[fieldToCreate[i].GetFieldName()] if !ok { msti.Schema.SetTyp(fieldToCreate[i].GetFieldName(), fieldToCreate[i].GetFieldType()) continue } if int32(existType.Typ) != fieldToCreate[i].GetFieldType() { return ErrFieldTypeConflict } } } return nil }" := by rfl

/-! tier moves (`Tier.lean`) -/

theorem src_FetchShardsNeedChangeStore_expected : src_FetchShardsNeedChangeStore = "{ e.mu.RLock() defer e.mu.RUnlock() var latestShardID uint64 for db := range e.DBPartitions { for pt := range e.DBPartitions[db] { e.DBPartitions[db][pt].mu.RLock() if config.GetStoreConfig().EnableWriteHistoryOrderedData { latestShardID = e.getLatestShard(e.DBPartitions[db][pt].shards) } for id, shard := range e.DBPartitions[db][pt].shards { tier := shard.GetTier() expired := shard.IsTierExpired() if !expired || tier == util.Cold || (config.GetStoreConfig().EnableWriteHistoryOrderedData && id == latestShardID) { continue } if tier == util.Hot { shardsToWarm = append(shardsToWarm, shard.GetIdent()) } else { shardsToCold = append(shardsToCold, shard.GetIdent()) } } e.DBPartitions[db][pt].mu.RUnlock() } } return shardsToWarm, shardsToCold }" := by rfl

theorem src_TierDuration_expected : src_TierDuration = "{ switch tier { case util.Hot: return rpi.HotDuration case util.Warm, util.Moving: return rpi.WarmDuration } return 0 }" := by rfl

theorem src_checkLeqThanDuration_expected : src_checkLeqThanDuration = "{ if rpi.Duration != 0 && rpi.HotDuration != 0 && rpi.HotDuration > rpi.Duration { return ErrIncompatibleHotDurations } if rpi.Duration != 0 && rpi.WarmDuration != 0 && rpi.WarmDuration > rpi.Duration { return ErrIncompatibleWarmDurations } return nil }" := by rfl

theorem tierTierBegin_src_expected : tierTierBegin_src = "0" := by rfl

theorem tierHot_src_expected : tierHot_src = "1" := by rfl

theorem tierWarm_src_expected : tierWarm_src = "2" := by rfl

theorem tierCold_src_expected : tierCold_src = "3" := by rfl

theorem tierMoving_src_expected : tierMoving_src = "4" := by rfl

/-! shared-storage retention (`Shared.lean`) -/

theorem src_GetExpiredShards_expected : src_GetExpiredShards = "{ t := time.Now().UTC() markDelSgInfos := []meta2.ExpiredShardInfos{} expiredShards := []meta2.ExpiredShardInfos{} dataBases := c.Databases() for dbName, db := range dataBases { if db.Options == nil || db.MarkDeleted { continue } obsOptions := db.Options dbPtInfos, err := c.DBPtView(dbName) if err != nil { continue } for rpName, rp := range db.RetentionPolicies { if rp.MarkDeleted { continue } for i := range rp.ShardGroups { if !rp.ShardGroups[i].Deleted() { if rp.Duration != 0 && rp.ShardGroups[i].EndTime.Add(rp.Duration).Before(t) { markDelSgInfos = append(markDelSgInfos, meta2.ExpiredShardInfos{Database: dbName, Policy: rpName, ShardGroupId: rp.ShardGroups[i].ID}) } continue } if rp.ShardGroups[i].DeletedAt.Add(RetentionDelayedTime).After(t) { continue } shardPaths := []string{} shardIds := []uint64{} for j := range rp.ShardGroups[i].Shards { if rp.ShardGroups[i].Shards[j].MarkDelete { continue } ptId := rp.ShardGroups[i].Shards[j].Owners[0] if dbPtInfos[ptId].Owner.NodeID != c.nodeID && dbPtInfos[ptId].Status == meta2.Online { continue } logPath := obs.GetShardPath( rp.ShardGroups[i].Shards[j].ID, rp.ShardGroups[i].Shards[j].IndexID, rp.ShardGroups[i].Shards[j].Owners[0], rp.ShardGroups[i].StartTime, rp.ShardGroups[i].EndTime, db.Name, rp.Name) shardPaths = append(shardPaths, logPath) shardIds = append(shardIds, rp.ShardGroups[i].Shards[j].ID) } expiredShards = append(expiredShards, meta2.ExpiredShardInfos{Database: dbName, Policy: rpName, ShardGroupId: rp.ShardGroups[i].ID, ShardIds: shardIds, ShardPaths: shardPaths, ObsOpts: obsOptions}) } } } return markDelSgInfos, expiredShards }" := by rfl

theorem src_GetExpiredIndexes_expected : src_GetExpiredIndexes = "{ t := time.Now().UTC() expiredIndexes := []meta2.ExpiredIndexInfos{} dataBases := c.Databases() for dbName, db := range dataBases { if db.Options == nil || db.MarkDeleted { continue } dbPtInfos, err := c.DBPtView(dbName) if err != nil { continue } for rpName, rp := range db.RetentionPolicies { if rp.MarkDeleted { continue } for i := range rp.IndexGroups { if rp.Duration == 0 || rp.IndexGroups[i].EndTime.Add(rp.Duration).Add(RetentionDelayedTime).After(t) { continue } indexIds := make([]uint64, 0, len(rp.IndexGroups[i].Indexes)) for j := range rp.IndexGroups[i].Indexes { ptId := rp.IndexGroups[i].Indexes[j].Owners[0] if dbPtInfos[ptId].Owner.NodeID != c.nodeID && dbPtInfos[ptId].Status == meta2.Online { continue } indexIds = append(indexIds, rp.IndexGroups[i].Indexes[j].ID) } expiredIndexes = append(expiredIndexes, meta2.ExpiredIndexInfos{Database: dbName, Policy: rpName, IndexGroupID: rp.IndexGroups[i].ID, IndexIDs: indexIds}) } } } return expiredIndexes }" := by rfl

theorem src_RevertRetentionPolicyDelete_expected : src_RevertRetentionPolicyDelete = "{ rp, err := c.RetentionPolicy(database, name) if err != nil { return err } if rp == nil || rp.MarkDeleted { return meta2.ErrRetentionPolicyNotFound(name) } for i := range rp.ShardGroups { if !rp.ShardGroups[i].Deleted() { continue } err := c.DeleteShardGroup(database, name, rp.ShardGroups[i].ID, meta2.CancelDelete) if err != nil { return err } } return nil }" := by rfl

theorem src_HandleSharedStorage_expected : src_HandleSharedStorage = "{ t := time.Now().UTC() var retryNeeded bool markDelSgInfos, deletedSgInfos := s.MetaClient.GetExpiredShards() for _, sginfo := range markDelSgInfos { err := s.MetaClient.DelayDeleteShardGroup(sginfo.Database, sginfo.Policy, sginfo.ShardGroupId, t, meta.MarkDelete) if err != nil { retryNeeded = true } } var err error for _, sginfo := range deletedSgInfos { for i := range sginfo.ShardPaths { err = fileops.DeleteObsPath(sginfo.ShardPaths[i], sginfo.ObsOpts) if err != nil { retryNeeded = true continue } err = fileops.DeleteObsPath(sginfo.ShardPaths[i], nil) if err != nil { retryNeeded = true continue } if err := s.MetaClient.PruneGroupsCommand(true, sginfo.ShardIds[i]); err != nil { retryNeeded = true continue } } } expiredIndexes := s.MetaClient.GetExpiredIndexes() for i := range expiredIndexes { if err := s.MetaClient.DeleteIndexGroup(expiredIndexes[i].Database, expiredIndexes[i].Policy, expiredIndexes[i].IndexGroupID); err != nil { retryNeeded = true continue } for j := range expiredIndexes[i].IndexIDs { if err := s.MetaClient.PruneGroupsCommand(false, expiredIndexes[i].IndexIDs[j]); err != nil { retryNeeded = true continue } } } return retryNeeded }" := by rfl

theorem retentionDelayedTime_src_expected : retentionDelayedTime_src = "24 * time.Hour" := by rfl

/-- `SetDuration` as the model was written against it: the duration is overwritten, whatever it
is (0 = unlimited included); nothing else of the builder changes. -/
theorem ixSetDuration_expected (b : IxBuilder) (d : Int) : ixSetDuration b d = { b with duration := d } := by rfl

theorem ixExpired_expected (now : Int) (b : IxBuilder) :
    ixExpired now b = (b.duration != 0 && decide (b.endTime + b.duration < now)) := by
  unfold ixExpired
  cases h : (b.duration != 0 && decide (b.endTime + b.duration < now)) <;> simp_all

theorem ixExpiredCache_expected (now : Int) (b : IxBuilder) :
    ixExpiredCache now b = (b.duration != 0 && decide (b.endTime + b.cacheDuration < now)) := by
  unfold ixExpiredCache
  cases h : (b.duration != 0 && decide (b.endTime + b.cacheDuration < now)) <;> simp_all

theorem ixTierExpired_expected (now : Int) (b : IxBuilder) :
    ixTierExpired now b = (b.IndexColdDuration != 0 && decide (b.endTime + b.IndexColdDuration < now)) := by
  unfold ixTierExpired
  cases h : (b.IndexColdDuration != 0 && decide (b.endTime + b.IndexColdDuration < now)) <;> simp_all

theorem shardTierExpired_expected (now d e : Int) :
    shardTierExpired now d e = (d != 0 && decide (e + d < now)) := by
  unfold shardTierExpired
  cases h : (d != 0 && decide (e + d < now)) <;> simp_all

end OG.C14.IxFacts
