/-
C02 — line-protocol driver, second part: the ops whose model uses definitions translated from
the source (OG/Generated/C02.lean). Kept apart from `OG.C02.Driver` because C01's driver imports
that one and must not depend on C02's generated file.
  memread asc|desc <lo> <hi> t:v,v,…;…     → rec t:v,v,…;…   (the rows a memtable chunk returns)
  mergesrc asc|desc <new> | <old>            → rec …            (the merge written with the translated decisions)
  anything else                              → `OG.C02.step`
-/
import OG.C02.Driver
import OG.C02.MemRead
import OG.C02.RecAlgSrcDefs

namespace OG.C02

def stepAll (st : St) (line : String) : St × String :=
  match (line.trimAscii.toString.splitOn " ").filter (· ≠ "") with
  | ["memread", dir, lo, hi, rows] =>
    match lo.toInt?, hi.toInt?, parseARows rows with
    | some l, some h, some rs => (st, showRec ((MemChunk.ofRows rs).read l h (dir == "asc")))
    | _, _, _ => (st, "bad-op")
  | ["mergesrc", dir, a, "|", b] =>
    match parseARows a, parseARows b with
    | some x, some y => (st, showRec (mergeGenSrc (dir == "asc") (x.length + y.length + 1) x y))
    | _, _ => (st, "bad-op")
  | _ => step st line

partial def loopAll (h : IO.FS.Stream) (out : IO.FS.Stream) (st : St) : IO Unit := do
  let line ← h.getLine
  if line.isEmpty then return ()
  let (st', o) := stepAll st line
  out.putStrLn o
  loopAll h out st'

def mainAll : IO Unit := do
  loopAll (← IO.getStdin) (← IO.getStdout) (St.init 1)

end OG.C02
