/-
C02 — model of the storage layout of one measurement of a ts-store shard and of the
series-cursor read over it (engine/shard.go, engine/wal.go, engine/mutable, engine/immutable,
lib/record/column_sort.go, lib/record/meger.go, engine/series_cursor.go).

Data is a list of *cells* (series, time, field, value) kept in precedence order: the answer
for a key is the first cell with that key.  Every container (active memtable, out-of-order
files, ordered files) is such a list; the read looks up the concatenation
active ++ out-of-order files (newest first) ++ ordered files.

What is transcribed from the code:
* a write batch is applied row by row, a later row of a batch wins, field-wise;
* one WAL record per batch, written to partition `writeReq mod N`; the counter restarts at
  every switch (flush) — `fixed = true`; at the pinned commit it was never reset (`fixed = false`);
* flush = switch + split of every series' rows at that series' last flushed time into an ordered
  file (strictly newer rows) and an out-of-order file (the rest); the WAL of the flushed table
  is dropped;
* compaction / out-of-order merge rewrite files without changing the precedence of any key;
* a clean close keeps the memtable only in the WAL; reopen replays the partitions round-robin
  starting at partition 0 (`consumeRecordSerial`), then flushes.
File *planning* (which files a level compaction picks) is not modelled: it cannot change an
answer as long as the group it picks is merged in precedence order, and the correspondence
run compares answers, not file lists.
Core-only, executable.
-/
namespace OG.C02

structure Cell where
  s : Nat
  t : Int
  f : String
  v : String
deriving DecidableEq, Repr

abbrev Key := Nat × Int × String

def Cell.key (c : Cell) : Key := (c.s, c.t, c.f)

/-- the value a reader sees for a key: the first cell in precedence order. -/
def lookup (k : Key) : List Cell → Option String
  | [] => none
  | c :: cs => if c.key = k then some c.v else lookup k cs

/-- one row of a write batch. -/
structure Row where
  s : Nat
  t : Int
  fields : List (String × String)
deriving DecidableEq, Repr

def Row.cells (r : Row) : List Cell := r.fields.map fun (f, v) => ⟨r.s, r.t, f, v⟩

/-- cells of a batch in precedence order (the last row of the batch first). -/
def batchCells (b : List Row) : List Cell := (b.reverse.map Row.cells).flatten

/-- per-series last flushed time: the largest time recorded for the series. -/
def lastFlushOf : List (Nat × Int) → Nat → Option Int
  | [], _ => none
  | (s', t) :: rest, s =>
    if s' = s then
      match lastFlushOf rest s with
      | none => some t
      | some m => some (max t m)
    else lastFlushOf rest s

/-- a cell is newer than everything flushed so far for its series. -/
def isOrdered (lf : List (Nat × Int)) (c : Cell) : Bool :=
  match lastFlushOf lf c.s with
  | none => true
  | some m => decide (m < c.t)

def updLastFlush (lf : List (Nat × Int)) (c : Cell) : List (Nat × Int) := (c.s, c.t) :: lf

structure St where
  fixed : Bool                           -- WAL counter restarts at a switch (repaired code)
  nParts : Nat
  ctr : Nat                              -- writeReq
  wal : List (Nat × List Row)            -- records since the last switch, oldest first: (partition, batch)
  active : List Cell                     -- memtable, precedence order
  ooo : List (List Cell)                 -- out-of-order files, newest first
  ordered : List (List Cell)             -- ordered files, newest first
  lastFlush : List (Nat × Int)
deriving Repr

def St.init (n : Nat) (fixed : Bool := true) : St := ⟨fixed, n, 0, [], [], [], [], []⟩

/-- everything a reader consults, in precedence order. -/
def St.cells (st : St) : List Cell := st.active ++ st.ooo.flatten ++ st.ordered.flatten

def St.write (st : St) (b : List Row) : St :=
  { st with
    ctr := st.ctr + 1
    wal := st.wal ++ [(st.ctr % st.nParts, b)]
    active := batchCells b ++ st.active }

/-- flush of the active table (switch, split, commit, drop the WAL of the flushed table). -/
def St.flush (st : St) : St :=
  let st := { st with ctr := if st.fixed then 0 else st.ctr }
  if st.active = [] then { st with wal := [] }
  else
    let ord := st.active.filter (isOrdered st.lastFlush)
    let o3 := st.active.filter (fun c => !isOrdered st.lastFlush c)
    { st with
      wal := []
      active := []
      ooo := if o3 = [] then st.ooo else o3 :: st.ooo
      ordered := if ord = [] then st.ordered else ord :: st.ordered
      lastFlush := ord.foldl updLastFlush st.lastFlush }

/-- level / full compaction of ordered files: rewritten in precedence order. -/
def St.compact (st : St) : St :=
  { st with ordered := if st.ordered = [] then [] else [st.ordered.flatten] }

/-- out-of-order merge: out-of-order files are merged over the ordered ones. -/
def St.mergeOOO (st : St) : St :=
  if st.ooo = [] then st
  else { st with ooo := [], ordered := [st.ooo.flatten ++ st.ordered.flatten] }

/-- one round of `consumeRecordSerial`: the first remaining record of every partition in
`ps`, in that order; returns the batches taken and the records left. -/
def popRound : List Nat → List (Nat × List Row) → List (List Row) × List (Nat × List Row)
  | [], recs => ([], recs)
  | p :: ps, recs =>
    match recs.find? (·.1 = p) with
    | some r =>
      let (h, rest) := popRound ps (recs.eraseP (·.1 = p))
      (r.2 :: h, rest)
    | none => popRound ps recs

/-- `consumeRecordSerial`: rounds over the partitions 0 … n-1 until no record is left.
`fuel` bounds the number of rounds. -/
def roundRobin (n : Nat) : Nat → List (Nat × List Row) → List (List Row)
  | 0, _ => []
  | fuel + 1, recs =>
    if recs = [] then []
    else
      let (h, rest) := popRound (List.range n) recs
      h ++ roundRobin n fuel rest

/-- clean close + reopen: the memtable is rebuilt from the WAL in replay order, then flushed. -/
def St.reopen (st : St) : St :=
  let batches := roundRobin st.nParts (st.wal.length + 1) st.wal
  let act := (batches.reverse.map batchCells).flatten
  St.flush { st with ctr := 0, active := act }

/-! ### read -/

section sorted
variable {α : Type} [LT α] [DecidableLT α] [DecidableEq α]

/-- insertion into a strictly increasing list (duplicates dropped). -/
def insertSorted (x : α) : List α → List α
  | [] => [x]
  | y :: ys => if x < y then x :: y :: ys else if x = y then y :: ys else y :: insertSorted x ys

def sortDistinct (xs : List α) : List α := xs.foldr insertSorted []
end sorted

/-- rows returned for one series: distinct times in range, ascending or descending, with the
requested fields looked up; a row none of whose requested fields has a value is not returned. -/
def readSeries (cells : List Cell) (s : Nat) (lo hi : Int) (asc : Bool) (fields : List String) :
    List (Nat × Int × List (Option String)) :=
  let ts := sortDistinct ((cells.filter fun c => c.s = s ∧ lo ≤ c.t ∧ c.t ≤ hi).map (·.t))
  let ts := if asc then ts else ts.reverse
  ts.filterMap fun t =>
    let vals := fields.map fun f => lookup (s, t, f) cells
    if vals.any Option.isSome then some (s, t, vals) else none

/-- the read over a precedence-ordered cell list: series ascending, times ascending or
descending inside a series. -/
def readCells (cells : List Cell) (lo hi : Int) (asc : Bool) (fields : List String) :
    List (Nat × Int × List (Option String)) :=
  (sortDistinct (cells.map (·.s))).flatMap fun s => readSeries cells s lo hi asc fields

/-- the read with LIMIT + OFFSET = `k` pushed into the series cursors (engine/limit_cursor.go
`limitHelperForSingleRow`): every series stops after its first `k` rows in the direction of the
read; the cut by OFFSET happens above the storage layer. -/
def readCellsLim (cells : List Cell) (lo hi : Int) (asc : Bool) (fields : List String) (k : Nat) :
    List (Nat × Int × List (Option String)) :=
  (sortDistinct (cells.map (·.s))).flatMap fun s => (readSeries cells s lo hi asc fields).take k

def St.read (st : St) (lo hi : Int) (asc : Bool) (fields : List String) :
    List (Nat × Int × List (Option String)) :=
  readCells st.cells lo hi asc fields

end OG.C02
