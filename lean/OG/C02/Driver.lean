/-
C02 — line-protocol driver of the layout model (core only).
  fixed 0|1                              → ok            (model the pinned / the repaired WAL counter)
  open <i>                               → ok            (new shard; N from the next line)
  parts <n>                              → ok
  write s:t:f=v,f=v;…                    → ack
  flush | compact <l> | fullcompact | merge | reopen → ok
  read asc|desc <lo> <hi> f,f,…          → rows s:t:v,v|…
  readlim asc|desc <lo> <hi> f,f,… <k>   → rows …        (at most k rows per series: the limit cursor)
-/
import OG.C02.RecAlg

namespace OG.C02

def parseRow (s : String) : Option Row :=
  match s.splitOn ":" with
  | [a, b, kv] => do
    let sid ← a.toNat?
    let t ← b.toInt?
    let fields ← (kv.splitOn ",").mapM fun p =>
      match p.splitOn "=" with
      | [k, v] => some (k, v)
      | _ => none
    some ⟨sid, t, fields⟩
  | _ => none

def parseARow (s : String) : Option ARow :=
  match s.splitOn ":" with
  | [t, vs] => do
    let t ← t.toInt?
    some ⟨t, (vs.splitOn ",").map fun v => if v == "_" then none else some v⟩
  | _ => none

def parseARows (s : String) : Option (List ARow) :=
  if s.trimAscii.toString == "" then some [] else (s.trimAscii.toString.splitOn ";").mapM parseARow

def showRec (rows : List ARow) : String :=
  "rec " ++ String.intercalate ";" (rows.map fun r =>
    toString r.t ++ ":" ++ String.intercalate "," (r.vals.map fun v => v.getD "_"))

def showRows (rs : List (Nat × Int × List (Option String))) : String :=
  "rows " ++ String.intercalate "|" (rs.map fun (s, t, vs) =>
    toString s ++ ":" ++ toString t ++ ":" ++ String.intercalate "," (vs.map fun v => v.getD "_"))

def step (st : St) (line : String) : St × String :=
  match (line.trimAscii.toString.splitOn " ").filter (· ≠ "") with
  | ["open", _] => (St.init 1 st.fixed, "ok")
  | ["fixed", b] => ({ st with fixed := b == "1" }, "ok")
  | ["parts", n] =>
    match n.toNat? with
    | some k => if k = 0 then (st, "bad-op") else ({ st with nParts := k }, "ok")
    | none => (st, "bad-op")
  | ["write", rows] =>
    match (rows.splitOn ";").mapM parseRow with
    | some b => (st.write b, "ack")
    | none => (st, "bad-op")
  | ["flush"] => (st.flush, "ok")
  | ["compact", _] => (st.compact, "ok")
  | ["fullcompact"] => (st.compact, "ok")
  | ["merge"] => (st.mergeOOO, "ok")
  | ["reopen"] => (st.reopen, "ok")
  | ["sortrec", rows] =>
    match parseARows rows with
    | some rs => (st, showRec (sortDedup rs))
    | none => (st, "bad-op")
  | ["mergerec", a, "|", b] =>
    match parseARows a, parseARows b with
    | some x, some y => (st, showRec (mergeRec (x.length + y.length + 1) x y))
    | _, _ => (st, "bad-op")
  | ["mergerecdesc", a, "|", b] =>
    match parseARows a, parseARows b with
    | some x, some y => (st, showRec (mergeRecDesc (x.length + y.length + 1) x y))
    | _, _ => (st, "bad-op")
  | ["readlim", dir, lo, hi, fs, k] =>
    match lo.toInt?, hi.toInt?, k.toNat? with
    | some l, some h, some k => (st, showRows (readCellsLim st.cells l h (dir == "asc") (fs.splitOn ",") k))
    | _, _, _ => (st, "bad-op")
  | ["read", dir, lo, hi, fs] =>
    match lo.toInt?, hi.toInt? with
    | some l, some h => (st, showRows (st.read l h (dir == "asc") (fs.splitOn ",")))
    | _, _ => (st, "bad-op")
  | _ => (st, "bad-op")

partial def loop (h : IO.FS.Stream) (out : IO.FS.Stream) (st : St) : IO Unit := do
  let line ← h.getLine
  if line.isEmpty then return ()
  let (st', o) := step st line
  out.putStrLn o
  loop h out st'

def main : IO Unit := do
  loop (← IO.getStdin) (← IO.getStdout) (St.init 1)

end OG.C02

