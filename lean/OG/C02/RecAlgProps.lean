/-
C02 — the record-level algorithms compute the precedence semantics the layout theorems use:
sorting + de-duplicating a chunk reads like the rows in reverse arrival order, merging two
sorted records reads like "new before old"; outputs are strictly sorted (no duplicate times).
-/
import OG.C02.RecAlg

namespace OG.C02

/-- value of column `i` of a row. -/
def getI (vals : List (Option String)) (i : Nat) : Option String := (vals[i]?).join

/-- what a reader sees for (time, column) in a precedence-ordered row list: the first row of
that time that has a value in that column. -/
def lookR : List ARow → Int → Nat → Option String
  | [], _, _ => none
  | r :: rs, t, i =>
    if r.t = t then
      match getI r.vals i with
      | some v => some v
      | none => lookR rs t i
    else lookR rs t i

def Wide (w : Nat) (rows : List ARow) : Prop := ∀ r ∈ rows, r.vals.length = w
def SortedAsc (rows : List ARow) : Prop := rows.Pairwise (fun a b => a.t < b.t)
def SortedDesc (rows : List ARow) : Prop := rows.Pairwise (fun a b => b.t < a.t)

theorem mergeVals_length : ∀ (a b : List (Option String)), a.length = b.length →
    (mergeVals a b).length = a.length := by
  intro a
  induction a with
  | nil => intro b _; simp [mergeVals]
  | cons x xs ih =>
    intro b h
    cases b with
    | nil => simp at h
    | cons y ys => simp [mergeVals, ih ys (by simpa using h)]

theorem getI_mergeVals : ∀ (a b : List (Option String)) (i : Nat), a.length = b.length →
    getI (mergeVals a b) i = match getI a i with
      | some v => some v
      | none => getI b i := by
  intro a
  induction a with
  | nil =>
    intro b i h
    have : b = [] := by cases b <;> simp_all
    subst this; simp [mergeVals, getI]
  | cons x xs ih =>
    intro b i h
    cases b with
    | nil => simp at h
    | cons y ys =>
      cases i with
      | zero => cases x <;> simp [mergeVals, getI]
      | succ j =>
        have := ih ys j (by simpa using h)
        simpa [mergeVals, getI] using this

/-- rows later in a strictly ascending list have larger times. -/
theorem lookR_none_of_lt (rows : List ARow) (t : Int) (i : Nat) (h : ∀ r ∈ rows, t < r.t) :
    lookR rows t i = none := by
  induction rows with
  | nil => rfl
  | cons r rs ih =>
    have := h r (by simp)
    simp only [lookR]
    rw [if_neg (by omega)]
    exact ih (fun x hx => h x (by simp [hx]))

theorem insertRow_props (w : Nat) (r : ARow) (hr : r.vals.length = w) :
    ∀ (acc : List ARow), SortedAsc acc → Wide w acc →
      SortedAsc (insertRow r acc) ∧ Wide w (insertRow r acc) ∧
      (∀ x ∈ insertRow r acc, x.t = r.t ∨ ∃ y ∈ acc, y.t = x.t) ∧
      ∀ t i, lookR (insertRow r acc) t i = lookR (r :: acc) t i := by
  intro acc
  induction acc with
  | nil => intro _ _; simp [insertRow, SortedAsc, Wide, hr]
  | cons x xs ih =>
    intro hs hw
    have hs' := List.pairwise_cons.1 hs
    have hwx : x.vals.length = w := hw x (by simp)
    have hwxs : Wide w xs := fun y hy => hw y (by simp [hy])
    simp only [insertRow]
    by_cases h1 : r.t < x.t
    · simp only [h1, if_true]
      refine ⟨?_, ?_, ?_, fun _ _ => trivial⟩
      · refine List.pairwise_cons.2 ⟨?_, hs⟩
        intro y hy
        simp only [List.mem_cons] at hy
        rcases hy with rfl | hy
        · exact h1
        · have := hs'.1 y hy; omega
      · intro y hy
        simp only [List.mem_cons] at hy
        rcases hy with rfl | hy
        · exact hr
        · exact hw y (by simpa using hy)
      · intro y hy
        simp only [List.mem_cons] at hy
        rcases hy with rfl | hy
        · exact Or.inl rfl
        · exact Or.inr ⟨y, by simpa using hy, rfl⟩
    · simp only [h1, if_false]
      by_cases h2 : r.t = x.t
      · simp only [h2, if_true]
        refine ⟨?_, ?_, ?_, ?_⟩
        · exact List.pairwise_cons.2 ⟨fun y hy => hs'.1 y hy, hs'.2⟩
        · intro y hy
          simp only [List.mem_cons] at hy
          rcases hy with rfl | hy
          · simp [mergeVals_length _ _ (hr.trans hwx.symm), hr]
          · exact hwxs y hy
        · intro y hy
          simp only [List.mem_cons] at hy
          rcases hy with rfl | hy
          · exact Or.inl (by simp [h2])
          · exact Or.inr ⟨y, by simp [hy], rfl⟩
        · intro t i
          simp only [lookR, h2]
          by_cases ht : x.t = t
          · simp only [ht, if_true, getI_mergeVals _ _ i (hr.trans hwx.symm)]
            cases getI r.vals i <;> simp
          · simp [ht]
      · simp only [h2, if_false]
        obtain ⟨i1, i2, i3, i4⟩ := ih hs'.2 hwxs
        refine ⟨?_, ?_, ?_, ?_⟩
        · refine List.pairwise_cons.2 ⟨?_, i1⟩
          intro y hy
          rcases i3 y hy with h | ⟨z, hz, hzt⟩
          · omega
          · have := hs'.1 z hz; omega
        · intro y hy
          simp only [List.mem_cons] at hy
          rcases hy with rfl | hy
          · exact hwx
          · exact i2 y hy
        · intro y hy
          simp only [List.mem_cons] at hy
          rcases hy with rfl | hy
          · exact Or.inr ⟨y, by simp, rfl⟩
          · rcases i3 y hy with h | ⟨z, hz, hzt⟩
            · exact Or.inl h
            · exact Or.inr ⟨z, by simp [hz], hzt⟩
        · intro t i
          simp only [lookR]
          rw [i4 t i]
          simp only [lookR]
          by_cases ht : x.t = t
          · have hrt : ¬ r.t = t := by omega
            simp [ht, hrt]
          · simp [ht]

/-- **`Sort` of a chunk reads like its rows in reverse arrival order, and is strictly sorted.** -/
theorem sortDedup_props (w : Nat) (rows : List ARow) (hw : Wide w rows) :
    SortedAsc (sortDedup rows) ∧ Wide w (sortDedup rows) ∧
    ∀ t i, lookR (sortDedup rows) t i = lookR rows.reverse t i := by
  unfold sortDedup
  suffices h : ∀ (rows acc : List ARow), Wide w rows → SortedAsc acc → Wide w acc →
      SortedAsc (rows.foldl (fun a r => insertRow r a) acc) ∧
      Wide w (rows.foldl (fun a r => insertRow r a) acc) ∧
      ∀ t i, lookR (rows.foldl (fun a r => insertRow r a) acc) t i = lookR (rows.reverse ++ acc) t i by
    have := h rows [] hw (by simp [SortedAsc]) (by simp [Wide])
    simpa using this
  intro rows
  induction rows with
  | nil => intro acc _ hs hwa; exact ⟨hs, hwa, fun _ _ => by simp⟩
  | cons r rs ih =>
    intro acc hwr hs hwa
    obtain ⟨p1, p2, _, p4⟩ := insertRow_props w r (hwr r (by simp)) acc hs hwa
    obtain ⟨q1, q2, q3⟩ := ih (insertRow r acc) (fun x hx => hwr x (by simp [hx])) p1 p2
    refine ⟨q1, q2, ?_⟩
    intro t i
    simp only [List.foldl_cons, List.reverse_cons, List.append_assoc, List.singleton_append]
    rw [q3 t i]
    -- lookR distributes over append
    have happ : ∀ (a b c : List ARow), (∀ t i, lookR b t i = lookR c t i) →
        lookR (a ++ b) t i = lookR (a ++ c) t i := by
      intro a b c hbc
      induction a with
      | nil => simpa using hbc t i
      | cons y ys iha => simp only [List.cons_append, lookR, iha]
    exact happ _ _ _ p4

end OG.C02

namespace OG.C02

def SortedDir (asc : Bool) (rows : List ARow) : Prop := rows.Pairwise (fun a b => before asc a.t b.t = true)

theorem lookR_append (a b : List ARow) (t : Int) (i : Nat) :
    lookR (a ++ b) t i = match lookR a t i with
      | some v => some v
      | none => lookR b t i := by
  induction a with
  | nil => simp [lookR]
  | cons x xs ih =>
    simp only [List.cons_append, lookR]
    by_cases ht : x.t = t
    · simp only [ht, if_true]
      cases getI x.vals i <;> simp [ih]
    · simp [ht, ih]

theorem lookR_none_of_ne (rows : List ARow) (t : Int) (i : Nat) (h : ∀ r ∈ rows, r.t ≠ t) :
    lookR rows t i = none := by
  induction rows with
  | nil => rfl
  | cons r rs ih =>
    simp only [lookR]
    rw [if_neg (h r (by simp))]
    exact ih (fun x hx => h x (by simp [hx]))

theorem before_irrefl (asc : Bool) (a : Int) : before asc a a = false := by
  cases asc <;> simp [before]

theorem before_trans (asc : Bool) (a b c : Int) (h1 : before asc a b = true) (h2 : before asc b c = true) :
    before asc a c = true := by
  cases asc <;> simp [before] at * <;> omega

theorem before_tri (asc : Bool) (a b : Int) (h1 : before asc a b = false) (h2 : before asc b a = false) :
    a = b := by
  cases asc <;> simp [before] at * <;> omega

theorem before_ne (asc : Bool) (a b : Int) (h : before asc a b = true) : a ≠ b := by
  cases asc <;> simp [before] at * <;> omega

/-- **the two-way merge reads like "new before old", and its output is strictly sorted**, in
either direction. -/
theorem mergeGen_props (asc : Bool) (w : Nat) :
    ∀ (fuel : Nat) (nw old : List ARow), nw.length + old.length < fuel →
      SortedDir asc nw → SortedDir asc old → Wide w nw → Wide w old →
      SortedDir asc (mergeGen asc fuel nw old) ∧ Wide w (mergeGen asc fuel nw old) ∧
      (∀ x ∈ mergeGen asc fuel nw old, ∃ y ∈ nw ++ old, y.t = x.t) ∧
      ∀ t i, lookR (mergeGen asc fuel nw old) t i = lookR (nw ++ old) t i := by
  intro fuel
  induction fuel with
  | zero => intro nw old h; omega
  | succ f ih =>
    intro nw old hlen hsn hso hwn hwo
    cases nw with
    | nil =>
      simp only [mergeGen, List.nil_append]
      exact ⟨hso, hwo, fun x hx => ⟨x, hx, rfl⟩, by simp⟩
    | cons x xs =>
      cases old with
      | nil =>
        simp only [mergeGen, List.append_nil]
        exact ⟨hsn, hwn, fun y hy => ⟨y, hy, rfl⟩, by simp⟩
      | cons y ys =>
        have hsn' := List.pairwise_cons.1 hsn
        have hso' := List.pairwise_cons.1 hso
        have hwxs : Wide w xs := fun r hr => hwn r (by simp [hr])
        have hwys : Wide w ys := fun r hr => hwo r (by simp [hr])
        simp only [mergeGen]
        by_cases h1 : before asc x.t y.t = true
        · rw [if_pos h1]
          obtain ⟨p1, p2, p3, p4⟩ := ih xs (y :: ys) (by simp at hlen ⊢; omega) hsn'.2 hso hwxs hwo
          refine ⟨?_, ?_, ?_, ?_⟩
          · refine List.pairwise_cons.2 ⟨?_, p1⟩
            intro z hz
            obtain ⟨u, hu, hut⟩ := p3 z hz
            rw [← hut]
            simp only [List.mem_append, List.mem_cons] at hu
            rcases hu with hu | rfl | hu
            · exact hsn'.1 u hu
            · exact h1
            · exact before_trans asc _ _ _ h1 (hso'.1 u hu)
          · intro z hz
            simp only [List.mem_cons] at hz
            rcases hz with rfl | hz
            · exact hwn _ (by simp)
            · exact p2 z hz
          · intro z hz
            simp only [List.mem_cons] at hz
            rcases hz with rfl | hz
            · exact ⟨z, by simp, rfl⟩
            · obtain ⟨u, hu, hut⟩ := p3 z hz
              exact ⟨u, by simp only [List.cons_append, List.mem_cons]; exact Or.inr hu, hut⟩
          · intro t i
            simp only [List.cons_append, lookR, p4 t i]
        · rw [if_neg h1]
          by_cases h2 : before asc y.t x.t = true
          · rw [if_pos h2]
            obtain ⟨p1, p2, p3, p4⟩ := ih (x :: xs) ys (by simp at hlen ⊢; omega) hsn hso'.2 hwn hwys
            refine ⟨?_, ?_, ?_, ?_⟩
            · refine List.pairwise_cons.2 ⟨?_, p1⟩
              intro z hz
              obtain ⟨u, hu, hut⟩ := p3 z hz
              rw [← hut]
              simp only [List.mem_append, List.mem_cons] at hu
              rcases hu with (rfl | hu) | hu
              · exact h2
              · exact before_trans asc _ _ _ h2 (hsn'.1 u hu)
              · exact hso'.1 u hu
            · intro z hz
              simp only [List.mem_cons] at hz
              rcases hz with rfl | hz
              · exact hwo _ (by simp)
              · exact p2 z hz
            · intro z hz
              simp only [List.mem_cons] at hz
              rcases hz with rfl | hz
              · exact ⟨z, by simp, rfl⟩
              · obtain ⟨u, hu, hut⟩ := p3 z hz
                refine ⟨u, ?_, hut⟩
                simp only [List.mem_append, List.mem_cons] at hu ⊢
                rcases hu with hu | hu
                · exact Or.inl hu
                · exact Or.inr (Or.inr hu)
            · intro t i
              -- every row of the new record is strictly after y
              have hnew : ∀ r ∈ x :: xs, r.t ≠ y.t := by
                intro r hr
                simp only [List.mem_cons] at hr
                rcases hr with rfl | hr
                · exact (before_ne asc _ _ h2).symm
                · exact (before_ne asc _ _ (before_trans asc _ _ _ h2 (hsn'.1 r hr))).symm
              simp only [lookR, p4 t i]
              rw [lookR_append (x :: xs) ys, lookR_append (x :: xs) (y :: ys)]
              by_cases ht : y.t = t
              · subst ht
                rw [lookR_none_of_ne (x :: xs) y.t i hnew]
                simp [lookR]
              · simp only [ht, if_false, lookR]
          · rw [if_neg h2]
            have heq : x.t = y.t := before_tri asc _ _ (by simpa using h1) (by simpa using h2)
            obtain ⟨p1, p2, p3, p4⟩ := ih xs ys (by simp at hlen ⊢; omega) hsn'.2 hso'.2 hwxs hwys
            have hwx := hwn x (by simp)
            have hwy := hwo y (by simp)
            refine ⟨?_, ?_, ?_, ?_⟩
            · refine List.pairwise_cons.2 ⟨?_, p1⟩
              intro z hz
              obtain ⟨u, hu, hut⟩ := p3 z hz
              rw [← hut]
              simp only [List.mem_append] at hu
              rcases hu with hu | hu
              · exact hsn'.1 u hu
              · rw [heq]; exact hso'.1 u hu
            · intro z hz
              simp only [List.mem_cons] at hz
              rcases hz with rfl | hz
              · simp [mergeVals_length _ _ (hwx.trans hwy.symm), hwx]
              · exact p2 z hz
            · intro z hz
              simp only [List.mem_cons] at hz
              rcases hz with rfl | hz
              · exact ⟨x, by simp, rfl⟩
              · obtain ⟨u, hu, hut⟩ := p3 z hz
                refine ⟨u, ?_, hut⟩
                simp only [List.mem_append, List.mem_cons] at hu ⊢
                rcases hu with hu | hu
                · exact Or.inl (Or.inr hu)
                · exact Or.inr (Or.inr hu)
            · intro t i
              have hxs : ∀ r ∈ xs, r.t ≠ x.t := fun r hr => (before_ne asc _ _ (hsn'.1 r hr)).symm
              have hys : ∀ r ∈ ys, r.t ≠ x.t := fun r hr => by
                rw [heq]; exact (before_ne asc _ _ (hso'.1 r hr)).symm
              simp only [List.cons_append, lookR, p4 t i]
              by_cases ht : x.t = t
              · subst ht
                simp only [if_true, getI_mergeVals _ _ i (hwx.trans hwy.symm)]
                rw [lookR_append xs ys, lookR_append xs (y :: ys), lookR_none_of_ne xs x.t i hxs]
                simp only [lookR, heq.symm, if_true]
                rw [lookR_none_of_ne ys x.t i hys]
                cases getI x.vals i <;> cases getI y.vals i <;> simp
              · have hy : ¬ y.t = t := by rw [← heq]; exact ht
                simp only [ht, if_false]
                rw [lookR_append xs ys, lookR_append xs (y :: ys)]
                simp [lookR, hy]

/-- `MergeRecord` (ascending). -/
theorem mergeRec_props (w : Nat) (nw old : List ARow) (hn : SortedDir true nw) (ho : SortedDir true old)
    (hwn : Wide w nw) (hwo : Wide w old) :
    SortedDir true (mergeRec (nw.length + old.length + 1) nw old) ∧
    ∀ t i, lookR (mergeRec (nw.length + old.length + 1) nw old) t i = lookR (nw ++ old) t i :=
  let h := mergeGen_props true w _ nw old (by omega) hn ho hwn hwo
  ⟨h.1, h.2.2.2⟩

/-- `MergeRecordDescend`. -/
theorem mergeRecDesc_props (w : Nat) (nw old : List ARow) (hn : SortedDir false nw) (ho : SortedDir false old)
    (hwn : Wide w nw) (hwo : Wide w old) :
    SortedDir false (mergeRecDesc (nw.length + old.length + 1) nw old) ∧
    ∀ t i, lookR (mergeRecDesc (nw.length + old.length + 1) nw old) t i = lookR (nw ++ old) t i :=
  let h := mergeGen_props false w _ nw old (by omega) hn ho hwn hwo
  ⟨h.1, h.2.2.2⟩

/-- non-vacuity: an overwrite with a partial row. -/
example : mergeRec 5 [⟨1, [some "n", none]⟩, ⟨3, [none, some "q"]⟩] [⟨1, [some "o", some "p"]⟩, ⟨2, [some "a", none]⟩]
    = [⟨1, [some "n", some "p"]⟩, ⟨2, [some "a", none]⟩, ⟨3, [none, some "q"]⟩] := by decide

end OG.C02
