/-
C02 — the record-level algorithms under the layout model (lib/record):
* `ColumnSortHelper.Sort`: stable sort of a memtable chunk by time, rows of equal time folded
  into one, a later row replacing a field only where it has a value;
* `Record.MergeRecord` / `MergeRecordDescend`: two-way merge of two strictly sorted records,
  the new one winning field-wise on equal times.
Row level, core-only, executable; tied to the real functions by exact output (`sortrec`,
`mergerec`, `mergerecdesc` op lines).
-/
import OG.C02.Model

namespace OG.C02

/-- one row of a record: time and one optional value per column (fixed width). -/
structure ARow where
  t : Int
  vals : List (Option String)
deriving DecidableEq, Repr

/-- field-wise `new` over `old`. -/
def mergeVals : List (Option String) → List (Option String) → List (Option String)
  | [], _ => []
  | _, [] => []
  | a :: as, b :: bs => (match a with | some v => some v | none => b) :: mergeVals as bs

/-- insert a (newer) row into a list sorted ascending by time. -/
def insertRow (r : ARow) : List ARow → List ARow
  | [] => [r]
  | x :: xs =>
    if r.t < x.t then r :: x :: xs
    else if r.t = x.t then ⟨x.t, mergeVals r.vals x.vals⟩ :: xs
    else x :: insertRow r xs

/-- `ColumnSortHelper.Sort`: rows in arrival order. -/
def sortDedup (rows : List ARow) : List ARow := rows.foldl (fun acc r => insertRow r acc) []

/-- time order of a record: ascending or descending. -/
def before (asc : Bool) (a b : Int) : Bool := if asc then decide (a < b) else decide (b < a)

/-- `Record.MergeRecord` (`asc = true`) / `Record.MergeRecordDescend` (`asc = false`): both inputs
strictly sorted in that direction; two-pointer merge, the new record winning field-wise on equal
times. `fuel` > total length. -/
def mergeGen (asc : Bool) : Nat → List ARow → List ARow → List ARow
  | 0, _, _ => []
  | _ + 1, [], ys => ys
  | _ + 1, xs, [] => xs
  | fuel + 1, x :: xs, y :: ys =>
    if before asc x.t y.t then x :: mergeGen asc fuel xs (y :: ys)
    else if before asc y.t x.t then y :: mergeGen asc fuel (x :: xs) ys
    else ⟨x.t, mergeVals x.vals y.vals⟩ :: mergeGen asc fuel xs ys

def mergeRec := mergeGen true
def mergeRecDesc := mergeGen false

/-- the cells a row list stands for (series `s`, column names `names`), in list order. -/
def rowCells (s : Nat) (names : List String) (r : ARow) : List Cell :=
  (names.zip r.vals).filterMap fun (f, v) => v.map fun x => ⟨s, r.t, f, x⟩

def rowsCells (s : Nat) (names : List String) (rows : List ARow) : List Cell :=
  (rows.map (rowCells s names)).flatten

end OG.C02
