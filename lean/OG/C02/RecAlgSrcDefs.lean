/-
C02 — the row-level algorithms written with the decision functions translated from the source
(OG/Generated/C02.lean). Core-only, executable; the proofs that they are the hand-written model's
are in `OG.C02.RecAlgSrc`.
-/
import OG.Generated.C02
import OG.C02.RecAlg

namespace OG.C02
open OG.Gen.C02

/-- the insertion step of the model, written with the source's comparison. -/
def insertRowSrc (r : ARow) : List ARow → List ARow
  | [] => [r]
  | x :: xs =>
    if sortLess r.t x.t then r :: x :: xs
    else if sortLess x.t r.t then x :: insertRowSrc r xs
    else ⟨x.t, mergeVals r.vals x.vals⟩ :: xs

/-- `ColumnSortHelper.replace` / `Record.mergeRecRow`: one cell of two rows with the same time. -/
def cellSortSrc (new old : Option String) : Option String :=
  if replaceKeepsOld new.isNone then old else new

def cellMergeSrc (new old : Option String) : Option String :=
  match mergeCellPick new.isNone old.isNone with
  | 1 => new
  | 0 => old
  | _ => none

def cellModel (new old : Option String) : Option String :=
  match new with
  | some v => some v
  | none => old

/-- the two-pointer loop of `Record.appendRecs`, written with the translated decision. -/
def mergeGenSrc (asc : Bool) : Nat → List ARow → List ARow → List ARow
  | 0, _, _ => []
  | _ + 1, [], ys => ys
  | _ + 1, xs, [] => xs
  | fuel + 1, x :: xs, y :: ys =>
    match appendRecsPick asc y.t x.t with
    | 0 => y :: mergeGenSrc asc fuel (x :: xs) ys
    | 1 => x :: mergeGenSrc asc fuel xs (y :: ys)
    | _ => ⟨x.t, mergeVals x.vals y.vals⟩ :: mergeGenSrc asc fuel xs ys

end OG.C02
