/-
C02 — the memtable's own read path for one series (engine/mutable):
`tsMemTableImpl.appendFields` keeps, per chunk, the first / last appended time and whether the
times arrived strictly increasing; `MemTable.getSortedRecSafe` skips the chunk when the query's
time range cannot meet [first, last], sorts + de-duplicates it only when the times did not arrive
in order, and copies the rows inside the range (ascending or descending).

The time bookkeeping (`appendTimes`, `initWriteRec`) and the skip test (`memSkip`) are *translated
from the source* by ogfacts (OG/Generated/C02.lean); the rows are the row-level records of
`OG.C02.RecAlg`. Core-only, executable.
-/
import OG.Generated.C02
import OG.C02.RecAlg

namespace OG.C02
open OG.Gen.C02

/-- one series' chunk of a memtable: the bookkeeping and the rows in arrival order. -/
structure MemChunk where
  wr : WriteRec
  rows : List ARow
deriving Repr

def MemChunk.empty : MemChunk := ⟨initWriteRec, []⟩

/-- `appendFields` for one row. -/
def MemChunk.append (c : MemChunk) (r : ARow) : MemChunk := ⟨appendTimes c.wr r.t, c.rows ++ [r]⟩

def MemChunk.ofRows (rows : List ARow) : MemChunk := rows.foldl MemChunk.append MemChunk.empty

def inRange (lo hi : Int) (r : ARow) : Bool := decide (lo ≤ r.t) && decide (r.t ≤ hi)

def dirRows (asc : Bool) (l : List ARow) : List ARow := if asc then l else l.reverse

/-- `WriteRec.SortRecord`: the chunk is sorted only if some time did not advance. -/
def MemChunk.sorted (c : MemChunk) : List ARow := if c.wr.timeAsd then c.rows else sortDedup c.rows

/-- `MemTable.getSortedRecSafe` (+ `Record.Copy` with the time range). -/
def MemChunk.read (c : MemChunk) (lo hi : Int) (asc : Bool) : List ARow :=
  if c.rows.isEmpty then []
  else if memSkip c.wr lo hi then []
  else dirRows asc (c.sorted.filter (inRange lo hi))

end OG.C02
