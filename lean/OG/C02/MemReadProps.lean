/-
C02 — the memtable's range read is the range filter of the sorted, de-duplicated chunk: the
skip test of `getSortedRecSafe` (translated from the source) is sound for every append order,
and skipping the sort when the times arrived strictly increasing changes nothing.
-/
import OG.C02.MemRead
import OG.C02.RecAlgProps

namespace OG.C02
open OG.Gen.C02

/-! ### what the translated bookkeeping computes -/

theorem appendTimes_first (w : WriteRec) (t : Int) :
    (appendTimes w t).firstAppendTime = if t < w.firstAppendTime then t else w.firstAppendTime := by
  unfold appendTimes
  by_cases h1 : t ≤ w.lastAppendTime <;> by_cases h2 : t < w.firstAppendTime <;> simp [h1, h2]

theorem appendTimes_last (w : WriteRec) (t : Int) :
    (appendTimes w t).lastAppendTime = if t ≤ w.lastAppendTime then w.lastAppendTime else t := by
  unfold appendTimes
  by_cases h1 : t ≤ w.lastAppendTime <;> by_cases h2 : t < w.firstAppendTime <;> simp [h1, h2]

theorem appendTimes_asd (w : WriteRec) (t : Int) :
    (appendTimes w t).timeAsd = if t ≤ w.lastAppendTime then false else w.timeAsd := by
  unfold appendTimes
  by_cases h1 : t ≤ w.lastAppendTime <;> by_cases h2 : t < w.firstAppendTime <;> simp [h1, h2]

theorem memSkip_iff (w : WriteRec) (lo hi : Int) :
    memSkip w lo hi = true ↔ w.lastAppendTime < lo ∨ hi < w.firstAppendTime := by
  simp [memSkip]

/-! ### times of the sorted chunk -/

theorem mem_insertRow_t (r : ARow) : ∀ (acc : List ARow) (x : ARow), x ∈ insertRow r acc →
    x.t = r.t ∨ ∃ y ∈ acc, y.t = x.t := by
  intro acc
  induction acc with
  | nil =>
    intro x hx
    simp only [insertRow, List.mem_singleton] at hx
    left; rw [hx]
  | cons a as ih =>
    intro x hx
    simp only [insertRow] at hx
    split at hx
    · simp only [List.mem_cons] at hx
      rcases hx with rfl | rfl | hx
      · left; rfl
      · right; exact ⟨x, by simp, rfl⟩
      · right; exact ⟨x, by simp [hx], rfl⟩
    · split at hx
      · simp only [List.mem_cons] at hx
        rcases hx with rfl | hx
        · right; exact ⟨a, by simp, rfl⟩
        · right; exact ⟨x, by simp [hx], rfl⟩
      · simp only [List.mem_cons] at hx
        rcases hx with rfl | hx
        · right; exact ⟨x, by simp, rfl⟩
        · rcases ih x hx with h | ⟨y, hy, hyt⟩
          · left; exact h
          · right; exact ⟨y, by simp [hy], hyt⟩

theorem mem_foldl_insertRow_t : ∀ (rows acc : List ARow) (x : ARow),
    x ∈ rows.foldl (fun acc r => insertRow r acc) acc → ∃ y ∈ acc ++ rows, y.t = x.t := by
  intro rows
  induction rows with
  | nil => intro acc x hx; exact ⟨x, by simpa using hx, rfl⟩
  | cons r rs ih =>
    intro acc x hx
    simp only [List.foldl_cons] at hx
    obtain ⟨y, hy, hyt⟩ := ih _ x hx
    rcases List.mem_append.1 hy with h | h
    · rcases mem_insertRow_t r acc y h with h' | ⟨z, hz, hzt⟩
      · exact ⟨r, by simp, by omega⟩
      · exact ⟨z, by simp [hz], by omega⟩
    · exact ⟨y, by simp [h], hyt⟩

/-- every time of the sorted chunk is the time of an appended row. -/
theorem sortDedup_times (rows : List ARow) (x : ARow) (hx : x ∈ sortDedup rows) :
    ∃ y ∈ rows, y.t = x.t := by
  simpa using mem_foldl_insertRow_t rows [] x hx

theorem insertRow_last (r : ARow) : ∀ acc : List ARow, (∀ x ∈ acc, x.t < r.t) →
    insertRow r acc = acc ++ [r] := by
  intro acc
  induction acc with
  | nil => intro _; rfl
  | cons a as ih =>
    intro h
    have ha := h a (by simp)
    simp only [insertRow]
    rw [if_neg (by omega), if_neg (by omega), ih (fun x hx => h x (by simp [hx]))]
    rfl

theorem foldl_insertRow_sorted : ∀ (rows acc : List ARow), SortedAsc (acc ++ rows) →
    rows.foldl (fun acc r => insertRow r acc) acc = acc ++ rows := by
  intro rows
  induction rows with
  | nil => intro acc _; simp
  | cons r rs ih =>
    intro acc h
    simp only [List.foldl_cons]
    have hlt : ∀ x ∈ acc, x.t < r.t := by
      intro x hx
      have := List.pairwise_append.1 h
      exact this.2.2 x hx r (by simp)
    rw [insertRow_last r acc hlt, ih (acc ++ [r]) (by simpa [SortedAsc] using h)]
    simp

/-- rows that arrived with strictly increasing times are already what the sort produces. -/
theorem sortDedup_of_sorted (rows : List ARow) (h : SortedAsc rows) : sortDedup rows = rows := by
  simpa [sortDedup] using foldl_insertRow_sorted rows [] (by simpa using h)

/-! ### the invariant of a chunk -/

structure ChunkInv (c : MemChunk) : Prop where
  lo : ∀ r ∈ c.rows, c.wr.firstAppendTime ≤ r.t
  hi : ∀ r ∈ c.rows, r.t ≤ c.wr.lastAppendTime
  asd : c.wr.timeAsd = true → SortedAsc c.rows

theorem chunkInv_empty : ChunkInv MemChunk.empty := by
  refine ⟨?_, ?_, ?_⟩ <;> simp [MemChunk.empty, SortedAsc]

theorem chunkInv_append (c : MemChunk) (r : ARow) (h : ChunkInv c) : ChunkInv (c.append r) := by
  refine ⟨?_, ?_, ?_⟩
  · intro x hx
    simp only [MemChunk.append, List.mem_append, List.mem_singleton, appendTimes_first] at hx ⊢
    rcases hx with hx | rfl
    · have := h.lo x hx
      split <;> omega
    · split <;> omega
  · intro x hx
    simp only [MemChunk.append, List.mem_append, List.mem_singleton, appendTimes_last] at hx ⊢
    rcases hx with hx | rfl
    · have := h.hi x hx
      split <;> omega
    · split <;> omega
  · intro ha
    simp only [MemChunk.append, appendTimes_asd] at ha ⊢
    split at ha
    · cases ha
    · rename_i hgt
      have hs := h.asd ha
      simp only [SortedAsc] at hs ⊢
      refine List.pairwise_append.2 ⟨hs, by simp, ?_⟩
      intro x hx y hy
      simp only [List.mem_singleton] at hy
      subst hy
      have := h.hi x hx
      omega

theorem ofRows_aux : ∀ (rows : List ARow) (c : MemChunk), ChunkInv c →
    ChunkInv (rows.foldl MemChunk.append c) ∧ (rows.foldl MemChunk.append c).rows = c.rows ++ rows := by
  intro rows
  induction rows with
  | nil => intro c h; exact ⟨h, by simp⟩
  | cons r rs ih =>
    intro c h
    simp only [List.foldl_cons]
    obtain ⟨h1, h2⟩ := ih (c.append r) (chunkInv_append c r h)
    exact ⟨h1, by rw [h2]; simp [MemChunk.append]⟩

theorem ofRows_inv (rows : List ARow) : ChunkInv (MemChunk.ofRows rows) ∧ (MemChunk.ofRows rows).rows = rows := by
  simpa [MemChunk.ofRows, MemChunk.empty] using ofRows_aux rows MemChunk.empty chunkInv_empty

/-- **the memtable's range read** (`getSortedRecSafe`): for every order in which the rows of a
series were appended (late rows, repeated times, partial rows) and every time range and
direction, what the chunk returns is the range filter of the sorted, de-duplicated chunk. In
particular the `firstAppendTime` / `lastAppendTime` skip test never hides a row inside the range,
and leaving out the sort when `timeAsd` still holds changes nothing. -/
theorem memtable_range_read_eq_filter (rows : List ARow) (lo hi : Int) (asc : Bool) :
    (MemChunk.ofRows rows).read lo hi asc = dirRows asc ((sortDedup rows).filter (inRange lo hi)) := by
  obtain ⟨inv, hr⟩ := ofRows_inv rows
  generalize MemChunk.ofRows rows = c at inv hr
  unfold MemChunk.read
  by_cases he : c.rows.isEmpty = true
  · have : rows = [] := by rw [← hr]; simpa using he
    subst this
    simp [he, sortDedup, dirRows]
  · rw [if_neg he]
    by_cases hs : memSkip c.wr lo hi = true
    · rw [if_pos hs]
      have hnil : (sortDedup rows).filter (inRange lo hi) = [] := by
        rw [List.filter_eq_nil_iff]
        intro x hx
        obtain ⟨y, hy, hyt⟩ := sortDedup_times rows x hx
        have h1 := inv.lo y (by rw [hr]; exact hy)
        have h2 := inv.hi y (by rw [hr]; exact hy)
        rcases (memSkip_iff _ _ _).1 hs with h | h
        · simp [inRange]; omega
        · simp [inRange]; omega
      simp [hnil, dirRows]
    · rw [if_neg hs]
      congr 2
      unfold MemChunk.sorted
      split
      · rename_i ha
        rw [hr, sortDedup_of_sorted rows (by rw [← hr]; exact inv.asd ha)]
      · rw [hr]

/-- and the rows it returns read, cell by cell, like the last-write-wins replay of the appended
rows restricted to the range (ascending read; `w` = number of columns). -/
theorem memtable_read_lookup (w : Nat) (rows : List ARow) (hw : Wide w rows) (lo hi : Int) (t : Int) (i : Nat) :
    lookR ((MemChunk.ofRows rows).read lo hi true) t i =
      if lo ≤ t ∧ t ≤ hi then lookR rows.reverse t i else none := by
  rw [memtable_range_read_eq_filter]
  obtain ⟨_, _, hl⟩ := sortDedup_props w rows hw
  rw [← hl t i]
  simp only [dirRows, if_true]
  generalize sortDedup rows = s
  induction s with
  | nil => simp [lookR]
  | cons x xs ih =>
    have hin_iff : inRange lo hi x = true ↔ lo ≤ x.t ∧ x.t ≤ hi := by simp [inRange]
    by_cases hin : inRange lo hi x = true
    · rw [List.filter_cons_of_pos hin]
      by_cases hx : x.t = t
      · subst hx
        simp only [lookR, if_true, if_pos (hin_iff.1 hin)] at ih ⊢
        cases getI x.vals i with
        | some v => rfl
        | none => exact ih
      · simp only [lookR, if_neg hx]; exact ih
    · rw [List.filter_cons_of_neg hin]
      by_cases hx : x.t = t
      · subst hx
        have hn : ¬ (lo ≤ x.t ∧ x.t ≤ hi) := fun h => hin (hin_iff.2 h)
        simp only [if_neg hn] at ih ⊢
        exact ih
      · simp only [lookR, if_neg hx]; exact ih

/-- non-vacuity: a late row (time 1 after time 5) is found by a range that ends before the first
appended time; a range beyond the last time is skipped without reading. -/
example : (MemChunk.ofRows [⟨5, [some "a"]⟩, ⟨1, [some "late"]⟩]).read 0 2 true = [⟨1, [some "late"]⟩] ∧
    memSkip (MemChunk.ofRows [⟨5, [some "a"]⟩, ⟨1, [some "late"]⟩]).wr 6 9 = true ∧
    (MemChunk.ofRows [⟨5, [some "a"]⟩, ⟨1, [some "late"]⟩]).wr.timeAsd = false := by decide

end OG.C02
