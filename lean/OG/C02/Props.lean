/-
C02 — property theorems.

Property: at every moment the contents of a measurement, as seen by reads, equal the result
of replaying all acknowledged writes in acknowledgement order into a map keyed by
(series, timestamp, field) where a later write replaces the fields it carries and leaves the
others untouched — whatever the layout (memtable, ordered / out-of-order / compacted files)
and whenever flushes, compactions, merges or a clean restart happened; rows come back sorted
by time with no duplicate timestamps per series.
-/
import OG.C02.Read

namespace OG.C02

/-! ### the specification: a last-write-wins map -/

/-- replay of rows in acknowledgement order into a map (series, time, field) ↦ value. -/
def lwwMap (rows : List Row) : Key → Option String :=
  rows.foldl (fun m r k => match lookup k r.cells with
    | some v => some v
    | none => m k) (fun _ => none)

/-- all rows of a history in acknowledgement order. -/
def allRows : List Op → List Row
  | [] => []
  | .write b :: ops => b ++ allRows ops
  | _ :: ops => allRows ops

theorem lookup_rows_lww (rows : List Row) (k : Key) :
    lookup k ((rows.reverse.map Row.cells).flatten) = lwwMap rows k := by
  suffices h : ∀ (m : Key → Option String) (pre : List Cell), (∀ k, lookup k pre = m k) →
      lookup k ((rows.reverse.map Row.cells).flatten ++ pre) =
        rows.foldl (fun m r k => match lookup k r.cells with
          | some v => some v
          | none => m k) m k by
    simpa [lwwMap, lookup] using h (fun _ => none) [] (fun _ => rfl)
  induction rows with
  | nil => intro m pre hp; simpa using hp k
  | cons r rs ih =>
    intro m pre hp
    simp only [List.reverse_cons, List.map_append, List.map_cons, List.map_nil,
      List.flatten_append, List.flatten_cons, List.flatten_nil, List.append_nil,
      List.append_assoc, List.foldl_cons]
    apply ih
    intro k'
    rw [lookup_append]
    cases lookup k' r.cells <;> simp [hp k']

theorem histRun_eq (ops : List Op) : ∀ h : List Cell,
    histRun h ops = ((allRows ops).reverse.map Row.cells).flatten ++ h := by
  induction ops with
  | nil => intro h; simp [histRun, allRows]
  | cons op ops ih =>
    intro h
    simp only [histRun, List.foldl_cons] at ih ⊢
    rw [ih]
    cases op <;> simp [histStep, allRows, batchCells, List.map_append]

/-- every history is safe for the repaired code. -/
theorem fixed_step (st : St) (op : Op) : (st.step op).fixed = st.fixed := by
  cases op <;> simp only [St.step, St.write, St.flush, St.compact, St.mergeOOO, St.reopen]
  · split <;> rfl
  · split <;> rfl
  · split <;> rfl

theorem safeRun_fixed (ops : List Op) : ∀ st : St, st.fixed = true → SafeRun st ops := by
  induction ops with
  | nil => intro st _; rfl
  | cons op ops ih =>
    intro st h
    have := ih (st.step op) (by rw [fixed_step]; exact h)
    simp only [SafeRun, safeRun, Bool.and_eq_true] at this ⊢
    refine ⟨?_, this⟩
    cases op <;> simp [reopenOK, h]

theorem read_eq_lww_of_safe (n : Nat) (hn : 0 < n) (fx : Bool) (ops : List Op)
    (hs : SafeRun (St.init n fx) ops) (lo hi : Int) (asc : Bool) (fields : List String) :
    (run (St.init n fx) ops).read lo hi asc fields
      = readCells ((allRows ops).reverse.map Row.cells).flatten lo hi asc fields := by
  have h := (run_refines ops (St.init n fx) [] (inv_init n hn fx)
    (by intro k; simp [St.init, St.cells]) hs).2
  rw [histRun_eq] at h
  simp only [List.append_nil] at h
  exact readCells_congr h lo hi asc fields

/-- **T1** (repaired code: the WAL counter restarts at every switch). Every read of every
reachable layout equals the read of the last-write-wins replay of the acknowledged rows — for
every number of WAL partitions and every sequence of write / flush / compaction /
out-of-order merge / clean reopen. -/
theorem read_eq_lww (n : Nat) (hn : 0 < n) (ops : List Op)
    (lo hi : Int) (asc : Bool) (fields : List String) :
    (run (St.init n true) ops).read lo hi asc fields
      = readCells ((allRows ops).reverse.map Row.cells).flatten lo hi asc fields :=
  read_eq_lww_of_safe n hn true ops (safeRun_fixed ops _ rfl) lo hi asc fields

/-- the same, key by key, against the explicit last-write-wins map. -/
theorem lookup_eq_lww (n : Nat) (hn : 0 < n) (ops : List Op) (k : Key) :
    lookup k (run (St.init n true) ops).cells = lwwMap (allRows ops) k := by
  have h := (run_refines ops (St.init n true) [] (inv_init n hn true)
    (by intro k; simp [St.init, St.cells]) (safeRun_fixed ops _ rfl)).2
  rw [histRun_eq] at h
  simp only [List.append_nil] at h
  rw [h k, lookup_rows_lww]

/-- **T1 for the code at the pinned commit (partial)**: the same statement under the decidable
hypothesis `SafeRun`: a reopen with unflushed data happens only with a single WAL partition. -/
theorem read_eq_lww_asWritten_partial (n : Nat) (hn : 0 < n) (ops : List Op)
    (hs : SafeRun (St.init n false) ops) (lo hi : Int) (asc : Bool) (fields : List String) :
    (run (St.init n false) ops).read lo hi asc fields
      = readCells ((allRows ops).reverse.map Row.cells).flatten lo hi asc fields :=
  read_eq_lww_of_safe n hn false ops hs lo hi asc fields

/-- the full statement for the code at the pinned commit. -/
def T1_full_asWritten : Prop :=
  ∀ (n : Nat), 0 < n → ∀ (ops : List Op) (k : Key),
    lookup k (run (St.init n false) ops).cells = lwwMap (allRows ops) k

/-- **the code at the pinned commit violated T1**: with two WAL partitions, one write and a
flush, then two writes to the same (series, time, field) and a clean reopen, the older of the
two values wins, because the replay starts at partition 0 whatever partition holds the oldest
surviving record. Found by the model, replayed on the real shard, repaired in /repo
(fix: restart the WAL partition round-robin at every switch). -/
theorem T1_full_asWritten_fails : ¬ T1_full_asWritten := by
  intro h
  have := h 2 (by decide)
    [.write [⟨0, 0, [("f", "a")]⟩], .flush,
     .write [⟨0, 1, [("f", "old")]⟩], .write [⟨0, 1, [("f", "new")]⟩], .reopen]
    (0, 1, "f")
  revert this
  decide

/-- the same history on the repaired model reads the new value (non-vacuity of T1). -/
example : lookup (0, 1, "f") (run (St.init 2 true)
    [.write [⟨0, 0, [("f", "a")]⟩], .flush,
     .write [⟨0, 1, [("f", "old")]⟩], .write [⟨0, 1, [("f", "new")]⟩], .reopen]).cells = some "new" := by
  decide

/-! ### shape of the answer -/

/-- **T2** inside a series the returned timestamps are strictly increasing (ascending read):
sorted, no duplicates. -/
theorem read_sorted_nodup (cells : List Cell) (s : Nat) (lo hi : Int) (fields : List String) :
    ((readSeries cells s lo hi true fields).map (·.2.1)).Pairwise (· < ·) := by
  unfold readSeries
  simp only [if_true]
  have hs := sortDistinct_sorted ((cells.filter fun c => c.s = s ∧ lo ≤ c.t ∧ c.t ≤ hi).map (·.t))
  generalize sortDistinct ((cells.filter fun c => c.s = s ∧ lo ≤ c.t ∧ c.t ≤ hi).map (·.t)) = ts at hs
  induction ts with
  | nil => simp
  | cons t ts ih =>
    have ht := List.pairwise_cons.1 hs
    simp only [List.filterMap_cons]
    split
    · exact ih ht.2
    · rename_i x hx
      simp only [List.map_cons]
      refine List.pairwise_cons.2 ⟨?_, ih ht.2⟩
      intro a ha
      simp only [List.mem_map, List.mem_filterMap] at ha
      obtain ⟨row, ⟨t', ht', hrow⟩, rfl⟩ := ha
      split at hx
      · split at hrow
        · cases hx; cases hrow; exact ht.1 t' ht'
        · cases hrow
      · cases hx

/-- **T3** a descending read is the ascending read reversed. -/
theorem desc_is_reverse_of_asc (cells : List Cell) (s : Nat) (lo hi : Int) (fields : List String) :
    readSeries cells s lo hi false fields = (readSeries cells s lo hi true fields).reverse := by
  unfold readSeries
  simp [List.filterMap_reverse]

end OG.C02
