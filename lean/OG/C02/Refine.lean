/-
C02 — every layout operation keeps the lookup function of the layout equal to the
last-write-wins history (refinement), under the invariant `Inv`.
-/
import OG.C02.Lemmas

namespace OG.C02

/-- operations on a shard. -/
inductive Op where
  | write (b : List Row)
  | flush
  | compact
  | merge
  | reopen
deriving Repr

def St.step (st : St) : Op → St
  | .write b => st.write b
  | .flush => st.flush
  | .compact => st.compact
  | .merge => st.mergeOOO
  | .reopen => st.reopen

/-- the abstract state: all acknowledged cells, newest first. -/
def histStep (h : List Cell) : Op → List Cell
  | .write b => batchCells b ++ h
  | _ => h

/-- files hold only cells at or below their series' last flushed time. -/
def FilesBelow (st : St) : Prop :=
  ∀ c ∈ st.ooo.flatten ++ st.ordered.flatten,
    ∃ m, lastFlushOf st.lastFlush c.s = some m ∧ c.t ≤ m

/-- the memtable is exactly the WAL records since the last switch, in write order. -/
def WalOK (st : St) : Prop :=
  st.active = (st.wal.reverse.map fun r => batchCells r.2).flatten

/-- record `i` of the list sits in partition `(k + i) mod n`. -/
def AlignedFrom (n : Nat) : Nat → List (Nat × List Row) → Prop
  | _, [] => True
  | k, r :: rs => r.1 = k % n ∧ AlignedFrom n (k + 1) rs

structure Inv (st : St) : Prop where
  files : FilesBelow st
  wal : WalOK st
  np : 0 < st.nParts
  parts : ∀ r ∈ st.wal, r.1 < st.nParts
  aligned : st.fixed = true → AlignedFrom st.nParts 0 st.wal ∧ st.ctr = st.wal.length

theorem inv_init (n : Nat) (hn : 0 < n) (fx : Bool) : Inv (St.init n fx) := by
  refine ⟨?_, ?_, hn, ?_, ?_⟩
  · intro c hc; simp [St.init] at hc
  · simp [WalOK, St.init]
  · intro r hr; simp [St.init] at hr
  · intro _; simp [St.init, AlignedFrom]

/-! ### last flushed time only grows -/

theorem isOrdered_key (lf : List (Nat × Int)) (c d : Cell) (h : c.key = d.key) :
    isOrdered lf c = isOrdered lf d := by
  simp only [Cell.key, Prod.mk.injEq] at h
  simp [isOrdered, h.1, h.2.1]

theorem lastFlushOf_upd (lf : List (Nat × Int)) (c : Cell) (s : Nat) :
    (∀ m, lastFlushOf lf s = some m → ∃ m', lastFlushOf (updLastFlush lf c) s = some m' ∧ m ≤ m') ∧
    (s = c.s → ∃ m', lastFlushOf (updLastFlush lf c) s = some m' ∧ c.t ≤ m') := by
  unfold updLastFlush
  constructor
  · intro m hm
    simp only [lastFlushOf]
    by_cases hs : c.s = s
    · simp only [hs, if_true, hm]
      exact ⟨max c.t m, rfl, by omega⟩
    · simp only [hs, if_false]
      exact ⟨m, hm, Int.le_refl _⟩
  · intro hs; subst hs
    simp only [lastFlushOf, if_true]
    cases lastFlushOf lf c.s with
    | none => exact ⟨c.t, rfl, Int.le_refl _⟩
    | some m => exact ⟨max c.t m, rfl, by omega⟩

theorem lastFlushOf_foldl (cs : List Cell) (lf : List (Nat × Int)) (s : Nat) :
    (∀ m, lastFlushOf lf s = some m → ∃ m', lastFlushOf (cs.foldl updLastFlush lf) s = some m' ∧ m ≤ m') ∧
    (∀ c ∈ cs, c.s = s → ∃ m', lastFlushOf (cs.foldl updLastFlush lf) s = some m' ∧ c.t ≤ m') := by
  induction cs generalizing lf with
  | nil => exact ⟨fun m hm => ⟨m, hm, Int.le_refl _⟩, fun c hc => by simp at hc⟩
  | cons d ds ih =>
    have h1 := lastFlushOf_upd lf d s
    have h2 := ih (updLastFlush lf d)
    constructor
    · intro m hm
      obtain ⟨m1, hm1, hle1⟩ := h1.1 m hm
      obtain ⟨m2, hm2, hle2⟩ := h2.1 m1 hm1
      exact ⟨m2, hm2, by omega⟩
    · intro c hc hs
      simp only [List.mem_cons] at hc
      rcases hc with rfl | hc
      · obtain ⟨m1, hm1, hle1⟩ := h1.2 hs.symm
        obtain ⟨m2, hm2, hle2⟩ := h2.1 m1 hm1
        exact ⟨m2, hm2, by omega⟩
      · exact h2.2 c hc hs

end OG.C02

namespace OG.C02

theorem flatten_cons_if (l : List Cell) (L : List (List Cell)) :
    (if l = [] then L else l :: L).flatten = l ++ L.flatten := by
  split <;> simp_all

/-- cells at or below their series' last flushed time are not "ordered". -/
theorem not_ordered_of_below (lf : List (Nat × Int)) (c : Cell)
    (h : ∃ m, lastFlushOf lf c.s = some m ∧ c.t ≤ m) : isOrdered lf c = false := by
  obtain ⟨m, hm, hle⟩ := h
  simp [isOrdered, hm]; omega

/-- flush does not change what any key reads. -/
theorem flush_equiv (st : St) (hf : FilesBelow st) : Equiv st.flush.cells st.cells := by
  intro k
  unfold St.flush
  simp only []
  by_cases ha : st.active = []
  · simp [ha, St.cells]
  · simp only [ha, if_false, St.cells, flatten_cons_if, List.nil_append]
    -- is k an "ordered" key?
    have hkey : ∀ c d : Cell, c.key = k → d.key = k →
        isOrdered st.lastFlush c = isOrdered st.lastFlush d :=
      fun c d hc hd => isOrdered_key _ c d (hc.trans hd.symm)
    by_cases hex : ∃ c ∈ st.active ++ st.ooo.flatten ++ st.ordered.flatten, c.key = k
    · obtain ⟨c0, _, hc0⟩ := hex
      cases hb : isOrdered st.lastFlush c0 with
      | true =>
        have h1 : lookup k (st.active.filter fun c => !isOrdered st.lastFlush c) = none := by
          rw [lookup_filter (b := false) k _ st.active]
          · rfl
          · intro c _ hck; simp [hkey c c0 hck hc0, hb]
        have h2 : lookup k (st.active.filter (isOrdered st.lastFlush)) = lookup k st.active := by
          rw [lookup_filter (b := true) k _ st.active]
          · rfl
          · intro c _ hck; simp [hkey c c0 hck hc0, hb]
        have h3 : lookup k st.ooo.flatten = none := by
          apply lookup_none_of_no_key
          intro c hc hck
          have := not_ordered_of_below st.lastFlush c (hf c (by simp [hc]))
          rw [hkey c c0 hck hc0, hb] at this
          cases this
        simp [lookup_append, h1, h2, h3]
      | false =>
        have h1 : lookup k (st.active.filter fun c => !isOrdered st.lastFlush c) = lookup k st.active := by
          rw [lookup_filter (b := true) k _ st.active]
          · rfl
          · intro c _ hck; simp [hkey c c0 hck hc0, hb]
        have h2 : lookup k (st.active.filter (isOrdered st.lastFlush)) = none := by
          rw [lookup_filter (b := false) k _ st.active]
          · rfl
          · intro c _ hck; simp [hkey c c0 hck hc0, hb]
        simp only [lookup_append, h1, h2]
    · have hno : ∀ xs : List Cell, (∀ c ∈ xs, c ∈ st.active ++ st.ooo.flatten ++ st.ordered.flatten) →
          lookup k xs = none := by
        intro xs hxs
        apply lookup_none_of_no_key
        intro c hc hck
        exact hex ⟨c, hxs c hc, hck⟩
      have e1 := hno (st.active.filter fun c => !isOrdered st.lastFlush c)
        (fun c hc => by simp [(List.mem_filter.1 hc).1])
      have e2 := hno (st.active.filter (isOrdered st.lastFlush))
        (fun c hc => by simp [(List.mem_filter.1 hc).1])
      have e3 := hno st.active (fun c hc => by simp [hc])
      have e4 := hno st.ooo.flatten (fun c hc => by simp [hc])
      have e5 := hno st.ordered.flatten (fun c hc => by simp [hc])
      simp [lookup_append, e1, e2, e3, e4, e5]

/-- what a flush leaves in the WAL bookkeeping. -/
theorem flush_wal (st : St) : st.flush.wal = [] ∧ st.flush.nParts = st.nParts ∧
    st.flush.fixed = st.fixed ∧ (st.fixed = true → st.flush.ctr = 0) ∧ st.flush.active = [] := by
  unfold St.flush
  simp only []
  by_cases ha : st.active = [] <;> simp [ha] <;> intro h <;> simp [h]

/-- flush keeps the invariant (it needs only the file part of it). -/
theorem flush_inv (st : St) (hfiles : FilesBelow st) (hnp : 0 < st.nParts) : Inv st.flush := by
  obtain ⟨hw, hn, hfx, hc, hact⟩ := flush_wal st
  refine ⟨?_, by simp [WalOK, hw, hact], by omega, by simp [hw], ?_⟩
  · unfold St.flush
    simp only []
    by_cases ha : st.active = []
    · simpa [ha, FilesBelow] using hfiles
    · simp only [ha, if_false]
      intro c hc
      simp only [flatten_cons_if, List.mem_append] at hc
      have hfold := lastFlushOf_foldl (st.active.filter (isOrdered st.lastFlush)) st.lastFlush c.s
      have old : (∃ m, lastFlushOf st.lastFlush c.s = some m ∧ c.t ≤ m) →
          ∃ m, lastFlushOf (List.foldl updLastFlush st.lastFlush
            (st.active.filter (isOrdered st.lastFlush))) c.s = some m ∧ c.t ≤ m := by
        rintro ⟨m, hm, hle⟩
        obtain ⟨m', hm', hle'⟩ := hfold.1 m hm
        exact ⟨m', hm', by omega⟩
      rcases hc with (hc | hc) | (hc | hc)
      · have hno := (List.mem_filter.1 hc).2
        apply old
        simp only [isOrdered, Bool.not_eq_true'] at hno
        cases hl : lastFlushOf st.lastFlush c.s with
        | none => simp [hl] at hno
        | some m => exact ⟨m, rfl, by simp [hl] at hno; omega⟩
      · exact old (hfiles c (by simp [hc]))
      · exact hfold.2 c hc rfl
      · exact old (hfiles c (by simp [hc]))
  · intro hf
    rw [hfx] at hf
    simp [hw, AlignedFrom, hc hf]

theorem compact_equiv (st : St) : Equiv st.compact.cells st.cells := by
  intro k
  unfold St.compact St.cells
  by_cases h : st.ordered = [] <;> simp [h]

theorem compact_inv (st : St) (h : Inv st) : Inv st.compact := by
  refine ⟨?_, h.wal, h.np, h.parts, h.aligned⟩
  intro c hc
  apply h.files c
  unfold St.compact at hc
  by_cases ho : st.ordered = [] <;> simp_all

theorem merge_equiv (st : St) : Equiv st.mergeOOO.cells st.cells := by
  intro k
  unfold St.mergeOOO St.cells
  by_cases h : st.ooo = [] <;> simp [h]

theorem merge_inv (st : St) (h : Inv st) : Inv st.mergeOOO := by
  unfold St.mergeOOO
  by_cases ho : st.ooo = []
  · simpa [ho] using h
  · simp only [ho, if_false]
    refine ⟨?_, h.wal, h.np, h.parts, h.aligned⟩
    intro c hc
    apply h.files c
    simpa using hc

theorem alignedFrom_snoc (n : Nat) (x : Nat × List Row) :
    ∀ (k : Nat) (recs : List (Nat × List Row)), AlignedFrom n k recs → x.1 = (k + recs.length) % n →
      AlignedFrom n k (recs ++ [x]) := by
  intro k recs
  induction recs generalizing k with
  | nil => intro _ hx; simpa [AlignedFrom] using hx
  | cons r rs ih =>
    intro h hx
    refine ⟨h.1, ih (k + 1) h.2 ?_⟩
    simp only [List.length_cons] at hx
    rw [hx]; congr 1; omega

theorem write_inv (st : St) (b : List Row) (h : Inv st) : Inv (st.write b) := by
  refine ⟨h.files, ?_, h.np, ?_, ?_⟩
  · have := h.wal
    simp only [WalOK, St.write] at this ⊢
    simp [this]
  · intro r hr
    simp only [St.write, List.mem_append, List.mem_singleton] at hr
    rcases hr with hr | rfl
    · exact h.parts r hr
    · exact Nat.mod_lt _ h.np
  · intro hf
    obtain ⟨ha, hc⟩ := h.aligned hf
    simp only [St.write]
    refine ⟨alignedFrom_snoc _ _ 0 _ ha ?_, by simp [hc]⟩
    simp [hc]

theorem write_cells (st : St) (b : List Row) : (st.write b).cells = batchCells b ++ st.cells := by
  simp [St.write, St.cells]

/-! ### replay order -/

theorem popRound_nil (ps : List Nat) : popRound ps [] = ([], []) := by
  induction ps with
  | nil => rfl
  | cons p ps ih => simp [popRound, ih]

theorem alignedFrom_mod (n : Nat) : ∀ (recs : List (Nat × List Row)) (k k' : Nat), k % n = k' % n →
    AlignedFrom n k recs → AlignedFrom n k' recs := by
  intro recs
  induction recs with
  | nil => intro _ _ _ _; trivial
  | cons r rs ih =>
    intro k k' hk h
    refine ⟨by rw [← hk]; exact h.1, ih (k + 1) (k' + 1) ?_ h.2⟩
    rw [Nat.add_mod, hk, ← Nat.add_mod]

theorem alignedFrom_drop (n : Nat) : ∀ (m : Nat) (recs : List (Nat × List Row)) (k : Nat),
    AlignedFrom n k recs → AlignedFrom n (k + m) (recs.drop m) := by
  intro m
  induction m with
  | zero => intro recs k h; simpa using h
  | succ m ih =>
    intro recs k h
    cases recs with
    | nil => trivial
    | cons r rs =>
      simp only [List.drop_succ_cons]
      have := ih rs (k + 1) h.2
      have e : k + 1 + m = k + (m + 1) := by omega
      rw [e] at this
      exact this

/-- one round over the partitions `j … n-1` of an aligned record list takes its first `n-j`
records, in order. -/
theorem popRound_aligned (n : Nat) : ∀ (m j : Nat), j + m = n → ∀ recs, AlignedFrom n j recs →
    popRound (List.range' j m) recs = ((recs.take m).map (·.2), recs.drop m) := by
  intro m
  induction m with
  | zero => intro j _ recs _; simp [popRound]
  | succ m ih =>
    intro j hj recs h
    simp only [List.range'_succ, popRound]
    cases recs with
    | nil => simp [popRound_nil]
    | cons r rs =>
      have hr : r.1 = j := by rw [h.1]; exact Nat.mod_eq_of_lt (by omega)
      simp only [List.find?, hr, decide_true, List.eraseP_cons_of_pos]
      rw [ih (j + 1) (by omega) rs h.2]
      simp

/-- **the serial replay of an aligned WAL returns the records in write order.** -/
theorem roundRobin_aligned (n : Nat) (hn : 0 < n) : ∀ (fuel : Nat) (recs : List (Nat × List Row)),
    AlignedFrom n 0 recs → recs.length < fuel → roundRobin n fuel recs = recs.map (·.2) := by
  intro fuel
  induction fuel with
  | zero => intro recs _ hf; simp at hf
  | succ f ih =>
    intro recs ha hf
    simp only [roundRobin]
    by_cases he : recs = []
    · simp [he]
    · simp only [he, if_false]
      have hp := popRound_aligned n n 0 (by omega) recs ha
      rw [List.range_eq_range'] 
      rw [hp]
      simp only []
      have hd : AlignedFrom n 0 (recs.drop n) :=
        alignedFrom_mod n _ (0 + n) 0 (by simp) (alignedFrom_drop n n recs 0 ha)
      have hl : (recs.drop n).length < f := by
        have : 0 < recs.length := by
          cases recs with
          | nil => exact absurd rfl he
          | cons _ _ => simp
        simp only [List.length_drop]; omega
      rw [ih _ hd hl, ← List.map_append, List.take_append_drop]

/-- a single partition is always aligned. -/
theorem aligned_of_one (recs : List (Nat × List Row)) (h : ∀ r ∈ recs, r.1 = 0) :
    ∀ k, AlignedFrom 1 k recs := by
  induction recs with
  | nil => intro _; trivial
  | cons r rs ih =>
    intro k
    exact ⟨by rw [h r (by simp)]; omega, ih (fun x hx => h x (by simp [hx])) (k + 1)⟩

/-- reopen is harmless when the WAL is aligned (repaired code), empty, or has one partition. -/
theorem reopen_equiv (st : St) (h : Inv st)
    (hs : st.fixed = true ∨ st.wal = [] ∨ st.nParts = 1) :
    Equiv st.reopen.cells st.cells ∧ Inv st.reopen := by
  have hal : AlignedFrom st.nParts 0 st.wal := by
    rcases hs with hf | hw | hn
    · exact (h.aligned hf).1
    · rw [hw]; trivial
    · rw [hn]
      exact aligned_of_one st.wal (fun r hr => by have := h.parts r hr; omega) 0
  have hact : (((roundRobin st.nParts (st.wal.length + 1) st.wal).reverse.map batchCells).flatten)
      = st.active := by
    rw [roundRobin_aligned st.nParts h.np _ st.wal hal (by omega)]
    have := h.wal
    simp only [WalOK] at this
    rw [this]
    simp [List.map_reverse, Function.comp_def]
  unfold St.reopen
  simp only [hact]
  constructor
  · exact flush_equiv _ h.files
  · exact flush_inv _ h.files h.np

/-- a reopen is harmless when nothing unflushed sits in the WAL, or the WAL has a single
partition, or the WAL counter restarts at a switch (repaired code). -/
def reopenOK (st : St) : Op → Bool
  | .reopen => st.fixed || decide (st.wal = [] ∨ st.nParts = 1)
  | _ => true

/-- the (decidable) hypothesis that excludes the defect of the code at the pinned commit. -/
def safeRun : St → List Op → Bool
  | _, [] => true
  | st, op :: ops => reopenOK st op && safeRun (st.step op) ops

def SafeRun (st : St) (ops : List Op) : Prop := safeRun st ops = true

def run (st : St) (ops : List Op) : St := ops.foldl St.step st
def histRun (h : List Cell) (ops : List Op) : List Cell := ops.foldl histStep h

theorem step_refines (st : St) (hist : List Cell) (op : Op) (hi : Inv st) (he : Equiv st.cells hist)
    (hs : reopenOK st op = true) :
    Inv (st.step op) ∧ Equiv (st.step op).cells (histStep hist op) := by
  cases op with
  | write b =>
    refine ⟨write_inv st b hi, ?_⟩
    simp only [St.step, histStep, write_cells]
    exact Equiv.append_left _ he
  | flush => exact ⟨flush_inv st hi.files hi.np, (flush_equiv st hi.files).trans he⟩
  | compact => exact ⟨compact_inv st hi, (compact_equiv st).trans he⟩
  | merge => exact ⟨merge_inv st hi, (merge_equiv st).trans he⟩
  | reopen =>
    have := reopen_equiv st hi (by
      simp only [reopenOK, Bool.or_eq_true, decide_eq_true_eq] at hs
      rcases hs with h | h | h
      · exact Or.inl h
      · exact Or.inr (Or.inl h)
      · exact Or.inr (Or.inr h))
    exact ⟨this.2, this.1.trans he⟩

theorem run_refines (ops : List Op) : ∀ (st : St) (hist : List Cell), Inv st → Equiv st.cells hist →
    SafeRun st ops → Inv (run st ops) ∧ Equiv (run st ops).cells (histRun hist ops) := by
  induction ops with
  | nil => intro st hist hi he _; exact ⟨hi, he⟩
  | cons op ops ih =>
    intro st hist hi he hs
    simp only [SafeRun, safeRun, Bool.and_eq_true] at hs
    obtain ⟨h1, h2⟩ := hs
    have := step_refines st hist op hi he h1
    exact ih _ _ this.1 this.2 h2

end OG.C02
