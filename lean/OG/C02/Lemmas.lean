/-
C02 — helper lemmas about `lookup` (first match in a precedence-ordered cell list).
-/
import OG.C02.Model

namespace OG.C02

theorem lookup_append (k : Key) (xs ys : List Cell) :
    lookup k (xs ++ ys) = match lookup k xs with
      | some v => some v
      | none => lookup k ys := by
  induction xs with
  | nil => simp [lookup]
  | cons c cs ih =>
    simp only [List.cons_append, lookup]
    split <;> simp_all

theorem lookup_none_of_no_key (k : Key) (xs : List Cell) (h : ∀ c ∈ xs, c.key ≠ k) :
    lookup k xs = none := by
  induction xs with
  | nil => rfl
  | cons c cs ih =>
    simp only [lookup]
    have := h c (by simp)
    simp [this]
    exact ih (fun c hc => h c (by simp [hc]))

/-- filtering by a predicate that only looks at the key keeps or kills all cells of a key. -/
theorem lookup_filter (k : Key) (p : Cell → Bool) (xs : List Cell)
    (hp : ∀ c ∈ xs, c.key = k → p c = b) :
    lookup k (xs.filter p) = if b then lookup k xs else none := by
  induction xs with
  | nil => cases b <;> simp [lookup]
  | cons c cs ih =>
    have ih' := ih (fun c hc => hp c (by simp [hc]))
    by_cases hk : c.key = k
    · have hb := hp c (by simp) hk
      cases b
      · simp [List.filter, hb, ih']
      · simp [List.filter, hb, lookup, hk]
    · cases hpc : p c
      · simp [List.filter, hpc, ih', lookup, hk]
      · simp [List.filter, hpc, lookup, hk, ih']

theorem lookup_some_mem (k : Key) (xs : List Cell) (v : String) (h : lookup k xs = some v) :
    ∃ c ∈ xs, c.key = k := by
  induction xs with
  | nil => simp [lookup] at h
  | cons c cs ih =>
    simp only [lookup] at h
    by_cases hk : c.key = k
    · exact ⟨c, by simp, hk⟩
    · simp [hk] at h
      obtain ⟨d, hd, hdk⟩ := ih h
      exact ⟨d, by simp [hd], hdk⟩

theorem lookup_isSome_of_mem (c : Cell) (xs : List Cell) (h : c ∈ xs) :
    ∃ v, lookup c.key xs = some v := by
  induction xs with
  | nil => simp at h
  | cons d ds ih =>
    simp only [lookup]
    by_cases hk : d.key = c.key
    · exact ⟨d.v, by simp [hk]⟩
    · simp only [hk, if_false]
      simp only [List.mem_cons] at h
      rcases h with rfl | h
      · exact absurd rfl hk
      · exact ih h

/-- lookup-equivalence of two cell lists: every key reads the same. -/
def Equiv (xs ys : List Cell) : Prop := ∀ k, lookup k xs = lookup k ys

theorem Equiv.refl (xs : List Cell) : Equiv xs xs := fun _ => rfl
theorem Equiv.trans {xs ys zs : List Cell} (h1 : Equiv xs ys) (h2 : Equiv ys zs) : Equiv xs zs :=
  fun k => (h1 k).trans (h2 k)
theorem Equiv.symm {xs ys : List Cell} (h : Equiv xs ys) : Equiv ys xs := fun k => (h k).symm

theorem Equiv.append_left (zs : List Cell) {xs ys : List Cell} (h : Equiv xs ys) :
    Equiv (zs ++ xs) (zs ++ ys) := by
  intro k; simp [lookup_append, h k]

theorem Equiv.append_right (zs : List Cell) {xs ys : List Cell} (h : Equiv xs ys) :
    Equiv (xs ++ zs) (ys ++ zs) := by
  intro k; simp [lookup_append, h k]

end OG.C02
