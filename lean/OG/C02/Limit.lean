/-
C02 — LIMIT / OFFSET pushed into the series cursors (engine/limit_cursor.go): the limited read of
every reachable layout is the limited read of the last-write-wins replay — per series the first
`k` rows of the full answer in the direction of the read.
-/
import OG.C02.Props

namespace OG.C02

theorem readCellsLim_congr {a b : List Cell} (h : Equiv a b) (lo hi : Int) (asc : Bool)
    (fields : List String) (k : Nat) :
    readCellsLim a lo hi asc fields k = readCellsLim b lo hi asc fields k := by
  unfold readCellsLim
  have hs : sortDistinct (a.map (·.s)) = sortDistinct (b.map (·.s)) := by
    apply sortDistinct_congr
    intro s
    have key : ∀ {x y : List Cell}, Equiv x y → s ∈ x.map (·.s) → s ∈ y.map (·.s) := by
      intro x y hxy hs
      simp only [List.mem_map] at hs ⊢
      obtain ⟨c, hc, rfl⟩ := hs
      obtain ⟨d, hd, hdk⟩ := hxy.key_mem c hc
      simp only [Cell.key, Prod.mk.injEq] at hdk
      exact ⟨d, hd, hdk.1⟩
    exact ⟨key h, key h.symm⟩
  rw [hs]
  congr 1
  funext s
  rw [readSeries_congr h s lo hi asc fields]

/-- **the limited read equals the limited read of the last-write-wins replay**, for every number
of WAL partitions, every history, every range, direction, field subset and limit. -/
theorem readlim_eq_lww (n : Nat) (hn : 0 < n) (ops : List Op) (lo hi : Int) (asc : Bool)
    (fields : List String) (k : Nat) :
    readCellsLim (run (St.init n true) ops).cells lo hi asc fields k
      = readCellsLim ((allRows ops).reverse.map Row.cells).flatten lo hi asc fields k := by
  have h := (run_refines ops (St.init n true) [] (inv_init n hn true)
    (by intro k; simp [St.init, St.cells]) (safeRun_fixed ops _ rfl)).2
  rw [histRun_eq] at h
  simp only [List.append_nil] at h
  exact readCellsLim_congr h lo hi asc fields k

/-- with a limit at least as large as every series' answer the limited read is the read. -/
theorem readlim_all (cells : List Cell) (lo hi : Int) (asc : Bool) (fields : List String) (k : Nat)
    (hk : ∀ s, (readSeries cells s lo hi asc fields).length ≤ k) :
    readCellsLim cells lo hi asc fields k = readCells cells lo hi asc fields := by
  unfold readCellsLim readCells
  congr 1
  funext s
  exact List.take_of_length_le (hk s)

/-- a limited ascending answer is still strictly increasing in time inside a series. -/
theorem readlim_sorted (cells : List Cell) (s : Nat) (lo hi : Int) (fields : List String) (k : Nat) :
    (((readSeries cells s lo hi true fields).take k).map (·.2.1)).Pairwise (· < ·) := by
  rw [List.map_take]
  exact (read_sorted_nodup cells s lo hi fields).sublist (List.take_sublist _ _)

example : readCellsLim [⟨0, 1, "f", "a"⟩, ⟨0, 2, "f", "b"⟩, ⟨0, 3, "f", "c"⟩] 0 9 false ["f"] 2
    = [(0, 3, [some "c"]), (0, 2, [some "b"])] := by decide

end OG.C02
