/-
C02 — the row-level model of lib/record (OG.C02.RecAlg) takes the decisions the *source* takes:
the comparison and merge decision functions of `ColumnSortHelper` / `Record.appendRecs` /
`Record.mergeRecRow` / `MergeRecordLimitRows[Descend]` are translated from /repo's working tree
by ogfacts (OG/Generated/C02.lean) and proved equal to the ones the model was written with; the
merge written with the translated decisions is the model's merge, so `mergeRec_props`,
`mergeRecDesc_props`, `sortDedup_props` are theorems about what the code says now.
-/
import OG.C02.RecAlgSrcDefs
import OG.C02.RecAlgProps

namespace OG.C02
open OG.Gen.C02

/-- `SortAux.Less` is the strict order the model sorts by (so `sort.Stable` keeps the arrival
order of rows with equal times, which is what makes "the later row wins" true). -/
theorem sortLess_eq_before (a b : Int) : sortLess a b = before true a b := by
  simp [sortLess, before]

theorem sortLess_irrefl (a : Int) : sortLess a a = false := by simp [sortLess]

theorem insertRowSrc_eq (r : ARow) : ∀ acc, insertRowSrc r acc = insertRow r acc := by
  intro acc
  induction acc with
  | nil => rfl
  | cons x xs ih =>
    simp only [insertRowSrc, insertRow, sortLess, decide_eq_true_eq]
    by_cases h1 : r.t < x.t
    · simp [h1]
    · by_cases h2 : x.t < r.t
      · have : ¬ r.t = x.t := by omega
        simp [h1, h2, this, ih]
      · have : r.t = x.t := by omega
        simp [h1, h2, this]

theorem cellSortSrc_eq (a b : Option String) : cellSortSrc a b = cellModel a b := by
  cases a <;> cases b <;> rfl

theorem cellMergeSrc_eq (a b : Option String) : cellMergeSrc a b = cellModel a b := by
  cases a <;> cases b <;> rfl

theorem mergeVals_cells : ∀ (a b : List (Option String)),
    mergeVals a b = (a.zip b).map fun p => cellMergeSrc p.1 p.2 := by
  intro a
  induction a with
  | nil => intro b; simp [mergeVals]
  | cons x xs ih =>
    intro b
    cases b with
    | nil => simp [mergeVals]
    | cons y ys =>
      simp only [mergeVals, List.zip_cons_cons, List.map_cons, ih ys, cellMergeSrc_eq]
      rfl

theorem appendRecsPick_eq (asc : Bool) (oldT newT : Int) :
    appendRecsPick asc oldT newT =
      if before asc newT oldT then 1 else if before asc oldT newT then 0 else 2 := by
  cases asc <;> simp only [appendRecsPick, before, Bool.false_eq_true, if_false, if_true, decide_eq_true_eq] <;>
    by_cases h1 : oldT < newT <;> by_cases h2 : newT < oldT <;> simp [h1, h2] <;> try omega

/-- **the model's merge is the source's loop.** -/
theorem mergeGenSrc_eq (asc : Bool) : ∀ (fuel : Nat) (xs ys : List ARow),
    mergeGenSrc asc fuel xs ys = mergeGen asc fuel xs ys := by
  intro fuel
  induction fuel with
  | zero => intro xs ys; simp [mergeGenSrc, mergeGen]
  | succ n ih =>
    intro xs ys
    cases xs with
    | nil => simp [mergeGenSrc, mergeGen]
    | cons x xs =>
      cases ys with
      | nil => simp [mergeGenSrc, mergeGen]
      | cons y ys =>
        simp only [mergeGenSrc, mergeGen, appendRecsPick_eq]
        by_cases h1 : before asc x.t y.t = true
        · simp [h1, ih]
        · by_cases h2 : before asc y.t x.t = true
          · simp [h1, h2, ih]
          · simp [h1, h2, ih]

/-- `Record.MergeRecord` as the source decides it reads like "new before old" and is strictly
sorted (the statement of `mergeRec_props`, about the translated loop). -/
theorem mergeRecSrc_props (asc : Bool) (w : Nat) (nw old : List ARow) (hn : SortedDir asc nw)
    (ho : SortedDir asc old) (hwn : Wide w nw) (hwo : Wide w old) :
    SortedDir asc (mergeGenSrc asc (nw.length + old.length + 1) nw old) ∧
    ∀ t i, lookR (mergeGenSrc asc (nw.length + old.length + 1) nw old) t i = lookR (nw ++ old) t i := by
  rw [mergeGenSrc_eq]
  have h := mergeGen_props asc w (nw.length + old.length + 1) nw old (by omega) hn ho hwn hwo
  exact ⟨h.1, h.2.2.2⟩

/-! ### the non-overlap shortcut of `MergeRecordLimitRows[Descend]` -/

theorem mergeGen_all_old_first (asc : Bool) : ∀ (fuel : Nat) (nw old : List ARow),
    nw.length + old.length < fuel → (∀ x ∈ nw, ∀ y ∈ old, before asc y.t x.t = true) →
    mergeGen asc fuel nw old = old ++ nw := by
  intro fuel
  induction fuel with
  | zero => intro nw old h; omega
  | succ n ih =>
    intro nw old hf h
    cases nw with
    | nil => simp [mergeGen]
    | cons x xs =>
      cases old with
      | nil => simp [mergeGen]
      | cons y ys =>
        have hyx := h x (by simp) y (by simp)
        have hxy : before asc x.t y.t = false := by
          cases asc <;> simp [before] at hyx ⊢ <;> omega
        simp only [mergeGen, hxy, hyx, Bool.false_eq_true, if_false, if_true]
        rw [ih (x :: xs) ys (by simp at hf ⊢; omega) (fun a ha b hb => h a ha b (by simp [hb]))]
        simp

theorem mergeGen_all_new_first (asc : Bool) : ∀ (fuel : Nat) (nw old : List ARow),
    nw.length + old.length < fuel → (∀ x ∈ nw, ∀ y ∈ old, before asc x.t y.t = true) →
    mergeGen asc fuel nw old = nw ++ old := by
  intro fuel
  induction fuel with
  | zero => intro nw old h; omega
  | succ n ih =>
    intro nw old hf h
    cases nw with
    | nil => simp [mergeGen]
    | cons x xs =>
      cases old with
      | nil => simp [mergeGen]
      | cons y ys =>
        have hxy := h x (by simp) y (by simp)
        simp only [mergeGen, hxy, if_true]
        rw [ih xs (y :: ys) (by simp at hf ⊢; omega) (fun a ha b hb => h a (by simp [ha]) b hb)]
        simp

/-- in a strictly sorted list the first row is not after any row, the last not before any. -/
theorem sortedDir_first (asc : Bool) (f : ARow) (tl : List ARow) (h : SortedDir asc (f :: tl)) (x : ARow)
    (hx : x ∈ f :: tl) : x = f ∨ before asc f.t x.t = true := by
  simp only [List.mem_cons] at hx
  rcases hx with rfl | hx
  · left; rfl
  · right; exact (List.pairwise_cons.1 h).1 x hx

theorem sortedDir_last (asc : Bool) (l : ARow) (ini : List ARow) (h : SortedDir asc (ini ++ [l])) (x : ARow)
    (hx : x ∈ ini ++ [l]) : x = l ∨ before asc x.t l.t = true := by
  simp only [List.mem_append, List.mem_singleton] at hx
  rcases hx with hx | rfl
  · right; exact (List.pairwise_append.1 h).2.2 x hx l (by simp)
  · left; rfl

theorem mergeDispatch_zero (asc : Bool) (nf nl of ol : Int) (h : mergeDispatch asc nf nl of ol = 0) :
    before asc ol nf = true := by
  cases asc
  · simp only [mergeDispatch, before, Bool.false_eq_true, if_false, decide_eq_true_eq] at h ⊢
    by_cases h1 : nf < ol
    · exact h1
    · by_cases h2 : nl > of <;> simp [h1, h2] at h
  · simp only [mergeDispatch, before, if_true, decide_eq_true_eq] at h ⊢
    by_cases h1 : nf > ol
    · exact h1
    · by_cases h2 : nl < of <;> simp [h1, h2] at h

theorem mergeDispatch_one (asc : Bool) (nf nl of ol : Int) (h : mergeDispatch asc nf nl of ol = 1) :
    before asc nl of = true := by
  cases asc
  · simp only [mergeDispatch, before, Bool.false_eq_true, if_false, decide_eq_true_eq] at h ⊢
    by_cases h1 : nf < ol
    · simp [h1] at h
    · by_cases h2 : nl > of
      · exact h2
      · simp [h1, h2] at h
  · simp only [mergeDispatch, before, if_true, decide_eq_true_eq] at h ⊢
    by_cases h1 : nf > ol
    · simp [h1] at h
    · by_cases h2 : nl < of
      · exact h2
      · simp [h1, h2] at h

/-- **the dispatch of `MergeRecordLimitRows` / `…Descend` is sound**: when it decides that the two
records do not overlap, concatenating them in the order `mergeRecordNonOverlap` does is exactly
what the two-pointer merge would produce. (`nf`/`nl`, `of`/`ol`: first and last rows.) -/
theorem merge_dispatch_sound (asc : Bool) (nf nl of ol : ARow) (ntl nini otl oini : List ARow)
    (hn : nf :: ntl = nini ++ [nl]) (ho : of :: otl = oini ++ [ol])
    (sn : SortedDir asc (nf :: ntl)) (so : SortedDir asc (of :: otl)) (fuel : Nat)
    (hf : (nf :: ntl).length + (of :: otl).length < fuel) :
    (mergeDispatch asc nf.t nl.t of.t ol.t = 0 →
      mergeGen asc fuel (nf :: ntl) (of :: otl) = (of :: otl) ++ (nf :: ntl)) ∧
    (mergeDispatch asc nf.t nl.t of.t ol.t = 1 →
      mergeGen asc fuel (nf :: ntl) (of :: otl) = (nf :: ntl) ++ (of :: otl)) := by
  constructor
  · intro hd
    apply mergeGen_all_old_first asc fuel _ _ hf
    intro x hx y hy
    -- y is not after the last old row, which is before the first new row, which is not after x
    have h1 := sortedDir_first asc nf ntl sn x hx
    have h2 := sortedDir_last asc ol oini (ho ▸ so) y (ho ▸ hy)
    have hk : before asc ol.t nf.t = true := mergeDispatch_zero asc _ _ _ _ hd
    rcases h1 with rfl | h1 <;> rcases h2 with rfl | h2
    · exact hk
    · exact before_trans asc _ _ _ h2 hk
    · exact before_trans asc _ _ _ hk h1
    · exact before_trans asc _ _ _ (before_trans asc _ _ _ h2 hk) h1
  · intro hd
    apply mergeGen_all_new_first asc fuel _ _ hf
    intro x hx y hy
    have h1 := sortedDir_first asc of otl so y hy
    have h2 := sortedDir_last asc nl nini (hn ▸ sn) x (hn ▸ hx)
    have hk : before asc nl.t of.t = true := mergeDispatch_one asc _ _ _ _ hd
    rcases h1 with rfl | h1 <;> rcases h2 with rfl | h2
    · exact hk
    · exact before_trans asc _ _ _ h2 hk
    · exact before_trans asc _ _ _ hk h1
    · exact before_trans asc _ _ _ (before_trans asc _ _ _ h2 hk) h1

/-- non-vacuity: both shortcuts and the overlap case occur. -/
example : mergeDispatch true 5 9 1 4 = 0 ∧ mergeDispatch true 1 2 3 9 = 1 ∧ mergeDispatch true 1 5 3 9 = 2 ∧
    mergeDispatch false 1 0 9 4 = 0 ∧ mergeDispatch false 9 8 3 1 = 1 := by decide

end OG.C02
