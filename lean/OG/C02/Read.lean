/-
C02 — the read depends only on the lookup function: two lookup-equivalent layouts answer
every read identically, and the answer is sorted by time with no duplicate timestamps.
-/
import OG.C02.Refine

set_option linter.unusedSectionVars false
namespace OG.C02

section sorted
variable {α : Type} [LT α] [LE α] [DecidableLT α] [DecidableEq α]
  [Std.IsLinearOrder α] [Std.LawfulOrderLT α]

theorem mem_insertSorted (x y : α) (l : List α) : y ∈ insertSorted x l ↔ y = x ∨ y ∈ l := by
  induction l with
  | nil => simp [insertSorted]
  | cons z zs ih =>
    simp only [insertSorted]
    split
    · simp
    · split
      · subst_vars; simp
      · simp [ih]; grind

theorem mem_sortDistinct (y : α) (l : List α) : y ∈ sortDistinct l ↔ y ∈ l := by
  induction l with
  | nil => simp [sortDistinct]
  | cons z zs ih =>
    simp only [sortDistinct, List.foldr] at ih ⊢
    rw [mem_insertSorted]; simp [ih]

theorem insertSorted_sorted (x : α) (l : List α) (h : l.Pairwise (· < ·)) :
    (insertSorted x l).Pairwise (· < ·) := by
  induction l with
  | nil => simp [insertSorted]
  | cons z zs ih =>
    simp only [insertSorted]
    have hz := List.pairwise_cons.1 h
    split
    · refine List.pairwise_cons.2 ⟨?_, h⟩
      intro a ha
      simp only [List.mem_cons] at ha
      rcases ha with rfl | ha
      · assumption
      · have := hz.1 a ha; grind
    · split
      · exact h
      · refine List.pairwise_cons.2 ⟨?_, ih hz.2⟩
        intro a ha
        rw [mem_insertSorted] at ha
        rcases ha with rfl | ha
        · grind
        · exact hz.1 a ha

theorem sortDistinct_sorted (l : List α) : (sortDistinct l).Pairwise (· < ·) := by
  induction l with
  | nil => simp [sortDistinct]
  | cons z zs ih => exact insertSorted_sorted z _ ih

/-- a strictly increasing list is determined by its members. -/
theorem sorted_ext : ∀ (l1 l2 : List α), l1.Pairwise (· < ·) → l2.Pairwise (· < ·) →
    (∀ x, x ∈ l1 ↔ x ∈ l2) → l1 = l2 := by
  intro l1
  induction l1 with
  | nil =>
    intro l2 _ _ h
    cases l2 with
    | nil => rfl
    | cons b bs => exact absurd ((h b).2 (by simp)) (by simp)
  | cons a as ih =>
    intro l2 h1 h2 h
    cases l2 with
    | nil => exact absurd ((h a).1 (by simp)) (by simp)
    | cons b bs =>
      have ha := List.pairwise_cons.1 h1
      have hb := List.pairwise_cons.1 h2
      have hab : a = b := by
        have m1 := (h a).1 (by simp)
        have m2 := (h b).2 (by simp)
        simp only [List.mem_cons] at m1 m2
        rcases m1 with rfl | m1
        · rfl
        · rcases m2 with rfl | m2
          · rfl
          · have := hb.1 a m1
            have := ha.1 b m2
            grind
      subst hab
      congr 1
      apply ih _ ha.2 hb.2
      intro x
      constructor
      · intro hx
        have := (h x).1 (by simp [hx])
        simp only [List.mem_cons] at this
        rcases this with rfl | this
        · have := ha.1 x hx; grind
        · exact this
      · intro hx
        have := (h x).2 (by simp [hx])
        simp only [List.mem_cons] at this
        rcases this with rfl | this
        · have := hb.1 x hx; grind
        · exact this

theorem sortDistinct_congr (l1 l2 : List α) (h : ∀ x, x ∈ l1 ↔ x ∈ l2) :
    sortDistinct l1 = sortDistinct l2 :=
  sorted_ext _ _ (sortDistinct_sorted l1) (sortDistinct_sorted l2)
    (fun x => by rw [mem_sortDistinct, mem_sortDistinct]; exact h x)

end sorted

end OG.C02

namespace OG.C02

/-- lookup-equivalent cell lists hold the same keys. -/
theorem Equiv.key_mem {a b : List Cell} (h : Equiv a b) (c : Cell) (hc : c ∈ a) :
    ∃ d ∈ b, d.key = c.key := by
  obtain ⟨v, hv⟩ := lookup_isSome_of_mem c a hc
  rw [h c.key] at hv
  exact lookup_some_mem _ _ _ hv

theorem readSeries_congr {a b : List Cell} (h : Equiv a b) (s : Nat) (lo hi : Int) (asc : Bool)
    (fields : List String) : readSeries a s lo hi asc fields = readSeries b s lo hi asc fields := by
  unfold readSeries
  have hts : sortDistinct ((a.filter fun c => c.s = s ∧ lo ≤ c.t ∧ c.t ≤ hi).map (·.t))
      = sortDistinct ((b.filter fun c => c.s = s ∧ lo ≤ c.t ∧ c.t ≤ hi).map (·.t)) := by
    apply sortDistinct_congr
    intro t
    have key : ∀ {x y : List Cell}, Equiv x y →
        t ∈ (x.filter fun c => c.s = s ∧ lo ≤ c.t ∧ c.t ≤ hi).map (·.t) →
        t ∈ (y.filter fun c => c.s = s ∧ lo ≤ c.t ∧ c.t ≤ hi).map (·.t) := by
      intro x y hxy ht
      simp only [List.mem_map, List.mem_filter, decide_eq_true_eq] at ht ⊢
      obtain ⟨c, ⟨hc, hs, h1, h2⟩, rfl⟩ := ht
      obtain ⟨d, hd, hdk⟩ := hxy.key_mem c hc
      simp only [Cell.key, Prod.mk.injEq] at hdk
      exact ⟨d, ⟨hd, by omega, by omega, by omega⟩, hdk.2.1⟩
    exact ⟨key h, key h.symm⟩
  simp only [hts]
  congr 1
  funext t
  have : (fields.map fun f => lookup (s, t, f) a) = (fields.map fun f => lookup (s, t, f) b) := by
    apply List.map_congr_left
    intro f _
    exact h (s, t, f)
  simp only [this]

/-- **the read is a function of the lookup function only.** -/
theorem readCells_congr {a b : List Cell} (h : Equiv a b) (lo hi : Int) (asc : Bool)
    (fields : List String) : readCells a lo hi asc fields = readCells b lo hi asc fields := by
  unfold readCells
  have hs : sortDistinct (a.map (·.s)) = sortDistinct (b.map (·.s)) := by
    apply sortDistinct_congr
    intro s
    have key : ∀ {x y : List Cell}, Equiv x y → s ∈ x.map (·.s) → s ∈ y.map (·.s) := by
      intro x y hxy hs
      simp only [List.mem_map] at hs ⊢
      obtain ⟨c, hc, rfl⟩ := hs
      obtain ⟨d, hd, hdk⟩ := hxy.key_mem c hc
      simp only [Cell.key, Prod.mk.injEq] at hdk
      exact ⟨d, hd, hdk.1⟩
    exact ⟨key h, key h.symm⟩
  rw [hs]
  congr 1
  funext s
  exact readSeries_congr h s lo hi asc fields

end OG.C02
