import OG.C02.DriverMem
def main : IO Unit := OG.C02.mainAll
