import OG.C02.Driver
def main : IO Unit := OG.C02.main
