/-
C02 — expectations about the regenerated facts that are not definitions the theorems use
directly: the text around the translated decision functions (what follows the skip test of
`getSortedRecSafe`, when a chunk is sorted, which `sort` function is called, what `replace` does
after its guard, in which order `mergeRecordNonOverlap` appends the two records). A failure
means that source changed shape; the correspondence run then decides whether the property holds.
-/
import OG.Generated.C02

namespace OG.C02.Facts
open OG.Gen.C02

theorem generation_ok : generationFailed = false := by rfl

theorem memSkip_otherGuards_expected : memSkip_otherGuards = ["!ok", "chunk == nil"] := by decide

theorem sortCalls_expected : sortCalls = "sort.Stable" := by decide

/-- the sort of a memtable chunk must be *stable* (`sort.Stable`, with the strict `SortAux.Less`): rows of
equal time keep their arrival order, which is what makes "the later row wins" true. `sort.Sort` is
not stable above 12 elements. -/
theorem sortStable_expected : sortCalls = "sort.Stable" ∧ ∀ a : Int, sortLess a a = false := by
  refine ⟨by decide, ?_⟩
  intro a
  simp [sortLess]

theorem src_getSortedRecSafe_tail_expected : src_getSortedRecSafe_tail = "hlp := record.NewColumnSortHelper() ; defer hlp.Release() ; chunk.Mu.Lock() ; writeRec := chunk.WriteRec.rec ; if writeRec == nil || writeRec.RowNums() == 0 { chunk.Mu.Unlock() return nil } ; chunk.SortRecordNoLock(hlp) ; var rec = chunk.WriteRec.rec.Copy(ascending, &tr, schema) ; chunk.Mu.Unlock() ; return rec" := by rfl

theorem src_SortRecord_expected : src_SortRecord = "{ if !writeRec.timeAsd { writeRec.rec = hlp.Sort(writeRec.rec) writeRec.timeAsd = true } }" := by rfl

theorem src_sameTime_body_expected : src_sameTime_body = "{ h.replace(col, dst, typ, rowStat) rowStat++ }" := by rfl

theorem src_replace_rest_expected : src_replace_rest = "aux.deleteLast(typ) ; aux.AppendWithNilCount(col, typ, idx, idx+1, &h.nilCount)" := by rfl

theorem src_nonOverlap_timeCol_expected : src_nonOverlap_timeCol = "rec.ColVals[idx].AppendColVal(&oldRec.ColVals[iOld], oldRec.Schema[iOld].Type, oldPos, oldEnd) ; rec.ColVals[idx].AppendColVal(&newRec.ColVals[iNew], newRec.Schema[iNew].Type, newPos, newEnd) ; return newEnd, oldEnd" := by rfl

theorem src_MergeRecord_expected : src_MergeRecord = "{ rec.MergeRecordLimitRows(newRec, oldRec, 0, 0, newRec.RowNums()+oldRec.RowNums()) }" := by rfl

theorem src_MergeRecordDescend_expected : src_MergeRecordDescend = "{ rec.MergeRecordLimitRowsDescend(newRec, oldRec, 0, 0, newRec.RowNums()+oldRec.RowNums()) }" := by rfl

/-- the translated definitions, spelled out (a change of any comparison shows up here and in the
theorems of `RecAlgSrc` / `MemReadProps`). -/
theorem initWriteRec_expected : initWriteRec = ⟨9223372036854775807, -9223372036854775808, true⟩ := by rfl

theorem sameTimeAsPrev_expected (idx t tPrev : Int) :
    sameTimeAsPrev idx t tPrev = (decide (idx > 0) && (t == tPrev)) := by rfl

end OG.C02.Facts
