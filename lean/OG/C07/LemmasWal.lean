/-
C07 — helper lemmas for the WAL record reader.
-/
import OG.C07.Wal
import OG.C07.LemmasBytes

namespace OG.C07
open OG.Gen.C07

theorem walHead_val : walRecordHeadSize = 5 := by rfl
theorem walTypeEnd_val : walTypeEnd = 3 := by decide

/-- a reader that decodes only completely read bodies delivers a record only when the input
holds the whole frame announced by its header. -/
theorem walStep_record_complete (unsnappy : Bytes → Option Bytes) (rowsOK : Bytes → Bool)
    (buf inp : Bytes) (ty : Nat) (body : Bytes)
    (h : (walStep ⟨false, false⟩ unsnappy rowsOK buf inp).1 = .record ty body) :
    5 ≤ inp.length ∧ 5 + unbe ((inp.drop 1).take 4) ≤ inp.length := by
  unfold walStep at h
  rw [walHead_val] at h
  by_cases h1 : ((inp.take 5).length < 5)
  · rw [if_pos h1] at h; cases h
  · rw [if_neg h1] at h
    rw [take_length_lt_iff] at h1
    by_cases h2 : (inp.headD 0).toNat ≤ 0 ∨ (inp.headD 0).toNat ≥ walTypeEnd
    · rw [if_pos h2] at h; cases h
    · rw [if_neg h2] at h
      by_cases h3 : ((inp.drop 5).take (unbe ((inp.drop 1).take 4))).length
          = unbe ((inp.drop 1).take 4)
      · refine ⟨by omega, ?_⟩
        simp only [List.length_take, List.length_drop] at h3
        omega
      · simp only [] at h
        rw [if_neg h3] at h
        by_cases h4 : ((inp.drop 5).take (unbe ((inp.drop 1).take 4))).length = 0
        · rw [if_pos h4] at h; cases h
        · rw [if_neg h4] at h; cases h

theorem walFrame_length (snappy : Bytes → Bytes) (ty : Nat) (payload : Bytes) :
    (walFrame snappy ty payload).length = 5 + (snappy payload).length := by
  simp [walFrame]; omega

/-- the length field of a prefix that still holds the whole header is the frame's. -/
theorem walFrame_prefix_len (snappy : Bytes → Bytes) (ty : Nat) (payload : Bytes) (k : Nat)
    (hk : 5 ≤ k) (hl : (snappy payload).length < 2 ^ 32) :
    unbe ((((walFrame snappy ty payload).take k).drop 1).take 4) = (snappy payload).length := by
  unfold walFrame
  obtain ⟨j, rfl⟩ : ∃ j, k = j + 1 := ⟨k - 1, by omega⟩
  simp only [List.take_succ_cons, List.drop_succ_cons, List.drop_zero]
  rw [List.take_take, Nat.min_eq_left (by omega), take_app _ _ _ (by simp), unbe_be]
  have p4 : (256 : Nat) ^ 4 = 2 ^ 32 := by decide
  rw [p4]; exact Nat.mod_eq_of_lt hl

theorem resizeBuf_length (buf : Bytes) (n : Nat) : (resizeBuf buf n).length = n := by
  simp [resizeBuf]

/-- reading a complete frame (abstract input: header fields and body given by hypotheses). -/
theorem walStep_complete (cfg : WalCfg) (unsnappy : Bytes → Option Bytes) (rowsOK : Bytes → Bool)
    (buf inp : Bytes) (ty n : Nat) (comp rest : Bytes)
    (h5 : 5 ≤ inp.length) (hty : (inp.headD 0).toNat = ty) (htyv : 0 < ty ∧ ty < 3)
    (hn : unbe ((inp.drop 1).take 4) = n) (hc : inp.drop 5 = comp ++ rest) (hcl : comp.length = n) :
    walStep cfg unsnappy rowsOK buf inp
      = (walDecode unsnappy rowsOK ty comp, comp ++ buf.drop n, rest) := by
  unfold walStep
  rw [walHead_val, walTypeEnd_val]
  have h1 : ¬ ((inp.take 5).length < 5) := by rw [take_length_lt_iff]; omega
  have h2 : ¬ (ty ≤ 0 ∨ ty ≥ 3) := by omega
  have e4 : (comp ++ rest).take n = comp := take_app _ _ _ hcl
  have e5 : (comp ++ rest).drop n = rest := drop_app _ _ _ hcl
  have e6 : (resizeBuf buf n).drop n = [] := by
    apply List.drop_eq_nil_of_le; rw [resizeBuf_length]; omega
  simp only [h1, if_false, hty, h2, hn, hc, e4, e5, hcl, if_true, e6, List.append_nil]

end OG.C07
