/-
C07 — helper lemmas for the string block: packing / unpacking, the two frames.
-/
import OG.C07.StringFrame
import OG.C07.LemmasInt

namespace OG.C07
open OG.Gen.C07

theorem unbeWords_beWords_take (k : Nat) (hk : 0 < k) : ∀ (ws : List Nat) (fuel : Nat),
    (∀ w ∈ ws, w < 256 ^ k) → unbeWords k fuel (beWords k ws) = ws.take fuel
  | _, 0, _ => by simp [unbeWords]
  | [], fuel + 1, _ => by simp [unbeWords, beWords]
  | w :: ws, fuel + 1, hw => by
    rw [beWords_cons]
    unfold unbeWords
    simp only [take_length_lt_iff]
    have h1 : ¬ (k = 0 ∨ (be k w ++ beWords k ws).length < k) := by simp; omega
    simp only [h1, if_false]
    rw [take_app _ _ _ (by simp), drop_app _ _ _ (by simp), unbe_be,
      Nat.mod_eq_of_lt (hw w (by simp)),
      unbeWords_beWords_take k hk ws fuel (fun x hx => hw x (by simp [hx]))]
    simp

theorem length_le_flatten : ∀ (strs : List Bytes) (s : Bytes), s ∈ strs → s.length ≤ strs.flatten.length
  | [], _, h => by simp at h
  | x :: xs, s, h => by
    simp only [List.flatten_cons, List.length_append]
    rcases List.mem_cons.mp h with rfl | h
    · omega
    · have := length_le_flatten xs s h; omega

/-- the offsets `unpackStringV2` rebuilds: 0 and the running sums of all lengths but the last. -/
def strOffsets (strs : List Bytes) : List Nat :=
  0 :: offsetsFrom 0 ((strs.map (·.length)).take (strs.length - 1))

/-- parser lemma on abstract inputs. -/
theorem unpackStrings_of (src r0 r1 r3 : Bytes) (byteLen offLen : Nat) (lens : List Nat)
    (h0 : readBE 4 src = some (stringEncodingV2, r0))
    (h1 : readBE 4 r0 = some (byteLen, r1)) (hl1 : byteLen + 4 ≤ r1.length)
    (h2 : readBE 4 (r1.drop byteLen) = some (offLen, r3)) (hl3 : offLen ≤ r3.length)
    (hn : offLen ≠ 0) (hw : unbeWords 4 (offLen - 1) r3 = lens) (hwl : lens.length = offLen - 1) :
    unpackStrings src = some (r1.take byteLen, 0 :: offsetsFrom 0 lens) := by
  unfold unpackStrings
  have c1 : ¬ (stringEncodingV2 < stringEncodingEnd) := by decide
  have c2 : ¬ (r1.length < byteLen + 4) := by omega
  have c3 : ¬ (r3.length < offLen) := by omega
  simp only [h0, c1, if_false, ne_eq, not_true_eq_false, h1, c2, h2, c3, hn, hw, hwl]

theorem packStrings_unpack (strs : List Bytes) (hne : strs ≠ [])
    (hsz : (packStrings strs).length < 2 ^ 32) :
    unpackStrings (packStrings strs) = some (strs.flatten, strOffsets strs) := by
  have p4 : (256 : Nat) ^ 4 = 2 ^ 32 := by decide
  have hlen : (packStrings strs).length = 12 + strs.flatten.length + 4 * strs.length := by
    simp [packStrings]; omega
  have hpos : strs.length ≠ 0 := by
    intro h; exact hne (List.eq_nil_of_length_eq_zero h)
  have hlens : ∀ w ∈ strs.map (·.length), w < 256 ^ 4 := by
    intro w hw
    obtain ⟨s, hs, rfl⟩ := List.mem_map.mp hw
    have : s.length ≤ strs.flatten.length := length_le_flatten strs s hs
    rw [p4]; omega
  have := unpackStrings_of (packStrings strs) _ _ _ strs.flatten.length strs.length
    ((strs.map (·.length)).take (strs.length - 1))
    (readBE_be_lt _ (by decide))
    (readBE_be_lt _ (by rw [p4]; omega))
    (by simp)
    (by rw [drop_app _ _ _ rfl]; exact readBE_be_lt _ (by rw [p4]; omega))
    (by simp; omega) hpos
    (unbeWords_beWords_take 4 (by decide) _ _ hlens)
    (by simp)
  rw [take_app _ _ _ rfl] at this
  exact this

/-- `String.Decoding` on abstract inputs: uncompressed frame. -/
theorem decodeStringBytes_raw (decompress : Nat → Bytes → Option Bytes) (t : UInt8) (inp r1 r2 : Bytes)
    (srcLen : Nat) (hl : 8 ≤ inp.length) (ht : t.toNat / 16 = stringUncompressed)
    (h1 : readBE 4 inp = some (srcLen, r1)) (hr1 : srcLen ≤ r1.length)
    (h2 : readBE 4 r1 = some (srcLen, r2)) (hr : r2.length = srcLen) :
    decodeStringBytes decompress (t :: inp) = some r2 := by
  have c0 : ¬ (inp.length + 1 < 9) := by omega
  have c1 : ¬ (stringUncompressed > stringCompressedLz4) := by decide
  have c2 : ¬ (r1.length < srcLen) := by omega
  have c3 : ¬ (r2.length < srcLen) := by omega
  have c4 : r2.take srcLen = r2 := by rw [← hr, List.take_length]
  simp only [decodeStringBytes, c0, if_false, ht, c1, h1, c2, h2, c3, if_true, and_false, c4]

/-- `String.Decoding` on abstract inputs: compressed frame. -/
theorem decodeStringBytes_comp (decompress : Nat → Bytes → Option Bytes) (t : UInt8)
    (inp r1 r2 out : Bytes) (ty srcLen compLen : Nat) (hl : 8 ≤ inp.length)
    (ht : t.toNat / 16 = ty) (hty : ty ≠ stringUncompressed) (hty3 : ty ≤ stringCompressedLz4)
    (h1 : readBE 4 inp = some (srcLen, r1)) (h2 : readBE 4 r1 = some (compLen, r2))
    (hr : r2.length = compLen) (hd : decompress ty r2 = some out) (ho : out.length = srcLen) :
    decodeStringBytes decompress (t :: inp) = some out := by
  have c0 : ¬ (inp.length + 1 < 9) := by omega
  have c1 : ¬ (ty > stringCompressedLz4) := by omega
  have c3 : ¬ (r2.length < compLen) := by omega
  have c4 : r2.take compLen = r2 := by rw [← hr, List.take_length]
  simp only [decodeStringBytes, c0, if_false, ht, c1, h1, h2, c3, hty, c4, hd, ho, ne_eq,
    not_true_eq_false, false_and]

theorem decodeStrings_of (decompress : Nat → Bytes → Option Bytes) (bs src : Bytes)
    (res : Bytes × List Nat) (hne : bs ≠ []) (h1 : decodeStringBytes decompress bs = some src)
    (h2 : unpackStrings src = some res) : decodeStrings decompress bs = some res := by
  unfold decodeStrings
  simp only [hne, if_false, h1, Option.bind_some, h2]

end OG.C07
