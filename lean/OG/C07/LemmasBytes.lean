/-
C07 — helper lemmas about the byte vocabulary of `Base.lean`.
-/
import OG.C07.Base

namespace OG.C07

/-- the models test `len(bs) < k` on `bs.take k` (linear in `k`, not in `len(bs)`). -/
theorem take_length_lt_iff {α : Type} (l : List α) (k : Nat) :
    ((l.take k).length < k) = (l.length < k) := by
  simp only [List.length_take, eq_iff_iff]; omega

theorem take_app {α : Type} (a b : List α) (k : Nat) (h : a.length = k) : (a ++ b).take k = a := by
  subst h; simp

theorem drop_app {α : Type} (a b : List α) (k : Nat) (h : a.length = k) : (a ++ b).drop k = b := by
  subst h; simp

@[simp] theorem be_length : ∀ k n, (be k n).length = k
  | 0, _ => rfl
  | k + 1, n => by simp [be, be_length k n]

@[simp] theorem le_length : ∀ k n, (le k n).length = k
  | 0, _ => rfl
  | k + 1, n => by simp [le, le_length k (n / 256)]

theorem u8_toNat_ofNat_mod (x : Nat) : (UInt8.ofNat (x % 256)).toNat = x % 256 := by
  simp [UInt8.toNat_ofNat']

theorem u8_toNat_ofNat_lt {x : Nat} (h : x < 256) : (UInt8.ofNat x).toNat = x := by
  simp [UInt8.toNat_ofNat']; omega

theorem unbe_be : ∀ k n, unbe (be k n) = n % 256 ^ k
  | 0, n => by simp [be, unbe, Nat.mod_one]
  | k + 1, n => by
    simp only [be, unbe, be_length, unbe_be k n, u8_toNat_ofNat_mod]
    rw [Nat.mod_pow_succ]; rw [Nat.mul_comm]; omega

theorem unle_le : ∀ k n, unle (le k n) = n % 256 ^ k
  | 0, n => by simp [le, unle, Nat.mod_one]
  | k + 1, n => by
    simp only [le, unle, unle_le k (n / 256), u8_toNat_ofNat_mod]
    rw [Nat.pow_succ', Nat.mod_mul]

theorem readBE_be (k n : Nat) (r : Bytes) : readBE k (be k n ++ r) = some (n % 256 ^ k, r) := by
  unfold readBE
  simp only [take_length_lt_iff]
  have h1 : ¬ (be k n ++ r).length < k := by simp
  simp only [h1, if_false]
  have h2 : (be k n ++ r).take k = be k n := by
    rw [List.take_append_of_le_length (by simp)]; simp [List.take_of_length_le]
  have h3 : (be k n ++ r).drop k = r := by
    rw [List.drop_append_of_le_length (by simp)]; simp [List.drop_of_length_le]
  rw [h2, h3, unbe_be]

theorem readBE_be_lt {k n : Nat} (r : Bytes) (h : n < 256 ^ k) : readBE k (be k n ++ r) = some (n, r) := by
  rw [readBE_be, Nat.mod_eq_of_lt h]

theorem beWords_cons (k w : Nat) (ws : List Nat) : beWords k (w :: ws) = be k w ++ beWords k ws := by
  simp [beWords]

@[simp] theorem beWords_length (k : Nat) : ∀ ws : List Nat, (beWords k ws).length = k * ws.length
  | [] => by simp [beWords]
  | w :: ws => by rw [beWords_cons, List.length_append, beWords_length k ws]; simp [Nat.mul_succ]; omega

theorem unbeWords_beWords (k : Nat) (hk : 0 < k) : ∀ (ws : List Nat) (fuel : Nat),
    ws.length ≤ fuel → (∀ w ∈ ws, w < 256 ^ k) → unbeWords k fuel (beWords k ws) = ws
  | [], fuel, _, _ => by
    cases fuel <;> simp [unbeWords, beWords]
  | w :: ws, 0, h, _ => by simp at h
  | w :: ws, fuel + 1, h, hw => by
    rw [beWords_cons]
    unfold unbeWords
    simp only [take_length_lt_iff]
    have h1 : ¬ (k = 0 ∨ (be k w ++ beWords k ws).length < k) := by simp; omega
    simp only [h1, if_false]
    have h2 : (be k w ++ beWords k ws).take k = be k w := by
      rw [List.take_append_of_le_length (by simp)]; simp [List.take_of_length_le]
    have h3 : (be k w ++ beWords k ws).drop k = beWords k ws := by
      rw [List.drop_append_of_le_length (by simp)]; simp [List.drop_of_length_le]
    rw [h2, h3, unbe_be, Nat.mod_eq_of_lt (hw w (by simp))]
    rw [unbeWords_beWords k hk ws fuel (by simp at h; omega) (fun x hx => hw x (by simp [hx]))]

/-! ### uvarint -/

theorem putUvarintAux_length_pos : ∀ fuel x, 0 < fuel → 0 < (putUvarintAux fuel x).length
  | fuel + 1, x, _ => by
    unfold putUvarintAux
    by_cases h : x < 128 <;> simp [h]

theorem uvarintAux_put (rest : Bytes) : ∀ (fuel i x acc : Nat), i + fuel = 10 → 0 < fuel →
    x * 2 ^ (7 * i) < 2 ^ 64 →
    uvarintAux (putUvarintAux fuel x ++ rest) i acc
      = some (acc + x * 2 ^ (7 * i), i + (putUvarintAux fuel x).length)
  | 0, _, _, _, _, h, _ => by omega
  | fuel + 1, i, x, acc, hi, _, hx => by
    unfold putUvarintAux
    have hi10 : i ≠ 10 := by omega
    by_cases h : x < 128
    · simp only [h, if_true, List.cons_append, List.nil_append, uvarintAux, hi10, if_false]
      have hb : (UInt8.ofNat x).toNat = x := u8_toNat_ofNat_lt (by omega)
      rw [hb]
      simp only [h, if_true]
      have : ¬ (i = 9 ∧ x > 1) := by
        rintro ⟨rfl, hx1⟩
        have : x * 2 ^ 63 < 2 * 2 ^ 63 := by simpa using hx
        have := Nat.lt_of_mul_lt_mul_right this
        omega
      simp [this]
    · simp only [h, if_false, List.cons_append, uvarintAux, hi10]
      have hb : (UInt8.ofNat (x % 128 + 128)).toNat = x % 128 + 128 := u8_toNat_ofNat_lt (by omega)
      rw [hb]
      have hge : ¬ (x % 128 + 128 < 128) := by omega
      simp only [hge, if_false]
      have hmod : (x % 128 + 128) % 128 = x % 128 := by omega
      rw [hmod]
      have hpow : 2 ^ (7 * (i + 1)) = 128 * 2 ^ (7 * i) := by
        rw [Nat.mul_succ, Nat.pow_add]; simp [Nat.mul_comm]
      have hle : x / 128 * 2 ^ (7 * (i + 1)) ≤ x * 2 ^ (7 * i) := by
        rw [hpow, ← Nat.mul_assoc]
        exact Nat.mul_le_mul_right _ (Nat.div_mul_le_self x 128)
      have hi8 : i ≤ 8 := by
        rcases Nat.lt_or_ge i 9 with h9 | h9
        · omega
        · have : i = 9 := by omega
          subst this
          have h1 : 128 * 2 ^ 63 ≤ x * 2 ^ 63 := Nat.mul_le_mul_right _ (by omega)
          have h2 : x * 2 ^ 63 < 2 ^ 64 := by simpa using hx
          omega
      have ih := uvarintAux_put rest fuel (i + 1) (x / 128) (acc + x % 128 * 2 ^ (7 * i))
        (by omega) (by omega) (Nat.lt_of_le_of_lt hle hx)
      rw [ih]
      have e : acc + x % 128 * 2 ^ (7 * i) + x / 128 * 2 ^ (7 * (i + 1)) = acc + x * 2 ^ (7 * i) := by
        rw [hpow, ← Nat.mul_assoc, Nat.add_assoc, ← Nat.add_mul]
        have : x % 128 + x / 128 * 128 = x := by omega
        rw [this]
      rw [e]
      simp; omega

theorem uvarint_put (x : Nat) (rest : Bytes) (hx : x < 2 ^ 64) :
    uvarint (putUvarint x ++ rest) = some (x, (putUvarint x).length) := by
  unfold uvarint putUvarint
  rw [uvarintAux_put rest 10 0 x 0 (by omega) (by omega) (by simpa using hx)]
  simp

end OG.C07
