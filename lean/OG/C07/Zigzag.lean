/-
C07 — zig-zag and wrapping deltas on `BitVec 64`.

`zz` / `unzz` are the *regenerated* translations of `encoding.ZigZagEncode` / `ZigZagDecode`
(`OG.Gen.C07.zigZagEncode`, …): the theorems about them are re-proved against what int.go
says now.  int64 subtraction / addition wrap, which is `BitVec` `-` / `+`.
-/
import OG.C07.Base
import OG.Generated.C07

namespace OG.C07
open OG.Gen.C07

abbrev W := BitVec 64

def zz (v : W) : W := zigZagEncode v
def unzz (v : W) : W := zigZagDecode v

/-- zig-zag of the wrapping deltas `x₁-prev, x₂-x₁, …`. -/
def zzDeltas (prev : W) : List W → List W
  | [] => []
  | x :: xs => zz (x - prev) :: zzDeltas x xs

/-- running sums `prev + unzz d₁, …` (what the decoders compute). -/
def unzzDeltas (prev : W) : List W → List W
  | [] => []
  | d :: ds => (prev + unzz d) :: unzzDeltas (prev + unzz d) ds

/-- plain wrapping deltas (timestamps: no zig-zag). -/
def deltas (prev : W) : List W → List W
  | [] => []
  | x :: xs => (x - prev) :: deltas x xs

def undeltas (prev : W) : List W → List W
  | [] => []
  | d :: ds => (prev + d) :: undeltas (prev + d) ds

end OG.C07
