/-
C07 — property theorems for the pre-aggregation (column statistics) blocks of `PreAgg.lean`:
whatever form `marshal` picks — one row, variable-length, fixed — `unmarshal`, which tells the
forms apart by length alone, returns the statistics.  The proof needs exactly that the lengths
of the forms are disjoint: the variable-length form is kept only when it is *shorter* than the
fixed one (`intKeep_spec` / `floatKeep_spec`, proved from the regenerated comparison of
`marshal`), and never 16 bytes long (the padding zero).
-/
import OG.C07.PreAgg
import OG.C07.PropsMeta

namespace OG.C07
open OG.Gen.C07

/-! ### primitives -/

theorem toInt_ofI (x : Int) (h : InInt64 x) : (ofI x).toInt = x := by
  unfold ofI InInt64 at *
  rw [BitVec.toInt_ofInt]
  have e : ((2 ^ 64 : Nat) : Int) = 18446744073709551616 := by rfl
  apply Int.bmod_eq_of_le
  · rw [e]; omega
  · rw [e]; omega

theorem readI64I_put (x : Int) (h : InInt64 x) (r : Bytes) : readI64I (i64I x ++ r) = some (x, r) := by
  rw [readI64I, i64I, readI64_i64]
  simp only [toInt_ofI x h]

theorem readVarint_put (x : Int) (h : InInt64 x) (r : Bytes) : readVarint (putVarint x ++ r) = some (x, r) := by
  rw [readVarint, putVarint, readUvarint_put _ _ (zz (ofI x)).isLt]
  simp only [w_ofNat_toNat, zigzag_inv', toInt_ofI x h]

theorem readScaled1_put (v : Int) (h : InInt64 v) (r : Bytes) : readScaled1 (putScaled1 v ++ r) = some (v, r) := by
  obtain ⟨hk, hdv⟩ := codecScaleOf_spec v
  have hb : (UInt8.ofNat (codecScaleOf v)).toNat = codecScaleOf v := u8_toNat_ofNat_lt (by omega)
  have hsome : ∃ s, codecScales[codecScaleOf v]? = some s ∧ codecScaleAt (codecScaleOf v) = (s : Int) := by
    have : codecScaleOf v = 0 ∨ codecScaleOf v = 1 ∨ codecScaleOf v = 2 ∨ codecScaleOf v = 3 := by omega
    rcases this with h0 | h0 | h0 | h0 <;> rw [h0] <;> exact ⟨_, rfl, rfl⟩
  obtain ⟨s, h1, h2⟩ := hsome
  have hl : codecScales.length = 4 := rfl
  rw [putScaled1, List.cons_append, readScaled1, hb, if_neg (by omega), readUvarint_put _ _ (u64_lt _)]
  simp only [h1]
  rw [← h2, scaled_elem _ v (codecScaleAt_cases _ hk) h hdv]

theorem readAggTimes_put (a b : Int) (ha : InInt64 a) (hb : InInt64 b) (r : Bytes) :
    readAggTimes (putScaled1 a ++ (putScaled1 (wrap64 (b - a)) ++ r)) = some (a, b, r) := by
  rw [readAggTimes, readScaled1_put a ha]
  simp only
  rw [readScaled1_put _ (wrap64_range _)]
  simp only
  have : wrap64 (a + wrap64 (b - a)) = b := by
    have := wrap64_sub_add b a hb
    rw [Int.add_comm] at this
    exact this
  rw [this]

/-! ### the three length tests (regenerated) -/

theorem onlyOneRow_spec (n : Nat) : preAggOnlyOneRow n = true ↔ n = 16 := by
  simp [preAggOnlyOneRow]

/-- **length disjointness, writer side**: the variable-length form of an integer block is kept
only when it is strictly shorter than the fixed form. -/
theorem intKeep_spec (n : Nat) : integerPreAggKeepVLC n 0 preAggFixedSize = true → n < preAggFixedSize := by
  simp only [integerPreAggKeepVLC, decide_eq_true_eq]
  omega

theorem intRead_spec (n : Nat) : integerPreAggReadVLC n preAggFixedSize = true ↔ n < preAggFixedSize := by
  simp [integerPreAggReadVLC]

theorem floatKeep_spec (n : Nat) : floatPreAggKeepVLC n 0 preAggFixedSize = true → n < preAggFixedSize := by
  simp only [floatPreAggKeepVLC, decide_eq_true_eq]
  omega

theorem floatRead_spec (n : Nat) : floatPreAggReadVLC n preAggFixedSize = true ↔ n < preAggFixedSize := by
  simp [floatPreAggReadVLC]

@[simp] theorem i64I_length (x : Int) : (i64I x).length = 8 := by simp [i64I]
@[simp] theorem f64_length (x : W) : (f64 x).length = 8 := by simp [f64]

/-! ### integer -/

structure IntStatsWF (s : IntStats) : Prop where
  min : InInt64 s.min
  max : InInt64 s.max
  minT : InInt64 s.minT
  maxT : InInt64 s.maxT
  sum : InInt64 s.sum
  count : InInt64 s.count
  /-- statistics over one row: the value is minimum, maximum and sum at once -/
  one : s.count = 1 → s.max = s.min ∧ s.maxT = s.minT ∧ s.sum = s.min

theorem intVLCDecode_of (src r0 r1 r2 r3 r4 : Bytes) (mn mx sm minT maxT : Int) (cnt : Nat)
    (h0 : readVarint src = some (mn, r0)) (h1 : readVarint r0 = some (mx, r1))
    (h2 : readVarint r1 = some (sm, r2)) (h3 : readUvarint r2 = some (cnt, r3))
    (h4 : readAggTimes r3 = some (minT, maxT, r4)) :
    intVLCDecode src = some (⟨mn, mx, minT, maxT, sm, wrap64 (cnt : Int)⟩, r4) := by
  rw [intVLCDecode]
  simp only [h0, h1, h2, h3, h4]

theorem intVLC_decode (s : IntStats) (h : IntStatsWF s) (pad : Bytes) :
    intVLCDecode (intVLC s ++ pad) = some (s, pad) := by
  have := intVLCDecode_of (intVLC s ++ pad) _ _ _ _ pad s.min s.max s.sum s.minT s.maxT (u64 s.count)
    (by rw [intVLC]; simp only [List.append_assoc]; exact readVarint_put _ h.min _)
    (readVarint_put _ h.max _) (readVarint_put _ h.sum _) (readUvarint_put _ _ (u64_lt _))
    (readAggTimes_put _ _ h.minT h.maxT _)
  rw [this, wrap64_u64 _ h.count]

theorem intRaw_decode (s : IntStats) (h : IntStatsWF s) (pad : Bytes) :
    intRawDecode (intRaw s ++ pad) = some (s, pad) := by
  rw [intRawDecode, intRaw]
  simp only [List.append_assoc, readN, readI64I_put _ h.min, readI64I_put _ h.max, readI64I_put _ h.minT,
    readI64I_put _ h.maxT, readI64I_put _ h.sum, readI64I_put _ h.count]

theorem intRaw_length (s : IntStats) : (intRaw s).length = 48 := by simp [intRaw]

/-- **integer statistics block** -/
theorem int_preagg_roundtrip (self : Bool) (s : IntStats) (h : IntStatsWF s) :
    ∃ pad, unmarshalIntPreAgg (marshalIntPreAgg self s) = some (s, pad) := by
  have h16 : preAggOnlyOneRow 16 = true := (onlyOneRow_spec 16).mpr rfl
  have hraw : unmarshalIntPreAgg (intRaw s) = some (s, []) := by
    rw [unmarshalIntPreAgg, intRaw_length]
    have a : preAggOnlyOneRow 48 = false := by
      cases hx : preAggOnlyOneRow 48 with
      | false => rfl
      | true => have := (onlyOneRow_spec 48).mp hx; omega
    have b : integerPreAggReadVLC 48 preAggFixedSize = false := by
      cases hx : integerPreAggReadVLC 48 preAggFixedSize with
      | false => rfl
      | true => have := (intRead_spec 48).mp hx; unfold preAggFixedSize at this; omega
    rw [a, b]
    simp only [Bool.false_eq_true, if_false]
    have := intRaw_decode s h []
    rw [List.append_nil] at this
    exact this
  unfold marshalIntPreAgg
  by_cases h1 : s.count = 1
  · -- one row
    obtain ⟨e1, e2, e3⟩ := h.one h1
    rw [if_pos h1]
    refine ⟨[], ?_⟩
    rw [unmarshalIntPreAgg]
    have hl : (i64I s.min ++ i64I s.minT).length = 16 := by simp
    rw [hl, h16]
    simp only [if_true]
    have := readI64I_put s.minT h.minT []
    rw [List.append_nil] at this
    simp only [readN, readI64I_put _ h.min, this]
    cases s
    simp_all
  · rw [if_neg h1]
    cases self with
    | false => exact ⟨[], by simpa using hraw⟩
    | true =>
      simp only [if_true]
      by_cases hp : preAggOnlyOneRow (intVLC s).length = true
      · -- a variable-length block of 16 bytes: padded to 17
        rw [if_pos hp]
        have hl := (onlyOneRow_spec _).mp hp
        refine ⟨[0], ?_⟩
        rw [unmarshalIntPreAgg]
        have hl17 : (intVLC s ++ [0]).length = 17 := by simp [hl]
        have a : preAggOnlyOneRow 17 = false := by
          cases hx : preAggOnlyOneRow 17 with
          | false => rfl
          | true => have := (onlyOneRow_spec 17).mp hx; omega
        have b : integerPreAggReadVLC 17 preAggFixedSize = true :=
          (intRead_spec 17).mpr (by unfold preAggFixedSize; omega)
        rw [hl17, a, b]
        simp only [Bool.false_eq_true, if_false, if_true]
        exact intVLC_decode s h [0]
      · rw [if_neg hp]
        by_cases hk : integerPreAggKeepVLC (intVLC s).length 0 preAggFixedSize = true
        · -- kept: strictly shorter than the fixed form, and not 16 bytes
          rw [if_pos hk]
          have hlt := intKeep_spec _ hk
          refine ⟨[], ?_⟩
          rw [unmarshalIntPreAgg]
          have a : preAggOnlyOneRow (intVLC s).length = false := by
            cases hx : preAggOnlyOneRow (intVLC s).length with
            | false => rfl
            | true => exact absurd hx hp
          have b : integerPreAggReadVLC (intVLC s).length preAggFixedSize = true := (intRead_spec _).mpr hlt
          rw [a, b]
          simp only [Bool.false_eq_true, if_false, if_true]
          have := intVLC_decode s h []
          rw [List.append_nil] at this
          exact this
        · rw [if_neg hk]
          exact ⟨[], hraw⟩

/-! ### float -/

structure FloatStatsWF (s : FloatStats) : Prop where
  minT : InInt64 s.minT
  maxT : InInt64 s.maxT
  count : InInt64 s.count
  one : s.count = 1 → s.maxV = s.minV ∧ s.maxT = s.minT ∧ s.sumV = s.minV
  /-- minimum and maximum both zero: every value is a zero, so is the sum; the variable-length
  form then stores none of the three and reads them back as +0.0 (see
  `float_preagg_negative_zero` for what happens to the sign of -0.0) -/
  zero : isZeroF s.maxV = true → isZeroF s.minV = true → s.minV = 0#64 ∧ s.maxV = 0#64 ∧ s.sumV = 0#64

theorem readF64_put (x : W) (r : Bytes) : readF64 (f64 x ++ r) = some (x, r) := by
  rw [readF64, f64, readBE_be_lt _ (w_lt _)]
  simp only [w_ofNat_toNat]

theorem floatVLCTail_of (mn mx sm : W) (r r1 r2 : Bytes) (cnt : Nat) (minT maxT : Int)
    (h0 : readUvarint r = some (cnt, r1)) (h1 : readAggTimes r1 = some (minT, maxT, r2)) :
    floatVLCTail mn mx sm r = some (⟨mn, mx, minT, maxT, sm, wrap64 (cnt : Int)⟩, r2) := by
  rw [floatVLCTail]
  simp only [h0, h1]

theorem floatVLC_decode (s : FloatStats) (h : FloatStatsWF s) (pad : Bytes) :
    floatVLCDecode (floatVLC s ++ pad) = some (s, pad) := by
  have htail : ∀ mn mx sm : W, floatVLCTail mn mx sm
      (putUvarint (u64 s.count) ++ (putScaled1 s.minT ++ (putScaled1 (wrap64 (s.maxT - s.minT)) ++ pad)))
        = some (⟨mn, mx, s.minT, s.maxT, sm, s.count⟩, pad) := by
    intro mn mx sm
    have := floatVLCTail_of mn mx sm _ _ pad (u64 s.count) s.minT s.maxT (readUvarint_put _ _ (u64_lt _))
      (readAggTimes_put _ _ h.minT h.maxT _)
    rw [this, wrap64_u64 _ h.count]
  rw [floatVLC]
  by_cases hz : (isZeroF s.maxV && isZeroF s.minV) = true
  · obtain ⟨z1, z2⟩ := Bool.and_eq_true_iff.mp hz
    obtain ⟨e1, e2, e3⟩ := h.zero z1 z2
    rw [if_pos hz]
    simp only [List.cons_append, List.nil_append, List.append_assoc, floatVLCDecode, if_true, htail]
    cases s
    simp_all
  · rw [if_neg hz]
    simp only [List.cons_append, List.append_assoc, floatVLCDecode]
    rw [if_neg (by decide)]
    simp only [readN, readF64_put, htail]

theorem floatRaw_decode (s : FloatStats) (h : FloatStatsWF s) (pad : Bytes) :
    floatRawDecode (floatRaw s ++ pad) = some (s, pad) := by
  rw [floatRawDecode, floatRaw]
  simp only [List.append_assoc, readN, readF64_put, readI64I_put _ h.minT, readI64I_put _ h.maxT,
    readI64I_put _ h.count]

theorem floatRaw_length (s : FloatStats) : (floatRaw s).length = 48 := by simp [floatRaw]

/-- **float statistics block** -/
theorem float_preagg_roundtrip (self : Bool) (s : FloatStats) (h : FloatStatsWF s) :
    ∃ pad, unmarshalFloatPreAgg (marshalFloatPreAgg self s) = some (s, pad) := by
  have h16 : preAggOnlyOneRow 16 = true := (onlyOneRow_spec 16).mpr rfl
  have hraw : unmarshalFloatPreAgg (floatRaw s) = some (s, []) := by
    rw [unmarshalFloatPreAgg, floatRaw_length]
    have a : preAggOnlyOneRow 48 = false := by
      cases hx : preAggOnlyOneRow 48 with
      | false => rfl
      | true => have := (onlyOneRow_spec 48).mp hx; omega
    have b : floatPreAggReadVLC 48 preAggFixedSize = false := by
      cases hx : floatPreAggReadVLC 48 preAggFixedSize with
      | false => rfl
      | true => have := (floatRead_spec 48).mp hx; unfold preAggFixedSize at this; omega
    rw [a, b]
    simp only [Bool.false_eq_true, if_false]
    have := floatRaw_decode s h []
    rw [List.append_nil] at this
    exact this
  unfold marshalFloatPreAgg
  by_cases h1 : s.count = 1
  · obtain ⟨e1, e2, e3⟩ := h.one h1
    rw [if_pos h1]
    refine ⟨[], ?_⟩
    rw [unmarshalFloatPreAgg]
    have hl : (f64 s.minV ++ i64I s.minT).length = 16 := by simp
    rw [hl, h16]
    simp only [if_true]
    have := readI64I_put s.minT h.minT []
    rw [List.append_nil] at this
    simp only [readF64_put, this]
    cases s
    simp_all
  · rw [if_neg h1]
    cases self with
    | false => exact ⟨[], by simpa using hraw⟩
    | true =>
      simp only [if_true]
      by_cases hp : preAggOnlyOneRow (floatVLC s).length = true
      · rw [if_pos hp]
        have hl := (onlyOneRow_spec _).mp hp
        refine ⟨[0], ?_⟩
        rw [unmarshalFloatPreAgg]
        have hl17 : (floatVLC s ++ [0]).length = 17 := by simp [hl]
        have a : preAggOnlyOneRow 17 = false := by
          cases hx : preAggOnlyOneRow 17 with
          | false => rfl
          | true => have := (onlyOneRow_spec 17).mp hx; omega
        have b : floatPreAggReadVLC 17 preAggFixedSize = true :=
          (floatRead_spec 17).mpr (by unfold preAggFixedSize; omega)
        rw [hl17, a, b]
        simp only [Bool.false_eq_true, if_false, if_true]
        exact floatVLC_decode s h [0]
      · rw [if_neg hp]
        by_cases hk : floatPreAggKeepVLC (floatVLC s).length 0 preAggFixedSize = true
        · rw [if_pos hk]
          have hlt := floatKeep_spec _ hk
          refine ⟨[], ?_⟩
          rw [unmarshalFloatPreAgg]
          have a : preAggOnlyOneRow (floatVLC s).length = false := by
            cases hx : preAggOnlyOneRow (floatVLC s).length with
            | false => rfl
            | true => exact absurd hx hp
          have b : floatPreAggReadVLC (floatVLC s).length preAggFixedSize = true := (floatRead_spec _).mpr hlt
          rw [a, b]
          simp only [Bool.false_eq_true, if_false, if_true]
          have := floatVLC_decode s h []
          rw [List.append_nil] at this
          exact this
        · rw [if_neg hk]
          exact ⟨[], hraw⟩

/-- the sign of a negative zero does not survive the variable-length form: minimum = maximum =
-0.0 over two rows comes back as +0.0 (equal as numbers, not as bits). -/
theorem float_preagg_negative_zero :
    (unmarshalFloatPreAgg (marshalFloatPreAgg true
        ⟨0x8000000000000000#64, 0x8000000000000000#64, 1000, 2000, 0x8000000000000000#64, 2⟩)).map (·.1.minV)
      = some 0#64 := by decide +kernel

/-! ### boolean, string, time -/

theorem ofI8_i8 (v : Int) (h : -128 ≤ v ∧ v < 128) : ofI8 (i8 v) = v := by
  unfold ofI8 i8
  have hm : (v % 256).toNat < 256 := by omega
  rw [u8_toNat_ofNat_lt hm]
  split <;> omega

/-- **boolean statistics block** -/
theorem bool_preagg_roundtrip (s : BoolStats) (hc : InInt64 s.count) (ha : InInt64 s.minT)
    (hb : InInt64 s.maxT) (h1 : -128 ≤ s.minV ∧ s.minV < 128) (h2 : -128 ≤ s.maxV ∧ s.maxV < 128) (r : Bytes) :
    unmarshalBoolPreAgg (marshalBoolPreAgg s ++ r) = some (s, r) := by
  rw [unmarshalBoolPreAgg, marshalBoolPreAgg, if_neg (by simp [boolPreAggSize]; omega)]
  simp only [List.append_assoc, readN, readI64I_put _ hc, readI64I_put _ ha, readI64I_put _ hb,
    List.cons_append, List.nil_append, ofI8_i8 _ h1, ofI8_i8 _ h2]

/-- **string statistics block** (the count of non-null values) -/
theorem string_preagg_roundtrip (count : Int) (h : InInt64 count) (r : Bytes) :
    unmarshalStringPreAgg (marshalStringPreAgg count ++ r) = some (count, r) := by
  rw [unmarshalStringPreAgg, marshalStringPreAgg, if_neg (by simp), readI64I_put _ h]

/-- **time statistics block** (the row count) -/
theorem time_preagg_roundtrip (count : Nat) (h : count < 2 ^ 32) (r : Bytes) :
    unmarshalTimePreAgg (marshalTimePreAgg count ++ r) = some (count, r) := by
  have p4 : (256 : Nat) ^ 4 = 2 ^ 32 := by decide
  rw [unmarshalTimePreAgg, marshalTimePreAgg, if_neg (by simp), readBE_be_lt _ (by rw [p4]; exact h)]

/-- **every pre-aggregation block round-trips**, in the plain and in the self-compressing
chunk-meta mode, for every statistics value (int64 extremes, blocks whose variable-length form is
47, 48 or 49 bytes long, 16-byte variable-length blocks included). -/
theorem preagg_roundtrip (self : Bool) :
    (∀ s : IntStats, IntStatsWF s → ∃ pad, unmarshalIntPreAgg (marshalIntPreAgg self s) = some (s, pad)) ∧
    (∀ s : FloatStats, FloatStatsWF s → ∃ pad, unmarshalFloatPreAgg (marshalFloatPreAgg self s) = some (s, pad)) ∧
    (∀ s : BoolStats, InInt64 s.count → InInt64 s.minT → InInt64 s.maxT → (-128 ≤ s.minV ∧ s.minV < 128) →
      (-128 ≤ s.maxV ∧ s.maxV < 128) → unmarshalBoolPreAgg (marshalBoolPreAgg s) = some (s, [])) ∧
    (∀ c : Int, InInt64 c → unmarshalStringPreAgg (marshalStringPreAgg c) = some (c, [])) ∧
    (∀ c : Nat, c < 2 ^ 32 → unmarshalTimePreAgg (marshalTimePreAgg c) = some (c, [])) := by
  refine ⟨fun s h => int_preagg_roundtrip self s h, fun s h => float_preagg_roundtrip self s h, ?_, ?_, ?_⟩
  · intro s hc ha hb h1 h2
    have := bool_preagg_roundtrip s hc ha hb h1 h2 []
    rwa [List.append_nil] at this
  · intro c h
    have := string_preagg_roundtrip c h []
    rwa [List.append_nil] at this
  · intro c h
    have := time_preagg_roundtrip c h []
    rwa [List.append_nil] at this

/-! ### non-vacuity: blocks at the length boundary -/

/-- min = max = 2^55, sum = 2^62, 150 rows, times 1 ns after a second and 2^43 ns apart: the
variable-length form is 9+9+10+2+(1+1)+(1+7) = 40 … make it exactly 48 with a 10-byte start time. -/
def boundaryStats : IntStats :=
  ⟨36028797018963968, 36028797018963968, 4611686018427387905, 4611686018427387905 + 8796093022209,
   4611686018427387904, 150⟩

example : (intVLC boundaryStats).length = 48 := by decide +kernel
example : (marshalIntPreAgg true boundaryStats).length = 48
    ∧ marshalIntPreAgg true boundaryStats = intRaw boundaryStats := by decide +kernel
example : unmarshalIntPreAgg (marshalIntPreAgg true boundaryStats) = some (boundaryStats, []) := by
  decide +kernel
/-- one byte shorter: the variable-length form is kept and read back. -/
example : (marshalIntPreAgg true { boundaryStats with count := 100 }).length = 47 := by decide +kernel
example : unmarshalIntPreAgg (marshalIntPreAgg true { boundaryStats with count := 100 })
    = some ({ boundaryStats with count := 100 }, []) := by decide +kernel
/-- why the comparison must be strict: a 48-byte variable-length block handed to the reader is
taken for the fixed form and yields fabricated statistics. -/
theorem vlc_block_of_fixed_length_is_misread :
    (unmarshalIntPreAgg (intVLC boundaryStats)).map (·.1.count) ≠ some 150 := by decide +kernel

end OG.C07
