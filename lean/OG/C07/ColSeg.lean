/-
C07 — the segment-level framing of a column (engine/immutable/column_builder.go,
chunkdata_builder.go, reader.go; lib/record/column.go).

A flush hands every column of a series, cut into segments of at most `maxRowsPerSegment`
rows (`ColVal.Split`: the values are sliced, the validity bitmap is *shared* with the
neighbouring segments and addressed through `BitMapOffset`), to `encXxxColumn`:

  * `CanEncodeOneRowMode(seg)`          → `[BlockXxxOne] ++ seg.Val`            (one-value form)
  * otherwise `EncodeColumnHeader`      → `[BlockXxxFull | BlockXxxEmpty, be32 Len]`  or
                                          `[BlockXxx, be32 |bm|, bm, be32 bitOffset, be32 NilCount]`
    followed by the per-type block codec (`EncodeIntegerBlock`, …) of `seg.Val`.

The reader (`decodeColumnData` / `appendTimeColumnData`) undoes it: `DecodeColumnOfOneValue`,
or `DecodeColumnHeader` + `appendXxxColumn` (block codec, bitmap re-aligned to bit 0).

`record.ColVal` is modelled field by field; `Val` is a byte list, validity bits are least
significant bit first (`BitMask[i] = 1 <<< i`).  The predicate `CanEncodeOneRowMode`, the
`rewriteType` decision, the `IsBlockOne/Full/Empty` tests, the two `RewriteTypeTo…` tables
and all block-type constants are the *regenerated* definitions of `OG/Generated/C07.lean`.

Not represented: the unspecified bits of the last bitmap byte beyond `Len` (pooled memory /
the neighbour segment's rows in the code; zero in the model — no accessor reads them), the
detached (`crc32`) encode mode, descending reads (`ctx.Ascending = false`).
-/
import OG.C07.IntBlock
import OG.C07.TimeBlock
import OG.C07.Bool
import OG.C07.FloatFrame
import OG.C07.StringFrame

namespace OG.C07
open OG.Gen.C07

/-- `record.ColVal` -/
structure ColVal where
  val : Bytes := []
  offs : List Nat := []
  bitmap : Bytes := []
  bmOff : Nat := 0
  len : Nat := 0
  nilCount : Nat := 0
deriving DecidableEq, Repr

/-! ### validity bits (least significant bit first) -/

def bitOf (b : UInt8) (i : Nat) : Bool := b.toNat / 2 ^ i % 2 == 1

def byteBits (b : UInt8) : List Bool :=
  [bitOf b 0, bitOf b 1, bitOf b 2, bitOf b 3, bitOf b 4, bitOf b 5, bitOf b 6, bitOf b 7]

def bitsOf (bm : Bytes) : List Bool := bm.flatMap byteBits

def lsbByte (b0 b1 b2 b3 b4 b5 b6 b7 : Bool) : UInt8 :=
  UInt8.ofNat (bit b0 + 2 * bit b1 + 4 * bit b2 + 8 * bit b3 + 16 * bit b4 + 32 * bit b5
    + 64 * bit b6 + 128 * bit b7)

/-- bits to bytes, row `i` in bit `i % 8` of byte `i / 8`, the last byte padded with zeros. -/
def packLsb : List Bool → Bytes
  | b0 :: b1 :: b2 :: b3 :: b4 :: b5 :: b6 :: b7 :: rest => lsbByte b0 b1 b2 b3 b4 b5 b6 b7 :: packLsb rest
  | [] => []
  | [b0] => [lsbByte b0 false false false false false false false]
  | [b0, b1] => [lsbByte b0 b1 false false false false false false]
  | [b0, b1, b2] => [lsbByte b0 b1 b2 false false false false false]
  | [b0, b1, b2, b3] => [lsbByte b0 b1 b2 b3 false false false false]
  | [b0, b1, b2, b3, b4] => [lsbByte b0 b1 b2 b3 b4 false false false]
  | [b0, b1, b2, b3, b4, b5] => [lsbByte b0 b1 b2 b3 b4 b5 false false]
  | [b0, b1, b2, b3, b4, b5, b6] => [lsbByte b0 b1 b2 b3 b4 b5 b6 false]

/-- `bitmap[i>>3] & BitMask[i&7] != 0`; `none` = index out of range (panic). -/
def bitAt (bm : Bytes) (i : Nat) : Option Bool := (bitsOf bm)[i]?

/-- `subBitmapBytes(bitmap, bitMapOffset, length)`: the bytes that hold the bits
`[offset, offset+length)` and the offset inside the first of them; `none` = slice out of range. -/
def subBitmapBytes (bm : Bytes) (off len : Nat) : Option (Bytes × Nat) :=
  let hi := if (off + len) % 8 ≠ 0 then (off + len) / 8 + 1 else (off + len) / 8
  if bm.length < hi then none else some ((bm.take hi).drop (off / 8), off % 8)

/-! ### writer -/

inductive CTy | float | int | bool | str | time
deriving DecidableEq, Repr

/-- the type `encXxxColumn` / `EncodeTime` passes to `EncodeColumnHeader` (= `ref.Type`). -/
def CTy.block : CTy → Nat
  | .float => blockFloat64 | .int => blockInteger | .bool => blockBoolean
  | .str => blockString | .time => blockInteger

/-- the marker of the one-value form. -/
def CTy.one : CTy → Nat
  | .float => blockFloat64One | .int => blockIntegerOne | .bool => blockBooleanOne
  | .str => blockStringOne | .time => blockIntegerOne

/-- the external compressors and float predicates, opaque. -/
structure Libs where
  P : FloatPreds
  zstd : Bytes → Bytes
  unzstd : Bytes → Option Bytes
  snappy : Bytes → Bytes
  unsnappy : Bytes → Option Bytes
  gorilla : List W → Option Bytes
  ungorilla : Bytes → Option (List W)
  strTy : Nat
  strComp : Bytes → Bytes
  strDecomp : Nat → Bytes → Option Bytes

/-- `CanEncodeOneRowMode(col)` (regenerated predicate over `Len`, `NilCount`, `len(Val)`). -/
def canOneRow (c : ColVal) : Bool := canEncodeOneRowMode c.len c.nilCount c.val.length

/-- `EncodeColumnHeader(col, dst, typ)`: the bytes appended. -/
def encodeColumnHeader (c : ColVal) (typ : Nat) : Option Bytes :=
  let newTyp := rewriteType c.len c.nilCount typ
  if newTyp ≠ typ then some (UInt8.ofNat newTyp :: be 4 c.len)
  else
    match subBitmapBytes c.bitmap c.bmOff c.len with
    | none => none
    | some (bm, off) =>
      some (UInt8.ofNat typ :: (be 4 bm.length ++ (bm ++ (be 4 off ++ be 4 c.nilCount))))

/-- `util.Bytes2Int64Slice` / `Bytes2Float64Slice`: `len/8` little-endian words. -/
def wordsOf (val : Bytes) : List W := unleWords (val.length / 8) val

def boolByte (b : Bool) : UInt8 := if b then 1 else 0

/-- lengths written by `packStringV2`: `offset[i+1]-offset[i]` (uint32), the last one
`uint32(len(in)) - offset[last]`. -/
def strLens (total : Nat) : List Nat → List Nat
  | [] => []
  | [o] => [(total + 2 ^ 32 - o % 2 ^ 32) % 2 ^ 32]
  | o :: o' :: rest => ((o' + 2 ^ 32 - o % 2 ^ 32) % 2 ^ 32) :: strLens total (o' :: rest)

/-- `packStringV2(in, offset)` on the raw `Val` / `Offset` of the column. -/
def packStringRaw (val : Bytes) (offs : List Nat) : Bytes :=
  be 4 stringEncodingV2 ++ (be 4 val.length ++ (val ++ (be 4 offs.length ++ beWords 4 (strLens val.length offs))))

/-- the block codec call of `encXxxColumn` (`EncodeIntegerBlock(seg.Val, b.data, coder)` …);
`pos` = `len(b.data)` at the call. -/
def encodeBlock (L : Libs) (ty : CTy) (pos : Nat) (c : ColVal) : Option Bytes :=
  match ty with
  | .int => encodeInt L.zstd pos (wordsOf c.val)
  | .float => encodeFloat L.P L.snappy L.gorilla (wordsOf c.val)
  | .bool => if c.val = [] then some [] else some (encodeBool (c.val.map (· != 0)))
  | .str =>
    if c.offs = [] then some []
    else some (encodeStringBytes L.strTy L.strComp (packStringRaw c.val c.offs))
  | .time => encodeTime L.snappy pos (wordsOf c.val)

/-- one segment as `encIntegerColumn` … `encBooleanColumn` / `ChunkDataBuilder.EncodeTime`
append it to the chunk buffer holding `pos` bytes. -/
def encodeColSeg (L : Libs) (ty : CTy) (pos : Nat) (c : ColVal) : Option Bytes :=
  if canOneRow c then some (UInt8.ofNat ty.one :: c.val)
  else
    match encodeColumnHeader c ty.block with
    | none => none
    | some hdr =>
      match encodeBlock L ty (pos + hdr.length) c with
      | none => none
      | some body => some (hdr ++ body)

/-! ### reader -/

/-- `DecodeColumnOfOneValue(data, col, typ)`. -/
def decodeOne (data : Bytes) (typ : Nat) : ColVal :=
  { val := data
    offs := if typ = blockStringOne then [0] else []
    bitmap := if data = [] then [0] else [1]
    bmOff := 0
    len := 1
    nilCount := if data = [] then 1 else 0 }

/-- result of `DecodeColumnHeader`: the rest of the data, the bitmap handed on, `BitMapOffset`,
`NilCount`, and `(Len, Bitmap)` when the header set them on the column (full / empty forms). -/
structure ColHdr where
  rest : Bytes
  bm : Bytes
  bmOff : Nat
  nilCount : Nat
  lenSet : Option Nat

/-- `DecodeColumnHeader(col, data, colType)`; `none` = error return or panic. -/
def decodeColumnHeader (data : Bytes) (colType : Nat) : Option ColHdr :=
  match data with
  | [] => none
  | t :: r =>
    if isBlockFull t.toNat then
      match readBE 4 r with
      | none => none
      | some (n, rest) =>      -- FillBitmap(255); RepairBitmap()
        some ⟨rest, packLsb (List.replicate n true), 0, 0, some n⟩
    else if isBlockEmpty t.toNat then
      match readBE 4 r with
      | none => none
      | some (n, rest) => some ⟨rest, packLsb (List.replicate n false), 0, n, some n⟩
    else if t.toNat ≠ colType then none
    else
      match readBE 4 r with
      | none => none
      | some (bmLen, r1) =>
        if r.length < bmLen + 8 then none
        else if r1.length < bmLen then none
        else
          match readBE 4 (r1.drop bmLen) with
          | none => none
          | some (off, r2) =>
            match readBE 4 r2 with
            | none => none
            | some (nil, r3) => some ⟨r3, r1.take bmLen, off, nil, none⟩

/-- `col.AppendBitmap(nilBitmap, bitmapOffset, rows, 0, rows)` on a column that was just
`Init()`ed: the bits `[offset, offset+rows)` re-aligned to bit 0 (byte copy when the offset is a
multiple of eight, bit by bit otherwise). -/
def appendBitmapFresh (bm : Bytes) (off rows : Nat) : Option Bytes :=
  match subBitmapBytes bm off rows with
  | none => none
  | some (b, o) =>
    if (bitsOf b).length < o + rows then none
    else some (packLsb (((bitsOf b).drop o).take rows))

/-- `appendIntegerColumn` / `appendFloatColumn` / `appendBooleanColumn`: `vals` = the decoded
`Val` bytes and the number of values (`none` = decode error). -/
def appendFixed (dec : Option (Bytes × Nat)) (bm : Bytes) (off : Nat) (enc : Bytes) (nil : Nat) :
    Option ColVal :=
  if enc ≠ [] then
    match dec with
    | none => none
    | some (valBytes, n) =>
      match appendBitmapFresh bm off (n + nil) with
      | none => none
      | some bitmap => some { val := valBytes, bitmap := bitmap, len := n + nil, nilCount := nil }
  else
    -- col.Append(nil, nil, nilBitmap, bitmapOffset, rows, nilCount, typ, 0, rows, 0, 0)
    if nil = 0 then some {}
    else
      match subBitmapBytes bm off nil with
      | none => none
      | some (b, o) => some { bitmap := b, bmOff := o, len := nil, nilCount := nil }

/-- `appendStringColumn`. -/
def appendString (L : Libs) (bm : Bytes) (off : Nat) (enc : Bytes) (nil : Nat) : Option ColVal :=
  match decodeStrings L.strDecomp enc with
  | none => none
  | some (val, offs) =>
    if offs.length > 0 then
      match appendBitmapFresh bm off offs.length with
      | none => none
      | some bitmap =>
        some { val := val, offs := offs, bitmap := bitmap, len := offs.length, nilCount := nil }
    else some {}      -- `Append` with `vLen = 0` returns at once

/-- `appendTimeColumnData` after the one-value test. -/
def decodeTimeRest (L : Libs) (data : Bytes) : Option ColVal :=
  match decodeColumnHeader data blockInteger with
  | none => none
  | some h =>
    match decodeTime L.unsnappy h.rest with
    | none => none
    | some vals =>
      let bmSet := match h.lenSet with | some _ => h.bm | none => []
      some { val := leWords vals
             bitmap := if bmSet = [] then packLsb (List.replicate vals.length true) else bmSet
             bmOff := if bmSet = [] then 0 else h.bmOff
             len := vals.length
             nilCount := h.nilCount }

/-- `decodeColumnData(ref, data, col, ctx)` / `appendTimeColumnData(data, col, ctx)`. -/
def decodeColSeg (L : Libs) (ty : CTy) (data : Bytes) : Option ColVal :=
  match data with
  | [] => none
  | t :: r =>
    match ty with
    | .time =>
      if t.toNat = blockIntegerOne then some (decodeOne r t.toNat) else decodeTimeRest L data
    | _ =>
      if isBlockOne t.toNat then some (decodeOne r t.toNat)
      else
        match decodeColumnHeader data ty.block with
        | none => none
        | some h =>
          match ty with
          | .int =>
            appendFixed ((decodeInt L.unzstd h.rest).map fun xs => (leWords xs, xs.length))
              h.bm h.bmOff h.rest h.nilCount
          | .float =>
            appendFixed ((decodeFloat L.unsnappy L.ungorilla h.rest).map fun xs => (leWords xs, xs.length))
              h.bm h.bmOff h.rest h.nilCount
          | .bool =>
            appendFixed ((decodeBool h.rest).map fun bs => (bs.map boolByte, bs.length))
              h.bm h.bmOff h.rest h.nilCount
          | _ => appendString L h.bm h.bmOff h.rest h.nilCount

/-! ### what a reader of the `ColVal` sees -/

/-- `ColVal.IsNil(i)`. -/
def isNilAt (c : ColVal) (i : Nat) : Option Bool :=
  if i ≥ c.len ∨ c.bitmap = [] then some true
  else if c.nilCount = 0 then some false
  else (bitAt c.bitmap (c.bmOff + i)).map (!·)

def nilFlags (c : ColVal) : Option (List Bool) := (List.range c.len).mapM (isNilAt c)

/-- values laid under the rows: a null row takes no value; `none` when the values do not fit. -/
def fillRows {α : Type} : List Bool → List α → Option (List (Option α))
  | [], [] => some []
  | [], _ :: _ => none
  | true :: fs, vs => (fillRows fs vs).map (none :: ·)
  | false :: _, [] => none
  | false :: fs, v :: vs => (fillRows fs vs).map (some v :: ·)

/-- rows of an integer / float / time column (`IntegerValue(i)` for every row). -/
def wordRows (c : ColVal) : Option (List (Option W)) :=
  (nilFlags c).bind fun fs => fillRows fs (wordsOf c.val)

def boolRows (c : ColVal) : Option (List (Option Bool)) :=
  (nilFlags c).bind fun fs => fillRows fs (c.val.map (· != 0))

/-- `StringValueSafe(i)`: `Val[Offset[i]:Offset[i+1]]`, the last one to the end. -/
def strAt (val : Bytes) (offs : List Nat) (i : Nat) : Option Bytes :=
  match offs[i]? with
  | none => none
  | some s =>
    if i + 1 = offs.length then (if s ≤ val.length then some (val.drop s) else none)
    else
      match offs[i + 1]? with
      | none => none
      | some e => if s ≤ e ∧ e ≤ val.length then some ((val.take e).drop s) else none

def strRows (c : ColVal) : Option (List (Option Bytes)) :=
  (nilFlags c).bind fun fs =>
    (List.range c.len).mapM fun i =>
      if fs[i]? = some true then some none else (strAt c.val c.offs i).map some

/-! ### the column segment the writer is given -/

def presentBits {α : Type} (rows : List (Option α)) : List Bool := rows.map Option.isSome

def nullCount {α : Type} (rows : List (Option α)) : Nat := (rows.filter Option.isNone).length

/-- a segment of an integer / float column holding `rows`, as `Split` cuts it out of a longer
column: `pre` are the validity bits of the rows before it in its first bitmap byte, `post`
whatever follows in the shared bitmap. -/
def mkWordCol (pre post : List Bool) (rows : List (Option W)) : ColVal :=
  { val := leWords (rows.filterMap id)
    bitmap := packLsb (pre ++ (presentBits rows ++ post))
    bmOff := pre.length
    len := rows.length
    nilCount := nullCount rows }

def mkBoolCol (pre post : List Bool) (rows : List (Option Bool)) : ColVal :=
  { val := (rows.filterMap id).map boolByte
    bitmap := packLsb (pre ++ (presentBits rows ++ post))
    bmOff := pre.length
    len := rows.length
    nilCount := nullCount rows }

/-- offsets of the strings inside their concatenation (`Offset`). -/
def offsetsOf (acc : Nat) : List Bytes → List Nat
  | [] => []
  | s :: ss => acc :: offsetsOf (acc + s.length) ss

/-- a string segment: a null row owns an empty slice (`AppendStringNull`). -/
def mkStrCol (pre post : List Bool) (rows : List (Option Bytes)) : ColVal :=
  { val := (rows.map (·.getD [])).flatten
    offs := offsetsOf 0 (rows.map (·.getD []))
    bitmap := packLsb (pre ++ (presentBits rows ++ post))
    bmOff := pre.length
    len := rows.length
    nilCount := nullCount rows }

end OG.C07
