/-
C07 — property theorems for the segment-level column framing: whatever a flush hands to the
column builder — any rows, nulls anywhere, all null, a single row, the non-null empty string,
a segment cut out of a longer column with its validity bits at a bit offset — the reader gets
the same rows back.

Stated over `ColSeg.lean`, whose one-row predicate (`CanEncodeOneRowMode`), header decision
(`rewriteType`), block-type tests and constants are the regenerated definitions of
`OG/Generated/C07.lean`; the per-type block codecs are the models of `Props.lean`.
-/
import OG.C07.LemmasCol
import OG.C07.Props

namespace OG.C07
open OG.Gen.C07

/-- **the one-value form is chosen exactly for a single row with a non-empty payload shorter
than 16 bytes** — in particular never for a null row and never for the empty string, the two
values whose payload is empty and which the reader of that form could not tell apart. -/
theorem canOneRow_spec (c : ColVal) :
    canOneRow c = true ↔ c.len = 1 ∧ 0 < c.val.length ∧ c.val.length < 16 := by
  simp only [canOneRow, canEncodeOneRowMode, Bool.and_eq_true, beq_iff_eq, decide_eq_true_eq]
  omega

example : canOneRow (mkStrCol [] [] [some []]) = false := by decide
example : canOneRow (mkStrCol [] [] [none]) = false := by decide
example : canOneRow (mkStrCol [] [] [some [65]]) = true := by decide

theorem le8_wordsOf (v : W) : wordsOf (le 8 v.toNat) = [v] := by
  have := wordsOf_leWords [v]
  simpa [leWords] using this

/-- the one-value form of an integer / float / time segment. -/
theorem oneRow_word (pre post : List Bool) (rows : List (Option W))
    (h : canOneRow (mkWordCol pre post rows) = true) :
    ∃ v, rows = [some v] ∧ (mkWordCol pre post rows).val = le 8 v.toNat := by
  obtain ⟨h1, h2, _⟩ := (canOneRow_spec _).mp h
  simp only [mkWordCol] at h1 h2
  match rows, h1 with
  | [none], _ => simp [leWords] at h2
  | [some v], _ => exact ⟨v, rfl, by simp [mkWordCol, leWords]⟩

theorem wordRows_one (v : W) (typ : Nat) (_hs : typ ≠ blockStringOne) :
    wordRows (decodeOne (le 8 v.toNat) typ) = some [some v] := by
  have hne : le 8 v.toNat ≠ [] := by
    intro h; have := congrArg List.length h; simp at this
  unfold wordRows
  rw [nilFlags_no_nil _ (by simp [decodeOne, hne]) (by right; simp [decodeOne, hne])]
  simp [decodeOne, le8_wordsOf, fillRows]

/-- **integer column segment** -/
theorem colseg_int_roundtrip (L : Libs) (hz : ∀ b, L.unzstd (L.zstd b) = some b) (pos : Nat)
    (pre post : List Bool) (hpre : pre.length < 8) (rows : List (Option W))
    (hlen : 8 * rows.length < 2 ^ 32) :
    ∃ bs c', encodeColSeg L .int pos (mkWordCol pre post rows) = some bs
      ∧ decodeColSeg L .int bs = some c'
      ∧ wordRows c' = some rows ∧ c'.len = rows.length ∧ c'.nilCount = nullCount rows := by
  unfold encodeColSeg
  by_cases hone : canOneRow (mkWordCol pre post rows) = true
  · obtain ⟨v, hr, hv⟩ := oneRow_word pre post rows hone
    rw [if_pos hone, hv]
    refine ⟨_, decodeOne (le 8 v.toNat) blockIntegerOne, rfl, ?_, ?_, ?_, ?_⟩
    · unfold decodeColSeg
      simp [CTy.one, isBlockOne, blockIntegerOne, blockOneBegin, blockOneEnd]
    · rw [hr]; exact wordRows_one v _ (by decide)
    · rw [hr]; rfl
    · rw [hr]
      have hne : le 8 v.toNat ≠ [] := by
        intro h; have := congrArg List.length h; simp at this
      simp [decodeOne, hne, nullCount]
  · rw [if_neg hone]
    have hpl : (presentBits rows).length = rows.length := present_length rows
    obtain ⟨t, tl, henc, hnot1, hdec⟩ := header_roundtrip blockInteger (Or.inr (Or.inl rfl)) pre
      (presentBits rows) post hpre (leWords (rows.filterMap id)) [] (by rw [hpl]; omega)
    rw [hpl, ← nullCount_eq] at henc
    have hcol : mkWordCol pre post rows =
        { val := leWords (rows.filterMap id), offs := [], bitmap := packLsb (pre ++ (presentBits rows ++ post)),
          bmOff := pre.length, len := rows.length, nilCount := nullCount rows } := rfl
    rw [hcol]
    simp only [CTy.block, henc]
    have hfl := filterMap_length_add rows
    obtain ⟨body, hb1, hb2⟩ := int_block_roundtrip L.zstd L.unzstd hz (pos + (t :: tl).length)
      (rows.filterMap id) (by omega)
    simp only [encodeBlock, wordsOf_leWords, hb1]
    obtain ⟨h, hh, hok⟩ := hdec body
    obtain ⟨c', hc1, hc2, hc3, hc4, hc5⟩ := appendFixed_view (presentBits rows) body h hok
      (leWords (rows.filterMap id)) (rows.filterMap id).length
      (by rw [← nullCount_eq, hpl]; exact hfl)
      (by
        intro hbe
        rw [hbe] at hb2
        have : rows.filterMap id = [] := by simpa [decodeInt] using hb2.symm
        simp [this, leWords])
    refine ⟨_, c', rfl, ?_, ?_, ?_, ?_⟩
    · unfold decodeColSeg
      simp only [List.cons_append, hnot1, Bool.false_eq_true, if_false, CTy.block]
      rw [← List.cons_append, hh]
      simp only [hok.rest, hb2, Option.map_some]
      rw [← hok.rest]
      exact hc1
    · unfold wordRows
      rw [hc5, hc2, wordsOf_leWords]
      exact fillRows_present rows
    · rw [hc3, hpl]
    · rw [hc4, nullCount_eq]

/-- **float column segment** (values are bit patterns: NaN payloads, ±0, ±Inf included). -/
theorem colseg_float_roundtrip (L : Libs) (hs : ∀ b, L.unsnappy (L.snappy b) = some b)
    (hg : ∀ vs g, L.gorilla vs = some g → L.ungorilla g = some vs)
    (hdom : ∀ vs, (∀ v ∈ vs, isNaNorInf v = false) → (L.gorilla vs).isSome = true)
    (pos : Nat) (pre post : List Bool) (hpre : pre.length < 8) (rows : List (Option W))
    (hlen : rows.length < 2 ^ 32) :
    ∃ bs c', encodeColSeg L .float pos (mkWordCol pre post rows) = some bs
      ∧ decodeColSeg L .float bs = some c'
      ∧ wordRows c' = some rows ∧ c'.len = rows.length ∧ c'.nilCount = nullCount rows := by
  unfold encodeColSeg
  by_cases hone : canOneRow (mkWordCol pre post rows) = true
  · obtain ⟨v, hr, hv⟩ := oneRow_word pre post rows hone
    rw [if_pos hone, hv]
    refine ⟨_, decodeOne (le 8 v.toNat) blockFloat64One, rfl, ?_, ?_, ?_, ?_⟩
    · unfold decodeColSeg
      simp [CTy.one, isBlockOne, blockFloat64One, blockOneBegin, blockOneEnd]
    · rw [hr]; exact wordRows_one v _ (by decide)
    · rw [hr]; rfl
    · rw [hr]
      have hne : le 8 v.toNat ≠ [] := by
        intro h; have := congrArg List.length h; simp at this
      simp [decodeOne, hne, nullCount]
  · rw [if_neg hone]
    have hpl : (presentBits rows).length = rows.length := present_length rows
    obtain ⟨t, tl, henc, hnot1, hdec⟩ := header_roundtrip blockFloat64 (Or.inl rfl) pre
      (presentBits rows) post hpre (leWords (rows.filterMap id)) [] (by rw [hpl]; omega)
    rw [hpl, ← nullCount_eq] at henc
    have hcol : mkWordCol pre post rows =
        { val := leWords (rows.filterMap id), offs := [], bitmap := packLsb (pre ++ (presentBits rows ++ post)),
          bmOff := pre.length, len := rows.length, nilCount := nullCount rows } := rfl
    rw [hcol]
    simp only [CTy.block, henc]
    have hfl := filterMap_length_add rows
    obtain ⟨body, hb1⟩ := Option.isSome_iff_exists.mp
      (float_encode_total L.P L.snappy L.gorilla hdom (rows.filterMap id))
    have hb2 := float_frame_roundtrip L.P L.snappy L.unsnappy L.gorilla L.ungorilla hs hg _ _ hb1
    simp only [encodeBlock, wordsOf_leWords, hb1]
    obtain ⟨h, hh, hok⟩ := hdec body
    obtain ⟨c', hc1, hc2, hc3, hc4, hc5⟩ := appendFixed_view (presentBits rows) body h hok
      (leWords (rows.filterMap id)) (rows.filterMap id).length
      (by rw [← nullCount_eq, hpl]; exact hfl)
      (by
        intro hbe
        rw [hbe] at hb2
        have : rows.filterMap id = [] := by simpa [decodeFloat] using hb2.symm
        simp [this, leWords])
    refine ⟨_, c', rfl, ?_, ?_, ?_, ?_⟩
    · unfold decodeColSeg
      simp only [List.cons_append, hnot1, Bool.false_eq_true, if_false, CTy.block]
      rw [← List.cons_append, hh]
      simp only [hok.rest, hb2, Option.map_some]
      rw [← hok.rest]
      exact hc1
    · unfold wordRows
      rw [hc5, hc2, wordsOf_leWords]
      exact fillRows_present rows
    · rw [hc3, hpl]
    · rw [hc4, nullCount_eq]

theorem boolByte_ne (xs : List Bool) : (xs.map boolByte).map (· != 0) = xs := by
  induction xs with
  | nil => rfl
  | cons b bs ih => cases b <;> simp [boolByte, ih]

/-- **boolean column segment** -/
theorem colseg_bool_roundtrip (L : Libs) (pos : Nat)
    (pre post : List Bool) (hpre : pre.length < 8) (rows : List (Option Bool))
    (hlen : rows.length < 2 ^ 32) :
    ∃ bs c', encodeColSeg L .bool pos (mkBoolCol pre post rows) = some bs
      ∧ decodeColSeg L .bool bs = some c'
      ∧ boolRows c' = some rows ∧ c'.len = rows.length ∧ c'.nilCount = nullCount rows := by
  unfold encodeColSeg
  by_cases hone : canOneRow (mkBoolCol pre post rows) = true
  · obtain ⟨h1, h2, _⟩ := (canOneRow_spec _).mp hone
    simp only [mkBoolCol] at h1 h2
    obtain ⟨v, hr⟩ : ∃ v, rows = [some v] := by
      match rows, h1 with
      | [none], _ => simp at h2
      | [some v], _ => exact ⟨v, rfl⟩
    subst hr
    rw [if_pos hone]
    refine ⟨_, decodeOne [boolByte v] blockBooleanOne, rfl, ?_, ?_, rfl, ?_⟩
    · unfold decodeColSeg
      simp [CTy.one, isBlockOne, blockBooleanOne, blockOneBegin, blockOneEnd, mkBoolCol]
    · unfold boolRows
      rw [nilFlags_no_nil _ (by simp [decodeOne]) (by right; simp [decodeOne])]
      cases v <;> simp [decodeOne, fillRows, boolByte]
    · simp [decodeOne, nullCount]
  · rw [if_neg hone]
    have hpl : (presentBits rows).length = rows.length := present_length rows
    obtain ⟨t, tl, henc, hnot1, hdec⟩ := header_roundtrip blockBoolean (Or.inr (Or.inr (Or.inl rfl))) pre
      (presentBits rows) post hpre ((rows.filterMap id).map boolByte) [] (by rw [hpl]; omega)
    rw [hpl, ← nullCount_eq] at henc
    have hcol : mkBoolCol pre post rows =
        { val := (rows.filterMap id).map boolByte, offs := [],
          bitmap := packLsb (pre ++ (presentBits rows ++ post)),
          bmOff := pre.length, len := rows.length, nilCount := nullCount rows } := rfl
    rw [hcol]
    simp only [CTy.block, henc]
    have hfl := filterMap_length_add rows
    -- the block: nothing for an empty `Val`, the bit-packed frame otherwise
    obtain ⟨body, hb1, hb2, hb3⟩ : ∃ body,
        encodeBlock L .bool (pos + (t :: tl).length)
          { val := (rows.filterMap id).map boolByte, offs := [],
            bitmap := packLsb (pre ++ (presentBits rows ++ post)),
            bmOff := pre.length, len := rows.length, nilCount := nullCount rows } = some body
        ∧ decodeBool body = some (rows.filterMap id)
        ∧ (body = [] → rows.filterMap id = []) := by
      simp only [encodeBlock]
      by_cases hv : (rows.filterMap id).map boolByte = []
      · rw [if_pos hv]
        have : rows.filterMap id = [] := by simpa using hv
        exact ⟨[], rfl, by rw [this]; rfl, fun _ => this⟩
      · rw [if_neg hv, boolByte_ne]
        refine ⟨_, rfl, bool_roundtrip _ (by omega), ?_⟩
        intro h; simp [encodeBool] at h
    rw [hb1]
    obtain ⟨h, hh, hok⟩ := hdec body
    obtain ⟨c', hc1, hc2, hc3, hc4, hc5⟩ := appendFixed_view (presentBits rows) body h hok
      ((rows.filterMap id).map boolByte) (rows.filterMap id).length
      (by rw [← nullCount_eq, hpl]; exact hfl)
      (by intro hbe; simp [hb3 hbe])
    refine ⟨_, c', rfl, ?_, ?_, ?_, ?_⟩
    · unfold decodeColSeg
      simp only [List.cons_append, hnot1, Bool.false_eq_true, if_false, CTy.block]
      rw [← List.cons_append, hh]
      simp only [hok.rest, hb2, Option.map_some]
      rw [← hok.rest]
      exact hc1
    · unfold boolRows
      rw [hc5, hc2, boolByte_ne]
      exact fillRows_present rows
    · rw [hc3, hpl]
    · rw [hc4, nullCount_eq]

theorem getD_flatten_length (rows : List (Option Bytes)) :
    ∀ r ∈ rows, (r.getD []).length ≤ ((rows.map (·.getD [])).flatten).length := by
  intro r hr
  exact length_le_flatten _ _ (List.mem_map.mpr ⟨r, hr, rfl⟩)

/-- **string column segment**: every row — null, the empty string, any bytes — comes back as
stored, with any of the three compressors; `hsz` bounds the packed block by the 32-bit length
fields of its frame. -/
theorem colseg_str_roundtrip (L : Libs)
    (hty : L.strTy = stringCompressedSnappy ∨ L.strTy = stringCompressedZstd ∨ L.strTy = stringCompressedLz4)
    (hd : ∀ b, L.strDecomp L.strTy (L.strComp b) = some b)
    (hlz : L.strTy = stringCompressedLz4 → ∀ b, (L.strComp b).length ≠ 0)
    (pos : Nat) (pre post : List Bool) (hpre : pre.length < 8) (rows : List (Option Bytes))
    (hsz : (packStrings (rows.map (·.getD []))).length < 2 ^ 32) :
    ∃ bs c', encodeColSeg L .str pos (mkStrCol pre post rows) = some bs
      ∧ decodeColSeg L .str bs = some c'
      ∧ strRows c' = some rows ∧ c'.len = rows.length ∧ c'.nilCount = nullCount rows := by
  have hszl : (packStrings (rows.map (·.getD []))).length
      = 12 + (rows.map (·.getD [])).flatten.length + 4 * rows.length := by
    simp [packStrings]; omega
  unfold encodeColSeg
  by_cases hone : canOneRow (mkStrCol pre post rows) = true
  · obtain ⟨h1, h2, _⟩ := (canOneRow_spec _).mp hone
    simp only [mkStrCol] at h1 h2
    obtain ⟨v, hr, hv⟩ : ∃ v, rows = [some v] ∧ v ≠ [] := by
      match rows, h1 with
      | [none], _ => simp at h2
      | [some v], _ => exact ⟨v, rfl, by intro h; simp [h] at h2⟩
    subst hr
    rw [if_pos hone]
    refine ⟨_, decodeOne v blockStringOne, rfl, ?_, ?_, rfl, ?_⟩
    · unfold decodeColSeg
      simp [CTy.one, isBlockOne, blockStringOne, blockOneBegin, blockOneEnd, mkStrCol]
    · unfold strRows
      rw [nilFlags_no_nil _ (by simp [decodeOne, hv]) (by right; simp [decodeOne, hv])]
      simp [decodeOne, strAt]
    · simp [decodeOne, hv, nullCount]
  · rw [if_neg hone]
    have hpl : (presentBits rows).length = rows.length := present_length rows
    obtain ⟨t, tl, henc, hnot1, hdec⟩ := header_roundtrip blockString (Or.inr (Or.inr (Or.inr rfl))) pre
      (presentBits rows) post hpre ((rows.map (·.getD [])).flatten) (offsetsOf 0 (rows.map (·.getD [])))
      (by rw [hpl]; omega)
    rw [hpl, ← nullCount_eq] at henc
    have hcol : mkStrCol pre post rows =
        { val := (rows.map (·.getD [])).flatten, offs := offsetsOf 0 (rows.map (·.getD [])),
          bitmap := packLsb (pre ++ (presentBits rows ++ post)),
          bmOff := pre.length, len := rows.length, nilCount := nullCount rows } := rfl
    rw [hcol]
    simp only [CTy.block, henc, encodeBlock]
    by_cases hnil : rows = []
    · -- no rows: nothing is written after the header, nothing comes back
      subst hnil
      simp only [List.map_nil, offsetsOf, if_true]
      obtain ⟨h, hh, hok⟩ := hdec []
      refine ⟨_, {}, rfl, ?_, rfl, rfl, rfl⟩
      unfold decodeColSeg
      simp only [List.cons_append, hnot1, Bool.false_eq_true, if_false, CTy.block]
      rw [← List.cons_append, hh]
      simp [appendString, hok.rest, decodeStrings]
    · have hne : rows.map (·.getD []) ≠ [] := by simpa using hnil
      have hoff : offsetsOf 0 (rows.map (·.getD [])) ≠ [] := by
        intro h
        have := congrArg List.length h
        simp at this
        exact hnil this
      rw [if_neg hoff, packStringRaw_eq _ (by omega)]
      have hrt := string_block_roundtrip L.strTy hty L.strComp L.strDecomp hd hlz _ hne hsz
      have henc2 : encodeStrings L.strTy L.strComp (rows.map (·.getD []))
          = encodeStringBytes L.strTy L.strComp (packStrings (rows.map (·.getD []))) := by
        simp [encodeStrings, hne]
      rw [henc2] at hrt
      obtain ⟨h, hh, hok⟩ := hdec (encodeStringBytes L.strTy L.strComp (packStrings (rows.map (·.getD []))))
      have hso : (strOffsets (rows.map (·.getD []))).length = rows.length := by
        rw [← offsetsOf_eq_strOffsets _ hne (by omega)]; simp
      have hfresh := hok.fresh
      rw [hpl] at hfresh
      refine ⟨_, { val := (rows.map (·.getD [])).flatten, offs := strOffsets (rows.map (·.getD [])),
                   bitmap := packLsb (presentBits rows), len := rows.length,
                   nilCount := nullCount rows }, rfl, ?_, ?_, rfl, rfl⟩
      · unfold decodeColSeg
        simp only [List.cons_append, hnot1, Bool.false_eq_true, if_false, CTy.block]
        rw [← List.cons_append, hh]
        simp only [appendString, hok.rest, hrt, hso]
        rw [if_pos (by
          have : rows.length ≠ 0 := fun h => hnil (List.eq_nil_of_length_eq_zero h)
          omega), hfresh, hok.nil, ← nullCount_eq]
      · unfold strRows
        have hnf := nilFlags_aligned ((rows.map (·.getD [])).flatten) (strOffsets (rows.map (·.getD [])))
          (presentBits rows)
        rw [hpl, ← nullCount_eq] at hnf
        rw [hnf]
        simp only [Option.bind_some]
        rw [mapM_some _ (fun i => rows[i]?.getD none)]
        · rw [range_map_getElem?]
        · intro i hi
          have hi' : i < rows.length := by simpa using hi
          rw [← offsetsOf_eq_strOffsets _ hne (by omega)]
          have hs := strAt_offsetsOf (rows.map (·.getD [])) i (by simpa using hi')
          simp only [presentBits, List.getElem?_map, List.getElem?_eq_getElem hi', Option.map_some,
            Option.some.injEq, Bool.not_eq_eq_eq_not, Bool.not_true, Option.getD_some]
          rw [hs]
          cases hr : rows[i] <;> simp [hr]

theorem fillRows_all {α : Type} : ∀ xs : List α,
    fillRows (List.replicate xs.length false) xs = some (xs.map some)
  | [] => rfl
  | x :: xs => by simp [List.replicate_succ, fillRows, fillRows_all xs]

/-- **time column segment** (the time column has no nulls; the reader is
`appendTimeColumnData`). -/
theorem colseg_time_roundtrip (L : Libs) (hs : ∀ b, L.unsnappy (L.snappy b) = some b) (pos : Nat)
    (pre post : List Bool) (times : List W)
    (hlen : 8 * times.length < 2 ^ 32) :
    ∃ bs c', encodeColSeg L .time pos (mkWordCol pre post (times.map some)) = some bs
      ∧ decodeColSeg L .time bs = some c'
      ∧ wordRows c' = some (times.map some) ∧ c'.len = times.length ∧ c'.nilCount = 0 := by
  have hfm : (times.map some).filterMap id = times := by
    induction times with
    | nil => rfl
    | cons x xs ih => simp
  have hnc : nullCount (times.map some) = 0 := by
    unfold nullCount
    induction times with
    | nil => rfl
    | cons x xs ih => simp
  unfold encodeColSeg
  by_cases hone : canOneRow (mkWordCol pre post (times.map some)) = true
  · obtain ⟨v, hr, hv⟩ := oneRow_word pre post _ hone
    rw [if_pos hone, hv]
    have ht : times = [v] := by
      match times, hr with
      | [x], h => simpa using h
    subst ht
    refine ⟨_, decodeOne (le 8 v.toNat) blockIntegerOne, rfl, ?_, ?_, rfl, ?_⟩
    · unfold decodeColSeg
      simp [CTy.one, blockIntegerOne]
    · exact wordRows_one v _ (by decide)
    · have hne : le 8 v.toNat ≠ [] := by
        intro h; have := congrArg List.length h; simp at this
      simp [decodeOne, hne]
  · rw [if_neg hone]
    have p4 : (256 : Nat) ^ 4 = 2 ^ 32 := by decide
    have hcol : mkWordCol pre post (times.map some) =
        { val := leWords times, offs := [], bitmap := packLsb (pre ++ (presentBits (times.map some) ++ post)),
          bmOff := pre.length, len := times.length, nilCount := 0 } := by
      simp [mkWordCol, hfm, hnc]
    rw [hcol]
    have hhdr : encodeColumnHeader
        { val := leWords times, offs := [], bitmap := packLsb (pre ++ (presentBits (times.map some) ++ post)),
          bmOff := pre.length, len := times.length, nilCount := 0 } blockInteger
        = some (UInt8.ofNat blockIntegerFull :: be 4 times.length) := by
      simp [encodeColumnHeader, rewriteType, rewriteTypeToFull, blockInteger, blockFloat64, blockIntegerFull]
    obtain ⟨body, hb1, hb2⟩ := time_block_roundtrip L.snappy L.unsnappy hs
      (pos + (UInt8.ofNat blockIntegerFull :: be 4 times.length).length) times hlen
    simp only [CTy.block, hhdr, encodeBlock, wordsOf_leWords, hb1]
    refine ⟨_, { val := leWords times,
                 bitmap := if packLsb (List.replicate times.length true) = []
                   then packLsb (List.replicate times.length true)
                   else packLsb (List.replicate times.length true),
                 bmOff := 0, len := times.length, nilCount := 0 }, rfl, ?_, ?_, rfl, rfl⟩
    · unfold decodeColSeg
      simp only [List.cons_append]
      rw [if_neg (by decide)]
      unfold decodeTimeRest
      rw [← List.cons_append]
      unfold decodeColumnHeader
      simp only [List.cons_append, show isBlockFull (UInt8.ofNat blockIntegerFull).toNat = true by decide,
        if_true]
      rw [readBE_be_lt _ (by rw [p4]; omega)]
      simp only [hb2]
      by_cases he : packLsb (List.replicate times.length true) = []
      · simp [he]
      · simp [he]
    · unfold wordRows
      rw [nilFlags_no_nil _ rfl (by
        by_cases h0 : times.length = 0
        · left; exact h0
        · right
          simp only [ite_self]
          exact packLsb_ne_nil _ (by
            intro h; have := congrArg List.length h; simp at this; exact h0 (by simp [this])))]
      simp only [Option.bind_some, wordsOf_leWords]
      exact fillRows_all times

/-- **every column segment round-trips** — integer, float, boolean, string and time columns,
all rows: nulls anywhere, all-null segments, single-row segments, the non-null empty string,
segments whose validity bits start at a bit offset inside the shared bitmap. -/
theorem column_segment_roundtrip (L : Libs)
    (hz : ∀ b, L.unzstd (L.zstd b) = some b) (hs : ∀ b, L.unsnappy (L.snappy b) = some b)
    (hg : ∀ vs g, L.gorilla vs = some g → L.ungorilla g = some vs)
    (hdom : ∀ vs, (∀ v ∈ vs, isNaNorInf v = false) → (L.gorilla vs).isSome = true)
    (hty : L.strTy = stringCompressedSnappy ∨ L.strTy = stringCompressedZstd ∨ L.strTy = stringCompressedLz4)
    (hd : ∀ b, L.strDecomp L.strTy (L.strComp b) = some b)
    (hlz : L.strTy = stringCompressedLz4 → ∀ b, (L.strComp b).length ≠ 0)
    (pos : Nat) (pre post : List Bool) (hpre : pre.length < 8) :
    (∀ rows : List (Option W), 8 * rows.length < 2 ^ 32 →
      ∃ bs c', encodeColSeg L .int pos (mkWordCol pre post rows) = some bs
        ∧ decodeColSeg L .int bs = some c' ∧ wordRows c' = some rows) ∧
    (∀ rows : List (Option W), rows.length < 2 ^ 32 →
      ∃ bs c', encodeColSeg L .float pos (mkWordCol pre post rows) = some bs
        ∧ decodeColSeg L .float bs = some c' ∧ wordRows c' = some rows) ∧
    (∀ rows : List (Option Bool), rows.length < 2 ^ 32 →
      ∃ bs c', encodeColSeg L .bool pos (mkBoolCol pre post rows) = some bs
        ∧ decodeColSeg L .bool bs = some c' ∧ boolRows c' = some rows) ∧
    (∀ rows : List (Option Bytes), (packStrings (rows.map (·.getD []))).length < 2 ^ 32 →
      ∃ bs c', encodeColSeg L .str pos (mkStrCol pre post rows) = some bs
        ∧ decodeColSeg L .str bs = some c' ∧ strRows c' = some rows) ∧
    (∀ times : List W, 8 * times.length < 2 ^ 32 →
      ∃ bs c', encodeColSeg L .time pos (mkWordCol pre post (times.map some)) = some bs
        ∧ decodeColSeg L .time bs = some c' ∧ wordRows c' = some (times.map some)) := by
  refine ⟨?_, ?_, ?_, ?_, ?_⟩
  · intro rows h
    obtain ⟨bs, c', h1, h2, h3, _⟩ := colseg_int_roundtrip L hz pos pre post hpre rows h
    exact ⟨bs, c', h1, h2, h3⟩
  · intro rows h
    obtain ⟨bs, c', h1, h2, h3, _⟩ := colseg_float_roundtrip L hs hg hdom pos pre post hpre rows h
    exact ⟨bs, c', h1, h2, h3⟩
  · intro rows h
    obtain ⟨bs, c', h1, h2, h3, _⟩ := colseg_bool_roundtrip L pos pre post hpre rows h
    exact ⟨bs, c', h1, h2, h3⟩
  · intro rows h
    obtain ⟨bs, c', h1, h2, h3, _⟩ := colseg_str_roundtrip L hty hd hlz pos pre post hpre rows h
    exact ⟨bs, c', h1, h2, h3⟩
  · intro times h
    obtain ⟨bs, c', h1, h2, h3, _⟩ := colseg_time_roundtrip L hs pos pre post times h
    exact ⟨bs, c', h1, h2, h3⟩

/-! ### non-vacuity, and why the one-value form needs a payload -/

/-- identity "compressors" for the examples. -/
def idLibs : Libs :=
  { P := ⟨fun _ => true, fun _ => true⟩, zstd := id, unzstd := some, snappy := id, unsnappy := some,
    gorilla := fun _ => none, ungorilla := fun _ => none, strTy := 1, strComp := id,
    strDecomp := fun _ b => some b }

/-- a one-row segment holding the non-null empty string: not the one-value form but the `Full`
header and a one-string block, and it reads back as `""`, not as NULL. -/
example : encodeColSeg idLibs .str 0 (mkStrCol [] [] [some []])
    = some [34, 0, 0, 0, 1, 0x00, 0, 0, 0, 16, 0, 0, 0, 16, 0xff, 0xff, 0xff, 0xfe, 0, 0, 0, 0,
            0, 0, 0, 1, 0, 0, 0, 0] := by decide
example : (decodeColSeg idLibs .str [34, 0, 0, 0, 1, 0x00, 0, 0, 0, 16, 0, 0, 0, 16, 0xff, 0xff, 0xff,
    0xfe, 0, 0, 0, 0, 0, 0, 0, 1, 0, 0, 0, 0]).bind strRows = some [some []] := by decide
/-- one short string: the one-value form. -/
example : encodeColSeg idLibs .str 0 (mkStrCol [] [] [some [120]]) = some [20, 120] := by decide
/-- a null among values, validity bits at bit offset 3 of the shared bitmap. -/
example : encodeColSeg idLibs .int 0 (mkWordCol [true, true, false] [true] [some 5#64, none])
    = some [1, 0, 0, 0, 1, 0x2b, 0, 0, 0, 3, 0, 0, 0, 1,
            0x40, 0, 0, 0, 8, 0, 0, 0, 0, 0, 0, 0, 10] := by decide
example : (decodeColSeg idLibs .int [1, 0, 0, 0, 1, 0x2b, 0, 0, 0, 3, 0, 0, 0, 1,
    0x40, 0, 0, 0, 8, 0, 0, 0, 0, 0, 0, 0, 10]).bind wordRows = some [some 5#64, none] := by decide
/-- an all-null single row: the `Empty` header, no block. -/
example : encodeColSeg idLibs .float 0 (mkWordCol [] [] [none]) = some [41, 0, 0, 0, 1] := by decide

/-- **the one-value form cannot carry an empty payload**: a marker followed by nothing is read
as a NULL row (`DecodeColumnOfOneValue`), so a writer that chose it for the non-null empty string
— i.e. any one-row predicate weaker than `0 < len(Val)` — would turn `""` into NULL. -/
theorem one_value_form_without_payload_is_null :
    strRows (decodeOne [] blockStringOne) = some [none]
    ∧ wordRows (decodeOne [] blockIntegerOne) = some [none]
    ∧ (mkStrCol [] [] [some []]).val = [] := by decide

end OG.C07
