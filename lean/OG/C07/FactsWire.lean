/-
C07 — expectations about the regenerated facts of the wire codecs (`OG/Generated/C07.lean`,
section "wire codecs"): canonical text of the marshal / size functions the model transcribes,
field lists of the marshalled structures, fingerprints of the unmarshal functions.
-/
import OG.C07.WireCodec

namespace OG.C07.FactsWire
open OG.Gen.C07

theorem src_recordMarshal_expected : src_recordMarshal = "{ buf = codec.AppendUint32(buf, uint32(len(rec.Schema))) for i := 0; i < len(rec.Schema); i++ { buf = codec.AppendUint32(buf, uint32(rec.Schema[i].Size())) buf = rec.Schema[i].Marshal(buf) } buf = codec.AppendUint32(buf, uint32(len(rec.ColVals))) for i := 0; i < len(rec.ColVals); i++ { buf = codec.AppendUint32(buf, uint32(rec.ColVals[i].Size())) buf = rec.ColVals[i].Marshal(buf) } return buf }" := by rfl

theorem src_recordCodecSize_expected : src_recordCodecSize = "{ size := 0 size += codec.SizeOfUint32() for i := 0; i < len(rec.Schema); i++ { size += codec.SizeOfUint32() size += rec.Schema[i].Size() } size += codec.SizeOfUint32() for i := 0; i < len(rec.ColVals); i++ { size += codec.SizeOfUint32() size += rec.ColVals[i].Size() } return size }" := by rfl

theorem src_colValMarshal_expected : src_colValMarshal = "{ buf = codec.AppendInt(buf, cv.Len) buf = codec.AppendInt(buf, cv.NilCount) buf = codec.AppendInt(buf, cv.BitMapOffset) buf = codec.AppendBytes(buf, cv.Val) buf = codec.AppendBytes(buf, cv.Bitmap) buf = codec.AppendUint32SliceSafe(buf, cv.Offset) return buf }" := by rfl

theorem src_colValSize_expected : src_colValSize = "{ size := 0 size += codec.SizeOfInt() size += codec.SizeOfInt() size += codec.SizeOfInt() size += codec.SizeOfByteSlice(cv.Val) size += codec.SizeOfByteSlice(cv.Bitmap) size += codec.SizeOfUint32Slice(cv.Offset) return size }" := by rfl

theorem src_fieldMarshal_expected : src_fieldMarshal = "{ buf = codec.AppendString(buf, f.Name) buf = codec.AppendInt(buf, f.Type) return buf }" := by rfl

theorem src_fieldSize_expected : src_fieldSize = "{ size := 0 size += codec.SizeOfString(f.Name) size += codec.SizeOfInt() return size }" := by rfl

theorem src_writePointsResponseMarshal_expected : src_writePointsResponseMarshal = "{ buf = append(buf, r.Code) buf = encoding.MarshalUint16(buf, uint16(r.ErrCode)) buf = append(buf, r.Message...) return buf, nil }" := by rfl

theorem src_writeBlobsResponseMarshal_expected : src_writeBlobsResponseMarshal = "{ buf = append(buf, r.Code) buf = encoding.MarshalUint16(buf, uint16(r.ErrCode)) buf = append(buf, r.Message...) return buf, nil }" := by rfl

theorem src_writeStreamPointsResponseMarshal_expected : src_writeStreamPointsResponseMarshal = "{ buf = append(buf, r.Code) buf = encoding.MarshalUint16(buf, uint16(r.ErrCode)) buf = append(buf, r.Message...) return buf, nil }" := by rfl

theorem src_streamVarMarshal_expected : src_streamVarMarshal = "{ var err error buf = codec.AppendBool(buf, s.Only) buf = codec.AppendUint64Slice(buf, s.Id) return buf, err }" := by rfl

theorem src_writeStreamPointsRequestMarshal_expected : src_writeStreamPointsRequestMarshal = "{ var err error buf = codec.AppendBytes(buf, w.points) buf = codec.AppendUint32(buf, uint32(len(w.streamVars))) for _, item := range w.streamVars { if item == nil { buf = codec.AppendUint32(buf, 0) continue } buf = codec.AppendUint32(buf, uint32(item.Size())) buf, err = item.Marshal(buf) if err != nil { return nil, err } } return buf, err }" := by rfl

theorem src_dataWrapperMarshal_expected : src_dataWrapperMarshal = "{ var dst []byte dst = encoding.MarshalUint32(dst, uint32(d.DataType)) dst = append(dst, uint8(len(d.Identity))) dst = append(dst, []byte(d.Identity)...) dst = encoding.MarshalUint64(dst, d.ProposeId) dst = append(dst, d.Data...) return dst }" := by rfl

theorem src_dataWrapperUnmarshal_expected : src_dataWrapperUnmarshal = "{ dataType := encoding.UnmarshalUint32(dst[:4]) dst = dst[4:] l := int(dst[0]) if len(dst) <= l { return nil, fmt.Errorf(\"dataWrapper no data for database\") } dst = dst[1:] identity := util.Bytes2str(dst[:l]) dst = dst[l:] proposeId := encoding.UnmarshalUint64(dst) return &DataWrapper{ DataType: DataType(dataType), Data: dst[8:], Identity: identity, ProposeId: proposeId, }, nil }" := by rfl

theorem src_appendString_expected : src_appendString = "{ b = AppendUint16(b, uint16(len(s))) b = append(b, s...) return b }" := by rfl

theorem src_appendBytes_expected : src_appendBytes = "{ b = AppendUint32(b, uint32(len(buf))) b = append(b, buf...) return b }" := by rfl

theorem src_appendUint32SliceSafe_expected : src_appendUint32SliceSafe = "{ b = AppendUint32(b, uint32(len(a))) if len(a) == 0 { return b } for _, v := range a { b = binary.LittleEndian.AppendUint32(b, v) } return b }" := by rfl

theorem src_appendUint64Slice_expected : src_appendUint64Slice = "{ b = AppendUint32(b, uint32(len(a))) if len(a) == 0 { return b } b = append(b, util.Uint64Slice2byte(a)...) return b }" := by rfl

theorem src_appendInt_expected : src_appendInt = "{ return AppendInt64(b, int64(i)) }" := by rfl

theorem src_appendInt64_expected : src_appendInt64 = "{ return encoding.MarshalInt64(b, i) }" := by rfl

theorem src_vmMarshalInt64_expected : src_vmMarshalInt64 = "{ v = (v << 1) ^ (v >> 63) u := uint64(v) return append(dst, byte(u>>56), byte(u>>48), byte(u>>40), byte(u>>32), byte(u>>24), byte(u>>16), byte(u>>8), byte(u)) }" := by rfl

theorem src_vmUnmarshalInt64_expected : src_vmUnmarshalInt64 = "{ u := binary.BigEndian.Uint64(src) v := int64(u>>1) ^ (int64(u<<63) >> 63) return v }" := by rfl

theorem fields_Record_expected : fields_Record = ["*RecMeta", "ColVals []ColVal", "Schema Schemas"] := by rfl

theorem fields_Field_expected : fields_Field = ["Type int", "Name string"] := by rfl

theorem fields_WritePointsResponse_expected : fields_WritePointsResponse = ["Code uint8", "ErrCode errno.Errno", "Message string"] := by rfl

theorem fields_StreamVar_expected : fields_StreamVar = ["Only bool", "Id []uint64"] := by rfl

theorem fields_WriteStreamPointsRequest_expected : fields_WriteStreamPointsRequest = ["points []byte", "streamVars []*StreamVar"] := by rfl

theorem fields_DataWrapper_expected : fields_DataWrapper = ["Data []byte", "DataType DataType", "Identity string", "ProposeId uint64"] := by rfl

theorem fp_wire_expected :
    [fp_recordUnmarshal, fp_colValUnmarshal, fp_fieldUnmarshal, fp_writePointsResponseUnmarshal, fp_writeBlobsResponseUnmarshal, fp_writeStreamPointsResponseUnmarshal, fp_streamVarUnmarshal, fp_streamVarSize, fp_writeStreamPointsRequestUnmarshal, fp_decInt, fp_decBool, fp_decUint32, fp_decBytesNoCopy, fp_decBytes, fp_decUint32SliceLE, fp_decUint64Slice] =
    ["e7b255ffbab45832", "ca9b9edc6397320c", "f0fa539c810afff7", "6e63e6f1ef2f1686", "6e63e6f1ef2f1686", "6e63e6f1ef2f1686", "a429e4af8be41e80", "b4e2f4cf10a60d74", "d7981ae0918281d1", "f2e092f5fdbbd5d7", "eb31287883836c03", "3d5183d6c746491a", "65283111744194b6", "697db01d0c341afd", "7d73a977916f62a3", "8905cbf49cc42514"] := by rfl

end OG.C07.FactsWire
