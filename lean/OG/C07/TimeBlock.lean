/-
C07 — timestamp blocks: `encoding.Time.Encoding / Decoding` (lib/encoding/timestamp.go) as called
by `EncodeTimestampBlock` / `DecodeTimestampBlock`.

Input: the uint64 view of the times (`util.Bytes2Uint64Slice(in)`), as `BitVec 64`; deltas are
wrapping uint64 differences, *not* zig-zagged.  `isSimple8b` is decided on the unscaled deltas
(`< MaxValue`, strict); the decimal `scale` starts from the last delta (`scale()` never returns
`scales[0]`: its loop stops at index 1) and is divided by ten until it divides every delta.
snappy is an opaque pair.
-/
import OG.C07.IntBlock

namespace OG.C07
open OG.Gen.C07

/-- `scale(v)`: the largest of `scales[len-1] … scales[1]` dividing `v`, else 1. -/
def scaleOf (v : Nat) : Nat :=
  ((scales.drop 1).reverse.find? fun s => v % s == 0).getD 1

/-- `for enc.scale > 1 && d % enc.scale != 0 { enc.scale /= 10 }`. -/
def reduceScale : Nat → Nat → Nat → Nat
  | 0, s, _ => s
  | fuel + 1, s, d => if s > 1 ∧ d % s ≠ 0 then reduceScale fuel (s / 10) d else s

/-- fuel for `reduceScale`: a uint64 scale can be divided by ten at most 20 times. -/
def scaleFuel : Nat := 20

structure TimeInit where
  scale : Nat
  isConstDelta : Bool
  isSimple8b : Bool

/-- the loop of `encodingInit` over the deltas `d₁ … d_{n-1}` (Nat values), walking from the
last delta to the first: `go` receives the deltas in reverse order. -/
def timeInitGo : List Nat → Nat → TimeInit → TimeInit
  | [], _, st => st
  | d :: more, next, st =>
    timeInitGo more d
      { scale := reduceScale scaleFuel st.scale d
        isConstDelta := st.isConstDelta && d == next
        isSimple8b := st.isSimple8b && decide (d < simple8bMaxValue) }

def timeInit (ds : List Nat) : TimeInit :=
  match ds.reverse with
  | [] => { scale := 1, isConstDelta := true, isSimple8b := true }   -- not reached (n ≥ 3)
  | last :: more =>
    timeInitGo more last
      { scale := scaleOf last, isConstDelta := true, isSimple8b := decide (last < simple8bMaxValue) }

/-- `packUncompressedData` -/
def timeUncompressedBytes (xs : List W) : Bytes :=
  modeByte timeUncompressed :: (be 4 (8 * xs.length) ++ beWords 8 (xs.map fun x => (marshalInt64Zz x).toNat))

/-- `Time.Encoding` (`none` = error return). -/
def encodeTime (snappy : Bytes → Bytes) (pos : Nat) (xs : List W) : Option Bytes :=
  match xs with
  | t0 :: t1 :: t2 :: rest =>
    let ds := (deltas t0 (t1 :: t2 :: rest)).map (·.toNat)
    let st := timeInit ds
    if st.isConstDelta then
      some (modeByte timeCompressedConstDelta :: (be 8 t0.toNat ++ (putUvarint (t1 - t0).toNat
            ++ putUvarint ds.length)))
    else if st.isSimple8b then
      let scaled := if st.scale > 1 then ds.map (· / st.scale) else ds
      match encodeAll scaled with
      | none => none
      | some ws =>
        some (modeByte timeCompressedSimple8b :: (be 8 st.scale ++ (be 4 (ws.length + 1)
              ++ (be 4 (ds.length + 1) ++ beWords 8 (t0.toNat :: ws)))))
    else
      let inp := leWords xs
      let enc := snappy inp
      if ratioLT (pos + 9 + enc.length) inp.length minCompRetaNum minCompRetaDen then
        some (modeByte timeCompressSnappy :: (be 4 inp.length ++ (be 4 enc.length ++ enc)))
      else some (timeUncompressedBytes xs)
  | _ => some (timeUncompressedBytes xs)

/-- simple8b loop of the time decoder: `times[idx] = times[idx-1] + values[i]*timeScale`. -/
def timeRun (scale : W) (prev : W) : List Nat → Option (List W)
  | [] => some []
  | w :: ws => do
    let vs ← decodeWord w
    let out := undeltas prev (vs.map fun v => BitVec.ofNat 64 v * scale)
    let rest ← timeRun scale (lastOr prev out) ws
    pure (out ++ rest)

def decodeTimeRaw (inp : Bytes) : Option (List W) := do
  let (srcLen, r1) ← readBE 4 inp
  if r1.length < srcLen then none
  else pure ((unbeWords 8 r1.length r1).map fun w => unmarshalInt64Zz (BitVec.ofNat 64 w))

def decodeTimeConst (inp : Bytes) : Option (List W) :=
  if (inp.take 8).length < 8 then none
  else do
    let (first, r1) ← readBE 8 inp
    let (delta, n) ← uvarint r1
    let (count, _) ← uvarint (r1.drop n)
    let v0 : W := BitVec.ofNat 64 first
    pure (v0 :: constRun v0 (BitVec.ofNat 64 delta) count)

def decodeTimeS8b (inp : Bytes) : Option (List W) :=
  if (inp.take 24).length < 24 then none
  else do
    let (scale, r0) ← readBE 8 inp
    let (encCount, r1) ← readBE 4 r0
    let (srcCount, r2) ← readBE 4 r1
    if (r2.take (encCount * 8)).length < encCount * 8 then none
    else
      match unbeWords 8 encCount (r2.take (encCount * 8)) with
      | [] => none
      | first :: ws => do
        let v0 : W := BitVec.ofNat 64 first
        let rest ← timeRun (BitVec.ofNat 64 scale) v0 ws
        if rest.length + 1 = srcCount then pure (v0 :: rest) else none

def decodeTimeSnappy (unsnappy : Bytes → Option Bytes) (inp : Bytes) : Option (List W) := do
  let (srcLen, r1) ← readBE 4 inp
  let (compLen, r2) ← readBE 4 r1
  if (r2.take compLen).length < compLen then none
  else
    let dec ← unsnappy (r2.take compLen)
    if dec.length ≠ srcLen then none   -- panic("len(decData) != srcLen")
    else pure (unleWords dec.length dec)

def decodeTimeBody (unsnappy : Bytes → Option Bytes) (ty : Nat) (inp : Bytes) : Option (List W) :=
  if ty = timeUncompressed then decodeTimeRaw inp
  else if ty = timeCompressedConstDelta then decodeTimeConst inp
  else if ty = timeCompressedSimple8b then decodeTimeS8b inp
  else if ty = timeCompressSnappy then decodeTimeSnappy unsnappy inp
  else none

/-- `DecodeTimestampBlock` → `Time.Decoding`; `none` = error return or panic. -/
def decodeTime (unsnappy : Bytes → Option Bytes) : Bytes → Option (List W)
  | [] => none
  | t :: inp => if (inp.take 4).length < 4 then none else decodeTimeBody unsnappy (t.toNat / 16) inp

end OG.C07
